/-
C12: what the primitive store functions do to the abstraction `absAt`
(what readBytes would deliver for each part).
-/
import XlModel.Lemmas.Store5

namespace XlModel.Store
open XlModel AMap

theorem sstPath_ne_sstKey : Facts.C12.sstPath ≠ sstKey := by decide

/-- a state that differs only by one Pkg store -/
theorem abs_pkg_store {st st' : St} {n : String} {b : Blob}
    (hp : st'.pkg = store st.pkg n b) (ht : st'.temp = st.temp) (hd : st'.disk = st.disk) (n' : String) :
    absAt st' n' = if n' = n then absOf (some b) (rtOf st.temp st.disk n) else absAt st n' := by
  rw [absAt_eq, absAt_eq, hp, ht, hd, load_store]
  by_cases h : n' = n
  · subst h; simp
  · simp [h]

theorem absOf_some_nonempty {b : Blob} (hb : b.len ≠ 0) (t : Option Blob) : absOf (some b) t = some b := by
  simp [absOf, hb]

/-- a state that differs only in fields the abstraction does not read -/
theorem abs_frame {st st' : St} (hp : st'.pkg = st.pkg) (ht : st'.temp = st.temp) (hd : st'.disk = st.disk)
    (n' : String) : absAt st' n' = absAt st n' := by
  rw [absAt_eq, absAt_eq, hp, ht, hd]

theorem rt_some_of_spilled {st : St} (i : Inv st) {n : String} {id : Nat} (h : load st.temp n = some id) :
    ∃ t, load st.disk id = some t ∧ rtOf st.temp st.disk n = some t := by
  have hm := i.core.on_disk h
  cases hl : load st.disk id with
  | none => exact absurd hm ((load_eq_none_iff _ _).1 hl)
  | some t => exact ⟨t, rfl, by simp only [rtOf, h, hl]⟩

/-- lib.go readBytes: returns the abstract content; the abstraction changes only when a part
that does not exist at all is read (it is created, empty) -/
theorem readBytes_spec {st : St} (i : Inv st) (n : String) :
    (∀ n', absAt (readBytes st n).1 n' = if n' = n ∧ absAt st n = none then some emptyBlob else absAt st n') ∧
    (readBytes st n).2 = (absAt st n).getD emptyBlob := by
  have hf : Facts.C12.readBytesPromotes = true := by decide
  have habs := absAt_eq st n
  unfold readBytes readXML
  cases hp : load st.pkg n with
  | some b =>
    rw [hp] at habs
    by_cases hb : b.len = 0
    · cases ht : load st.temp n with
      | none =>
        have hr : rtOf st.temp st.disk n = none := by unfold rtOf; rw [ht]
        have ha : absAt st n = some b := by rw [habs, hr]; simp [absOf, hb]
        simp only [Option.getD_some, hb, ne_eq, not_true_eq_false, if_false, hf, if_true, ha]
        refine ⟨fun n' => ?_, trivial⟩
        rw [abs_pkg_store (st := st) (st' := { st with pkg := store st.pkg n b }) (n := n) (b := b) rfl rfl rfl, hr]
        by_cases h : n' = n
        · subst h; simp [absOf, hb, ha]
        · simp [h]
      | some id =>
        obtain ⟨t, hd, hr⟩ := rt_some_of_spilled i ht
        have ha : absAt st n = some t := by rw [habs, hr]; simp [absOf, hb]
        simp only [Option.getD_some, hb, ne_eq, not_true_eq_false, if_false, hf, if_true, ha, hd]
        refine ⟨fun n' => ?_, trivial⟩
        rw [abs_pkg_store (st := st) (st' := { st with pkg := store st.pkg n t }) (n := n) (b := t) rfl rfl rfl, hr]
        by_cases h : n' = n
        · subst h; simp [absOf_some_same, ha]
        · simp [h]
    · have ha : absAt st n = some b := by rw [habs]; exact absOf_some_nonempty hb _
      simp only [Option.getD_some, ne_eq, hb, not_false_eq_true, if_true, ha]
      refine ⟨fun n' => ?_, trivial⟩
      by_cases h : n' = n <;> simp [h, ha]
  | none =>
    rw [hp] at habs
    have he : emptyBlob.len = 0 := rfl
    cases ht : load st.temp n with
    | none =>
      have hr : rtOf st.temp st.disk n = none := by unfold rtOf; rw [ht]
      have ha : absAt st n = none := by rw [habs, hr]; rfl
      simp only [Option.getD_none, he, ne_eq, not_true_eq_false, if_false, hf, if_true, ha]
      refine ⟨fun n' => ?_, trivial⟩
      rw [abs_pkg_store (st := st) (st' := { st with pkg := store st.pkg n emptyBlob }) (n := n) (b := emptyBlob) rfl rfl rfl, hr]
      by_cases h : n' = n
      · subst h; simp [absOf_some_none]
      · simp [h]
    | some id =>
      obtain ⟨t, hd, hr⟩ := rt_some_of_spilled i ht
      have ha : absAt st n = some t := by rw [habs, hr]; rfl
      simp only [Option.getD_none, he, ne_eq, not_true_eq_false, if_false, hf, if_true, ha, hd, Option.getD_some]
      refine ⟨fun n' => ?_, trivial⟩
      rw [abs_pkg_store (st := st) (st' := { st with pkg := store st.pkg n t }) (n := n) (b := t) rfl rfl rfl, hr]
      by_cases h : n' = n
      · subst h; simp [absOf_some_same, ha]
      · simp [h]

/-- rows.go xmlDecoder: a streaming read delivers the abstract content -/
theorem stream_spec (st : St) (n : String) : stream st n = (absAt st n).getD emptyBlob := by
  rw [absAt_eq]
  unfold stream readXML
  rw [readTemp_eq]
  cases hp : load st.pkg n with
  | some b =>
    by_cases hb : b.len = 0
    · simp [absOf, hb]
    · simp [absOf, hb]
  | none =>
    have he : emptyBlob.len = 0 := rfl
    simp [absOf, he]

/-! ### shared strings -/

theorem sstItem_abs {st : St} (i : Inv st) (flat : Blob) {n' : String} (h : n' ≠ sstKey) :
    absAt (sstItem st flat) n' = absAt st n' := by
  unfold sstItem
  split
  · cases hs : st.sstTemp with
    | some id => rfl
    | none =>
      simp only []
      rw [absAt_eq, absAt_eq]
      show absOf (load st.pkg n') (rtOf (store st.temp Facts.C12.sstTempKey st.next) (store st.disk st.next flat) n') = _
      have := rt_add i.core flat (i.sst0 hs) n'
      unfold sstKey at this h
      rw [this]
      simp [h]
  · rfl

theorem sstLoad2_abs {st : St} (i : Inv st) {n' : String} (h : n' ≠ sstKey) :
    absAt (sstLoad2 st) n' = absAt st n' := by
  unfold sstLoad2
  cases hs : st.sstTemp with
  | none => rfl
  | some id =>
    simp only []
    rw [absAt_eq, absAt_eq]
    show absOf (load st.pkg n') (rtOf (erase st.temp Facts.C12.sstTempKey) (erase st.disk id) n') = _
    rcases i.sst1 id hs with hl | ⟨hn, hd⟩
    · have := rt_remove i.core hl n'
      unfold sstKey at this h
      rw [this]
      simp [h]
    · have e1 : erase st.temp Facts.C12.sstTempKey = st.temp := erase_of_load_none _ _ hn
      rw [e1, erase_of_not_mem _ _ hd]

/-- the state of sharedStringsLoader after promoting the spilled table and removing its file -/
def sstLoadMid (st : St) (id : Nat) : St :=
  { (readBytes st Facts.C12.sstPath).1 with
    pkg := store (readBytes st Facts.C12.sstPath).1.pkg Facts.C12.sstPath (readBytes st Facts.C12.sstPath).2,
    temp := erase st.temp Facts.C12.sstPath, disk := erase st.disk id, sstLoaded := false }

theorem sstLoad_eq_mid {st : St} (i : Inv st) {id : Nat} (h : load st.temp Facts.C12.sstPath = some id) :
    sstLoad st = sstLoad2 (sstLoadMid st id) := by
  have f := readBytes_frame st Facts.C12.sstPath
  have hd : has st.disk id = true := (has_iff _ _).2 (i.core.on_disk h)
  unfold sstLoad sstLoadMid
  simp only [h]
  rw [f.2.1, hd, f.1]
  simp only [if_true]

theorem sstLoadMid_inv {st : St} (i : Inv st) {id : Nat} (h : load st.temp Facts.C12.sstPath = some id) :
    Inv (sstLoadMid st id) := by
  have f := readBytes_frame st Facts.C12.sstPath
  refine ⟨?_, ?_, ?_⟩
  · show Core (erase st.temp Facts.C12.sstPath) (erase st.disk id) (readBytes st Facts.C12.sstPath).1.next
    rw [f.2.2.1]; exact i.core.remove h
  · intro j hj
    have hj' : (readBytes st Facts.C12.sstPath).1.sstTemp = some j := hj
    rw [f.2.2.2] at hj'
    exact sst1_erase Facts.C12.sstPath id (i.sst1 j hj') (fun e => sstKey_ne_sstPath e.symm)
  · intro hj
    have hj' : (readBytes st Facts.C12.sstPath).1.sstTemp = none := hj
    rw [f.2.2.2] at hj'
    show load (erase st.temp Facts.C12.sstPath) sstKey = none
    rw [load_erase_ne _ sstKey_ne_sstPath]; exact i.sst0 hj'

theorem sstLoadMid_abs {st : St} (i : Inv st) {id : Nat} (h : load st.temp Facts.C12.sstPath = some id) (n' : String) :
    absAt (sstLoadMid st id) n' = absAt st n' := by
  have f := readBytes_frame st Facts.C12.sstPath
  have rb := readBytes_spec i Facts.C12.sstPath
  obtain ⟨t, _, hr⟩ := rt_some_of_spilled i h
  have hsome : ∃ x, absAt st Facts.C12.sstPath = some x := by
    rw [absAt_eq, hr]
    cases load st.pkg Facts.C12.sstPath with
    | none => exact ⟨t, rfl⟩
    | some b => by_cases hb : b.len = 0 <;> simp [absOf, hb]
  obtain ⟨x, hx⟩ := hsome
  rw [absAt_eq]
  show absOf (load (store (readBytes st Facts.C12.sstPath).1.pkg Facts.C12.sstPath (readBytes st Facts.C12.sstPath).2) n')
    (rtOf (erase st.temp Facts.C12.sstPath) (erase st.disk id) n') = _
  rw [rt_remove i.core h, load_store]
  by_cases hn : n' = Facts.C12.sstPath
  · subst hn
    simp only [if_true]
    rw [rb.2, hx, absOf_some_none]
    rfl
  · simp only [hn, if_false]
    have h1 := rb.1 n'
    rw [absAt_eq, f.1, f.2.1] at h1
    rw [h1]
    simp [hn]

theorem sstLoad_abs {st : St} (i : Inv st) {n' : String} (h : n' ≠ sstKey) : absAt (sstLoad st) n' = absAt st n' := by
  cases ht : load st.temp Facts.C12.sstPath with
  | none =>
    have : sstLoad st = sstLoad2 st := by unfold sstLoad; simp only [ht]
    rw [this]; exact sstLoad2_abs i h
  | some id =>
    rw [sstLoad_eq_mid i ht, sstLoad2_abs (sstLoadMid_inv i ht) h, sstLoadMid_abs i ht]

/-- after the loader the shared strings part is no longer spilled -/
theorem sstLoad_temp_none {st : St} (i : Inv st) : load (sstLoad st).temp Facts.C12.sstPath = none := by
  have h2 : ∀ s : St, load (sstLoad2 s).temp Facts.C12.sstPath = load s.temp Facts.C12.sstPath := by
    intro s
    unfold sstLoad2
    cases s.sstTemp with
    | none => rfl
    | some id => exact load_erase_ne _ sstPath_ne_sstKey
  cases ht : load st.temp Facts.C12.sstPath with
  | none =>
    have : sstLoad st = sstLoad2 st := by unfold sstLoad; simp only [ht]
    rw [this, h2, ht]
  | some id =>
    rw [sstLoad_eq_mid i ht, h2]
    exact load_erase_self _ _

/-- flags after the loader: SharedStrings is reset exactly when the table was spilled -/
theorem sstLoad_flags {st : St} (i : Inv st) :
    (sstLoad st).loaded = st.loaded ∧ (sstLoad st).dirty = st.dirty ∧
    (sstLoad st).sstLoaded = (if (load st.temp Facts.C12.sstPath).isSome then false else st.sstLoaded) := by
  have h2 : ∀ s : St, (sstLoad2 s).loaded = s.loaded ∧ (sstLoad2 s).dirty = s.dirty ∧ (sstLoad2 s).sstLoaded = s.sstLoaded := by
    intro s
    unfold sstLoad2
    cases s.sstTemp <;> exact ⟨rfl, rfl, rfl⟩
  cases ht : load st.temp Facts.C12.sstPath with
  | none =>
    have : sstLoad st = sstLoad2 st := by unfold sstLoad; simp only [ht]
    rw [this]; simpa using h2 st
  | some id =>
    rw [sstLoad_eq_mid i ht]
    have := h2 (sstLoadMid st id)
    have hl : (readBytes st Facts.C12.sstPath).1.loaded = st.loaded ∧ (readBytes st Facts.C12.sstPath).1.dirty = st.dirty := by
      unfold readBytes
      dsimp only
      split
      · exact ⟨rfl, rfl⟩
      · split
        · split <;> exact ⟨rfl, rfl⟩
        · split
          · exact ⟨rfl, rfl⟩
          · split <;> exact ⟨rfl, rfl⟩
    refine ⟨this.1.trans hl.1, this.2.1.trans hl.2, ?_⟩
    rw [this.2.2]; rfl

end XlModel.Store
