/-
C12: the two-tier store refines the plain map, step by step.
-/
import XlModel.Lemmas.Store6

namespace XlModel.Store
open XlModel AMap

/-- the store, read through readBytes, is the map `m` on every part name (the key of the
shared-string index file is not a part name) -/
def AgreeX (st : St) (m : Map Blob) : Prop := ∀ n', n' ≠ sstKey → absAt st n' = load m n'

/-- refinement relation between the two-tier store and the plain-map machine -/
structure R (st : St) (sp : Spec.S) : Prop where
  inv : Inv st
  abs : AgreeX st sp.m
  loaded : st.loaded = sp.loaded
  dirty : st.dirty = sp.dirty
  sst : st.sstLoaded = sp.sstLoaded ∨
    (st.sstLoaded = false ∧ st.dirty = false ∧ (load sp.m Facts.C12.sstPath).isSome = true)
  clean : st.dirty = true → load st.temp Facts.C12.sstPath = none

def NonEmpty (l : List (String × Blob)) : Prop := ∀ p ∈ l, p.2.len ≠ 0

/-- admissible operations: part names are not the index key; written serialisations are
non-empty (saveFileList prepends the XML header); re-marshalling an *unmodified* shared string
table yields the bytes it was decoded from -/
def Adm (sp : Spec.S) : Op → Prop
  | .readBytes n => n ≠ sstKey
  | .wsRead n => n ≠ sstKey
  | .flush _ ser => ser.len ≠ 0
  | .stream n => n ≠ sstKey
  | .save w s o => NonEmpty w ∧ NonEmpty o ∧ s.len ≠ 0 ∧
      (sp.dirty = false → ∀ b, load (Spec.wsWrite (storeAll sp.m o) w sp.loaded) Facts.C12.sstPath = some b → s = b)
  | .forget n rels =>   -- DeleteSheet: a worksheet part and its rels part (which is never a spillable part)
      n ≠ sstKey ∧ rels ≠ sstKey ∧ n ≠ Facts.C12.sstPath ∧ rels ≠ Facts.C12.sstPath ∧
      isSheet rels = false ∧ isSST rels = false
  | _ => True

def outOk : Out → Out → Prop
  | .none, .none => True
  | .blob a, .blob b => a = b
  | .zip _, .zip _ => True
  | _, _ => False

/-! ### small facts -/

theorem readBytes_flags (st : St) (n : String) :
    (readBytes st n).1.loaded = st.loaded ∧ (readBytes st n).1.dirty = st.dirty ∧
    (readBytes st n).1.sstLoaded = st.sstLoaded := by
  unfold readBytes
  dsimp only
  split
  · exact ⟨rfl, rfl, rfl⟩
  · split
    · split <;> exact ⟨rfl, rfl, rfl⟩
    · split
      · exact ⟨rfl, rfl, rfl⟩
      · split <;> exact ⟨rfl, rfl, rfl⟩

theorem touch_load (sp : Spec.S) (n n' : String) :
    load (Spec.touch sp n).m n' = if n' = n ∧ load sp.m n = none then some emptyBlob else load sp.m n' := by
  unfold Spec.touch
  cases h : load sp.m n with
  | none =>
    simp only [Option.isNone_none, if_true, load_store]
    by_cases e : n' = n <;> simp [e]
  | some b =>
    simp only [Option.isNone_some, Bool.false_eq_true, if_false]
    by_cases e : n' = n <;> simp [e]

theorem touch_flags (sp : Spec.S) (n : String) :
    (Spec.touch sp n).loaded = sp.loaded ∧ (Spec.touch sp n).dirty = sp.dirty ∧
    (Spec.touch sp n).sstLoaded = sp.sstLoaded := by
  unfold Spec.touch
  split <;> exact ⟨rfl, rfl, rfl⟩

theorem isSome_store {m : Map Blob} {k : String} (h : (load m k).isSome = true) (n : String) (b : Blob) :
    (load (store m n b) k).isSome = true := by
  rw [load_store]
  by_cases e : k = n <;> simp [e, h]

theorem isSome_touch {sp : Spec.S} {k : String} (h : (load sp.m k).isSome = true) (n : String) :
    (load (Spec.touch sp n).m k).isSome = true := by
  rw [touch_load]
  split
  · rfl
  · exact h

theorem isSome_storeAll : ∀ (o : List (String × Blob)) {m : Map Blob} {k : String},
    (load m k).isSome = true → (load (storeAll m o) k).isSome = true
  | [], _, _, h => h
  | (n, b) :: r, _, _, h => isSome_storeAll r (isSome_store h n b)

theorem isSome_wsWrite (w : Map Blob) : ∀ (ns : List String) {m : Map Blob} {k : String},
    (load m k).isSome = true → (load (Spec.wsWrite m w ns) k).isSome = true
  | [], _, _, h => h
  | n :: r, _, _, h => isSome_wsWrite w r (isSome_store h n _)

theorem agree_store {st st' : St} {m : Map Blob} {n : String} {b : Blob} (a : AgreeX st m) (hb : b.len ≠ 0)
    (hp : st'.pkg = store st.pkg n b) (ht : st'.temp = st.temp) (hd : st'.disk = st.disk) :
    AgreeX st' (store m n b) := by
  intro n' hn'
  rw [abs_pkg_store hp ht hd, load_store, absOf_some_nonempty hb]
  by_cases e : n' = n
  · simp [e]
  · simp [e, a n' hn']

theorem storeAll_agree : ∀ (o : List (String × Blob)) (st : St) (m : Map Blob), AgreeX st m → NonEmpty o →
    AgreeX { st with pkg := storeAll st.pkg o } (storeAll m o)
  | [], st, m, a, _ => a
  | (n, b) :: r, st, m, a, ne =>
    storeAll_agree r { st with pkg := store st.pkg n b } (store m n b)
      (agree_store a (ne (n, b) (by simp)) rfl rfl rfl) (fun p hp => ne p (by simp [hp]))

theorem mem_of_load {m : Map Blob} {k : String} {v : Blob} (h : load m k = some v) : (k, v) ∈ m := by
  induction m with
  | nil => cases h
  | cons p m ih =>
    obtain ⟨a, b⟩ := p
    by_cases e : a = k
    · simp [load, e] at h; simp [e, h]
    · simp [load, e] at h; simp [ih h]

theorem wsBlob_nonempty {w : Map Blob} (ne : NonEmpty w) (n : String) :
    ((load w n).getD ⟨"unserialised", 1⟩).len ≠ 0 := by
  cases h : load w n with
  | none => simp
  | some v => simpa using ne (n, v) (mem_of_load h)

theorem wsWrite_eq (w : Map Blob) : ∀ (ns : List String) (m : Map Blob), wsWrite m w ns = Spec.wsWrite m w ns
  | [], _ => rfl
  | n :: r, m => by simp only [wsWrite, Spec.wsWrite]; exact wsWrite_eq w r _

theorem wsWrite_agree (w : Map Blob) (ne : NonEmpty w) : ∀ (ns : List String) (st : St) (m : Map Blob), AgreeX st m →
    AgreeX { st with pkg := Spec.wsWrite st.pkg w ns } (Spec.wsWrite m w ns)
  | [], st, m, a => a
  | n :: r, st, m, a =>
    wsWrite_agree w ne r { st with pkg := store st.pkg n ((load w n).getD ⟨"unserialised", 1⟩) } (store m n _)
      (agree_store a (wsBlob_nonempty ne n) rfl rfl rfl)

/-! ### the temp branch of writeToZip -/

theorem zipTemp_spec : ∀ (ns : List String) {st : St}, Inv st → (∀ n ∈ ns, (load st.temp n).isSome = true) →
    Inv (zipTemp st ns).1 ∧ (∀ n', absAt (zipTemp st ns).1 n' = absAt st n') ∧
    (zipTemp st ns).1.loaded = st.loaded ∧ (zipTemp st ns).1.dirty = st.dirty ∧
    (zipTemp st ns).1.sstLoaded = st.sstLoaded ∧ (zipTemp st ns).1.temp = st.temp
  | [], _, i, _ => ⟨i, fun _ => rfl, rfl, rfl, rfl, rfl⟩
  | n :: r, st, i, h => by
    have hf : Facts.C12.zipTempBranchViaReadBytes = true := by decide
    have f := readBytes_frame st n
    have fl := readBytes_flags st n
    have rb := readBytes_spec i n
    have hs : (load st.temp n).isSome = true := h n (by simp)
    have habs : ∀ n', absAt (readBytes st n).1 n' = absAt st n' := by
      intro n'
      rw [rb.1 n']
      cases ht : load st.temp n with
      | none => rw [ht] at hs; cases hs
      | some id =>
        obtain ⟨t, _, hr⟩ := rt_some_of_spilled i ht
        have : absAt st n ≠ none := by
          rw [absAt_eq, hr]
          cases load st.pkg n with
          | none => simp [absOf]
          | some b => by_cases hb : b.len = 0 <;> simp [absOf, hb]
        simp [this]
    have ih := zipTemp_spec r (readBytes_inv i n) (fun x hx => by rw [f.1]; exact h x (by simp [hx]))
    unfold zipTemp
    simp only [hf, if_true]
    refine ⟨ih.1, fun n' => (ih.2.1 n').trans (habs n'), ih.2.2.1.trans fl.1, ih.2.2.2.1.trans fl.2.1,
      ih.2.2.2.2.1.trans fl.2.2, ih.2.2.2.2.2.trans f.1⟩

theorem mem_insertDesc (x y : String × Blob) : ∀ l, y ∈ insertDesc x l ↔ y = x ∨ y ∈ l
  | [] => by simp [insertDesc]
  | z :: r => by
    unfold insertDesc
    split
    · simp
    · simp only [List.mem_cons, mem_insertDesc x y r]
      constructor
      · rintro (h | h | h)
        · exact Or.inr (Or.inl h)
        · exact Or.inl h
        · exact Or.inr (Or.inr h)
      · rintro (h | h | h)
        · exact Or.inr (Or.inl h)
        · exact Or.inl h
        · exact Or.inr (Or.inr h)

theorem mem_sortDesc (y : String × Blob) : ∀ l, y ∈ sortDesc l ↔ y ∈ l
  | [] => by simp [sortDesc]
  | x :: r => by
    have ih := mem_sortDesc y r
    unfold sortDesc at ih ⊢
    simp only [List.foldr_cons, mem_insertDesc, ih, List.mem_cons]

/-- the names of the temp branch are spilled parts -/
theorem tnames_spilled (st : St) (n : String)
    (h : n ∈ (sortDesc ((st.temp.filter fun p => !(st.pkg.has p.1)).map fun p => (p.1, emptyBlob))).map (·.1)) :
    (load st.temp n).isSome = true := by
  simp only [List.mem_map] at h
  obtain ⟨y, hy, rfl⟩ := h
  rw [mem_sortDesc] at hy
  simp only [List.mem_map, List.mem_filter] at hy
  obtain ⟨p, ⟨hp, _⟩, rfl⟩ := hy
  cases hl : load st.temp p.1 with
  | some v => rfl
  | none =>
    exfalso
    exact (load_eq_none_iff _ _).1 hl (by simp only [keys, List.mem_map]; exact ⟨p, hp, rfl⟩)

end XlModel.Store
