/-
C12: every modelled operation preserves the refinement relation and returns what the plain map returns.
-/
import XlModel.Lemmas.Store7

namespace XlModel.Store
open XlModel AMap

theorem sstItem_flags (st : St) (flat : Blob) :
    (sstItem st flat).loaded = st.loaded ∧ (sstItem st flat).dirty = st.dirty ∧
    (sstItem st flat).sstLoaded = st.sstLoaded ∧
    load (sstItem st flat).temp Facts.C12.sstPath = load st.temp Facts.C12.sstPath := by
  unfold sstItem
  split
  · cases st.sstTemp with
    | some id => exact ⟨rfl, rfl, rfl, rfl⟩
    | none => exact ⟨rfl, rfl, rfl, load_store_ne _ _ sstPath_ne_sstKey⟩
  · exact ⟨rfl, rfl, rfl, rfl⟩

/-- sharedStringsLoader preserves the relation -/
theorem R_sstLoad {st : St} {sp : Spec.S} (r : R st sp) : R (sstLoad st) sp := by
  have fl := sstLoad_flags r.inv
  refine ⟨sstLoad_inv r.inv, fun n' hn' => (sstLoad_abs r.inv hn').trans (r.abs n' hn'),
    fl.1.trans r.loaded, fl.2.1.trans r.dirty, ?_, fun _ => sstLoad_temp_none r.inv⟩
  rw [fl.2.2, fl.2.1]
  cases ht : load st.temp Facts.C12.sstPath with
  | none => simpa using r.sst
  | some id =>
    right
    refine ⟨rfl, ?_, ?_⟩
    · cases hd : st.dirty with
      | false => rfl
      | true => have := r.clean hd; rw [ht] at this; cases this
    · obtain ⟨t, _, hr⟩ := rt_some_of_spilled r.inv ht
      rw [← r.abs _ sstPath_ne_sstKey, absAt_eq, hr]
      cases load st.pkg Facts.C12.sstPath with
      | none => rfl
      | some b => by_cases hb : b.len = 0 <;> simp [absOf, hb]

theorem R_storeAll {st : St} {sp : Spec.S} (r : R st sp) {o : List (String × Blob)} (ne : NonEmpty o) :
    R { st with pkg := storeAll st.pkg o } { sp with m := storeAll sp.m o } := by
  refine ⟨r.inv.frame rfl rfl rfl rfl, storeAll_agree o st sp.m r.abs ne, r.loaded, r.dirty, ?_, r.clean⟩
  rcases r.sst with h | ⟨h1, h2, h3⟩
  · exact Or.inl h
  · exact Or.inr ⟨h1, h2, isSome_storeAll o h3⟩

theorem R_wsWrite {st : St} {sp : Spec.S} (r : R st sp) {w : Map Blob} (ne : NonEmpty w) :
    R { st with pkg := wsWrite st.pkg w st.loaded, loaded := [] }
      { sp with m := Spec.wsWrite sp.m w sp.loaded, loaded := [] } := by
  refine ⟨r.inv.frame rfl rfl rfl rfl, ?_, rfl, r.dirty, ?_, r.clean⟩
  · show AgreeX { st with pkg := wsWrite st.pkg w st.loaded, loaded := [] } (Spec.wsWrite sp.m w sp.loaded)
    rw [wsWrite_eq, r.loaded]
    intro n' hn'
    have := wsWrite_agree w ne sp.loaded st sp.m r.abs n' hn'
    rw [← this]
    exact abs_frame rfl rfl rfl n'
  · rcases r.sst with h | ⟨h1, h2, h3⟩
    · exact Or.inl h
    · exact Or.inr ⟨h1, h2, isSome_wsWrite w _ h3⟩

theorem R_sstWrite {st : St} {sp : Spec.S} (r : R st sp) {s : Blob} (hs : s.len ≠ 0)
    (law : sp.dirty = false → ∀ b, load sp.m Facts.C12.sstPath = some b → s = b) :
    R (if st.sstLoaded then { st with pkg := st.pkg.store Facts.C12.sstPath s } else st)
      { sp with m := if sp.sstLoaded then store sp.m Facts.C12.sstPath s else sp.m } := by
  rcases r.sst with h | ⟨h1, h2, h3⟩
  · by_cases hl : st.sstLoaded = true
    · have e : sp.sstLoaded = true := h ▸ hl
      rw [if_pos hl, if_pos e]
      exact ⟨r.inv.frame rfl rfl rfl rfl, agree_store r.abs hs rfl rfl rfl, r.loaded, r.dirty, Or.inl h, r.clean⟩
    · have e : ¬ sp.sstLoaded = true := h ▸ hl
      rw [if_neg hl, if_neg e]
      exact ⟨r.inv, r.abs, r.loaded, r.dirty, Or.inl h, r.clean⟩
  · rw [if_neg (by rw [h1]; exact Bool.false_ne_true)]
    by_cases hsl : sp.sstLoaded = true
    · rw [if_pos hsl]
      obtain ⟨b, hb⟩ := Option.isSome_iff_exists.1 h3
      have hsb : s = b := law (by rw [← r.dirty]; exact h2) b hb
      refine ⟨r.inv, ?_, r.loaded, r.dirty, Or.inr ⟨h1, h2, isSome_store h3 _ _⟩, r.clean⟩
      intro n' hn'
      show absAt st n' = load (store sp.m Facts.C12.sstPath s) n'
      rw [r.abs n' hn', load_store]
      by_cases e : n' = Facts.C12.sstPath
      · subst e; simp [hb, hsb]
      · simp [e]
    · rw [if_neg hsl]
      exact ⟨r.inv, r.abs, r.loaded, r.dirty, Or.inr ⟨h1, h2, h3⟩, r.clean⟩

theorem saveCall_noop (w : Map Blob) (s : Blob) (x : St) (c : String) (h1 : c ≠ "workSheetWriter")
    (h2 : c ≠ "sharedStringsLoader") (h3 : c ≠ "sharedStringsWriter") : saveCall w s x c = x := by
  unfold saveCall; rw [if_neg h1, if_neg h2, if_neg h3]

theorem saveCall_ws (w : Map Blob) (s : Blob) (x : St) :
    saveCall w s x "workSheetWriter" = { x with pkg := wsWrite x.pkg w x.loaded, loaded := [] } := by
  unfold saveCall; rw [if_pos rfl]

theorem saveCall_loader (w : Map Blob) (s : Blob) (x : St) : saveCall w s x "sharedStringsLoader" = sstLoad x := by
  unfold saveCall; rw [if_neg (by decide), if_pos rfl]

theorem saveCall_writer (w : Map Blob) (s : Blob) (x : St) :
    saveCall w s x "sharedStringsWriter" =
      (if x.sstLoaded then { x with pkg := x.pkg.store Facts.C12.sstPath s } else x) := by
  unfold saveCall; rw [if_neg (by decide), if_neg (by decide), if_pos rfl]

theorem saveOrder_fold (w : Map Blob) (s : Blob) (st : St) :
    Facts.C12.saveOrder.foldl (saveCall w s) st =
      saveCall w s (saveCall w s (saveCall w s st "workSheetWriter") "sharedStringsLoader") "sharedStringsWriter" := by
  show List.foldl (saveCall w s) st ["calcChainWriter", "commentsWriter", "contentTypesWriter", "drawingsWriter",
    "volatileDepsWriter", "vmlDrawingWriter", "workBookWriter", "workSheetWriter", "relsWriter",
    "sharedStringsLoader", "sharedStringsWriter", "styleSheetWriter", "themeWriter"] = _
  simp only [List.foldl]
  rw [saveCall_noop w s st "calcChainWriter" (by decide) (by decide) (by decide),
    saveCall_noop w s st "commentsWriter" (by decide) (by decide) (by decide),
    saveCall_noop w s st "contentTypesWriter" (by decide) (by decide) (by decide),
    saveCall_noop w s st "drawingsWriter" (by decide) (by decide) (by decide),
    saveCall_noop w s st "volatileDepsWriter" (by decide) (by decide) (by decide),
    saveCall_noop w s st "vmlDrawingWriter" (by decide) (by decide) (by decide),
    saveCall_noop w s st "workBookWriter" (by decide) (by decide) (by decide),
    saveCall_noop w s _ "relsWriter" (by decide) (by decide) (by decide),
    saveCall_noop w s _ "themeWriter" (by decide) (by decide) (by decide),
    saveCall_noop w s _ "styleSheetWriter" (by decide) (by decide) (by decide)]

/-- file.go writeToZip preserves the relation -/
theorem R_save {st : St} {sp : Spec.S} (r : R st sp) (w : Map Blob) (s : Blob) (o : Map Blob)
    (a : Adm sp (.save w s o)) : R (save st w s o).1 (Spec.step sp (.save w s o)).1 := by
  obtain ⟨nw, no, hs, law⟩ := a
  have r0 := R_storeAll r no
  have r1 := R_wsWrite r0 nw
  have r2 := R_sstLoad r1
  have r3 := R_sstWrite r2 hs (by
    intro hd b hb
    exact law hd b hb)
  unfold save
  simp only [saveOrder_fold]
  rw [saveCall_ws, saveCall_loader, saveCall_writer]
  have z := zipTemp_spec _ r3.inv (fun n hn => tnames_spilled _ n hn)
  refine ⟨z.1, fun n' hn' => (z.2.1 n').trans (r3.abs n' hn'), z.2.2.1.trans r3.loaded, z.2.2.2.1.trans r3.dirty, ?_, ?_⟩
  · rw [z.2.2.2.2.1, z.2.2.2.1]; exact r3.sst
  · rw [z.2.2.2.2.2, z.2.2.2.1]; exact r3.clean

/-- `step_refines`: one operation on the two-tier store corresponds to the same operation on the
plain map, and returns the same bytes -/
theorem step_refines {st : St} {sp : Spec.S} (r : R st sp) (op : Op) (a : Adm sp op) :
    R (step st op).1 (Spec.step sp op).1 ∧ outOk (step st op).2 (Spec.step sp op).2 := by
  cases op with
  | readBytes n =>
    have f := readBytes_frame st n
    have fl := readBytes_flags st n
    have rb := readBytes_spec r.inv n
    have tf := touch_flags sp n
    have hn : n ≠ sstKey := a
    show R (readBytes st n).1 (Spec.touch sp n) ∧ outOk (.blob (readBytes st n).2) (.blob (Spec.get sp n))
    refine ⟨⟨readBytes_inv r.inv n, ?_, fl.1.trans (r.loaded.trans tf.1.symm), fl.2.1.trans (r.dirty.trans tf.2.1.symm), ?_, ?_⟩, ?_⟩
    · intro n' hn'
      show absAt (readBytes st n).1 n' = load (Spec.touch sp n).m n'
      rw [rb.1 n', touch_load, r.abs n hn, r.abs n' hn']
    · show (readBytes st n).1.sstLoaded = (Spec.touch sp n).sstLoaded ∨ _
      rw [fl.2.2, fl.2.1, tf.2.2]
      rcases r.sst with h | ⟨h1, h2, h3⟩
      · exact Or.inl h
      · exact Or.inr ⟨h1, h2, isSome_touch h3 n⟩
    · show (readBytes st n).1.dirty = true → load (readBytes st n).1.temp Facts.C12.sstPath = none
      rw [fl.2.1, f.1]; exact r.clean
    · show (readBytes st n).2 = Spec.get sp n
      rw [rb.2, r.abs n hn]; rfl
  | wsRead n =>
    have f := readBytes_frame st n
    have fl := readBytes_flags st n
    have rb := readBytes_spec r.inv n
    have tf := touch_flags sp n
    have hn : n ≠ sstKey := a
    show R { (readBytes st n).1 with loaded := insertNew n (readBytes st n).1.loaded }
        { Spec.touch sp n with loaded := insertNew n sp.loaded } ∧
      outOk (.blob (readBytes st n).2) (.blob (Spec.get sp n))
    refine ⟨⟨(readBytes_inv r.inv n).frame rfl rfl rfl rfl, ?_, ?_, fl.2.1.trans (r.dirty.trans tf.2.1.symm), ?_, ?_⟩, ?_⟩
    · intro n' hn'
      have e : absAt { (readBytes st n).1 with loaded := insertNew n (readBytes st n).1.loaded } n' =
          absAt (readBytes st n).1 n' := abs_frame rfl rfl rfl n'
      show absAt { (readBytes st n).1 with loaded := insertNew n (readBytes st n).1.loaded } n' = load (Spec.touch sp n).m n'
      rw [e, rb.1 n', touch_load, r.abs n hn, r.abs n' hn']
    · show insertNew n (readBytes st n).1.loaded = insertNew n sp.loaded
      rw [fl.1, r.loaded]
    · show (readBytes st n).1.sstLoaded = (Spec.touch sp n).sstLoaded ∨
        ((readBytes st n).1.sstLoaded = false ∧ (readBytes st n).1.dirty = false ∧
          (load (Spec.touch sp n).m Facts.C12.sstPath).isSome = true)
      rw [fl.2.2, fl.2.1, tf.2.2]
      rcases r.sst with h | ⟨h1, h2, h3⟩
      · exact Or.inl h
      · exact Or.inr ⟨h1, h2, isSome_touch h3 n⟩
    · show (readBytes st n).1.dirty = true → load (readBytes st n).1.temp Facts.C12.sstPath = none
      rw [fl.2.1, f.1]; exact r.clean
    · show (readBytes st n).2 = Spec.get sp n
      rw [rb.2, r.abs n hn]; rfl
  | flush n ser =>
    have hs : ser.len ≠ 0 := a
    simp only [step, Spec.step]
    rw [r.loaded]
    by_cases hm : n ∈ sp.loaded
    · simp only [hm, if_true]
      refine ⟨⟨r.inv.frame rfl rfl rfl rfl, agree_store r.abs hs rfl rfl rfl, rfl, r.dirty, ?_, r.clean⟩, trivial⟩
      rcases r.sst with h | ⟨h1, h2, h3⟩
      · exact Or.inl h
      · exact Or.inr ⟨h1, h2, isSome_store h3 _ _⟩
    · simp only [hm, if_false]
      exact ⟨r, trivial⟩
  | stream n =>
    have hn : n ≠ sstKey := a
    show R st sp ∧ outOk (.blob (stream st n)) (.blob (Spec.get sp n))
    refine ⟨r, ?_⟩
    show stream st n = Spec.get sp n
    rw [stream_spec, r.abs n hn]; rfl
  | sstRead =>
    show R { st with sstLoaded := true } { sp with sstLoaded := true } ∧ outOk .none .none
    exact ⟨⟨r.inv.frame rfl rfl rfl rfl, fun n' hn' => (abs_frame rfl rfl rfl n').trans (r.abs n' hn'),
      r.loaded, r.dirty, Or.inl rfl, r.clean⟩, trivial⟩
  | sstItem flat =>
    have fl := sstItem_flags st flat
    show R (sstItem st flat) sp ∧ outOk .none .none
    refine ⟨⟨sstItem_inv r.inv flat, fun n' hn' => (sstItem_abs r.inv flat hn').trans (r.abs n' hn'),
      fl.1.trans r.loaded, fl.2.1.trans r.dirty, ?_, ?_⟩, trivial⟩
    · show (sstItem st flat).sstLoaded = sp.sstLoaded ∨
        ((sstItem st flat).sstLoaded = false ∧ (sstItem st flat).dirty = false ∧ (load sp.m Facts.C12.sstPath).isSome = true)
      rw [fl.2.2.1, fl.2.1]; exact r.sst
    · show (sstItem st flat).dirty = true → load (sstItem st flat).temp Facts.C12.sstPath = none
      rw [fl.2.1, fl.2.2.2]; exact r.clean
  | sstLoad =>
    show R (sstLoad st) sp ∧ outOk .none .none
    exact ⟨R_sstLoad r, trivial⟩
  | sstSet =>
    have r1 := R_sstLoad r
    show R { sstLoad st with sstLoaded := true, dirty := true } { sp with sstLoaded := true, dirty := true } ∧ outOk .none .none
    exact ⟨⟨r1.inv.frame rfl rfl rfl rfl, fun n' hn' => (abs_frame rfl rfl rfl n').trans (r1.abs n' hn'),
      r1.loaded, rfl, Or.inl rfl, fun _ => sstLoad_temp_none r.inv⟩, trivial⟩
  | save w s o =>
    show R (save st w s o).1 (Spec.step sp (.save w s o)).1 ∧ outOk (.zip (save st w s o).2) (.zip _)
    exact ⟨R_save r w s o a, trivial⟩
  | forget n rels => exact absurd a (by intro h; exact h)

/-- admissibility of a whole history, along the plain-map run -/
def AdmAll : Spec.S → List Op → Prop
  | _, [] => True
  | sp, op :: r => Adm sp op ∧ AdmAll (Spec.step sp op).1 r

def outsOk : List Out → List Out → Prop
  | [], [] => True
  | a :: r, b :: r' => outOk a b ∧ outsOk r r'
  | _, _ => False

theorem run_refines : ∀ (ops : List Op) {st : St} {sp : Spec.S}, R st sp → AdmAll sp ops →
    R (run st ops).1 (Spec.run sp ops).1 ∧ outsOk (run st ops).2 (Spec.run sp ops).2
  | [], _, _, r, _ => ⟨r, trivial⟩
  | op :: rest, st, sp, r, a => by
    have s := step_refines r op a.1
    have ih := run_refines rest s.1 a.2
    unfold run Spec.run
    exact ⟨ih.1, s.2, ih.2⟩

/-! ### flags after open -/

/-- nothing is decoded yet -/
def Fresh (st : St) : Prop := st.loaded = [] ∧ st.dirty = false ∧ st.sstLoaded = false

theorem dropPart_fresh {st : St} (h : Fresh st) (n : String) : Fresh (dropPart st n) := by
  unfold dropPart; split <;> exact h

theorem spillStep_fresh {st : St} (h : Fresh st) (l : Limits) (n : String) (e : Entry) : Fresh (spillStep l st n e).1 := by
  rcases spillStep_cases l st n e with hc | hc <;> rw [hc]
  · exact h
  · exact h

theorem readFileInto_fresh {st st2 : St} (h : Fresh st) {n : String} {e : Entry}
    (hr : readFileInto st n e = .inl (some st2)) : Fresh st2 := by
  unfold readFileInto at hr
  split at hr
  · cases hr
  · split at hr
    · cases hr
    · injection hr with hr; injection hr with hr; subst hr; exact h

theorem readZip_fresh (l : Limits) : ∀ (es : List Entry) (st : St) (t : Int) (ws : Nat), Fresh st →
    Fresh (readZip l st t ws es).st
  | [], st, t, ws, h => by simpa [readZip, ZRes.st] using h
  | e :: rest, st, t, ws, h => by
    have hf : Facts.C12.dupReplaces = true := by decide
    unfold readZip
    simp only [hf, if_true]
    split
    · simpa [ZRes.st] using h
    · have s := spillStep_fresh (dropPart_fresh h (normName e.name)) l (normName e.name) e
      split
      · exact readZip_fresh l rest _ _ _ s
      · split
        · simpa [ZRes.st] using s
        · simpa [ZRes.st] using s
        · rename_i st2 h2
          exact readZip_fresh l rest _ _ _ (readFileInto_fresh s h2)

end XlModel.Store
