/-
C12: every modelled operation preserves the refinement relation and returns what the plain map returns.
-/
import XlModel.Lemmas.Store7

namespace XlModel.Store
open XlModel AMap

theorem sstItem_flags (st : St) (flat : Blob) :
    (sstItem st flat).loaded = st.loaded ∧ (sstItem st flat).dirty = st.dirty ∧
    (sstItem st flat).sstLoaded = st.sstLoaded ∧
    load (sstItem st flat).temp Facts.C12.sstPath = load st.temp Facts.C12.sstPath := by
  unfold sstItem
  split
  · cases st.sstTemp with
    | some id => exact ⟨rfl, rfl, rfl, rfl⟩
    | none => exact ⟨rfl, rfl, rfl, load_store_ne _ _ sstPath_ne_sstKey⟩
  · exact ⟨rfl, rfl, rfl, rfl⟩

/-- sharedStringsLoader preserves the relation -/
theorem R_sstLoad {st : St} {sp : Spec.S} (r : R st sp) : R (sstLoad st) sp := by
  have fl := sstLoad_flags r.inv
  refine ⟨sstLoad_inv r.inv, fun n' hn' => (sstLoad_abs r.inv hn').trans (r.abs n' hn'),
    fl.1.trans r.loaded, fl.2.1.trans r.dirty, ?_, fun _ => sstLoad_temp_none r.inv⟩
  rw [fl.2.2, fl.2.1]
  cases ht : load st.temp Facts.C12.sstPath with
  | none => simpa using r.sst
  | some id =>
    right
    refine ⟨rfl, ?_, ?_⟩
    · cases hd : st.dirty with
      | false => rfl
      | true => have := r.clean hd; rw [ht] at this; cases this
    · obtain ⟨t, _, hr⟩ := rt_some_of_spilled r.inv ht
      rw [← r.abs _ sstPath_ne_sstKey, absAt_eq, hr]
      cases load st.pkg Facts.C12.sstPath with
      | none => rfl
      | some b => by_cases hb : b.len = 0 <;> simp [absOf, hb]

theorem R_storeAll {st : St} {sp : Spec.S} (r : R st sp) {o : List (String × Blob)} (ne : NonEmpty o) :
    R { st with pkg := storeAll st.pkg o } { sp with m := storeAll sp.m o } := by
  refine ⟨r.inv.frame rfl rfl rfl rfl, storeAll_agree o st sp.m r.abs ne, r.loaded, r.dirty, ?_, r.clean⟩
  rcases r.sst with h | ⟨h1, h2, h3⟩
  · exact Or.inl h
  · exact Or.inr ⟨h1, h2, isSome_storeAll o h3⟩

theorem R_wsWrite {st : St} {sp : Spec.S} (r : R st sp) {w : Map Blob} (ne : NonEmpty w) :
    R { st with pkg := wsWrite st.pkg w st.loaded, loaded := [] }
      { sp with m := Spec.wsWrite sp.m w sp.loaded, loaded := [] } := by
  refine ⟨r.inv.frame rfl rfl rfl rfl, ?_, rfl, r.dirty, ?_, r.clean⟩
  · show AgreeX { st with pkg := wsWrite st.pkg w st.loaded, loaded := [] } (Spec.wsWrite sp.m w sp.loaded)
    rw [wsWrite_eq, r.loaded]
    intro n' hn'
    have := wsWrite_agree w ne sp.loaded st sp.m r.abs n' hn'
    rw [← this]
    exact abs_frame rfl rfl rfl n'
  · rcases r.sst with h | ⟨h1, h2, h3⟩
    · exact Or.inl h
    · exact Or.inr ⟨h1, h2, isSome_wsWrite w _ h3⟩

theorem R_sstWrite {st : St} {sp : Spec.S} (r : R st sp) {s : Blob} (hs : s.len ≠ 0)
    (law : sp.dirty = false → ∀ b, load sp.m Facts.C12.sstPath = some b → s = b) :
    R (if st.sstLoaded then { st with pkg := st.pkg.store Facts.C12.sstPath s } else st)
      { sp with m := if sp.sstLoaded then store sp.m Facts.C12.sstPath s else sp.m } := by
  rcases r.sst with h | ⟨h1, h2, h3⟩
  · by_cases hl : st.sstLoaded = true
    · have e : sp.sstLoaded = true := h ▸ hl
      rw [if_pos hl, if_pos e]
      exact ⟨r.inv.frame rfl rfl rfl rfl, agree_store r.abs hs rfl rfl rfl, r.loaded, r.dirty, Or.inl h, r.clean⟩
    · have e : ¬ sp.sstLoaded = true := h ▸ hl
      rw [if_neg hl, if_neg e]
      exact ⟨r.inv, r.abs, r.loaded, r.dirty, Or.inl h, r.clean⟩
  · rw [if_neg (by rw [h1]; exact Bool.false_ne_true)]
    by_cases hsl : sp.sstLoaded = true
    · rw [if_pos hsl]
      obtain ⟨b, hb⟩ := Option.isSome_iff_exists.1 h3
      have hsb : s = b := law (by rw [← r.dirty]; exact h2) b hb
      refine ⟨r.inv, ?_, r.loaded, r.dirty, Or.inr ⟨h1, h2, isSome_store h3 _ _⟩, r.clean⟩
      intro n' hn'
      show absAt st n' = load (store sp.m Facts.C12.sstPath s) n'
      rw [r.abs n' hn', load_store]
      by_cases e : n' = Facts.C12.sstPath
      · subst e; simp [hb, hsb]
      · simp [e]
    · rw [if_neg hsl]
      exact ⟨r.inv, r.abs, r.loaded, r.dirty, Or.inr ⟨h1, h2, h3⟩, r.clean⟩

theorem saveCall_noop (w : Map Blob) (s : Blob) (x : St) (c : String) (h1 : c ≠ "workSheetWriter")
    (h2 : c ≠ "sharedStringsLoader") (h3 : c ≠ "sharedStringsWriter") : saveCall w s x c = x := by
  unfold saveCall; rw [if_neg h1, if_neg h2, if_neg h3]

theorem saveCall_ws (w : Map Blob) (s : Blob) (x : St) :
    saveCall w s x "workSheetWriter" = { x with pkg := wsWrite x.pkg w x.loaded, loaded := [] } := by
  unfold saveCall; rw [if_pos rfl]

theorem saveCall_loader (w : Map Blob) (s : Blob) (x : St) : saveCall w s x "sharedStringsLoader" = sstLoad x := by
  unfold saveCall; rw [if_neg (by decide), if_pos rfl]

theorem saveCall_writer (w : Map Blob) (s : Blob) (x : St) :
    saveCall w s x "sharedStringsWriter" =
      (if x.sstLoaded then { x with pkg := x.pkg.store Facts.C12.sstPath s } else x) := by
  unfold saveCall; rw [if_neg (by decide), if_neg (by decide), if_pos rfl]

theorem saveOrder_fold (w : Map Blob) (s : Blob) (st : St) :
    Facts.C12.saveOrder.foldl (saveCall w s) st =
      saveCall w s (saveCall w s (saveCall w s st "workSheetWriter") "sharedStringsLoader") "sharedStringsWriter" := by
  show List.foldl (saveCall w s) st ["calcChainWriter", "commentsWriter", "contentTypesWriter", "drawingsWriter",
    "volatileDepsWriter", "vmlDrawingWriter", "workBookWriter", "workSheetWriter", "relsWriter",
    "sharedStringsLoader", "sharedStringsWriter", "styleSheetWriter", "themeWriter"] = _
  simp only [List.foldl]
  rw [saveCall_noop w s st "calcChainWriter" (by decide) (by decide) (by decide),
    saveCall_noop w s st "commentsWriter" (by decide) (by decide) (by decide),
    saveCall_noop w s st "contentTypesWriter" (by decide) (by decide) (by decide),
    saveCall_noop w s st "drawingsWriter" (by decide) (by decide) (by decide),
    saveCall_noop w s st "volatileDepsWriter" (by decide) (by decide) (by decide),
    saveCall_noop w s st "vmlDrawingWriter" (by decide) (by decide) (by decide),
    saveCall_noop w s st "workBookWriter" (by decide) (by decide) (by decide),
    saveCall_noop w s _ "relsWriter" (by decide) (by decide) (by decide),
    saveCall_noop w s _ "themeWriter" (by decide) (by decide) (by decide),
    saveCall_noop w s _ "styleSheetWriter" (by decide) (by decide) (by decide)]

/-- file.go writeToZip preserves the relation -/
theorem R_save {st : St} {sp : Spec.S} (r : R st sp) (w : Map Blob) (s : Blob) (o : Map Blob)
    (a : Adm sp (.save w s o)) : R (save st w s o).1 (Spec.step sp (.save w s o)).1 := by
  obtain ⟨nw, no, hs, law⟩ := a
  have r0 := R_storeAll r no
  have r1 := R_wsWrite r0 nw
  have r2 := R_sstLoad r1
  have r3 := R_sstWrite r2 hs (by
    intro hd b hb
    exact law hd b hb)
  unfold save
  simp only [saveOrder_fold]
  rw [saveCall_ws, saveCall_loader, saveCall_writer]
  have z := zipTemp_spec _ r3.inv (fun n hn => tnames_spilled _ n hn)
  refine ⟨z.1, fun n' hn' => (z.2.1 n').trans (r3.abs n' hn'), z.2.2.1.trans r3.loaded, z.2.2.2.1.trans r3.dirty, ?_, ?_⟩
  · rw [z.2.2.2.2.1, z.2.2.2.1]; exact r3.sst
  · rw [z.2.2.2.2.2, z.2.2.2.1]; exact r3.clean

/-! ### which names can be spilled -/

/-- only worksheets, the shared strings part and the index key are ever in tempFiles -/
def Named (st : St) : Prop :=
  ∀ k, (load st.temp k).isSome = true → isSheet k = true ∨ isSST k = true ∨ k = sstKey

theorem Named.of_sub {st st' : St} (nm : Named st)
    (h : ∀ k, (load st'.temp k).isSome = true → (load st.temp k).isSome = true) : Named st' :=
  fun k hk => nm k (h k hk)

theorem isSome_erase {t : Map Nat} {n k : String} (h : (load (erase t n) k).isSome = true) : (load t k).isSome = true := by
  by_cases e : k = n
  · subst e; rw [load_erase_self] at h; cases h
  · rwa [load_erase_ne _ e] at h

theorem sstLoad2_temp_sub (st : St) (k : String) (h : (load (sstLoad2 st).temp k).isSome = true) :
    (load st.temp k).isSome = true := by
  unfold sstLoad2 at h
  cases hs : st.sstTemp with
  | none => simpa [hs] using h
  | some id => rw [hs] at h; exact isSome_erase h

theorem sstLoad_temp_sub {st : St} (i : Inv st) (k : String) (h : (load (sstLoad st).temp k).isSome = true) :
    (load st.temp k).isSome = true := by
  cases ht : load st.temp Facts.C12.sstPath with
  | none =>
    have : sstLoad st = sstLoad2 st := by unfold sstLoad; simp only [ht]
    rw [this] at h; exact sstLoad2_temp_sub st k h
  | some id =>
    rw [sstLoad_eq_mid i ht] at h
    exact isSome_erase (sstLoad2_temp_sub _ k h)

theorem zipTemp_temp : ∀ (ns : List String) (st : St), (zipTemp st ns).1.temp = st.temp
  | [], _ => rfl
  | n :: r, st => by
    have hf : Facts.C12.zipTempBranchViaReadBytes = true := by decide
    unfold zipTemp
    simp only [hf, if_true]
    rw [zipTemp_temp r, (readBytes_frame st n).1]

/-- DeleteSheet on a worksheet that is not spilled -/
def forgetPkg (st : St) (n rels : String) : St :=
  { st with pkg := (st.pkg.erase n).erase rels, loaded := st.loaded.filter (fun x => x != n) }

/-- DeleteSheet on a spilled worksheet (repaired code): entry and file go too -/
def forgetTmp (st : St) (n rels : String) (id : Nat) : St :=
  { forgetPkg st n rels with temp := erase st.temp n, disk := erase st.disk id }

theorem forget_none {st : St} {n : String} (rels : String) (h : load st.temp n = none) :
    forget st n rels = forgetPkg st n rels := by
  have h1 : Facts.C12.deleteSheetDropsTemp = true := by decide
  unfold forget forgetPkg; simp [h1, h]

theorem forget_some {st : St} {n : String} {id : Nat} (rels : String) (h : load st.temp n = some id) :
    forget st n rels = forgetTmp st n rels id := by
  have h1 : Facts.C12.deleteSheetDropsTemp = true := by decide
  have h2 : Facts.C12.deleteSheetRemovesFile = true := by decide
  unfold forget forgetTmp forgetPkg; simp [h1, h2, h]

theorem forget_temp_sub (st : St) (n rels k : String) (h : (load (forget st n rels).temp k).isSome = true) :
    (load st.temp k).isSome = true := by
  cases ht : load st.temp n with
  | none => rw [forget_none rels ht] at h; exact h
  | some id => rw [forget_some rels ht] at h; exact isSome_erase h

theorem step_named {st : St} (i : Inv st) (nm : Named st) (op : Op) : Named (step st op).1 := by
  cases op with
  | readBytes n => exact nm.of_sub (fun k h => by rw [← (readBytes_frame st n).1]; exact h)
  | wsRead n => exact nm.of_sub (fun k h => by rw [← (readBytes_frame st n).1]; exact h)
  | flush n ser =>
    refine nm.of_sub (fun k h => ?_)
    simp only [step] at h
    split at h <;> exact h
  | stream n => exact nm
  | sstRead => exact nm
  | sstItem flat =>
    intro k hk
    have hk' : (load (sstItem st flat).temp k).isSome = true := hk
    unfold sstItem at hk'
    split at hk'
    · cases hs : st.sstTemp with
      | some id => rw [hs] at hk'; exact nm k hk'
      | none =>
        rw [hs] at hk'
        by_cases e : k = sstKey
        · exact Or.inr (Or.inr e)
        · have : load (store st.temp Facts.C12.sstTempKey st.next) k = load st.temp k := load_store_ne _ _ e
          have hk2 : (load (store st.temp Facts.C12.sstTempKey st.next) k).isSome = true := hk'
          rw [this] at hk2; exact nm k hk2
    · exact nm k hk'
  | sstLoad => exact nm.of_sub (fun k h => sstLoad_temp_sub i k h)
  | sstSet => exact nm.of_sub (fun k h => sstLoad_temp_sub i k h)
  | save w s o =>
    refine nm.of_sub (fun k h => ?_)
    have h' : (load (save st w s o).1.temp k).isSome = true := h
    unfold save at h'
    simp only [saveOrder_fold, saveCall_ws, saveCall_loader, saveCall_writer] at h'
    rw [zipTemp_temp] at h'
    have i2 : Inv { st with pkg := wsWrite (storeAll st.pkg o) w st.loaded, loaded := [] } := i.frame rfl rfl rfl rfl
    have h2 : (load (sstLoad { st with pkg := wsWrite (storeAll st.pkg o) w st.loaded, loaded := [] }).temp k).isSome = true := by
      split at h' <;> exact h'
    exact sstLoad_temp_sub i2 k h2
  | forget n rels => exact nm.of_sub (fun k h => forget_temp_sub st n rels k h)

theorem load_erase2 (m : Map Blob) (a b k : String) :
    load (erase (erase m a) b) k = if k = a ∨ k = b then none else load m k := by
  by_cases hb : k = b
  · subst hb; simp [load_erase_self]
  · rw [load_erase_ne _ hb]
    by_cases ha : k = a
    · subst ha; simp [load_erase_self]
    · rw [load_erase_ne _ ha]; simp [ha, hb]

/-- sheet.go DeleteSheet (repaired) preserves the refinement: the part disappears from both tiers -/
theorem R_forget {st : St} {sp : Spec.S} (r : R st sp) (nm : Named st) (n rels : String)
    (a : Adm sp (.forget n rels)) :
    R (forget st n rels) { sp with m := (sp.m.erase n).erase rels, loaded := sp.loaded.filter (fun x => x != n) } := by
  obtain ⟨hn, hr, hnp, hrp, hrs, hrt⟩ := a
  have h1 : Facts.C12.deleteSheetDropsTemp = true := by decide
  have h2 : Facts.C12.deleteSheetRemovesFile = true := by decide
  have hrels : load st.temp rels = none := by
    cases hl : load st.temp rels with
    | none => rfl
    | some id =>
      rcases nm rels (by rw [hl]; rfl) with h | h | h
      · rw [hrs] at h; cases h
      · rw [hrt] at h; cases h
      · exact absurd h hr
  have hrtrels : rtOf st.temp st.disk rels = none := by unfold rtOf; rw [hrels]
  have inv' := forget_inv r.inv n rels
  have key : ∀ n', n' ≠ sstKey → absAt (forget st n rels) n' = load ((sp.m.erase n).erase rels) n' := by
    intro n' hn'
    rw [load_erase2, absAt_eq]
    cases ht : load st.temp n with
    | none =>
      rw [forget_none rels ht]
      show absOf (load ((st.pkg.erase n).erase rels) n') (rtOf st.temp st.disk n') = _
      rw [load_erase2]
      by_cases c : n' = n ∨ n' = rels
      · simp only [c, if_true]
        rcases c with c | c
        · subst c; unfold rtOf; rw [ht]; rfl
        · subst c; rw [hrtrels]; rfl
      · simp only [c, if_false]
        rw [← absAt_eq]; exact r.abs n' hn'
    | some id =>
      rw [forget_some rels ht]
      show absOf (load ((st.pkg.erase n).erase rels) n') (rtOf (erase st.temp n) (erase st.disk id) n') = _
      rw [load_erase2, rt_remove r.inv.core ht]
      by_cases c : n' = n ∨ n' = rels
      · simp only [c, if_true]
        rcases c with c | c
        · subst c; simp [absOf]
        · subst c
          by_cases e2 : n' = n
          · simp [e2, absOf]
          · simp only [e2, if_false]; rw [hrtrels]; rfl
      · simp only [c, if_false]
        have c1 : ¬ n' = n := fun h => c (Or.inl h)
        simp only [c1, if_false]
        rw [← absAt_eq]; exact r.abs n' hn'
  have hflags : (forget st n rels).loaded = st.loaded.filter (fun x => x != n) ∧ (forget st n rels).dirty = st.dirty ∧
      (forget st n rels).sstLoaded = st.sstLoaded := by
    cases ht : load st.temp n with
    | none => rw [forget_none rels ht]; exact ⟨rfl, rfl, rfl⟩
    | some id => rw [forget_some rels ht]; exact ⟨rfl, rfl, rfl⟩
  refine ⟨inv', key, ?_, hflags.2.1.trans r.dirty, ?_, ?_⟩
  · rw [hflags.1, r.loaded]
  · rw [hflags.2.2, hflags.2.1]
    rcases r.sst with h | ⟨h3, h4, h5⟩
    · exact Or.inl h
    · refine Or.inr ⟨h3, h4, ?_⟩
      show (load ((sp.m.erase n).erase rels) Facts.C12.sstPath).isSome = true
      rw [load_erase2]
      have : ¬ (Facts.C12.sstPath = n ∨ Facts.C12.sstPath = rels) := by
        rintro (h | h)
        · exact hnp h.symm
        · exact hrp h.symm
      simp only [this, if_false]; exact h5
  · intro hd
    rw [hflags.2.1] at hd
    have := r.clean hd
    cases hl : load (forget st n rels).temp Facts.C12.sstPath with
    | none => rfl
    | some x =>
      have hs := forget_temp_sub st n rels Facts.C12.sstPath (by rw [hl]; rfl)
      rw [this] at hs; cases hs

/-- `step_refines`: one operation on the two-tier store corresponds to the same operation on the
plain map, and returns the same bytes -/
theorem step_refines {st : St} {sp : Spec.S} (r : R st sp) (nm : Named st) (op : Op) (a : Adm sp op) :
    R (step st op).1 (Spec.step sp op).1 ∧ outOk (step st op).2 (Spec.step sp op).2 := by
  cases op with
  | readBytes n =>
    have f := readBytes_frame st n
    have fl := readBytes_flags st n
    have rb := readBytes_spec r.inv n
    have tf := touch_flags sp n
    have hn : n ≠ sstKey := a
    show R (readBytes st n).1 (Spec.touch sp n) ∧ outOk (.blob (readBytes st n).2) (.blob (Spec.get sp n))
    refine ⟨⟨readBytes_inv r.inv n, ?_, fl.1.trans (r.loaded.trans tf.1.symm), fl.2.1.trans (r.dirty.trans tf.2.1.symm), ?_, ?_⟩, ?_⟩
    · intro n' hn'
      show absAt (readBytes st n).1 n' = load (Spec.touch sp n).m n'
      rw [rb.1 n', touch_load, r.abs n hn, r.abs n' hn']
    · show (readBytes st n).1.sstLoaded = (Spec.touch sp n).sstLoaded ∨ _
      rw [fl.2.2, fl.2.1, tf.2.2]
      rcases r.sst with h | ⟨h1, h2, h3⟩
      · exact Or.inl h
      · exact Or.inr ⟨h1, h2, isSome_touch h3 n⟩
    · show (readBytes st n).1.dirty = true → load (readBytes st n).1.temp Facts.C12.sstPath = none
      rw [fl.2.1, f.1]; exact r.clean
    · show (readBytes st n).2 = Spec.get sp n
      rw [rb.2, r.abs n hn]; rfl
  | wsRead n =>
    have f := readBytes_frame st n
    have fl := readBytes_flags st n
    have rb := readBytes_spec r.inv n
    have tf := touch_flags sp n
    have hn : n ≠ sstKey := a
    show R { (readBytes st n).1 with loaded := insertNew n (readBytes st n).1.loaded }
        { Spec.touch sp n with loaded := insertNew n sp.loaded } ∧
      outOk (.blob (readBytes st n).2) (.blob (Spec.get sp n))
    refine ⟨⟨(readBytes_inv r.inv n).frame rfl rfl rfl rfl, ?_, ?_, fl.2.1.trans (r.dirty.trans tf.2.1.symm), ?_, ?_⟩, ?_⟩
    · intro n' hn'
      have e : absAt { (readBytes st n).1 with loaded := insertNew n (readBytes st n).1.loaded } n' =
          absAt (readBytes st n).1 n' := abs_frame rfl rfl rfl n'
      show absAt { (readBytes st n).1 with loaded := insertNew n (readBytes st n).1.loaded } n' = load (Spec.touch sp n).m n'
      rw [e, rb.1 n', touch_load, r.abs n hn, r.abs n' hn']
    · show insertNew n (readBytes st n).1.loaded = insertNew n sp.loaded
      rw [fl.1, r.loaded]
    · show (readBytes st n).1.sstLoaded = (Spec.touch sp n).sstLoaded ∨
        ((readBytes st n).1.sstLoaded = false ∧ (readBytes st n).1.dirty = false ∧
          (load (Spec.touch sp n).m Facts.C12.sstPath).isSome = true)
      rw [fl.2.2, fl.2.1, tf.2.2]
      rcases r.sst with h | ⟨h1, h2, h3⟩
      · exact Or.inl h
      · exact Or.inr ⟨h1, h2, isSome_touch h3 n⟩
    · show (readBytes st n).1.dirty = true → load (readBytes st n).1.temp Facts.C12.sstPath = none
      rw [fl.2.1, f.1]; exact r.clean
    · show (readBytes st n).2 = Spec.get sp n
      rw [rb.2, r.abs n hn]; rfl
  | flush n ser =>
    have hs : ser.len ≠ 0 := a
    simp only [step, Spec.step]
    rw [r.loaded]
    by_cases hm : n ∈ sp.loaded
    · simp only [hm, if_true]
      refine ⟨⟨r.inv.frame rfl rfl rfl rfl, agree_store r.abs hs rfl rfl rfl, rfl, r.dirty, ?_, r.clean⟩, trivial⟩
      rcases r.sst with h | ⟨h1, h2, h3⟩
      · exact Or.inl h
      · exact Or.inr ⟨h1, h2, isSome_store h3 _ _⟩
    · simp only [hm, if_false]
      exact ⟨r, trivial⟩
  | stream n =>
    have hn : n ≠ sstKey := a
    show R st sp ∧ outOk (.blob (stream st n)) (.blob (Spec.get sp n))
    refine ⟨r, ?_⟩
    show stream st n = Spec.get sp n
    rw [stream_spec, r.abs n hn]; rfl
  | sstRead =>
    show R { st with sstLoaded := true } { sp with sstLoaded := true } ∧ outOk .none .none
    exact ⟨⟨r.inv.frame rfl rfl rfl rfl, fun n' hn' => (abs_frame rfl rfl rfl n').trans (r.abs n' hn'),
      r.loaded, r.dirty, Or.inl rfl, r.clean⟩, trivial⟩
  | sstItem flat =>
    have fl := sstItem_flags st flat
    show R (sstItem st flat) sp ∧ outOk .none .none
    refine ⟨⟨sstItem_inv r.inv flat, fun n' hn' => (sstItem_abs r.inv flat hn').trans (r.abs n' hn'),
      fl.1.trans r.loaded, fl.2.1.trans r.dirty, ?_, ?_⟩, trivial⟩
    · show (sstItem st flat).sstLoaded = sp.sstLoaded ∨
        ((sstItem st flat).sstLoaded = false ∧ (sstItem st flat).dirty = false ∧ (load sp.m Facts.C12.sstPath).isSome = true)
      rw [fl.2.2.1, fl.2.1]; exact r.sst
    · show (sstItem st flat).dirty = true → load (sstItem st flat).temp Facts.C12.sstPath = none
      rw [fl.2.1, fl.2.2.2]; exact r.clean
  | sstLoad =>
    show R (sstLoad st) sp ∧ outOk .none .none
    exact ⟨R_sstLoad r, trivial⟩
  | sstSet =>
    have r1 := R_sstLoad r
    show R { sstLoad st with sstLoaded := true, dirty := true } { sp with sstLoaded := true, dirty := true } ∧ outOk .none .none
    exact ⟨⟨r1.inv.frame rfl rfl rfl rfl, fun n' hn' => (abs_frame rfl rfl rfl n').trans (r1.abs n' hn'),
      r1.loaded, rfl, Or.inl rfl, fun _ => sstLoad_temp_none r.inv⟩, trivial⟩
  | save w s o =>
    show R (save st w s o).1 (Spec.step sp (.save w s o)).1 ∧ outOk (.zip (save st w s o).2) (.zip _)
    exact ⟨R_save r w s o a, trivial⟩
  | forget n rels =>
    show R (forget st n rels) { sp with m := (sp.m.erase n).erase rels, loaded := sp.loaded.filter (fun x => x != n) } ∧ outOk .none .none
    exact ⟨R_forget r nm n rels a, trivial⟩

/-- admissibility of a whole history, along the plain-map run -/
def AdmAll : Spec.S → List Op → Prop
  | _, [] => True
  | sp, op :: r => Adm sp op ∧ AdmAll (Spec.step sp op).1 r

def outsOk : List Out → List Out → Prop
  | [], [] => True
  | a :: r, b :: r' => outOk a b ∧ outsOk r r'
  | _, _ => False

theorem run_refines : ∀ (ops : List Op) {st : St} {sp : Spec.S}, R st sp → Named st → AdmAll sp ops →
    R (run st ops).1 (Spec.run sp ops).1 ∧ outsOk (run st ops).2 (Spec.run sp ops).2
  | [], _, _, r, _, _ => ⟨r, trivial⟩
  | op :: rest, st, sp, r, nm, a => by
    have s := step_refines r nm op a.1
    have ih := run_refines rest s.1 (step_named r.inv nm op) a.2
    unfold run Spec.run
    exact ⟨ih.1, s.2, ih.2⟩

/-! ### flags after open -/

/-- nothing is decoded yet -/
def Fresh (st : St) : Prop := st.loaded = [] ∧ st.dirty = false ∧ st.sstLoaded = false

theorem dropPart_fresh {st : St} (h : Fresh st) (n : String) : Fresh (dropPart st n) := by
  unfold dropPart; split <;> exact h

theorem spillStep_fresh {st : St} (h : Fresh st) (l : Limits) (n : String) (e : Entry) : Fresh (spillStep l st n e).1 := by
  rcases spillStep_cases l st n e with hc | hc <;> rw [hc]
  · exact h
  · exact h

theorem readFileInto_fresh {st st2 : St} (h : Fresh st) {n : String} {e : Entry}
    (hr : readFileInto st n e = .inl (some st2)) : Fresh st2 := by
  unfold readFileInto at hr
  split at hr
  · cases hr
  · split at hr
    · cases hr
    · injection hr with hr; injection hr with hr; subst hr; exact h

theorem readZip_fresh (l : Limits) : ∀ (es : List Entry) (st : St) (t : Int) (ws : Nat), Fresh st →
    Fresh (readZip l st t ws es).st
  | [], st, t, ws, h => by simpa [readZip, ZRes.st] using h
  | e :: rest, st, t, ws, h => by
    have hf : Facts.C12.dupReplaces = true := by decide
    unfold readZip
    simp only [hf, if_true]
    split
    · simpa [ZRes.st] using h
    · have s := spillStep_fresh (dropPart_fresh h (normName e.name)) l (normName e.name) e
      split
      · exact readZip_fresh l rest _ _ _ s
      · split
        · simpa [ZRes.st] using s
        · simpa [ZRes.st] using s
        · rename_i st2 h2
          exact readZip_fresh l rest _ _ _ (readFileInto_fresh s h2)

/-! ### spillable names after open -/

theorem spillOne_named {st : St} (nm : Named st) {n : String} (e : Entry) (h : isSheet n = true ∨ isSST n = true) :
    Named (spillOne st n e).1 := by
  intro k hk
  have hk' : (load (store st.temp n st.next) k).isSome = true := hk
  by_cases c : k = n
  · subst c
    rcases h with h | h
    · exact Or.inl h
    · exact Or.inr (Or.inl h)
  · rw [load_store_ne _ _ c] at hk'; exact nm k hk'

theorem sheetStep_named {st : St} (nm : Named st) (l : Limits) (n : String) (e : Entry) : Named (sheetStep l st n e).1 := by
  unfold sheetStep
  split
  · rename_i hs
    split
    · exact spillOne_named nm e (Or.inl hs)
    · exact nm
  · exact nm

theorem spillStep_named {st : St} (nm : Named st) (l : Limits) (n : String) (e : Entry) : Named (spillStep l st n e).1 := by
  unfold spillStep
  split
  · rename_i hg
    have hs : isSST n = true := by
      unfold sstGuard at hg
      simp only [Bool.and_eq_true] at hg
      exact hg.1.1
    simp only []
    split
    · exact spillOne_named nm e (Or.inr hs)
    · exact sheetStep_named (spillOne_named nm e (Or.inr hs)) l n e
  · exact sheetStep_named nm l n e

theorem dropPart_named {st : St} (nm : Named st) (n : String) : Named (dropPart st n) := by
  refine nm.of_sub (fun k h => ?_)
  unfold dropPart at h
  split at h
  · exact isSome_erase h
  · exact h

theorem readFileInto_named {st st2 : St} (nm : Named st) {n : String} {e : Entry}
    (hr : readFileInto st n e = .inl (some st2)) : Named st2 := by
  unfold readFileInto at hr
  split at hr
  · cases hr
  · split at hr
    · cases hr
    · injection hr with hr; injection hr with hr; subst hr; exact nm

theorem readZip_named (l : Limits) : ∀ (es : List Entry) (st : St) (t : Int) (ws : Nat), Named st →
    Named (readZip l st t ws es).st
  | [], st, t, ws, h => by simpa [readZip, ZRes.st] using h
  | e :: rest, st, t, ws, h => by
    have hf : Facts.C12.dupReplaces = true := by decide
    unfold readZip
    simp only [hf, if_true]
    split
    · simpa [ZRes.st] using h
    · have s := spillStep_named (dropPart_named h (normName e.name)) l (normName e.name) e
      split
      · exact readZip_named l rest _ _ _ s
      · split
        · simpa [ZRes.st] using s
        · simpa [ZRes.st] using s
        · rename_i st2 h2
          exact readZip_named l rest _ _ _ (readFileInto_named s h2)

end XlModel.Store
