/-
C12: the verdict of ReadZipReader for arbitrary entry lists (entries that cannot be opened,
negative declared sizes) as a state-free function of the limits and the zip directory.
-/
import XlModel.Lemmas.Store8

namespace XlModel.Store
open XlModel AMap

def ioClean : IoErr → Bool
  | .none => true
  | _ => false

theorem spillOne_clean (st : St) (n : String) (e : Entry) : (spillOne st n e).2 = ioClean e.io := by
  unfold spillOne unzipToTemp
  cases e.io <;> rfl

/-- does the loop `continue` after the spill `if`s (entry spilled without error)? A pure function
of the limits and the entry. -/
def spillCont (l : Limits) (n : String) (e : Entry) : Bool :=
  if sstGuard l n e then (if ioClean e.io then true else (isSheet n && sheetGuard l e && ioClean e.io))
  else (isSheet n && sheetGuard l e && ioClean e.io)

theorem spillStep_flag (l : Limits) (st : St) (n : String) (e : Entry) :
    (spillStep l st n e).2 = spillCont l n e := by
  have sheet : ∀ s : St, (sheetStep l s n e).2 = (isSheet n && sheetGuard l e && ioClean e.io) := by
    intro s
    unfold sheetStep
    split
    · rename_i h1
      split
      · rename_i h2; rw [spillOne_clean, h1, h2]; simp
      · rename_i h2; simp [h1, h2]
    · rename_i h1; simp [h1]
  unfold spillStep spillCont
  split
  · simp only []
    split
    · rename_i h; rw [spillOne_clean] at h; rw [if_pos h, spillOne_clean, h]
    · rename_i h
      rw [spillOne_clean] at h
      rw [sheet, if_neg h]
  · exact sheet st

inductive Verdict where
  | ok | sizeErr | readErr | panic
deriving DecidableEq, Repr

def ZRes.verdict : ZRes → Verdict
  | .ok _ _ => .ok | .sizeErr _ => .sizeErr | .readErr _ => .readErr | .panic _ => .panic

/-- what happens to one entry once the size guard has passed (its declared size is then non-negative,
so `readFile`'s `make` cannot panic any more): it is spilled, read into memory, or `Open` fails -/
def entryOutcome (l : Limits) (e : Entry) : Verdict :=
  if spillCont l (normName e.name) e then .ok
  else match e.io with
    | .open => .readErr
    | _ => .ok

/-- the size guard: a declared size of 2^63 or more (negative `FileInfo().Size()`), or a running
declared total above UnzipSizeLimit -/
def over (l : Limits) (t : Int) (e : Entry) : Prop := e.declared < 0 ∨ t + e.declared > l.size

instance (l : Limits) (t : Int) (e : Entry) : Decidable (over l t e) := by unfold over; exact inferInstance

/-- the verdict as a function of the limits and the zip directory only -/
def verdictOf (l : Limits) : Int → List Entry → Verdict
  | _, [] => .ok
  | t, e :: r =>
    if over l t e then .sizeErr
    else if entryOutcome l e = .ok then verdictOf l (t + e.declared) r
    else entryOutcome l e

theorem verdictOf_nil (l : Limits) (t : Int) : verdictOf l t [] = .ok := rfl

theorem verdictOf_cons (l : Limits) (t : Int) (e : Entry) (r : List Entry) :
    verdictOf l t (e :: r) = if over l t e then .sizeErr
      else if entryOutcome l e = .ok then verdictOf l (t + e.declared) r else entryOutcome l e := rfl

theorem readZip_verdictOf (l : Limits) : ∀ (es : List Entry) (st : St) (t : Int) (ws : Nat),
    (readZip l st t ws es).verdict = verdictOf l t es
  | [], st, t, ws => by rw [verdictOf_nil]; rfl
  | e :: rest, st, t, ws => by
    rw [readZip_cons, verdictOf_cons]
    by_cases hg : over l t e
    · rw [if_pos (by rw [sizeGuard_eq]; exact decide_eq_true hg), if_pos hg]; rfl
    · rw [if_neg (by rw [sizeGuard_eq]; simpa [over] using hg), if_neg hg, spillStep_flag]
      have hnn : ¬ e.declared < 0 := fun h => hg (Or.inl h)
      unfold entryOutcome
      by_cases hc : spillCont l (normName e.name) e = true
      · rw [if_pos hc, if_pos hc, if_pos rfl]
        exact readZip_verdictOf l rest _ _ _
      · rw [if_neg hc, if_neg hc]
        unfold readFileInto
        cases hio : e.io with
        | «open» => simp [ZRes.verdict]
        | none => simp only [hnn, if_false, if_true]; exact readZip_verdictOf l rest _ _ _
        | copy => simp only [hnn, if_false, if_true]; exact readZip_verdictOf l rest _ _ _

/-- no panic outcome is left: the guard rejects a negative declared size before `readFile` runs -/
theorem verdictOf_ne_panic (l : Limits) : ∀ (es : List Entry) (t : Int), verdictOf l t es ≠ .panic
  | [], t => by rw [verdictOf_nil]; intro h; cases h
  | e :: r, t => by
    rw [verdictOf_cons]
    split
    · intro h; cases h
    · split
      · exact verdictOf_ne_panic l r _
      · unfold entryOutcome
        split
        · intro h; cases h
        · cases e.io <;> (intro h; cases h)

/-- running total before entry k -/
def totalBefore (t : Int) (es : List Entry) (k : Nat) : Int := t + declSum (es.take k)

/-- the size error is returned iff there is a first entry at which the guard fires (declared size
negative, i.e. >= 2^63, or running declared total above the limit) and every entry before it
could be processed -/
theorem verdictOf_sizeErr (l : Limits) : ∀ (es : List Entry) (t : Int),
    verdictOf l t es = .sizeErr ↔
      ∃ k e, es[k]? = some e ∧ over l (totalBefore t es k) e ∧
        (∀ j e', j < k → es[j]? = some e' → ¬ over l (totalBefore t es j) e' ∧ entryOutcome l e' = .ok)
  | [], t => by
    rw [verdictOf_nil]
    constructor
    · intro h; cases h
    · rintro ⟨k, e, h1, _⟩; simp at h1
  | e :: rest, t => by
    rw [verdictOf_cons]
    by_cases hg : over l t e
    · rw [if_pos hg]
      constructor
      · intro _
        exact ⟨0, e, by simp, by simpa [totalBefore, declSum] using hg, by intro j e' hj; omega⟩
      · intro _; rfl
    · rw [if_neg hg]
      have ih := verdictOf_sizeErr l rest (t + e.declared)
      have tb : ∀ k, totalBefore t (e :: rest) (k + 1) = totalBefore (t + e.declared) rest k := by
        intro k; simp only [totalBefore, List.take_succ_cons, declSum]; omega
      by_cases ho : entryOutcome l e = .ok
      · rw [if_pos ho, ih]
        constructor
        · rintro ⟨k, x, h1, h2, h3⟩
          refine ⟨k + 1, x, by simpa using h1, by rw [tb]; exact h2, ?_⟩
          intro j e' hj hx
          cases j with
          | zero =>
            simp at hx; subst hx
            exact ⟨by simpa [totalBefore, declSum] using hg, ho⟩
          | succ j =>
            rw [tb]
            exact h3 j e' (by omega) (by simpa using hx)
        · rintro ⟨k, x, h1, h2, h3⟩
          cases k with
          | zero =>
            simp at h1; subst h1
            exact absurd (by simpa [totalBefore, declSum] using h2) hg
          | succ k =>
            refine ⟨k, x, by simpa using h1, by rw [← tb]; exact h2, ?_⟩
            intro j e' hj hx
            have := h3 (j + 1) e' (by omega) (by simpa using hx)
            rw [tb] at this
            exact this
      · rw [if_neg ho]
        constructor
        · intro h; exact absurd h (by
            unfold entryOutcome at ho ⊢
            split
            · intro h'; cases h'
            · cases e.io <;> (intro h'; cases h'))
        · rintro ⟨k, x, h1, h2, h3⟩
          cases k with
          | zero =>
            simp at h1; subst h1
            exact absurd (by simpa [totalBefore, declSum] using h2) hg
          | succ k => exact absurd (h3 0 e (by omega) (by simp)).2 ho

end XlModel.Store
