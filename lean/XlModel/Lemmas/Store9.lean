/-
C12: the verdict of ReadZipReader for arbitrary entry lists (entries that cannot be opened,
negative declared sizes) as a state-free function of the limits and the zip directory.
-/
import XlModel.Lemmas.Store8

namespace XlModel.Store
open XlModel AMap

def ioClean : IoErr → Bool
  | .none => true
  | _ => false

theorem spillOne_clean (st : St) (n : String) (e : Entry) : (spillOne st n e).2 = ioClean e.io := by
  unfold spillOne unzipToTemp
  cases e.io <;> rfl

/-- does the loop `continue` after the spill `if`s (entry spilled without error)? A pure function
of the limits and the entry. -/
def spillCont (l : Limits) (n : String) (e : Entry) : Bool :=
  if sstGuard l n e then (if ioClean e.io then true else (isSheet n && sheetGuard l e && ioClean e.io))
  else (isSheet n && sheetGuard l e && ioClean e.io)

theorem spillStep_flag (l : Limits) (st : St) (n : String) (e : Entry) :
    (spillStep l st n e).2 = spillCont l n e := by
  have sheet : ∀ s : St, (sheetStep l s n e).2 = (isSheet n && sheetGuard l e && ioClean e.io) := by
    intro s
    unfold sheetStep
    split
    · rename_i h1
      split
      · rename_i h2; rw [spillOne_clean, h1, h2]; simp
      · rename_i h2; simp [h1, h2]
    · rename_i h1; simp [h1]
  unfold spillStep spillCont
  split
  · simp only []
    split
    · rename_i h; rw [spillOne_clean] at h; rw [if_pos h, spillOne_clean, h]
    · rename_i h
      rw [spillOne_clean] at h
      rw [sheet, if_neg h]
  · exact sheet st

inductive Verdict where
  | ok | sizeErr | readErr | panic
deriving DecidableEq, Repr

def ZRes.verdict : ZRes → Verdict
  | .ok _ _ => .ok | .sizeErr _ => .sizeErr | .readErr _ => .readErr | .panic _ => .panic

/-- what happens to one entry once the size guard has passed -/
def entryOutcome (l : Limits) (e : Entry) : Verdict :=
  if spillCont l (normName e.name) e then .ok
  else match e.io with
    | .open => .readErr
    | _ => if e.declared < 0 then .panic else .ok

/-- the verdict as a function of the limits and the zip directory only -/
def verdictOf (l : Limits) : Int → List Entry → Verdict
  | _, [] => .ok
  | t, e :: r =>
    if t + e.declared > l.size then .sizeErr
    else if entryOutcome l e = .ok then verdictOf l (t + e.declared) r
    else entryOutcome l e

theorem verdictOf_nil (l : Limits) (t : Int) : verdictOf l t [] = .ok := rfl

theorem verdictOf_cons (l : Limits) (t : Int) (e : Entry) (r : List Entry) :
    verdictOf l t (e :: r) = if t + e.declared > l.size then .sizeErr
      else if entryOutcome l e = .ok then verdictOf l (t + e.declared) r else entryOutcome l e := rfl

theorem readZip_verdictOf (l : Limits) : ∀ (es : List Entry) (st : St) (t : Int) (ws : Nat),
    (readZip l st t ws es).verdict = verdictOf l t es
  | [], st, t, ws => by rw [verdictOf_nil]; rfl
  | e :: rest, st, t, ws => by
    rw [readZip_cons, verdictOf_cons]
    by_cases hg : t + e.declared > l.size
    · rw [if_pos (by rw [sizeGuard_eq]; exact decide_eq_true hg), if_pos hg]; rfl
    · rw [if_neg (by rw [sizeGuard_eq]; simpa using hg), if_neg hg, spillStep_flag]
      unfold entryOutcome
      by_cases hc : spillCont l (normName e.name) e = true
      · rw [if_pos hc, if_pos hc, if_pos rfl]
        exact readZip_verdictOf l rest _ _ _
      · rw [if_neg hc, if_neg hc]
        unfold readFileInto
        cases hio : e.io with
        | «open» => simp [ZRes.verdict]
        | none =>
          by_cases hn : e.declared < 0
          · simp [hn, ZRes.verdict]
          · simp only [hn, if_false, if_true]; exact readZip_verdictOf l rest _ _ _
        | copy =>
          by_cases hn : e.declared < 0
          · simp [hn, ZRes.verdict]
          · simp only [hn, if_false, if_true]; exact readZip_verdictOf l rest _ _ _

/-- the size error is returned iff some non-empty prefix exceeds the limit and every entry before
the first such prefix could be processed -/
theorem verdictOf_sizeErr (l : Limits) : ∀ (es : List Entry) (t : Int),
    verdictOf l t es = .sizeErr ↔
      ∃ k, k < es.length ∧ t + declSum (es.take (k + 1)) > l.size ∧
        (∀ j, j < k → ¬ (t + declSum (es.take (j + 1)) > l.size)) ∧
        (∀ j, j < k → ∀ e, es[j]? = some e → entryOutcome l e = .ok)
  | [], t => by
    rw [verdictOf_nil]
    constructor
    · intro h; cases h
    · rintro ⟨k, h1, _⟩; simp at h1
  | e :: rest, t => by
    rw [verdictOf_cons]
    by_cases hg : t + e.declared > l.size
    · rw [if_pos hg]
      constructor
      · intro _
        exact ⟨0, by simp, by simpa [declSum] using hg, by intro j hj; omega, by intro j hj; omega⟩
      · intro _; rfl
    · rw [if_neg hg]
      have ih := verdictOf_sizeErr l rest (t + e.declared)
      by_cases ho : entryOutcome l e = .ok
      · rw [if_pos ho, ih]
        constructor
        · rintro ⟨k, h1, h2, h3, h4⟩
          refine ⟨k + 1, by simp; omega, ?_, ?_, ?_⟩
          · simp only [List.take_succ_cons, declSum]; omega
          · intro j hj
            cases j with
            | zero => simpa [declSum] using hg
            | succ j =>
              have := h3 j (by omega)
              simp only [List.take_succ_cons, declSum]; omega
          · intro j hj x hx
            cases j with
            | zero => simp at hx; subst hx; exact ho
            | succ j => exact h4 j (by omega) x (by simpa using hx)
        · rintro ⟨k, h1, h2, h3, h4⟩
          cases k with
          | zero => simp [declSum] at h2; omega
          | succ k =>
            refine ⟨k, by simp at h1; omega, ?_, ?_, ?_⟩
            · simp only [List.take_succ_cons, declSum] at h2; omega
            · intro j hj
              have := h3 (j + 1) (by omega)
              simp only [List.take_succ_cons, declSum] at this; omega
            · intro j hj x hx
              exact h4 (j + 1) (by omega) x (by simpa using hx)
      · rw [if_neg ho]
        constructor
        · intro h
          exfalso
          unfold entryOutcome at h ho
          split at h
          · cases h
          · cases hio : e.io <;> simp [hio] at h <;> split at h <;> cases h
        · rintro ⟨k, h1, h2, h3, h4⟩
          cases k with
          | zero => simp [declSum] at h2; omega
          | succ k => exact absurd (h4 0 (by omega) e (by simp)) ho

end XlModel.Store
