import XlModel.Stream
namespace XlModel.Stream

theorem abs_write (w : BW) (s : Bytes) : (w.write s).abs = w.abs ++ s := by
  cases w with | mk tmp buf => cases tmp <;> simp [BW.write, BW.abs]

end XlModel.Stream
