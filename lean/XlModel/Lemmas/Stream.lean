import XlModel.Stream
/-! Helper lemmas for the stream writer model (C11): buffered writer algebra,
spill simulation, step-wise invariants. -/
namespace XlModel.Stream
open XlModel.Ref

/-! ## bufferedWriter: `abs` is the concatenation of what was written -/

theorem abs_write (w : BW) (s : Bytes) : (w.write s).abs = w.abs ++ s := by
  cases w with | mk tmp buf => cases tmp <;> simp [BW.write, BW.abs]

theorem abs_flush (w : BW) : w.flush.abs = w.abs := by
  cases w with | mk tmp buf => cases tmp <;> simp [BW.flush, BW.abs]

theorem abs_sync (cfg : Cfg) (w : BW) : (w.sync cfg).abs = w.abs := by
  unfold BW.sync
  split
  · rfl
  · cases w with | mk tmp buf =>
    cases tmp with
    | none =>
      dsimp only
      split
      · simp [BW.flush, BW.abs]
      · rfl
    | some t => simp [BW.flush, BW.abs]

theorem reader_abs (w : BW) : w.reader.2 = w.abs ∧ w.reader.1.abs = w.abs := by
  simp [BW.reader, abs_flush]

/-! sizes-only machine is an exact abstraction -/

theorem sizes_write (w : BW) (s : Bytes) : (w.write s).sizes = w.sizes.write s.length := by
  cases w with | mk tmp buf => simp [BW.write, BW.sizes, BWn.write]

theorem sizes_flush (w : BW) : w.flush.sizes = w.sizes.flush := by
  cases w with | mk tmp buf => cases tmp <;> simp [BW.flush, BW.sizes, BWn.flush]

theorem sizes_sync (cfg : Cfg) (w : BW) : (w.sync cfg).sizes = w.sizes.sync cfg := by
  cases w with | mk tmp buf =>
  by_cases hlt : buf.length < cfg.chunk
  · cases tmp <;> simp [BW.sync, BWn.sync, BW.sizes, hlt]
  · cases tmp with
    | none => cases h : cfg.tmpOK <;> simp [BW.sync, BWn.sync, BW.sizes, hlt, h, BW.flush, BWn.flush]
    | some t => simp [BW.sync, BWn.sync, BW.sizes, hlt, BW.flush, BWn.flush]

theorem sizes_total (w : BW) :
    w.abs.length = (match w.sizes.tmp with | none => 0 | some t => t) + w.sizes.buf := by
  cases w with | mk tmp buf => cases tmp <;> simp [BW.abs, BW.sizes]

/-! ## two stream writers that differ only in where the bytes are held -/

/-- same content, same control state; the split between temp file and buffer may differ -/
def Sim (s t : SW) : Prop :=
  s.raw.abs = t.raw.abs ∧ s.rows = t.rows ∧ s.sheetWritten = t.sheetWritten ∧
  s.mergeCount = t.mergeCount ∧ s.mergeCells = t.mergeCells ∧ s.colStyles = t.colStyles ∧
  s.nStyles = t.nStyles ∧ s.pre = t.pre ∧ s.log = t.log ∧ s.preW = t.preW

theorem Sim.refl (s : SW) : Sim s s := by simp [Sim]

theorem sim_writeSheetData {s t : SW} (h : Sim s t) : Sim (writeSheetData s) (writeSheetData t) := by
  obtain ⟨h1, h2, h3, h4, h5, h6, h7, h8, h9, h10⟩ := h
  unfold writeSheetData
  rw [h3]
  split
  · exact ⟨h1, h2, h3, h4, h5, h6, h7, h8, h9, h10⟩
  · refine ⟨?_, h2, rfl, h4, h5, h6, h7, h8, h9, h8⟩
    simp [abs_write, h1, h8]

theorem sim_setRow (x : Ext) (c1 c2 : Cfg) {s t : SW} (h : Sim s t) (cell : Bytes) (vals : List Item) (o : RowOpts) :
    Sim (setRow x c1 s cell vals o).1 (setRow x c2 t cell vals o).1 ∧
    (setRow x c1 s cell vals o).2 = (setRow x c2 t cell vals o).2 := by
  have hw := sim_writeSheetData h
  obtain ⟨h1, h2, h3, h4, h5, h6, h7, h8, h9, h10⟩ := h
  obtain ⟨w1, w2, w3, w4, w5, w6, w7, w8, w9, w10⟩ := hw
  unfold setRow
  rw [h2, h6]
  split
  · exact ⟨⟨h1, h2, h3, h4, h5, h6, h7, h8, h9, h10⟩, rfl⟩
  · split
    · exact ⟨⟨h1, h2, h3, h4, h5, h6, h7, h8, h9, h10⟩, rfl⟩
    · split
      · exact ⟨⟨h1, h2, h3, h4, h5, h6, h7, h8, h9, h10⟩, rfl⟩
      · split
        · exact ⟨⟨h1, h2, h3, h4, h5, h6, h7, h8, h9, h10⟩, rfl⟩
        · refine ⟨⟨?_, rfl, w3, w4, w5, w6, w7, w8, ?_, w10⟩, rfl⟩
          · simp [abs_sync, abs_write, w1]
          · simp [w9]

theorem sim_step (x : Ext) (c1 c2 : Cfg) {s t : SW} (h : Sim s t) (op : Op) :
    Sim (step x c1 s op).1 (step x c2 t op).1 ∧ (step x c1 s op).2 = (step x c2 t op).2 := by
  cases op with
  | setRow cell vals o => exact sim_setRow x c1 c2 h cell vals o
  | merge tl br =>
    obtain ⟨h1, h2, h3, h4, h5, h6, h7, h8, h9, h10⟩ := h
    simp only [step, mergeCell]
    repeat' split
    all_goals (refine ⟨?_, rfl⟩; simp_all [Sim])
  | colWidth a b w pre' =>
    obtain ⟨h1, h2, h3, h4, h5, h6, h7, h8, h9, h10⟩ := h
    simp only [step, setColWidth, h3]
    repeat' split
    all_goals (refine ⟨?_, rfl⟩; simp_all [Sim])
  | colStyle a b st pre' =>
    obtain ⟨h1, h2, h3, h4, h5, h6, h7, h8, h9, h10⟩ := h
    simp only [step, setColStyle, h3, h7]
    repeat' split
    all_goals (refine ⟨?_, rfl⟩; simp_all [Sim])
  | panes ok pre' =>
    obtain ⟨h1, h2, h3, h4, h5, h6, h7, h8, h9, h10⟩ := h
    simp only [step, setPanes, h3]
    repeat' split
    all_goals (refine ⟨?_, rfl⟩; simp_all [Sim])
  | reader =>
    obtain ⟨h1, h2, h3, h4, h5, h6, h7, h8, h9, h10⟩ := h
    refine ⟨?_, rfl⟩
    exact ⟨by simp [step, reader, abs_flush, h1], h2, h3, h4, h5, h6, h7, h8, h9, h10⟩
  | flush e =>
    have hw := sim_writeSheetData h
    obtain ⟨w1, w2, w3, w4, w5, w6, w7, w8, w9, w10⟩ := hw
    refine ⟨?_, rfl⟩
    refine ⟨?_, w2, w3, w4, w5, w6, w7, w8, w9, w10⟩
    simp [step, flush, abs_flush, abs_write, w1, epilogBytes, mergeBlock, w4, w5]

theorem sim_run (x : Ext) (c1 c2 : Cfg) (ops : List Op) : ∀ {s t : SW}, Sim s t →
    Sim (run x c1 s ops).1 (run x c2 t ops).1 ∧ (run x c1 s ops).2 = (run x c2 t ops).2 := by
  induction ops with
  | nil => intro s t h; exact ⟨h, rfl⟩
  | cons op ops ih =>
    intro s t h
    have hs := sim_step x c1 c2 h op
    have hr := ih hs.1
    simp only [run]
    exact ⟨hr.1, by rw [hs.2, hr.2]⟩

/-! ## SetRow: rejected ⇒ nothing changes; accepted ⇒ exactly one row is appended -/

theorem setRow_rejected (x : Ext) (cfg : Cfg) (s : SW) (cell : Bytes) (vals : List Item) (o : RowOpts)
    (e : E) (h : (setRow x cfg s cell vals o).2 = some e) : (setRow x cfg s cell vals o).1 = s := by
  unfold setRow at h ⊢
  cases h1 : cellNameToCoordinates cell with
  | error e1 => simp
  | ok p =>
    obtain ⟨col, row⟩ := p
    simp only [h1] at h ⊢
    by_cases h2 : row ≤ s.rows
    · simp [h2]
    · rw [if_neg h2] at h ⊢
      cases h3 : marshalAttrs o with
      | error e3 => simp
      | ok attrs =>
        simp only [h3] at h ⊢
        cases h4 : rowCells x s.colStyles o.style row col vals with
        | error e4 => simp
        | ok cells => simp [h4] at h

theorem abs_writeSheetData (s : SW) :
    (writeSheetData s).raw.abs = s.raw.abs ++ (if s.sheetWritten then [] else s.pre) := by
  unfold writeSheetData
  split <;> simp_all [abs_write]

theorem setRow_accepted (x : Ext) (cfg : Cfg) (s : SW) (cell : Bytes) (vals : List Item) (o : RowOpts)
    (h : (setRow x cfg s cell vals o).2 = none) :
    ∃ col row attrs cells,
      cellNameToCoordinates cell = .ok (col, row) ∧ s.rows < row ∧ marshalAttrs o = .ok attrs ∧
      rowCells x s.colStyles o.style row col vals = .ok cells ∧
      (setRow x cfg s cell vals o).1.rows = row ∧
      (setRow x cfg s cell vals o).1.sheetWritten = true ∧
      (setRow x cfg s cell vals o).1.colStyles = s.colStyles ∧
      (setRow x cfg s cell vals o).1.preW = (if s.sheetWritten then s.preW else s.pre) ∧
      (setRow x cfg s cell vals o).1.log = s.log ++ [{ row := row, attrs := attrs, cells := cells }] ∧
      (setRow x cfg s cell vals o).1.raw.abs =
        s.raw.abs ++ (if s.sheetWritten then [] else s.pre)
          ++ renderRow x { row := row, attrs := attrs, cells := cells } := by
  unfold setRow at h ⊢
  cases h1 : cellNameToCoordinates cell with
  | error e1 => simp [h1] at h
  | ok p =>
    obtain ⟨col, row⟩ := p
    simp only [h1] at h ⊢
    by_cases h2 : row ≤ s.rows
    · simp [h2] at h
    · rw [if_neg h2] at h ⊢
      cases h3 : marshalAttrs o with
      | error e3 => simp [h3] at h
      | ok attrs =>
        simp only [h3] at h ⊢
        cases h4 : rowCells x s.colStyles o.style row col vals with
        | error e4 => simp [h4] at h
        | ok cells =>
          refine ⟨col, row, attrs, cells, rfl, by omega, rfl, h4, ?_, ?_, ?_, ?_, ?_, ?_⟩
          all_goals simp only [h4]
          · unfold writeSheetData; split <;> simp_all
          · unfold writeSheetData; split <;> rfl
          · unfold writeSheetData; split <;> simp_all
          · unfold writeSheetData; split <;> rfl
          · simp [abs_sync, abs_write, abs_writeSheetData]

/-! ## invariants of call sequences -/

def Op.isFlush : Op → Bool
  | .flush _ => true
  | _ => false

def Op.isSetRow : Op → Bool
  | .setRow _ _ _ => true
  | _ => false

/-- steps other than SetRow and Flush leave the output, the row counter, the log and the written flag alone
(Reader only moves bytes from the buffer to the temp file) -/
theorem step_other (x : Ext) (cfg : Cfg) (s : SW) (op : Op) (h1 : op.isSetRow = false) (h2 : op.isFlush = false) :
    (step x cfg s op).1.raw.abs = s.raw.abs ∧ (step x cfg s op).1.rows = s.rows ∧
    (step x cfg s op).1.log = s.log ∧ (step x cfg s op).1.sheetWritten = s.sheetWritten ∧
    (step x cfg s op).1.preW = s.preW := by
  cases op with
  | setRow cell vals o => simp [Op.isSetRow] at h1
  | flush e => simp [Op.isFlush] at h2
  | merge tl br => simp only [step, mergeCell]; repeat' split
                   all_goals simp
  | colWidth a b w p => simp only [step, setColWidth]; repeat' split
                        all_goals simp
  | colStyle a b st p => simp only [step, setColStyle]; repeat' split
                         all_goals simp
  | panes ok p => simp only [step, setPanes]; repeat' split
                  all_goals simp
  | reader => simp [step, reader, abs_flush]

/-- accepted rows are strictly ascending and never above the row counter -/
def Asc (s : SW) : Prop :=
  s.log.Pairwise (fun a b => a.row < b.row) ∧ ∀ r ∈ s.log, r.row ≤ s.rows

theorem asc_step (x : Ext) (cfg : Cfg) (s : SW) (op : Op) (h : Asc s) : Asc (step x cfg s op).1 := by
  by_cases hs : op.isSetRow = true
  · cases op with
    | setRow cell vals o =>
      simp only [step]
      cases hres : (setRow x cfg s cell vals o).2 with
      | some e => rw [setRow_rejected x cfg s cell vals o e hres]; exact h
      | none =>
        obtain ⟨col, row, attrs, cells, _, hlt, _, _, hrows, _, _, _, hlog, _⟩ := setRow_accepted x cfg s cell vals o hres
        refine ⟨?_, ?_⟩
        · rw [hlog, List.pairwise_append]
          refine ⟨h.1, by simp, ?_⟩
          intro a ha b hb
          simp at hb
          subst hb
          have := h.2 a ha
          simp only
          omega
        · intro r hr
          rw [hlog] at hr
          rw [hrows]
          simp at hr
          rcases hr with hr | hr
          · have := h.2 r hr; omega
          · subst hr; simp
    | _ => simp [Op.isSetRow] at hs
  · by_cases hf : op.isFlush = true
    · cases op with
      | flush e =>
        simp only [step, flush]
        have : (writeSheetData s).log = s.log ∧ (writeSheetData s).rows = s.rows := by
          unfold writeSheetData; split <;> simp
        exact ⟨by simpa [this.1] using h.1, by simpa [this.1, this.2] using h.2⟩
      | _ => simp [Op.isFlush] at hf
    · have := step_other x cfg s op (by simpa using hs) (by simpa using hf)
      exact ⟨by rw [this.2.2.1]; exact h.1, by rw [this.2.2.1, this.2.1]; exact h.2⟩

theorem asc_run (x : Ext) (cfg : Cfg) (ops : List Op) : ∀ (s : SW), Asc s → Asc (run x cfg s ops).1 := by
  induction ops with
  | nil => intro s h; exact h
  | cons op ops ih => intro s h; simp only [run]; exact ih _ (asc_step x cfg s op h)

/-- the shape of the buffered output before Flush: prolog, the pre-data written once, the accepted rows in order -/
def Out (x : Ext) (prolog : Bytes) (s : SW) : Prop :=
  s.raw.abs = prolog ++ (if s.sheetWritten then s.preW else []) ++ s.log.flatMap (renderRow x) ∧
  (s.sheetWritten = false → s.log = [])

theorem out_step (x : Ext) (cfg : Cfg) (prolog : Bytes) (s : SW) (op : Op) (hf : op.isFlush = false)
    (h : Out x prolog s) : Out x prolog (step x cfg s op).1 := by
  by_cases hs : op.isSetRow = true
  · cases op with
    | setRow cell vals o =>
      simp only [step]
      cases hres : (setRow x cfg s cell vals o).2 with
      | some e => rw [setRow_rejected x cfg s cell vals o e hres]; exact h
      | none =>
        obtain ⟨col, row, attrs, cells, _, _, _, _, _, hsw, _, hpw, hlog, habs⟩ := setRow_accepted x cfg s cell vals o hres
        refine ⟨?_, ?_⟩
        · rw [habs, hsw, hpw, hlog, h.1]
          cases hb : s.sheetWritten with
          | true => simp
          | false => simp [h.2 hb]
        · intro hc; rw [hsw] at hc; simp at hc
    | _ => simp [Op.isSetRow] at hs
  · have := step_other x cfg s op (by simpa using hs) hf
    refine ⟨?_, ?_⟩
    · rw [this.1, this.2.2.1, this.2.2.2.1, this.2.2.2.2]; exact h.1
    · rw [this.2.2.1, this.2.2.2.1]; exact h.2

theorem out_run (x : Ext) (cfg : Cfg) (prolog : Bytes) (ops : List Op) :
    ∀ (s : SW), (∀ op ∈ ops, op.isFlush = false) → Out x prolog s → Out x prolog (run x cfg s ops).1 := by
  induction ops with
  | nil => intro s _ h; exact h
  | cons op ops ih =>
    intro s hf h
    simp only [run]
    exact ih _ (fun o ho => hf o (List.mem_cons_of_mem _ ho)) (out_step x cfg prolog s op (hf op (List.mem_cons_self ..)) h)

theorem run_append (x : Ext) (cfg : Cfg) (s : SW) (a b : List Op) :
    (run x cfg s (a ++ b)).1 = (run x cfg (run x cfg s a).1 b).1 := by
  induction a generalizing s with
  | nil => rfl
  | cons op a ih => simp only [List.cons_append, run]; exact ih _

theorem abs_flushOp (s : SW) (e : Epilog) :
    (flush s e).raw.abs = s.raw.abs ++ (if s.sheetWritten then [] else s.pre) ++ epilogBytes (writeSheetData s) e := by
  simp [flush, abs_flush, abs_write, abs_writeSheetData]

end XlModel.Stream
