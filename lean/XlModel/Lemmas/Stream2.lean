import XlModel.Lemmas.Stream
import XlModel.Props.C20
/-! Cell- and row-level lemmas relating what the stream writer emits to what the
in-memory API stores (C11). -/
namespace XlModel.Stream
open XlModel.Ref

theorem lit_b : lit "b" = ['b'] := rfl
theorem lit_str : lit "str" = ['s', 't', 'r'] := rfl
theorem lit_inline : lit "inlineStr" = ['i', 'n', 'l', 'i', 'n', 'e', 'S', 't', 'r'] := rfl
theorem lit_0 : lit "0" = ['0'] := rfl
theorem lit_1 : lit "1" = ['1'] := rfl

theorem itoaInt_ne_nil (i : Int) : itoaInt i ≠ [] := by
  unfold itoaInt
  split
  · simp
  · unfold itoa
    split
    · simp
    · rename_i h1 h2
      exact itoaAux_ne_nil (by omega)

/-- values the theorem speaks about: a formatted number is never the empty string; rejected rich text is excluded -/
def Val.ok : Val → Prop
  | .num text => text ≠ []
  | .richErr => False
  | .time _ text nf nfMem => text ≠ [] ∧ nf = nfMem
  | .dur text nfMem => text ≠ [] ∧ nfMem = 0
  | _ => True

def Item.ok : Item → Prop
  | .skip => True
  | .plain v => v.ok
  | .cell _ _ v => v.ok

/-- the escaping law of `bstrMarshal`/`bstrUnmarshal` the reader relies on -/
structure ExtLaw (x : Ext) : Prop where
  inv : ∀ s, x.unbstr (x.bstr s) = s
  nil : x.unbstr [] = []

theorem cell_eq_memory (x : Ext) (hx : ExtLaw x) (cs : ColStyles) (rowStyle : Int) (ref : Bytes) (col : Int)
    (it : Item) (hskip : it.isSkip = false) (hok : it.ok) (c : XC)
    (h : mkCell x cs rowStyle ref col it = .ok c) :
    c.r = ref ∧ some (readCell x c) = Spec.cellObs cs rowStyle col it := by
  cases it with
  | skip => simp [Item.isSkip] at hskip
  | plain v =>
    cases v with
    | nil => simp [Item.isSkip] at hskip
    | richErr => simp [Item.ok, Val.ok] at hok
    | dur text nfMem =>
      obtain ⟨hne, hnf⟩ : text ≠ [] ∧ nfMem = 0 := hok
      subst hnf
      simp only [mkCell, setCellVal, Except.ok.injEq] at h
      subst h
      by_cases hr : rowStyle = 0 <;> by_cases hc : colStyleAt cs col = 0 <;>
        simp [readCell, Spec.cellObs, Spec.valObs, Spec.valStyle, prepareCellStyle, lit_b, lit_str, lit_inline, hne, hr, hc]
    | time isNum text nf nfMem =>
      obtain ⟨hne, hnf⟩ : text ≠ [] ∧ nf = nfMem := hok
      subst hnf
      cases isNum
      · simp only [mkCell, setCellVal, Bool.false_eq_true, if_false, Except.ok.injEq] at h
        subst h
        simp [readCell, Spec.cellObs, Spec.valObs, Spec.valStyle, prepareCellStyle, lit_b, lit_str, lit_inline]
      · simp only [mkCell, setCellVal, if_true, Except.ok.injEq] at h
        subst h
        by_cases hr : rowStyle = 0 <;> by_cases hc : colStyleAt cs col = 0 <;>
          simp [readCell, Spec.cellObs, Spec.valObs, Spec.valStyle, prepareCellStyle, lit_b, lit_str, lit_inline, hne, hr, hc]
    | int i =>
      simp only [mkCell, setCellVal, Except.ok.injEq] at h
      subst h
      have := itoaInt_ne_nil i
      simp [readCell, Spec.cellObs, Spec.valObs, Spec.valStyle, prepareCellStyle, lit_b, lit_str, lit_inline, this]
    | bool b =>
      simp only [mkCell, setCellVal, Except.ok.injEq] at h
      subst h
      simp [readCell, Spec.cellObs, Spec.valObs, Spec.valStyle, prepareCellStyle, lit_b, lit_str, lit_inline]
    | num text =>
      simp only [mkCell, setCellVal, Except.ok.injEq] at h
      subst h
      have : text ≠ [] := hok
      simp [readCell, Spec.cellObs, Spec.valObs, Spec.valStyle, prepareCellStyle, lit_b, lit_str, lit_inline, this]
    | str s =>
      simp only [mkCell, setCellVal, Option.isSome_none, Bool.false_eq_true, if_false, Except.ok.injEq] at h
      subst h
      simp [readCell, Spec.cellObs, Spec.valObs, Spec.valStyle, prepareCellStyle, lit_b, lit_str, lit_inline]
    | rich xml =>
      simp only [mkCell, setCellVal, Except.ok.injEq] at h
      subst h
      simp [readCell, Spec.cellObs, Spec.valObs, Spec.valStyle, prepareCellStyle, lit_b, lit_str, lit_inline]
  | cell style formula v =>
    by_cases hf : formula = []
    · subst hf
      cases v with
      | richErr => simp [Item.ok, Val.ok] at hok
      | dur text nfMem =>
        obtain ⟨hne, hnf⟩ : text ≠ [] ∧ nfMem = 0 := hok
        subst hnf
        by_cases hs : style > 0
        · simp [mkCell, setCellFormula, setCellVal, hs] at h
          subst h
          have hs0 : style ≠ 0 := by omega
          simp [readCell, Spec.cellObs, Spec.valObs, Spec.valStyle, prepareCellStyle, lit_b, lit_str, lit_inline, hs, hs0, hne]
        · simp [mkCell, setCellFormula, setCellVal, hs] at h
          subst h
          by_cases hr : rowStyle = 0 <;> by_cases hc : colStyleAt cs col = 0 <;>
            simp [readCell, Spec.cellObs, Spec.valObs, Spec.valStyle, prepareCellStyle, lit_b, lit_str, lit_inline, hs, hne, hr, hc]
      | time isNum text nf nfMem =>
        obtain ⟨hne, hnf⟩ : text ≠ [] ∧ nf = nfMem := hok
        subst hnf
        cases isNum
        · by_cases hs : style > 0 <;>
          · simp [mkCell, setCellFormula, setCellVal, hs] at h
            subst h
            simp [readCell, Spec.cellObs, Spec.valObs, Spec.valStyle, prepareCellStyle, lit_b, lit_str, lit_inline, hs]
        · by_cases hs : style > 0
          · simp [mkCell, setCellFormula, setCellVal, hs] at h
            subst h
            have hs0 : style ≠ 0 := by omega
            simp [readCell, Spec.cellObs, Spec.valObs, Spec.valStyle, prepareCellStyle, lit_b, lit_str, lit_inline, hs, hs0, hne]
          · simp [mkCell, setCellFormula, setCellVal, hs] at h
            subst h
            by_cases hr : rowStyle = 0 <;> by_cases hc : colStyleAt cs col = 0 <;>
              simp [readCell, Spec.cellObs, Spec.valObs, Spec.valStyle, prepareCellStyle, lit_b, lit_str, lit_inline, hs, hne, hr, hc]
      | nil =>
        simp only [mkCell, setCellFormula, setCellVal, Except.ok.injEq] at h
        subst h
        by_cases hs : style > 0 <;>
          simp [readCell, Spec.cellObs, Spec.valObs, Spec.valStyle, prepareCellStyle, lit_b, lit_str, lit_inline, hs]
      | int i =>
        simp only [mkCell, setCellFormula, setCellVal, Except.ok.injEq] at h
        subst h
        have := itoaInt_ne_nil i
        by_cases hs : style > 0 <;>
          simp [readCell, Spec.cellObs, Spec.valObs, Spec.valStyle, prepareCellStyle, lit_b, lit_str, lit_inline, hs, this]
      | bool b =>
        simp only [mkCell, setCellFormula, setCellVal, Except.ok.injEq] at h
        subst h
        by_cases hs : style > 0 <;>
          simp [readCell, Spec.cellObs, Spec.valObs, Spec.valStyle, prepareCellStyle, lit_b, lit_str, lit_inline, hs]
      | num text =>
        simp only [mkCell, setCellFormula, setCellVal, Except.ok.injEq] at h
        subst h
        have : text ≠ [] := hok
        by_cases hs : style > 0 <;>
          simp [readCell, Spec.cellObs, Spec.valObs, Spec.valStyle, prepareCellStyle, lit_b, lit_str, lit_inline, hs, this]
      | str s =>
        by_cases hs : style > 0 <;>
        · simp [mkCell, setCellFormula, setCellVal, hs] at h
          subst h
          simp [readCell, Spec.cellObs, Spec.valObs, Spec.valStyle, prepareCellStyle, lit_b, lit_str, lit_inline, hs]
      | rich xml =>
        simp only [mkCell, setCellFormula, setCellVal, Except.ok.injEq] at h
        subst h
        by_cases hs : style > 0 <;>
          simp [readCell, Spec.cellObs, Spec.valObs, Spec.valStyle, prepareCellStyle, lit_b, lit_str, lit_inline, hs]
    · cases v with
      | richErr => simp [Item.ok, Val.ok] at hok
      | dur text nfMem =>
        obtain ⟨hne, hnf⟩ : text ≠ [] ∧ nfMem = 0 := hok
        subst hnf
        by_cases hs : style > 0
        · simp [mkCell, setCellFormula, setCellVal, hs, hf] at h
          subst h
          have hs0 : style ≠ 0 := by omega
          simp [readCell, Spec.cellObs, Spec.valObs, Spec.valStyle, prepareCellStyle, lit_b, lit_str, lit_inline, hs, hs0, hne, hf]
        · simp [mkCell, setCellFormula, setCellVal, hs, hf] at h
          subst h
          by_cases hr : rowStyle = 0 <;> by_cases hc : colStyleAt cs col = 0 <;>
            simp [readCell, Spec.cellObs, Spec.valObs, Spec.valStyle, prepareCellStyle, lit_b, lit_str, lit_inline, hs, hne, hr, hc, hf]
      | time isNum text nf nfMem =>
        obtain ⟨hne, hnf⟩ : text ≠ [] ∧ nf = nfMem := hok
        subst hnf
        cases isNum
        · by_cases hs : style > 0 <;>
          · simp [mkCell, setCellFormula, setCellVal, hs, hf] at h
            subst h
            simp [readCell, Spec.cellObs, Spec.valObs, Spec.valStyle, prepareCellStyle, lit_b, lit_str, lit_inline, hs, hf]
        · by_cases hs : style > 0
          · simp [mkCell, setCellFormula, setCellVal, hs, hf] at h
            subst h
            have hs0 : style ≠ 0 := by omega
            simp [readCell, Spec.cellObs, Spec.valObs, Spec.valStyle, prepareCellStyle, lit_b, lit_str, lit_inline, hs, hs0, hne, hf]
          · simp [mkCell, setCellFormula, setCellVal, hs, hf] at h
            subst h
            by_cases hr : rowStyle = 0 <;> by_cases hc : colStyleAt cs col = 0 <;>
              simp [readCell, Spec.cellObs, Spec.valObs, Spec.valStyle, prepareCellStyle, lit_b, lit_str, lit_inline, hs, hne, hr, hc, hf]
      | nil =>
        simp only [mkCell, setCellFormula, setCellVal, Except.ok.injEq] at h
        subst h
        by_cases hs : style > 0 <;>
          simp [readCell, Spec.cellObs, Spec.valObs, Spec.valStyle, prepareCellStyle, lit_b, lit_str, lit_inline, hs, hf, hx.nil]
      | int i =>
        simp only [mkCell, setCellFormula, setCellVal, Except.ok.injEq] at h
        subst h
        have := itoaInt_ne_nil i
        by_cases hs : style > 0 <;>
          simp [readCell, Spec.cellObs, Spec.valObs, Spec.valStyle, prepareCellStyle, lit_b, lit_str, lit_inline, hs, hf, this]
      | bool b =>
        simp only [mkCell, setCellFormula, setCellVal, Except.ok.injEq] at h
        subst h
        by_cases hs : style > 0 <;>
          simp [readCell, Spec.cellObs, Spec.valObs, Spec.valStyle, prepareCellStyle, lit_b, lit_str, lit_inline, hs, hf]
      | num text =>
        simp only [mkCell, setCellFormula, setCellVal, Except.ok.injEq] at h
        subst h
        have : text ≠ [] := hok
        by_cases hs : style > 0 <;>
          simp [readCell, Spec.cellObs, Spec.valObs, Spec.valStyle, prepareCellStyle, lit_b, lit_str, lit_inline, hs, hf, this]
      | str s =>
        by_cases hs : style > 0 <;>
        · simp [mkCell, setCellFormula, setCellVal, hs, hf] at h
          subst h
          simp [readCell, Spec.cellObs, Spec.valObs, Spec.valStyle, prepareCellStyle, lit_b, lit_str, lit_inline, hs, hf, hx.inv]
      | rich xml =>
        simp only [mkCell, setCellFormula, setCellVal, Except.ok.injEq] at h
        subst h
        by_cases hs : style > 0 <;>
          simp [readCell, Spec.cellObs, Spec.valObs, Spec.valStyle, prepareCellStyle, lit_b, lit_str, lit_inline, hs, hf]

/-- a reference produced by `CoordinatesToCellName` decodes to the coordinates it was made from -/
theorem encode_decode_int {col row : Int} {ref : Bytes}
    (h : coordinatesToCellName col row false = .ok ref) : cellNameToCoordinates ref = .ok (col, row) := by
  unfold coordinatesToCellName at h
  split at h
  · simp at h
  · rename_i h1
    split at h
    · simp at h
    · rename_i h2
      have h1' : 1 ≤ col ∧ 1 ≤ row := by simp at h1; omega
      have hc : 1 ≤ col ∧ col ≤ (Facts.MaxColumns : Int) := by
        refine ⟨h1'.1, ?_⟩
        cases hn : columnNumberToName col with
        | error e => simp [hn] at h
        | ok name =>
          unfold columnNumberToName at hn
          split at hn
          · simp at hn
          · rename_i h3
            simp [XlModel.Facts.MinColumns] at h3
            omega
      have hr : 1 ≤ row := h1'.2
      obtain ⟨s, hs1, hs2⟩ := XlModel.Props.C20.cell_encode_decode col.toNat row.toNat false
        (by omega) (by omega) (by omega) (by omega)
      have e1 : ((col.toNat : Nat) : Int) = col := Int.toNat_of_nonneg (by omega)
      have e2 : ((row.toNat : Nat) : Int) = row := Int.toNat_of_nonneg (by omega)
      rw [e1, e2] at hs1 hs2
      have : coordinatesToCellName col row false = .ok ref := by
        unfold coordinatesToCellName
        simp only [h1, h2]
        exact h
      rw [this] at hs1
      cases hs1
      exact hs2

/-- what the in-memory calls leave in column `c` of a row that starts at `col` -/
def cellAt (cs : ColStyles) (rowStyle : Int) (col : Int) (items : List Item) (c : Int) : Option Obs :=
  if c < col then none
  else match items[(c - col).toNat]? with
    | none => none
    | some it => Spec.cellObs cs rowStyle c it

theorem cellObs_skip (cs : ColStyles) (rs c : Int) (it : Item) (h : it.isSkip = true) :
    Spec.cellObs cs rs c it = none := by
  cases it with
  | skip => rfl
  | plain v => cases v <;> simp [Item.isSkip] at h <;> rfl
  | cell a b v => simp [Item.isSkip] at h

theorem cellAt_cons_lt (cs : ColStyles) (rs col : Int) (it : Item) (rest : List Item) (c : Int) (h : c ≠ col) :
    cellAt cs rs col (it :: rest) c = cellAt cs rs (col + 1) rest c := by
  unfold cellAt
  by_cases h1 : c < col
  · have : c < col + 1 := by omega
    simp [h1, this]
  · have h2 : ¬ c < col + 1 := by omega
    have e : (c - col).toNat = (c - (col + 1)).toNat + 1 := by omega
    simp [h1, h2, e]

theorem rowCells_lookup (x : Ext) (hx : ExtLaw x) (cs : ColStyles) (rs row : Int) :
    ∀ (items : List Item) (col : Int) (cells : List XC), (∀ it ∈ items, it.ok) →
      rowCells x cs rs row col items = .ok cells →
      ∀ c, (cells.find? (fun xc => refIs xc.r c row)).map (readCell x) = cellAt cs rs col items c := by
  intro items
  induction items with
  | nil =>
    intro col cells _ h c
    simp [rowCells] at h
    subst h
    unfold cellAt
    split <;> simp
  | cons it rest ih =>
    intro col cells hok h c
    have hokr : ∀ i ∈ rest, i.ok := fun i hi => hok i (List.mem_cons_of_mem _ hi)
    unfold rowCells at h
    by_cases hsk : it.isSkip = true
    · simp only [hsk, if_true] at h
      have := ih (col + 1) cells hokr h c
      rw [this]
      by_cases hc : c = col
      · subst hc
        have l : cellAt cs rs (c + 1) rest c = none := by
          unfold cellAt; simp [show c < c + 1 by omega]
        have r : cellAt cs rs c (it :: rest) c = none := by
          unfold cellAt; simp [cellObs_skip cs rs c it hsk]
        rw [l, r]
      · exact (cellAt_cons_lt cs rs col it rest c hc).symm
    · simp only [hsk, Bool.false_eq_true, if_false] at h
      cases href : coordinatesToCellName col row false with
      | error e => simp [href] at h
      | ok ref =>
        simp only [href] at h
        cases hmk : mkCell x cs rs ref col it with
        | error e => simp [hmk] at h
        | ok xc =>
          simp only [hmk] at h
          cases hrest : rowCells x cs rs row (col + 1) rest with
          | error e => simp [hrest] at h
          | ok cells' =>
            simp only [hrest, Except.ok.injEq] at h
            subst h
            have hcell := cell_eq_memory x hx cs rs ref col it (by simpa using hsk) (hok it (List.mem_cons_self ..)) xc hmk
            have hdec := encode_decode_int href
            by_cases hc : c = col
            · subst hc
              have : refIs xc.r c row = true := by simp [refIs, hcell.1, hdec]
              simp only [List.find?_cons, this, Option.map_some]
              rw [hcell.2]
              unfold cellAt
              simp
            · have : refIs xc.r c row = false := by
                simp [refIs, hcell.1, hdec]
                intro h; exact absurd h.symm hc
              simp only [List.find?_cons, this]
              rw [ih (col + 1) cells' hokr hrest c]
              exact (cellAt_cons_lt cs rs col it rest c hc).symm

/-! ## sheet level -/

theorem lookupLog_old (x : Ext) (log : List RowRec) (rec_ : RowRec) (r c : Int) (h : rec_.row ≠ r) :
    lookupLog x (log ++ [rec_]) r c = lookupLog x log r c := by
  unfold lookupLog
  rw [List.find?_append]
  have : List.find? (fun rr => decide (rr.row = r)) [rec_] = none := by simp [h]
  rw [this]
  cases List.find? (fun rr => decide (rr.row = r)) log <;> simp

theorem lookupLog_new (x : Ext) (log : List RowRec) (rec_ : RowRec) (c : Int)
    (h : ∀ rr ∈ log, rr.row ≠ rec_.row) :
    lookupLog x (log ++ [rec_]) rec_.row c = (rec_.cells.find? (fun xc => refIs xc.r c rec_.row)).map (readCell x) := by
  unfold lookupLog
  rw [List.find?_append]
  have h1 : List.find? (fun rr => decide (rr.row = rec_.row)) log = none := by
    simp only [List.find?_eq_none, decide_eq_true_eq]
    exact h
  have h2 : List.find? (fun rr => decide (rr.row = rec_.row)) [rec_] = some rec_ := by simp
  rw [h1, h2]
  simp only [Option.none_or]
  cases List.find? (fun xc => refIs xc.r c rec_.row) rec_.cells <;> rfl

theorem specLookup_old (cs : ColStyles) (rows : List Spec.RowIn) (ri : Spec.RowIn) (r c : Int) (h : ri.row ≠ r) :
    Spec.lookup cs (rows ++ [ri]) r c = Spec.lookup cs rows r c := by
  unfold Spec.lookup
  rw [List.find?_append]
  have : List.find? (fun q : Spec.RowIn => decide (q.row = r)) [ri] = none := by simp [h]
  rw [this]
  cases List.find? (fun q : Spec.RowIn => decide (q.row = r)) rows <;> simp

theorem specLookup_new (cs : ColStyles) (rows : List Spec.RowIn) (ri : Spec.RowIn) (c : Int)
    (h : ∀ q ∈ rows, q.row ≠ ri.row) :
    Spec.lookup cs (rows ++ [ri]) ri.row c = cellAt cs ri.opts.style ri.col ri.items c := by
  unfold Spec.lookup
  rw [List.find?_append]
  have h1 : List.find? (fun q : Spec.RowIn => decide (q.row = ri.row)) rows = none := by
    simp only [List.find?_eq_none, decide_eq_true_eq]
    exact h
  have h2 : List.find? (fun q : Spec.RowIn => decide (q.row = ri.row)) [ri] = some ri := by simp
  rw [h1, h2]
  simp only [Option.none_or]
  rfl

/-- the state relation carried along an accepted row sequence -/
def Agree (x : Ext) (cs : ColStyles) (s : SW) (rows : List Spec.RowIn) : Prop :=
  (∀ r c, lookupLog x s.log r c = Spec.lookup cs rows r c) ∧
  (∀ rr ∈ s.log, rr.row ≤ s.rows) ∧ (∀ q ∈ rows, q.row ≤ s.rows) ∧ s.colStyles = cs

theorem agree_setRow (x : Ext) (hx : ExtLaw x) (cfg : Cfg) (cs : ColStyles) (s : SW) (rows : List Spec.RowIn)
    (cell : Bytes) (ri : Spec.RowIn) (hdec : cellNameToCoordinates cell = .ok (ri.col, ri.row))
    (hok : ∀ it ∈ ri.items, it.ok) (hag : Agree x cs s rows)
    (hacc : (setRow x cfg s cell ri.items ri.opts).2 = none) :
    Agree x cs (setRow x cfg s cell ri.items ri.opts).1 (rows ++ [ri]) := by
  obtain ⟨col, row, attrs, cells, hd, hlt, _, hcells, hrows, _, hcs, _, hlog, _⟩ :=
    setRow_accepted x cfg s cell ri.items ri.opts hacc
  rw [hdec] at hd
  simp only [Except.ok.injEq, Prod.mk.injEq] at hd
  obtain ⟨hcol, hrow⟩ := hd
  subst hcol hrow
  obtain ⟨h1, h2, h3, h4⟩ := hag
  refine ⟨?_, ?_, ?_, by rw [hcs]; exact h4⟩
  · intro r c
    rw [hlog]
    by_cases hr : ri.row = r
    · subst hr
      have e := lookupLog_new x s.log { row := ri.row, attrs := attrs, cells := cells } c
        (by intro rr hrr; have := h2 rr hrr; simp only; omega)
      simp only at e
      rw [e, specLookup_new cs rows ri c (by intro q hq; have := h3 q hq; omega)]
      rw [h4] at hcells
      exact rowCells_lookup x hx cs ri.opts.style ri.row ri.items ri.col cells hok hcells c
    · rw [lookupLog_old x s.log _ r c (by simpa using hr), specLookup_old cs rows ri r c hr]
      exact h1 r c
  · intro rr hrr
    rw [hlog] at hrr
    rw [hrows]
    simp at hrr
    rcases hrr with hrr | hrr
    · have := h2 rr hrr; omega
    · subst hrr; simp
  · intro q hq
    rw [hrows]
    simp at hq
    rcases hq with hq | hq
    · have := h3 q hq; omega
    · subst hq; simp

/-- the SetRow calls for a list of rows, each with the cell reference used for it -/
def rowOps (calls : List (Bytes × Spec.RowIn)) : List Op :=
  calls.map (fun p => Op.setRow p.1 p.2.items p.2.opts)

theorem agree_run (x : Ext) (hx : ExtLaw x) (cfg : Cfg) (cs : ColStyles) :
    ∀ (calls : List (Bytes × Spec.RowIn)) (s : SW) (rows : List Spec.RowIn),
      (∀ p ∈ calls, cellNameToCoordinates p.1 = .ok (p.2.col, p.2.row) ∧ ∀ it ∈ p.2.items, it.ok) →
      Agree x cs s rows →
      (∀ res ∈ (run x cfg s (rowOps calls)).2, res = none) →
      Agree x cs (run x cfg s (rowOps calls)).1 (rows ++ calls.map (·.2)) := by
  intro calls
  induction calls with
  | nil => intro s rows _ h _; simpa [rowOps, run] using h
  | cons p calls ih =>
    intro s rows hp hag hacc
    simp only [rowOps, List.map_cons, run, step] at hacc ⊢
    have hp0 := hp p (List.mem_cons_self ..)
    have h0 : (setRow x cfg s p.1 p.2.items p.2.opts).2 = none := hacc _ (List.mem_cons_self ..)
    have hag' := agree_setRow x hx cfg cs s rows p.1 p.2 hp0.1 hp0.2 hag h0
    have := ih (setRow x cfg s p.1 p.2.items p.2.opts).1 (rows ++ [p.2])
      (fun q hq => hp q (List.mem_cons_of_mem _ hq)) hag'
      (fun res hres => hacc res (List.mem_cons_of_mem _ hres))
    simpa [rowOps, List.append_assoc] using this

/-! ### the explicit roll-back of `SetRow` (`setRowRaw`) has the effect `setRow` states -/

theorem rowLoop_spec (x : Ext) (cs : ColStyles) (rs row : Int) : ∀ (items : List Item) (col : Int) (w : BW),
    match rowCells x cs rs row col items with
    | .error e => ∃ p, rowLoop x cs rs row col items w = (w.write p, some e)
    | .ok cells => rowLoop x cs rs row col items w = (w.write (cells.flatMap (writeCell x)), none) := by
  intro items
  induction items with
  | nil => intro col w; simp [rowCells, rowLoop, BW.write]
  | cons it rest ih =>
    intro col w
    unfold rowCells rowLoop
    by_cases hs : it.isSkip = true
    · simp only [hs, if_true]; exact ih (col + 1) w
    · have hs' : it.isSkip = false := by simpa using hs
      simp only [hs', Bool.false_eq_true, if_false]
      cases hc : coordinatesToCellName col row false with
      | error e => dsimp only; exact ⟨[], by simp [BW.write]⟩
      | ok ref =>
        dsimp only
        cases hm : mkCell x cs rs ref col it with
        | error e => dsimp only; exact ⟨[], by simp [BW.write]⟩
        | ok c =>
          dsimp only
          have h := ih (col + 1) (w.write (writeCell x c))
          cases hr : rowCells x cs rs row (col + 1) rest with
          | error e =>
            rw [hr] at h; obtain ⟨p, hp⟩ := h
            dsimp only
            exact ⟨writeCell x c ++ p, by rw [hp]; simp [BW.write]⟩
          | ok cells => rw [hr] at h; dsimp only at h ⊢; rw [h]; simp [BW.write]

theorem truncate_write (w : BW) (p : Bytes) : (w.write p).truncate w.buf.length = w := by
  cases w; simp [BW.write, BW.truncate]

theorem setRowRaw_eq_setRow (x : Ext) (cfg : Cfg) (s : SW) (cell : Bytes) (values : List Item) (o : RowOpts) :
    setRowRaw x cfg s cell values o = setRow x cfg s cell values o := by
  unfold setRowRaw setRow
  cases cellNameToCoordinates cell with
  | error e => rfl
  | ok cr =>
    obtain ⟨col, row⟩ := cr
    dsimp only
    split
    · rfl
    · cases marshalAttrs o with
      | error e => rfl
      | ok attrs =>
        dsimp only
        have h := rowLoop_spec x s.colStyles o.style row values col
          ((writeSheetData s).raw.write (lit "<row r=\"" ++ itoaInt row ++ lit "\"" ++ attrs ++ lit ">"))
        cases hr : rowCells x s.colStyles o.style row col values with
        | error e =>
          rw [hr] at h; obtain ⟨p, hp⟩ := h
          rw [hp]; dsimp only
          cases s with
          | mk raw rows sw mc mcs cols n pre log preW =>
            cases raw with
            | mk tmp buf =>
              cases sw <;> simp [writeSheetData, BW.write, BW.truncate]
        | ok cells =>
          rw [hr] at h
          rw [h]; dsimp only
          simp [renderRow, BW.write]

end XlModel.Stream
