import XlModel.Lemmas.Stream
set_option linter.unusedSimpArgs false
/-! Worksheet columns (C11): `flatCols` refines a pointwise map column → entry. -/
namespace XlModel.Stream

/-- first entry that is exactly column `i` -/
def getS (fc : List Col) (i : Int) : Option Col := fc.find? (fun e => e.isSingle i)
/-- first entry covering column `j` -/
def cover (cols : List Col) (j : Int) : Option Col := cols.find? (fun e => e.covers j)
/-- the worksheet columns as a map column → entry (normalised to that column) -/
def absCols (cols : List Col) (j : Int) : Option Col := (cover cols j).map (fun e => e.single j)

/-- a replacer keeps the position of the entry it updates -/
def KeyPres (repl : Col → Col → Col) : Prop := ∀ a b, (repl a b).min = a.min ∧ (repl a b).max = a.max

theorem keyPres_width : KeyPres replWidth := fun _ _ => ⟨rfl, rfl⟩
theorem keyPres_style : KeyPres replStyle := fun _ _ => ⟨rfl, rfl⟩

/-- flat list: every entry is a single column, no column twice -/
def Flat (fc : List Col) : Prop := (∀ e ∈ fc, e.min = e.max) ∧ (fc.map (·.min)).Nodup

theorem isSingle_iff (e : Col) (i : Int) : e.isSingle i = true ↔ e.min = i ∧ e.max = i := by
  simp [Col.isSingle]

theorem updFirst_none (p : Col → Bool) (f : Col → Col) (fc : List Col) :
    updFirst p f fc = none ↔ fc.find? p = none := by
  induction fc with
  | nil => simp [updFirst]
  | cons x xs ih =>
    unfold updFirst
    by_cases h : p x <;> simp [h, ih]

theorem updFirst_getS (i : Int) (f : Col → Col) (hf : ∀ a, (f a).min = a.min ∧ (f a).max = a.max) :
    ∀ (fc fc' : List Col), updFirst (fun e => e.isSingle i) f fc = some fc' →
      ∀ j, getS fc' j = if j = i then (getS fc i).map f else getS fc j := by
  intro fc
  induction fc with
  | nil => intro fc' h; simp [updFirst] at h
  | cons x xs ih =>
    intro fc' h j
    unfold updFirst at h
    by_cases hx : x.isSingle i = true
    · simp only [hx, if_true, Option.some.injEq] at h
      subst h
      have hx' := (isSingle_iff x i).1 hx
      have hfx := hf x
      by_cases hj : j = i
      · subst hj
        have : (f x).isSingle j = true := (isSingle_iff _ _).2 ⟨by rw [hfx.1]; exact hx'.1, by rw [hfx.2]; exact hx'.2⟩
        simp [getS, List.find?_cons, this, hx]
      · have h1 : (f x).isSingle j = false := by
          simp [Col.isSingle, hfx.1, hfx.2, hx'.1]; intro h; exact absurd h.symm hj
        have h2 : x.isSingle j = false := by
          simp [Col.isSingle, hx'.1]; intro h; exact absurd h.symm hj
        simp [getS, List.find?_cons, h1, h2, hj]
    · have hx0 : x.isSingle i = false := by simpa using hx
      simp only [hx0, Bool.false_eq_true, if_false] at h
      cases hu : updFirst (fun e => e.isSingle i) f xs with
      | none => simp [hu] at h
      | some xs' =>
        simp only [hu, Option.map_some, Option.some.injEq] at h
        subst h
        have := ih xs' hu j
        by_cases hj : j = i
        · subst hj
          simp [getS, List.find?_cons, hx0] at this ⊢
          exact this
        · simp only [hj, if_false] at this ⊢
          simp only [getS, List.find?_cons] at this ⊢
          split
          · rfl
          · exact this

theorem updFirst_keys (p : Col → Bool) (f : Col → Col) (hf : ∀ a, (f a).min = a.min ∧ (f a).max = a.max) :
    ∀ (fc fc' : List Col), updFirst p f fc = some fc' →
      fc'.map (·.min) = fc.map (·.min) ∧ ((∀ e ∈ fc, e.min = e.max) → ∀ e ∈ fc', e.min = e.max) := by
  intro fc
  induction fc with
  | nil => intro fc' h; simp [updFirst] at h
  | cons x xs ih =>
    intro fc' h
    unfold updFirst at h
    by_cases hx : p x = true
    · simp only [hx, if_true, Option.some.injEq] at h
      subst h
      refine ⟨by simp [(hf x).1], ?_⟩
      intro hall e he
      simp at he
      rcases he with he | he
      · subst he; rw [(hf x).1, (hf x).2]; exact hall x (by simp)
      · exact hall e (by simp [he])
    · have hx0 : p x = false := by simpa using hx
      simp only [hx0, Bool.false_eq_true, if_false] at h
      cases hu : updFirst p f xs with
      | none => simp [hu] at h
      | some xs' =>
        simp only [hu, Option.map_some, Option.some.injEq] at h
        subst h
        have := ih xs' hu
        refine ⟨by simp [this.1], ?_⟩
        intro hall e he
        simp at he
        rcases he with he | he
        · subst he; exact hall _ (by simp)
        · exact this.2 (fun e he => hall e (by simp [he])) e he

/-- in a flat list, a column is found by its first cover, whatever else is asked of the entry -/
theorem flat_find (fc : List Col) (h : Flat fc) (q : Col → Bool) (c : Int) :
    fc.find? (fun e => e.covers c && q e) = (getS fc c).filter q := by
  induction fc with
  | nil => simp [getS]
  | cons x xs ih =>
    have hx : x.min = x.max := h.1 x (by simp)
    have hxs : Flat xs := ⟨fun e he => h.1 e (by simp [he]), by have := h.2; simp at this; exact this.2⟩
    by_cases hc : x.min = c
    · have hcov : x.covers c = true := by simp [Col.covers, ← hx, hc]
      have hsing : x.isSingle c = true := by simp [Col.isSingle, ← hx, hc]
      by_cases hq : q x = true
      · simp [getS, List.find?_cons, hcov, hsing, hq, Option.filter]
      · have hq0 : q x = false := by simpa using hq
        have hnone : ∀ e ∈ xs, ¬ (e.covers c = true) := by
          intro e he hcv
          have hme : e.min = e.max := hxs.1 e he
          have : e.min = c := by simp [Col.covers, ← hme] at hcv; omega
          have hnd := h.2
          simp at hnd
          exact hnd.1 e he (by rw [this, hc])
        have : xs.find? (fun e => e.covers c && q e) = none := by
          simp only [List.find?_eq_none]
          intro e he
          simp [hnone e he]
        simp [getS, List.find?_cons, hcov, hsing, hq0, this, Option.filter]
    · have hcov : x.covers c = false := by
        simp [Col.covers, ← hx]; omega
      have hsing : x.isSingle c = false := by simp [Col.isSingle, hc]
      simp only [getS, List.find?_cons, hcov, hsing, Bool.false_and]
      exact ih hxs

theorem flat_cover (fc : List Col) (h : Flat fc) (c : Int) : cover fc c = getS fc c := by
  have := flat_find fc h (fun _ => true) c
  simp only [Bool.and_true] at this
  unfold cover
  rw [this]
  cases getS fc c <;> simp [Option.filter]

theorem single_isSingle (e : Col) (i j : Int) : (e.single i).isSingle j = decide (j = i) := by
  by_cases h : j = i <;> simp [Col.single, Col.isSingle, h]
  intro h'; exact absurd h'.symm h

theorem flatStep_getS (repl : Col → Col → Col) (hk : KeyPres repl) (fc : List Col) (i : Int) (col : Col) (j : Int) :
    getS (flatStep repl fc (i, col)) j =
      if j = i then some (match getS fc i with | some e => repl e col | none => col.single i) else getS fc j := by
  unfold flatStep
  cases hu : updFirst (fun e => e.isSingle i) (fun e => repl e col) fc with
  | some fc' =>
    have hg := updFirst_getS i (fun e => repl e col) (fun a => hk a col) fc fc' hu j
    have hne : getS fc i ≠ none := by
      intro hn
      have := (updFirst_none (fun e => e.isSingle i) (fun e => repl e col) fc).2 hn
      rw [this] at hu; cases hu
    simp only
    rw [hg]
    by_cases hj : j = i
    · simp only [hj, if_true]
      cases hgi : getS fc i with
      | none => exact absurd hgi hne
      | some e => simp
    · simp [hj]
  | none =>
    have hn : getS fc i = none := (updFirst_none _ _ fc).1 hu
    simp only
    by_cases hj : j = i
    · subst hj
      rw [hn]
      simp only [getS] at hn ⊢
      rw [List.find?_append, hn]
      simp [single_isSingle]
    · simp [getS, List.find?_append, single_isSingle, hj]

theorem flatStep_flat (repl : Col → Col → Col) (hk : KeyPres repl) (fc : List Col) (i : Int) (col : Col)
    (h : Flat fc) : Flat (flatStep repl fc (i, col)) := by
  unfold flatStep
  cases hu : updFirst (fun e => e.isSingle i) (fun e => repl e col) fc with
  | some fc' =>
    have := updFirst_keys _ (fun e => repl e col) (fun a => hk a col) fc fc' hu
    exact ⟨this.2 h.1, by rw [this.1]; exact h.2⟩
  | none =>
    have hn : fc.find? (fun e => e.isSingle i) = none := (updFirst_none _ _ fc).1 hu
    refine ⟨?_, ?_⟩
    · intro e he
      simp at he
      rcases he with he | he
      · exact h.1 e he
      · subst he; rfl
    · simp only [List.map_append, List.map_cons, List.map_nil]
      rw [List.nodup_append]
      refine ⟨h.2, by simp, ?_⟩
      intro a ha b hb
      simp [Col.single] at hb
      subst hb
      intro hab
      simp at ha
      obtain ⟨e, he, hem⟩ := ha
      have := List.find?_eq_none.1 hn e he
      simp [Col.isSingle] at this
      have hme := h.1 e he
      exact this (by omega) (by omega)

/-- folding one column entry `r` over distinct positions `L` -/
theorem fold_same (repl : Col → Col → Col) (hk : KeyPres repl) (r : Col) :
    ∀ (L : List Int) (fc : List Col), L.Nodup → Flat fc →
      Flat ((L.map (fun i => (i, r))).foldl (flatStep repl) fc) ∧
      ∀ j, getS ((L.map (fun i => (i, r))).foldl (flatStep repl) fc) j =
        if j ∈ L then some (match getS fc j with | some e => repl e r | none => r.single j) else getS fc j := by
  intro L
  induction L with
  | nil => intro fc _ hf; exact ⟨hf, by simp⟩
  | cons i L ih =>
    intro fc hnd hf
    have hnd' := List.nodup_cons.1 hnd
    have hf1 := flatStep_flat repl hk fc i r hf
    have := ih (flatStep repl fc (i, r)) hnd'.2 hf1
    simp only [List.map_cons, List.foldl_cons]
    refine ⟨this.1, ?_⟩
    intro j
    rw [this.2 j, flatStep_getS repl hk fc i r j]
    by_cases hji : j = i
    · subst hji
      simp [hnd'.1]
    · simp [hji]

theorem rangeInt_self (m : Int) : rangeInt m m = [m] := by
  have : (m + 1 - m).toNat = 1 := by omega
  simp [rangeInt, this, List.range_succ]

theorem mem_rangeInt (a b j : Int) : j ∈ rangeInt a b ↔ a ≤ j ∧ j ≤ b := by
  simp only [rangeInt, List.mem_map, List.mem_range]
  constructor
  · rintro ⟨k, hk, rfl⟩; omega
  · intro h; exact ⟨(j - a).toNat, by omega, by omega⟩

theorem nodup_rangeInt (a b : Int) : (rangeInt a b).Nodup := by
  unfold rangeInt
  rw [List.Nodup, List.pairwise_map]
  exact List.Pairwise.imp (by intro x y h; omega) List.nodup_range

/-- folding a flat list of column entries, each at its own position -/
theorem fold_flat (repl : Col → Col → Col) (hk : KeyPres repl) :
    ∀ (cols fc : List Col), Flat cols → Flat fc →
      Flat ((cols.map (fun c => (c.min, c))).foldl (flatStep repl) fc) ∧
      ∀ j, getS ((cols.map (fun c => (c.min, c))).foldl (flatStep repl) fc) j =
        match getS cols j with
        | none => getS fc j
        | some old => some (match getS fc j with | some e => repl e old | none => old.single j) := by
  intro cols
  induction cols with
  | nil => intro fc _ hf; exact ⟨hf, by simp [getS]⟩
  | cons x xs ih =>
    intro fc hc hf
    have hx : x.min = x.max := hc.1 x (by simp)
    have hnd := hc.2
    simp only [List.map_cons, List.nodup_cons] at hnd
    have hxs : Flat xs := ⟨fun e he => hc.1 e (by simp [he]), hnd.2⟩
    have hf1 := flatStep_flat repl hk fc x.min x hf
    have := ih (flatStep repl fc (x.min, x)) hxs hf1
    simp only [List.map_cons, List.foldl_cons]
    refine ⟨this.1, ?_⟩
    intro j
    rw [this.2 j, flatStep_getS repl hk fc x.min x j]
    by_cases hj : j = x.min
    · subst hj
      have hs : x.isSingle x.min = true := by simp [Col.isSingle, ← hx]
      have hnone : getS xs x.min = none := by
        simp only [getS, List.find?_eq_none]
        intro e he hse
        have := (isSingle_iff e x.min).1 hse
        exact hnd.1 (by simp; exact ⟨e, he, this.1⟩)
      have hcons : getS (x :: xs) x.min = some x := by simp [getS, List.find?_cons, hs]
      rw [hnone, hcons]
      simp
    · have hs : x.isSingle j = false := by
        simp [Col.isSingle]; intro h; exact absurd h.symm hj
      simp [getS, List.find?_cons, hs, hj]

/-- the shapes `ws.Cols.Col` takes under the stream writer: flat, or the single range entry the first `setColWidth` stores -/
def Good (cols : List Col) : Prop := Flat cols ∨ ∃ r, cols = [r]

theorem getS_map_single (col : Col) (j : Int) :
    ∀ L : List Int, getS (L.map col.single) j = if j ∈ L then some (col.single j) else none := by
  intro L
  induction L with
  | nil => simp [getS]
  | cons i L ih =>
    simp only [List.map_cons, getS, List.find?_cons, single_isSingle]
    by_cases h : j = i
    · subst h; simp
    · simp only [h, decide_false, Bool.false_eq_true, List.mem_cons, false_or]
      exact ih

theorem flat_map_single (col : Col) (L : List Int) (h : L.Nodup) : Flat (L.map col.single) := by
  refine ⟨by intro e he; simp at he; obtain ⟨i, _, rfl⟩ := he; rfl, ?_⟩
  have : (L.map col.single).map (·.min) = L := by simp [Col.single, List.map_map, Function.comp_def]
  rw [this]; exact h

theorem pairs_flat (cols : List Col) (h : ∀ e ∈ cols, e.min = e.max) :
    (cols.flatMap fun column => (rangeInt column.min column.max).map fun i => (i, column)) =
      cols.map (fun c => (c.min, c)) := by
  induction cols with
  | nil => rfl
  | cons x xs ih =>
    have hx := h x (by simp)
    simp only [List.flatMap_cons, List.map_cons]
    rw [← hx, rangeInt_self, ih (fun e he => h e (by simp [he]))]
    rfl

theorem single_id (e : Col) (j : Int) (h1 : e.min = j) (h2 : e.max = j) : e.single j = e := by
  cases e; simp [Col.single] at *; exact ⟨h1.symm, h2.symm⟩

theorem cover_one (r : Col) (j : Int) : cover [r] j = if r.min ≤ j ∧ j ≤ r.max then some r else none := by
  by_cases h : r.min ≤ j ∧ j ≤ r.max
  · simp [cover, Col.covers, h]
  · have : ¬ (r.min ≤ j ∧ j ≤ r.max) := h
    simp only [cover, List.find?_cons, List.find?_nil, Col.covers, h, if_false]
    have hb : (decide (r.min ≤ j) && decide (j ≤ r.max)) = false := by
      simp only [Bool.and_eq_false_iff, decide_eq_false_iff_not]; omega
    simp [hb]

theorem flatCols_getS (repl : Col → Col → Col) (hk : KeyPres repl) (col : Col) (cols : List Col) (hg : Good cols) :
    Flat (flatCols col cols repl) ∧ ∀ j, getS (flatCols col cols repl) j =
      if col.min ≤ j ∧ j ≤ col.max then
        some (match cover cols j with | some old => repl (col.single j) old | none => col.single j)
      else (cover cols j).map (fun o => o.single j) := by
  have hf0 : Flat ((rangeInt col.min col.max).map col.single) := flat_map_single col _ (nodup_rangeInt _ _)
  have hg0 : ∀ j, getS ((rangeInt col.min col.max).map col.single) j =
      if col.min ≤ j ∧ j ≤ col.max then some (col.single j) else none := by
    intro j; rw [getS_map_single]; simp only [mem_rangeInt]
  unfold flatCols
  rcases hg with hfl | ⟨r, rfl⟩
  · rw [pairs_flat cols hfl.1]
    have := fold_flat repl hk cols _ hfl hf0
    refine ⟨this.1, ?_⟩
    intro j
    rw [this.2 j, hg0 j, flat_cover cols hfl j]
    by_cases hin : col.min ≤ j ∧ j ≤ col.max
    · cases hc : getS cols j <;> simp [hin]
    · cases hc : getS cols j with
      | none => simp [hin]
      | some old =>
        have hs := List.find?_some (by simpa [getS] using hc)
        have := (isSingle_iff old j).1 hs
        simp [hin]
  · have hp : ([r].flatMap fun column => (rangeInt column.min column.max).map fun i => (i, column)) =
        (rangeInt r.min r.max).map (fun i => (i, r)) := by simp
    rw [hp]
    have := fold_same repl hk r (rangeInt r.min r.max) _ (nodup_rangeInt _ _) hf0
    refine ⟨this.1, ?_⟩
    intro j
    rw [this.2 j, hg0 j]
    simp only [mem_rangeInt, cover_one]
    by_cases hr : r.min ≤ j ∧ j ≤ r.max <;> by_cases hin : col.min ≤ j ∧ j ≤ col.max <;>
      simp [hr, hin]

namespace Spec
/-- `SetColWidth` on the map column → entry: the new width, the style the column had -/
def setWidth (m : Int → Option Col) (lo hi : Int) (w : Bytes) (j : Int) : Option Col :=
  if lo ≤ j ∧ j ≤ hi then
    some { min := j, max := j, width := some w, custom := true, style := match m j with | some o => o.style | none => 0 }
  else m j
/-- `SetColStyle` on the map: the new style, the width the column had (the default width if it had no entry) -/
def setStyle (m : Int → Option Col) (lo hi st : Int) (j : Int) : Option Col :=
  if lo ≤ j ∧ j ≤ hi then
    some { min := j, max := j, style := st,
           width := match m j with | some o => o.width | none => some (lit Facts.C11.defaultColWidth),
           custom := match m j with | some o => o.custom | none => false }
  else m j
end Spec

theorem absCols_flat (cols : List Col) (h : Flat cols) (j : Int) : absCols cols j = getS cols j := by
  unfold absCols
  rw [flat_cover cols h j]
  cases hc : getS cols j with
  | none => rfl
  | some e =>
    have hs := List.find?_some (by simpa [getS] using hc)
    have := (isSingle_iff e j).1 hs
    simp [single_id e j this.1 this.2]

theorem cover_single_style (cols : List Col) (j : Int) :
    (match absCols cols j with | some o => o.style | none => 0) = (match cover cols j with | some o => o.style | none => 0) ∧
    (match absCols cols j with | some o => o.width | none => some (lit Facts.C11.defaultColWidth)) =
      (match cover cols j with | some o => o.width | none => some (lit Facts.C11.defaultColWidth)) ∧
    (match absCols cols j with | some o => o.custom | none => false) = (match cover cols j with | some o => o.custom | none => false) := by
  unfold absCols
  cases cover cols j <;> simp [Col.single]

/-- **`ws.setColWidth` refines the pointwise update.** -/
theorem wsSetColWidth_refines (cols : List Col) (hg : Good cols) (lo hi : Int) (w : Bytes) :
    Good (wsSetColWidth cols lo hi w) ∧
    ∀ j, absCols (wsSetColWidth cols lo hi w) j = Spec.setWidth (absCols cols) lo hi w j := by
  cases cols with
  | nil =>
    refine ⟨Or.inr ⟨_, rfl⟩, ?_⟩
    intro j
    have hnil : cover ([] : List Col) j = none := rfl
    simp only [wsSetColWidth, absCols, cover_one, hnil, Spec.setWidth]
    by_cases h : lo ≤ j ∧ j ≤ hi <;> simp [h, Col.single]
  | cons x xs =>
    simp only [wsSetColWidth]
    have := flatCols_getS replWidth keyPres_width
      { min := lo, max := hi, width := some w, custom := true, style := 0 } (x :: xs) hg
    refine ⟨Or.inl this.1, ?_⟩
    intro j
    rw [absCols_flat _ this.1 j, this.2 j]
    have hc := cover_single_style (x :: xs) j
    simp only [Spec.setWidth]
    by_cases h : lo ≤ j ∧ j ≤ hi
    · simp only [h, and_self, if_true]
      rw [hc.1]
      cases cover (x :: xs) j <;> simp [replWidth, Col.single]
    · simp only [h, if_false]
      rfl

/-- **`ws.setColStyle` refines the pointwise update.** -/
theorem wsSetColStyle_refines (cols : List Col) (hg : Good cols) (lo hi st : Int) :
    Good (wsSetColStyle cols lo hi st) ∧
    ∀ j, absCols (wsSetColStyle cols lo hi st) j = Spec.setStyle (absCols cols) lo hi st j := by
  simp only [wsSetColStyle]
  have := flatCols_getS replStyle keyPres_style
    { min := lo, max := hi, width := some (lit Facts.C11.defaultColWidth), custom := false, style := st } cols hg
  refine ⟨Or.inl this.1, ?_⟩
  intro j
  rw [absCols_flat _ this.1 j, this.2 j]
  have hc := cover_single_style cols j
  simp only [Spec.setStyle]
  by_cases h : lo ≤ j ∧ j ≤ hi
  · simp only [h, and_self, if_true]
    rw [hc.2.1, hc.2.2]
    cases cover cols j <;> simp [replStyle, Col.single]
  · simp only [h, if_false]
    rfl

/-- `prepareCellStyle`'s column lookup reads the style of the map entry -/
theorem colStyleAt_abs (cs : List Col) (hg : Good cs) (j : Int) :
    colStyleAt cs j = match absCols cs j with | some o => o.style | none => 0 := by
  rcases hg with hfl | ⟨r, rfl⟩
  · unfold colStyleAt
    rw [flat_find cs hfl (fun e => e.style != 0) j, absCols_flat cs hfl j]
    cases getS cs j with
    | none => simp [Option.filter]
    | some e => by_cases h : e.style = 0 <;> simp [Option.filter, h]
  · simp only [colStyleAt, absCols, cover, List.find?_cons, List.find?_nil]
    by_cases h1 : r.covers j = true
    · by_cases h2 : r.style = 0
      · have hb : (r.style != 0) = false := by simp [h2]
        simp [h1, hb, h2, Col.single]
      · have hb : (r.style != 0) = true := by simp [h2]
        simp [h1, hb, Col.single]
    · have h1' : r.covers j = false := by simpa using h1
      simp [h1']

/-! ## the stream writer keeps its columns well-shaped and its pre-data composed of (fields 4..5, columns, start tag) -/

def ColInv (s : SW) : Prop :=
  Good s.colStyles ∧ (∃ sv, s.pre = preData sv s.colStyles) ∧ (s.sheetWritten = true → s.preW = s.pre)

theorem writeSheetData_colInv (s : SW) (h : ColInv s) : ColInv (writeSheetData s) := by
  unfold writeSheetData
  split
  · exact h
  · exact ⟨h.1, h.2.1, fun _ => rfl⟩

theorem setRow_pre (x : Ext) (cfg : Cfg) (s : SW) (cell : Bytes) (vals : List Item) (o : RowOpts) :
    (setRow x cfg s cell vals o).1.pre = s.pre := by
  unfold setRow
  repeat' split
  all_goals (first | rfl | (simp only [writeSheetData]; split <;> rfl))

theorem colInv_step (x : Ext) (cfg : Cfg) (s : SW) (op : Op) (h : ColInv s) : ColInv (step x cfg s op).1 := by
  cases op with
  | setRow cell vals o =>
    simp only [step]
    cases hres : (setRow x cfg s cell vals o).2 with
    | some e => rw [setRow_rejected x cfg s cell vals o e hres]; exact h
    | none =>
      obtain ⟨col, row, attrs, cells, _, _, _, _, _, hsw, hcs, hpw, _, _⟩ := setRow_accepted x cfg s cell vals o hres
      have hp := setRow_pre x cfg s cell vals o
      refine ⟨by rw [hcs]; exact h.1, by rw [hp, hcs]; exact h.2.1, ?_⟩
      intro _
      rw [hpw, hp]
      cases hb : s.sheetWritten with
      | true => simp [h.2.2 hb]
      | false => simp
  | merge tl br => simp only [step, mergeCell]; repeat' split
                   all_goals exact h
  | colWidth a b w sv =>
    simp only [step, setColWidth]
    repeat' split
    all_goals first
      | exact h
      | exact ⟨(wsSetColWidth_refines _ h.1 _ _ _).1, ⟨sv, rfl⟩, fun hc => by simp_all⟩
  | colStyle a b st sv =>
    simp only [step, setColStyle]
    repeat' split
    all_goals first
      | exact h
      | exact ⟨(wsSetColStyle_refines _ h.1 _ _ _).1, ⟨sv, rfl⟩, fun hc => by simp_all⟩
  | panes ok sv =>
    simp only [step, setPanes]
    repeat' split
    all_goals first
      | exact h
      | exact ⟨h.1, ⟨sv, rfl⟩, fun hc => by simp_all⟩
  | reader => exact h
  | flush e =>
    simp only [step, flush]
    exact writeSheetData_colInv s h

theorem colInv_run (x : Ext) (cfg : Cfg) (ops : List Op) : ∀ s, ColInv s → ColInv (run x cfg s ops).1 := by
  induction ops with
  | nil => intro s h; exact h
  | cons op ops ih => intro s h; simp only [run]; exact ih _ (colInv_step x cfg s op h)

/-! ### an accepted column call leaves at least one column entry -/

theorem wsSetColWidth_ne_nil (cols : List Col) (hg : Good cols) (lo hi : Int) (h : lo ≤ hi) (w : Bytes) :
    wsSetColWidth cols lo hi w ≠ [] := by
  intro h0
  have h1 := (wsSetColWidth_refines cols hg lo hi w).2 lo
  rw [h0] at h1
  simp [absCols, cover, Spec.setWidth, h] at h1

theorem wsSetColStyle_ne_nil (cols : List Col) (hg : Good cols) (lo hi st : Int) (h : lo ≤ hi) :
    wsSetColStyle cols lo hi st ≠ [] := by
  intro h0
  have h1 := (wsSetColStyle_refines cols hg lo hi st).2 lo
  rw [h0] at h1
  simp [absCols, cover, Spec.setStyle, h] at h1

end XlModel.Stream
