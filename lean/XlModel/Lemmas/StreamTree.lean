import XlModel.StreamTree
import XlModel.Lemmas.Stream2
set_option linter.unusedSimpArgs false
/-! `writeCell` vs `encoding/xml` on the abstract element tree (C11). -/
namespace XlModel.Stream
open XlModel.Ref

theorem l_r : lit " r=\"" = lit " " ++ (lit "r" ++ lit "=\"") := rfl
theorem l_s : lit " s=\"" = lit " " ++ (lit "s" ++ lit "=\"") := rfl
theorem l_t : lit " t=\"" = lit " " ++ (lit "t" ++ lit "=\"") := rfl
theorem l_f : lit "<f>" = lit "<" ++ (lit "f" ++ lit ">") := rfl
theorem l_fe : lit "</f>" = lit "</" ++ (lit "f" ++ lit ">") := rfl
theorem l_v : lit "<v>" = lit "<" ++ (lit "v" ++ lit ">") := rfl
theorem l_ve : lit "</v>" = lit "</" ++ (lit "v" ++ lit ">") := rfl
theorem l_ist : lit "<is><t" = lit "<is>" ++ (lit "<" ++ lit "t") := rfl
theorem l_iste : lit "</t></is>" = lit "</" ++ (lit "t" ++ (lit ">" ++ lit "</is>")) := rfl
theorem l_sp : lit " xml:space=\"preserve\"" = lit " " ++ (lit "xml:space" ++ (lit "=\"" ++ (lit "preserve" ++ lit "\""))) := rfl

theorem render_spaceAttrs (b : Bool) : renderAttrs (spaceAttrs b) = spaceAttr b := by
  cases b
  · rfl
  · simp only [renderAttrs, spaceAttrs, spaceAttr, if_true, List.flatMap_cons, List.flatMap_nil, List.append_nil,
      List.append_assoc, l_sp]

theorem renderAttrs_append (a b : Attrs) : renderAttrs (a ++ b) = renderAttrs a ++ renderAttrs b := by
  simp [renderAttrs, List.flatMap_append]

theorem renderAttrs_one (k v : Bytes) : renderAttrs [(k, v)] = lit " " ++ (k ++ (lit "=\"" ++ (v ++ lit "\""))) := by
  simp [renderAttrs]

theorem renderAttrs_nil : renderAttrs [] = [] := rfl

theorem inlineText_eq (x : Ext) (val : Bytes) : inlineText x val = escInline (x.bstr val) := by
  unfold inlineText escInline
  cases x.bstr val <;> rfl

/-- the bytes `writeCell` writes are the serialisation of `writeCellTree` -/
theorem render_writeCellTree (x : Ext) (c : XC) : renderCell (writeCellTree x c) = writeCell x c := by
  obtain ⟨r, s, t, v, f, is_, space⟩ := c
  simp only [renderCell, writeCellTree, writeCell, renderAttrs_append, renderAttrs_one, render_spaceAttrs,
    List.flatMap_append, List.append_assoc, l_r]
  congr 1; congr 1; congr 1; congr 1; congr 1; congr 1
  have hS : renderAttrs (if s ≠ 0 then [(lit "s", itoaInt s)] else []) =
      (if s ≠ 0 then lit " s=\"" ++ itoaInt s ++ lit "\"" else []) := by
    split <;> simp [renderAttrs_one, renderAttrs_nil, l_s]
  have hT : renderAttrs (if t ≠ [] then [(lit "t", t)] else []) =
      (if t ≠ [] then lit " t=\"" ++ t ++ lit "\"" else []) := by
    split <;> simp [renderAttrs_one, renderAttrs_nil, l_t]
  rw [hS, hT]
  congr 1; congr 1; congr 1
  congr 1
  cases f <;> cases is_ <;> by_cases hv : v = [] <;>
    simp [hv, renderKid, renderIsKid, renderTextElem, renderAttrs_nil, render_spaceAttrs, inlineText_eq,
      l_f, l_fe, l_v, l_ve, l_ist, l_iste] <;>
    (try (split <;> simp_all [renderKid, renderIsKid]))

/-- `writeCell` and the marshaller agree on every cell record with a reference -/
theorem tree_eq_marshal (x : Ext) (c : XC) (hr : c.r ≠ []) : writeCellTree x c = marshalTree x c := by
  obtain ⟨r, s, t, v, f, is_, space⟩ := c
  simp only [writeCellTree, marshalTree]
  have hr' : r ≠ [] := hr
  simp only [hr', ne_eq, not_false_eq_true, if_true]

theorem setCellVal_r (x : Ext) (c c' : XC) (v : Val) (h : setCellVal x c v = .ok c') : c'.r = c.r := by
  cases v <;> simp only [setCellVal] at h
  case str s => split at h <;> (simp only [Except.ok.injEq] at h; subst h; rfl)
  case richErr => simp at h
  case time isNum text nf nfMem => split at h <;> (simp only [Except.ok.injEq] at h; subst h; rfl)
  all_goals (simp only [Except.ok.injEq] at h; subst h; rfl)

theorem setCellFormula_r (c : XC) (f : Bytes) : (setCellFormula c f).r = c.r := by
  unfold setCellFormula; split <;> rfl

theorem mkCell_r (x : Ext) (cs : ColStyles) (rs : Int) (ref : Bytes) (col : Int) (it : Item) (c : XC)
    (h : mkCell x cs rs ref col it = .ok c) : c.r = ref := by
  cases it with
  | skip => simp [mkCell] at h; subst h; rfl
  | plain v => simp only [mkCell] at h; exact setCellVal_r x _ c v h
  | cell style formula v =>
    simp only [mkCell] at h
    have := setCellVal_r x _ c v h
    rw [this]
    split <;> simp [setCellFormula_r]

theorem ref_ne_nil {col row : Int} {ref : Bytes} (h : coordinatesToCellName col row false = .ok ref) : ref ≠ [] := by
  intro he
  have := encode_decode_int h
  subst he
  have he : cellNameToCoordinates [] = .error .cellName := by decide +kernel
  rw [he] at this
  cases this

/-- every cell SetRow writes has a non-empty reference -/
theorem rowCells_r_ne_nil (x : Ext) (cs : ColStyles) (rs row : Int) :
    ∀ (items : List Item) (col : Int) (cells : List XC),
      rowCells x cs rs row col items = .ok cells → ∀ c ∈ cells, c.r ≠ [] := by
  intro items
  induction items with
  | nil => intro col cells h c hc; simp [rowCells] at h; subst h; simp at hc
  | cons it rest ih =>
    intro col cells h c hc
    unfold rowCells at h
    by_cases hsk : it.isSkip = true
    · simp only [hsk, if_true] at h
      exact ih (col + 1) cells h c hc
    · simp only [hsk, Bool.false_eq_true, if_false] at h
      cases href : coordinatesToCellName col row false with
      | error e => simp [href] at h
      | ok ref =>
        simp only [href] at h
        cases hmk : mkCell x cs rs ref col it with
        | error e => simp [hmk] at h
        | ok xc =>
          simp only [hmk] at h
          cases hrest : rowCells x cs rs row (col + 1) rest with
          | error e => simp [hrest] at h
          | ok cells' =>
            simp only [hrest, Except.ok.injEq] at h
            subst h
            simp at hc
            rcases hc with hc | hc
            · subst hc
              rw [mkCell_r x cs rs ref col it c hmk]
              exact ref_ne_nil href
            · exact ih (col + 1) cells' hrest c hc

/-! ## row attributes -/

theorem l_ra_s : lit " s=\"" = lit " " ++ (lit "s" ++ lit "=\"") := rfl
theorem l_ra_cf : lit "\" customFormat=\"1\"" = lit "\"" ++ (lit " " ++ (lit "customFormat" ++ (lit "=\"" ++ (lit "1" ++ lit "\"")))) := rfl
theorem l_ra_ht : lit " ht=\"" = lit " " ++ (lit "ht" ++ lit "=\"") := rfl
theorem l_ra_ch : lit "\" customHeight=\"1\"" = lit "\"" ++ (lit " " ++ (lit "customHeight" ++ (lit "=\"" ++ (lit "1" ++ lit "\"")))) := rfl
theorem l_ra_ol : lit " outlineLevel=\"" = lit " " ++ (lit "outlineLevel" ++ lit "=\"") := rfl
theorem l_ra_hid : lit " hidden=\"1\"" = lit " " ++ (lit "hidden" ++ (lit "=\"" ++ (lit "1" ++ lit "\""))) := rfl

/-- the attribute bytes `marshalAttrs` returns are the serialisation of `rowAttrList` -/
theorem marshalAttrs_renders (o : RowOpts) (a : Bytes) (h : marshalAttrs o = .ok a) :
    a = renderAttrs (rowAttrList o) := by
  unfold marshalAttrs at h
  split at h
  · simp at h
  · split at h
    · simp at h
    · simp only [Except.ok.injEq] at h
      subst h
      unfold rowAttrList
      by_cases h1 : o.style > 0 <;> by_cases h2 : o.h4 > 0 <;> by_cases h3 : o.outline > 0 <;> cases h4 : o.hidden <;>
        simp [h1, h2, h3, renderAttrs, l_ra_s, l_ra_cf, l_ra_ht, l_ra_ch, l_ra_ol, l_ra_hid]

theorem kne_0_1 : (lit "s" = lit "customFormat") = False := by simp; decide
theorem kne_0_2 : (lit "s" = lit "ht") = False := by simp; decide
theorem kne_0_3 : (lit "s" = lit "customHeight") = False := by simp; decide
theorem kne_0_4 : (lit "s" = lit "outlineLevel") = False := by simp; decide
theorem kne_0_5 : (lit "s" = lit "hidden") = False := by simp; decide
theorem kne_1_0 : (lit "customFormat" = lit "s") = False := by simp; decide
theorem kne_1_2 : (lit "customFormat" = lit "ht") = False := by simp; decide
theorem kne_1_3 : (lit "customFormat" = lit "customHeight") = False := by simp; decide
theorem kne_1_4 : (lit "customFormat" = lit "outlineLevel") = False := by simp; decide
theorem kne_1_5 : (lit "customFormat" = lit "hidden") = False := by simp; decide
theorem kne_2_0 : (lit "ht" = lit "s") = False := by simp; decide
theorem kne_2_1 : (lit "ht" = lit "customFormat") = False := by simp; decide
theorem kne_2_3 : (lit "ht" = lit "customHeight") = False := by simp; decide
theorem kne_2_4 : (lit "ht" = lit "outlineLevel") = False := by simp; decide
theorem kne_2_5 : (lit "ht" = lit "hidden") = False := by simp; decide
theorem kne_3_0 : (lit "customHeight" = lit "s") = False := by simp; decide
theorem kne_3_1 : (lit "customHeight" = lit "customFormat") = False := by simp; decide
theorem kne_3_2 : (lit "customHeight" = lit "ht") = False := by simp; decide
theorem kne_3_4 : (lit "customHeight" = lit "outlineLevel") = False := by simp; decide
theorem kne_3_5 : (lit "customHeight" = lit "hidden") = False := by simp; decide
theorem kne_4_0 : (lit "outlineLevel" = lit "s") = False := by simp; decide
theorem kne_4_1 : (lit "outlineLevel" = lit "customFormat") = False := by simp; decide
theorem kne_4_2 : (lit "outlineLevel" = lit "ht") = False := by simp; decide
theorem kne_4_3 : (lit "outlineLevel" = lit "customHeight") = False := by simp; decide
theorem kne_4_5 : (lit "outlineLevel" = lit "hidden") = False := by simp; decide
theorem kne_5_0 : (lit "hidden" = lit "s") = False := by simp; decide
theorem kne_5_1 : (lit "hidden" = lit "customFormat") = False := by simp; decide
theorem kne_5_2 : (lit "hidden" = lit "ht") = False := by simp; decide
theorem kne_5_3 : (lit "hidden" = lit "customHeight") = False := by simp; decide
theorem kne_5_4 : (lit "hidden" = lit "outlineLevel") = False := by simp; decide

/-- as finite maps, the attributes the stream writer puts on a row are the attributes the marshaller writes for
the row the in-memory setters build from the same options -/
theorem rowAttrs_eq_memory (o : RowOpts) (k : Bytes) :
    attrOf (rowAttrList o) k = attrOf (marshalRowAttrs (Spec.rowRec o)) k := by
  unfold rowAttrList marshalRowAttrs Spec.rowRec attrOf
  have p1 : o.style > 0 → o.style ≠ 0 := by omega
  have p3 : o.outline > 0 → o.outline ≠ 0 := by omega
  by_cases e0 : lit "s" = k
  · subst e0
    by_cases h1 : o.style > 0 <;> by_cases h2 : o.h4 > 0 <;> by_cases h3 : o.outline > 0 <;> cases h4 : o.hidden <;>
      simp [h1, h2, h3, p1, p3, List.find?_cons, kne_0_1, kne_0_2, kne_0_3, kne_0_4, kne_0_5, kne_1_0, kne_1_2, kne_1_3, kne_1_4, kne_1_5, kne_2_0, kne_2_1, kne_2_3, kne_2_4, kne_2_5, kne_3_0, kne_3_1, kne_3_2, kne_3_4, kne_3_5, kne_4_0, kne_4_1, kne_4_2, kne_4_3, kne_4_5, kne_5_0, kne_5_1, kne_5_2, kne_5_3, kne_5_4] <;> (try omega)
  by_cases e1 : lit "customFormat" = k
  · subst e1
    by_cases h1 : o.style > 0 <;> by_cases h2 : o.h4 > 0 <;> by_cases h3 : o.outline > 0 <;> cases h4 : o.hidden <;>
      simp [h1, h2, h3, p1, p3, List.find?_cons, kne_0_1, kne_0_2, kne_0_3, kne_0_4, kne_0_5, kne_1_0, kne_1_2, kne_1_3, kne_1_4, kne_1_5, kne_2_0, kne_2_1, kne_2_3, kne_2_4, kne_2_5, kne_3_0, kne_3_1, kne_3_2, kne_3_4, kne_3_5, kne_4_0, kne_4_1, kne_4_2, kne_4_3, kne_4_5, kne_5_0, kne_5_1, kne_5_2, kne_5_3, kne_5_4] <;> (try omega)
  by_cases e2 : lit "ht" = k
  · subst e2
    by_cases h1 : o.style > 0 <;> by_cases h2 : o.h4 > 0 <;> by_cases h3 : o.outline > 0 <;> cases h4 : o.hidden <;>
      simp [h1, h2, h3, p1, p3, List.find?_cons, kne_0_1, kne_0_2, kne_0_3, kne_0_4, kne_0_5, kne_1_0, kne_1_2, kne_1_3, kne_1_4, kne_1_5, kne_2_0, kne_2_1, kne_2_3, kne_2_4, kne_2_5, kne_3_0, kne_3_1, kne_3_2, kne_3_4, kne_3_5, kne_4_0, kne_4_1, kne_4_2, kne_4_3, kne_4_5, kne_5_0, kne_5_1, kne_5_2, kne_5_3, kne_5_4] <;> (try omega)
  by_cases e3 : lit "customHeight" = k
  · subst e3
    by_cases h1 : o.style > 0 <;> by_cases h2 : o.h4 > 0 <;> by_cases h3 : o.outline > 0 <;> cases h4 : o.hidden <;>
      simp [h1, h2, h3, p1, p3, List.find?_cons, kne_0_1, kne_0_2, kne_0_3, kne_0_4, kne_0_5, kne_1_0, kne_1_2, kne_1_3, kne_1_4, kne_1_5, kne_2_0, kne_2_1, kne_2_3, kne_2_4, kne_2_5, kne_3_0, kne_3_1, kne_3_2, kne_3_4, kne_3_5, kne_4_0, kne_4_1, kne_4_2, kne_4_3, kne_4_5, kne_5_0, kne_5_1, kne_5_2, kne_5_3, kne_5_4] <;> (try omega)
  by_cases e4 : lit "outlineLevel" = k
  · subst e4
    by_cases h1 : o.style > 0 <;> by_cases h2 : o.h4 > 0 <;> by_cases h3 : o.outline > 0 <;> cases h4 : o.hidden <;>
      simp [h1, h2, h3, p1, p3, List.find?_cons, kne_0_1, kne_0_2, kne_0_3, kne_0_4, kne_0_5, kne_1_0, kne_1_2, kne_1_3, kne_1_4, kne_1_5, kne_2_0, kne_2_1, kne_2_3, kne_2_4, kne_2_5, kne_3_0, kne_3_1, kne_3_2, kne_3_4, kne_3_5, kne_4_0, kne_4_1, kne_4_2, kne_4_3, kne_4_5, kne_5_0, kne_5_1, kne_5_2, kne_5_3, kne_5_4] <;> (try omega)
  by_cases e5 : lit "hidden" = k
  · subst e5
    by_cases h1 : o.style > 0 <;> by_cases h2 : o.h4 > 0 <;> by_cases h3 : o.outline > 0 <;> cases h4 : o.hidden <;>
      simp [h1, h2, h3, p1, p3, List.find?_cons, kne_0_1, kne_0_2, kne_0_3, kne_0_4, kne_0_5, kne_1_0, kne_1_2, kne_1_3, kne_1_4, kne_1_5, kne_2_0, kne_2_1, kne_2_3, kne_2_4, kne_2_5, kne_3_0, kne_3_1, kne_3_2, kne_3_4, kne_3_5, kne_4_0, kne_4_1, kne_4_2, kne_4_3, kne_4_5, kne_5_0, kne_5_1, kne_5_2, kne_5_3, kne_5_4] <;> (try omega)
  · by_cases h1 : o.style > 0 <;> by_cases h2 : o.h4 > 0 <;> by_cases h3 : o.outline > 0 <;> cases h4 : o.hidden <;>
      simp [e0, e1, e2, e3, e4, e5, h1, h2, h3, p1, p3, List.find?_cons, kne_0_1, kne_0_2, kne_0_3, kne_0_4, kne_0_5, kne_1_0, kne_1_2, kne_1_3, kne_1_4, kne_1_5, kne_2_0, kne_2_1, kne_2_3, kne_2_4, kne_2_5, kne_3_0, kne_3_1, kne_3_2, kne_3_4, kne_3_5, kne_4_0, kne_4_1, kne_4_2, kne_4_3, kne_4_5, kne_5_0, kne_5_1, kne_5_2, kne_5_3, kne_5_4] <;> (try omega)

/-! ## panes -/

theorem pkne_0_1 : (lit "activePane" = lit "state") = False := by simp; decide
theorem pkne_0_2 : (lit "activePane" = lit "topLeftCell") = False := by simp; decide
theorem pkne_0_3 : (lit "activePane" = lit "xSplit") = False := by simp; decide
theorem pkne_0_4 : (lit "activePane" = lit "ySplit") = False := by simp; decide
theorem pkne_1_0 : (lit "state" = lit "activePane") = False := by simp; decide
theorem pkne_1_2 : (lit "state" = lit "topLeftCell") = False := by simp; decide
theorem pkne_1_3 : (lit "state" = lit "xSplit") = False := by simp; decide
theorem pkne_1_4 : (lit "state" = lit "ySplit") = False := by simp; decide
theorem pkne_2_0 : (lit "topLeftCell" = lit "activePane") = False := by simp; decide
theorem pkne_2_1 : (lit "topLeftCell" = lit "state") = False := by simp; decide
theorem pkne_2_3 : (lit "topLeftCell" = lit "xSplit") = False := by simp; decide
theorem pkne_2_4 : (lit "topLeftCell" = lit "ySplit") = False := by simp; decide
theorem pkne_3_0 : (lit "xSplit" = lit "activePane") = False := by simp; decide
theorem pkne_3_1 : (lit "xSplit" = lit "state") = False := by simp; decide
theorem pkne_3_2 : (lit "xSplit" = lit "topLeftCell") = False := by simp; decide
theorem pkne_3_4 : (lit "xSplit" = lit "ySplit") = False := by simp; decide
theorem pkne_4_0 : (lit "ySplit" = lit "activePane") = False := by simp; decide
theorem pkne_4_1 : (lit "ySplit" = lit "state") = False := by simp; decide
theorem pkne_4_2 : (lit "ySplit" = lit "topLeftCell") = False := by simp; decide
theorem pkne_4_3 : (lit "ySplit" = lit "xSplit") = False := by simp; decide

/-- the pane attributes as a finite map: exactly the non-empty / non-zero options, `state="frozen"` for a frozen pane only -/
theorem paneAttrs_map (p : PaneOpts) :
    attrOf (paneAttrs p) (lit "state") = (if p.freeze then some (lit "frozen") else none) ∧
    attrOf (paneAttrs p) (lit "xSplit") = (if p.xSplit ≠ 0 then some (itoaInt p.xSplit) else none) ∧
    attrOf (paneAttrs p) (lit "ySplit") = (if p.ySplit ≠ 0 then some (itoaInt p.ySplit) else none) ∧
    attrOf (paneAttrs p) (lit "topLeftCell") = (if p.topLeftCell ≠ [] then some (escapeText p.topLeftCell) else none) ∧
    attrOf (paneAttrs p) (lit "activePane") = (if p.activePane ≠ [] then some (escapeText p.activePane) else none) := by
  refine ⟨?_, ?_, ?_, ?_, ?_⟩ <;>
  (by_cases h1 : p.activePane = [] <;> by_cases h2 : p.freeze = true <;> by_cases h3 : p.topLeftCell = [] <;> by_cases h4 : p.xSplit = 0 <;> by_cases h5 : p.ySplit = 0 <;>
    simp [attrOf, paneAttrs, strAttr, List.find?_cons, List.find?_append, h1, h2, h3, h4, h5, pkne_0_1, pkne_0_2, pkne_0_3, pkne_0_4, pkne_1_0, pkne_1_2, pkne_1_3, pkne_1_4, pkne_2_0, pkne_2_1, pkne_2_3, pkne_2_4, pkne_3_0, pkne_3_1, pkne_3_2, pkne_3_4, pkne_4_0, pkne_4_1, pkne_4_2, pkne_4_3])

theorem paneElem_nil_iff (p : PaneOpts) : paneElem p = [] ↔ (p.freeze = false ∧ p.split = false) := by
  unfold paneElem
  cases p.freeze <;> cases p.split <;> simp [lit]

end XlModel.Stream
