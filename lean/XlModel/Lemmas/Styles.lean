import XlModel.Styles
/-!
Registry invariant (`WF`), extension relation (`Ext`) and the step lemmas of `NewStyle`
used by `XlModel.Props.C17`.
-/
namespace XlModel.Styles
open Impl

/-- the largest number-format id in use: the id of the last `numFmts` entry (163 when there is none) -/
def topId (r : Reg) : Nat :=
  match (numFmtList r).getLast? with
  | some nf => nf.id
  | none => 163

/-- every component reference of an xf record points into the tables -/
structure XfOk (r : Reg) (xf : Xf) : Prop where
  font : ∀ i, xf.fontId = some i → i < r.fonts.length
  fill : ∀ i, xf.fillId = some i → i < r.fills.length
  border : ∀ i, xf.borderId = some i → i < r.borders.length
  num : ∀ n, xf.numFmtId = some n → n ≤ topId r

/-- registry invariant (structural): tables are non-empty, number-format ids are bounded by the last
entry's, every xf refers to existing components. The `Count` fields are NOT part of it: ids are
positions in the lists -/
structure WF (r : Reg) : Prop where
  numNe : ∀ l c, r.numFmts = some (l, c) → l ≠ []
  fontsNe : 0 < r.fonts.length
  fillsNe : 0 < r.fills.length
  bordersNe : 0 < r.borders.length
  numTop : ∀ nf ∈ numFmtList r, nf.id ≤ topId r
  topGe : 163 ≤ topId r
  refs : ∀ xf ∈ r.xfs, XfOk r xf

/-- the `Count` fields equal the element counts -/
structure CountsOk (r : Reg) : Prop where
  fonts : r.fontsCount = r.fonts.length
  fills : r.fillsCount = r.fills.length
  borders : r.bordersCount = r.borders.length
  xfs : r.xfsCount = r.xfs.length
  nums : ∀ l c, r.numFmts = some (l, c) → c = l.length

/-- `r'` extends `r`: every table of `r` is a prefix of the table of `r'`, and new number formats
carry ids above every id of `r` -/
structure Ext (r r' : Reg) : Prop where
  fonts : ∃ e, r'.fonts = r.fonts ++ e
  fills : ∃ e, r'.fills = r.fills ++ e
  borders : ∃ e, r'.borders = r.borders ++ e
  xfs : ∃ e, r'.xfs = r.xfs ++ e
  nums : ∃ e, numFmtList r' = numFmtList r ++ e ∧ ∀ nf ∈ e, topId r < nf.id
  top : topId r ≤ topId r'

theorem Ext.refl (r : Reg) : Ext r r :=
  ⟨⟨[], by simp⟩, ⟨[], by simp⟩, ⟨[], by simp⟩, ⟨[], by simp⟩, ⟨[], by simp⟩, Nat.le_refl _⟩

theorem Ext.trans {a b c : Reg} (h1 : Ext a b) (h2 : Ext b c) : Ext a c := by
  obtain ⟨⟨f1, hf1⟩, ⟨l1, hl1⟩, ⟨b1, hb1⟩, ⟨x1, hx1⟩, ⟨n1, hn1, hn1'⟩, t1⟩ := h1
  obtain ⟨⟨f2, hf2⟩, ⟨l2, hl2⟩, ⟨b2, hb2⟩, ⟨x2, hx2⟩, ⟨n2, hn2, hn2'⟩, t2⟩ := h2
  refine ⟨⟨f1 ++ f2, by simp [hf2, hf1]⟩, ⟨l1 ++ l2, by simp [hl2, hl1]⟩, ⟨b1 ++ b2, by simp [hb2, hb1]⟩,
    ⟨x1 ++ x2, by simp [hx2, hx1]⟩, ⟨n1 ++ n2, by simp [hn2, hn1], ?_⟩, Nat.le_trans t1 t2⟩
  intro nf hnf
  rcases List.mem_append.mp hnf with h | h
  · exact hn1' nf h
  · exact Nat.lt_of_le_of_lt t1 (hn2' nf h)

theorem XfOk.mono {r r' : Reg} {xf : Xf} (e : Ext r r') (h : XfOk r xf) : XfOk r' xf := by
  obtain ⟨⟨f1, hf1⟩, ⟨l1, hl1⟩, ⟨b1, hb1⟩, _, _, t1⟩ := e
  refine ⟨fun i hi => ?_, fun i hi => ?_, fun i hi => ?_, fun n hn => Nat.le_trans (h.num n hn) t1⟩
  · have := h.font i hi; rw [hf1, List.length_append]; omega
  · have := h.fill i hi; rw [hl1, List.length_append]; omega
  · have := h.border i hi; rw [hb1, List.length_append]; omega

/-! ### elementary extensions -/

theorem topId_congr {r r' : Reg} (h : r'.numFmts = r.numFmts) : topId r' = topId r := by
  unfold topId numFmtList; rw [h]

theorem numFmtList_congr {r r' : Reg} (h : r'.numFmts = r.numFmts) : numFmtList r' = numFmtList r := by
  unfold numFmtList; rw [h]

/-- an update that leaves `numFmts` alone and extends the other tables -/
theorem ext_of_tables {r r' : Reg} (hn : r'.numFmts = r.numFmts)
    (hf : ∃ e, r'.fonts = r.fonts ++ e) (hl : ∃ e, r'.fills = r.fills ++ e)
    (hb : ∃ e, r'.borders = r.borders ++ e) (hx : ∃ e, r'.xfs = r.xfs ++ e) : Ext r r' :=
  ⟨hf, hl, hb, hx, ⟨[], by simp [numFmtList_congr hn]⟩, by rw [topId_congr hn]; exact Nat.le_refl _⟩

theorem wf_of_ext_same_xfs {r r' : Reg} (w : WF r) (e : Ext r r') (hx : r'.xfs = r.xfs)
    (c4 : ∀ l c, r'.numFmts = some (l, c) → l ≠ [])
    (c5 : ∀ nf ∈ numFmtList r', nf.id ≤ topId r') : WF r' := by
  obtain ⟨f1, hf1⟩ := e.fonts
  obtain ⟨l1, hl1⟩ := e.fills
  obtain ⟨b1, hb1⟩ := e.borders
  refine ⟨c4, ?_, ?_, ?_, c5, Nat.le_trans w.topGe e.top, ?_⟩
  · have := w.fontsNe; rw [hf1, List.length_append]; omega
  · have := w.fillsNe; rw [hl1, List.length_append]; omega
  · have := w.bordersNe; rw [hb1, List.length_append]; omega
  · intro xf hxf; rw [hx] at hxf; exact (w.refs xf hxf).mono e

theorem addFont_rec {r : Reg} (w : WF r) (x : XFont) (c : Nat) :
    let r' := { r with fontsCount := c, fonts := r.fonts ++ [x] }
    Ext r r' ∧ WF r' := by
  intro r'
  have e : Ext r r' := ext_of_tables rfl ⟨[x], rfl⟩ ⟨[], by simp [r']⟩ ⟨[], by simp [r']⟩ ⟨[], by simp [r']⟩
  exact ⟨e, wf_of_ext_same_xfs w e rfl w.numNe w.numTop⟩

theorem addFill_rec {r : Reg} (w : WF r) (x : XFill) (c : Nat) :
    let r' := { r with fillsCount := c, fills := r.fills ++ [x] }
    Ext r r' ∧ WF r' := by
  intro r'
  have e : Ext r r' := ext_of_tables rfl ⟨[], by simp [r']⟩ ⟨[x], rfl⟩ ⟨[], by simp [r']⟩ ⟨[], by simp [r']⟩
  exact ⟨e, wf_of_ext_same_xfs w e rfl w.numNe w.numTop⟩

theorem addBorder_rec {r : Reg} (w : WF r) (x : XBorder) (c : Nat) :
    let r' := { r with bordersCount := c, borders := r.borders ++ [x] }
    Ext r r' ∧ WF r' := by
  intro r'
  have e : Ext r r' := ext_of_tables rfl ⟨[], by simp [r']⟩ ⟨[], by simp [r']⟩ ⟨[x], rfl⟩ ⟨[], by simp [r']⟩
  exact ⟨e, wf_of_ext_same_xfs w e rfl w.numNe w.numTop⟩

/-- appending a number format whose id exceeds every id in use -/
theorem addNum_rec {r : Reg} (w : WF r) (id : Nat) (c : Str) (cnt : Nat) (hid : topId r < id) :
    let r' := { r with numFmts := some (numFmtList r ++ [⟨id, c⟩], cnt) }
    Ext r r' ∧ WF r' ∧ topId r' = id := by
  intro r'
  have hl : numFmtList r' = numFmtList r ++ [⟨id, c⟩] := by simp [r', numFmtList]
  have ht : topId r' = id := by simp [topId, hl]
  have e : Ext r r' := by
    refine ⟨⟨[], by simp [r']⟩, ⟨[], by simp [r']⟩, ⟨[], by simp [r']⟩, ⟨[], by simp [r']⟩,
      ⟨[⟨id, c⟩], hl, ?_⟩, by rw [ht]; omega⟩
    intro nf hnf; simp at hnf; subst hnf; exact hid
  refine ⟨e, wf_of_ext_same_xfs w e rfl ?_ ?_, ht⟩
  · intro l c' h
    simp [r'] at h
    obtain ⟨h1, _⟩ := h
    subst h1
    simp
  · intro nf hnf
    rw [hl] at hnf; rw [ht]
    rcases List.mem_append.mp hnf with h | h
    · have := w.numTop nf h; omega
    · simp at h; subst h; exact Nat.le_refl _

theorem addXf_rec {r : Reg} (w : WF r) (xf : Xf) (ok : XfOk r xf) :
    let r' := { r with xfs := r.xfs ++ [xf], xfsCount := r.xfs.length + 1 }
    Ext r r' ∧ WF r' := by
  intro r'
  have e : Ext r r' := ext_of_tables rfl ⟨[], by simp [r']⟩ ⟨[], by simp [r']⟩ ⟨[], by simp [r']⟩ ⟨[xf], rfl⟩
  refine ⟨e, ⟨w.numNe, w.fontsNe, w.fillsNe, w.bordersNe, w.numTop, w.topGe, ?_⟩⟩
  intro x hx
  simp [r'] at hx
  rcases hx with h | h
  · exact (w.refs x h).mono e
  · subst h; exact ok.mono e

/-! ### facts about the id tables -/

theorem lookupI_mem {β} {k : Int} {l : List (Int × β)} {v : β} (h : lookupI k l = some v) : (k, v) ∈ l := by
  induction l with
  | nil => simp [lookupI] at h
  | cons p t ih =>
    obtain ⟨k', v'⟩ := p
    simp only [lookupI] at h
    split at h
    · rename_i hk; simp at h; subst hk; subst h; simp
    · exact List.mem_cons_of_mem _ (ih h)

theorem builtIn_keys_small : ∀ p ∈ Facts.C17.builtInNumFmt, 0 ≤ p.1 ∧ p.1 ≤ 163 := by decide

theorem builtIn_le {id : Int} (h : (builtIn id).isSome) : id.toNat ≤ 163 := by
  unfold builtIn at h
  cases hh : lookupI id Facts.C17.builtInNumFmt with
  | none => rw [hh] at h; simp at h
  | some v =>
    have := builtIn_keys_small _ (lookupI_mem hh)
    simp at this; omega

theorem lang_ranges_small : ∀ p ∈ Facts.C17.langRanges, p.2 ≤ 163 := by decide

theorem lang_le {id : Int} (h : isLangNumFmt id = true) : id.toNat ≤ 163 := by
  unfold isLangNumFmt inRanges at h
  rw [List.any_eq_true] at h
  obtain ⟨⟨lo, hi⟩, hm, hc⟩ := h
  have := lang_ranges_small _ hm
  simp at hc this; omega

theorem le_foldMax (l : List XNumFmt) (b : Nat) :
    b ≤ l.foldl (fun m nf => if m < nf.id then nf.id else m) b ∧
    ∀ nf ∈ l, nf.id ≤ l.foldl (fun m nf => if m < nf.id then nf.id else m) b := by
  induction l generalizing b with
  | nil => simp
  | cons x t ih =>
    simp only [List.foldl_cons]
    have h1 := (ih (if b < x.id then x.id else b)).1
    have hb : b ≤ (if b < x.id then x.id else b) ∧ x.id ≤ (if b < x.id then x.id else b) := by
      split <;> omega
    constructor
    · omega
    · intro nf hnf
      rcases List.mem_cons.mp hnf with h | h
      · subst h; omega
      · exact (ih _).2 nf h

theorem topId_le_foldMax {r : Reg} (_w : WF r) :
    topId r ≤ (numFmtList r).foldl (fun m nf => if m < nf.id then nf.id else m) 163 := by
  unfold topId
  cases h : (numFmtList r).getLast? with
  | none => exact (le_foldMax _ _).1
  | some nf =>
    obtain ⟨ys, hys⟩ := List.getLast?_eq_some_iff.mp h
    exact (le_foldMax _ _).2 nf (by rw [hys]; simp)

theorem find?_mem' {α} {p : α → Bool} {l : List α} {a : α} (h : l.find? p = some a) : a ∈ l :=
  List.mem_of_find?_eq_some h

/-! ### the steps of `NewStyle` -/

theorem newNumFmt_spec {r r1 : Reg} {s : Style} {n : Nat} (w : WF r) (h : newNumFmt r s = .ok (r1, n)) :
    Ext r r1 ∧ WF r1 ∧ n ≤ topId r1 := by
  unfold newNumFmt at h
  split at h
  · -- custom
    rename_i c hc
    split at h
    · rename_i id hid
      simp at h; obtain ⟨h1, h2⟩ := h; subst h1; subst h2
      refine ⟨Ext.refl _, w, ?_⟩
      unfold getCustomNumFmtID at hid
      cases hf : (numFmtList r).find? (·.code == c) with
      | none => rw [hf] at hid; simp at hid
      | some nf => rw [hf] at hid; simp at hid; subst hid; exact w.numTop nf (find?_mem' hf)
    · simp only [setCustomNumFmt] at h
      simp at h; obtain ⟨h1, h2⟩ := h
      have hid := topId_le_foldMax w
      subst h2
      have := addNum_rec w _ c ((numFmtList r).length + 1) (Nat.lt_succ_of_le hid)
      subst h1
      exact ⟨this.1, this.2.1, by rw [this.2.2]; exact Nat.le_refl _⟩
  · split at h
    · rename_i hb
      simp at h; obtain ⟨h1, h2⟩ := h; subst h1; subst h2
      exact ⟨Ext.refl _, w, Nat.le_trans (builtIn_le hb) w.topGe⟩
    · split at h
      · simp at h; obtain ⟨h1, h2⟩ := h; subst h1; subst h2
        refine ⟨Ext.refl _, w, ?_⟩
        split
        · rename_i hl; exact Nat.le_trans (lang_le hl) w.topGe
        · omega
      · rename_i fc hfc
        split at h
        · -- numFmts nil
          rename_i hnone
          simp at h; obtain ⟨h1, h2⟩ := h
          have hl : numFmtList r = [] := by simp [numFmtList, hnone]
          have ht : topId r = 163 := by simp [topId, hl]
          have := addNum_rec w 164 (currencyCode fc s) 1 (by omega)
          simp only [hl, List.nil_append] at this
          subst h1; subst h2
          obtain ⟨e, w', ht'⟩ := this
          exact ⟨e, w', by rw [ht']; exact Nat.le_refl _⟩
        · rename_i l cnt hsome
          have hl : numFmtList r = l := by simp [numFmtList, hsome]
          cases hf : l.find? (·.code == currencyCode fc s) with
          | some nf =>
            rw [hf] at h; simp only at h
            injection h with h; injection h with h1 h2; subst h1; subst h2
            exact ⟨Ext.refl _, w, w.numTop nf (by rw [hl]; exact List.mem_of_find?_eq_some hf)⟩
          | none =>
            rw [hf] at h
            cases hlast : l.getLast? with
            | none => rw [hlast] at h; simp at h
            | some last =>
              rw [hlast] at h; simp only at h
              injection h with h; injection h with h1 h2
              have ht : topId r = last.id := by simp [topId, hl, hlast]
              have := addNum_rec w (last.id + 1) (currencyCode fc s) (cnt + 1) (by omega)
              simp only [hl] at this
              subst h1; subst h2
              obtain ⟨e, w', ht'⟩ := this
              exact ⟨e, w', by rw [ht']; exact Nat.le_refl _⟩

theorem findIdx?_lt {α} {p : α → Bool} {l : List α} {i : Nat} (h : l.findIdx? p = some i) : i < l.length := by
  rw [List.findIdx?_eq_some_iff_getElem] at h
  exact h.1

theorem getFontID_lt {r : Reg} {s s' : Style} {i : Nat} (h : getFontID r s = .ok (some i, s')) :
    i < r.fonts.length := by
  unfold getFontID at h
  split at h
  · simp at h
  · split at h
    · simp at h
    · split at h
      · simp at h
      · simp at h; exact findIdx?_lt h.1

theorem addFont_spec {r r2 : Reg} {s s' : Style} {i : Nat} (w : WF r) (h : addFont r s = .ok (r2, i, s')) :
    Ext r r2 ∧ WF r2 ∧ i < r2.fonts.length := by
  unfold addFont at h
  split at h
  · simp at h; obtain ⟨h1, h2, _⟩ := h; subst h1; subst h2
    exact ⟨Ext.refl _, w, w.fontsNe⟩
  · split at h
    · simp at h
    · rename_i j s1 hg
      simp at h; obtain ⟨h1, h2, _⟩ := h; subst h1; subst h2
      exact ⟨Ext.refl _, w, getFontID_lt hg⟩
    · split at h
      · simp at h; obtain ⟨h1, h2, _⟩ := h; subst h1; subst h2
        exact ⟨Ext.refl _, w, w.fontsNe⟩
      · split at h
        · simp at h
        · rename_i xf f' _
          simp at h; obtain ⟨h1, h2, _⟩ := h
          have := addFont_rec w xf (r.fonts.length + 1)
          subst h1; subst h2
          refine ⟨this.1, this.2, ?_⟩
          simp

theorem addBorder_spec {r : Reg} {s : Style} (w : WF r) :
    Ext r (addBorder r s).1 ∧ WF (addBorder r s).1 ∧ (addBorder r s).2 < (addBorder r s).1.borders.length := by
  unfold addBorder
  split
  · rename_i i hi
    refine ⟨Ext.refl _, w, ?_⟩
    unfold getBorderID at hi
    split at hi
    · simp at hi
    · exact findIdx?_lt hi
  · split
    · exact ⟨Ext.refl _, w, w.bordersNe⟩
    · have := addBorder_rec w (newBorders s.border) (r.borders.length + 1)
      refine ⟨this.1, this.2, ?_⟩
      simp

theorem addFill_spec {r : Reg} {s : Style} (w : WF r) :
    Ext r (addFill r s).1 ∧ WF (addFill r s).1 ∧ (addFill r s).2 < (addFill r s).1.fills.length := by
  unfold addFill
  split
  · rename_i i hi
    refine ⟨Ext.refl _, w, ?_⟩
    unfold getFillID at hi
    split at hi
    · simp at hi
    · split at hi
      · simp at hi
      · exact findIdx?_lt hi
  · split
    · rename_i x _
      have := addFill_rec w x (r.fills.length + 1)
      refine ⟨this.1, this.2, ?_⟩
      simp
    · exact ⟨Ext.refl _, w, w.fillsNe⟩

theorem setCellXfs_spec {r r5 : Reg} {fontID numFmtID fillID borderID id : Nat} {aa ap : Bool} {al : Str}
    {pr : Bool × Bool} (w : WF r) (hf : fontID < r.fonts.length) (hn : numFmtID ≤ topId r)
    (hl : fillID < r.fills.length) (hb : borderID < r.borders.length)
    (h : setCellXfs r fontID numFmtID fillID borderID aa ap al pr = .ok (r5, id)) :
    Ext r r5 ∧ WF r5 ∧ id = r.xfs.length ∧ r5.xfs.length = r.xfs.length + 1 := by
  unfold setCellXfs at h
  simp only at h
  split at h
  · simp at h
  · injection h with h
    injection h with h1 h2
    have := addXf_rec w
      { numFmtId := some numFmtID, fontId := some fontID, fillId := some fillID, borderId := some borderID,
        applyNumFmt := if numFmtID ≠ 0 then some true else none, applyFont := if fontID ≠ 0 then some true else none,
        applyFill := if fillID ≠ 0 then some true else none, applyBorder := if borderID ≠ 0 then some true else none,
        applyAlignment := some aa, applyProtection := if ap then some true else none,
        alignment := some al, protection := if ap then some pr else none }
      ⟨fun i hi => by simp at hi; omega, fun i hi => by simp at hi; omega, fun i hi => by simp at hi; omega,
       fun n hn' => by simp at hn'; omega⟩
    subst h1
    exact ⟨this.1, this.2, by omega, by simp⟩

theorem createStyle_spec {r r' : Reg} {s s' : Style} {id : Nat} (w : WF r)
    (h : createStyle r s = .ok (r', id, s')) :
    Ext r r' ∧ WF r' ∧ id < r'.xfs.length := by
  unfold createStyle at h
  split at h
  · simp at h
  · rename_i r1 numFmtID h1
    obtain ⟨e1, w1, n1⟩ := newNumFmt_spec w h1
    split at h
    · simp at h
    · rename_i r2 fontID s2 h2
      obtain ⟨e2, w2, f2⟩ := addFont_spec w1 h2
      obtain ⟨e3, w3, b3⟩ := addBorder_spec (s := s2) w2
      obtain ⟨e4, w4, l4⟩ := addFill_spec (s := s2) w3
      simp only at h
      split at h
      · simp at h
      · rename_i r5 id5 h5
        simp at h; obtain ⟨hr, hi, _⟩ := h
        have e24 : Ext r2 (addFill (addBorder r2 s2).1 s2).1 := e3.trans e4
        have hf : fontID < (addFill (addBorder r2 s2).1 s2).1.fonts.length := by
          obtain ⟨e, he⟩ := e24.fonts; rw [he, List.length_append]; omega
        have hn : numFmtID ≤ topId (addFill (addBorder r2 s2).1 s2).1 :=
          Nat.le_trans n1 (Nat.le_trans e2.top e24.top)
        have hb : (addBorder r2 s2).2 < (addFill (addBorder r2 s2).1 s2).1.borders.length := by
          obtain ⟨e, he⟩ := e4.borders; rw [he, List.length_append]; omega
        obtain ⟨e5, w5, hid, hlen⟩ := setCellXfs_spec w4 hf hn l4 hb h5
        subst hr; subst hi
        exact ⟨(e1.trans e2).trans (e24.trans e5), w5, by omega⟩

theorem getStyleID_lt {r : Reg} {s s' : Style} {id : Nat} (h : getStyleID r s = .ok (some id, s')) :
    id < r.xfs.length := by
  unfold getStyleID at h
  simp only at h
  split at h
  · simp at h
  · simp at h; exact findIdx?_lt h.1

/-- one successful `NewStyle`: the registry is extended, the invariant is kept, the id is valid -/
theorem newStyle_spec {r r' : Reg} {s s' : Style} {id : Nat} (w : WF r)
    (h : newStyle r s = .ok (r', id, s')) : Ext r r' ∧ WF r' ∧ id < r'.xfs.length := by
  unfold newStyle at h
  split at h
  · simp at h
  · split at h
    · simp at h
    · rename_i id0 s3 hg
      simp at h; obtain ⟨h1, h2, _⟩ := h; subst h1; subst h2
      exact ⟨Ext.refl _, w, getStyleID_lt hg⟩
    · exact createStyle_spec w h


/-! ### only `setCellXfs` touches `cellXfs` -/

theorem newNumFmt_xfs {r r1 : Reg} {s : Style} {n : Nat} (h : newNumFmt r s = .ok (r1, n)) : r1.xfs = r.xfs := by
  unfold newNumFmt at h
  repeat' split at h
  all_goals first
    | (simp at h; done)
    | (simp [setCustomNumFmt] at h; obtain ⟨h1, _⟩ := h; subst h1; rfl)

theorem addFont_xfs {r r2 : Reg} {s s' : Style} {i : Nat} (h : addFont r s = .ok (r2, i, s')) : r2.xfs = r.xfs := by
  unfold addFont at h
  repeat' split at h
  all_goals first
    | (simp at h; done)
    | (simp at h; obtain ⟨h1, _⟩ := h; subst h1; rfl)

theorem addBorder_xfs (r : Reg) (s : Style) : (addBorder r s).1.xfs = r.xfs := by
  unfold addBorder; repeat' split
  all_goals rfl

theorem addFill_xfs (r : Reg) (s : Style) : (addFill r s).1.xfs = r.xfs := by
  unfold addFill; repeat' split
  all_goals rfl

theorem createStyle_xfs {r r' : Reg} {s s' : Style} {id : Nat} (h : createStyle r s = .ok (r', id, s')) :
    id = r.xfs.length ∧ ∃ xf, r'.xfs = r.xfs ++ [xf] := by
  unfold createStyle at h
  split at h
  · simp at h
  · rename_i r1 numFmtID h1
    split at h
    · simp at h
    · rename_i r2 fontID s2 h2
      simp only at h
      split at h
      · simp at h
      · rename_i r5 id5 h5
        simp at h; obtain ⟨hr, hi, _⟩ := h
        have hx : (addFill (addBorder r2 s2).1 s2).1.xfs = r.xfs := by
          rw [addFill_xfs, addBorder_xfs, addFont_xfs h2, newNumFmt_xfs h1]
        unfold setCellXfs at h5
        simp only at h5
        split at h5
        · simp at h5
        · injection h5 with h5
          injection h5 with h51 h52
          subst hr; subst hi
          rw [← h51, ← h52, hx]
          exact ⟨by omega, ⟨_, rfl⟩⟩


/-! ### `Count` fields: a table that is appended to gets `Count = len`; untouched tables keep theirs -/

def Touched {α} (l l' : List α) (c c' : Nat) : Prop := (l' = l ∧ c' = c) ∨ c' = l'.length

theorem Touched.refl {α} (l : List α) (c : Nat) : Touched l l c c := Or.inl ⟨rfl, rfl⟩

theorem Touched.trans {α} {l l' l'' : List α} {c c' c'' : Nat} (h1 : Touched l l' c c') (h2 : Touched l' l'' c' c'') :
    Touched l l'' c c'' := by
  rcases h2 with ⟨e1, e2⟩ | h2
  · subst e1; subst e2; exact h1
  · exact Or.inr h2

structure CountStep (r r' : Reg) : Prop where
  fonts : Touched r.fonts r'.fonts r.fontsCount r'.fontsCount
  fills : Touched r.fills r'.fills r.fillsCount r'.fillsCount
  borders : Touched r.borders r'.borders r.bordersCount r'.bordersCount
  xfs : Touched r.xfs r'.xfs r.xfsCount r'.xfsCount
  nums : (∀ l c, r.numFmts = some (l, c) → c = l.length) → (∀ l c, r'.numFmts = some (l, c) → c = l.length)

theorem CountStep.refl (r : Reg) : CountStep r r :=
  ⟨Touched.refl _ _, Touched.refl _ _, Touched.refl _ _, Touched.refl _ _, fun h => h⟩

theorem CountStep.trans {a b c : Reg} (h1 : CountStep a b) (h2 : CountStep b c) : CountStep a c :=
  ⟨h1.fonts.trans h2.fonts, h1.fills.trans h2.fills, h1.borders.trans h2.borders, h1.xfs.trans h2.xfs,
   fun h => h2.nums (h1.nums h)⟩

theorem CountsOk.step {r r' : Reg} (c : CountsOk r) (s : CountStep r r') : CountsOk r' := by
  refine ⟨?_, ?_, ?_, ?_, s.nums c.nums⟩
  · rcases s.fonts with ⟨e1, e2⟩ | h
    · rw [e1, e2]; exact c.fonts
    · exact h
  · rcases s.fills with ⟨e1, e2⟩ | h
    · rw [e1, e2]; exact c.fills
    · exact h
  · rcases s.borders with ⟨e1, e2⟩ | h
    · rw [e1, e2]; exact c.borders
    · exact h
  · rcases s.xfs with ⟨e1, e2⟩ | h
    · rw [e1, e2]; exact c.xfs
    · exact h

theorem newNumFmt_cstep {r r1 : Reg} {s : Style} {n : Nat} (h : newNumFmt r s = .ok (r1, n)) : CountStep r r1 := by
  unfold newNumFmt at h
  repeat' split at h
  all_goals first
    | (simp at h; done)
    | (injection h with h; injection h with h1 h2; subst h1; exact CountStep.refl _)
    | (try simp only [setCustomNumFmt] at h
       injection h with h; injection h with h1 h2; subst h1
       refine ⟨Touched.refl _ _, Touched.refl _ _, Touched.refl _ _, Touched.refl _ _, fun hc l c hl => ?_⟩
       simp at hl; obtain ⟨e1, e2⟩ := hl; subst e1; subst e2
       simp
       try (apply hc; assumption))

theorem addFont_cstep {r r2 : Reg} {s s' : Style} {i : Nat} (h : addFont r s = .ok (r2, i, s')) : CountStep r r2 := by
  unfold addFont at h
  repeat' split at h
  all_goals first
    | (simp at h; done)
    | (injection h with h; injection h with h1 h2; subst h1; exact CountStep.refl _)
    | (injection h with h; injection h with h1 h2; subst h1
       exact ⟨Or.inr (by simp), Touched.refl _ _, Touched.refl _ _, Touched.refl _ _, fun h => h⟩)

theorem addBorder_cstep (r : Reg) (s : Style) : CountStep r (addBorder r s).1 := by
  unfold addBorder
  repeat' split
  all_goals first
    | exact CountStep.refl _
    | exact ⟨Touched.refl _ _, Touched.refl _ _, Or.inr (by simp), Touched.refl _ _, fun h => h⟩

theorem addFill_cstep (r : Reg) (s : Style) : CountStep r (addFill r s).1 := by
  unfold addFill
  repeat' split
  all_goals first
    | exact CountStep.refl _
    | exact ⟨Touched.refl _ _, Or.inr (by simp), Touched.refl _ _, Touched.refl _ _, fun h => h⟩

theorem setCellXfs_cstep {r r5 : Reg} {f n l b id : Nat} {aa ap : Bool} {al : Str} {pr : Bool × Bool}
    (h : setCellXfs r f n l b aa ap al pr = .ok (r5, id)) : CountStep r r5 := by
  unfold setCellXfs at h
  simp only at h
  split at h
  · simp at h
  · injection h with h; injection h with h1 h2; subst h1
    exact ⟨Touched.refl _ _, Touched.refl _ _, Touched.refl _ _, Or.inr (by simp), fun h => h⟩

theorem createStyle_cstep {r r' : Reg} {s s' : Style} {id : Nat} (h : createStyle r s = .ok (r', id, s')) :
    CountStep r r' := by
  unfold createStyle at h
  split at h
  · simp at h
  · rename_i r1 numFmtID h1
    split at h
    · simp at h
    · rename_i r2 fontID s2 h2
      simp only at h
      split at h
      · simp at h
      · rename_i r5 id5 h5
        simp at h; obtain ⟨hr, _, _⟩ := h
        subst hr
        exact (newNumFmt_cstep h1).trans ((addFont_cstep h2).trans ((addBorder_cstep _ _).trans
          ((addFill_cstep _ _).trans (setCellXfs_cstep h5))))

theorem newStyle_cstep {r r' : Reg} {s s' : Style} {id : Nat} (h : newStyle r s = .ok (r', id, s')) :
    CountStep r r' := by
  unfold newStyle at h
  split at h
  · simp at h
  · split at h
    · simp at h
    · simp at h; obtain ⟨h1, _, _⟩ := h; subst h1; exact CountStep.refl _
    · exact createStyle_cstep h

/-! ### GetStyle is stable under extension -/

theorem getElem?_ext {α} {l e : List α} {i : Nat} (h : i < l.length) : (l ++ e)[i]? = l[i]? :=
  List.getElem?_append_left h

theorem extractNumFmt_ext (dec : Str → Int) {r r' : Reg} (e : Ext r r') (n : Option Nat) (st : Style)
    (hn : ∀ k, n = some k → k ≤ topId r) : extractNumFmt dec r' n st = extractNumFmt dec r n st := by
  unfold extractNumFmt
  cases n with
  | none => rfl
  | some id =>
    simp only
    split
    · rfl
    · split
      · rfl
      · obtain ⟨ex, hex, hgt⟩ := e.nums
        rw [hex, List.foldl_append]
        have hid := hn id rfl
        generalize (List.foldl _ st (numFmtList r)) = st0
        clear hex
        induction ex generalizing st0 with
        | nil => rfl
        | cons x t ih =>
          simp only [List.foldl_cons]
          have hx : x.id ≠ id := by have := hgt x (by simp); omega
          simp only [hx, ne_eq, not_false_eq_true, if_true]
          exact ih (fun nf hnf => hgt nf (List.mem_cons_of_mem _ hnf)) st0

theorem getStyle_ext (dec : Str → Int) {r r' : Reg} (w : WF r) (e : Ext r r') (idx : Int)
    (h0 : 0 ≤ idx) (hlt : idx < r.xfs.length) : getStyle dec r' idx = getStyle dec r idx := by
  obtain ⟨xe, hxe⟩ := e.xfs
  obtain ⟨fe, hfe⟩ := e.fonts
  obtain ⟨le, hle⟩ := e.fills
  obtain ⟨be, hbe⟩ := e.borders
  have hi : idx.toNat < r.xfs.length := by omega
  unfold getStyle
  have c1 : ¬ (idx < 0 ∨ (r.xfs.length : Int) ≤ idx) := by omega
  have c2 : ¬ (idx < 0 ∨ (r'.xfs.length : Int) ≤ idx) := by rw [hxe, List.length_append]; omega
  simp only [c1, c2, if_false]
  have hx : r'.xfs[idx.toNat]? = r.xfs[idx.toNat]? := by rw [hxe]; exact getElem?_ext hi
  rw [hx]
  cases hxf : r.xfs[idx.toNat]? with
  | none => rfl
  | some xf =>
    have hmem : xf ∈ r.xfs := List.mem_of_getElem? hxf
    have ok := w.refs xf hmem
    have hfill : xf.fillId.bind (r'.fills[·]?) = xf.fillId.bind (r.fills[·]?) := by
      cases hq : xf.fillId with
      | none => rfl
      | some i => simp only [Option.bind]; rw [hle]; exact getElem?_ext (ok.fill i hq)
    have hborder : xf.borderId.bind (r'.borders[·]?) = xf.borderId.bind (r.borders[·]?) := by
      cases hq : xf.borderId with
      | none => rfl
      | some i => simp only [Option.bind]; rw [hbe]; exact getElem?_ext (ok.border i hq)
    have hfont : xf.fontId.bind (r'.fonts[·]?) = xf.fontId.bind (r.fonts[·]?) := by
      cases hq : xf.fontId with
      | none => rfl
      | some i => simp only [Option.bind]; rw [hfe]; exact getElem?_ext (ok.font i hq)
    simp only [hfill, hborder, hfont]
    rw [extractNumFmt_ext dec e xf.numFmtId _ ok.num]

end XlModel.Styles
