import XlModel.Styles
/-!
Abstraction of the stored worksheet grid to the Spec's three levels, and the lemmas about
`prepareCellStyle` / grid growth used by `XlModel.Props.C17`.
-/
namespace XlModel.Styles
open Impl

def rowS (g : Grid) (r : Nat) : Nat :=
  match g.rows[r - 1]? with
  | some row => row.s
  | none => 0

def colS (g : Grid) (c : Nat) : Nat :=
  match g.cols.find? (fun k => k.min ≤ c && c ≤ k.max && k.style != 0) with
  | some k => k.style
  | none => 0

/-- the three levels as stored in a grid -/
def levelsOf (g : Grid) : Spec.Levels := ⟨fun c r => cellS g c r, rowS g, colS g⟩

/-- equality of levels on real positions (columns and rows start at 1) -/
def levelsEq (a b : Spec.Levels) : Prop :=
  (∀ c r, 1 ≤ c → 1 ≤ r → a.cell c r = b.cell c r) ∧ (∀ r, 1 ≤ r → a.row r = b.row r) ∧ (∀ c, a.col c = b.col c)

theorem prepareCellStyle_eq_resolve (g : Grid) (c r : Nat) (hr : 1 ≤ r) :
    prepareCellStyle g c r (cellS g c r) = Spec.resolve (levelsOf g) c r := by
  unfold prepareCellStyle Spec.resolve levelsOf
  simp only
  by_cases h0 : cellS g c r ≠ 0
  · simp [h0]
  · simp only [h0, if_false]
    have hz : cellS g c r = 0 := by omega
    by_cases hle : r ≤ g.rows.length
    · have hlt : r - 1 < g.rows.length := by omega
      have hsome : g.rows[r - 1]? = some g.rows[r - 1] := List.getElem?_eq_getElem hlt
      simp only [hle, if_true, hsome, Option.map_some, rowS]
      by_cases hs : g.rows[r - 1].s ≠ 0
      · simp [hs]
      · simp only [hs, if_false, colS, hz]
        cases g.cols.find? (fun k => k.min ≤ c && c ≤ k.max && k.style != 0) <;> rfl
    · have hnone : g.rows[r - 1]? = none := List.getElem?_eq_none (by omega)
      simp only [hle, if_false, rowS, hnone, colS, hz, ne_eq, not_true_eq_false]
      cases g.cols.find? (fun k => k.min ≤ c && c ≤ k.max && k.style != 0) <;> rfl

/-! ### growth keeps every stored style -/

def cellOf (ro : Option Row) (j : Nat) : Nat :=
  match ro with
  | some r => (r.cells[j]?).getD 0
  | none => 0

def sOf (ro : Option Row) : Nat :=
  match ro with
  | some r => r.s
  | none => 0

theorem cellS_eq (g : Grid) (c r : Nat) : cellS g c r = cellOf (g.rows[r - 1]?) (c - 1) := by
  unfold cellS cellOf; cases g.rows[r - 1]? <;> rfl

theorem rowS_eq (g : Grid) (r : Nat) : rowS g r = sOf (g.rows[r - 1]?) := by
  unfold rowS sOf; cases g.rows[r - 1]? <;> rfl

theorem getD_padTo_zero (cs : List Nat) (n j : Nat) : ((padTo cs n 0)[j]?).getD 0 = (cs[j]?).getD 0 := by
  unfold padTo
  by_cases h : j < cs.length
  · rw [List.getElem?_append_left h]
  · rw [List.getElem?_append_right (by omega)]
    have : cs[j]? = none := List.getElem?_eq_none (by omega)
    rw [this]
    by_cases h2 : j - cs.length < n - cs.length
    · simp [List.getElem?_replicate, h2]
    · simp [List.getElem?_replicate, h2]

theorem cellOf_fill (ro : Option Row) (col j : Nat) :
    cellOf (ro.map (fillColumns · col)) j = cellOf ro j := by
  cases ro with
  | none => rfl
  | some r => simp [cellOf, fillColumns, getD_padTo_zero]

theorem sOf_fill (ro : Option Row) (col : Nat) : sOf (ro.map (fillColumns · col)) = sOf ro := by
  cases ro <;> rfl

theorem padRows_get (rows : List Row) (n i : Nat) :
    cellOf ((padTo rows n ⟨0, []⟩)[i]?) = cellOf (rows[i]?) ∧ sOf ((padTo rows n ⟨0, []⟩)[i]?) = sOf (rows[i]?) := by
  unfold padTo
  by_cases h : i < rows.length
  · rw [List.getElem?_append_left h]; exact ⟨rfl, rfl⟩
  · rw [List.getElem?_append_right (by omega)]
    have : rows[i]? = none := List.getElem?_eq_none (by omega)
    rw [this]
    by_cases h2 : i - rows.length < n - rows.length
    · simp [List.getElem?_replicate, h2]
      constructor
      · funext j; simp [cellOf]
      · rfl
    · simp [List.getElem?_replicate, h2]

theorem prepare_get (g : Grid) (col row i : Nat) :
    cellOf ((prepareSheetXML g col row).rows[i]?) = cellOf (g.rows[i]?) ∧
    sOf ((prepareSheetXML g col row).rows[i]?) = sOf (g.rows[i]?) := by
  unfold prepareSheetXML
  simp only [List.getElem?_modify]
  have hp := padRows_get g.rows row i
  by_cases h : row - 1 = i
  · simp only [h, if_true]
    constructor
    · funext j
      have := cellOf_fill ((padTo g.rows row ⟨0, []⟩)[i]?) col j
      simp only [Option.map] at this
      rw [← hp.1]
      cases hq : (padTo g.rows row ⟨0, []⟩)[i]? with
      | none => rfl
      | some r => rw [hq] at this; simpa using this
    · rw [← hp.2]
      cases (padTo g.rows row ⟨0, []⟩)[i]? <;> rfl
  · simp only [h, if_false]
    constructor
    · rw [← hp.1]; cases (padTo g.rows row ⟨0, []⟩)[i]? <;> rfl
    · rw [← hp.2]; cases (padTo g.rows row ⟨0, []⟩)[i]? <;> rfl

theorem contiguous_get (g : Grid) (a b col i : Nat) :
    cellOf ((makeContiguousColumns g a b col).rows[i]?) = cellOf (g.rows[i]?) ∧
    sOf ((makeContiguousColumns g a b col).rows[i]?) = sOf (g.rows[i]?) := by
  unfold makeContiguousColumns
  simp only [List.getElem?_mapIdx]
  cases hq : g.rows[i]? with
  | none => exact ⟨rfl, rfl⟩
  | some r =>
    simp only [Option.map_some]
    split
    · constructor
      · funext j; simp [cellOf, fillColumns, getD_padTo_zero]
      · rfl
    · exact ⟨rfl, rfl⟩

/-- SetCellStyle with an invalid id: error, and the three levels are what they were -/
theorem setCellStyle_invalid (reg : Reg) (g : Grid) (hc hr vc vr : Nat) (sid : Int)
    (hbad : validId reg sid = false) (_h1 : 1 ≤ hr) (_h2 : 1 ≤ vr) :
    (setCellStyle reg g hc hr vc vr sid).2 = .error .invalidStyle ∧
    levelsEq (levelsOf (setCellStyle reg g hc hr vc vr sid).1) (levelsOf g) := by
  unfold setCellStyle
  simp only [hbad, Bool.not_false, if_true]
  refine ⟨trivial, ?_, ?_, ?_⟩
  · intro c r _ _
    simp only [levelsOf, cellS_eq]
    rw [(contiguous_get _ _ _ _ _).1, (prepare_get _ _ _ _).1]
  · intro r _
    simp only [levelsOf, rowS_eq]
    rw [(contiguous_get _ _ _ _ _).2, (prepare_get _ _ _ _).2]
  · intro c
    simp only [levelsOf, colS, makeContiguousColumns, prepareSheetXML]

end XlModel.Styles
