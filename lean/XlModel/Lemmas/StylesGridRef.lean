import XlModel.Styles
import XlModel.Lemmas.StylesGrid
/-!
Refinement of the stored worksheet grid to the three-level Spec: what SetCellStyle, SetRowStyle,
SetColStyle (with `flatCols`) and the cell setters do to `cellS` / `rowS` / `colS`.
-/
namespace XlModel.Styles
open Impl

/-! ### element access after growth -/

theorem get_padTo {α} (l : List α) (n : Nat) (a : α) (i : Nat) :
    (padTo l n a)[i]? = if i < l.length then l[i]? else if i < n then some a else none := by
  unfold padTo
  by_cases h : i < l.length
  · simp only [h, if_true]; exact List.getElem?_append_left h
  · simp only [h, if_false]
    rw [List.getElem?_append_right (by omega)]
    by_cases h2 : i < n
    · have : i - l.length < n - l.length := by omega
      simp [List.getElem?_replicate, this, h2]
    · have : ¬ (i - l.length < n - l.length) := by omega
      simp [List.getElem?_replicate, this, h2]

theorem length_padTo {α} (l : List α) (n : Nat) (a : α) : (padTo l n a).length = max l.length n := by
  unfold padTo; simp; omega

/-- a row slot after `prepareSheetXML col row` -/
theorem get_prepare (g : Grid) (col row i : Nat) :
    (prepareSheetXML g col row).rows[i]? =
      ((padTo g.rows row ⟨0, []⟩)[i]?).map (fun ro => if row - 1 = i then fillColumns ro col else ro) := by
  unfold prepareSheetXML
  simp only [List.getElem?_modify]
  cases (padTo g.rows row ⟨0, []⟩)[i]? <;> simp

theorem get_contig (g : Grid) (a b col i : Nat) :
    (makeContiguousColumns g a b col).rows[i]? =
      (g.rows[i]?).map (fun ro => if a ≤ i + 1 ∧ i + 1 < b then fillColumns ro col else ro) := by
  unfold makeContiguousColumns
  simp only [List.getElem?_mapIdx]

theorem get_setRect (g : Grid) (c1 r1 c2 r2 sid i : Nat) :
    (setRect g c1 r1 c2 r2 sid).rows[i]? =
      (g.rows[i]?).map (fun ro => if r1 ≤ i + 1 ∧ i + 1 ≤ r2 then
        { ro with cells := ro.cells.mapIdx fun j s => if c1 ≤ j + 1 ∧ j + 1 ≤ c2 then sid else s } else ro) := by
  unfold setRect
  simp only [List.getElem?_mapIdx]

/-- the grid after the growth step of SetCellStyle -/
def grow (g : Grid) (hr vc vr : Nat) : Grid := makeContiguousColumns (prepareSheetXML g vc vr) hr vr vc

/-- after growth every position of rows `hr..vr`, columns `1..vc` is a stored cell -/
theorem grow_has (g : Grid) (hr vc vr r : Nat) (h1 : 1 ≤ hr) (h2 : hr ≤ r) (h3 : r ≤ vr) :
    ∃ ro, (grow g hr vc vr).rows[r - 1]? = some ro ∧ vc ≤ ro.cells.length := by
  unfold grow
  rw [get_contig, get_prepare, get_padTo]
  by_cases hlt : r - 1 < g.rows.length
  · simp only [hlt, if_true]
    have hs : g.rows[r - 1]? = some g.rows[r - 1] := List.getElem?_eq_getElem hlt
    rw [hs]
    simp only [Option.map_some]
    by_cases hv : vr - 1 = r - 1
    · simp only [hv, if_true]
      refine ⟨_, rfl, ?_⟩
      split <;> simp [fillColumns, length_padTo] <;> omega
    · simp only [hv, if_false]
      have hc : hr ≤ r - 1 + 1 ∧ r - 1 + 1 < vr := by omega
      simp only [hc, and_self, if_true]
      exact ⟨_, rfl, by simp [fillColumns, length_padTo]; omega⟩
  · simp only [hlt, if_false]
    have hn : r - 1 < vr := by omega
    simp only [hn, if_true, Option.map_some]
    by_cases hv : vr - 1 = r - 1
    · simp only [hv, if_true]
      refine ⟨_, rfl, ?_⟩
      split <;> simp [fillColumns, length_padTo]
    · simp only [hv, if_false]
      have hc : hr ≤ r - 1 + 1 ∧ r - 1 + 1 < vr := by omega
      simp only [hc, and_self, if_true]
      exact ⟨_, rfl, by simp [fillColumns, length_padTo]⟩

theorem grow_cell (g : Grid) (hr vc vr i : Nat) :
    cellOf ((grow g hr vc vr).rows[i]?) = cellOf (g.rows[i]?) ∧ sOf ((grow g hr vc vr).rows[i]?) = sOf (g.rows[i]?) := by
  unfold grow
  exact ⟨by rw [(contiguous_get _ _ _ _ _).1, (prepare_get _ _ _ _).1],
         by rw [(contiguous_get _ _ _ _ _).2, (prepare_get _ _ _ _).2]⟩

theorem grow_cols (g : Grid) (hr vc vr : Nat) : (grow g hr vc vr).cols = g.cols := rfl

theorem grow_rows_length (g : Grid) (hr vc vr : Nat) : (grow g hr vc vr).rows.length = max g.rows.length vr := by
  unfold grow makeContiguousColumns prepareSheetXML
  simp [length_padTo]

/-! ### SetCellStyle -/

theorem cellS_setRect (g : Grid) (c1 r1 c2 r2 sid c r : Nat) (hc : 1 ≤ c) (hr : 1 ≤ r) :
    cellS (setRect g c1 r1 c2 r2 sid) c r =
      if r1 ≤ r ∧ r ≤ r2 ∧ c1 ≤ c ∧ c ≤ c2 ∧ (∃ ro, g.rows[r - 1]? = some ro ∧ c ≤ ro.cells.length) then sid
      else cellS g c r := by
  rw [cellS_eq, cellS_eq, get_setRect]
  cases hq : g.rows[r - 1]? with
  | none => simp [cellOf]
  | some ro =>
    simp only [Option.map_some]
    have e1 : r - 1 + 1 = r := by omega
    rw [e1]
    by_cases hrr : r1 ≤ r ∧ r ≤ r2
    · simp only [hrr, and_self, if_true, cellOf, List.getElem?_mapIdx, true_and]
      by_cases hlen : c - 1 < ro.cells.length
      · have hs : ro.cells[c - 1]? = some ro.cells[c - 1] := List.getElem?_eq_getElem hlen
        have e2 : c - 1 + 1 = c := by omega
        simp only [hs, Option.map_some, Option.getD_some, e2]
        by_cases hcc : c1 ≤ c ∧ c ≤ c2
        · have : ∃ ro', some ro = some ro' ∧ c ≤ ro'.cells.length := ⟨ro, rfl, by omega⟩
          simp [hcc]
          intros; omega
        · have : ¬ (c1 ≤ c ∧ c ≤ c2 ∧ ∃ ro', some ro = some ro' ∧ c ≤ ro'.cells.length) := by
            intro h; exact hcc ⟨h.1, h.2.1⟩
          simp [hcc]
          intros; omega
      · have hs : ro.cells[c - 1]? = none := List.getElem?_eq_none (by omega)
        have : ¬ (c1 ≤ c ∧ c ≤ c2 ∧ ∃ ro', some ro = some ro' ∧ c ≤ ro'.cells.length) := by
          intro h; obtain ⟨_, _, ro', he, hl⟩ := h; cases he; omega
        simp [hs]
        intros; omega
    · have : ¬ (r1 ≤ r ∧ r ≤ r2 ∧ c1 ≤ c ∧ c ≤ c2 ∧ ∃ ro', some ro = some ro' ∧ c ≤ ro'.cells.length) := by
        intro h; exact hrr ⟨h.1, h.2.1⟩
      simp only [hrr, if_false, this]

theorem rowS_setRect (g : Grid) (c1 r1 c2 r2 sid r : Nat) : rowS (setRect g c1 r1 c2 r2 sid) r = rowS g r := by
  rw [rowS_eq, rowS_eq, get_setRect]
  cases g.rows[r - 1]? with
  | none => rfl
  | some ro => simp only [Option.map_some, sOf]; split <;> rfl

/-- the grid after a successful SetCellStyle on a normalised rectangle -/
def setRectGrown (g : Grid) (hc hr vc vr sid : Nat) : Grid := setRect (grow g hr vc vr) hc hr vc vr sid

/-- SetCellStyle (valid id, rectangle `hc ≤ vc`, `hr ≤ vr` after normalisation): inside the rectangle
every cell stores `sid`, outside nothing changes; row and column levels are untouched -/
theorem setRectGrown_levels (g : Grid) (hc hr vc vr sid : Nat) (h1 : 1 ≤ hr) (h0 : 1 ≤ hc) :
    (∀ c r, 1 ≤ c → 1 ≤ r →
      cellS (setRectGrown g hc hr vc vr sid) c r = if Spec.inRect hc hr vc vr c r then sid else cellS g c r) ∧
    (∀ r, rowS (setRectGrown g hc hr vc vr sid) r = rowS g r) ∧
    (setRectGrown g hc hr vc vr sid).cols = g.cols := by
  refine ⟨fun c r hc1 hr1 => ?_, fun r => ?_, rfl⟩
  · unfold setRectGrown
    rw [cellS_setRect _ _ _ _ _ _ _ _ hc1 hr1]
    have hold : cellS (grow g hr vc vr) c r = cellS g c r := by
      rw [cellS_eq, cellS_eq, (grow_cell g hr vc vr (r - 1)).1]
    by_cases hin : Spec.inRect hc hr vc vr c r
    · obtain ⟨a1, a2, a3, a4⟩ := hin
      obtain ⟨ro, hro, hlen⟩ := grow_has g hr vc vr r h1 a3 a4
      have : hr ≤ r ∧ r ≤ vr ∧ hc ≤ c ∧ c ≤ vc ∧ ∃ ro', (grow g hr vc vr).rows[r - 1]? = some ro' ∧ c ≤ ro'.cells.length :=
        ⟨a3, a4, a1, a2, ro, hro, by omega⟩
      simp only [this, if_true]
      simp [Spec.inRect, a1, a2, a3, a4]
    · have : ¬ (hr ≤ r ∧ r ≤ vr ∧ hc ≤ c ∧ c ≤ vc ∧ ∃ ro', (grow g hr vc vr).rows[r - 1]? = some ro' ∧ c ≤ ro'.cells.length) := by
        intro h; exact hin ⟨h.2.2.1, h.2.2.2.1, h.1, h.2.1⟩
      simp only [this, if_false, hin, hold]
  · unfold setRectGrown
    rw [rowS_setRect, rowS_eq, rowS_eq, (grow_cell g hr vc vr (r - 1)).2]

/-! ### SetRowStyle -/

/-- the grid after a successful SetRowStyle on rows `s..e` -/
def setRowGrid (g : Grid) (s e sid : Nat) : Grid :=
  let g1 := prepareSheetXML g 0 e
  { g1 with rows := g1.rows.mapIdx fun i r =>
      if s ≤ i + 1 ∧ i + 1 ≤ e then ⟨sid, r.cells.map fun _ => sid⟩ else r }

theorem setRowGrid_levels (g : Grid) (s e sid : Nat) (h1 : 1 ≤ s) (h2 : s ≤ e) :
    (∀ r, 1 ≤ r → rowS (setRowGrid g s e sid) r = if s ≤ r ∧ r ≤ e then sid else rowS g r) ∧
    (∀ c r, 1 ≤ c → 1 ≤ r → (s ≤ r ∧ r ≤ e) →
      cellS (setRowGrid g s e sid) c r = sid ∨ cellS (setRowGrid g s e sid) c r = 0) ∧
    (∀ c r, 1 ≤ c → 1 ≤ r → ¬ (s ≤ r ∧ r ≤ e) → cellS (setRowGrid g s e sid) c r = cellS g c r) ∧
    (setRowGrid g s e sid).cols = g.cols := by
  have hrow : ∀ i, (setRowGrid g s e sid).rows[i]? =
      ((prepareSheetXML g 0 e).rows[i]?).map (fun r =>
        if s ≤ i + 1 ∧ i + 1 ≤ e then (⟨sid, r.cells.map fun _ => sid⟩ : Row) else r) := by
    intro i; unfold setRowGrid; simp only [List.getElem?_mapIdx]
  have hex : ∀ r, 1 ≤ r → r ≤ e → ∃ ro, (prepareSheetXML g 0 e).rows[r - 1]? = some ro := by
    intro r hr1 hre
    rw [get_prepare, get_padTo]
    by_cases hlt : r - 1 < g.rows.length
    · simp only [hlt, if_true]
      rw [List.getElem?_eq_getElem hlt]; exact ⟨_, rfl⟩
    · have : r - 1 < e := by omega
      simp only [hlt, if_false, this, if_true]; exact ⟨_, rfl⟩
  refine ⟨fun r hr1 => ?_, fun c r hc1 hr1 hin => ?_, fun c r hc1 hr1 hout => ?_, rfl⟩
  · rw [rowS_eq, hrow]
    have e1 : r - 1 + 1 = r := by omega
    rw [e1]
    by_cases hin : s ≤ r ∧ r ≤ e
    · obtain ⟨ro, hro⟩ := hex r hr1 hin.2
      simp only [hro, Option.map_some, hin, and_self, if_true, sOf]
    · simp only [hin, if_false]
      cases hq : (prepareSheetXML g 0 e).rows[r - 1]? with
      | none =>
        have := (prepare_get g 0 e (r - 1)).2
        rw [hq] at this
        rw [rowS_eq, ← this]; rfl
      | some ro =>
        have := (prepare_get g 0 e (r - 1)).2
        rw [hq] at this
        simp only [Option.map_some]
        rw [rowS_eq, ← this]
  · rw [cellS_eq, hrow]
    have e1 : r - 1 + 1 = r := by omega
    rw [e1]
    obtain ⟨ro, hro⟩ := hex r hr1 hin.2
    simp only [hro, Option.map_some, hin, and_self, if_true, cellOf, List.getElem?_map]
    cases ro.cells[c - 1]? <;> simp
  · rw [cellS_eq, hrow]
    have e1 : r - 1 + 1 = r := by omega
    rw [e1]
    simp only [hout, if_false]
    have := (prepare_get g 0 e (r - 1)).1
    rw [cellS_eq, ← this]
    cases (prepareSheetXML g 0 e).rows[r - 1]? <;> rfl

/-! ### cell writes -/

/-- the style a cell write stores: the resolution on the grid grown to hold the cell -/
def writeVal (g : Grid) (c r : Nat) : Nat :=
  prepareCellStyle (prepareSheetXML g c r) c r (cellS (prepareSheetXML g c r) c r)

theorem writeCell_levels (g : Grid) (c r : Nat) (hc : 1 ≤ c) (hr : 1 ≤ r) :
    (∀ c' r', 1 ≤ c' → 1 ≤ r' → cellS (writeCell g c r) c' r' =
      if c' = c ∧ r' = r then writeVal g c r else cellS g c' r') ∧
    (∀ r', rowS (writeCell g c r) r' = rowS g r') ∧ (writeCell g c r).cols = g.cols := by
  have hrow : ∀ i, (writeCell g c r).rows[i]? =
      ((prepareSheetXML g c r).rows[i]?).map (fun ro => if r - 1 = i then
        { ro with cells := ro.cells.set (c - 1) (writeVal g c r) } else ro) := by
    intro i; unfold writeCell writeVal; simp only [List.getElem?_modify]
    cases (prepareSheetXML g c r).rows[i]? <;> simp
  refine ⟨fun c' r' hc' hr' => ?_, fun r' => ?_, rfl⟩
  · rw [cellS_eq, hrow]
    by_cases hrr : r - 1 = r' - 1
    · have hre : r' = r := by omega
      subst hre
      -- the row exists and holds at least c cells
      have hex : ∃ ro, (prepareSheetXML g c r').rows[r' - 1]? = some ro ∧ c ≤ ro.cells.length := by
        rw [get_prepare, get_padTo]
        by_cases hlt : r' - 1 < g.rows.length
        · simp only [hlt, if_true]
          rw [List.getElem?_eq_getElem hlt]
          exact ⟨_, rfl, by simp [fillColumns, length_padTo]; omega⟩
        · have : r' - 1 < r' := by omega
          simp only [hlt, if_false, this, if_true]
          exact ⟨_, rfl, by simp [fillColumns, length_padTo]⟩
      obtain ⟨ro, hro, hlen⟩ := hex
      simp only [hro, Option.map_some, if_true, cellOf]
      by_cases hcc : c' = c
      · subst hcc
        have : c' - 1 < ro.cells.length := by omega
        simp [List.getElem?_set, this]
      · have hne : c - 1 ≠ c' - 1 := by omega
        have hold := (prepare_get g c r' (r' - 1)).1
        rw [hro] at hold
        simp only [hcc, false_and, if_false, List.getElem?_set, hne]
        rw [cellS_eq, ← hold]
        simp [cellOf]
    · have hne : ¬ (c' = c ∧ r' = r) := by omega
      simp only [hrr, if_false, hne]
      have hold := (prepare_get g c r (r' - 1)).1
      rw [cellS_eq, ← hold]
      cases (prepareSheetXML g c r).rows[r' - 1]? <;> rfl
  · rw [rowS_eq, hrow, rowS_eq, ← (prepare_get g c r (r' - 1)).2]
    cases (prepareSheetXML g c r).rows[r' - 1]? with
    | none => rfl
    | some ro => simp only [Option.map_some, sOf]; split <;> rfl

/-! ### SetColStyle: the cells of the existing rows -/

def colFill (g : Grid) (L : List Nat) (rows sid : Nat) : Grid :=
  L.foldl (fun g col => setRectGrown g col 1 col rows sid) g

theorem colFill_levels (L : List Nat) (rows sid : Nat) (hL : ∀ c ∈ L, 1 ≤ c) (g : Grid) :
    (∀ c r, 1 ≤ c → 1 ≤ r → cellS (colFill g L rows sid) c r = if c ∈ L ∧ r ≤ rows then sid else cellS g c r) ∧
    (∀ r, rowS (colFill g L rows sid) r = rowS g r) ∧ (colFill g L rows sid).cols = g.cols := by
  induction L generalizing g with
  | nil => exact ⟨fun c r _ _ => by simp [colFill], fun r => rfl, rfl⟩
  | cons x t ih =>
    have hx : 1 ≤ x := hL x (by simp)
    obtain ⟨a1, a2, a3⟩ := setRectGrown_levels g x 1 x rows sid (Nat.le_refl 1) hx
    obtain ⟨b1, b2, b3⟩ := ih (fun c hc => hL c (List.mem_cons_of_mem _ hc)) (setRectGrown g x 1 x rows sid)
    have hunf : colFill g (x :: t) rows sid = colFill (setRectGrown g x 1 x rows sid) t rows sid := rfl
    refine ⟨fun c r hc hr => ?_, fun r => by rw [hunf, b2, a2], by rw [hunf, b3, a3]⟩
    rw [hunf, b1 c r hc hr, a1 c r hc hr]
    by_cases h1 : c ∈ t ∧ r ≤ rows
    · have : c ∈ x :: t ∧ r ≤ rows := ⟨List.mem_cons_of_mem _ h1.1, h1.2⟩
      simp only [h1, and_self, if_true, this]
    · simp only [h1, if_false]
      by_cases h2 : Spec.inRect x 1 x rows c r
      · obtain ⟨p1, p2, _, p4⟩ := h2
        have hcx : c = x := by omega
        have : c ∈ x :: t ∧ r ≤ rows := ⟨by rw [hcx]; simp, p4⟩
        simp only [Spec.inRect, p1, p2, p4, hr, and_self, if_true, this]
      · have : ¬ (c ∈ x :: t ∧ r ≤ rows) := by
          intro hh
          rcases List.mem_cons.mp hh.1 with he | he
          · exact h2 ⟨by omega, by omega, hr, hh.2⟩
          · exact h1 ⟨he, hh.2⟩
        simp only [h2, if_false, this]

/-! ### flatCols on a flat column list -/

/-- every entry covers one column and no column occurs twice: what `flatCols` produces -/
def FlatUnique (cols : List Col) : Prop :=
  (∀ k ∈ cols, k.max = k.min) ∧ cols.Pairwise (fun a b => a.min ≠ b.min)

def inCols (mn mx : Nat) (k : Col) : Bool := mn ≤ k.min && k.min ≤ mx

def flatStep (fc : List Col) (column : Col) : List Col :=
  (List.range (column.max + 1 - column.min)).foldl (fun fc k =>
    let i := column.min + k
    if fc.any (fun c => c.max == i && c.min == i) then fc else fc ++ [⟨i, i, column.style⟩]) fc

theorem flatStep_single (fc : List Col) (k : Col) (hk : k.max = k.min) :
    flatStep fc k = if fc.any (fun c => c.max == k.min && c.min == k.min) then fc else fc ++ [k] := by
  unfold flatStep
  have : k.max + 1 - k.min = 1 := by omega
  rw [this]
  simp only [List.range_one, List.foldl_cons, List.foldl_nil, Nat.add_zero]
  have hk' : (⟨k.min, k.min, k.style⟩ : Col) = k := by
    cases k; simp at hk ⊢; omega
  rw [hk']

theorem flat_fold (mn mx : Nat) (old : List Col) (acc : List Col) (hf : FlatUnique old)
    (h2 : ∀ k ∈ old, ∀ a ∈ acc, a.max = k.min ∧ a.min = k.min → inCols mn mx k = true)
    (h3 : ∀ k ∈ old, inCols mn mx k = true → acc.any (fun c => c.max == k.min && c.min == k.min) = true) :
    old.foldl flatStep acc = acc ++ old.filter (fun k => !inCols mn mx k) := by
  induction old generalizing acc with
  | nil => simp
  | cons k t ih =>
    obtain ⟨hflat, hpw⟩ := hf
    rw [List.pairwise_cons] at hpw
    have hft : FlatUnique t := ⟨fun x hx => hflat x (List.mem_cons_of_mem _ hx), hpw.2⟩
    simp only [List.foldl_cons]
    rw [flatStep_single acc k (hflat k (by simp))]
    by_cases hin : inCols mn mx k = true
    · have hany := h3 k (by simp) hin
      simp only [hany, if_true]
      rw [ih acc hft (fun x hx => h2 x (List.mem_cons_of_mem _ hx)) (fun x hx => h3 x (List.mem_cons_of_mem _ hx))]
      simp [List.filter_cons, hin]
    · have hany : acc.any (fun c => c.max == k.min && c.min == k.min) = false := by
        cases hq : acc.any (fun c => c.max == k.min && c.min == k.min) with
        | false => rfl
        | true =>
          rw [List.any_eq_true] at hq
          obtain ⟨a, ha, hp⟩ := hq
          simp at hp
          exact absurd (h2 k (by simp) a ha hp) hin
      simp only [hany, Bool.false_eq_true, if_false]
      rw [ih (acc ++ [k]) hft ?_ ?_]
      · have : inCols mn mx k = false := by simpa using hin
        simp [List.filter_cons, this]
      · intro x hx a ha hp
        rcases List.mem_append.mp ha with ha | ha
        · exact h2 x (List.mem_cons_of_mem _ hx) a ha hp
        · simp at ha; subst ha
          exact absurd hp.2 (hpw.1 x hx)
      · intro x hx hxin
        have := h3 x (List.mem_cons_of_mem _ hx) hxin
        rw [List.any_append, this]; rfl

def newCols (mn mx sid : Nat) : List Col := (List.range (mx + 1 - mn)).map fun k => ⟨mn + k, mn + k, sid⟩

theorem mem_newCols {mn mx sid : Nat} {a : Col} (h : a ∈ newCols mn mx sid) :
    a.max = a.min ∧ mn ≤ a.min ∧ a.min ≤ mx ∧ a.style = sid := by
  unfold newCols at h
  rw [List.mem_map] at h
  obtain ⟨j, hj, he⟩ := h
  rw [List.mem_range] at hj
  subst he
  simp; omega

theorem flatCols_eq (mn mx sid : Nat) (old : List Col) (hf : FlatUnique old) :
    flatCols mn mx sid old = newCols mn mx sid ++ old.filter (fun k => !inCols mn mx k) := by
  have : flatCols mn mx sid old = old.foldl flatStep (newCols mn mx sid) := rfl
  rw [this]
  apply flat_fold mn mx old _ hf
  · intro k _ a ha hp
    obtain ⟨_, h1, h2, _⟩ := mem_newCols ha
    unfold inCols; simp; omega
  · intro k _ hin
    unfold inCols at hin
    simp at hin
    rw [List.any_eq_true]
    refine ⟨⟨k.min, k.min, sid⟩, ?_, by simp⟩
    unfold newCols
    rw [List.mem_map]
    exact ⟨k.min - mn, List.mem_range.mpr (by omega), by simp; omega⟩

def colOf (cols : List Col) (c : Nat) : Nat :=
  match cols.find? (fun k => k.min ≤ c && c ≤ k.max && k.style != 0) with
  | some k => k.style
  | none => 0

theorem colS_eq_colOf (g : Grid) (c : Nat) : colS g c = colOf g.cols c := rfl

theorem find?_filter_irrel {α} (p q : α → Bool) (l : List α) (h : ∀ k ∈ l, q k = false → p k = false) :
    (l.filter q).find? p = l.find? p := by
  induction l with
  | nil => rfl
  | cons x t ih =>
    have iht := ih (fun k hk => h k (List.mem_cons_of_mem _ hk))
    by_cases hq : q x = true
    · simp only [List.filter_cons, hq, if_true, List.find?_cons, iht]
    · have hq' : q x = false := by simpa using hq
      have hp := h x (by simp) hq'
      simp only [List.filter_cons, hq', Bool.false_eq_true, if_false, List.find?_cons, hp, iht]

/-- `flatCols` on a flat list: the new range reports `sid`, every other column what it reported -/
theorem colOf_flatCols (mn mx sid : Nat) (old : List Col) (hf : FlatUnique old) (c : Nat) :
    colOf (flatCols mn mx sid old) c = if mn ≤ c ∧ c ≤ mx then sid else colOf old c := by
  rw [flatCols_eq mn mx sid old hf]
  unfold colOf
  rw [List.find?_append]
  by_cases hin : mn ≤ c ∧ c ≤ mx
  · simp only [hin, and_self, if_true]
    by_cases hs : sid = 0
    · -- nothing with a non-zero style covers c
      have h1 : (newCols mn mx sid).find? (fun k => k.min ≤ c && c ≤ k.max && k.style != 0) = none := by
        rw [List.find?_eq_none]; intro a ha
        obtain ⟨_, _, _, hst⟩ := mem_newCols ha
        simp [hst, hs]
      have h2 : (old.filter (fun k => !inCols mn mx k)).find? (fun k => k.min ≤ c && c ≤ k.max && k.style != 0) = none := by
        rw [List.find?_eq_none]; intro a ha
        rw [List.mem_filter] at ha
        have hfl := hf.1 a ha.1
        have hout := ha.2
        unfold inCols at hout
        simp at hout ⊢
        intro x y; omega
      rw [h1, h2]; simp [hs]
    · cases hq : (newCols mn mx sid).find? (fun k => k.min ≤ c && c ≤ k.max && k.style != 0) with
      | some a =>
        have := mem_newCols (List.mem_of_find?_eq_some hq)
        simp [this.2.2.2]
      | none =>
        exfalso
        rw [List.find?_eq_none] at hq
        have hm : (⟨c, c, sid⟩ : Col) ∈ newCols mn mx sid := by
          unfold newCols; rw [List.mem_map]
          exact ⟨c - mn, List.mem_range.mpr (by omega), by simp; omega⟩
        have := hq _ hm
        simp [hs] at this
  · simp only [hin, if_false]
    have h1 : (newCols mn mx sid).find? (fun k => k.min ≤ c && c ≤ k.max && k.style != 0) = none := by
      rw [List.find?_eq_none]; intro a ha
      obtain ⟨hfl, h1, h2, _⟩ := mem_newCols ha
      simp; intro x y; omega
    rw [h1, Option.none_or]
    rw [find?_filter_irrel]
    intro k hk hq
    have hfl := hf.1 k hk
    unfold inCols at hq
    simp at hq ⊢
    intro x y; omega

theorem flatUnique_flatCols (mn mx sid : Nat) (old : List Col) (hf : FlatUnique old) :
    FlatUnique (flatCols mn mx sid old) := by
  rw [flatCols_eq mn mx sid old hf]
  constructor
  · intro k hk
    rcases List.mem_append.mp hk with h | h
    · exact (mem_newCols h).1
    · exact hf.1 k (List.mem_filter.mp h).1
  · rw [List.pairwise_append]
    refine ⟨?_, hf.2.sublist List.filter_sublist, ?_⟩
    · unfold newCols
      rw [List.pairwise_map]
      exact List.Pairwise.imp (fun h => by simp; omega) List.pairwise_lt_range
    · intro a ha b hb
      obtain ⟨_, h1, h2, _⟩ := mem_newCols ha
      have := (List.mem_filter.mp hb).2
      unfold inCols at this
      simp at this
      omega

/-! ### the refinement relation and its preservation -/

/-- the stored grid `g` refines the Spec levels `l`: same row and column levels, same resolution at
every position (explicit cell levels may differ where a row / column assignment met cells that do not
exist), and the column list is flat -/
structure Refines (g : Grid) (l : Spec.Levels) : Prop where
  row : ∀ r, 1 ≤ r → rowS g r = l.row r
  col : ∀ c, colS g c = l.col c
  res : ∀ c r, 1 ≤ c → 1 ≤ r → Spec.resolve (levelsOf g) c r = Spec.resolve l c r
  flat : FlatUnique g.cols

theorem resolve_levelsOf (g : Grid) (c r : Nat) :
    Spec.resolve (levelsOf g) c r =
      if cellS g c r ≠ 0 then cellS g c r else if rowS g r ≠ 0 then rowS g r else colS g c := rfl

theorem refines_empty : Refines Grid.empty Spec.Levels.empty :=
  ⟨fun r _ => by simp [rowS, Grid.empty, Spec.Levels.empty], fun c => by simp [colS, Grid.empty, Spec.Levels.empty],
   fun c r _ _ => by simp [Spec.resolve, levelsOf, cellS, rowS, colS, Grid.empty, Spec.Levels.empty],
   ⟨fun k hk => by simp [Grid.empty] at hk, by simp [Grid.empty]⟩⟩

theorem setCell_refines {g : Grid} {l : Spec.Levels} (h : Refines g l) (hc hr vc vr sid : Nat)
    (h0 : 1 ≤ hc) (h1 : 1 ≤ hr) :
    Refines (setRectGrown g hc hr vc vr sid) (Spec.setCell l hc hr vc vr sid) := by
  obtain ⟨a1, a2, a3⟩ := setRectGrown_levels g hc hr vc vr sid h1 h0
  have hcol : ∀ c, colS (setRectGrown g hc hr vc vr sid) c = colS g c := fun c => by
    rw [colS_eq_colOf, colS_eq_colOf, a3]
  refine ⟨fun r hr1 => by rw [a2]; exact h.row r hr1, fun c => by rw [hcol]; exact h.col c, fun c r hc1 hr1 => ?_,
    by rw [a3]; exact h.flat⟩
  have hres := h.res c r hc1 hr1
  rw [resolve_levelsOf] at hres ⊢
  rw [a1 c r hc1 hr1, a2, hcol]
  unfold Spec.resolve Spec.setCell at *
  by_cases hin : Spec.inRect hc hr vc vr c r
  · simp only [hin, if_true, h.row r hr1, h.col c]
  · simp only [hin, if_false]; exact hres

theorem setRow_refines {g : Grid} {l : Spec.Levels} (h : Refines g l) (s e sid : Nat) (h1 : 1 ≤ s) (h2 : s ≤ e) :
    Refines (setRowGrid g s e sid) (Spec.setRow l s e sid) := by
  obtain ⟨a1, a2, a3, a4⟩ := setRowGrid_levels g s e sid h1 h2
  have hcol : ∀ c, colS (setRowGrid g s e sid) c = colS g c := fun c => by
    rw [colS_eq_colOf, colS_eq_colOf, a4]
  refine ⟨fun r hr1 => ?_, fun c => by rw [hcol]; exact h.col c, fun c r hc1 hr1 => ?_, by rw [a4]; exact h.flat⟩
  · rw [a1 r hr1]; unfold Spec.setRow; simp only
    split
    · rfl
    · exact h.row r hr1
  · have hres := h.res c r hc1 hr1
    rw [resolve_levelsOf] at hres ⊢
    rw [a1 r hr1, hcol]
    unfold Spec.resolve Spec.setRow at *
    by_cases hin : s ≤ r ∧ r ≤ e
    · simp only [hin, and_self, if_true, h.col c]
      rcases a2 c r hc1 hr1 hin with hv | hv <;> rw [hv] <;> by_cases hs : sid = 0 <;> simp [hs]
    · simp only [hin, if_false]
      rw [a3 c r hc1 hr1 hin]; exact hres

theorem prepare_levels (g : Grid) (col row c r : Nat) :
    cellS (prepareSheetXML g col row) c r = cellS g c r ∧ rowS (prepareSheetXML g col row) r = rowS g r := by
  rw [cellS_eq, cellS_eq, rowS_eq, rowS_eq, (prepare_get g col row (r - 1)).1, (prepare_get g col row (r - 1)).2]
  exact ⟨rfl, rfl⟩

theorem write_refines {g : Grid} {l : Spec.Levels} (h : Refines g l) (c r : Nat) (hc : 1 ≤ c) (hr : 1 ≤ r) :
    Refines (writeCell g c r) (Spec.write l c r) := by
  obtain ⟨a1, a2, a3⟩ := writeCell_levels g c r hc hr
  have hcol : ∀ c', colS (writeCell g c r) c' = colS g c' := fun c' => by
    rw [colS_eq_colOf, colS_eq_colOf, a3]
  have hval : writeVal g c r = Spec.resolve l c r := by
    unfold writeVal
    rw [prepareCellStyle_eq_resolve _ c r hr, resolve_levelsOf, (prepare_levels g c r c r).1, (prepare_levels g c r c r).2]
    have : colS (prepareSheetXML g c r) c = colS g c := rfl
    rw [this, ← resolve_levelsOf]
    exact h.res c r hc hr
  refine ⟨fun r' hr1 => by rw [a2]; exact h.row r' hr1, fun c' => by rw [hcol]; exact h.col c',
    fun c' r' hc1 hr1 => ?_, by rw [a3]; exact h.flat⟩
  have hres := h.res c' r' hc1 hr1
  rw [resolve_levelsOf] at hres ⊢
  rw [a1 c' r' hc1 hr1, a2, hcol, hval]
  by_cases heq : c' = c ∧ r' = r
  · obtain ⟨e1, e2⟩ := heq; subst e1; subst e2
    simp only [and_self, if_true]
    have hw : Spec.resolve (Spec.write l c' r') c' r' =
        if Spec.resolve l c' r' ≠ 0 then Spec.resolve l c' r' else if l.row r' ≠ 0 then l.row r' else l.col c' := by
      show (if (if c' = c' ∧ r' = r' then Spec.resolve l c' r' else l.cell c' r') ≠ 0 then
          (if c' = c' ∧ r' = r' then Spec.resolve l c' r' else l.cell c' r') else if l.row r' ≠ 0 then l.row r' else l.col c') = _
      simp only [and_self, if_true]
    rw [hw, h.row r' hr1, h.col c']
  · simp only [heq, if_false]
    have hw : Spec.resolve (Spec.write l c r) c' r' = Spec.resolve l c' r' := by
      show (if (if c' = c ∧ r' = r then Spec.resolve l c r else l.cell c' r') ≠ 0 then
          (if c' = c ∧ r' = r then Spec.resolve l c r else l.cell c' r') else if l.row r' ≠ 0 then l.row r' else l.col c') = _
      simp only [heq, if_false]; rfl
    rw [hw]; exact hres

/-- the grid after a successful SetColStyle on columns `mn..mx`: `flatCols` on the column list, then
the cells of the rows that exist -/
def setColGrid (g : Grid) (mn mx sid : Nat) : Grid :=
  colFill { g with cols := flatCols mn mx sid g.cols } ((List.range (mx + 1 - mn)).map (mn + ·)) g.rows.length sid

theorem beyond_rows (g : Grid) (c r : Nat) (h : g.rows.length < r) : cellS g c r = 0 ∧ rowS g r = 0 := by
  have : g.rows[r - 1]? = none := List.getElem?_eq_none (by omega)
  rw [cellS_eq, rowS_eq, this]; exact ⟨rfl, rfl⟩

theorem setCol_refines {g : Grid} {l : Spec.Levels} (h : Refines g l) (mn mx sid : Nat) (h1 : 1 ≤ mn) (h2 : mn ≤ mx) :
    Refines (setColGrid g mn mx sid) (Spec.setCol l mn mx sid) := by
  have hL : ∀ c ∈ (List.range (mx + 1 - mn)).map (mn + ·), 1 ≤ c := by
    intro c hc; rw [List.mem_map] at hc; obtain ⟨j, _, he⟩ := hc; omega
  have hmem : ∀ c, c ∈ (List.range (mx + 1 - mn)).map (mn + ·) ↔ (mn ≤ c ∧ c ≤ mx) := by
    intro c; rw [List.mem_map]
    constructor
    · rintro ⟨j, hj, he⟩; rw [List.mem_range] at hj; omega
    · intro hc; exact ⟨c - mn, List.mem_range.mpr (by omega), by omega⟩
  obtain ⟨a1, a2, a3⟩ := colFill_levels _ g.rows.length sid hL { g with cols := flatCols mn mx sid g.cols }
  have hcol : ∀ c, colS (setColGrid g mn mx sid) c = if mn ≤ c ∧ c ≤ mx then sid else colS g c := fun c => by
    unfold setColGrid
    rw [colS_eq_colOf, a3]
    exact colOf_flatCols mn mx sid g.cols h.flat c
  have hcell : ∀ c r, 1 ≤ c → 1 ≤ r → cellS (setColGrid g mn mx sid) c r =
      if (mn ≤ c ∧ c ≤ mx) ∧ r ≤ g.rows.length then sid else cellS g c r := fun c r hc hr => by
    unfold setColGrid
    rw [a1 c r hc hr]
    simp only [hmem]
    rfl
  have hrow : ∀ r, rowS (setColGrid g mn mx sid) r = rowS g r := fun r => by
    unfold setColGrid; rw [a2]; rfl
  refine ⟨fun r hr1 => by rw [hrow]; exact h.row r hr1, fun c => ?_, fun c r hc1 hr1 => ?_,
    by unfold setColGrid; rw [a3]; exact flatUnique_flatCols mn mx sid g.cols h.flat⟩
  · rw [hcol]; unfold Spec.setCol; simp only
    split
    · rfl
    · exact h.col c
  · have hres := h.res c r hc1 hr1
    rw [resolve_levelsOf] at hres ⊢
    rw [hcell c r hc1 hr1, hrow, hcol]
    have hw : Spec.resolve (Spec.setCol l mn mx sid) c r =
        if (if mn ≤ c ∧ c ≤ mx then sid else l.cell c r) ≠ 0 then (if mn ≤ c ∧ c ≤ mx then sid else l.cell c r)
        else if l.row r ≠ 0 then l.row r else (if mn ≤ c ∧ c ≤ mx then sid else l.col c) := rfl
    rw [hw]
    by_cases hin : mn ≤ c ∧ c ≤ mx
    · simp only [hin, and_self, if_true, true_and]
      by_cases hr : r ≤ g.rows.length
      · simp only [hr, if_true, h.row r hr1]
      · obtain ⟨z1, z2⟩ := beyond_rows g c r (by omega)
        have zr : l.row r = 0 := by rw [← h.row r hr1]; exact z2
        simp only [hr, if_false, z1, z2, zr, ne_eq, not_true_eq_false]
        by_cases hs : sid = 0 <;> simp [hs]
    · simp only [hin, false_and, if_false]
      exact hres

theorem setCol_refines_norows {g : Grid} {l : Spec.Levels} (h : Refines g l) (mn mx sid : Nat) (h2 : mn ≤ mx)
    (h0 : g.rows.length = 0) :
    Refines { g with cols := flatCols mn mx sid g.cols } (Spec.setCol l mn mx sid) := by
  have hcol : ∀ c, colS { g with cols := flatCols mn mx sid g.cols } c = if mn ≤ c ∧ c ≤ mx then sid else colS g c :=
    fun c => colOf_flatCols mn mx sid g.cols h.flat c
  refine ⟨fun r hr1 => h.row r hr1, fun c => ?_, fun c r hc1 hr1 => ?_, flatUnique_flatCols mn mx sid g.cols h.flat⟩
  · rw [hcol]; unfold Spec.setCol; simp only
    split
    · rfl
    · exact h.col c
  · have hres := h.res c r hc1 hr1
    rw [resolve_levelsOf] at hres ⊢
    obtain ⟨z1, z2⟩ := beyond_rows g c r (by omega)
    have e1 : cellS { g with cols := flatCols mn mx sid g.cols } c r = cellS g c r := rfl
    have e2 : rowS { g with cols := flatCols mn mx sid g.cols } r = rowS g r := rfl
    rw [e1, e2, hcol]
    have hw : Spec.resolve (Spec.setCol l mn mx sid) c r =
        if (if mn ≤ c ∧ c ≤ mx then sid else l.cell c r) ≠ 0 then (if mn ≤ c ∧ c ≤ mx then sid else l.cell c r)
        else if l.row r ≠ 0 then l.row r else (if mn ≤ c ∧ c ≤ mx then sid else l.col c) := rfl
    rw [hw]
    by_cases hin : mn ≤ c ∧ c ≤ mx
    · have zr : l.row r = 0 := by rw [← h.row r hr1]; exact z2
      simp only [hin, and_self, if_true, z1, z2, zr, ne_eq, not_true_eq_false, if_false]
      by_cases hs : sid = 0 <;> simp [hs]
    · simp only [hin, if_false]; exact hres

/-! ### the grid functions are what the Impl setters return -/

theorem setCellStyle_ok (reg : Reg) (g : Grid) (hc hr vc vr : Nat) (sid : Int) (hv : validId reg sid = true)
    (h1 : hc ≤ vc) (h2 : hr ≤ vr) :
    setCellStyle reg g hc hr vc vr sid = (setRectGrown g hc hr vc vr sid.toNat, .ok ()) := by
  unfold setCellStyle setRectGrown grow
  have e1 : ¬ (vc < hc) := by omega
  have e2 : ¬ (vr < hr) := by omega
  simp [e1, e2, hv]

theorem setRowStyle_ok (reg : Reg) (g : Grid) (s e : Nat) (sid : Int) (hv : validId reg sid = true)
    (h1 : 1 ≤ s) (h2 : s ≤ e) (h3 : e ≤ Facts.TotalRows) :
    setRowStyle reg g (s : Int) (e : Int) sid = (setRowGrid g s e sid.toNat, .ok ()) := by
  unfold setRowStyle setRowGrid
  have e1 : ¬ ((e : Int) < (s : Int)) := by omega
  have e2 : ¬ ((s : Int) < 1) := by omega
  have e3 : ¬ ((e : Int) > (Facts.TotalRows : Int)) := by omega
  simp [e1, e2, e3, hv]

theorem setColStyle_ok (reg : Reg) (g : Grid) (mn mx : Nat) (sid : Int) (hv : validId reg sid = true) (h2 : mn ≤ mx) :
    setColStyle reg g mn mx sid =
      (if g.rows.length > 0 then setColGrid g mn mx sid.toNat else { g with cols := flatCols mn mx sid.toNat g.cols }, .ok ()) := by
  unfold setColStyle
  simp only [hv, Bool.not_true, Bool.false_eq_true, if_false]
  by_cases hr : g.rows.length > 0
  · simp only [hr, if_true]
    have hf : (fun (acc : Grid) (k : Nat) => (setCellStyle reg acc (mn + k) 1 (mn + k) g.rows.length sid).1) =
        (fun acc k => setRectGrown acc (mn + k) 1 (mn + k) g.rows.length sid.toNat) := by
      funext acc k
      rw [setCellStyle_ok reg acc (mn + k) 1 (mn + k) _ sid hv (Nat.le_refl _) (by omega)]
    unfold setColGrid colFill
    rw [List.foldl_map]
    simp only [hf]
  · simp only [hr, if_false]

/-! ### `<cols>` with ranges (worksheets opened from files) -/

/-- no two entries of the column list cover a common column (what the file format requires) -/
def ColsDisjoint (cols : List Col) : Prop := cols.Pairwise (fun a b => a.max < b.min ∨ b.max < a.min)

def covers (k : Col) (c : Nat) : Prop := k.min ≤ c ∧ c ≤ k.max

theorem getColStyle_fold_nocover (c : Nat) (t : List Col) (acc : Nat) (h : ∀ k ∈ t, ¬ covers k c) :
    t.foldl (fun acc k => if k.min ≤ c ∧ c ≤ k.max then k.style else acc) acc = acc := by
  induction t generalizing acc with
  | nil => rfl
  | cons x u ih =>
    simp only [List.foldl_cons]
    have hx : ¬ (x.min ≤ c ∧ c ≤ x.max) := h x (by simp)
    simp only [hx, if_false]
    exact ih acc (fun k hk => h k (List.mem_cons_of_mem _ hk))

theorem colOf_nocover (c : Nat) (t : List Col) (h : ∀ k ∈ t, ¬ covers k c) : colOf t c = 0 := by
  unfold colOf
  have : t.find? (fun k => k.min ≤ c && c ≤ k.max && k.style != 0) = none := by
    rw [List.find?_eq_none]; intro k hk
    have := h k hk
    unfold covers at this
    simp; intro a b; exact absurd ⟨a, b⟩ this
  rw [this]

/-- the resolution rule on range entries: `prepareCellStyle` takes the FIRST covering entry with a
non-zero style, `GetColStyle` the LAST covering entry; on a list without overlaps both are the style
of the one entry that covers the column (0 if none) -/
theorem cols_disjoint_agree_aux (c : Nat) (l : List Col) (h : ColsDisjoint l) (acc : Nat) :
    l.foldl (fun acc k => if k.min ≤ c ∧ c ≤ k.max then k.style else acc) acc =
      if l.any (fun k => decide (k.min ≤ c) && decide (c ≤ k.max)) then colOf l c else acc := by
  induction l generalizing acc with
  | nil => simp
  | cons x t ih =>
    unfold ColsDisjoint at h
    rw [List.pairwise_cons] at h
    simp only [List.foldl_cons, List.any_cons]
    by_cases hx : x.min ≤ c ∧ c ≤ x.max
    · have hno : ∀ k ∈ t, ¬ covers k c := by
        intro k hk hc
        have := h.1 k hk
        unfold covers at hc
        omega
      have hd : (decide (x.min ≤ c) && decide (c ≤ x.max)) = true := by simp [hx.1, hx.2]
      simp only [hx, and_self, if_true, hd, Bool.true_or]
      rw [getColStyle_fold_nocover c t _ hno]
      unfold colOf
      simp only [List.find?_cons]
      by_cases hs : x.style = 0
      · have := colOf_nocover c t hno
        unfold colOf at this
        simp [hx, hs, this]
      · have hp : (decide (x.min ≤ c) && decide (c ≤ x.max) && x.style != 0) = true := by
          simp [hx.1, hx.2, hs]
        simp only [hp, if_true]
        simp
    · have hd : (decide (x.min ≤ c) && decide (c ≤ x.max)) = false := by
        simp; intro a; omega
      simp only [hx, if_false, hd, Bool.false_or]
      rw [ih h.2 acc]
      have hcol : colOf (x :: t) c = colOf t c := by
        unfold colOf
        simp only [List.find?_cons]
        have : (decide (x.min ≤ c) && decide (c ≤ x.max) && x.style != 0) = false := by
          rw [hd]; rfl
        simp [this]
      rw [hcol]

theorem cols_disjoint_agree (g : Grid) (h : ColsDisjoint g.cols) (c : Nat) : getColStyle g c = colS g c := by
  unfold getColStyle
  rw [cols_disjoint_agree_aux c g.cols h 0, colS_eq_colOf]
  by_cases hex : g.cols.any (fun k => decide (k.min ≤ c) && decide (c ≤ k.max)) = true
  · simp only [hex, if_true]
  · simp only [hex, if_false]
    have : ∀ k ∈ g.cols, ¬ covers k c := by
      intro k hk hc
      apply hex
      rw [List.any_eq_true]
      exact ⟨k, hk, by unfold covers at hc; simp [hc.1, hc.2]⟩
    rw [colOf_nocover c g.cols this]
    simp

end XlModel.Styles
