import XlModel.Styles
import XlModel.Lemmas.Styles
/-!
Idempotence of `NewStyle` for regular definitions: after a definition has been registered, its
lookup (`getStyleID`) on the extended registry finds exactly the id that was issued.
-/
namespace XlModel.Styles
open Impl

/-! ### the keys `getStyleID` looks up -/

/-- the number-format key of `getStyleID` (custom formats by code, otherwise `getNumFmtID`) -/
def numKey (r : Reg) (s : Style) : Int :=
  match s.customNumFmt with
  | some c => (match getCustomNumFmtID r c with | some n => (n : Int) | none => -1)
  | none => getNumFmtID r s

theorem getStyleID_eq (r : Reg) (s : Style) :
    getStyleID r s =
      match getFontID r s with
      | .error e => .error e
      | .ok (fontID, s') =>
        .ok (r.xfs.findIdx? (xfMatches (numKey r s) fontID (getFillID r s) (getBorderID r s) s'), s') := by
  unfold getStyleID numKey
  cases getFontID r s with
  | error e => rfl
  | ok p => obtain ⟨a, b⟩ := p; cases s.customNumFmt <;> rfl

/-- the xf predicates read only these parts of a style -/
structure SameShape (s s' : Style) : Prop where
  custom : s'.customNumFmt = s.customNumFmt
  negRed : s'.negRed = s.negRed
  dp : s'.decimalPlaces = s.decimalPlaces
  font : s'.font.isNone = s.font.isNone
  fill : s'.fill = s.fill
  border : s'.border = s.border
  alignment : s'.alignment = s.alignment
  protection : s'.protection = s.protection
  numFmt : s'.numFmt = s.numFmt

theorem xfMatches_shape {s s' : Style} (h : SameShape s s') (k : Int) (f l b : Option Nat) (xf : Xf) :
    xfMatches k f l b s' xf = xfMatches k f l b s xf := by
  unfold xfMatches xfNumFmt xfFont xfFill xfBorder xfAlignment xfProtection
  rw [h.custom, h.font, h.fill, h.border, h.alignment, h.protection]

/-! ### registry congruences -/

theorem numKey_congr {r r' : Reg} (h : r'.numFmts = r.numFmts) (s : Style) : numKey r' s = numKey r s := by
  unfold numKey getCustomNumFmtID getNumFmtID
  rw [numFmtList_congr h]

/-- the font record `newFont` builds (default family from `fonts[0]`) -/
def fontRec (r : Reg) (f : Font) : XFont :=
  let f' := fixSize f
  { b := f'.bold, i := f'.italic, strike := f'.strike,
    u := if Facts.C17.underlineTypes.contains f'.underline then some f'.underline else none,
    sz := f'.size, color := newFontColor f',
    name := if f'.family = [] then (match r.fonts with | d :: _ => d.name | [] => []) else f'.family,
    family := 2 }

theorem newFont_eq {r : Reg} (hne : r.fonts ≠ []) (f : Font) : newFont r f = .ok (fontRec r f, fixSize f) := by
  unfold newFont fontRec
  cases hf : r.fonts with
  | nil => exact absurd hf hne
  | cons d t => simp only; split <;> rfl

theorem fixSize_idem (f : Font) : fixSize (fixSize f) = fixSize f := by
  have hc : ¬ (defaultSizeQ < minSizeQ) := by decide
  unfold fixSize
  split
  · simp only [hc, if_false]
  · rename_i h; simp only [h, if_false]

theorem fontRec_fix (r : Reg) (f : Font) : fontRec r (fixSize f) = fontRec r f := by
  unfold fontRec; rw [fixSize_idem]

theorem fontRec_congr {r r' : Reg} (h : ∃ e, r'.fonts = r.fonts ++ e) (hne : r.fonts ≠ []) (f : Font) :
    fontRec r' f = fontRec r f := by
  obtain ⟨e, he⟩ := h
  unfold fontRec
  cases hf : r.fonts with
  | nil => exact absurd hf hne
  | cons d t => rw [he, hf]; rfl

theorem getFontID_some {r : Reg} (hne : r.fonts ≠ []) {s : Style} {f : Font} (hf : s.font = some f) :
    getFontID r s = .ok (r.fonts.findIdx? (· == fontRec r f), { s with font := some (fixSize f) }) := by
  unfold getFontID
  rw [hf]
  simp only [hne, if_false, newFont_eq hne]

theorem getFontID_none {r : Reg} {s : Style} (hf : s.font = none) : getFontID r s = .ok (none, s) := by
  unfold getFontID; rw [hf]

/-- lookup in a list extended by one element -/
theorem findIdx?_snoc {α} (p : α → Bool) (l : List α) (x : α) :
    (l ++ [x]).findIdx? p =
      match l.findIdx? p with
      | some i => some i
      | none => if p x then some l.length else none := by
  induction l with
  | nil => simp [List.findIdx?_cons]
  | cons a t ih =>
    simp only [List.cons_append, List.findIdx?_cons]
    by_cases hp : p a
    · simp [hp]
    · simp only [hp, Bool.false_eq_true, if_false, ih]
      cases t.findIdx? p with
      | some i => rfl
      | none => simp only [Option.map_none]; split <;> simp

theorem findIdx?_append_left_some {α} (p : α → Bool) (l e : List α) {i : Nat} (h : l.findIdx? p = some i) :
    (l ++ e).findIdx? p = some i := by
  induction l generalizing i with
  | nil => simp at h
  | cons a t ih =>
    simp only [List.cons_append, List.findIdx?_cons] at h ⊢
    by_cases hp : p a
    · simp [hp] at h ⊢; exact h
    · simp only [hp, Bool.false_eq_true, if_false] at h ⊢
      cases ht : t.findIdx? p with
      | none => rw [ht] at h; simp at h
      | some j => rw [ht] at h; rw [ih ht]; exact h

/-! ### number formats -/

theorem dropPrefix?_some {p s rest : Str} (h : dropPrefix? p s = some rest) : s = p ++ rest := by
  induction p generalizing s with
  | nil => simp [dropPrefix?] at h; simp [h]
  | cons a t ih =>
    cases s with
    | nil => simp [dropPrefix?] at h
    | cons c cs =>
      simp only [dropPrefix?] at h
      split at h
      · rename_i hac; subst hac; rw [ih h]; rfl
      · simp at h

theorem replaceAllFuel_self (p : Str) (n : Nat) (s : Str) : replaceAllFuel p p n s = s := by
  induction n generalizing s with
  | zero => rfl
  | succ k ih =>
    cases s with
    | nil => rfl
    | cons c cs =>
      simp only [replaceAllFuel]
      split
      · rename_i rest h; rw [ih, ← dropPrefix?_some h]
      · rw [ih]

theorem replaceAll_self (p s : Str) : replaceAll p p s = s := by
  unfold replaceAll; split
  · rfl
  · exact replaceAllFuel_self _ _ _

theorem currency_keys_large : ∀ p ∈ Facts.C17.currencyNumFmt, 164 ≤ p.1 := by decide +kernel

theorem ranges_small : ∀ p ∈ Facts.C17.getNumFmtRanges, p.2 ≤ 163 := by decide

theorem currency_none_of_ranges {id : Int} (h : inRanges id Facts.C17.getNumFmtRanges = true) : currency id = none := by
  unfold inRanges at h
  rw [List.any_eq_true] at h
  obtain ⟨⟨lo, hi⟩, hm, hc⟩ := h
  have h1 := ranges_small _ hm
  cases hq : currency id with
  | none => rfl
  | some v =>
    have := currency_keys_large _ (lookupI_mem hq)
    simp at hc h1 this; omega

theorem ranges_eq_lang (id : Int) : inRanges id Facts.C17.getNumFmtRanges = isLangNumFmt id := by
  unfold isLangNumFmt
  have : Facts.C17.getNumFmtRanges = Facts.C17.langRanges := by decide
  rw [this]

theorem ranges_nonneg {id : Int} (h : inRanges id Facts.C17.getNumFmtRanges = true) : 0 ≤ id := by
  have hh : ∀ p ∈ Facts.C17.getNumFmtRanges, 0 ≤ p.1 := by decide
  unfold inRanges at h
  rw [List.any_eq_true] at h
  obtain ⟨⟨lo, hi⟩, hm, hc⟩ := h
  have := hh _ hm
  simp at hc this; omega

theorem builtIn_nonneg {id : Int} (h : (builtIn id).isSome) : 0 ≤ id := by
  unfold builtIn at h
  cases hh : lookupI id Facts.C17.builtInNumFmt with
  | none => rw [hh] at h; simp at h
  | some v =>
    have := builtIn_keys_small _ (lookupI_mem hh)
    simp at this; omega

/-- what the number-format step guarantees for the lookup on the extended registry -/
structure NumStep (r r1 : Reg) (s : Style) (n : Nat) : Prop where
  fonts : r1.fonts = r.fonts
  fills : r1.fills = r.fills
  borders : r1.borders = r.borders
  xfs : r1.xfs = r.xfs
  /-- the xf that stores `n` is accepted by the lookup on `r1` -/
  hit : ∀ xf : Xf, xf.numFmtId = some n → xfNumFmt (numKey r1 s) xf s = true
  /-- an xf of `r` accepted on `r1` was accepted on `r` -/
  old : ∀ xf : Xf, (∀ k, xf.numFmtId = some k → k ≤ topId r) →
    xfNumFmt (numKey r1 s) xf s = true → xfNumFmt (numKey r s) xf s = true

theorem xfNumFmt_hit_of_key {s : Style} {n : Nat} {xf : Xf} (hx : xf.numFmtId = some n) :
    xfNumFmt (n : Int) xf s = true := by
  have h1 : ¬ (s.customNumFmt.isNone = true ∧ (n : Int) = -1) := by omega
  have h3 : ¬ ((n : Int) < 0) := by omega
  unfold xfNumFmt
  rw [if_neg h1, if_neg h3, hx]; simp

theorem xfNumFmt_large_false {s : Style} {k : Int} {xf : Xf} {t : Nat} (hk : (t : Int) < k)
    (hx : ∀ m, xf.numFmtId = some m → m ≤ t) : xfNumFmt k xf s = false := by
  have h1 : ¬ (s.customNumFmt.isNone = true ∧ k = -1) := by omega
  have h3 : ¬ (k < 0) := by omega
  unfold xfNumFmt
  rw [if_neg h1, if_neg h3]
  cases hq : xf.numFmtId with
  | none => simp
  | some m => have := hx m hq; simp; omega

theorem newNumFmt_step {r r1 : Reg} {s : Style} {n : Nat} (w : WF r)
    (h : newNumFmt r s = .ok (r1, n)) : NumStep r r1 s n := by
  unfold newNumFmt at h
  cases hc : s.customNumFmt with
  | some c =>
    rw [hc] at h
    simp only at h
    cases hg : getCustomNumFmtID r c with
    | some id =>
      rw [hg] at h
      injection h with h; injection h with h1 h2; subst h1; subst h2
      have hk : numKey r s = (id : Int) := by unfold numKey; rw [hc]; simp [hg]
      exact ⟨rfl, rfl, rfl, rfl, fun xf hx => by rw [hk]; exact xfNumFmt_hit_of_key hx, fun _ _ h => h⟩
    | none =>
      rw [hg] at h
      simp only [setCustomNumFmt] at h
      injection h with h; injection h with h1 h2
      have hfind : (numFmtList r).find? (·.code == c) = none := by
        unfold getCustomNumFmtID at hg
        cases hq : (numFmtList r).find? (·.code == c) with
        | none => rfl
        | some v => rw [hq] at hg; simp at hg
      have hl : numFmtList r1 = numFmtList r ++ [⟨n, c⟩] := by rw [← h1, ← h2]; simp [numFmtList]
      have hk : numKey r1 s = (n : Int) := by
        unfold numKey getCustomNumFmtID
        rw [hc]; simp only
        rw [hl, List.find?_append, hfind]
        simp
      have htop : (topId r : Int) < (n : Int) := by
        have := topId_le_foldMax w
        rw [← h2]; omega
      refine ⟨by rw [← h1], by rw [← h1], by rw [← h1], by rw [← h1],
        fun xf hx => by rw [hk]; exact xfNumFmt_hit_of_key hx, fun xf hx hm => ?_⟩
      rw [hk, xfNumFmt_large_false htop hx] at hm
      exact absurd hm (by simp)
  | none =>
    rw [hc] at h
    simp only at h
    by_cases hb : (builtIn s.numFmt).isSome = true
    · simp only [hb, if_true] at h
      injection h with h; injection h with h1 h2; subst h1; subst h2
      have hk : numKey r s = ((s.numFmt.toNat : Nat) : Int) := by
        unfold numKey getNumFmtID; rw [hc]; simp only [hb, if_true]
        have := builtIn_nonneg hb; omega
      exact ⟨rfl, rfl, rfl, rfl, fun xf hx => by rw [hk]; exact xfNumFmt_hit_of_key hx, fun _ _ h => h⟩
    · have hb' : (builtIn s.numFmt).isSome = false := by simpa using hb
      simp only [hb', Bool.false_eq_true, if_false] at h
      by_cases hr : inRanges s.numFmt Facts.C17.getNumFmtRanges = true
      · rw [currency_none_of_ranges hr] at h
        simp only at h
        rw [← ranges_eq_lang, hr] at h
        simp only [if_true] at h
        injection h with h; injection h with h1 h2; subst h1; subst h2
        have hk : numKey r s = ((s.numFmt.toNat : Nat) : Int) := by
          unfold numKey getNumFmtID; rw [hc]; simp only [hb', Bool.false_eq_true, if_false, hr, if_true]
          have := ranges_nonneg hr; omega
        exact ⟨rfl, rfl, rfl, rfl, fun xf hx => by rw [hk]; exact xfNumFmt_hit_of_key hx, fun _ _ h => h⟩
      · have hr' : inRanges s.numFmt Facts.C17.getNumFmtRanges = false := by simpa using hr
        cases hcur : currency s.numFmt with
        | none =>
          rw [hcur] at h
          simp only at h
          rw [← ranges_eq_lang, hr'] at h
          simp only [Bool.false_eq_true, if_false] at h
          injection h with h; injection h with h1 h2; subst h1; subst h2
          have hk : numKey r s = -1 := by
            unfold numKey getNumFmtID; rw [hc]; simp only [hb', Bool.false_eq_true, if_false, hr', hcur]
          refine ⟨rfl, rfl, rfl, rfl, fun xf hx => ?_, fun _ _ h => h⟩
          rw [hk]; unfold xfNumFmt; simp [hc, hx]
        | some fc =>
          rw [hcur] at h
          simp only at h
          have keyOf : ∀ (r' : Reg), numKey r' s =
              (match (numFmtList r').find? (·.code == currencyCode fc s) with
               | some nf => (nf.id : Int) | none => Facts.C17.currencyUnregisteredId) := by
            intro r'
            unfold numKey getNumFmtID; rw [hc]
            simp only [hb', Bool.false_eq_true, if_false, hr', hcur]
            cases List.find? (fun x => x.code == currencyCode fc s) (numFmtList r') <;> rfl
          have key1 : ∀ {r1 : Reg} {n : Nat}, (numFmtList r).find? (·.code == currencyCode fc s) = none →
              numFmtList r1 = numFmtList r ++ [⟨n, currencyCode fc s⟩] → numKey r1 s = (n : Int) := by
            intro r1 n hfind hl
            rw [keyOf, hl, List.find?_append, hfind]; simp
          cases hnf : r.numFmts with
          | none =>
            rw [hnf] at h
            simp only at h
            injection h with h; injection h with h1 h2
            have hl0 : numFmtList r = [] := by simp [numFmtList, hnf]
            have hl : numFmtList r1 = numFmtList r ++ [⟨n, currencyCode fc s⟩] := by
              rw [← h1, ← h2, hl0]; simp [numFmtList]
            have hfind : (numFmtList r).find? (·.code == currencyCode fc s) = none := by rw [hl0]; rfl
            have ht : topId r = 163 := by simp [topId, hl0]
            have htop : (topId r : Int) < (n : Int) := by rw [ht, ← h2]; omega
            refine ⟨by rw [← h1], by rw [← h1], by rw [← h1], by rw [← h1],
              fun xf hx => by rw [key1 hfind hl]; exact xfNumFmt_hit_of_key hx, fun xf hx hm => ?_⟩
            rw [key1 hfind hl, xfNumFmt_large_false htop hx] at hm
            exact absurd hm (by simp)
          | some p =>
            obtain ⟨l, cnt⟩ := p
            rw [hnf] at h
            simp only at h
            have hl0 : numFmtList r = l := by simp [numFmtList, hnf]
            cases hf : l.find? (·.code == currencyCode fc s) with
            | some nf =>
              rw [hf] at h; simp only at h
              injection h with h; injection h with h1 h2; subst h1; subst h2
              have hk : numKey r s = (nf.id : Int) := by rw [keyOf, hl0, hf]
              exact ⟨rfl, rfl, rfl, rfl, fun xf hx => by rw [hk]; exact xfNumFmt_hit_of_key hx, fun _ _ h => h⟩
            | none =>
              rw [hf] at h
              cases hlast : l.getLast? with
              | none => rw [hlast] at h; simp at h
              | some last =>
                rw [hlast] at h
                simp only at h
                injection h with h; injection h with h1 h2
                have hl : numFmtList r1 = numFmtList r ++ [⟨n, currencyCode fc s⟩] := by
                  rw [← h1, ← h2, hl0]; simp [numFmtList]
                have hfind : (numFmtList r).find? (·.code == currencyCode fc s) = none := by rw [hl0]; exact hf
                have ht : topId r = last.id := by simp [topId, hl0, hlast]
                have htop : (topId r : Int) < (n : Int) := by rw [ht, ← h2]; omega
                refine ⟨by rw [← h1], by rw [← h1], by rw [← h1], by rw [← h1],
                  fun xf hx => by rw [key1 hfind hl]; exact xfNumFmt_hit_of_key hx, fun xf hx hm => ?_⟩
                rw [key1 hfind hl, xfNumFmt_large_false htop hx] at hm
                exact absurd hm (by simp)

/-! ### fonts, borders, fills -/

/-- a component step: the id handed to `setCellXfs` is what the lookup on the extended table finds,
and it is either the id the old table gave or the first index beyond the old table -/
def CompStep (old new_ : Option Nat) (i len : Nat) : Prop :=
  new_ = some i ∧ (old = some i ∨ (old = none ∧ i = len))

theorem lookup_snoc_step {α} (p : α → Bool) (l : List α) (x : α) (hp : p x = true)
    (hn : l.findIdx? p = none) : CompStep (l.findIdx? p) ((l ++ [x]).findIdx? p) l.length l.length := by
  refine ⟨?_, Or.inr ⟨hn, rfl⟩⟩
  rw [findIdx?_snoc, hn]; simp [hp]

theorem addFont_step {r r2 : Reg} {s s2 : Style} {i : Nat} (w : WF r) (h : addFont r s = .ok (r2, i, s2)) :
    r2.numFmts = r.numFmts ∧ r2.fills = r.fills ∧ r2.borders = r.borders ∧ r2.xfs = r.xfs ∧
    (∃ e, r2.fonts = r.fonts ++ e) ∧ SameShape s s2 ∧ (s.font = none → i = 0) ∧
    (∀ f, s.font = some f →
      CompStep (r.fonts.findIdx? (· == fontRec r f)) (r2.fonts.findIdx? (· == fontRec r f)) i r.fonts.length) := by
  have hne : r.fonts ≠ [] := by
    intro hh; have := w.fontsNe; rw [hh] at this; simp at this
  unfold addFont at h
  cases hf : s.font with
  | none =>
    rw [hf] at h
    injection h with h; injection h with h1 h2; injection h2 with h2 h3
    subst h1; subst h2; subst h3
    exact ⟨rfl, rfl, rfl, rfl, ⟨[], by simp⟩, ⟨rfl, rfl, rfl, rfl, rfl, rfl, rfl, rfl, rfl⟩, fun _ => rfl,
      fun f hf' => by cases hf'⟩
  | some f =>
    rw [hf] at h
    simp only at h
    rw [getFontID_some hne hf] at h
    have shape : SameShape s { s with font := some (fixSize f) } :=
      ⟨rfl, rfl, rfl, by simp [hf], rfl, rfl, rfl, rfl, rfl⟩
    cases hq : r.fonts.findIdx? (· == fontRec r f) with
    | some j =>
      rw [hq] at h
      injection h with h; injection h with h1 h2; injection h2 with h2 h3
      subst h1; subst h2; subst h3
      refine ⟨rfl, rfl, rfl, rfl, ⟨[], by simp⟩, shape, (fun hh => by cases hh), fun f' hf' => ?_⟩
      cases hf'
      exact ⟨hq, Or.inl hq⟩
    | none =>
      rw [hq] at h
      simp only [newFont_eq hne, fontRec_fix] at h
      injection h with h; injection h with h1 h2; injection h2 with h2 h3
      subst h1; subst h2; subst h3
      refine ⟨rfl, rfl, rfl, rfl, ⟨[fontRec r f], rfl⟩,
        ⟨rfl, rfl, rfl, by simp [hf], rfl, rfl, rfl, rfl, rfl⟩, (fun hh => by cases hh), fun f' hf' => ?_⟩
      cases hf'
      have := lookup_snoc_step (· == fontRec r f) r.fonts (fontRec r f) (by simp) hq
      simpa using this

theorem addBorder_step {r : Reg} (s : Style) (w : WF r) :
    (addBorder r s).1.numFmts = r.numFmts ∧ (addBorder r s).1.fills = r.fills ∧
    (addBorder r s).1.fonts = r.fonts ∧ (addBorder r s).1.xfs = r.xfs ∧
    (∃ e, (addBorder r s).1.borders = r.borders ++ e) ∧ (s.border = [] → (addBorder r s).2 = 0) ∧
    (s.border ≠ [] →
      CompStep (getBorderID r s) (getBorderID (addBorder r s).1 s) (addBorder r s).2 r.borders.length) := by
  cases hq : getBorderID r s with
  | some j =>
    have he : addBorder r s = (r, j) := by unfold addBorder; rw [hq]
    rw [he]
    refine ⟨rfl, rfl, rfl, rfl, ⟨[], by simp⟩, fun hb => ?_, fun _ => ⟨hq, Or.inl rfl⟩⟩
    unfold getBorderID at hq; simp [hb] at hq
  | none =>
    by_cases hb : s.border = []
    · have he : addBorder r s = (r, 0) := by unfold addBorder; rw [hq]; simp [hb]
      rw [he]
      exact ⟨rfl, rfl, rfl, rfl, ⟨[], by simp⟩, fun _ => rfl, fun h => absurd hb h⟩
    · have he : addBorder r s = ({ r with bordersCount := r.borders.length + 1, borders := r.borders ++ [newBorders s.border] },
          (r.borders.length + 1) - 1) := by unfold addBorder; rw [hq]; simp [hb]
      rw [he]
      refine ⟨rfl, rfl, rfl, rfl, ⟨[newBorders s.border], rfl⟩, fun h => absurd h hb, fun _ => ?_⟩
      unfold getBorderID at hq ⊢
      simp only [hb, if_false] at hq ⊢
      have := lookup_snoc_step (· == newBorders s.border) r.borders (newBorders s.border) (by simp) hq
      simpa [hq] using this

theorem newFills_nil {fl : Fill} (h : fl.typ = []) : newFills fl = none := by
  unfold newFills
  have h1 : ¬ (fl.typ = "gradient".toList) := by rw [h]; decide
  have h2 : ¬ (fl.typ = "pattern".toList) := by rw [h]; decide
  simp only [h1, h2, if_false]

theorem addFill_step {r : Reg} (s : Style) (w : WF r) :
    (addFill r s).1.numFmts = r.numFmts ∧ (addFill r s).1.borders = r.borders ∧
    (addFill r s).1.fonts = r.fonts ∧ (addFill r s).1.xfs = r.xfs ∧
    (∃ e, (addFill r s).1.fills = r.fills ++ e) ∧ (newFills s.fill = none → (addFill r s).2 = 0) ∧
    (s.fill.typ ≠ [] → (newFills s.fill).isSome = true →
      CompStep (getFillID r s) (getFillID (addFill r s).1 s) (addFill r s).2 r.fills.length) := by
  cases hq : getFillID r s with
  | some j =>
    have he : addFill r s = (r, j) := by unfold addFill; rw [hq]
    rw [he]
    refine ⟨rfl, rfl, rfl, rfl, ⟨[], by simp⟩, fun hb => ?_, fun _ _ => ⟨hq, Or.inl rfl⟩⟩
    unfold getFillID at hq; split at hq
    · cases hq
    · rw [hb] at hq; cases hq
  | none =>
    cases hn : newFills s.fill with
    | none =>
      have he : addFill r s = (r, 0) := by unfold addFill; rw [hq, hn]
      rw [he]
      exact ⟨rfl, rfl, rfl, rfl, ⟨[], by simp⟩, fun _ => rfl, fun _ h => by simp at h⟩
    | some x =>
      have he : addFill r s = ({ r with fillsCount := r.fills.length + 1, fills := r.fills ++ [x] }, (r.fills.length + 1) - 1) := by
        unfold addFill; rw [hq, hn]
      rw [he]
      refine ⟨rfl, rfl, rfl, rfl, ⟨[x], rfl⟩, fun h => ?_, fun ht _ => ?_⟩
      · cases h
      · unfold getFillID at hq ⊢
        simp only [ht, if_false, hn] at hq ⊢
        have := lookup_snoc_step (· == x) r.fills x (by simp) hq
        simpa [hq] using this

/-! ### shape lemmas -/

theorem numKey_shape {s s' : Style} (h : SameShape s s') (r : Reg) : numKey r s' = numKey r s := by
  unfold numKey getNumFmtID currencyCode; rw [h.custom, h.numFmt, h.dp, h.negRed]

theorem getBorderID_congr {r r' : Reg} {s s' : Style} (hr : r'.borders = r.borders) (hs : s'.border = s.border) :
    getBorderID r' s' = getBorderID r s := by
  unfold getBorderID; rw [hr, hs]

theorem getFillID_congr {r r' : Reg} {s s' : Style} (hr : r'.fills = r.fills) (hs : s'.fill = s.fill) :
    getFillID r' s' = getFillID r s := by
  unfold getFillID; rw [hr, hs]

theorem SameShape.symm' {s s' : Style} (h : SameShape s s') : SameShape s' s :=
  ⟨h.custom.symm, h.negRed.symm, h.dp.symm, h.font.symm, h.fill.symm, h.border.symm, h.alignment.symm,
   h.protection.symm, h.numFmt.symm⟩

theorem SameShape.trans' {a b c : Style} (h1 : SameShape a b) (h2 : SameShape b c) : SameShape a c :=
  ⟨h2.custom.trans h1.custom, h2.negRed.trans h1.negRed, h2.dp.trans h1.dp, h2.font.trans h1.font,
   h2.fill.trans h1.fill, h2.border.trans h1.border, h2.alignment.trans h1.alignment,
   h2.protection.trans h1.protection, h2.numFmt.trans h1.numFmt⟩

/-! ### the xf record `setCellXfs` appends -/

def mkXf (fontID numFmtID fillID borderID : Nat) (s : Style) : Xf :=
  { numFmtId := some numFmtID, fontId := some fontID, fillId := some fillID, borderId := some borderID,
    applyNumFmt := if numFmtID ≠ 0 then some true else none, applyFont := if fontID ≠ 0 then some true else none,
    applyFill := if fillID ≠ 0 then some true else none, applyBorder := if borderID ≠ 0 then some true else none,
    applyAlignment := some s.alignment.isSome,
    applyProtection := if s.protection.isSome then some true else none,
    alignment := some (s.alignment.getD zeroAlign),
    protection := if s.protection.isSome then some (s.protection.getD (false, false)) else none }

theorem setCellXfs_mk {r r5 : Reg} {f n l b id : Nat} {s : Style}
    (h : setCellXfs r f n l b s.alignment.isSome s.protection.isSome (s.alignment.getD zeroAlign)
      (s.protection.getD (false, false)) = .ok (r5, id)) :
    r5.xfs = r.xfs ++ [mkXf f n l b s] ∧ id = r.xfs.length ∧ r5.numFmts = r.numFmts ∧ r5.fonts = r.fonts ∧
    r5.fills = r.fills ∧ r5.borders = r.borders := by
  unfold setCellXfs at h
  simp only at h
  split at h
  · simp at h
  · injection h with h; injection h with h1 h2
    subst h1
    exact ⟨rfl, by omega, rfl, rfl, rfl, rfl⟩

theorem flag_applied (n : Nat) : xfApplied n (if n ≠ 0 then some true else none) = true := by
  unfold xfApplied; split <;> simp_all

theorem mkXf_alignment (f n l b : Nat) (s : Style) : xfAlignment (mkXf f n l b s) s = true := by
  unfold xfAlignment mkXf offOrAbsent
  cases s.alignment <;> simp

theorem mkXf_protection (f n l b : Nat) (s : Style) : xfProtection (mkXf f n l b s) s = true := by
  unfold xfProtection mkXf offOrAbsent
  cases s.protection <;> simp

/-! ### old xf records are not accepted because of new ids -/

def compMatch (k xid : Option Nat) (ap : Option Bool) : Bool :=
  match k with
  | some n => xid == some n && xfApplied n ap
  | none => false

theorem comp_old {k0 k1 : Option Nat} {i len : Nat} {xid : Option Nat} {ap : Option Bool}
    (cs : CompStep k0 k1 i len) (hx : ∀ j, xid = some j → j < len)
    (h : compMatch k1 xid ap = true) : compMatch k0 xid ap = true := by
  obtain ⟨h1, h2⟩ := cs
  subst h1
  rcases h2 with h2 | ⟨h2, h3⟩
  · subst h2; exact h
  · simp only [compMatch, Bool.and_eq_true, beq_iff_eq] at h
    have := hx i h.1
    omega

theorem xfFont_eq (k : Option Nat) (xf : Xf) (s : Style) :
    xfFont k xf s = if s.font.isNone then zeroOrAbsent xf.fontId && offOrAbsent xf.applyFont
      else compMatch k xf.fontId xf.applyFont := by
  unfold xfFont compMatch; cases k <;> rfl

theorem xfFill_eq (k : Option Nat) (xf : Xf) (s : Style) :
    xfFill k xf s = if (newFills s.fill).isNone then zeroOrAbsent xf.fillId && offOrAbsent xf.applyFill
      else compMatch k xf.fillId xf.applyFill := by
  unfold xfFill compMatch; cases k <;> rfl

theorem xfBorder_eq (k : Option Nat) (xf : Xf) (s : Style) :
    xfBorder k xf s = if s.border = [] then zeroOrAbsent xf.borderId && offOrAbsent xf.applyBorder
      else compMatch k xf.borderId xf.applyBorder := by
  unfold xfBorder compMatch; cases k <;> rfl

theorem compMatch_mk (i : Nat) : compMatch (some i) (some i) (if i ≠ 0 then some true else none) = true := by
  show (some i == some i && xfApplied i (if i ≠ 0 then some true else none)) = true
  rw [flag_applied]; simp

theorem fontRec_fonts {r r' : Reg} (h : r'.fonts = r.fonts) (f : Font) : fontRec r' f = fontRec r f := by
  unfold fontRec; rw [h]

theorem xfMatches_and (k : Int) (f l b : Option Nat) (s : Style) (xf : Xf) :
    xfMatches k f l b s xf = (xfNumFmt k xf s && xfFont f xf s && xfFill l xf s && xfBorder b xf s &&
      xfAlignment xf s && xfProtection xf s) := rfl

/-- after a regular definition has been created, its lookup on the new registry finds the new id -/
theorem found_after_create {r r5 : Reg} {t t0 t' : Style} {id : Nat} (w : WF r)
    (h0 : getStyleID r t = .ok (none, t0)) (hc : createStyle r t0 = .ok (r5, id, t')) :
    ∃ t'', getStyleID r5 t = .ok (some id, t'') ∧ SameShape t t'' := by
  have hne : r.fonts ≠ [] := by
    intro hh; have := w.fontsNe; rw [hh] at this; simp at this
  -- the first lookup
  rw [getStyleID_eq] at h0
  cases hg : getFontID r t with
  | error e => rw [hg] at h0; simp at h0
  | ok p =>
    obtain ⟨k0f, tt⟩ := p
    rw [hg] at h0
    simp only at h0
    injection h0 with h0; injection h0 with hnone htt
    subst htt
    -- shape of the style handed to createStyle
    have sh0 : SameShape t tt ∧ (t.font = none → tt.font = none) ∧
        (∀ f, t.font = some f → tt.font = some (fixSize f) ∧ k0f = r.fonts.findIdx? (· == fontRec r f)) := by
      cases hf : t.font with
      | none =>
        rw [getFontID_none hf] at hg
        injection hg with hg; injection hg with hg1 hg2; subst hg2
        exact ⟨⟨rfl, rfl, rfl, rfl, rfl, rfl, rfl, rfl, rfl⟩, fun _ => hf, fun f hf' => by cases hf'⟩
      | some f =>
        rw [getFontID_some hne hf] at hg
        injection hg with hg; injection hg with hg1 hg2; subst hg2
        refine ⟨⟨rfl, rfl, rfl, by simp [hf], rfl, rfl, rfl, rfl, rfl⟩, (fun h => by cases h), fun f' hf' => ?_⟩
        cases hf'; exact ⟨rfl, hg1.symm⟩
    obtain ⟨sh0, hfn, hfs⟩ := sh0
    -- the steps of createStyle
    unfold createStyle at hc
    split at hc
    · simp at hc
    rename_i r1 n h1
    split at hc
    · simp at hc
    rename_i r2 i t2 h2
    simp only at hc
    split at hc
    · simp at hc
    rename_i r5' id5 h5
    simp at hc
    obtain ⟨hr, hi, _⟩ := hc
    subst hr; subst hi
    have NS := newNumFmt_step w h1
    have w1 := (newNumFmt_spec w h1).2.1
    have FS := addFont_step w1 h2
    have w2 := (addFont_spec w1 h2).2.1
    obtain ⟨f_num, f_fills, f_borders, f_xfs, f_fonts, sh2, f_none, f_some⟩ := FS
    have BS := addBorder_step t2 w2
    have w3 := (addBorder_spec (s := t2) w2).2.1
    obtain ⟨b_num, b_fills, b_fonts, b_xfs, _, b_nil, b_some⟩ := BS
    have LS := addFill_step t2 w3
    obtain ⟨l_num, l_borders, l_fonts, l_xfs, _, l_nil, l_some⟩ := LS
    obtain ⟨x_xfs, x_id, x_num, x_fonts, x_fills, x_borders⟩ := setCellXfs_mk h5
    -- tables of the final registry
    have e_num : r5'.numFmts = r1.numFmts := by rw [x_num, l_num, b_num, f_num]
    have e_fonts : r5'.fonts = r2.fonts := by rw [x_fonts, l_fonts, b_fonts]
    have e_xfs : (addFill (addBorder r2 t2).1 t2).1.xfs = r.xfs := by rw [l_xfs, b_xfs, f_xfs, NS.xfs]
    have sh : SameShape t t2 := sh0.trans' sh2
    obtain ⟨fe, hfe⟩ := f_fonts
    have e_fonts_r : r5'.fonts = r.fonts ++ fe := by rw [e_fonts, hfe, NS.fonts]
    have hne5 : r5'.fonts ≠ [] := by
      rw [e_fonts_r]; intro hh; have := List.append_eq_nil_iff.mp hh; exact hne this.1
    -- the font key on the final registry
    have hfont : ∃ k1f t5, getFontID r5' t = .ok (k1f, t5) ∧ SameShape t t5 ∧ (t.font = none → i = 0) ∧
        (t.font ≠ none → CompStep k0f k1f i r.fonts.length) := by
      cases hf : t.font with
      | none =>
        exact ⟨none, t, getFontID_none hf, ⟨rfl, rfl, rfl, rfl, rfl, rfl, rfl, rfl, rfl⟩,
          fun _ => f_none (hfn hf), fun h => absurd rfl h⟩
      | some f =>
        obtain ⟨htf, hk0⟩ := hfs f hf
        refine ⟨_, _, getFontID_some hne5 hf, ⟨rfl, rfl, rfl, by simp [hf], rfl, rfl, rfl, rfl, rfl⟩,
          (fun h => by cases h), fun _ => ?_⟩
        have cs := f_some (fixSize f) htf
        rw [fontRec_fix, fontRec_fonts NS.fonts, NS.fonts] at cs
        rw [fontRec_congr ⟨fe, e_fonts_r⟩ hne, e_fonts, hk0]
        exact cs
    obtain ⟨k1f, t5, hg5, sh5, hi0, hcs⟩ := hfont
    refine ⟨t5, ?_, sh5⟩
    rw [getStyleID_eq, hg5]
    simp only
    -- keys
    have kn : numKey r5' t = numKey r1 tt := by rw [numKey_congr e_num, numKey_shape sh0]
    have kb : getBorderID r5' t = getBorderID (addBorder r2 t2).1 t2 :=
      getBorderID_congr (by rw [x_borders, l_borders]) sh.border.symm
    have kl : getFillID r5' t = getFillID (addFill (addBorder r2 t2).1 t2).1 t2 :=
      getFillID_congr (by rw [x_fills]) sh.fill.symm
    have kb0 : getBorderID r t = getBorderID r2 t2 :=
      (getBorderID_congr (by rw [f_borders, NS.borders]) sh.border).symm
    have kl0 : getFillID r t = getFillID (addBorder r2 t2).1 t2 :=
      (getFillID_congr (by rw [b_fills, f_fills, NS.fills]) sh.fill).symm
    -- express both predicates over t2
    have shP : ∀ xf, xfMatches (numKey r5' t) k1f (getFillID r5' t) (getBorderID r5' t) t5 xf =
        xfMatches (numKey r5' t) k1f (getFillID r5' t) (getBorderID r5' t) t2 xf := fun xf => by
      rw [xfMatches_shape sh5, ← xfMatches_shape sh]
    have shP0 : ∀ xf, xfMatches (numKey r t) k0f (getFillID r t) (getBorderID r t) tt xf =
        xfMatches (numKey r t) k0f (getFillID r t) (getBorderID r t) t2 xf := fun xf => by
      rw [xfMatches_shape sh0, ← xfMatches_shape sh]
    have hxs : r5'.xfs = r.xfs ++ [mkXf i n (addFill (addBorder r2 t2).1 t2).2 (addBorder r2 t2).2 t2] := by
      rw [x_xfs, e_xfs]
    rw [hxs, findIdx?_snoc]
    -- no old xf is accepted
    have hold : List.findIdx? (xfMatches (numKey r5' t) k1f (getFillID r5' t) (getBorderID r5' t) t5) r.xfs = none := by
      rw [List.findIdx?_eq_none_iff] at hnone ⊢
      intro xf hxf
      have h0x := hnone xf hxf
      rw [shP0] at h0x
      rw [shP]
      cases hm : xfMatches (numKey r5' t) k1f (getFillID r5' t) (getBorderID r5' t) t2 xf with
      | false => rfl
      | true =>
        exfalso
        have ok := w.refs xf hxf
        rw [xfMatches_and] at hm h0x
        simp only [Bool.and_eq_true] at hm
        obtain ⟨⟨⟨⟨⟨m1, m2⟩, m3⟩, m4⟩, m5⟩, m6⟩ := hm
        have o1 : xfNumFmt (numKey r t) xf t2 = true := by
          have e1 : ∀ k, xfNumFmt k xf t2 = xfNumFmt k xf tt := fun k => by
            unfold xfNumFmt; rw [sh2.custom]
          rw [e1, ← numKey_shape sh0]
          rw [e1, kn] at m1
          exact NS.old xf ok.num m1
        have o2 : xfFont k0f xf t2 = true := by
          rw [xfFont_eq] at m2 ⊢
          by_cases hz : t2.font.isNone = true
          · simp only [hz, if_true] at m2 ⊢; exact m2
          · simp only [hz, if_false] at m2 ⊢
            have : t.font ≠ none := by
              intro hh; rw [sh.font] at hz; simp [hh] at hz
            exact comp_old (hcs this) ok.font m2
        have o3 : xfFill (getFillID r t) xf t2 = true := by
          rw [xfFill_eq] at m3 ⊢
          by_cases hz : (newFills t2.fill).isNone = true
          · simp only [hz, if_true] at m3 ⊢; exact m3
          · simp only [hz, if_false] at m3 ⊢
            have hsome : (newFills t2.fill).isSome = true := by
              cases hq : newFills t2.fill with
              | none => rw [hq] at hz; simp at hz
              | some x => rfl
            have htyp : t2.fill.typ ≠ [] := fun hh => by rw [newFills_nil hh] at hsome; simp at hsome
            have cs := l_some htyp hsome
            rw [← kl, ← kl0] at cs
            have hlen : (addBorder r2 t2).1.fills.length = r.fills.length := by rw [b_fills, f_fills, NS.fills]
            rw [hlen] at cs
            exact comp_old cs ok.fill m3
        have o4 : xfBorder (getBorderID r t) xf t2 = true := by
          rw [xfBorder_eq] at m4 ⊢
          by_cases hz : t2.border = []
          · simp only [hz, if_true] at m4 ⊢; exact m4
          · simp only [hz, if_false] at m4 ⊢
            have cs := b_some hz
            rw [← kb, ← kb0] at cs
            have hlen : r2.borders.length = r.borders.length := by rw [f_borders, NS.borders]
            rw [hlen] at cs
            exact comp_old cs ok.border m4
        rw [o1, o2, o3, o4, m5, m6] at h0x
        simp at h0x
    rw [hold]
    -- the new xf is accepted
    have hnew : xfMatches (numKey r5' t) k1f (getFillID r5' t) (getBorderID r5' t) t5
        (mkXf i n (addFill (addBorder r2 t2).1 t2).2 (addBorder r2 t2).2 t2) = true := by
      rw [shP, xfMatches_and]
      have n1 : xfNumFmt (numKey r5' t) (mkXf i n (addFill (addBorder r2 t2).1 t2).2 (addBorder r2 t2).2 t2) t2 = true := by
        have e1 : ∀ k xf, xfNumFmt k xf t2 = xfNumFmt k xf tt := fun k xf => by
          unfold xfNumFmt; rw [sh2.custom]
        rw [e1, kn]
        exact NS.hit _ rfl
      have n2 : xfFont k1f (mkXf i n (addFill (addBorder r2 t2).1 t2).2 (addBorder r2 t2).2 t2) t2 = true := by
        rw [xfFont_eq]
        by_cases hz : t2.font.isNone = true
        · have : t.font = none := by rw [sh.font] at hz; simpa using hz
          have hi := hi0 this
          subst hi
          simp [hz, mkXf, zeroOrAbsent, offOrAbsent]
        · have : t.font ≠ none := by
            intro hh; rw [sh.font] at hz; simp [hh] at hz
          simp only [hz, if_false]
          rw [(hcs this).1]
          exact compMatch_mk i
      have n3 : xfFill (getFillID r5' t) (mkXf i n (addFill (addBorder r2 t2).1 t2).2 (addBorder r2 t2).2 t2) t2 = true := by
        rw [xfFill_eq]
        by_cases hz : (newFills t2.fill).isNone = true
        · have hnone : newFills t2.fill = none := by
            cases hq : newFills t2.fill with
            | none => rfl
            | some x => rw [hq] at hz; simp at hz
          simp [hz, mkXf, zeroOrAbsent, offOrAbsent, l_nil hnone]
        · have hsome : (newFills t2.fill).isSome = true := by
            cases hq : newFills t2.fill with
            | none => rw [hq] at hz; simp at hz
            | some x => rfl
          have htyp : t2.fill.typ ≠ [] := fun hh => by rw [newFills_nil hh] at hsome; simp at hsome
          simp only [hz, if_false]
          rw [kl, (l_some htyp hsome).1]
          exact compMatch_mk _
      have n4 : xfBorder (getBorderID r5' t) (mkXf i n (addFill (addBorder r2 t2).1 t2).2 (addBorder r2 t2).2 t2) t2 = true := by
        rw [xfBorder_eq]
        by_cases hz : t2.border = []
        · simp [hz, mkXf, zeroOrAbsent, offOrAbsent, b_nil hz]
        · simp only [hz, if_false]
          have cs := b_some hz
          have kb' : getBorderID r5' t = getBorderID (addBorder r2 t2).1 t2 := kb
          rw [kb', cs.1]
          exact compMatch_mk _
      rw [n1, n2, n3, n4, mkXf_alignment, mkXf_protection]; rfl
    simp only [hnew, if_true]
    rw [x_id, e_xfs]

end XlModel.Styles
