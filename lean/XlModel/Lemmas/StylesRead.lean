import XlModel.Styles
import XlModel.Lemmas.Styles
import XlModel.Lemmas.StylesIdem
/-!
Read-back of a newly created style: `GetStyle` of the xf record `NewStyle` appends reads exactly
the component records built from the definition (or the default records at index 0), and the
component records read back as the normalised components.
-/
namespace XlModel.Styles
open Impl

/-! ### which records the appended xf points to -/

theorem newNumFmt_step_tables {r r1 : Reg} {s : Style} {n : Nat} (h : newNumFmt r s = .ok (r1, n)) :
    r1.fonts = r.fonts ∧ r1.fills = r.fills ∧ r1.borders = r.borders := by
  unfold newNumFmt at h
  repeat' split at h
  all_goals first
    | (simp at h; done)
    | (simp [setCustomNumFmt] at h; obtain ⟨h1, _⟩ := h; subst h1; exact ⟨rfl, rfl, rfl⟩)

theorem findIdx?_getElem? {α} [BEq α] [LawfulBEq α] {l : List α} {x : α} {i : Nat}
    (h : l.findIdx? (· == x) = some i) : l[i]? = some x := by
  rw [List.findIdx?_eq_some_iff_getElem] at h
  obtain ⟨hi, hp, _⟩ := h
  rw [List.getElem?_eq_getElem hi]
  have := eq_of_beq hp
  rw [this]

/-- the component record a definition asks for; `none` = "use entry 0" -/
def wantFont (r : Reg) (s : Style) : Option XFont := s.font.map (fontRec r)
def wantBorder (s : Style) : Option XBorder := if s.border = [] then none else some (newBorders s.border)
def wantFill (s : Style) : Option XFill := if s.fill.typ = [] then none else newFills s.fill

/-- entry `i` of `l` is the wanted record, or entry 0 when nothing is wanted -/
def Points {α} (l : List α) (i : Nat) (want : Option α) : Prop :=
  match want with
  | some x => l[i]? = some x
  | none => i = 0

theorem points_of_step {α} [BEq α] [LawfulBEq α] {l l' : List α} {x : α} {i len : Nat}
    (cs : CompStep (l.findIdx? (· == x)) (l'.findIdx? (· == x)) i len) : l'[i]? = some x :=
  findIdx?_getElem? cs.1

/-- what `createStyle` guarantees about the record it appends -/
structure Created (r r5 : Reg) (t : Style) (id : Nat) : Prop where
  ext : Ext r r5
  wf : WF r5
  id_eq : id = r.xfs.length
  xf : ∃ i n l b t2, r5.xfs = r.xfs ++ [mkXf i n l b t2] ∧ SameShape t t2 ∧
    Points r5.fonts i (wantFont r t) ∧ Points r5.borders b (wantBorder t) ∧ Points r5.fills l (wantFill t) ∧
    (∃ r1, newNumFmt r t = .ok (r1, n) ∧ r5.numFmts = r1.numFmts)

theorem getElem?_of_ext {α} {l l' : List α} (h : ∃ e, l' = l ++ e) {i : Nat} {x : α} (hx : l[i]? = some x) :
    l'[i]? = some x := by
  obtain ⟨e, he⟩ := h
  have hi : i < l.length := by
    rcases Nat.lt_or_ge i l.length with hh | hh
    · exact hh
    · have : l[i]? = none := List.getElem?_eq_none hh
      rw [this] at hx; cases hx
  rw [he, List.getElem?_append_left hi]; exact hx

theorem createStyle_created {r r5 : Reg} {t t' : Style} {id : Nat} (w : WF r)
    (hc : createStyle r t = .ok (r5, id, t')) : Created r r5 t id := by
  have spec := createStyle_spec w hc
  have hxid := createStyle_xfs hc
  unfold createStyle at hc
  split at hc
  · simp at hc
  rename_i r1 n h1
  split at hc
  · simp at hc
  rename_i r2 i t2 h2
  simp only at hc
  split at hc
  · simp at hc
  rename_i r5' id5 h5
  simp at hc
  obtain ⟨hr, hi, _⟩ := hc
  subst hr; subst hi
  have w1 := (newNumFmt_spec w h1).2.1
  have n_fonts : r1.fonts = r.fonts := by
    have := newNumFmt_step_tables h1; exact this.1
  have FS := addFont_step w1 h2
  have w2 := (addFont_spec w1 h2).2.1
  obtain ⟨f_num, f_fills, f_borders, f_xfs, f_fonts, sh2, f_none, f_some⟩ := FS
  have BS := addBorder_step t2 w2
  have w3 := (addBorder_spec (s := t2) w2).2.1
  obtain ⟨b_num, b_fills, b_fonts, b_xfs, b_ext, b_nil, b_some⟩ := BS
  have LS := addFill_step t2 w3
  obtain ⟨l_num, l_borders, l_fonts, l_xfs, l_ext, l_nil, l_some⟩ := LS
  obtain ⟨x_xfs, x_id, x_num, x_fonts, x_fills, x_borders⟩ := setCellXfs_mk h5
  have e_xfs : (addFill (addBorder r2 t2).1 t2).1.xfs = r.xfs := by
    rw [l_xfs, b_xfs, f_xfs, newNumFmt_xfs h1]
  refine ⟨spec.1, spec.2.1, hxid.1, i, n, _, _, t2, by rw [x_xfs, e_xfs], sh2, ?_, ?_, ?_, r1, h1, ?_⟩
  · -- font
    unfold Points wantFont
    cases hf : t.font with
    | none => exact f_none hf
    | some f =>
      simp only [Option.map_some]
      have cs := f_some f hf
      rw [fontRec_fonts n_fonts, n_fonts] at cs
      rw [x_fonts, l_fonts, b_fonts]
      exact points_of_step cs
  · -- border
    unfold Points wantBorder
    by_cases hb : t.border = []
    · simp only [hb, if_true]; exact b_nil (by rw [sh2.border]; exact hb)
    · simp only [hb, if_false]
      have hb2 : t2.border ≠ [] := by rw [sh2.border]; exact hb
      have cs := b_some hb2
      unfold getBorderID at cs
      simp only [hb2, if_false] at cs
      rw [x_borders, l_borders, ← sh2.border]
      exact points_of_step cs
  · -- fill
    unfold Points wantFill
    by_cases hz : t.fill.typ = []
    · simp only [hz, if_true]; exact l_nil (by rw [sh2.fill]; exact newFills_nil hz)
    · simp only [hz, if_false]
      have hz2 : t2.fill.typ ≠ [] := by rw [sh2.fill]; exact hz
      cases hn : newFills t.fill with
      | none =>
        simp only
        have hn2 : newFills t2.fill = none := by rw [sh2.fill]; exact hn
        have : getFillID (addBorder r2 t2).1 t2 = none := by unfold getFillID; simp [hz2, hn2]
        unfold addFill; rw [this, hn2]
      | some x =>
        simp only
        have hn2 : newFills t2.fill = some x := by rw [sh2.fill]; exact hn
        have cs := l_some hz2 (by rw [hn2]; rfl)
        unfold getFillID at cs
        simp only [hz2, if_false, hn2] at cs
        rw [x_fills]
        exact points_of_step cs
  · rw [x_num, l_num, b_num, f_num]

/-! ### GetStyle of an `mkXf` record -/

/-- the record a `Points` index reads: the wanted record, or entry 0 -/
def readRec {α} (l : List α) (want : Option α) : Option α :=
  match want with
  | some x => some x
  | none => l[0]?

theorem points_read {α} {l : List α} {i : Nat} {want : Option α} (h : Points l i want) :
    l[i]? = readRec l want := by
  unfold Points at h; unfold readRec
  cases want with
  | some x => exact h
  | none => simp only at h; rw [h]

theorem onOrAbsent_flag (n : Nat) : onOrAbsent (if n ≠ 0 then some true else none) = true := by
  unfold onOrAbsent; split <;> simp

/-- `GetStyle` of an index holding `mkXf i n l b t2`: fill / border / font from the entries the ids
point to, alignment and protection of the definition, then the number format `n` -/
theorem getStyle_mkXf (dec : Str → Int) {r : Reg} {idx : Nat} {i n l b : Nat} {t2 : Style}
    (hx : r.xfs[idx]? = some (mkXf i n l b t2)) :
    getStyle dec r idx = .ok (extractNumFmt dec r (some n)
      { Style.zero with
        fill := (match r.fills[l]? with | some x => extractFills x | none => Fill.zero)
        border := (match r.borders[b]? with | some x => extractBorders x | none => [])
        font := (r.fonts[i]?).map extractFont
        alignment := t2.alignment
        protection := t2.protection }) := by
  have hlt : idx < r.xfs.length := by
    rcases Nat.lt_or_ge idx r.xfs.length with hh | hh
    · exact hh
    · have : r.xfs[idx]? = none := List.getElem?_eq_none hh
      rw [this] at hx; cases hx
  unfold getStyle
  have c : ¬ ((idx : Int) < 0 ∨ (r.xfs.length : Int) ≤ (idx : Int)) := by omega
  simp only [c, if_false, Int.toNat_natCast, hx]
  simp only [mkXf, onOrAbsent_flag, if_true, Option.bind]
  congr 2
  cases r.fills[l]? <;> cases r.borders[b]? <;> cases r.fonts[i]? <;>
    cases ha : t2.alignment <;> cases hp : t2.protection <;>
    simp [onOrAbsent, Style.zero, Fill.zero]

/-! ### component records read back as the normalised components -/

/-- fonts: `extractFont (newFont f) = normFont f` for every font request -/
theorem extractFont_fontRec (r : Reg) (f : Font) :
    extractFont (fontRec r f) = Spec.normFont (match r.fonts with | d :: _ => d.name | [] => []) f := by
  unfold extractFont fontRec Spec.normFont
  simp only
  generalize fixSize f = g
  obtain ⟨bold, italic, strike, underline, family, size, color, ci, theme, tint, va⟩ := g
  simp only [Font.mk.injEq, true_and]
  refine ⟨?_, ?_, ?_, ?_, ?_, ?_⟩
  · split <;> rename_i h <;> split at h <;> simp_all
  · rfl
  all_goals
    unfold newFontColor; simp only
    by_cases h1 : color = [] <;> by_cases h2 : (0 ≤ ci ∧ ci ≤ (Facts.C17.indexedColorCount : Int) + 1) <;>
      cases theme <;> by_cases h4 : tint = 0 <;>
      simp [h1, h2, h4, trimFF, paletteColor]

/-- every preset gradient variant is identified by its attributes together with its number of stops -/
theorem readShading_self : ∀ sh ∈ List.range 17, readShading sh = (sh : Int) := by decide +kernel

/-- the fill pattern names are pairwise different (also case-insensitively): the index reads back -/
theorem pattern_index_self :
    ∀ k ∈ List.range 19, (Facts.C17.styleFillPatterns[k]?).map (idxOfFold Facts.C17.styleFillPatterns) = some (k : Int) := by
  decide +kernel

theorem in_range_not_out {x a b : Int} (h : a ≤ x ∧ x ≤ b) : ¬ (x < a ∨ x > b) := by omega
theorem in_range_not_out' {x a b : Int} (h : a ≤ x ∧ x ≤ b) : ¬ (x > b ∨ x < a) := by omega
theorem out_of_range {x a b : Int} (h : ¬ (a ≤ x ∧ x ≤ b)) : (x < a ∨ x > b) := by omega
theorem out_of_range' {x a b : Int} (h : ¬ (a ≤ x ∧ x ≤ b)) : (x > b ∨ x < a) := by omega
theorem toNat_lt_succ {x : Int} {b : Nat} (h : 0 ≤ x ∧ x ≤ (b : Int)) : x.toNat < b + 1 := by omega
theorem toNat_cast {x : Int} (h : 0 ≤ x) : ((x.toNat : Nat) : Int) = x := by omega

theorem extractFills_gradient (sh : Nat) (c0 c1 : Str) :
    extractFills (.gradient sh c0 c1) = ⟨"gradient".toList, 0, [themeColor c0, themeColor c1], readShading sh⟩ := rfl

theorem extractFills_pattern (p : Str) (fg : Option Str) :
    extractFills (.pattern p fg) = ⟨"pattern".toList, idxOfFold Facts.C17.styleFillPatterns p,
      (match fg with | some c => [themeColor c] | none => []), 0⟩ := rfl

/-- fills: `extractFills (newFills fl) = normFill fl` for every fill request -/
theorem extractFills_newFills (s : Style) : (wantFill s).map extractFills = Spec.normFill s.fill := by
  unfold wantFill Spec.normFill newFills
  by_cases hz : s.fill.typ = []
  · have h1 : ¬ (s.fill.typ = "gradient".toList) := by rw [hz]; decide
    have h2 : ¬ (s.fill.typ = "pattern".toList) := by rw [hz]; decide
    simp only [hz, if_true, h1, h2, if_false, Option.map_none]
    rw [hz] at h1 h2
    simp only [h1, h2, if_false]
  · simp only [hz, if_false]
    by_cases hg : s.fill.typ = "gradient".toList
    · simp only [hg, if_true]
      rcases hc : s.fill.colors with _ | ⟨a, _ | ⟨b, _ | ⟨c, t⟩⟩⟩
      · simp only [List.length_nil]; rfl
      · simp only [List.length_cons, List.length_nil]; rfl
      · have hlen : ([a, b] : List Str).length = 2 := rfl
        simp only [hlen, ne_eq, not_true_eq_false, false_or]
        by_cases hs : 0 ≤ s.fill.shading ∧ s.fill.shading ≤ 16
        · have hn : ¬ (s.fill.shading < 0 ∨ s.fill.shading > 16) := in_range_not_out hs
          have hr := readShading_self s.fill.shading.toNat (List.mem_range.mpr (toNat_lt_succ (b := 16) hs))
          have ht : ((s.fill.shading.toNat : Nat) : Int) = s.fill.shading := toNat_cast hs.1
          simp only [hn, if_false, hs, and_self, if_true, Option.map_some]
          rw [extractFills_gradient, hr, ht]; rfl
        · have hn : (s.fill.shading < 0 ∨ s.fill.shading > 16) := out_of_range hs
          simp only [hn, if_true, hs, if_false]; rfl
      · have hlen : ¬ ((a :: b :: c :: t).length = 2) := by simp only [List.length_cons]; omega
        simp only [ne_eq, hlen, not_false_eq_true, true_or, if_true]; rfl
    · simp only [hg, if_false]
      by_cases hp : s.fill.typ = "pattern".toList
      · simp only [hp, if_true]
        by_cases hs : 0 ≤ s.fill.pattern ∧ s.fill.pattern ≤ 18
        · have hn : ¬ (s.fill.pattern > 18 ∨ s.fill.pattern < 0) := in_range_not_out' hs
          have hk := pattern_index_self s.fill.pattern.toNat (List.mem_range.mpr (toNat_lt_succ (b := 18) hs))
          have ht : ((s.fill.pattern.toNat : Nat) : Int) = s.fill.pattern := toNat_cast hs.1
          cases hq : Facts.C17.styleFillPatterns[s.fill.pattern.toNat]? with
          | none => rw [hq] at hk; cases hk
          | some p =>
            rw [hq] at hk
            simp only [Option.map_some, Option.some.injEq] at hk
            simp only [hn, if_false, hs, and_self, if_true]
            cases s.fill.colors with
            | nil => simp only [Option.map_some]; rw [extractFills_pattern, hk, ht]
            | cons c t => simp only [Option.map_some]; rw [extractFills_pattern, hk, ht]; rfl
        · have hn : (s.fill.pattern > 18 ∨ s.fill.pattern < 0) := out_of_range' hs
          simp only [hn, if_true, hs, if_false]; rfl
      · simp only [hp, if_false]; rfl

/-! ### number formats -/

/-- the effect of one matching numFmts entry in `extractNumFmt` -/
def readCode (dec : Str → Int) (st : Style) (code : Str) : Style :=
  let st1 : Style := if dec code ≠ -1 then { st with decimalPlaces := some (dec code) } else st
  let st2 := { st1 with customNumFmt := some code }
  let st3 := if containsStr ";[Red]".toList code then { st2 with negRed := true } else st2
  match Facts.C17.currencyNumFmt.find? (fun (_, c) =>
      (if st3.negRed then c ++ ";[Red]".toList ++ c else c) == code) with
  | some (cid, _) => { st3 with numFmt := cid }
  | none => st3

theorem foldl_skip {n : Nat} (F : Style → XNumFmt → Style) (l : List XNumFmt) (s0 : Style)
    (h : ∀ nf ∈ l, nf.id ≠ n) :
    List.foldl (fun st nf => if nf.id ≠ n then st else F st nf) s0 l = s0 := by
  induction l with
  | nil => rfl
  | cons x t ih =>
    simp only [List.foldl_cons]
    have := h x (by simp)
    simp only [this, ne_eq, not_false_eq_true, if_true]
    exact ih (fun nf hnf => h nf (List.mem_cons_of_mem _ hnf))

theorem extractNumFmt_builtin (dec : Str → Int) (r : Reg) (st : Style) {n : Nat} {code : Str}
    (h : builtIn (n : Int) = some code) :
    extractNumFmt dec r (some n) st =
      (if dec code ≠ -1 then { st with numFmt := (n : Int), decimalPlaces := some (dec code) }
       else { st with numFmt := (n : Int) }) := by
  unfold extractNumFmt
  simp only [h]

theorem extractNumFmt_lang (dec : Str → Int) (r : Reg) (st : Style) {n : Nat}
    (hb : builtIn (n : Int) = none) (hl : isLangNumFmt (n : Int) = true) :
    extractNumFmt dec r (some n) st =
      (if dec [] ≠ -1 then { st with numFmt := (n : Int), decimalPlaces := some (dec []) }
       else { st with numFmt := (n : Int) }) := by
  unfold extractNumFmt
  simp only [hb, hl, if_true]

/-- a format code stored under an id larger than every other id reads back through `readCode` -/
theorem extractNumFmt_new_code (dec : Str → Int) (r : Reg) (st : Style) {n : Nat} {code : Str} {old : List XNumFmt}
    (hl : numFmtList r = old ++ [⟨n, code⟩]) (ho : ∀ nf ∈ old, nf.id < n)
    (hb : builtIn (n : Int) = none) (hlang : isLangNumFmt (n : Int) = false) :
    extractNumFmt dec r (some n) st = readCode dec st code := by
  unfold extractNumFmt
  simp only [hb, hlang, Bool.false_eq_true, if_false, hl, List.foldl_append, List.foldl_cons, List.foldl_nil]
  rw [foldl_skip _ old st (fun nf hnf => by have := ho nf hnf; omega)]
  simp only [ne_eq, not_true_eq_false, if_false]
  rfl

/-! ### GetStyle of a newly created style -/

/-- everything `GetStyle` reports before the number format: the requested components read back
from their records, or the workbook defaults (entry 0 of the table before the call) -/
def readBase (r : Reg) (t : Style) : Style :=
  { Style.zero with
    fill := (match readRec r.fills (wantFill t) with | some x => extractFills x | none => Fill.zero)
    border := (match readRec r.borders (wantBorder t) with | some x => extractBorders x | none => [])
    font := (readRec r.fonts (wantFont r t)).map extractFont
    alignment := t.alignment
    protection := t.protection }

theorem readRec_ext {α} {l l' : List α} (h : ∃ e, l' = l ++ e) (hne : 0 < l.length) (want : Option α) :
    readRec l' want = readRec l want := by
  unfold readRec
  cases want with
  | some x => rfl
  | none =>
    obtain ⟨e, he⟩ := h
    simp only
    rw [he, List.getElem?_append_left hne]

theorem created_reads (dec : Str → Int) {r r5 : Reg} {t : Style} {id : Nat} (w : WF r) (c : Created r r5 t id) :
    ∃ n r1, newNumFmt r t = .ok (r1, n) ∧ r5.numFmts = r1.numFmts ∧
      getStyle dec r5 id = .ok (extractNumFmt dec r5 (some n) (readBase r t)) := by
  obtain ⟨i, n, l, b, t2, hx, sh, pf, pb, pl, r1, hn, hnum⟩ := c.xf
  refine ⟨n, r1, hn, hnum, ?_⟩
  have hidx : r5.xfs[id]? = some (mkXf i n l b t2) := by
    rw [hx, c.id_eq, List.getElem?_append_right (Nat.le_refl _)]; simp
  rw [getStyle_mkXf dec hidx]
  have e1 := points_read pf
  have e2 := points_read pb
  have e3 := points_read pl
  rw [readRec_ext c.ext.fonts w.fontsNe] at e1
  rw [readRec_ext c.ext.borders w.bordersNe] at e2
  rw [readRec_ext c.ext.fills w.fillsNe] at e3
  unfold readBase
  rw [e1, e2, e3, sh.alignment, sh.protection]

/-! ### the style `getStyleID` hands on (font size fixed) reads like the request -/

theorem getStyleID_style {r : Reg} {t t3 : Style} {k : Option Nat} (hne : r.fonts ≠ [])
    (h : getStyleID r t = .ok (k, t3)) :
    SameShape t t3 ∧ (t.font = none → t3.font = none) ∧ (∀ f, t.font = some f → t3.font = some (fixSize f)) := by
  rw [getStyleID_eq] at h
  cases hf : t.font with
  | none =>
    rw [getFontID_none hf] at h
    simp only at h
    injection h with h; injection h with _ h2; subst h2
    exact ⟨⟨rfl, rfl, rfl, rfl, rfl, rfl, rfl, rfl, rfl⟩, fun _ => hf, fun f hf' => by cases hf'⟩
  | some f =>
    rw [getFontID_some hne hf] at h
    simp only at h
    injection h with h; injection h with _ h2; subst h2
    exact ⟨⟨rfl, rfl, rfl, by simp [hf], rfl, rfl, rfl, rfl, rfl⟩, (fun h => by cases h), fun f' hf' => by cases hf'; rfl⟩

theorem newNumFmt_shape {t t3 : Style} (sh : SameShape t t3) (r : Reg) : newNumFmt r t3 = newNumFmt r t := by
  unfold newNumFmt currencyCode
  rw [sh.custom, sh.numFmt, sh.dp, sh.negRed]

theorem readBase_shape {t t3 : Style} (r : Reg) (sh : SameShape t t3) (hn : t.font = none → t3.font = none)
    (hs : ∀ f, t.font = some f → t3.font = some (fixSize f)) : readBase r t3 = readBase r t := by
  have hfont : wantFont r t3 = wantFont r t := by
    unfold wantFont
    cases hf : t.font with
    | none => rw [hn hf]
    | some f => rw [hs f hf]; simp only [Option.map_some, fontRec_fix]
  have hfill : wantFill t3 = wantFill t := by unfold wantFill; rw [sh.fill]
  have hborder : wantBorder t3 = wantBorder t := by unfold wantBorder; rw [sh.border]
  unfold readBase
  rw [hfont, hfill, hborder, sh.alignment, sh.protection]

/-- the components of `readBase` in normal form -/
theorem readBase_font (r : Reg) (t : Style) :
    (readBase r t).font =
      match t.font with
      | some f => some (Spec.normFont (match r.fonts with | d :: _ => d.name | [] => []) f)
      | none => (r.fonts[0]?).map extractFont := by
  unfold readBase wantFont readRec
  cases t.font with
  | none => rfl
  | some f => simp only [Option.map_some, extractFont_fontRec]

theorem readBase_fill (r : Reg) (t : Style) :
    (readBase r t).fill =
      match Spec.normFill t.fill with
      | some fl => fl
      | none => (match r.fills[0]? with | some x => extractFills x | none => Fill.zero) := by
  have h := extractFills_newFills t
  unfold readBase readRec
  simp only
  cases hw : wantFill t with
  | none => rw [hw] at h; simp only [Option.map_none] at h; rw [← h]
  | some x => rw [hw] at h; simp only [Option.map_some] at h; rw [← h]

theorem readBase_border (r : Reg) (t : Style) :
    (readBase r t).border =
      if t.border = [] then (match r.borders[0]? with | some x => extractBorders x | none => [])
      else extractBorders (newBorders t.border) := by
  unfold readBase readRec wantBorder
  by_cases hb : t.border = []
  · simp only [hb, if_true]
  · simp only [hb, if_false]

/-! ### number-format ids are strictly increasing: one id, one code -/

def IdsSorted (r : Reg) : Prop := (numFmtList r).Pairwise (fun a b => a.id < b.id)

theorem sorted_id_inj {l : List XNumFmt} (h : l.Pairwise (fun a b => a.id < b.id)) {a b : XNumFmt}
    (ha : a ∈ l) (hb : b ∈ l) (e : a.id = b.id) : a = b := by
  induction l with
  | nil => cases ha
  | cons x t ih =>
    rw [List.pairwise_cons] at h
    obtain ⟨hx, ht⟩ := h
    rcases List.mem_cons.mp ha with ha1 | ha1
    · rcases List.mem_cons.mp hb with hb1 | hb1
      · rw [ha1, hb1]
      · have := hx b hb1; rw [ha1] at e; omega
    · rcases List.mem_cons.mp hb with hb1 | hb1
      · have := hx a ha1; rw [hb1] at e; omega
      · exact ih ht ha1 hb1

theorem newNumFmt_list {r r1 : Reg} {s : Style} {n : Nat} (h : newNumFmt r s = .ok (r1, n)) :
    numFmtList r1 = numFmtList r ∨ ∃ c, numFmtList r1 = numFmtList r ++ [⟨n, c⟩] := by
  unfold newNumFmt at h
  repeat' split at h
  all_goals first
    | (simp at h; done)
    | (injection h with h; injection h with h1 h2; subst h1; exact Or.inl rfl)
    | (simp only [setCustomNumFmt] at h
       injection h with h; injection h with h1 h2; subst h1; subst h2
       exact Or.inr ⟨_, by simp [numFmtList] <;> rfl⟩)
    | (injection h with h; injection h with h1 h2; subst h1; subst h2
       rename_i hnf _ _ _
       exact Or.inr ⟨_, by simp [numFmtList, *] <;> rfl⟩)

theorem newNumFmt_sorted {r r1 : Reg} {s : Style} {n : Nat} (w : WF r) (hs : IdsSorted r)
    (h : newNumFmt r s = .ok (r1, n)) : IdsSorted r1 := by
  obtain ⟨e, _, _⟩ := newNumFmt_spec w h
  obtain ⟨ex, hex, hgt⟩ := e.nums
  unfold IdsSorted
  rcases newNumFmt_list h with hl | ⟨c, hl⟩
  · rw [hl]; exact hs
  · rw [hl, List.pairwise_append]
    refine ⟨hs, by simp, ?_⟩
    intro a ha b hb
    simp at hb; subst hb
    have hmem : (⟨n, c⟩ : XNumFmt) ∈ ex := by
      have : numFmtList r ++ ex = numFmtList r ++ [⟨n, c⟩] := by rw [← hex, hl]
      have := List.append_cancel_left this
      rw [this]; simp
    have := hgt _ hmem
    have := w.numTop a ha
    simp at *; omega

theorem newStyle_sorted {r r' : Reg} {s s' : Style} {id : Nat} (w : WF r) (hs : IdsSorted r)
    (h : newStyle r s = .ok (r', id, s')) : IdsSorted r' := by
  unfold newStyle at h
  split at h
  · simp at h
  · split at h
    · simp at h
    · simp at h; obtain ⟨h1, _, _⟩ := h; subst h1; exact hs
    · obtain ⟨_, _, _, _, _, _, _, _, _, _, r1, hn, hnum⟩ := (createStyle_created w h).xf
      have := newNumFmt_sorted w hs hn
      unfold IdsSorted at this ⊢
      rw [numFmtList_congr hnum]; exact this

theorem getCustomNumFmtID_mem {r : Reg} {c : Str} {n : Nat} (h : getCustomNumFmtID r c = some n) :
    ∃ nf ∈ numFmtList r, nf.code = c ∧ nf.id = n := by
  unfold getCustomNumFmtID at h
  cases hf : (numFmtList r).find? (·.code == c) with
  | none => rw [hf] at h; cases h
  | some nf =>
    rw [hf] at h; simp at h
    have hp := List.find?_some hf
    exact ⟨nf, List.mem_of_find?_eq_some hf, by simpa using hp, h⟩

/-! ### shape of the stored xf records (groundwork for the read-back of a FOUND xf, which is not proved) -/

/-- shape of the xf records `setCellXfs` writes (and of the template's): all four ids present, apply
flags of font / fill / border never `false`, alignment / protection stored consistently with their flags -/
structure XfWell (xf : Xf) : Prop where
  fontId : xf.fontId.isSome = true
  fillId : xf.fillId.isSome = true
  borderId : xf.borderId.isSome = true
  applyFont : xf.applyFont ≠ some false
  applyFill : xf.applyFill ≠ some false
  applyBorder : xf.applyBorder ≠ some false
  alignNone : xf.applyAlignment = none → xf.alignment = none
  alignSome : ∀ a, xf.alignment = some a → a ≠ zeroAlign → xf.applyAlignment = some true
  protNone : xf.applyProtection ≠ some true → xf.protection = none ∧ xf.applyProtection = none

def ShapeOk (r : Reg) : Prop := ∀ xf ∈ r.xfs, XfWell xf

theorem mkXf_well (i n l b : Nat) (t : Style) : XfWell (mkXf i n l b t) := by
  refine ⟨rfl, rfl, rfl, ?_, ?_, ?_, ?_, ?_, ?_⟩
  · unfold mkXf; simp only; split <;> simp
  · unfold mkXf; simp only; split <;> simp
  · unfold mkXf; simp only; split <;> simp
  · intro h; simp [mkXf] at h
  · intro a ha hz
    unfold mkXf at ha ⊢
    simp only at ha ⊢
    cases hq : t.alignment with
    | none => rw [hq] at ha; simp at ha; exact absurd ha.symm hz
    | some x => rfl
  · intro h
    unfold mkXf at h ⊢
    simp only at h ⊢
    cases hq : t.protection with
    | none => simp
    | some p => rw [hq] at h; simp at h

theorem shape_init : ShapeOk initReg := by
  intro xf h
  simp [initReg, Facts.C17.tplXfs] at h
  subst h
  exact ⟨rfl, rfl, rfl, by simp, by simp, by simp, fun _ => rfl, fun a ha => by simp at ha, fun _ => ⟨rfl, rfl⟩⟩

theorem newStyle_shape {r r' : Reg} {s s' : Style} {id : Nat} (w : WF r) (hs : ShapeOk r)
    (h : newStyle r s = .ok (r', id, s')) : ShapeOk r' := by
  unfold newStyle at h
  split at h
  · simp at h
  · split at h
    · simp at h
    · simp at h; obtain ⟨h1, _, _⟩ := h; subst h1; exact hs
    · obtain ⟨i, n, l, b, t2, hx, _⟩ := (createStyle_created w h).xf
      intro xf hxf
      rw [hx] at hxf
      rcases List.mem_append.mp hxf with hm | hm
      · exact hs xf hm
      · simp at hm; subst hm; exact mkXf_well i n l b t2

end XlModel.Styles
