import XlModel.XmlAttr
namespace XlModel.XmlAttr
open XlModel XlModel.Settings

def g (p : Tag × FVal) : Option (String × Val) := marshalField p.1 (some p.2)

theorem g_key (p : Tag × FVal) (k : String) (x : Val) (h : g p = some (k, x)) : k = p.1.xml := by
  obtain ⟨t, v⟩ := p
  unfold g marshalField at h
  cases v with
  | plain y =>
    simp only at h
    split at h
    · cases h
    · injection h with h; injection h with h1 _; exact h1.symm
  | ptr kd ov =>
    cases ov with
    | none => simp at h
    | some y => simp only at h; injection h with h; injection h with h1 _; exact h1.symm

theorem lookup_none (ps : List (Tag × FVal)) (k : String) (h : ∀ q ∈ ps, q.1.xml ≠ k) :
    (ps.filterMap g).lookup k = none := by
  induction ps with
  | nil => rfl
  | cons a rest ih =>
    simp only [List.filterMap_cons]
    have hr := ih (fun q hq => h q (by simp [hq]))
    cases hg : g a with
    | none => simpa using hr
    | some kv =>
      obtain ⟨k', x⟩ := kv
      have hk := g_key a k' x hg
      have hne : (k == k') = false := by
        have := h a (by simp)
        rw [hk]; simpa using fun e => this e.symm
      simp only [List.lookup_cons, hne]
      exact hr

theorem lookup_marshal (ps : List (Tag × FVal)) (hnd : (ps.map (fun p => p.1.xml)).Nodup) (p : Tag × FVal) (hp : p ∈ ps) :
    (marshal ps).lookup p.1.xml = (g p).map (·.2) := by
  unfold marshal
  show (ps.filterMap g).lookup p.1.xml = _
  induction ps with
  | nil => simp at hp
  | cons a rest ih =>
    simp only [List.map_cons, List.nodup_cons] at hnd
    simp only [List.filterMap_cons]
    simp only [List.mem_cons] at hp
    rcases hp with e | e
    · subst e
      have hnone : (rest.filterMap g).lookup p.1.xml = none := by
        apply lookup_none
        intro q hq hqe
        exact hnd.1 (List.mem_map.2 ⟨q, hq, hqe⟩)
      cases hg : g p with
      | none => simpa using hnone
      | some kv =>
        obtain ⟨k', x⟩ := kv
        have hk := g_key p k' x hg
        subst hk
        simp
    · have hne : p.1.xml ≠ a.1.xml := by
        intro h
        exact hnd.1 (List.mem_map.2 ⟨p, e, h⟩)
      cases hg : g a with
      | none => simpa using ih hnd.2 e
      | some kv =>
        obtain ⟨k', x⟩ := kv
        have hk := g_key a k' x hg
        have hb : (p.1.xml == k') = false := by rw [hk]; simpa using hne
        simp only [List.lookup_cons, hb]
        exact ih hnd.2 e

theorem unmarshalField_marshal (ps : List (Tag × FVal)) (hnd : (ps.map (fun p => p.1.xml)).Nodup)
    (p : Tag × FVal) (hp : p ∈ ps) (hf : Fits p.1 p.2) : unmarshalField p.1 (marshal ps) = p.2 := by
  unfold unmarshalField
  rw [lookup_marshal ps hnd p hp]
  obtain ⟨t, v⟩ := p
  unfold g marshalField
  cases v with
  | plain x =>
    obtain ⟨h1, h2, h3⟩ := hf
    simp only at h1 h2 h3 ⊢
    by_cases hz : (t.omitempty && x.isZero) = true
    · have hx : x.isZero = true := by simp at hz; exact hz.2
      simp only [hz, if_true, Option.map_none, h1, Bool.false_eq_true, if_false]
      rw [h3 hx]
    · simp [hz, h1]
  | ptr k ov =>
    obtain ⟨h1, h2, _⟩ := hf
    simp only at h1 h2 ⊢
    cases ov with
    | none => simp [h1, h2]
    | some x => simp [h1, h2]

end XlModel.XmlAttr
