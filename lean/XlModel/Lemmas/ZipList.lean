import XlModel.ZipList
import Mathlib.Data.List.Perm.Basic
import Mathlib.Data.List.Nodup

namespace XlModel.ZipList

theorem insDesc_perm (x : String) : ∀ l, List.Perm (insDesc x l) (x :: l)
  | [] => List.Perm.refl _
  | y :: r => by
    unfold insDesc
    split
    · exact List.Perm.refl _
    · exact (List.Perm.cons y (insDesc_perm x r)).trans (List.Perm.swap x y r)

theorem sortDesc_perm : ∀ l : List String, List.Perm (sortDesc l) l
  | [] => List.Perm.refl _
  | x :: r => by
    have ih := sortDesc_perm r
    unfold sortDesc at ih ⊢
    simp only [List.foldr_cons]
    exact (insDesc_perm x _).trans (List.Perm.cons x ih)

theorem mem_sortDesc (l : List String) (n : String) : n ∈ sortDesc l ↔ n ∈ l :=
  List.Perm.mem_iff (sortDesc_perm l)

theorem nodup_sortDesc {l : List String} (h : l.Nodup) : (sortDesc l).Nodup :=
  (List.Perm.nodup_iff (sortDesc_perm l)).2 h

theorem facts : Facts.C12.zipPkgBranchSkipsStreams = true ∧ Facts.C12.zipTempBranchSkipsStreams = true := by decide

/-- no entry name is written twice, whatever is in the three collections -/
theorem zipNames_nodup {streams pkg temp : List String} (hs : streams.Nodup) (hp : pkg.Nodup) (ht : temp.Nodup) :
    (zipNames streams pkg temp).Nodup := by
  unfold zipNames
  simp only [facts.1, facts.2, Bool.true_and]
  rw [List.nodup_append, List.nodup_append]
  refine ⟨⟨hs, nodup_sortDesc (hp.filter _), ?_⟩, nodup_sortDesc (ht.filter _), ?_⟩
  · intro a ha b hb e
    subst e
    rw [mem_sortDesc, List.mem_filter] at hb
    simp at hb
    exact hb.2 ha
  · intro a ha b hb e
    subst e
    rw [mem_sortDesc, List.mem_filter] at hb
    simp at hb
    rcases List.mem_append.1 ha with h | h
    · exact hb.2.2 h
    · rw [mem_sortDesc, List.mem_filter] at h
      exact hb.2.1 h.1

/-- no orphan and nothing missing: the names written are exactly the names held in one of the three collections -/
theorem mem_zipNames (streams pkg temp : List String) (n : String) :
    n ∈ zipNames streams pkg temp ↔ n ∈ streams ∨ n ∈ pkg ∨ n ∈ temp := by
  unfold zipNames
  simp only [facts.1, facts.2, Bool.true_and, List.mem_append, mem_sortDesc, List.mem_filter]
  simp
  constructor
  · rintro ((h | h) | h)
    · exact Or.inl h
    · exact Or.inr (Or.inl h.1)
    · exact Or.inr (Or.inr h.1)
  · rintro (h | h | h)
    · exact Or.inl (Or.inl h)
    · by_cases hs : n ∈ streams
      · exact Or.inl (Or.inl hs)
      · exact Or.inl (Or.inr ⟨h, hs⟩)
    · by_cases hs : n ∈ streams
      · exact Or.inl (Or.inl hs)
      · by_cases hp : n ∈ pkg
        · exact Or.inl (Or.inr ⟨hp, hs⟩)
        · exact Or.inr ⟨h, hp, hs⟩

/-- the listing is, as a multiset, the union of the three key sets: it is a permutation of every
duplicate-free list `u` that has exactly the names held in one of the three collections -/
theorem zipNames_perm_of_union {streams pkg temp u : List String}
    (hs : streams.Nodup) (hp : pkg.Nodup) (ht : temp.Nodup) (hu : u.Nodup)
    (h : ∀ n, n ∈ u ↔ n ∈ streams ∨ n ∈ pkg ∨ n ∈ temp) :
    List.Perm (zipNames streams pkg temp) u :=
  (List.perm_ext_iff_of_nodup (zipNames_nodup hs hp ht) hu).2
    (fun n => (mem_zipNames streams pkg temp n).trans (h n).symm)

/-- which tier (File.Pkg / File.tempFiles) holds a part does not change the multiset of names written -/
theorem zipNames_tier_independent {streams pkg1 temp1 pkg2 temp2 : List String}
    (hs : streams.Nodup) (hp1 : pkg1.Nodup) (ht1 : temp1.Nodup) (hp2 : pkg2.Nodup) (ht2 : temp2.Nodup)
    (h : ∀ n, (n ∈ pkg1 ∨ n ∈ temp1) ↔ (n ∈ pkg2 ∨ n ∈ temp2)) :
    List.Perm (zipNames streams pkg1 temp1) (zipNames streams pkg2 temp2) :=
  zipNames_perm_of_union hs hp1 ht1 (zipNames_nodup hs hp2 ht2)
    (fun n => (mem_zipNames streams pkg2 temp2 n).trans (or_congr_right (h n).symm))

/-- the *order* of the listing does depend on the tier split (Pkg keys descending first, then the
spilled-only names), so a permutation is the strongest tier-independent statement -/
theorem order_depends_on_tier :
    zipNames [] ["xl/a.xml", "xl/z.xml"] [] ≠ zipNames [] ["xl/a.xml"] ["xl/z.xml"] := by decide

/-- why the temp loop needs the test against File.streams: a worksheet that was spilled at open and
rewritten with the stream writer (in File.streams and in File.tempFiles, not in File.Pkg) was written twice -/
theorem old_temp_loop_duplicates :
    ¬ (zipNamesOld ["xl/worksheets/sheet1.xml"] ["xl/workbook.xml"] ["xl/worksheets/sheet1.xml"]).Nodup := by decide

end XlModel.ZipList
