/-
C18 — sheetpr.go `SetPageMargins` / `GetPageMargins`: a hand-written field copy (a reflect loop over
the first `marginLoopBound` fields of the option struct by field NAME into `xlsxPageMargins`, two
explicit assignments into `xlsxPrintOptions`).  The model is by position in the option struct's field
order; that position = name is a bijection onto the float64 fields of `xlsxPageMargins`, and that the
getter copies name to the same name, is a pinned fact (`Props.C18.margins_facts_pinned`).  Margin
values are an arbitrary type `α` (the code only copies them): `Float` is opaque to the kernel, the
driver instantiates `α` with the canonical decimal text.  Core Lean only.
-/
import XlModel.Generated.FactsC18

namespace XlModel.Margins

/-- the two optional parts of the worksheet the functions touch -/
structure St (α : Type) where
  /-- `ws.PageMargins`: nil, or the six values in option-field order -/
  pm : Option (List α)
  /-- `ws.PrintOptions`: nil, or (HorizontalCentered, VerticalCentered) -/
  po : Option (Bool × Bool)
  deriving DecidableEq, Repr

/-- `PageLayoutMarginsOptions`: the pointer-to-float64 fields in struct order, then the two *bool -/
structure Opts (α : Type) where
  m : List (Option α)
  h : Option Bool
  v : Option Bool
  deriving DecidableEq, Repr

/-- the reflect loop: a non-nil option field overwrites the field of the same name -/
def merge {α : Type} : List (Option α) → List α → List α
  | some a :: m, _ :: xs => a :: merge m xs
  | none :: m, x :: xs => x :: merge m xs
  | _, xs => xs

/-- defaults in option-field order, looked up by name in a `Name: value` literal (`none`: a name
without an entry — Go's zero value would be stored; not the case on the pinned facts) -/
def defaultsOf (lit : List (String × String)) : Option (List String) :=
  Facts.C18.marginOptFloatFields.mapM (fun n => lit.lookup n)

/-- `SetPageMargins` with non-nil options; `d` = the literal of `preparePageMargins` -/
def setM {α : Type} (d : List α) (st : St α) (o : Opts α) : St α :=
  let pm := if o.m.all Option.isNone then st.pm else some (merge o.m (st.pm.getD d))
  let po := match o.h with
    | some b => some (b, (st.po.getD (false, false)).2)
    | none => st.po
  let po := match o.v with
    | some b => some ((po.getD (false, false)).1, b)
    | none => po
  ⟨pm, po⟩

/-- `GetPageMargins`; `d` = the defaults literal of the getter -/
def getM {α : Type} (d : List α) (st : St α) : Opts α :=
  ⟨(st.pm.getD d).map some, st.po.map (·.1), st.po.map (·.2)⟩

end XlModel.Margins
