/-
C09: the nesting discipline of a token list (hypothesis of `eval_no_panic_functions`), as a
computable checker.  Core Lean only: the driver evaluates it on every `ev` line and the
harness compares it with its own Go implementation.
-/
import XlModel.CalcTotal

namespace XlModel.CalcTotal

/-- a frame of the nesting: function call or parenthesis -/
inductive Fr
  | F
  | P
  deriving DecidableEq, Repr

inductive Cls
  | fstart | fstop | arg | lparen | rparen | other
  deriving DecidableEq, Repr

def cls (t : Tok) : Cls :=
  if isFuncStart t then .fstart
  else if isFuncStop t then .fstop
  else if t.ty == .argument then .arg
  else if isBeginParen t then .lparen
  else if isEndParen t then .rparen
  else .other

/-- the nesting a tokenizer guarantees: function calls and parentheses are properly nested
(a Function Stop with nothing open is tolerated: efp emits an unmatched `)` that way), and an
Argument separator never occurs directly inside a parenthesis.  `inner` = frames opened since
the outermost open function (innermost first), `outer` = parentheses open outside any function. -/
def nestStep (inner : List Fr) (outer : Nat) (t : Tok) : Option (List Fr × Nat) :=
  match cls t with
  | .fstart => some (.F :: inner, outer)
  | .fstop =>
    match inner with
    | [] => some ([], outer)
    | .F :: r => some (r, outer)
    | .P :: _ => none
  | .arg =>
    match inner with
    | .P :: _ => none
    | _ => some (inner, outer)
  | .lparen =>
    match inner with
    | [] => some ([], outer + 1)
    | _ :: _ => some (.P :: inner, outer)
  | .rparen =>
    match inner with
    | [] =>
      match outer with
      | 0 => none
      | o + 1 => some ([], o)
    | .P :: r => some (r, outer)
    | .F :: _ => none
  | .other => some (inner, outer)

def nested : List Fr → Nat → List Tok → Bool
  | _, _, [] => true
  | i, o, t :: ts =>
    match nestStep i o t with
    | none => false
    | some (i', o') => nested i' o' ts

end XlModel.CalcTotal
