/-
C09: the ARRAY-AWARE nesting discipline of a token list — hypothesis of
`Props.C09.eval_no_panic` — as a computable checker.  It is what a tokenizer with a bracket
stack (efp) guarantees:
  * function calls, parentheses and array constants are properly nested;
  * an ARRAYROW start directly inside an array constant that has no open row opens its row;
    anywhere else it is an ordinary function start (efp emits one for every `;` and for a
    function called ARRAYROW); parentheses between the token and its array constant do not matter;
  * a Function Stop closes the innermost open function call, or the open row / the array constant
    the token belongs to (again through parentheses — a stray `)` is emitted as a Function Stop and
    the evaluator then closes the row whatever parentheses are open); with nothing open it is
    tolerated;
  * an Argument separator may sit anywhere (directly inside a parenthesis it separates nothing).
Core Lean only: the driver evaluates it on every `ev` line and the harness compares it with
its own Go implementation.
-/
import XlModel.Nest

namespace XlModel.CalcTotal

/-- a frame of the nesting: function call, parenthesis, array constant (with / without an open row) -/
inductive FrA
  | F
  | P
  | A (row : Bool)
  deriving DecidableEq, Repr

inductive ClsA
  | fstart | astart | rstart | fstop | arg | lparen | rparen | other
  deriving DecidableEq, Repr

def clsA (t : Tok) : ClsA :=
  if isFuncStart t then
    if t.val == "ARRAY" then .astart else if t.val == "ARRAYROW" then .rstart else .fstart
  else if isFuncStop t then .fstop
  else if t.ty == .argument then .arg
  else if isBeginParen t then .lparen
  else if isEndParen t then .rparen
  else .other

def FrA.isA : FrA → Bool
  | .A _ => true
  | _ => false

/-- the array constant a token at the top of these frames belongs to (`array()` of calc.go):
the innermost array frame not separated from the top by a function frame; its row flag -/
def scanA : List FrA → Option Bool
  | [] => none
  | .F :: _ => none
  | .P :: fs => scanA fs
  | .A r :: _ => some r

/-- set the row flag of the array constant `scanA` finds (array rows are transparent to parentheses:
the evaluator's array bookkeeping never touches an operator stack) -/
def setInner (b : Bool) : List FrA → List FrA
  | [] => []
  | .F :: fs => .F :: fs
  | .P :: fs => .P :: setInner b fs
  | .A _ :: fs => .A b :: fs

/-- remove the array constant `scanA` finds -/
def dropInner : List FrA → List FrA
  | [] => []
  | .F :: fs => .F :: fs
  | .P :: fs => .P :: dropInner fs
  | .A _ :: fs => fs

/-- one token against the frames.  `inner` = frames opened since the outermost open function
call (innermost first; its last element is that call), `outer` = frames open outside any
function call (parentheses and array constants). -/
def nestStepA (inner outer : List FrA) (t : Tok) : Option (List FrA × List FrA) :=
  match clsA t with
  | .fstart => some (.F :: inner, outer)
  | .astart =>
    match inner with
    | [] => some ([], .A false :: outer)
    | _ :: _ => some (.A false :: inner, outer)
  | .rstart =>
    -- a row of the array constant the token belongs to, if that constant has no open row
    -- (`scanA`, through parentheses); otherwise an ordinary function start (repository fix d5de215)
    match scanA (inner ++ outer) with
    | some false =>
      match inner with
      | [] => some ([], setInner true outer)
      | _ :: _ => some (setInner true inner, outer)
    | _ => some (.F :: inner, outer)
  | .fstop =>
    -- closes the innermost function call; or the open row / the array constant the token belongs
    -- to (through parentheses: the evaluator closes them whatever parentheses are open); out of
    -- every function call with no array constant in reach it is tolerated (efp emits an unmatched `)` so)
    match inner with
    | .F :: r => some (r, outer)
    | [] =>
      match scanA outer with
      | some true => some ([], setInner false outer)
      | some false => some ([], dropInner outer)
      | none => some ([], outer)
    | x :: r =>
      match scanA (x :: r) with
      | some true => some (setInner false (x :: r), outer)
      | some false => some (dropInner (x :: r), outer)
      | none => none
  | .arg => some (inner, outer)   -- directly inside a parenthesis it separates nothing (repository fix cdb1ef6)
  | .lparen =>
    match inner with
    | [] => some ([], .P :: outer)
    | _ :: _ => some (.P :: inner, outer)
  | .rparen =>
    match inner with
    | .P :: r => some (r, outer)
    | [] =>
      match outer with
      | .P :: o => some ([], o)
      | _ => none
    | _ => none
  | .other => some (inner, outer)

def nestedA : List FrA → List FrA → List Tok → Bool
  | _, _, [] => true
  | i, o, t :: ts =>
    match nestStepA i o t with
    | none => false
    | some (i', o') => nestedA i' o' ts

/-- the frames as the operator stacks see them: array constants put nothing on a stack -/
def strip : List FrA → List Fr
  | [] => []
  | .F :: fs => .F :: strip fs
  | .P :: fs => .P :: strip fs
  | .A _ :: fs => strip fs

end XlModel.CalcTotal
