/-
Model of number-format rendering (numfmt.go; property C10).  Core Lean only.

Inputs that are *parameters* (not modelled, supplied by the harness on every
transcript line and compared through the correspondence):

* the nfp section/token list (`nfp.Parse` is third-party code),
* the binary64 layer as a record `NumIn` of closures (what `strconv.ParseFloat`,
  `isNumeric`, `strconv.FormatFloat`, `math.Round(x*10^d)/10^d` and
  `fmt.Sprintf("%.*f")` return for this value).  The driver instantiates it with
  Lean's hardware `Float` + exact `Nat` digit generation (`NumFmtFloat.lean`); the
  theorems instantiate it with *exact decimal arithmetic* (`Exact.numIn`) or
  keep it abstract,
* calendar fields of the serial (`timeFromExcelTime` belongs to C19) and the
  locale-table lookups (`DateIn`).

`Impl` transcribes: format (section loop), getValueSectionType,
positiveHandler, negativeHandler, textHandler, alignmentHandler,
getNumberFmtConf, getNumberPartLen, numberHandler, printBigNumber,
printCommaSep, printNumberLiteral, handleDigitsLiteral,
currencyLanguageHandler (Options.LongDatePattern / LongTimePattern as `DateIn.sysDate/sysTime`), dateTimeHandler, dateTimesHandler,
yearsHandler (Gregorian part), daysHandler, hoursHandler, minutesHandler,
secondsHandler, elapsedDateTimesHandler, hoursNext, apNext, isMonthToken.

Every slice index / slice expression the Go code performs without a guard is an
explicit `panic` outcome here (`aps[1]`, `strconv.Itoa(year)[2:]`).
Not modelled (outcome `unmodelled`): fractionHandler (`# ?/?`), switch
arguments (`[DBNum1]`), Japanese-era / ROC year handlers, non-nil Options.
-/
import XlModel.Basic
import XlModel.Generated.FactsC10

namespace XlModel.NumFmt
open XlModel

abbrev Str := List Char

inductive Out where
  | ok (s : Str)
  | panic
  | unmodelled
  /-- `nf.unsupported()`: the section is not supported, `format` returns the stored value as it is -/
  | fallback
  deriving DecidableEq, Repr

structure Part where
  ty : String
  val : Str
  /-- `getSupportedLanguageInfo(strings.ToUpper(v))` succeeds for the effective value (tables not modelled) -/
  langOk : Bool
  deriving DecidableEq, Repr

structure Tok where
  ty : String
  val : Str
  parts : List Part := []
  deriving DecidableEq, Repr

structure Sec where
  ty : String
  items : List Tok
  deriving DecidableEq, Repr

/-! ## thresholds and tables (regenerated facts) -/

def natAt (l : List Nat) (i : Nat) : Nat := (l[i]?).getD 0

/-- `precision > 15 && intLen+fracLen > 15` in numberHandler -/
def bigPrecision : Nat := natAt Facts.C10.numberHandlerInts 0
def bigLen : Nat := natAt Facts.C10.numberHandlerInts 1
/-- `nf.expBaseLen != 2` -/
def expBaseWant : Nat := natAt Facts.C10.numberHandlerInts 3
/-- `precision > 11` for General -/
def generalPrecision : Nat := natAt Facts.C10.positiveHandlerInts 1
/-- millisecond placeholder cap -/
def msCap : Nat := natAt Facts.C10.dateTimeHandlerInts 0
/-- group size of printCommaSep -/
def groupSize : Nat := natAt Facts.C10.printCommaSepInts 3

def isNumberTok (t : Tok) : Bool := Facts.C10.supportedNumberTokenTypes.contains t.ty
def isDateTok (t : Tok) : Bool := Facts.C10.supportedDateTimeTokenTypes.contains t.ty
def isSupportedTy (ty : String) : Bool := Facts.C10.supportedTokenTypes.contains ty

/-! ## byte-string helpers -/

def bs (x : String) : Str := bytesOf x

def isLo (c : Char) : Bool := 97 ≤ c.toNat && c.toNat ≤ 122
def upC (c : Char) : Char := if isLo c then Char.ofNat (c.toNat - 32) else c
/-- `strings.ToUpper` on ASCII (the harness keeps other case-mapped runes out of the transcript) -/
def upper (s : Str) : Str := s.map upC
def hasC (s : Str) (c : Char) : Bool := s.contains c
/-- `inStrSlice(xs, s, false)`: `EqualFold` or equal -/
def inFold (xs : List Str) (s : Str) : Bool := xs.any fun x => upper x == upper s || x == s

def isDigitC (c : Char) : Bool := 48 ≤ c.toNat && c.toNat ≤ 57

def itoaAux : Nat → Str
  | 0 => []
  | n + 1 => itoaAux ((n + 1) / 10) ++ [Char.ofNat ((n + 1) % 10 + 48)]
decreasing_by omega

/-- `strconv.Itoa` -/
def itoa (n : Nat) : Str := if n = 0 then ['0'] else itoaAux n
def itoaInt (i : Int) : Str := if i < 0 then '-' :: itoa i.natAbs else itoa i.toNat
/-- `fmt.Sprintf("%02d")` of a non-negative value -/
def pad2 (n : Nat) : Str := if n < 10 then '0' :: itoa n else itoa n
def pad3 (n : Nat) : Str := if n < 10 then '0' :: '0' :: itoa n else if n < 100 then '0' :: itoa n else itoa n

/-- `strings.Split(s, sep)` for a one-byte separator -/
def splitC (sep : Char) : Str → List Str
  | [] => [[]]
  | c :: cs =>
    if c = sep then [] :: splitC sep cs
    else match splitC sep cs with
      | [] => [[c]]
      | p :: ps => (c :: p) :: ps

def zeros (n : Nat) : Str := List.replicate n '0'

/-! ## the binary64 layer, as a parameter -/

structure NumIn where
  /-- `isNumeric(value)`: accepted by big.Float.SetString and no '_' -/
  isNum : Bool
  /-- digits of `FormatFloat(flt,'f',-1,64)` without the point -/
  precision : Nat
  /-- `strconv.ParseFloat(value) < 0` -/
  neg : Bool
  /-- `strconv.ParseFloat(value) == 0` -/
  zero : Bool
  /-- `FormatFloat(|number|,'f',-1,64)` -/
  absShort : Str
  /-- `TrimLeft(FormatFloat(decimal*100^(percent>0),'f',-1,64),"-")` -/
  bigShort : Bool → Str
  /-- `fixed pct d = Sprintf("%.{d}f", |Round(number*100^pct*10^d)/10^d|)` (no padding) -/
  fixed : Nat → Nat → Str
  /-- `sci pct d = Sprintf("%.{d}E", |number*100^pct|)` -/
  sci : Nat → Nat → Str
  /-- `FormatFloat(number,'G',10,64)` -/
  general : Str
  /-- fraction formats: the continued-fraction terms `floor(1/n)` of `|frac(number)|` as binary64
  computes them (`continuedFraction` in lib.go), each stored as `a - 1`: a term is at least 1 because
  `0 < n < 1` (the non-finite numbers are kept out of the transcript) -/
  cfPred : List Nat := []
  /-- `fixedFloor pct d = Sprintf("%.{d}f", Round(Floor(|number*100^pct|)*10^d)/10^d)` (fraction formats) -/
  fixedFloor : Nat → Nat → Str := fun _ _ => []

/-! ## getNumberFmtConf / getNumberPartLen -/

structure Conf where
  intHolder : Nat := 0
  intPadding : Nat := 0
  fracHolder : Nat := 0
  fracPadding : Nat := 0
  expBaseLen : Nat := 0
  percent : Nat := 0
  useCommaSep : Bool := false
  useFraction : Bool := false
  usePointer : Bool := false
  useSci : Bool := false
  hasSwitch : Bool := false
  deriving DecidableEq, Repr

/-- one iteration of getNumberFmtConf's loop (a token has exactly one type, so the
sequence of `if`s is a case distinction; `continue` ends the iteration) -/
def confStep (c : Conf) (t : Tok) : Conf :=
  let n := t.val.length
  if t.ty = "HashPlaceHolder" then
    if c.usePointer then { c with fracHolder := c.fracHolder + n } else { c with intHolder := c.intHolder + n }
  else if t.ty = "Exponential" then { c with useSci := true }
  else if t.ty = "ThousandsSeparator" then { c with useCommaSep := true }
  else if t.ty = "Percent" then { c with percent := c.percent + n }
  else if t.ty = "DecimalPoint" then { c with usePointer := true }
  else if t.ty = "Fraction" then { c with useFraction := true }
  else if t.ty = "SwitchArgument" then { c with hasSwitch := true }
  else if t.ty = "ZeroPlaceHolder" then
    let c := { c with intHolder := 0 }
    if c.usePointer then
      if c.useSci then { c with expBaseLen := c.expBaseLen + n } else { c with fracPadding := c.fracPadding + n }
    else { c with intPadding := c.intPadding + n }
  else c

def getConf (items : List Tok) : Conf := items.foldl confStep {}

/-- getNumberPartLen: (intLen, fracLen) from the shortest rendering of |number| -/
def partLen (c : Conf) (absShort : Str) : Nat × Nat :=
  let parts := splitC '.' absShort
  let intPart := match parts with | p :: _ => p.length | [] => 0
  let fracPart := match parts with | [_, q] => q.length | _ => 0
  let intHolder := if c.intHolder > intPart then intPart else c.intHolder
  let intLen := if c.intPadding + intHolder > intPart then c.intPadding + intHolder else intPart
  let fracLen := if fracPart > c.fracHolder + c.fracPadding then c.fracHolder + c.fracPadding else fracPart
  let fracLen := if c.fracPadding > fracPart then c.fracPadding else fracLen
  (intLen, fracLen)

/-! ## printCommaSep -/

/-- the loop of printCommaSep over the integer part: `rem` = `length - i` -/
def commaLoop : (first : Bool) → Str → Str
  | _, [] => []
  | first, c :: cs =>
    (if !first && (cs.length + 1) % groupSize = 0 then [','] else []) ++ c :: commaLoop false cs

/-- printCommaSep: the first `len(subStr[0])` bytes of `text` are `subStr[0]` itself -/
def printCommaSep (text : Str) : Str :=
  match splitC '.' text with
  | [] => []
  | [p] => commaLoop true p
  | [p, q] => commaLoop true p ++ '.' :: q
  | p :: _ => commaLoop true p

/-! ## handleDigitsLiteral / printNumberLiteral -/

/-- the `for i := 0; i < l; i++` loop: emits `text[i+off]` where the index is in range -/
def emitRange (text : Str) (off : Int) (l : Nat) : Str :=
  (List.range l).filterMap fun (i : Nat) =>
    let j : Int := (i : Int) + off
    if 0 ≤ j then text[j.toNat]? else none

def handleDigitsLiteral (text : Str) (tokenValueLen : Nat) (intPartLen : Int) (hashZeroPartLen : Nat) : Nat × Str :=
  let l := if intPartLen = 0 ∧ text.length > hashZeroPartLen then text.length + tokenValueLen - hashZeroPartLen else tokenValueLen
  let off : Int := if text.length < hashZeroPartLen then intPartLen + ((text.length : Int) - (hashZeroPartLen : Int)) else intPartLen
  (l, emitRange text off l)

structure LitSt where
  result : Str
  intPartLen : Int := 0
  currency : Str := []
  localCode : Str := []
  deriving Repr

def langSys1 : List Str := [bs "F800", bs "x-sysdate", bs "1010000"]
def langSys2 : List Str := [bs "F400", bs "x-systime"]

/-- currencyLanguageHandler with `opts = nil`: returns (error, currencyString, localCode) -/
def currencyLanguage : List Part → Str → Str → Bool × Str × Str
  | [], cur, lc => (false, cur, lc)
  | p :: ps, cur, lc =>
    if !isSupportedTy p.ty then (true, cur, lc)
    else if p.ty = "LanguageInfo" then
      let v := if inFold langSys1 p.val then bs "409" else p.val
      let v := if inFold langSys2 v then bs "409" else v
      if !p.langOk then (true, cur, lc) else currencyLanguage ps cur (upper v)
    else if p.ty = "CurrencyString" then (false, p.val, lc)
    else currencyLanguage ps cur lc

inductive CLRes where
  | err
  | changed (date : Bool)
  | ok
  deriving DecidableEq, Repr

/-- currencyLanguageHandler with Options: `hasLD` / `hasLT` = LongDatePattern / LongTimePattern is
non-empty.  A system date (time) tag then makes the handler return `changeNumFmtCode = true`. -/
def currencyLanguageO (hasLD hasLT : Bool) : List Part → Str → Str → CLRes × Str × Str
  | [], cur, lc => (.ok, cur, lc)
  | p :: ps, cur, lc =>
    if !isSupportedTy p.ty then (.err, cur, lc)
    else if p.ty = "LanguageInfo" then
      if inFold langSys1 p.val && hasLD then (.changed true, cur, lc)
      else
        let v := if inFold langSys1 p.val then bs "409" else p.val
        if inFold langSys2 v && hasLT then (.changed false, cur, lc)
        else
          let v := if inFold langSys2 v then bs "409" else v
          if !p.langOk then (.err, cur, lc) else currencyLanguageO hasLD hasLT ps cur (upper v)
    else if p.ty = "CurrencyString" then (.ok, p.val, lc)
    else currencyLanguageO hasLD hasLT ps cur lc

def isPlaceholder (t : Tok) : Bool :=
  t.ty = "HashPlaceHolder" || t.ty = "ZeroPlaceHolder" || t.ty = "DigitalPlaceHolder"

def hashZeroLen (items : List Tok) : Nat :=
  (items.filter fun t => t.ty = "HashPlaceHolder" || t.ty = "ZeroPlaceHolder").foldl (fun a t => a + t.val.length) 0

def litStep (text : Str) (hz : Nat) (st : LitSt) (t : Tok) : LitSt :=
  if t.ty = "CurrencyLanguage" then
    let (_, cur, lc) := currencyLanguage t.parts st.currency st.localCode
    { st with currency := cur, localCode := lc, result := st.result ++ cur }
  else if t.ty = "Literal" then { st with result := st.result ++ t.val }
  else if isPlaceholder t then
    let (digits, str) := handleDigitsLiteral text t.val.length st.intPartLen hz
    { st with intPartLen := st.intPartLen + digits, result := st.result ++ str }
  else st

def hasUnmodelled (items : List Tok) : Bool :=
  items.any (fun t => t.ty = "Denominator" || t.ty = "SwitchArgument") ||
    (items.any (fun t => t.ty = "Fraction") && items.any (fun t => t.ty = "Exponential"))

/-! ## fraction formats (`# ?/?`): fractionHandler, newRat, continuedFraction -/

/-- `1/(a₁ + 1/(a₂ + … 1/(a_k + 0)))` as big.Rat computes it (`res.Inv(y + next)`): numerator and
denominator; the list holds `a - 1` -/
def cfEval : List Nat → Nat × Nat
  | [] => (0, 1)
  | a :: rest =>
    let pq := cfEval rest
    (pq.2, (a + 1) * pq.2 + pq.1)

/-- the `for i := 0; i < 5000; i++` loop of fractionHandler: `newRat(frac, i, 0)` uses the first
`i - 1` terms; the last rational whose denominator fits the placeholder is kept, the first that does
not fit ends the loop -/
def fracLoop (terms : List Nat) (ph : Nat) : (i fuel : Nat) → Str → Str
  | _, 0, rat => rat
  | i, fuel + 1, rat =>
    let pq := cfEval (terms.take (i - 1))
    if (itoa pq.2).length ≤ ph then
      fracLoop terms ph (i + 1) fuel (if pq.1 = 0 then [' ', ' ', ' '] else itoa pq.1 ++ '/' :: itoa pq.2)
    else rat

def fracIterations : Nat := natAt Facts.C10.fractionHandlerInts 1

/-- fractionHandler for a token met after the `/` (denominator tokens are not modelled) -/
def fractionHandler (terms : List Nat) (t : Tok) : Str :=
  if t.ty = "DigitalPlaceHolder" then fracLoop terms t.val.length 0 fracIterations [] else []

/-- printNumberLiteral (no fraction / switch argument in scope) -/
def printNumberLiteral (items : List Tok) (usePositive : Bool) (text : Str) : Str :=
  let st0 : LitSt := { result := if usePositive then ['-'] else [] }
  (items.foldl (litStep text (hashZeroLen items)) st0).result

/-- printNumberLiteral when the section holds a `/`: from the Fraction token on every token also
appends fractionHandler's string -/
def litStepF (terms : List Nat) (text : Str) (hz : Nat) (acc : LitSt × Bool) (t : Tok) : LitSt × Bool :=
  let st := litStep text hz acc.1 t
  let useFrac := acc.2 || t.ty = "Fraction"
  if useFrac then ({ st with result := st.result ++ fractionHandler terms t }, true) else (st, false)

def printNumberLiteralF (terms : List Nat) (items : List Tok) (usePositive : Bool) (text : Str) : Str :=
  let st0 : LitSt := { result := if usePositive then ['-'] else [] }
  (items.foldl (litStepF terms text (hashZeroLen items)) (st0, false)).1.result

/-! ## numberHandler -/

/-- zero flag of `%0{w}.{d}f`: zeros for numbers, blanks for `+Inf` / `NaN` -/
def padLeft (w : Nat) (s : Str) : Str :=
  match s with
  | c :: _ => List.replicate (w - s.length) (if isDigitC c then '0' else ' ') ++ s
  | [] => List.replicate w ' '

def percents (n : Nat) : Str := List.replicate n '%'

/-- increment a decimal digit string: trailing 9s become 0, the next digit is bumped, or a 1 is prepended -/
def incRev : Str → Str
  | [] => ['1']
  | c :: cs => if c = '9' then '0' :: incRev cs else Char.ofNat (c.toNat + 1) :: cs

def incDigits (s : Str) : Str := (incRev s.reverse).reverse

def printBigNumber (c : Conf) (n : NumIn) (fracLen : Nat) : Str :=
  let result := n.bigShort (c.percent > 0)
  let result :=
    if fracLen > 0 then
      match splitC '.' result with
      | [p, q] =>
        if q.length < fracLen then result ++ zeros (fracLen - q.length)
        else if q.length > fracLen then
          -- round half away from zero on the decimal digits (`parts[1][fracLen] >= '5'`)
          let digits := p ++ q.take fracLen
          let digits := if (q[fracLen]?).any (fun ch => ch.toNat ≥ 53) then incDigits digits else digits
          digits.take (digits.length - fracLen) ++ '.' :: digits.drop (digits.length - fracLen)
        else result
      | _ => result ++ '.' :: zeros fracLen
    else result
  let result := if c.useCommaSep then printCommaSep result else result
  if c.percent > 0 then result ++ ['%'] else result

/-- numberHandler for a section with a `/` (no exponent token): the integer part is
`Floor(|number|)`, the fraction comes from the continued fraction of `|frac(number)|` -/
def fractionNumber (items : List Tok) (usePositive : Bool) (n : NumIn) : Out :=
  let c := getConf items
  let (intLen, fracLen) := partLen c n.absShort
  if n.isNum ∧ n.precision > bigPrecision ∧ intLen + fracLen > bigLen then
    .ok (printNumberLiteralF n.cfPred items usePositive (printBigNumber c n fracLen))
  else
    let paddingLen := intLen + fracLen + (if fracLen > 0 then 1 else 0)
    let r := padLeft paddingLen (n.fixedFloor c.percent fracLen)
    let r := if c.useCommaSep then printCommaSep r else r
    .ok (printNumberLiteralF n.cfPred items usePositive (r ++ percents c.percent))

def numberHandler (items : List Tok) (value : Str) (usePositive : Bool) (n : NumIn) : Out :=
  if hasUnmodelled items then .unmodelled else
  if (getConf items).useFraction then fractionNumber items usePositive n else
  let c := getConf items
  let (intLen, fracLen) := partLen c n.absShort
  if n.isNum ∧ n.precision > bigPrecision ∧ intLen + fracLen > bigLen ∧ !c.useSci then
    .ok (printNumberLiteral items usePositive (printBigNumber c n fracLen))
  else
    let paddingLen := intLen + fracLen + (if fracLen > 0 then 1 else 0)
    if c.useSci then
      if c.expBaseLen ≠ expBaseWant then .fallback
      else
        let r := n.sci c.percent fracLen
        let r := if c.useCommaSep then printCommaSep r else r
        .ok (printNumberLiteral items usePositive (r ++ percents c.percent))
    else
      let r := padLeft paddingLen (n.fixed c.percent fracLen)
      let r := if c.useCommaSep then printCommaSep r else r
      .ok (printNumberLiteral items usePositive (r ++ percents c.percent))

/-! ## date/time path -/

structure TimeF where
  year : Int
  month : Nat
  day : Nat
  hour : Nat
  minute : Nat
  second : Nat
  nano : Nat
  /-- `t.Unix() - epoch.Unix()`: whole seconds since serial 0 of the workbook's date system -/
  elapsedSec : Int
  deriving Repr, DecidableEq

structure Locale where
  ok : Bool
  apFmt : Str
  month3 : Str
  month4 : Str
  month5 : Str
  wdAbbr : Str
  wd : Str
  /-- tags contain zh-TW or ja-JP (era handlers: not modelled) -/
  era : Bool
  deriving Repr

structure DateIn where
  /-- `timeFromExcelTime(number, date1904)` -/
  t0 : TimeF
  /-- `t0.Add(time.Second)` -/
  t1 : TimeF
  /-- `timeFromExcelTime(number, false).Hour()` (no longer read: hoursNext uses `nf.t` since the fix) -/
  hour1900 : Nat
  /-- locale lookups by upper-cased code, for t0 and for t1 -/
  loc0 : Str → Locale
  loc1 : Str → Locale
  /-- Options.LongDatePattern is set: the nested `format(nf.value, LongDatePattern, nf.date1904, nf.cellType, opts')`
  (same value, same date system, patterns cleared) that replaces `nf.value` on a system long-date tag -/
  sysDate : Option Out := none
  /-- the same for Options.LongTimePattern and the system time tags -/
  sysTime : Option Out := none

def amPm : List Str := [['A', 'M', '/', 'P', 'M'], ['A', '/', 'P'], [Char.ofNat 0xe4, Char.ofNat 0xb8, Char.ofNat 0x8a, Char.ofNat 0xe5, Char.ofNat 0x8d, Char.ofNat 0x88, '/', Char.ofNat 0xe4, Char.ofNat 0xb8, Char.ofNat 0x8b, Char.ofNat 0xe5, Char.ofNat 0x8d, Char.ofNat 0x88]]

structure DtSt where
  result : Str := []
  ap : Str := []
  currency : Str := []
  localCode : Str := []
  hours : Bool := false
  seconds : Bool := false
  deriving Repr

def tokHas (t : Tok) (c : Char) : Bool := hasC (upper t.val) c

/-- hoursNext: the hour of `nf.t` if an hours token follows position i, else -1 -/
def hoursNext (items : List Tok) (i : Nat) (tm : TimeF) : Int :=
  if (items.drop (i + 1)).any (fun t => t.ty = "DateTimes" && tokHas t 'H') then (tm.hour : Int) else -1

/-- apNext: the AM/PM token (if any) found after position i before the next hours token -/
def apNextAux : List Tok → Option Str
  | [] => none
  | t :: ts =>
    if t.ty = "DateTimes" then
      if tokHas t 'H' then none
      else if inFold amPm t.val then some t.val
      else apNextAux ts
    else apNextAux ts

def apNext (items : List Tok) (i : Nat) : Option Str := apNextAux (items.drop (i + 1))

/-- isMonthToken -/
def timePrevious : List Tok → Bool      -- list = tokens before i, nearest first
  | [] => false
  | t :: ts =>
    if t.ty = "DateTimes" then tokHas t 'H' || tokHas t 'S'
    else if t.ty = "ElapsedDateTimes" then true
    else timePrevious ts

def secondsNext : List Tok → Bool
  | [] => false
  | t :: ts => if t.ty = "DateTimes" then tokHas t 'S' else secondsNext ts

def isMonthToken (items : List Tok) (i : Nat) : Bool :=
  !(timePrevious (items.take i).reverse || secondsNext (items.drop (i + 1)))

/-- localAmPm then `strings.Split(_, "/")` -/
def apParts (loc : Locale) (tokVal : Str) : List Str :=
  splitC '/' (if loc.ok then loc.apFmt else tokVal)

inductive Step (α : Type) where
  | go (a : α)
  | panic
  | unmodelled

/-- dateTimesHandler for token i -/
def dateTimesHandler (items : List Tok) (i : Nat) (t : Tok) (tm : TimeF) (loc : Locale) (d : DateIn) (st : DtSt) : Step DtSt :=
  if inFold amPm (upper t.val) then
    if st.ap = [] then
      let nextHours := hoursNext items i tm
      let aps := apParts loc t.val
      match aps with
      | [] => .panic
      | a0 :: rest =>
        if nextHours ≥ 12 then
          match rest with
          | a1 :: _ => .go { st with ap := a1, result := st.result ++ a1 }
          | [] => .panic
        else .go { st with ap := a0, result := st.result ++ a0 }
    else .go { st with result := st.result ++ st.ap }
  else
    let l := t.val.length
    let monthOut : Option Str :=
      if tokHas t 'M' then
        if l = 1 ∧ isMonthToken items i then some (itoa tm.month)
        else if l = 2 ∧ isMonthToken items i then some (pad2 tm.month)
        else if l = 3 then some loc.month3
        else if l = 4 ∨ l > 5 then some loc.month4
        else if l = 5 then some loc.month5
        else none
      else none
    match monthOut with
    | some s => .go { st with result := st.result ++ s }
    | none =>
      -- yearsHandler
      let yr : Step DtSt :=
        if tokHas t 'Y' then
          let ys := itoaInt tm.year
          if l ≤ 2 then
            if ys.length < 2 then .panic else .go { st with result := st.result ++ ys.drop 2 }
          else .go { st with result := st.result ++ ys }
        else if loc.era then (if tokHas t 'G' || tokHas t 'E' then .unmodelled else .go st)
        else if tokHas t 'E' then .go { st with result := st.result ++ itoaInt tm.year }
        else .go st
      match yr with
      | .panic => .panic
      | .unmodelled => .unmodelled
      | .go st =>
        -- daysHandler
        let st : DtSt :=
          if tokHas t 'A' then
            if l = 3 then { st with result := st.result ++ loc.wdAbbr }
            else if l > 3 then { st with result := st.result ++ loc.wd }
            else st
          else if tokHas t 'D' then
            if l = 1 then { st with result := st.result ++ itoa tm.day }
            else if l = 2 then { st with result := st.result ++ pad2 tm.day }
            else if l = 3 then { st with result := st.result ++ loc.wdAbbr }
            else { st with result := st.result ++ loc.wd }
          else st
        -- hoursHandler
        let hasH := tokHas t 'H'
        let hr : Step (DtSt × Bool) :=
          if hasH then
            let h := tm.hour
            let r : Step (Str × Nat) :=
              match apNext items i with
              | some v =>
                match apParts loc v with
                | [] => .panic
                | a0 :: rest =>
                  if h ≥ 12 then
                    match rest with
                    | a1 :: _ => .go (a1, if h > 12 then h - 12 else h)
                    | [] => .panic
                  else .go (a0, h)
              | none => .go (st.ap, h)
            match r with
            | .panic => .panic
            | .unmodelled => .unmodelled
            | .go (ap, h) =>
              let h := if ap ≠ [] then
                  let h := if hoursNext items i tm = -1 ∧ h > 12 then h - 12 else h
                  if h = 0 then 12 else h
                else h
              let s := if l = 1 then itoa h else pad2 h
              .go ({ st with ap := ap, hours := true, result := st.result ++ s }, true)
          else .go ({ st with hours := false }, false)
        match hr with
        | .panic => .panic
        | .unmodelled => .unmodelled
        | .go (st, returned) =>
          -- hoursHandler returns from itself only; minutes and seconds still run
          let _ := returned
          let st : DtSt :=
            if tokHas t 'M' then
              { st with hours := false, result := st.result ++ (if l = 1 then itoa tm.minute else pad2 tm.minute) }
            else st
          let st : DtSt :=
            if tokHas t 'S' then
              { st with seconds := true, result := st.result ++ (if l = 1 then itoa tm.second else pad2 tm.second) }
            else { st with seconds := false }
          .go st

/-- elapsedDateTimesHandler (Go's `/` truncates toward zero: `Int.tdiv`) -/
def elapsed (t : Tok) (tm : TimeF) : Str :=
  if tokHas t 'H' then itoaInt (tm.elapsedSec.tdiv 3600)
  else if tokHas t 'M' then itoaInt (tm.elapsedSec.tdiv 60)
  else if tokHas t 'S' then itoaInt tm.elapsedSec
  else []

def dtLoop (items : List Tok) (value : Str) (tm : TimeF) (loc : Str → Locale) (d : DateIn) :
    List (Nat × Tok) → DtSt → Out
  | [], st => .ok st.result
  | (i, t) :: rest, st =>
    if t.ty = "CurrencyLanguage" then
      match currencyLanguageO d.sysDate.isSome d.sysTime.isSome t.parts st.currency st.localCode with
      | (.err, _, _) => .fallback
      | (.changed true, _, _) => d.sysDate.getD (.ok value)
      | (.changed false, _, _) => d.sysTime.getD (.ok value)
      | (.ok, cur, lc) =>
        dtLoop items value tm loc d rest { st with currency := cur, localCode := lc, result := st.result ++ cur }
    else if t.ty = "DateTimes" then
      match dateTimesHandler items i t tm (loc st.localCode) d st with
      | .panic => .panic
      | .unmodelled => .unmodelled
      | .go st => dtLoop items value tm loc d rest st
    else if t.ty = "ElapsedDateTimes" then
      dtLoop items value tm loc d rest { st with result := st.result ++ elapsed t tm }
    else if t.ty = "Literal" then dtLoop items value tm loc d rest { st with result := st.result ++ t.val }
    else if t.ty = "DecimalPoint" then dtLoop items value tm loc d rest { st with result := st.result ++ ['.'] }
    else if t.ty = "SwitchArgument" then .unmodelled
    else if t.ty = "ZeroPlaceHolder" then
      let n := if t.val.length > msCap then msCap else t.val.length
      dtLoop items value tm loc d rest { st with result := st.result ++ (pad3 (tm.nano / 1000000)).take n }
    else dtLoop items value tm loc d rest st

def enum {α} (l : List α) : List (Nat × α) := (List.range l.length).zip l

def dateTimeHandler (items : List Tok) (value : Str) (useMs : Bool) (d : DateIn) : Out :=
  -- nf.t.Add(Round(ns/1e9) s): one second is added when ns ≥ 0.5e9 and no millisecond placeholder
  let late := !useMs && d.t0.nano ≥ 500000000
  let tm := if late then d.t1 else d.t0
  let loc := if late then d.loc1 else d.loc0
  dtLoop items value tm loc d (enum items) {}

/-! ## positive / negative / text handlers, alignment, section loop -/

/-- inner scan of positiveHandler once a date token was met: `none` = fall back to value -/
def dateScan : List Tok → (useDt useMs : Bool) → Option Bool
  | [], _, ms => some ms
  | t :: ts, dt, ms =>
    if isDateTok t then
      if dt && ms then none else dateScan ts true ms
    else if isNumberTok t then
      if t.ty = "ZeroPlaceHolder" then dateScan ts dt true else none
    else dateScan ts dt ms

def positiveLoop (items : List Tok) (value : Str) (usePositive : Bool) (n : NumIn) (d : DateIn) :
    List Tok → (fmtNum : Bool) → Out
  | [], _ => numberHandler items value usePositive n
  | t :: ts, fmtNum =>
    if t.ty = "General" then
      if n.isNum ∧ n.precision > generalPrecision then .ok n.general else .ok value
    else
      let fmtNum := fmtNum || isNumberTok t
      if isDateTok t then
        if fmtNum || n.neg then .fallback
        else match dateScan items false false with
          | none => .fallback
          | some ms => dateTimeHandler items value ms d
      else positiveLoop items value usePositive n d ts fmtNum

def positiveHandler (items : List Tok) (value : Str) (usePositive : Bool) (n : NumIn) (d : DateIn) : Out :=
  if items.any (fun t => !isSupportedTy t.ty) then .fallback
  else positiveLoop items value usePositive n d items false

def negativeHandler (items : List Tok) (value : Str) (usePositive : Bool) (n : NumIn) : Out :=
  if items.any (fun t => !isSupportedTy t.ty || t.ty = "General" || isDateTok t) then .fallback
  else numberHandler items value usePositive n

def textHandler (items : List Tok) (value : Str) : Str :=
  items.foldl (fun r t =>
    if t.ty = "Literal" then r ++ t.val
    else if t.ty = "TextPlaceHolder" ∨ t.ty = "ZeroPlaceHolder" then r ++ value
    else r) []

def alignment (items : List Tok) (r : Str) : Str :=
  match items with
  | [] => r
  | t0 :: _ =>
    let r := if t0.ty = "Alignment" then ' ' :: r else r
    match items.getLast? with
    | some tl => if tl.ty = "Alignment" then r ++ [' '] else r
    | none => r

def Out.map (f : Str → Str) : Out → Out
  | .ok s => .ok (f s)
  | o => o

/-- the end of `format`: a rendering goes through alignmentHandler, a fall-back returns the stored
value as it is -/
def Out.finish (value : Str) (f : Str → Str) : Out → Out
  | .ok s => .ok (f s)
  | .fallback => .ok value
  | o => o

/-- getValueSectionType: (section type, usePositive); `numeric` = cell type is number/date and
isNumeric(value); a zero goes to the Zero-typed section when there is one -/
def valueSectionType (secs : List Sec) (numeric : Bool) (neg : Bool) (zero : Bool) : String × Bool :=
  if !numeric then ("Text", false)
  else if zero && secs.any (fun s => s.ty = "Zero") then ("Zero", false)
  else if !neg then ("Positive", false)
  else if secs.any (fun s => s.ty = "Negative") then ("Negative", false)
  else ("Positive", true)

def selectSection (secs : List Sec) (ty : String) : Option (Nat × Sec) :=
  (enum secs).find? fun p => p.2.ty = ty

/-- format -/
def format (secs : List Sec) (value : Str) (cellNumeric : Bool) (n : NumIn) (d : DateIn) : Out :=
  let numeric := cellNumeric && n.isNum
  let (vst, usePositive) := valueSectionType secs numeric n.neg n.zero
  match selectSection secs vst with
  | none => .ok value
  | some (_, sec) =>
    if numeric then
      if sec.ty = "Positive" then (positiveHandler sec.items value usePositive n d).finish value (alignment sec.items)
      else (negativeHandler sec.items value usePositive n).finish value (alignment sec.items)
    else .ok (alignment sec.items (textHandler sec.items value))

/-! ## Spec: what the property demands of section selection -/

namespace Spec

inductive Cls where
  | pos | neg | zero | text
  deriving DecidableEq, Repr

/-- Excel's rule for `positive;negative;zero;text` by number of sections: the
index of the section under which a value of class `c` is rendered, and whether
the sign must still be shown (`none` = no section applies: the value is shown as stored) -/
def sectionFor (nsec : Nat) (c : Cls) : Option (Nat × Bool) :=
  match nsec, c with
  | 0, _ => none
  | _, .text => if nsec ≥ 4 then some (3, false) else none
  | 1, .neg => some (0, true)
  | 1, _ => some (0, false)
  | 2, .neg => some (1, false)
  | 2, _ => some (0, false)
  | _, .pos => some (0, false)
  | _, .neg => some (1, false)
  | _, .zero => some (2, false)

end Spec

/-! ## exact decimal arithmetic: the instance the accuracy theorems are about -/

namespace Exact

/-- a decimal `(-1)^neg · m · 10^e` -/
structure Dec where
  neg : Bool
  m : Nat
  e : Int
  deriving DecidableEq, Repr

def digitsVal : Str → Option Nat
  | [] => some 0
  | cs => cs.foldl (fun a c => match a with
      | some v => if isDigitC c then some (v * 10 + (c.toNat - 48)) else none
      | none => none) (some 0)

/-- `[+-]digits[.digits][(e|E)[+-]digits]` with at least one mantissa digit -/
def parse (s : Str) : Option Dec :=
  let (neg, s) := match s with
    | '-' :: r => (true, r)
    | '+' :: r => (false, r)
    | _ => (false, s)
  let (mant, ex) := match s.span (fun c => c ≠ 'e' ∧ c ≠ 'E') with
    | (a, []) => (a, none)
    | (a, _ :: b) => (a, some b)
  let (ip, fp) := match splitC '.' mant with
    | [a] => (a, [])
    | [a, b] => (a, b)
    | _ => ([], ['x'])
  if ip.isEmpty ∧ fp.isEmpty then none else
  match digitsVal (ip ++ fp) with
  | none => none
  | some m =>
    let exv : Option Int := match ex with
      | none => some 0
      | some ('-' :: r) => if r.isEmpty then none else (digitsVal r).map fun v => -(v : Int)
      | some ('+' :: r) => if r.isEmpty then none else (digitsVal r).map fun v => (v : Int)
      | some r => if r.isEmpty then none else (digitsVal r).map fun v => (v : Int)
    match exv with
    | none => none
    | some x => some { neg := neg, m := m, e := x - (fp.length : Int) }

/-- round-half-away-from-zero of `m · 10^s` to an integer -/
def roundScaled (m : Nat) (s : Int) : Nat :=
  if s ≥ 0 then m * 10 ^ s.toNat
  else (2 * m + 10 ^ (-s).toNat) / (2 * 10 ^ (-s).toNat)

/-- the integer `k` with `k / 10^d` = `|x| · 100^pct` rounded to `d` decimals -/
def scaledRound (x : Dec) (pct d : Nat) : Nat := roundScaled x.m (x.e + 2 * pct + d)

/-- `k` printed with `d` decimals -/
def renderFixed (k d : Nat) : Str :=
  let ip := itoa (k / 10 ^ d)
  if d = 0 then ip
  else
    let fp := itoaAux (k % 10 ^ d)
    ip ++ '.' :: (zeros (d - fp.length) ++ fp)

def fixed (x : Dec) (pct d : Nat) : Str := renderFixed (scaledRound x pct d) d

/-- exact shortest plain rendering of |x| (no exponent, no trailing zeros) -/
def absPlain (x : Dec) : Str :=
  if x.e ≥ 0 then itoa (x.m * 10 ^ x.e.toNat)
  else
    let d := (-x.e).toNat
    let ip := itoa (x.m / 10 ^ d)
    let fp := itoaAux (x.m % 10 ^ d)
    let fp := zeros (d - fp.length) ++ fp
    let fp := (fp.reverse.dropWhile (· = '0')).reverse
    if fp.isEmpty then ip else ip ++ '.' :: fp

def sigDigits (s : Str) : Nat := (s.filter isDigitC).length

/-- the exact-arithmetic number layer (binary64 replaced by the decimal itself) -/
def numIn (x : Dec) : NumIn where
  isNum := true
  precision := sigDigits (absPlain x)
  neg := x.neg && x.m ≠ 0
  zero := x.m = 0
  absShort := absPlain x
  bigShort := fun pct => absPlain { x with e := x.e + (if pct then 2 else 0) }
  fixed := fixed x
  sci := fun _ _ => []
  general := []

end Exact

end XlModel.NumFmt
