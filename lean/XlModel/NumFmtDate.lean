/-
Join of the number-format model (C10) with the calendar model of C19
(`XlModel.Date`, imported, not copied): the `TimeF` record the date/time handlers read is
what `time.Time`'s accessors report for the instant `timeFromExcelTime` returns.
Core Lean only (linked into the driver, which checks `timeFOfInstant` against the
fields the real code produced on every transcript line).
-/
import XlModel.NumFmt
import XlModel.Date

namespace XlModel.NumFmt
open XlModel XlModel.Date

/-- `Year() Month() Day() Hour() Minute() Second() Nanosecond()` and `Unix() - epoch.Unix()` of the
instant `t` (nanoseconds since 1970-01-01T00:00:00Z) -/
def timeFOfInstant (t : Int) (date1904 : Bool) : TimeF :=
  let c := civilOf t
  { year := c.y, month := c.m.toNat, day := c.d.toNat, hour := c.h.toNat, minute := c.mi.toNat,
    second := c.s.toNat, nano := c.ns.toNat,
    elapsedSec := t / nsPerSec - (if date1904 then Impl.epoch1904 else Impl.epoch1900) / nsPerSec }

/-- what dateTimeHandler reads for the stored number `x` (exact arithmetic, C19's decoder) -/
def dateInOfSerial (x : Rat) (date1904 : Bool) (loc0 loc1 : Str → Locale) : DateIn :=
  let t := Impl.timeFromExcelTime x date1904
  { t0 := timeFOfInstant t date1904, t1 := timeFOfInstant (t + nsPerSec) date1904, hour1900 := 0,
    loc0 := loc0, loc1 := loc1 }

/-- Options.LongDatePattern / LongTimePattern (tokenised by nfp): the nested `format` call of
currencyLanguageHandler runs on the same value, cell type and date system with both patterns cleared -/
def applyOptions (d : DateIn) (longDate longTime : Option (List Sec)) (value : Str) (cellNumeric : Bool)
    (n : NumIn) : DateIn :=
  let d0 : DateIn := { d with sysDate := none, sysTime := none }
  { d0 with sysDate := longDate.map fun secs => format secs value cellNumeric n d0,
            sysTime := longTime.map fun secs => format secs value cellNumeric n d0 }

end XlModel.NumFmt
