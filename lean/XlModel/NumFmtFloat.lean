/-
The binary64 instance of `NumFmt.NumIn`, used only by the line-protocol driver
(never by a theorem: `Float` is opaque to the kernel).  Multiplication,
division and `round` are the hardware operations Go uses; `math.Pow` with an
integer exponent is transcribed (Go's pure-Go `pow` loop: frexp, repeated
squaring, ldexp); `%.{d}f`, `%.{d}E` and `'G',10` are generated from the exact
value `m·2^e` with `Nat` arithmetic and round-half-even, as strconv does.
Shortest renderings (`FormatFloat(x,'f',-1,64)`) are inputs.
-/
import XlModel.NumFmt

namespace XlModel.NumFmt.F64
open XlModel XlModel.NumFmt

/-- Go's math.Pow(x, n) for x > 0 finite and an integer n ≥ 0 -/
def goPow (x : Float) (n : Nat) : Float :=
  if n = 0 then 1.0 else if n = 1 then x else
  let (x1, xe) := x.frExp
  let rec loop (fuel : Nat) (i : Nat) (a1 : Float) (ae : Int) (x1 : Float) (xe : Int) : Float × Int :=
    match fuel with
    | 0 => (a1, ae)
    | fuel + 1 =>
      if i = 0 then (a1, ae) else
      if xe < -4096 ∨ 4096 < xe then (a1, ae + xe) else
      let (a1, ae) := if i % 2 = 1 then (a1 * x1, ae + xe) else (a1, ae)
      let x1 := x1 * x1
      let xe := xe * 2
      let (x1, xe) := if x1 < 0.5 then (x1 + x1, xe - 1) else (x1, xe)
      loop fuel (i / 2) a1 ae x1 xe
  let (a1, ae) := loop 64 n 1.0 0 x1 xe
  a1.scaleB ae

/-- exact value of a finite float: (mantissa, binary exponent) -/
def decode (f : Float) : Nat × Int :=
  let b := f.toBits.toNat
  let ex : Nat := (b / 2 ^ 52) % 2048
  let man := b % 2 ^ 52
  if ex = 0 then (man, -1074) else (man + 2 ^ 52, (ex : Int) - 1075)

def isNeg (f : Float) : Bool := f.toBits.toNat / 2 ^ 63 = 1

/-- round-half-even of num/den -/
def divRoundEven (num den : Nat) : Nat :=
  let q := num / den
  let r := num % den
  if 2 * r > den ∨ (2 * r = den ∧ q % 2 = 1) then q + 1 else q

/-- `Sprintf("%.{d}f", f)` for f ≥ 0 -/
def fmtFixed (f : Float) (d : Nat) : Str :=
  if f.isNaN then bs "NaN" else if f.isInf then bs "+Inf" else
  let (m, e) := decode f
  let k := if e ≥ 0 then m * 2 ^ e.toNat * 10 ^ d else divRoundEven (m * 10 ^ d) (2 ^ (-e).toNat)
  Exact.renderFixed k d

def numDigits (n : Nat) : Nat := (itoa n).length

/-- decimal digits: the value num/den rounded (half even) to `nd` significant digits:
(digit integer S with exactly nd digits, decimal exponent of the first digit) -/
def sigRound (num den : Nat) (nd : Nat) : Nat × Int :=
  -- k10 = floor(log10(num/den))
  let a : Int := numDigits num
  let b : Int := numDigits den
  let k0 : Int := a - b
  let ge (k : Int) : Bool := if k ≥ 0 then num ≥ den * 10 ^ k.toNat else num * 10 ^ (-k).toNat ≥ den
  let k10 : Int := if ge k0 then k0 else k0 - 1
  let sh : Int := (nd : Int) - 1 - k10
  let s := if sh ≥ 0 then divRoundEven (num * 10 ^ sh.toNat) den else divRoundEven num (den * 10 ^ (-sh).toNat)
  if s ≥ 10 ^ nd then (s / 10, k10 + 1) else (s, k10)

def expStr (k : Int) : Str :=
  (if k < 0 then '-' else '+') :: pad2 k.natAbs

/-- `Sprintf("%.{d}E", f)` for f ≥ 0 -/
def fmtSci (f : Float) (d : Nat) : Str :=
  if f.isNaN then bs "NaN" else if f.isInf then bs "+Inf" else
  let (m, e) := decode f
  if m = 0 then (if d = 0 then ['0'] else '0' :: '.' :: zeros d) ++ 'E' :: expStr 0 else
  let (num, den) := if e ≥ 0 then (m * 2 ^ e.toNat, 1) else (m, 2 ^ (-e).toNat)
  let (s, k) := sigRound num den (d + 1)
  let ds := itoa s
  (match ds with
   | c :: rest => if d = 0 then [c] else c :: '.' :: rest
   | [] => []) ++ 'E' :: expStr k

def trimZerosR (s : Str) : Str := (s.reverse.dropWhile (· = '0')).reverse

/-- `strconv.FormatFloat(f, 'G', prec, 64)` for prec ≥ 1 -/
def fmtG (prec : Nat) (f : Float) : Str :=
  if f.isNaN then bs "NaN" else if f.isInf then (if isNeg f then bs "-Inf" else bs "+Inf") else
  let sign : Str := if isNeg f then ['-'] else []
  let (m, e) := decode f
  if m = 0 then sign ++ ['0'] else
  let (num, den) := if e ≥ 0 then (m * 2 ^ e.toNat, 1) else (m, 2 ^ (-e).toNat)
  let (s, k) := sigRound num den prec
  let ds := trimZerosR (itoa s)
  let nd := ds.length
  let dp : Int := k + 1
  let eprec : Int := if prec > nd ∧ (nd : Int) ≥ dp then nd else prec
  let exp := dp - 1
  if exp < -4 ∨ exp ≥ eprec then
    sign ++ (match ds with
      | c :: rest => if rest.isEmpty then [c] else c :: '.' :: rest
      | [] => []) ++ 'E' :: expStr exp
  else
    let prec : Nat := ((nd : Int) - dp).toNat
    let ip : Str := if dp ≤ 0 then ['0'] else ds.take dp.toNat ++ zeros (dp.toNat - nd)
    let fp : Str := (List.range prec).map fun (i : Nat) =>
      let j : Int := dp + (i : Int)
      if 0 ≤ j then (ds[j.toNat]?).getD '0' else '0'
    sign ++ ip ++ (if prec > 0 then '.' :: fp else [])

/-- `strconv.FormatFloat(f, 'G', 10, 64)` (General) -/
def fmtG10 (f : Float) : Str := fmtG 10 f

/-- the continued-fraction terms of lib.go `continuedFraction(n, 1, limit, 0)` in binary64, each as
`a - 1` (for 0 < n < 1 a term is ≥ 1) -/
def cfPredTerms : Nat → Float → List Nat
  | 0, _ => []
  | fuel + 1, n =>
    if n ≤ 0.0 then [] else
    let inv := 1.0 / n
    let y := inv.floor
    (y.toUInt64.toNat - 1) :: cfPredTerms fuel (inv - y)

/-- the NumIn of a float pair (`pf` = ParseFloat(value), `flt` = isNumeric's float) -/
def numIn (isNum : Bool) (precision : Nat) (pf : Float) (absShort big0 big1 : Str) : NumIn where
  isNum := isNum
  precision := precision
  neg := pf < 0.0
  zero := pf == 0.0
  absShort := absShort
  bigShort := fun p => if p then big1 else big0
  fixed := fun pct d =>
    let num := if pct > 0 then pf * goPow 100.0 pct else pf
    let ratio := goPow 10.0 d
    let num := (num * ratio).round / ratio
    fmtFixed num.abs d
  sci := fun pct d =>
    let num := if pct > 0 then pf * goPow 100.0 pct else pf
    fmtSci num.abs d
  general := fmtG10 pf
  cfPred := cfPredTerms 5000 (pf - (if pf ≥ 0.0 then pf.floor else pf.ceil)).abs
  fixedFloor := fun pct d =>
    let num := if pct > 0 then pf * goPow 100.0 pct else pf
    let num := num.abs.floor
    let ratio := goPow 10.0 d
    let num := (num * ratio).round / ratio
    fmtFixed num.abs d

end XlModel.NumFmt.F64
