/-
C10 glue: from a cell's style to the format code (`formattedValue`, `getCustomNumFmtCode`,
`getBuiltInNumFmtCode`, `isLangNumFmt`, `langNumFmtFunc*`, `applyBuiltInNumFmt`), over the
regenerated tables (`builtInNumFmt`, `langNumFmt`) and literals.  `none` = the stored value is
returned as it is.  Core Lean only.
-/
import XlModel.NumFmt

namespace XlModel.NumFmt.Glue
open XlModel XlModel.NumFmt

/-- the Options fields the resolution reads; `culture` is the CultureName ordinal -/
structure GOpts where
  culture : Nat
  short : Str
  longTime : Str
  deriving DecidableEq, Repr

def lit (l : List Nat) (i : Nat) : Nat := (l[i]?).getD 0
def slit (l : List String) (i : Nat) : Str := bytesOf ((l[i]?).getD "")

/-- isLangNumFmt -/
def isLangNumFmt (id : Nat) : Bool :=
  let r := Facts.C10.isLangNumFmtInts
  (lit r 0 ≤ id && id ≤ lit r 1) || (lit r 2 ≤ id && id ≤ lit r 3) || (lit r 4 ≤ id && id ≤ lit r 5)

def tableCode (t : List (Nat × String)) (id : Nat) : Str :=
  match t.lookup id with
  | some s => bytesOf s
  | none => []

/-- langNumFmtFuncEnUS -/
def langEnUS (o : GOpts) (id : Nat) : Str :=
  let r := Facts.C10.langEnUSInts
  let sd := if o.short ≠ [] then o.short else slit Facts.C10.langEnUSStrs 0
  let lt := if o.longTime ≠ [] then o.longTime else slit Facts.C10.langEnUSStrs 1
  if lit r 0 ≤ id ∧ id ≤ lit r 1 then lt
  else if (lit r 2 ≤ id ∧ id ≤ lit r 3) ∨ (lit r 4 ≤ id ∧ id ≤ lit r 5) then sd
  else []

/-- langNumFmtFuncJaJP / KoKR / ZhCN / ZhTW -/
def langTable (ints : List Nat) (t : List (Nat × String)) (o : GOpts) (id : Nat) : Str :=
  if id = lit ints 0 ∧ o.short ≠ [] then o.short
  else if (lit ints 1 ≤ id ∧ id ≤ lit ints 2) ∧ o.longTime ≠ [] then o.longTime
  else tableCode t id

/-- getBuiltInNumFmtCode -/
def builtInCode (o : GOpts) (id : Nat) : Option Str :=
  match Facts.C10.builtInNumFmt.lookup id with
  | some c => some (bytesOf c)
  | none =>
    if isLangNumFmt id then
      match o.culture with
      | 1 => some (langEnUS o id)
      | 2 => some (langTable Facts.C10.langJaJPInts Facts.C10.langNumFmt_ja_jp o id)
      | 3 => some (langTable Facts.C10.langKoKRInts Facts.C10.langNumFmt_ko_kr o id)
      | 4 => some (langTable Facts.C10.langZhCNInts Facts.C10.langNumFmt_zh_cn o id)
      | 5 => some (langTable Facts.C10.langZhTWInts Facts.C10.langNumFmt_zh_tw o id)
      | _ => none
    else none

/-- applyBuiltInNumFmt's override of ids 14 and 22 by Options.ShortDatePattern -/
def applyShort (o : GOpts) (id : Nat) (code : Str) : Str :=
  if o.short ≠ [] then
    if id = lit Facts.C10.applyBuiltInInts 0 then o.short
    else if id = lit Facts.C10.applyBuiltInInts 1 then o.short ++ (slit Facts.C10.applyBuiltInStrs 1).drop 2
    else code
  else code

/-- formattedValue: the code handed to `format` for a cell with style index `s` whose xf carries
number format id `id`; `customs` = the `<numFmt>` elements in document order (id, effective code) -/
def resolve (customs : List (Nat × Str)) (s : Nat) (id : Nat) (o : GOpts) : Option Str :=
  if s = 0 then none
  else match customs.lookup id with
    | some c => some c
    | none => (builtInCode o id).map (applyShort o id)

/-- formattedValue over a tokeniser `tok` (nfp, external): raw value or `format` of the resolved code -/
def formatted (tok : Str → List Sec) (customs : List (Nat × Str)) (s id : Nat) (o : GOpts)
    (value : Str) (cellNumeric : Bool) (n : NumIn) (d : DateIn) : Out :=
  match resolve customs s id o with
  | none => .ok value
  | some code => format (tok code) value cellNumeric n d

/-! ## the cell reader's normalisation of numeric text (cell.go getValueFrom, default cell type) -/

/-- `precision > 15` -/
def normPrecision : Nat := lit Facts.C10.getValueFromInts 3

/-- what `getValueFrom` hands to `formattedValue` for a cell without a type attribute:
numeric text is re-rendered from its binary64 value — shortest digits, or 15 significant digits
('G', 15) when the shortest rendering has more than 15 digits; other text is passed as it is.
`short` = `FormatFloat(decimal,'f',-1,64)`, `g15` = `FormatFloat(decimal,'G',15,64)`. -/
def normalize (isNum : Bool) (precision : Nat) (short g15 raw : Str) : Str :=
  if isNum then (if precision > normPrecision then g15 else short) else raw

/-- GetCellValue of a default-type cell: normalise, then resolve the style to a code and format.
`n'` is the number layer of the NORMALISED text. -/
def read (tok : Str → List Sec) (customs : List (Nat × Str)) (s id : Nat) (o : GOpts)
    (isNum : Bool) (precision : Nat) (short g15 raw : Str) (n' : NumIn) (d : DateIn) : Out :=
  formatted tok customs s id o (normalize isNum precision short g15 raw) true n' d

end XlModel.NumFmt.Glue
