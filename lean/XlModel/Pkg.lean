/-
C05 — package structure.  Core Lean only (linked into the driver).

Part 1  `Graph`/`WF` : an independent validator of a saved package, evaluated
        by the driver on the part graph the harness extracts from the bytes of
        `WriteToBuffer` with archive/zip + encoding/xml (no excelize code).
Part 2  `Impl` : bug-compatible transcription of the relationship /
        content-type / sheet-list bookkeeping of excelize
        (excelize.go addRels, sheet.go deleteSheetRelationships / NewSheet /
        DeleteSheet / setContentTypes / trimRow / trimCell,
        workbook.go addContentTypePart / removeContentTypesPart /
        setContentTypePart*Extensions / setWorkbook), defined over the
        regenerated facts `XlModel.Facts.C05`.
Part 3  `Spec` : the invariant the property demands of the bookkeeping state.
-/
import XlModel.Ref
import XlModel.Generated.FactsC05

namespace XlModel.Pkg
open XlModel XlModel.Ref

abbrev Str := List Char

def sl (s : String) : Str := s.toList
def ls (s : Str) : String := String.ofList s

/-! ## small string helpers -/

def toLower (c : Char) : Char := if isUp c then Char.ofNat (c.toNat + 32) else c
def lower (s : Str) : Str := s.map toLower

def nodupB {α} [BEq α] : List α → Bool
  | [] => true
  | x :: xs => !(xs.contains x) && nodupB xs

def firstDup {α} [BEq α] : List α → Option α
  | [] => none
  | x :: xs => if xs.contains x then some x else firstDup xs

def trimPrefix (p s : Str) : Str := if p.isPrefixOf s then s.drop p.length else s

def splitOn (sep : Char) : Str → List Str
  | [] => [[]]
  | c :: cs =>
    match splitOn sep cs with
    | [] => [[]]
    | h :: t => if c == sep then [] :: h :: t else (c :: h) :: t

def joinWith (sep : Char) : List Str → Str
  | [] => []
  | [x] => x
  | x :: xs => x ++ sep :: joinWith sep xs

/-- path.Clean on a slash path without a leading slash: drop `.`/empty
segments, resolve `..` -/
def cleanSegs (segs : List Str) : List Str :=
  (segs.foldl (fun (acc : List Str) seg =>
    if seg == [] || seg == ['.'] then acc
    else if seg == ['.', '.'] then acc.drop 1
    else seg :: acc) []).reverse

def dirOf (part : Str) : List Str := ((splitOn '/' part).reverse.drop 1).reverse

/-- OPC target resolution: absolute targets from the package root, relative
ones from the directory of the source part -/
def resolveTarget (src target : Str) : Str :=
  match target with
  | '/' :: rest => joinWith '/' (cleanSegs (splitOn '/' rest))
  | _ => joinWith '/' (cleanSegs (dirOf src ++ splitOn '/' target))

def extOf (part : Str) : Str :=
  match (splitOn '/' part).getLast? with
  | none => []
  | some base =>
    match (splitOn '.' base).reverse with
    | [] => []
    | [_] => []
    | e :: _ => lower e

/-- source part of a relationships part: `a/_rels/b.rels` ↦ `a/b`; `_rels/.rels` ↦ "" -/
def relsSource (relsPart : Str) : Option Str :=
  let segs := splitOn '/' relsPart
  match segs.reverse with
  | file :: d :: up =>
    if d == sl "_rels" && (sl ".rels").isSuffixOf file then
      some (joinWith '/' (up.reverse ++ [file.take (file.length - 5)]))
    else none
  | _ => none

/-! ## Part 1: the package graph and the validator -/

structure Rel where
  id : Str
  type : Str
  target : Str
  mode : Str
deriving DecidableEq, Repr, Inhabited

structure CellG where
  ref : Str
  s : Nat
  t : Str
  /-- numeric text of `<v>` (`none`: absent or not a plain natural) -/
  v : Option Nat
  hasF : Bool
deriving Repr, Inhabited

structure RowG where
  r : Int
  cells : List CellG
deriving Repr, Inhabited

structure WsG where
  part : Str
  rows : List RowG
  merges : List Str
  dxfIds : List Nat
deriving Repr, Inhabited

structure SheetEnt where
  name : Str
  sheetId : Int
  rid : Str
deriving DecidableEq, Repr, Inhabited

structure XfG where
  numFmt : Nat
  font : Nat
  fill : Nat
  border : Nat
  xfId : Int
deriving Repr, Inhabited

structure StylesG where
  present : Bool := false
  numFmts : List Nat := []
  fonts : Nat := 0
  fills : Nat := 0
  borders : Nat := 0
  cellStyleXfs : Nat := 0
  dxfs : Nat := 0
  xfs : List XfG := []
deriving Repr, Inhabited

structure TableG where
  part : Str
  id : Nat
  name : Str
  ref : Str
deriving Repr, Inhabited

structure CommentG where
  part : Str
  authors : Nat
  authorId : Nat
  ref : Str
deriving Repr, Inhabited

structure PkgG where
  parts : List Str := []
  /-- (part, where/why the XML parser rejected it) -/
  badXml : List (Str × Str) := []
  defaults : List (Str × Str) := []
  overrides : List (Str × Str) := []
  /-- (relationships part, rel) -/
  rels : List (Str × Rel) := []
  sheets : List SheetEnt := []
  dnames : List (Str × Int) := []
  /-- (part, r:id / r:embed / r:link … value used inside that part) -/
  rids : List (Str × Str) := []
  wss : List WsG := []
  styles : StylesG := {}
  sst : Option Nat := none
  calcs : List (Str × Int) := []
  tables : List TableG := []
  comments : List CommentG := []
  /-- (part, root element, names of the root's child elements in document order) -/
  childOrder : List (Str × Str × List Str) := []
deriving Inhabited

def ctName : Str := sl "[Content_Types].xml"
def relTypeOfficeDoc : Str := sl "http://schemas.openxmlformats.org/officeDocument/2006/relationships/officeDocument"
def relBase : Str := sl "http://schemas.openxmlformats.org/officeDocument/2006/relationships/"
def sheetRelKinds : List Str := [sl "worksheet", sl "chartsheet", sl "dialogsheet", sl "macrosheet"]
def ctWorksheetS : Str := sl "application/vnd.openxmlformats-officedocument.spreadsheetml.worksheet+xml"
def ctChartsheetS : Str := sl "application/vnd.openxmlformats-officedocument.spreadsheetml.chartsheet+xml"

def isSheetRelType (t : Str) : Bool :=
  sheetRelKinds.any fun k => t == relBase ++ k || t == sl "http://purl.oclc.org/ooxml/officeDocument/relationships/" ++ k

/-- strict reference inside the grid: 1–3 upper-case letters, digits without
leading zero -/
def parseRef (s : Str) : Option (Nat × Nat) :=
  let letters := s.takeWhile isUp
  let digits := s.dropWhile isUp
  if letters.isEmpty || letters.length > 3 then none else
  match digits with
  | [] => none
  | d :: _ =>
    if d == '0' then none else
    match colRaw letters, digitsVal digits with
    | some c, some r =>
      if 1 ≤ c && c ≤ Facts.MaxColumns && 1 ≤ r && r ≤ Facts.TotalRows then some (c, r) else none
    | _, _ => none

/-- `A1` or `A1:B2` ↦ (c1, r1, c2, r2), corners ordered -/
def parseRange (s : Str) : Option (Nat × Nat × Nat × Nat) :=
  match splitOn ':' s with
  | [a] => (parseRef a).map fun (c, r) => (c, r, c, r)
  | [a, b] =>
    match parseRef a, parseRef b with
    | some (c1, r1), some (c2, r2) => if c1 ≤ c2 && r1 ≤ r2 then some (c1, r1, c2, r2) else none
    | _, _ => none
  | _ => none

def rectsOverlap (a b : Nat × Nat × Nat × Nat) : Bool :=
  let (ac1, ar1, ac2, ar2) := a
  let (bc1, br1, bc2, br2) := b
  !(ac2 < bc1 || bc2 < ac1 || ar2 < br1 || br2 < ar1)

def firstOverlap : List (Str × (Nat × Nat × Nat × Nat)) → Option (Str × Str)
  | [] => none
  | (n, r) :: rest =>
    match rest.find? (fun q => rectsOverlap r q.2) with
    | some q => some (n, q.1)
    | none => firstOverlap rest

def relsOf (g : PkgG) (relsPart : Str) : List Rel :=
  (g.rels.filter (·.1 == relsPart)).map (·.2)

/-- relationships part of a source part -/
def relsPartOf (src : Str) : Str :=
  let segs := splitOn '/' src
  match segs.reverse with
  | file :: up => joinWith '/' (up.reverse ++ [sl "_rels", file ++ sl ".rels"])
  | [] => sl "_rels/.rels"

def partCT (g : PkgG) (part : Str) : Option Str :=
  match g.overrides.find? (fun o => o.1 == '/' :: part) with
  | some o => some o.2
  | none => (g.defaults.find? (fun d => lower d.1 == extOf part)).map (·.2)

def workbookPart (g : PkgG) : Option Str :=
  ((relsOf g (sl "_rels/.rels")).find? (fun r => r.type == relTypeOfficeDoc ||
      r.type == sl "http://purl.oclc.org/ooxml/officeDocument/relationships/officeDocument")).map
    fun r => resolveTarget [] r.target

def sheetNameValid (n : Str) : Bool :=
  !n.isEmpty && n.length ≤ 4 * Facts.MaxSheetNameLength &&
  !(n.any fun c => (sl ":\\/?*[]").contains c) &&
  n.head? != some '\'' && n.getLast? != some '\''

/-- the sheet part a workbook sheet entry resolves to -/
def sheetTarget (g : PkgG) (wb : Str) (s : SheetEnt) : Option Str :=
  match (relsOf g (relsPartOf wb)).find? (fun r => r.id == s.rid) with
  | some r => if isSheetRelType r.type && r.mode != sl "External" then some (resolveTarget wb r.target) else none
  | none => none

def first? {α β} (xs : List α) (f : α → Option β) : Option β :=
  match xs with
  | [] => none
  | x :: rest => match f x with
    | some b => some b
    | none => first? rest f

def ascending : List Int → Bool
  | [] => true
  | [_] => true
  | a :: b :: rest => a < b && ascending (b :: rest)

def checkRow (g : PkgG) (w : WsG) (row : RowG) : Option String :=
  let cols := row.cells.map fun c => (c, parseRef c.ref)
  match cols.find? (fun p => p.2.isNone) with
  | some p => some s!"cell-ref {ls w.part} row {row.r}: bad reference {ls p.1.ref}"
  | none =>
  match cols.find? (fun p => match p.2 with | some (_, r) => (r : Int) != row.r | none => true) with
  | some p => some s!"cell-row {ls w.part}: cell {ls p.1.ref} inside row {row.r}"
  | none =>
  if !ascending (cols.map fun p => match p.2 with | some (c, _) => (c : Int) | none => 0) then
    some s!"cell-order {ls w.part} row {row.r}: cells not strictly ascending"
  else
  match row.cells.find? (fun c => g.styles.present && c.s ≥ g.styles.xfs.length) with
  | some c => some s!"cell-style {ls w.part}: {ls c.ref} s={c.s} but cellXfs has {g.styles.xfs.length}"
  | none =>
  match row.cells.find? (fun c => c.t == sl "s" && (match c.v, g.sst with
      | some i, some n => i ≥ n
      | _, _ => true)) with
  | some c => some s!"cell-sst {ls w.part}: {ls c.ref} shared-string index out of range"
  | none => none

def checkWs (g : PkgG) (w : WsG) : Option String :=
  if !ascending (w.rows.map (·.r)) then some s!"row-order {ls w.part}: rows not strictly ascending"
  else match w.rows.find? (fun r => r.r < 1 || r.r > (Facts.TotalRows : Int)) with
  | some r => some s!"row-range {ls w.part}: row {r.r}"
  | none =>
  match first? w.rows (checkRow g w) with
  | some e => some e
  | none =>
  let ms := w.merges.map fun m => (m, parseRange m)
  match ms.find? (fun p => p.2.isNone) with
  | some p => some s!"merge-ref {ls w.part}: {ls p.1}"
  | none =>
  match firstOverlap (ms.filterMap fun p => p.2.map fun r => (p.1, r)) with
  | some (a, b) => some s!"merge-overlap {ls w.part}: {ls a} overlaps {ls b}"
  | none =>
  match w.dxfIds.find? (fun d => g.styles.present && d ≥ g.styles.dxfs) with
  | some d => some s!"dxf-range {ls w.part}: dxfId {d} but dxfs has {g.styles.dxfs}"
  | none => none

def checkStyles (st : StylesG) : Option String :=
  if !st.present then none else
  match st.xfs.find? (fun x => !(x.numFmt < 164 || st.numFmts.contains x.numFmt)) with
  | some x => some s!"xf-numfmt: numFmtId {x.numFmt} is neither built-in nor defined"
  | none =>
  match st.xfs.find? (fun x => x.font ≥ st.fonts || x.fill ≥ st.fills || x.border ≥ st.borders) with
  | some x => some s!"xf-component: font {x.font}/{st.fonts} fill {x.fill}/{st.fills} border {x.border}/{st.borders}"
  | none =>
  match st.xfs.find? (fun x => x.xfId ≥ (st.cellStyleXfs : Int)) with
  | some x => some s!"xf-xfid: xfId {x.xfId} but cellStyleXfs has {st.cellStyleXfs}"
  | none => if !nodupB st.numFmts then some "numfmt-dup: duplicate numFmtId" else none

/-- calcChain: entry `i` = sheetId (0/absent: same as the previous entry) -/
def checkCalc (g : PkgG) (wb : Str) : Option String :=
  let rec go (prev : Int) : List (Str × Int) → Option String
    | [] => none
    | (ref, i) :: rest =>
      let sid := if i == 0 then prev else i
      match g.sheets.find? (fun s => s.sheetId == sid) with
      | none => some s!"calc-sheet: calcChain entry {ls ref} names sheetId {sid} which is not in the workbook"
      | some s =>
        match sheetTarget g wb s with
        | none => some s!"calc-sheet: sheet of calcChain entry {ls ref} does not resolve"
        | some part =>
          match g.wss.find? (fun w => w.part == part) with
          | none => go sid rest   -- chartsheet or unparsed: nothing to check
          | some w =>
            if w.rows.any (fun r => r.cells.any fun c => c.ref == ref && c.hasF) then go sid rest
            else some s!"calc-formula: calcChain entry {ls ref} (sheetId {sid}) is not a formula cell of {ls part}"
  go 0 g.calcs

/-! ### element order inside `<worksheet>` / `<chartsheet>` (ECMA-376 CT_Worksheet, CT_Chartsheet) -/

/-- the `xsd:sequence` of CT_Worksheet. `mc:AlternateContent` (markup compatibility wrapper the
library emits for legacy controls) stands where `controls` / `oleObjects` stand; it is listed
after `webPublishItems`, where the writer puts it. -/
def wsSchemaOrder : List String :=
  ["sheetPr", "dimension", "sheetViews", "sheetFormatPr", "cols", "sheetData", "sheetCalcPr",
   "sheetProtection", "protectedRanges", "scenarios", "autoFilter", "sortState", "dataConsolidate",
   "customSheetViews", "mergeCells", "phoneticPr", "conditionalFormatting", "dataValidations",
   "hyperlinks", "printOptions", "pageMargins", "pageSetup", "headerFooter", "rowBreaks", "colBreaks",
   "customProperties", "cellWatches", "ignoredErrors", "smartTags", "drawing", "legacyDrawing",
   "legacyDrawingHF", "drawingHF", "picture", "oleObjects", "controls", "webPublishItems",
   "mc:AlternateContent", "tableParts", "extLst"]

/-- the `xsd:sequence` of CT_Chartsheet -/
def csSchemaOrder : List String :=
  ["sheetPr", "sheetViews", "sheetProtection", "customSheetViews", "pageMargins", "pageSetup",
   "headerFooter", "drawing", "legacyDrawing", "legacyDrawingHF", "drawingHF", "picture",
   "webPublishItems", "extLst"]

/-- elements with maxOccurs > 1 -/
def repeatable (x : String) : Bool := x == "conditionalFormatting" || x == "cols"

def rankIn (schema : List String) (x : String) : Option Nat :=
  let i := schema.idxOf x
  if i < schema.length then some i else none

/-- consecutive elements: strictly later in the sequence, or the same repeatable element -/
def stepOk (schema : List String) (a b : String) : Bool :=
  match rankIn schema a, rankIn schema b with
  | some i, some j => i < j || (a == b && repeatable a)
  | _, _ => false

/-- the sequence check, carrying the previous element -/
def okAfter (schema : List String) : Option String → List String → Bool
  | _, [] => true
  | none, b :: rest => (rankIn schema b).isSome && okAfter schema (some b) rest
  | some a, b :: rest => stepOk schema a b && okAfter schema (some b) rest

def chainOk (schema : List String) (l : List String) : Bool := okAfter schema none l

/-- what a struct-driven writer emits: every field in declaration order, `count f` times -/
def emitSeq (fields : List String) (count : String → Nat) : List String :=
  fields.flatMap fun f => List.replicate (count f) f

def ltB (schema : List String) (a b : String) : Bool :=
  match rankIn schema a, rankIn schema b with
  | some i, some j => i < j
  | _, _ => false

/-- every field is an element of the sequence and the declaration order is strictly the
sequence order (all pairs) -/
def fieldsFollow (schema : List String) : List String → Bool
  | [] => true
  | f :: fs => (rankIn schema f).isSome && fs.all (ltB schema f) && fieldsFollow schema fs

def checkChildOrder (g : PkgG) : Option String :=
  first? g.childOrder fun (part, root, kids) =>
    let schema := if root == sl "worksheet" then some wsSchemaOrder
                  else if root == sl "chartsheet" then some csSchemaOrder else none
    match schema with
    | none => none
    | some sc =>
      if chainOk sc (kids.map ls) then none
      else
        let names := kids.map ls
        let bad := match names.find? (fun n => (rankIn sc n).isNone) with
          | some n => s!"unknown element <{n}>"
          | none => match (names.zip (names.drop 1)).find? (fun (p : String × String) => !stepOk sc p.1 p.2) with
            | some p => s!"<{p.2}> after <{p.1}>"
            | none => "order"
        some s!"{ls part}: {bad} violates the sequence of CT_{if root == sl "worksheet" then "Worksheet" else "Chartsheet"}"

/-- the named conjuncts of `WF`, in evaluation order -/
def wfChecks : List (String × (PkgG → Option String)) := [
  ("zip-unique", fun g => (firstDup g.parts).map fun p => s!"duplicate zip entry {ls p}"),
  ("xml-wellformed", fun g => g.badXml.head?.map fun p => s!"part {ls p.1} is not well-formed XML: {ls p.2}"),
  ("ct-present", fun g => if g.parts.contains ctName then none else some "no [Content_Types].xml"),
  ("ct-override-unique", fun g => (firstDup (g.overrides.map (·.1))).map fun p => s!"two Override elements for {ls p}"),
  ("ct-default-unique", fun g => (firstDup (g.defaults.map fun d => lower d.1)).map fun p => s!"two Default elements for extension {ls p}"),
  ("ct-cover", fun g => (g.parts.find? fun p => p != ctName && (partCT g p).isNone).map
      fun p =>
        -- is the part the target of a relationship that an existing source part actually uses (a live part), or a leftover?
        let referenced := g.rels.any fun (rp, r) => r.mode != sl "External" &&
          (match relsSource rp with
           | some src => (src.isEmpty || g.parts.contains src) && resolveTarget src r.target == p &&
                          (src.isEmpty || g.rids.contains (src, r.id))   -- and the relationship is used inside the source
           | none => false)
        s!"part {ls p} has no content type ({if referenced then "referenced" else "unreferenced"})"),
  ("rel-id-unique", fun g => first? (g.rels.map (·.1)).eraseDups fun rp =>
      (firstDup ((relsOf g rp).map (·.id))).map fun i => s!"{ls rp}: duplicate relationship id {ls i}"),
  ("rel-target", fun g => (g.rels.find? fun (rp, r) => r.mode != sl "External" && r.target.head? != some '#' &&
        (match relsSource rp with
         | some src => !g.parts.contains (resolveTarget src r.target)
         | none => true)).map fun (rp, r) => s!"{ls rp}: {ls r.id} target {ls r.target} does not resolve to a part"),
  ("rid-resolves", fun g => (g.rids.find? fun (part, rid) =>
        !((relsOf g (relsPartOf part)).any fun r => r.id == rid)).map
      fun (part, rid) => s!"{ls part}: r:id {ls rid} has no relationship"),
  ("wb-present", fun g => match workbookPart g with
      | none => some "no officeDocument relationship"
      | some wb => if !g.parts.contains wb then some "workbook part missing"
        else if g.sheets.isEmpty then some "workbook has no sheets" else none),
  ("sheet-name-valid", fun g => (g.sheets.find? fun s => !sheetNameValid s.name).map fun s => s!"invalid sheet name {ls s.name}"),
  ("sheet-name-unique", fun g => (firstDup (g.sheets.map fun s => lower s.name)).map fun n => s!"duplicate sheet name {ls n}"),
  ("sheet-id-unique", fun g => match g.sheets.find? (fun s => s.sheetId < 1 || s.sheetId > 65534) with
      | some s => some s!"sheetId {s.sheetId} out of range"
      | none => (firstDup (g.sheets.map (·.sheetId))).map fun i => s!"duplicate sheetId {i}"),
  ("sheet-rid-unique", fun g => (firstDup (g.sheets.map (·.rid))).map fun i => s!"two sheets use r:id {ls i}"),
  ("sheet-part", fun g => match workbookPart g with
      | none => none
      | some wb => (g.sheets.find? fun s => match sheetTarget g wb s with
          | some p => !g.parts.contains p
          | none => true).map fun s => s!"sheet {ls s.name} ({ls s.rid}) does not resolve to a sheet part"),
  ("sheet-part-injective", fun g => match workbookPart g with
      | none => none
      | some wb => (firstDup (g.sheets.filterMap (sheetTarget g wb))).map fun p => s!"two sheets share part {ls p}"),
  ("sheet-part-onto", fun g => match workbookPart g with
      | none => none
      | some wb =>
        let targets := g.sheets.filterMap (sheetTarget g wb)
        (g.parts.find? fun p => (match partCT g p with
            | some ct => ct == ctWorksheetS || ct == ctChartsheetS
            | none => false) && !targets.contains p).map fun p => s!"sheet part {ls p} belongs to no workbook sheet"),
  ("dname-localsheet", fun g => (g.dnames.find? fun d => d.2 != -1 && (d.2 < 0 || d.2 ≥ (g.sheets.length : Int))).map
      fun d => s!"defined name {ls d.1} localSheetId {d.2} but {g.sheets.length} sheets"),
  ("styles", fun g => checkStyles g.styles),
  ("worksheet", fun g => first? g.wss (checkWs g)),
  ("element-order", checkChildOrder),
  ("calc-chain", fun g => match workbookPart g with
      | none => none
      | some wb => checkCalc g wb),
  ("table-unique", fun g => match firstDup (g.tables.map (·.id)) with
      | some i => some s!"two tables have id {i}"
      | none => match firstDup (g.tables.map fun t => t.name) with
        | some n => some s!"two tables are named {ls n}"
        | none => (g.tables.find? fun t => (parseRange t.ref).isNone).map fun t => s!"table {ls t.name} ref {ls t.ref}"),
  ("comment-author", fun g => (g.comments.find? fun c => c.authorId ≥ c.authors || (parseRef c.ref).isNone).map
      fun c => s!"{ls c.part}: comment {ls c.ref} authorId {c.authorId} of {c.authors}")
]

def firstFailIn : List (String × (PkgG → Option String)) → PkgG → Option (String × String)
  | [], _ => none
  | (n, f) :: rest, g => match f g with
    | some d => some (n, d)
    | none => firstFailIn rest g

def firstFail (g : PkgG) : Option (String × String) := firstFailIn wfChecks g

/-- every failing conjunct (the driver prints all of them) -/
def allFails (g : PkgG) : List (String × String) :=
  wfChecks.filterMap fun (n, f) => (f g).map fun d => (n, d)

/-- the independent validator -/
def WF (g : PkgG) : Bool := (firstFail g).isNone

/-! ## Part 2: `Impl` — the bookkeeping of excelize -/

inductive Out (α : Type) where
  | ok (a : α)
  | panic
deriving DecidableEq, Repr

def Out.bind {α β} (x : Out α) (f : α → Out β) : Out β :=
  match x with
  | .ok a => f a
  | .panic => .panic

namespace Impl

def ridPrefix : Str := sl Facts.C05.ridPrefix
def relWorksheet : Str := sl Facts.C05.relWorksheet
def ctWorksheet : Str := sl Facts.C05.ctWorksheet

/-- `strconv.Atoi` with the error dropped (`ID, _ := strconv.Atoi(..)`):
syntax error ↦ 0, range error ↦ the saturated value -/
def atoiGo (s : Str) : Int :=
  match s with
  | [] => 0
  | c :: rest =>
    let neg := c.toNat == 45
    let ds := if c.toNat == 45 || c.toNat == 43 then rest else s
    match digitsVal ds with
    | none => 0
    | some v =>
      if neg then (if v ≤ 9223372036854775808 then -(v : Int) else -9223372036854775808)
      else (if v < 9223372036854775808 then (v : Int) else 9223372036854775807)

/-- `strconv.Atoi(strings.TrimPrefix(rel.ID, "rId"))` -/
def relNum (id : Str) : Int := atoiGo (trimPrefix ridPrefix id)

def mkRid (n : Int) : Str := ridPrefix ++ itoaInt n

/-- `uniqPart` of addRels: relationship types that may occur once, with the
part they are redirected to -/
def uniqPart (t : Str) : Option Str :=
  (Facts.C05.uniqParts.find? fun p => sl p.1 == t).map fun p => sl p.2

/-- excelize.go `addRels`: one pass computing the running maximum of the
numeric ids; a relationship of a unique type short-circuits (its target is
overwritten and the running maximum *so far* is returned); otherwise a new
relationship `rId(max+1)` is appended.  Returns the list and the numeric id. -/
def addRelsGo (done : List Rel) (rID : Int) (relType target mode : Str) : List Rel → List Rel × Int
  | [] =>
    let n := wrap64 (rID + 1)
    (done.reverse ++ [⟨mkRid n, relType, target, mode⟩], n)
  | r :: rs =>
    let idn := relNum r.id
    let rID' := if idn > rID then idn else rID
    if relType == r.type then
      match uniqPart r.type with
      | some part => (done.reverse ++ { r with target := part } :: rs, rID')
      | none => addRelsGo (r :: done) rID' relType target mode rs
    else addRelsGo (r :: done) rID' relType target mode rs

def addRels (rels : List Rel) (relType target mode : Str) : List Rel × Int :=
  addRelsGo [] 0 relType target mode rels

/-- excelize.go `setRels` on an existing list with a non-empty id: overwrite
the first relationship with that id; returns Atoi of the id, 0 when absent -/
def setRels (rels : List Rel) (rID relType target mode : Str) : List Rel × Int :=
  if rID.isEmpty then addRels rels relType target mode else
  let rec go : List Rel → List Rel × Bool
    | [] => ([], false)
    | r :: rs =>
      if r.id == rID then ({ r with type := relType, target := target, mode := mode } :: rs, true)
      else let (rs', f) := go rs; (r :: rs', f)
  let (rels', found) := go rels
  (rels', if found then relNum rID else 0)

/-! ### the "delete while ranging" loop

```go
for k, v := range s { if match(v) { s = append(s[:k], s[k+1:]...) } }
```
`range` walks the *original* length over the shared backing array while the
deletion shifts the live part left in place.  State: `done` = live elements
already passed, `live` = live elements not yet visited, `stale` = backing
array beyond the live length.  After a deletion the element that slides
into slot `k` is skipped, and the old last live element stays behind in the
stale region; a match found in the stale region slices `s[k+1:]` beyond
`len(s)` and panics. -/

def rdStale {α} (p : α → Bool) (done : List α) : List α → Out (List α)
  | [] => .ok done
  | s :: ss => if p s then .panic else rdStale p done ss

def rdLive {α} (p : α → Bool) : List α → List α → List α → Out (List α)
  | done, [], stale => rdStale p done stale
  | done, [v], stale => if p v then rdStale p done stale else rdLive p (done ++ [v]) [] stale
  | done, v :: w :: live, stale =>
    if p v then rdLive p (done ++ [w]) live ((w :: live).getLast?.getD w :: stale)
    else rdLive p (done ++ [v]) (w :: live) stale

def rangeDelete {α} (p : α → Bool) (xs : List α) : Out (List α) := rdLive p [] xs []

/-- sheet.go `deleteSheetRelationships` on one relationship list -/
def deleteRel (rels : List Rel) (rid : Str) : Out (List Rel) := rangeDelete (fun r => r.id == rid) rels

/-- sheet.go `deleteSheetFromWorkbookRels`: first match, early return of its target -/
def deleteRelFirst : List Rel → Str → List Rel × Str
  | [], _ => ([], [])
  | r :: rs, rid =>
    if r.id == rid then (rs, r.target)
    else let (rs', t) := deleteRelFirst rs rid; (r :: rs', t)

/-! ### content types -/

structure CT where
  defaults : List (Str × Str)
  overrides : List (Str × Str)
deriving DecidableEq, Repr

/-- sheet.go `setContentTypes`: unconditional append -/
def setContentTypes (ct : CT) (part ctype : Str) : CT := { ct with overrides := ct.overrides ++ [(part, ctype)] }

def addDefault (ds : List (Str × Str)) (ext ctype : Str) : List (Str × Str) :=
  if ds.any (·.1 == ext) then ds else ds ++ [(ext, ctype)]

/-- workbook.go `setContentTypePartImageExtensions` (map order: the model
appends in the sorted order of the extracted table; dumps sort defaults) -/
def addImageDefaults (ds : List (Str × Str)) : List (Str × Str) :=
  Facts.C05.imageDefaults.foldl (fun acc p => addDefault acc (sl p.1) (sl p.2 ++ sl p.1)) ds

def kindInfo (kind : Str) : Option (String × String × String × String × Bool) :=
  Facts.C05.ctPartKinds.find? fun k => sl k.1 == kind

/-- part name and content type of `addContentTypePart(index, kind)`; an unknown
kind yields the zero values of the two Go map lookups -/
def kindPart (index : Int) (kind : Str) : Str × Str :=
  match kindInfo kind with
  | some (_, pre, suf, ctype, indexed) => ((sl pre ++ (if indexed then itoaInt index else []) ++ sl suf), sl ctype)
  | none => ([], [])

/-- workbook.go `addContentTypePart` -/
def addContentTypePart (ct : CT) (index : Int) (kind : Str) : CT :=
  let ds := if kind == sl "comments" then addDefault ct.defaults (sl Facts.C05.vmlDefault.1) (sl Facts.C05.vmlDefault.2)
            else if kind == sl "drawings" then addImageDefaults ct.defaults
            else ct.defaults
  let (part, ctype) := kindPart index kind
  if ct.overrides.any (·.1 == part) then { ct with defaults := ds }
  else { defaults := addDefault ds (sl Facts.C05.relsDefault.1) (sl Facts.C05.relsDefault.2),
         overrides := ct.overrides ++ [(part, ctype)] }

/-- workbook.go `removeContentTypesPart` -/
def removeContentTypesPart (ct : CT) (ctype part : Str) : Out CT :=
  let part' := if (sl "/").isPrefixOf part then part else sl "/xl/" ++ part
  (rangeDelete (fun o => o.1 == part' && o.2 == ctype) ct.overrides).bind fun o => .ok { ct with overrides := o }

/-! ### sheet list -/

structure Book where
  ct : CT
  wbRels : List Rel
  sheets : List SheetEnt
  /-- worksheet parts held by the file (`f.Sheet` ∪ `f.Pkg` under xl/worksheets/), as a set -/
  wsParts : List Str
  sheetCount : Int
deriving DecidableEq, Repr

def eqFold (a b : Str) : Bool := lower a == lower b

def sheetPartAbs (id : Int) : Str := sl Facts.C05.newSheetPartPrefix ++ itoaInt id ++ sl Facts.C05.newSheetPartSuffix

/-- sheet.go `getWorksheetPath` for targets without `.`/`..` segments:
absolute targets lose the leading slash, relative ones are below `xl/` -/
def worksheetPath (target : Str) : Str :=
  match target with
  | '/' :: rest => rest
  | _ => sl "xl/" ++ target

def maxSheetId : List SheetEnt → Int → Int
  | [], m => m
  | s :: ss, m => maxSheetId ss (if s.sheetId > m then s.sheetId else m)

def insertSet (xs : List Str) (x : Str) : List Str := if xs.contains x then xs else xs ++ [x]

/-- the loop of `NewSheet` that skips the ids whose worksheet part exists (`fuel`: at most one
collision per existing part) -/
def freshSheetId (parts : List Str) : Nat → Int → Int
  | 0, k => k
  | fuel + 1, k =>
    if parts.contains (worksheetPath (sheetPartAbs k)) then freshSheetId parts fuel (wrap64 (k + 1)) else k

/-- sheet.go `NewSheet` for a name that passes `checkSheetName` -/
def newSheet (b : Book) (name : Str) : Book :=
  if b.sheets.any (fun s => eqFold s.name name) then b else
  let sheetID := freshSheetId b.wsParts (b.wsParts.length + 1) (wrap64 (maxSheetId b.sheets 0 + 1))
  let ct := setContentTypes b.ct (sheetPartAbs sheetID) ctWorksheet
  let (rels, rID) := addRels b.wbRels relWorksheet (sheetPartAbs sheetID) []
  { ct := ct, wbRels := rels,
    sheets := b.sheets ++ [⟨name, sheetID, mkRid rID⟩],
    wsParts := insertSet b.wsParts (worksheetPath (sheetPartAbs sheetID)),
    sheetCount := b.sheetCount + 1 }

/-- body of the `DeleteSheet` loop for one matching sheet entry -/
def deleteSheetBody (b : Book) (v : SheetEnt) : Out Book :=
  let sheetXML := (b.wbRels.foldl (fun acc r => if r.id == v.rid then worksheetPath r.target else acc) [])
  let (rels, target) := deleteRelFirst b.wbRels v.rid
  (removeContentTypesPart b.ct ctWorksheet target).bind fun ct =>
    .ok { b with ct := ct, wbRels := rels, wsParts := b.wsParts.filter (· != sheetXML), sheetCount := b.sheetCount - 1 }

/-- the `for idx, v := range wb.Sheets.Sheet` loop of `DeleteSheet`: the
delete-while-ranging walk, threading the rest of the book -/
def dsStale (name : Str) (b : Book) (done : List SheetEnt) : List SheetEnt → Out Book
  | [] => .ok { b with sheets := done }
  | s :: ss => if eqFold s.name name then .panic else dsStale name b done ss

def dsLive (name : Str) : Book → List SheetEnt → List SheetEnt → List SheetEnt → Out Book
  | b, done, [], stale => dsStale name b done stale
  | b, done, [v], stale =>
    if eqFold v.name name then (deleteSheetBody b v).bind fun b' => dsStale name b' done stale
    else dsLive name b (done ++ [v]) [] stale
  | b, done, v :: w :: live, stale =>
    if eqFold v.name name then
      (deleteSheetBody b v).bind fun b' => dsLive name b' (done ++ [w]) live ((w :: live).getLast?.getD w :: stale)
    else dsLive name b (done ++ [v]) (w :: live) stale

/-- sheet.go `DeleteSheet` for a name that passes `checkSheetName` (defined
names, calcChain and the active-sheet fix-up are outside the model) -/
def deleteSheet (b : Book) (name : Str) : Out Book :=
  if b.sheetCount == 1 || !(b.sheets.any fun s => eqFold s.name name) then .ok b
  -- "a workbook must contain at least one visible worksheet": the model has no hidden sheets,
  -- so the guard asks for another sheet
  else if !(b.sheets.any fun s => !eqFold s.name name) then .ok b
  else dsLive name b [] b.sheets []

/-- sheet.go `copySheet`, relationship part of the copy: the current relationships of the source
without the drawing and table relationships (which are not copied) -/
def copyRels (src : List Rel) : List Rel :=
  src.filter fun r => r.type != sl Facts.C05.relDrawing && r.type != sl Facts.C05.relTable

/-- the NewFile template, from the regenerated template facts -/
def initBook : Book :=
  { ct := { defaults := Facts.C05.tplDefaults.map fun p => (sl p.1, sl p.2),
            overrides := Facts.C05.tplOverrides.map fun p => (sl p.1, sl p.2) },
    wbRels := Facts.C05.tplWorkbookRels.map fun (i, t, g, m) => ⟨sl i, sl t, sl g, sl m⟩,
    sheets := Facts.C05.tplSheets.map fun (n, i, r) => ⟨sl n, i, sl r⟩,
    wsParts := (Facts.C05.tplParts.filter fun p => p.startsWith "xl/worksheets/").map sl,
    sheetCount := 1 }

/-! ### calcChain (calcchain.go `deleteCalcChain`) -/

structure CalcEnt where
  r : Str
  i : Int
deriving DecidableEq, Repr

/-- the filter of `deleteCalcChain(index, cell)`: entries of sheet `index` at `cell`, every entry
of sheet `index` when `cell` is empty, and entries without sheet id at `cell` are dropped -/
def deleteCalcChain (cc : List CalcEnt) (index : Int) (cell : Str) : List CalcEnt :=
  cc.filter fun c => !((c.i == index && c.r == cell) || (c.i == index && cell == []) || (c.i == 0 && c.r == cell))

/-- a calcChain entry by coordinates -/
structure CalcPos where
  col : Nat
  row : Nat
  i : Int
deriving DecidableEq, Repr

inductive Dir where
  | rows
  | cols
deriving DecidableEq, Repr

/-- adjust.go `adjustCalcChain` for one entry of the edited sheet: `num` is the row/column of the
edit, `offset` = +n for an insertion, -1 for a removal. The comparison is the regenerated
`calcChainShiftInclusive` (`num <= rowNum` in this tree): an entry AT the edit position moves with
its cell on insertion and is dropped on removal. Entries of other sheets are untouched. -/
def adjustCalcEntry (dir : Dir) (num : Nat) (offset : Int) (sid : Int) (e : CalcPos) : Option CalcPos :=
  if e.i != sid then some e else
  let pos := match dir with | .rows => e.row | .cols => e.col
  let hit := if Facts.C05.calcChainShiftInclusive then num ≤ pos else num < pos
  if hit then
    if num == pos && offset == -1 then none
    else match dir with
      | .rows => some { e with row := ((e.row : Int) + offset).toNat }
      | .cols => some { e with col := ((e.col : Int) + offset).toNat }
  else some e

def adjustCalcChain (dir : Dir) (num : Nat) (offset : Int) (sid : Int) (cc : List CalcPos) : List CalcPos :=
  cc.filterMap (adjustCalcEntry dir num offset sid)

/-- what InsertRows/InsertCols/RemoveRow/RemoveCol do to the cell at (col,row) of the edited
sheet (the grid shift of C06): cells at or after the edit position move by `offset`, the cells
of a removed row/column disappear -/
def shiftCellPos (dir : Dir) (num : Nat) (offset : Int) (c : Nat × Nat) : Option (Nat × Nat) :=
  let pos := match dir with | .rows => c.2 | .cols => c.1
  if num ≤ pos then
    if num == pos && offset == -1 then none
    else match dir with
      | .rows => some (c.1, ((c.2 : Int) + offset).toNat)
      | .cols => some (((c.1 : Int) + offset).toNat, c.2)
  else some c

/-! ### calcChain across the cell setters (cell.go `removeFormula`, `SetCellFormula`) -/

/-- formula cells (sheet id, column, row) and the calculation chain, entries with explicit sheet id -/
structure ChainState where
  formulas : List (Int × Nat × Nat)
  chain : List CalcPos
deriving Repr

/-- `deleteCalcChain(sid, cell)` on coordinates: entries of that sheet at that cell, and entries
without sheet id at that cell, are dropped -/
def dropChainAt (cc : List CalcPos) (sid : Int) (c r : Nat) : List CalcPos :=
  cc.filter fun e => !((e.i == sid && e.col == c && e.row == r) || (e.i == 0 && e.col == c && e.row == r))

/-- every value setter (SetCellValue/Int/Float/Str/Bool/Default/RichText …) goes through
`removeFormula`: a formula cell loses its formula and its chain entry; other cells: nothing -/
def setCellValueC (s : ChainState) (sid : Int) (c r : Nat) : ChainState :=
  if s.formulas.contains (sid, c, r) then
    { formulas := s.formulas.filter (· != (sid, c, r)), chain := dropChainAt s.chain sid c r }
  else s

/-- `SetCellFormula`: an empty formula clears the cell's formula and its chain entry; a non-empty
one makes the cell a formula cell and leaves the chain alone (the library never adds entries) -/
def setCellFormulaC (s : ChainState) (sid : Int) (c r : Nat) (empty : Bool) : ChainState :=
  if empty then
    { formulas := s.formulas.filter (· != (sid, c, r)), chain := dropChainAt s.chain sid c r }
  else
    { s with formulas := if s.formulas.contains (sid, c, r) then s.formulas else s.formulas ++ [(sid, c, r)] }

/-! ### pictures sharing a media part (picture.go `AddPictureFromBytes`, `DeletePicture`) -/

/-- the relationship step of AddPictureFromBytes inside one drawing: an image relationship with
the same target is reused (regenerated fact `pictureRelReused`), otherwise one is added -/
def addPicRel (own : List Rel) (imgType target : Str) : List Rel × Int :=
  if Facts.C05.pictureRelReused then
    match own.find? (fun r => r.type == imgType && r.target == target) with
    | some r => (own, relNum r.id)
    | none => addRels own imgType target []
  else addRels own imgType target []

/-- DeletePicture for one removed relationship id: the media part goes away unless an image
relationship of ANOTHER relationships part targets it (the drawing's own part is skipped);
the relationship itself is removed from the drawing's part -/
def deletePicRel (own others : List Rel) (media : List Str) (imgType rid : Str) : List Rel × List Str :=
  match own.find? (fun r => r.id == rid) with
  | none => (own, media)
  | some r =>
    let used := others.any fun o => o.type == imgType && o.target == r.target
    (own.filter (fun x => x.id != rid), if used then media else media.filter (· != r.target))

/-! ### the reference graph: parts, relationships (source, id, resolved target), uses of ids -/

/-- what `rel-target` and `rid-resolves` of `WF` speak about, as a state: every object kind
(drawing → chart / media, VML, comments, tables, slicers, pivot tables) lives in this graph -/
structure RefG where
  parts : List Str
  rels : List (Str × Str × Str)
  uses : List (Str × Str)
deriving Repr

namespace RefG
def addPart (g : RefG) (p : Str) : RefG := { g with parts := g.parts ++ [p] }
def addRel (g : RefG) (s i t : Str) : RefG := { g with rels := g.rels ++ [(s, i, t)] }
def addUse (g : RefG) (p i : Str) : RefG := { g with uses := g.uses ++ [(p, i)] }
/-- an object is removed from its container: one use of a relationship id goes away -/
def dropUse (g : RefG) (p i : Str) : RefG := { g with uses := g.uses.erase (p, i) }
def dropRel (g : RefG) (s i : Str) : RefG := { g with rels := g.rels.filter fun r => !(r.1 == s && r.2.1 == i) }
def dropPart (g : RefG) (p : Str) : RefG := { g with parts := g.parts.filter (· != p) }

/-- AddChart / AddShape / AddPicture / AddComment / AddFormControl / AddSlicer by class: the
container (drawing, VML drawing …) is created and linked from the worksheet on first use, the
leaf part (chart, media, comments, slicer …) is created and linked from the container -/
def addObject (g : RefG) (sheet container leaf ridS ridC : Str) (firstInSheet newLeaf : Bool) : RefG :=
  let g1 := if firstInSheet then ((g.addPart container).addRel sheet ridS container).addUse sheet ridS else g
  let g2 := if newLeaf then g1.addPart leaf else g1
  (g2.addRel container ridC leaf).addUse container ridC

/-- DeleteChart (regenerated fact `deleteChartKeepsParts`): only the anchor leaves the drawing;
chart part, relationship and Override stay -/
def deleteChart (g : RefG) (container ridC : Str) : RefG := g.dropUse container ridC

/-- DeleteTable: tablePart entry, worksheet relationship and table part go together -/
def deleteTable (g : RefG) (sheet rid table : Str) : RefG := ((g.dropUse sheet rid).dropRel sheet rid).dropPart table

/-- DeletePivotTable (pivotTable.go; regenerated fact `deletePivotKeepsParts`), in the order of the
code: when this pivot table is the last user of its cache (`pivotTableCaches[…] == 1`),
`deleteWorkbookPivotCache` first removes the workbook relationship to the cache
(`deleteWorkbookRels`) and then the `<pivotCache r:id>` entry of the workbook; in every case the
worksheet relationship to the pivot table part goes (`deleteSheetRelationships`). No part is
deleted: the pivot table part, its own relationship to the cache and the cache part stay. -/
def deletePivotTable (g : RefG) (sheet ridS wb ridW : Str) (lastUser : Bool) : RefG :=
  let g1 := if lastUser then (g.dropRel wb ridW).dropUse wb ridW else g
  g1.dropRel sheet ridS

/-- every use of id `i` inside part `p` goes away (`strings.ReplaceAll` of the entry text) -/
def dropUses (g : RefG) (p i : Str) : RefG := { g with uses := g.uses.filter fun u => !(u.1 == p && u.2 == i) }

/-- slicer.go `deleteSlicer`, in the order of the code: only when the slicer part is left without
a slicer (`len(slicers.Slicer) == 0`) the worksheet's slicer-list entry naming the relationship
goes, then the slicer part (`Pkg.Delete`), then the worksheet relationship
(`deleteSheetRelationships`); otherwise the graph is unchanged (the part is rewritten) -/
def deleteSlicer (g : RefG) (sheet ridS slicerPart : Str) (emptied : Bool) : RefG :=
  if emptied then ((g.dropUse sheet ridS).dropPart slicerPart).dropRel sheet ridS else g

/-- slicer.go `deleteSlicerCache`, in the order of the code: only when no other slicer uses the
cache the cache part goes (`Pkg.Delete`), then the workbook relationship to it
(`deleteWorkbookRels`), then every `<x14:slicerCache r:id>` entry with that id
(`deleteWorkbookSlicerCache`, `strings.ReplaceAll`) -/
def deleteSlicerCache (g : RefG) (wb ridW cachePart : Str) (lastUser : Bool) : RefG :=
  if lastUser then ((g.dropPart cachePart).dropRel wb ridW).dropUses wb ridW else g

/-- DeleteSlicer = deleteSlicer (its error dropped) then deleteSlicerCache
(regenerated fact `deleteSlicerOrder`) -/
def deleteSlicerAll (g : RefG) (sheet ridS slicerPart wb ridW cachePart : Str) (emptied lastUser : Bool) : RefG :=
  (g.deleteSlicer sheet ridS slicerPart emptied).deleteSlicerCache wb ridW cachePart lastUser

/-- a shape leaves a VML part: the relationship ids its markup names (`o:relid`, possibly none)
are used once less each -/
def dropShape (g : RefG) (vml : Str) (ids : List Str) : RefG := ids.foldl (fun g i => g.dropUse vml i) g

/-- vml.go `DeleteComment` / `DeleteFormControl` → `deleteFormControl` (regenerated fact
`deleteVmlKeepsParts`): the first shape anchored at the cell (a Note for a comment, a non-Note for
a form control) is cut out of the VML part, if there is one; the comment entries go out of the
comments part (no reference in them). No part, relationship or `legacyDrawing` reference is removed,
even when the VML part is left without a shape. -/
def deleteVmlObject (g : RefG) (vml : Str) (ids : List Str) (found : Bool) : RefG :=
  if found then g.dropShape vml ids else g
end RefG

/-! ### shared strings (cell.go `setSharedString`, tail of `SetCellRichText`) -/

inductive SI where
  | plain (s : Str)
  /-- a rich string item, abstracted by a key that decides `reflect.DeepEqual` -/
  | rich (k : Str)
deriving DecidableEq, Repr

structure Sst where
  items : List SI
  /-- the `count` / `uniqueCount` attributes as read from the file: arbitrary -/
  count : Int
  unique : Int
  /-- `f.sharedStringsMap`: plain text ↦ index -/
  map : List (Str × Nat)
deriving Repr

/-- `setSharedString` after `trimCellValue`: reuse the mapped index, else append and number the
new item by the length of the list (`sst.Count = len(sst.SI)`) -/
def setSharedString (t : Sst) (s : Str) : Sst × Nat :=
  match t.map.find? (·.1 == s) with
  | some e => (t, e.2)
  | none =>
    let items := t.items ++ [SI.plain s]
    ({ items := items, count := items.length, unique := items.length, map := t.map ++ [(s, items.length - 1)] },
      items.length - 1)

def idxOfSI (x : SI) : List SI → Nat → Option Nat
  | [], _ => none
  | y :: ys, k => if y == x then some k else idxOfSI x ys (k + 1)

/-- tail of `SetCellRichText`: an equal item is reused, otherwise the item is appended, both
counters are incremented and the cell gets `len(sst.SI)-1` -/
def setRichText (t : Sst) (k : Str) : Sst × Nat :=
  match idxOfSI (.rich k) t.items 0 with
  | some i => (t, i)
  | none =>
    ({ t with items := t.items ++ [SI.rich k], count := t.count + 1, unique := t.unique + 1 },
      (t.items ++ [SI.rich k]).length - 1)

/-! ### save-time trimming (sheet.go `trimRow` / `trimCell`) -/

structure Cell where
  col : Nat
  row : Nat
  hasValue : Bool
deriving DecidableEq, Repr

structure Row where
  r : Nat
  hasAttr : Bool
  cells : List Cell
deriving DecidableEq, Repr

/-- `trimCell`: a completely filled row is returned as is, otherwise the
cells with a value are compacted to the front -/
def trimCell (row : Row) : Row :=
  if row.cells.all (·.hasValue) then row else { row with cells := row.cells.filter (·.hasValue) }

/-- `trimRow`.  `keepEmpty` is the regenerated shape of the slot counter: in
this tree `i++` is executed for *every* row, so a row that trims to nothing
and has no attributes is kept untrimmed (all its cells are value-less) rather
than dropped; with the counter inside the `if` such rows are dropped. -/
def trimOne (keepEmpty : Bool) (row : Row) : Option Row :=
  let t := trimCell row
  if t.cells.length != 0 || t.hasAttr then some t
  else if keepEmpty then some row else none

def trimRowWith (keepEmpty : Bool) (rows : List Row) : List Row := rows.filterMap (trimOne keepEmpty)

def trimRow (rows : List Row) : List Row := trimRowWith Facts.C05.trimRowKeepsEmptyRows rows

end Impl

/-! ## Part 3: `Spec` -/

namespace Spec
open Impl

/-- ids are pairwise different inside one relationship list -/
def relsOk (rels : List Rel) : Prop := (rels.map (·.id)).Nodup

/-- one Override per part name -/
def ctOk (ct : CT) : Prop := (ct.overrides.map (·.1)).Nodup

/-- strictly ascending rows; inside a row strictly ascending columns, each
cell carrying its row's number -/
def rowsOk (rows : List Row) : Prop :=
  (rows.map (·.r)).Pairwise (· < ·) ∧
  ∀ row ∈ rows, (row.cells.map (·.col)).Pairwise (· < ·) ∧ ∀ c ∈ row.cells, c.row = row.r

/-- the worksheet part of sheet id `k` as NewSheet names it -/
def sheetPath (k : Int) : Str := worksheetPath (sheetPartAbs k)

def wsPartPrefix : Str := sl Facts.C05.newSheetPartPrefix

/-- workbook sheets ↔ worksheet relationships ↔ worksheet parts ↔ worksheet Overrides, for a
workbook numbered the way the library numbers it (part number = sheet id) -/
structure BookOk (b : Book) : Prop where
  rels : relsOk b.wbRels
  ct : ctOk b.ct
  names : (b.sheets.map fun s => lower s.name).Nodup
  ids : (b.sheets.map (·.sheetId)).Nodup
  idrange : ∀ s ∈ b.sheets, 1 ≤ s.sheetId ∧ s.sheetId < 9223372036854775807
  rids : (b.sheets.map (·.rid)).Nodup
  sheetRel : ∀ s ∈ b.sheets, ∃ r ∈ b.wbRels, r.id = s.rid ∧ r.type = relWorksheet ∧
      worksheetPath r.target = sheetPath s.sheetId
  relSheet : ∀ r ∈ b.wbRels, r.type = relWorksheet → ∃ s ∈ b.sheets, s.rid = r.id
  parts : ∀ p, p ∈ b.wsParts ↔ ∃ s ∈ b.sheets, p = sheetPath s.sheetId
  ovrSheet : ∀ o ∈ b.ct.overrides, wsPartPrefix.isPrefixOf o.1 = true →
      ∃ s ∈ b.sheets, o.1 = sheetPartAbs s.sheetId
  sheetOvr : ∀ s ∈ b.sheets, (sheetPartAbs s.sheetId, ctWorksheet) ∈ b.ct.overrides

/-- the dense in-memory grid: slot `i` holds row `i+1`, slot `j` of it column `j+1` -/
def denseFrom (k : Nat) : List Row → Prop
  | [] => True
  | row :: rest => row.r = k ∧ (∀ c ∈ row.cells, c.row = k) ∧
      (row.cells.map (·.col)).Pairwise (· < ·) ∧ denseFrom (k + 1) rest

end Spec

end XlModel.Pkg
