/-
C01 — Save then open preserves every observable of the workbook.
Property theorems only; helper lemmas are in `Lemmas/Bstr.lean`, `Lemmas/Grid.lean`.

Two logic cores are modelled (`XlModel.Bstr`: what a written string is stored as and
reads back as; `XlModel.Grid`: the save-time trim and the open-time re-densify of
`<sheetData>`).  `encoding/xml` and `archive/zip` are parameters: the XML layer appears
as a function on character data with the law "text made of XML 1.0 characters survives"
(validated on every run by the correspondence and by the whole-workbook oracle).
-/
import XlModel.Lemmas.Bstr
import XlModel.Lemmas.SaveGrid
import XlModel.Lemmas.SaveGrid2
import XlModel.Lemmas.SaveGrid3
import XlModel.Lemmas.SaveGrid4
import XlModel.Lemmas.SaveCols2
import XlModel.Lemmas.SaveCols3
import XlModel.Lemmas.SaveCols4
import XlModel.Lemmas.SaveBook
import XlModel.Lemmas.SaveMerge
import XlModel.Lemmas.SaveSst
import XlModel.Lemmas.SaveBook2
import XlModel.Lemmas.SaveBook3
import XlModel.Lemmas.SaveBook4
import XlModel.Lemmas.SaveCols
import XlModel.Generated.FactsC01

namespace XlModel.Props.C01
open XlModel XlModel.Bstr XlModel.Grid

/-- the regenerated facts are the ones the proofs were written for: an edit of the
escape patterns, of the whitespace table, of the XML-illegal range, of the field lists of
`hasValue`/`hasAttr`, of where `setSharedString` stores the escaped text or of `trimRow`'s
slot counter changes these and breaks this file. -/
theorem facts_ok :
    Facts.C01.bstrExp = "_x[a-fA-F\\d]{4}_" ∧ Facts.C01.bstrEscapeExp = "x[a-fA-F\\d]{4}_" ∧
    Facts.C01.preserveBytes = [9, 10, 13, 32] ∧ Facts.C01.trimCellValueMarshals = true ∧
    Facts.C01.marshalLiterals = ["_x005F_", "_x%04X_"] ∧
    Facts.C01.illegalBelow = 32 ∧ Facts.C01.illegalExcept = [9, 10, 13] ∧ Facts.C01.illegalExtra = [65534, 65535] ∧
    Facts.C01.sharedStringStoresEscaped = true ∧
    Facts.C01.hasValueFields = ["S", "V", "F", "T"] ∧
    Facts.C01.hasAttrFields = ["Collapsed", "CustomFormat", "CustomHeight", "Hidden", "Ht", "OutlineLevel", "Ph", "S", "Spans", "ThickBot", "ThickTop"] ∧
    Facts.C01.trimRowDropsEmptyRows = false ∧ Facts.TotalCellChars = 32767 := by decide

/-! ## cell strings: "every cell's raw value … text that looks like an _xHHHH_ escape,
up to the 32767-character limit" -/

/-- `bstrUnmarshal (bstrMarshal s) = s` for every string: escape look-alikes (also
overlapping ones, also with surrogate codes), characters outside XML 1.0, anything. -/
theorem bstr_roundtrip (s : List Char) : unmarshal (marshal s) = s := unmarshal_marshal s

/-- what `bstrMarshal` hands to the XML encoder consists of XML 1.0 characters only, so the
encoder never replaces anything by U+FFFD. -/
theorem marshal_xml_legal (s : List Char) : ∀ c ∈ marshal s, illegal c = false := marshal_legal s

/-- the text stored for `SetCellStr s` is XML-legal -/
theorem stored_xml_legal (s : List Char) : ∀ c ∈ storedText s, illegal c = false := by
  have h1 : Facts.C01.sharedStringStoresEscaped = true := rfl
  have h2 : Facts.C01.trimCellValueMarshals = true := rfl
  simp only [storedText, trimCellValue, h1, h2, if_true]
  exact marshal_legal _

/-- in memory: `SetCellStr s` then `GetCellValue` returns `s` truncated to 32767 runes -/
theorem setstr_getstr (s : List Char) : readBack s = spec s := by
  have h1 : Facts.C01.sharedStringStoresEscaped = true := rfl
  have h2 : Facts.C01.trimCellValueMarshals = true := rfl
  simp only [readBack, storedText, trimCellValue, h1, h2, if_true, siString, spec, truncate_idem,
    marshal_isEmpty, unmarshal_marshal]
  cases h : truncate s with
  | nil => simp
  | cons _ _ => simp

/-- after save and open: for every XML layer that returns XML-legal character data unchanged,
the value read after reopening equals the value read before saving, and both equal the
written string truncated to the limit. -/
theorem setstr_save_open (xml : List Char → List Char)
    (hxml : ∀ t : List Char, (∀ c ∈ t, illegal c = false) → xml t = t) (s : List Char) :
    readBackReopened xml s = readBack s ∧ readBackReopened xml s = spec s := by
  have : readBackReopened xml s = readBack s := by
    unfold readBackReopened readBack
    rw [hxml _ (stored_xml_legal s)]
  exact ⟨this, this ▸ setstr_getstr s⟩

/-- the hypothesis of `setstr_save_open` is satisfiable: it holds for the behaviour observed on
Go's `encoding/xml` (illegal characters become U+FFFD, everything else survives) -/
theorem xmlGo_law (t : List Char) (h : ∀ c ∈ t, illegal c = false) : xmlGo t = t := by
  unfold xmlGo
  conv => rhs; rw [← List.map_id t]
  apply List.map_congr_left
  intro c hc
  simp [h c hc]

/-- … hence on the modelled implementation a written string survives save + open exactly -/
theorem setstr_save_open_go (s : List Char) : readBackReopened xmlGo s = spec s :=
  (setstr_save_open xmlGo xmlGo_law s).2

/-- a second save/open cycle stores the same text again (fixed point of the string path) -/
theorem stored_fixpoint (xml : List Char → List Char)
    (hxml : ∀ t : List Char, (∀ c ∈ t, illegal c = false) → xml t = t) (s : List Char) :
    xml (xml (storedText s)) = storedText s := by
  rw [hxml _ (stored_xml_legal s), hxml _ (stored_xml_legal s)]

/-- the spec keeps strings within the limit unchanged and never exceeds it -/
theorem spec_within_limit (s : List Char) :
    (s.length ≤ Facts.TotalCellChars → spec s = s) ∧ (spec s).length ≤ Facts.TotalCellChars := by
  unfold spec truncate
  constructor
  · intro h
    have : ¬ s.length > Facts.TotalCellChars := by omega
    simp [this]
  · split
    · rw [List.length_take]; omega
    · omega

/-- OPEN FINDING (`SetCellDefault` stores the text unescaped, as documented): a control
character handed to the XML encoder verbatim comes back as U+FFFD, so the value read after
save + open differs from the value read before.  `siString` is what both reads apply. -/
theorem finding_setdefault_xml_illegal :
    siString (xmlGo ['a', Char.ofNat 1, 'b']) ≠ siString ['a', Char.ofNat 1, 'b'] := by decide

/-- non-vacuity / regression witnesses of the defects that were repaired (see
known_findings.d/C01.json): look-alike, overlapping look-alikes, surrogate code, control
character, look-alike completed by a control character — all read back exactly. -/
theorem witnesses_roundtrip :
    readBackReopened xmlGo "_x0041_".toList = "_x0041_".toList ∧
    readBackReopened xmlGo "_x0041_x0042_".toList = "_x0041_x0042_".toList ∧
    readBackReopened xmlGo "_xD800_".toList = "_xD800_".toList ∧
    readBackReopened xmlGo ['a', Char.ofNat 1, 'b'] = ['a', Char.ofNat 1, 'b'] ∧
    readBackReopened xmlGo ['_', 'x', '0', '0', '4', '1', Char.ofNat 1] = ['_', 'x', '0', '0', '4', '1', Char.ofNat 1] ∧
    marshal "_x0041_x0042_".toList = "_x005F_x0041_x005F_x0042_".toList := by
  refine ⟨?_, ?_, ?_, ?_, ?_, ?_⟩ <;> (try rw [setstr_save_open_go]) <;> decide

/-! ## column attributes: "row and column attributes" — `mergeExpandedCols` on every save -/

/-- the comparison of `mergeExpandedCols` is a `reflect.DeepEqual` of all ten `xlsxCol` fields against
the predecessor shifted by one column (regenerated from the composite literal in sheet.go); the model's
`adj` compares `min`, `max` and the whole attribute record, i.e. exactly these fields. -/
theorem facts_cols_ok :
    Facts.C01.mergeColsFields = ["BestFit", "Collapsed", "CustomWidth", "Hidden", "Max", "Min",
      "OutlineLevel", "Phonetic", "Style", "Width"] ∧ Facts.C01.mergeColsMaxFromLastMin = true := by decide

/-- **save keeps every column's attributes**: for a flat `<cols>` list (one entry per column, as every
column setter leaves it through `flatCols`), in any order-preserving position (`lo` = any bound below the
first column), what `mergeExpandedCols` writes resolves every column — touched or not, any of the 16384 —
to the same width, style, hidden flag, outline level and the other four attributes as before. Unbounded
list length; induction over the list with the run invariant. -/
theorem cols_merge_preserves (lo : Nat) (l : List SaveCols.Col) (h : SaveCols.FlatFrom lo l) (c : Nat) :
    SaveCols.look (SaveCols.mergeCols l) c = SaveCols.look l c := by
  unfold SaveCols.mergeCols
  rw [SaveCols.sortCols_flat lo l h]
  exact SaveCols.look_mergeSorted lo l h c

/-- non-vacuity: equal neighbours do collapse into one range, a neighbour without width does not join -/
theorem cols_merge_witness :
    let a : SaveCols.Attrs := ⟨false, false, true, false, 1, false, 0, some ['3', '0']⟩
    let b : SaveCols.Attrs := ⟨false, false, true, false, 1, false, 0, none⟩
    SaveCols.mergeCols [⟨1, 1, a⟩, ⟨2, 2, a⟩, ⟨3, 3, b⟩] = [⟨1, 2, a⟩, ⟨3, 3, b⟩] ∧
    SaveCols.FlatFrom 0 [⟨1, 1, a⟩, ⟨2, 2, a⟩, ⟨3, 3, b⟩] := by
  intro a b
  refine ⟨by decide, ?_⟩
  simp [SaveCols.FlatFrom]

/-! ## the grid: "serialisation never drops, reorders, retypes or alters anything" -/

/-- save keeps every row slot, with its row number and all eleven attributes, in order -/
theorem trim_keeps_rows (s : List Row) :
    (trimRow s).map (fun r => (r.r, r.attrs)) = s.map (fun r => (r.r, r.attrs)) := trimRow_map s

/-- within a row, save drops no cell that has a value and does not reorder cells -/
theorem trim_keeps_valued_cells (cells : List Cell) :
    (trimCell cells).Sublist cells ∧ (trimCell cells).filter hasValue = cells.filter hasValue :=
  ⟨trimCell_sublist cells, trimCell_filter cells⟩

/-- open: `checkSheet` returns the saved rows of a dense sheet unchanged (no row is moved,
merged into another, renumbered or lost; unbounded number of rows) -/
theorem checkSheet_after_trim (s : List Row) (h : Dense s) : checkSheet (trimRow s) = .ok (trimRow s) :=
  checkSheet_after_trim_l s h

/-- open: `checkRow` returns a dense row unchanged (row `i+1` inside the grid, any number of cells
up to XFD): references decode to their own slot, nothing is rebuilt. Uses C20's codec round trip. -/
theorem checkRow_dense_row (i : Nat) (D : List Cell) (hi : i < Facts.TotalRows) (hD : DenseRow i D) :
    checkRowOne (i + 1) D = .ok D := checkRowOne_dense i D hi hD

/-- **save + open is the identity** on every dense sheet whose rows the trim does not touch (each
row either has a value in every cell or is blank without attributes) — full strength for that
class, unbounded rows and columns; in particular such a sheet is a fixed point of a second cycle. -/
theorem cycle_untrimmed_identity (s : List Row) (h : Dense s) (hu : ∀ row ∈ s, trimRowOne row = some row) :
    cycle s = .ok s := cycle_untrimmed s h hu

/-- assembly step of `trim_densify_obs`: for every dense sheet, *if* `checkRow` re-densifies each saved
row to a dense row with the same content at every position (hypotheses `hrow`, `hdense`, `hcontent`;
discharged for every dense sheet by `Lemmas/SaveGrid3.lean`), then the whole save → open pipeline returns
a dense sheet with the same content at every position, the same number of row slots, the same row
numbers and the same row attributes. -/
theorem trim_densify_assembly (s : List Row) (h : Dense s) (out : List (List Cell))
    (hl : out.length = s.length)
    (hrow : ∀ i (h1 : i < (trimRow s).length) (h2 : i < out.length),
      checkRowOne (i + 1) (trimRow s)[i].cells = .ok out[i])
    (hdense : ∀ i (h2 : i < out.length), DenseRow i out[i])
    (hcontent : ∀ i (h1 : i < s.length) (h2 : i < out.length) (j : Nat),
      (out[i][j]?.map content).getD noContent = (s[i].cells[j]?.map content).getD noContent) :
    ∃ s', cycle s = .ok s' ∧ Dense s' ∧ (∀ i j, Grid.abs s' i j = Grid.abs s i j) ∧
      s'.map (fun r => (r.r, r.attrs)) = s.map (fun r => (r.r, r.attrs)) :=
  cycle_dense_assembly s h out hl hrow hdense hcontent

/-- **trim_densify_obs** (full strength — the heart of "nothing dropped, reordered, retyped or
altered"): for *every* dense sheet (any number of rows up to 1048576, any number of cells per row up
to XFD, any mix of valued, styled, blank cells and row attributes) the save-time trim followed by the
open-time re-densification succeeds and returns a sheet that is again dense (so every setter keeps
working), has the same content at every position, the same number of row slots, the same row numbers
and the same eleven row attributes. Induction over rows (`checkSheet`) and over cells (`checkRow`:
`placeCells` over the compacted cells rebuilds the dense prefix up to the last valued cell). -/
theorem trim_densify_obs (s : List Row) (h : Dense s) :
    ∃ s', cycle s = .ok s' ∧ Dense s' ∧ (∀ i j, Grid.abs s' i j = Grid.abs s i j) ∧
      s'.map (fun r => (r.r, r.attrs)) = s.map (fun r => (r.r, r.attrs)) :=
  cycle_dense s h

/-- a second save/open cycle: the reopened sheet is dense again, so the theorem applies to it and the
second cycle again preserves content, density and row attributes (fixed point of the observation). -/
theorem trim_densify_second_cycle (s : List Row) (h : Dense s) :
    ∃ s' s'', cycle s = .ok s' ∧ cycle s' = .ok s'' ∧ Dense s'' ∧
      (∀ i j, Grid.abs s'' i j = Grid.abs s i j) ∧
      s''.map (fun r => (r.r, r.attrs)) = s.map (fun r => (r.r, r.attrs)) := by
  obtain ⟨s', h1, hd1, ha1, hm1⟩ := trim_densify_obs s h
  obtain ⟨s'', h2, hd2, ha2, hm2⟩ := trim_densify_obs s' hd1
  exact ⟨s', s'', h1, h2, hd2, fun i j => (ha2 i j).trans (ha1 i j), hm2.trans hm1⟩

/-- FIXED FINDING tie: `namespaceStrictToTransitional` (applied to every part that is read) no longer
replaces the Strict namespace URLs in the whole part — which rewrote cell text, hyperlink targets and any
other user text holding such a URL — but only in the values of `xmlns`, `xmlns:*` and `Type` attributes.
This is what lets the XML layer of `open_save_obs` (`x`) be the identity on character data. -/
theorem facts_ns_ok :
    Facts.C01.nsRewriteWholePart = false ∧ Facts.C01.nsRewriteAttrs = ["Type", "xmlns", "xmlns:*"] := by decide

/-! ## the workbook: `open_save_obs` and `save_open_fixpoint` (DESIGN §4/C01) -/

/-- column clause for reopened files: the preservation result for sorted, pairwise disjoint column
*ranges* (what `<cols>` holds after a save), and the merged list has that shape again. -/
theorem cols_merge_preserves_ranges (lo : Nat) (l : List SaveCols.Col) (h : SaveCols.RangesFrom lo l) :
    (∀ c, SaveCols.look (SaveCols.mergeCols l) c = SaveCols.look l c) ∧
      SaveCols.RangesFrom lo (SaveCols.mergeCols l) := by
  unfold SaveCols.mergeCols
  rw [SaveCols.sortCols_ranges lo l h]
  exact ⟨SaveCols.look_mergeSorted_ranges lo l h, SaveCols.ranges_mergeSorted lo l h⟩

/-- column clause for the list the setters leave in memory (not sorted: `flatCols` appends): for
well-formed, pairwise non-overlapping ranges in any order, `mergeExpandedCols` (sort + merge) preserves
what every column resolves to and yields a well-formed list again. -/
theorem cols_merge_preserves_unsorted (l : List SaveCols.Col) (h : SaveCols.Wf l) :
    (∀ c, SaveCols.look (SaveCols.mergeCols l) c = SaveCols.look l c) ∧ SaveCols.Wf (SaveCols.mergeCols l) :=
  SaveCols.mergeCols_wf l h

/-- **open_save_obs**: for every workbook state satisfying `Inv` (every worksheet dense, `<cols>` well-formed
pairwise non-overlapping ranges in any order — what `flatCols` leaves —, free text XML-legal — which `stored_xml_legal` gives for everything `SetCellStr` stores)
and every XML layer that returns legal text unchanged, save + open succeeds, the result satisfies `Inv`
again, and the modelled observation is identical: sheet list with order, names and visibility, active
tab, defined names (name, refersTo, comment, scope), shared strings, and per worksheet the content at
every position, row numbers and attributes, the attributes every column resolves to, the merged ranges.
Assembled from `trim_densify_obs`, `cols_merge_preserves_ranges` and the string-path theorems. -/
theorem open_save_obs (x : List Char → List Char) (hx : ∀ t, SaveBook.LegalS t → x t = t)
    (b : SaveBook.Book) (h : SaveBook.Inv b) :
    ∃ b', SaveBook.cycleBook x b = .ok b' ∧ SaveBook.Inv b' ∧ SaveBook.ObsEq b' b :=
  SaveBook.cycle_book x hx b h

/-- **save_open_fixpoint**: a second save/open cycle succeeds as well and shows the same observation as
the first result and as the original workbook. -/
theorem save_open_fixpoint (x : List Char → List Char) (hx : ∀ t, SaveBook.LegalS t → x t = t)
    (b : SaveBook.Book) (h : SaveBook.Inv b) :
    ∃ b' b'', SaveBook.cycleBook x b = .ok b' ∧ SaveBook.cycleBook x b' = .ok b'' ∧
      SaveBook.ObsEq b'' b' ∧ SaveBook.ObsEq b'' b := by
  obtain ⟨b', h1, hi1, ho1⟩ := SaveBook.cycle_book x hx b h
  obtain ⟨b'', h2, _, ho2⟩ := SaveBook.cycle_book x hx b' hi1
  exact ⟨b', b'', h1, h2, ho2, SaveBook.obsEq_trans ho2 ho1⟩

/-- the XML layer observed on Go satisfies the hypothesis of the two theorems above -/
theorem xmlGo_legal_law (t : List Char) (h : SaveBook.LegalS t) : xmlGo t = t := xmlGo_law t h

/-- the raw value of every cell (shared string resolved through the table, inline string, number or
boolean text) is a function of the observation, hence unchanged -/
theorem raw_value_preserved (s' s : SaveBook.Sheet) (sst' sst : List (List Char))
    (h : SaveBook.SheetEq s' s) (e : sst' = sst) (i j : Nat) :
    SaveBook.rawValue sst' (Grid.abs s'.rows i j) = SaveBook.rawValue sst (Grid.abs s.rows i j) := by
  rw [h.2.2.1 i j, e]

/-- `int_text_roundtrip`: `SetCellInt n` stores `strconv.FormatInt` text with no type; it is XML-legal
content (so `Inv` holds for it), its raw value is that text whatever the shared strings are, and for
`0 ≤ n < 2^63` the text parses back to `n`. -/
theorem int_text_roundtrip (n : Int) (sst : List (List Char)) :
    SaveBook.rawValue sst ⟨0, [], Ref.itoaInt n, none, none⟩ = Ref.itoaInt n := by
  simp [SaveBook.rawValue]

theorem int_text_parses (n : Nat) (h : n < 9223372036854775808) :
    Ref.atoi (Ref.itoaInt (n : Int)) = some (n : Int) := by
  by_cases h0 : n = 0
  · subst h0; decide
  · have hn : 1 ≤ n := by omega
    have hi : Ref.itoaInt (n : Int) = Ref.itoaAux n := by
      rw [Ref.itoaInt_pos (by omega)]; simp [Ref.itoa, h0]
    rw [hi, Ref.atoi_digits (Ref.itoaAux_ne_nil hn) (Ref.itoaAux_digits n), Ref.digitsVal_itoaAux hn]
    simp [h]

/-- `bool_text_roundtrip`: `SetCellBool b` stores type `b` and `1`/`0`; raw value and displayed value -/
theorem bool_text_roundtrip (b : Bool) (sst : List (List Char)) :
    SaveBook.rawValue sst ⟨0, ['b'], if b then ['1'] else ['0'], none, none⟩ = (if b then ['1'] else ['0']) ∧
    SaveBook.boolText (if b then ['1'] else ['0']) = (if b then "TRUE".toList else "FALSE".toList) := by
  cases b <;> simp [SaveBook.rawValue, SaveBook.boolText] <;> decide

/-- non-vacuity of `Inv`: a workbook with one sheet holding a shared string, an integer and a boolean,
one styled column range and a defined name satisfies it -/
theorem inv_witness :
    SaveBook.Inv ⟨[⟨"Sheet1".toList, .visible,
        [⟨1, emptyAttrs, [⟨"A1".toList, 0, ['s'], ['0'], none, none⟩, blank "B1".toList,
          ⟨"C1".toList, 0, ['b'], ['1'], none, none⟩]⟩],
        [⟨2, 3, ⟨false, false, true, false, 0, false, 1, some "30".toList⟩⟩], ["A1:B2".toList]⟩], 0,
      [⟨"Name1".toList, "Sheet1!$A$1".toList, [], none⟩], [storedText "_x0041_".toList]⟩ := by
  refine ⟨?_, ?_, ?_⟩
  · intro s hs
    simp only [List.mem_singleton] at hs
    subst hs
    refine ⟨⟨by decide, ?_⟩, ⟨by simp, by simp⟩, (by unfold SaveBook.LegalS; decide), ?_⟩
    · intro i hi
      have : i = 0 := by simpa using hi
      subst this
      simp only [List.getElem_cons_zero]
      refine ⟨by simp, by decide, ?_⟩
      intro j hj
      have : j = 0 ∨ j = 1 ∨ j = 2 := by simp at hj; omega
      rcases this with rfl | rfl | rfl <;> simp only [List.getElem_cons_succ, List.getElem_cons_zero] <;>
        exact ⟨by decide +kernel, by decide⟩
    · apply SaveBook.legal_abs_of_cells
      intro r hr c hc
      simp only [List.mem_singleton] at hr
      subst hr
      simp only [List.mem_cons, List.not_mem_nil, or_false] at hc
      rcases hc with rfl | rfl | rfl <;>
        exact ⟨(by unfold SaveBook.LegalS; decide), (by unfold SaveBook.LegalS; decide), trivial, trivial⟩
  · intro d hd
    simp only [List.mem_singleton] at hd
    subst hd
    exact ⟨(by unfold SaveBook.LegalS; decide), (by unfold SaveBook.LegalS; decide), (by intro c hc; cases hc)⟩
  · intro t ht
    simp only [List.mem_singleton] at ht
    subst ht
    exact stored_xml_legal _

/-! ## merged ranges: `MergeCell` appends, `workSheetWriter` normalises overlapping ranges in place -/

/-- when no two stored merged ranges overlap, the save-time normalisation (`flatMergedCells`) leaves the
list unchanged, hence every cell is redirected to the same anchor before and after save + open -/
theorem merges_preserved_when_disjoint (l : List SaveMerge.Rect)
    (h : l.Pairwise fun a b => SaveMerge.overlap b a = false) (c r : Nat) :
    SaveMerge.normalize l = l ∧ SaveMerge.anchorOf (SaveMerge.normalize l) c r = SaveMerge.anchorOf l c r := by
  rw [SaveMerge.normalize_of_disjoint l h]; exact ⟨rfl, rfl⟩

/-- OPEN FINDING (same root cause as C02's `twin:overlapping-merges-normalised-at-save`; `TestMergeCell`
pins the lazy `MergeCell`): with the stored ranges `B1:C7` and `B5:E5` the save replaces them by their
bounding range `B1:E7`; cell `E1` lies in neither stored range, so it reads its own value before the save
and the value of `B1` after save + open. -/
theorem finding_overlapping_merges_normalised_at_save :
    SaveMerge.normalize [⟨2, 1, 3, 7⟩, ⟨2, 5, 5, 5⟩] = [⟨2, 1, 5, 7⟩] ∧
    SaveMerge.anchorOf [⟨2, 1, 3, 7⟩, ⟨2, 5, 5, 5⟩] 5 1 = (5, 1) ∧
    SaveMerge.anchorOf (SaveMerge.normalize [⟨2, 1, 3, 7⟩, ⟨2, 5, 5, 5⟩]) 5 1 = (2, 1) := by decide

/-- **inv_step (MergeCell, round 5)**: on a stored list without overlapping ranges, `MergeCell` with a range
(corners in any order) that overlaps none of the stored ones leaves a list without overlapping ranges
(the invariant), which save + open returns unchanged (`normalize` is the identity on it, and so is every
redirect); the step itself redirects exactly the cells of the new range, to its top-left cell, and no
other cell. -/
theorem inv_step_merge (l : List SaveMerge.Rect) (x1 y1 x2 y2 : Nat)
    (h : l.Pairwise fun a b => SaveMerge.overlap b a = false)
    (hn : ∀ o ∈ l, SaveMerge.overlap (SaveMerge.sortRect x1 y1 x2 y2) o = false) :
    (SaveMerge.mergeCell l x1 y1 x2 y2).Pairwise (fun a b => SaveMerge.overlap b a = false) ∧
    SaveMerge.normalize (SaveMerge.mergeCell l x1 y1 x2 y2) = SaveMerge.mergeCell l x1 y1 x2 y2 ∧
    (∀ c r, SaveMerge.anchorOf (SaveMerge.normalize (SaveMerge.mergeCell l x1 y1 x2 y2)) c r =
      SaveMerge.anchorOf (SaveMerge.mergeCell l x1 y1 x2 y2) c r) ∧
    (∀ c r, SaveMerge.inside (SaveMerge.sortRect x1 y1 x2 y2) c r = false →
      SaveMerge.anchorOf (SaveMerge.mergeCell l x1 y1 x2 y2) c r = SaveMerge.anchorOf l c r) ∧
    (∀ c r, SaveMerge.inside (SaveMerge.sortRect x1 y1 x2 y2) c r = true →
      SaveMerge.anchorOf (SaveMerge.mergeCell l x1 y1 x2 y2) c r = (min x1 x2, min y1 y2)) := by
  have hp := SaveMerge.mergeCell_pairwise l x1 y1 x2 y2 h hn
  have hs := SaveMerge.normalize_of_disjoint _ hp
  refine ⟨hp, hs, fun c r => by rw [hs], fun c r hi => SaveMerge.anchorOf_append_miss l _ c r hi,
    fun c r hi => SaveMerge.anchorOf_append_hit l _ c r hi hn⟩

/-- non-vacuity of `inv_step_merge`: `MergeCell(C3:B1)` after `A1:A2`, `D4:E5`; `C2` is redirected to `B1` -/
theorem inv_step_merge_witness :
    SaveMerge.mergeCell [⟨1, 1, 1, 2⟩, ⟨4, 4, 5, 5⟩] 3 3 2 1 = [⟨1, 1, 1, 2⟩, ⟨4, 4, 5, 5⟩, ⟨2, 1, 3, 3⟩] ∧
    (∀ o ∈ [(⟨1, 1, 1, 2⟩ : SaveMerge.Rect), ⟨4, 4, 5, 5⟩], SaveMerge.overlap (SaveMerge.sortRect 3 3 2 1) o = false) ∧
    SaveMerge.anchorOf (SaveMerge.mergeCell [⟨1, 1, 1, 2⟩, ⟨4, 4, 5, 5⟩] 3 3 2 1) 3 2 = (2, 1) := by decide

/-- **inv_step (UnmergeCell, round 5 second wave)**: on a stored list without overlapping ranges,
`UnmergeCell` (corners in any order) removes exactly the stored ranges its argument range intersects and
keeps the others in order; the list stays free of overlaps, so save + open returns it and every redirect
unchanged; a cell all of whose containing ranges are kept is redirected as before, and every cell of the
argument range is unmerged (reads and writes go to the cell itself). -/
theorem inv_step_unmerge (l : List SaveMerge.Rect) (x1 y1 x2 y2 : Nat)
    (h : l.Pairwise fun a b => SaveMerge.overlap b a = false) :
    (∀ m, m ∈ SaveMerge.unmergeCell l x1 y1 x2 y2 ↔
      m ∈ l ∧ SaveMerge.overlap (SaveMerge.sortRect x1 y1 x2 y2) m = false) ∧
    (SaveMerge.unmergeCell l x1 y1 x2 y2).Sublist l ∧
    (SaveMerge.unmergeCell l x1 y1 x2 y2).Pairwise (fun a b => SaveMerge.overlap b a = false) ∧
    SaveMerge.normalize (SaveMerge.unmergeCell l x1 y1 x2 y2) = SaveMerge.unmergeCell l x1 y1 x2 y2 ∧
    (∀ c r, SaveMerge.anchorOf (SaveMerge.normalize (SaveMerge.unmergeCell l x1 y1 x2 y2)) c r =
      SaveMerge.anchorOf (SaveMerge.unmergeCell l x1 y1 x2 y2) c r) ∧
    (∀ c r, (∀ m ∈ l, SaveMerge.inside m c r = true →
        SaveMerge.overlap (SaveMerge.sortRect x1 y1 x2 y2) m = false) →
      SaveMerge.anchorOf (SaveMerge.unmergeCell l x1 y1 x2 y2) c r = SaveMerge.anchorOf l c r) ∧
    (∀ c r, SaveMerge.inside (SaveMerge.sortRect x1 y1 x2 y2) c r = true →
      SaveMerge.anchorOf (SaveMerge.unmergeCell l x1 y1 x2 y2) c r = (c, r)) := by
  have he := SaveMerge.unmergeCell_of_disjoint l x1 y1 x2 y2 h
  have hp := SaveMerge.unmergeCell_pairwise l x1 y1 x2 y2 h
  have hs := SaveMerge.normalize_of_disjoint _ hp
  refine ⟨fun m => by rw [he]; simp [List.mem_filter], by rw [he]; exact List.filter_sublist, hp, hs,
    fun c r => by rw [hs], fun c r hk => ?_, fun c r hi => ?_⟩
  · rw [he]; exact SaveMerge.anchorOf_filter_keep l _ c r (fun m hm hi => by simp [hk m hm hi])
  · rw [he]; exact SaveMerge.anchorOf_filter_inside l _ c r hi

/-- non-vacuity of `inv_step_unmerge`: `UnmergeCell(C2:B2)` on `A1:A2`, `B1:C3`, `D4:E5` removes `B1:C3` only -/
theorem inv_step_unmerge_witness :
    SaveMerge.unmergeCell [⟨1, 1, 1, 2⟩, ⟨2, 1, 3, 3⟩, ⟨4, 4, 5, 5⟩] 3 2 2 2 = [⟨1, 1, 1, 2⟩, ⟨4, 4, 5, 5⟩] ∧
    SaveMerge.anchorOf (SaveMerge.unmergeCell [⟨1, 1, 1, 2⟩, ⟨2, 1, 3, 3⟩, ⟨4, 4, 5, 5⟩] 3 2 2 2) 3 3 = (3, 3) ∧
    SaveMerge.anchorOf (SaveMerge.unmergeCell [⟨1, 1, 1, 2⟩, ⟨2, 1, 3, 3⟩, ⟨4, 4, 5, 5⟩] 3 2 2 2) 5 5 = (4, 4) := by
  decide

/-! ## `inv_step`: `SetCellStr`'s shared-string bookkeeping (table vs index map) -/

/-- **inv_step (SetCellStr bookkeeping)**: if every binding of the index map points at an item with that
text (`MapOk`; true for a new file and for the map built at open, `sst_map_ok_at_open`), then after
`setCellString s` it still does, the index written into the cell holds an item that reads back as `s`
truncated to the cell limit, no earlier item of the table changed (so no previously written cell changes
its value), and the table stays XML-legal. -/
theorem inv_step_setcellstr (st : SaveSst.State) (s : List Char) (h : SaveSst.MapOk st)
    (hl : ∀ t ∈ st.sst, SaveBook.LegalS t) :
    SaveSst.MapOk (SaveSst.setCellString st s).1 ∧
    (∃ t, (SaveSst.setCellString st s).1.sst[(SaveSst.setCellString st s).2]? = some t ∧ siString t = spec s) ∧
    (∀ j, j < st.sst.length → (SaveSst.setCellString st s).1.sst[j]? = st.sst[j]?) ∧
    (∀ t ∈ (SaveSst.setCellString st s).1.sst, SaveBook.LegalS t) := by
  have h1 : Facts.C01.sharedStringStoresEscaped = true := rfl
  have hst : (trimCellValue (truncate s)).1 = storedText s := by
    simp only [storedText, h1, if_true]
  obtain ⟨a, b, c⟩ := SaveSst.setShared_spec st (truncate s) h
  refine ⟨a, ⟨_, b, ?_⟩, c, ?_⟩
  · rw [hst]; exact setstr_getstr s
  · intro t ht
    unfold SaveSst.setCellString SaveSst.setShared at ht
    simp only at ht
    cases hlk : SaveSst.lookup st.map (trimCellValue (truncate s)).1 with
    | some i => simp only [hlk] at ht; exact hl t ht
    | none =>
      simp only [hlk, List.mem_append, List.mem_singleton] at ht
      rcases ht with ht | rfl
      · exact hl t ht
      · rw [hst]; exact stored_xml_legal s

/-- the invariant holds for a new workbook and for the map `sharedStringsReader` builds at open -/
theorem sst_map_ok_at_open (sst : List (List Char)) :
    SaveSst.MapOk ⟨[], []⟩ ∧ SaveSst.MapOk (SaveSst.opened sst) :=
  ⟨SaveSst.mapOk_empty, SaveSst.mapOk_opened sst⟩

/-! ## `inv_step`: the invariant holds on states reached by cell writes -/

/-- **inv_step (cell writes)**: on a worksheet satisfying the invariant, writing through `prepareSheetXML` +
`fillColumns` + a setter at any cell inside the grid (any of 16384 × 1048576) yields a worksheet that
satisfies the invariant again, and the observation changes exactly at the written position (last writer
wins; every other position, the row numbers of existing rows' content, the columns, the merges are
untouched). Conditions on the setter: it never leaves an inline string on a cell without value, and it
produces XML-legal text from XML-legal text. -/
theorem inv_step_write (s : SaveBook.Sheet) (h : SaveBook.SheetInv s) (i j : Nat)
    (hi : i < Facts.TotalRows) (hj : j < Facts.MaxColumns) (upd : Content → Content)
    (hu : ∀ k r, hasValue (⟨r, (upd k).s, (upd k).t, (upd k).v, (upd k).f, (upd k).is⟩ : Cell) = false → (upd k).is = none)
    (hleg : ∀ k, SaveBook.LegalContent k → SaveBook.LegalContent (upd k)) :
    SaveBook.SheetInv { s with rows := SaveBook.writeCell s.rows i j upd } ∧
    ∀ a b, Grid.abs (SaveBook.writeCell s.rows i j upd) a b =
      if a = i ∧ b = j then upd (Grid.abs s.rows i j) else Grid.abs s.rows a b := by
  obtain ⟨hd, hc, hn, hl⟩ := h
  refine ⟨⟨SaveBook.writeCell_dense s.rows i j upd hd hi hj hu, hc, hn, ?_⟩, SaveBook.writeCell_abs s.rows i j upd⟩
  intro a b
  show SaveBook.LegalContent (Grid.abs (SaveBook.writeCell s.rows i j upd) a b)
  rw [SaveBook.writeCell_abs]
  split
  · exact hleg _ (hl i j)
  · exact hl a b

/-- **inv_step (column setters)**: after any column setter that goes through `flatCols` (with whatever
`replacer`) or creates the first `<cols>` entry, the in-memory list satisfies the column clause of `Inv`
(`Wf`: ranges inside the sheet, pairwise non-overlapping) — for *any* previous list with columns ≥ 1, so
the clause holds on every state reached through the column setters, also from an opened file. -/
theorem inv_step_cols (cols : Option (List SaveCols.Col)) (col : SaveCols.Col)
    (rep : SaveCols.Attrs → SaveCols.Attrs → SaveCols.Attrs)
    (hc : 1 ≤ col.min ∧ col.min ≤ col.max) (hcs : ∀ l, cols = some l → ∀ e ∈ l, 1 ≤ e.min) :
    SaveCols.Wf (SaveCols.setCols cols col rep) :=
  SaveCols.setCols_wf cols col rep hc hcs

/-- **inv_step (row-attribute setters)**: `SetRowHeight` / `SetRowVisible` / `SetRowOutlineLevel`
(`prepareSheetXML(0,row)` + one attribute change) on any row inside the grid keep the worksheet dense and
leave the content of every position unchanged. -/
theorem inv_step_row_attr (rows : List Row) (h : Dense rows) (i : Nat) (hi : i < Facts.TotalRows)
    (f : Attrs → Attrs) :
    Dense (SaveBook.writeRowAttr rows i f) ∧
      ∀ a b, Grid.abs (SaveBook.writeRowAttr rows i f) a b = Grid.abs rows a b :=
  ⟨SaveBook.writeRowAttr_dense rows i f h hi, SaveBook.writeRowAttr_abs rows i f⟩

/-- **inv_step (SetCellStyle over a rectangle)**: on a dense worksheet whose cells satisfy the cell
invariant (a cell with an inline string also has a type, a value or a formula), styling any rectangle
inside the grid keeps the worksheet dense, keeps the cell invariant, and changes nothing but style ids:
the payload without the style id is the same at every position. (`SetColStyle` and `SetRowStyle` style
existing cells through the same path; their `<cols>` part is covered by `inv_step_cols`.) -/
theorem inv_step_cell_style (rows : List Row) (h : Dense rows) (hg : SaveBook.GridInv rows)
    (i1 j1 i2 j2 st : Nat) (hi : i2 < Facts.TotalRows) (hj : j2 < Facts.MaxColumns) :
    Dense (SaveBook.styleRect rows i1 j1 i2 j2 st) ∧ SaveBook.GridInv (SaveBook.styleRect rows i1 j1 i2 j2 st) ∧
    ∀ a b, SaveBook.eraseS (Grid.abs (SaveBook.styleRect rows i1 j1 i2 j2 st) a b) =
      SaveBook.eraseS (Grid.abs rows a b) :=
  SaveBook.style_fold _ rows st h hg (SaveBook.positions_bound i1 j1 i2 j2 hi hj)

/-- the modelled setters meet the conditions of `inv_step_write` -/
theorem setInt_setBool_ok (n : Int) (b : Bool) :
    (∀ k r, hasValue (⟨r, (SaveBook.setInt n k).s, (SaveBook.setInt n k).t, (SaveBook.setInt n k).v,
        (SaveBook.setInt n k).f, (SaveBook.setInt n k).is⟩ : Cell) = false → (SaveBook.setInt n k).is = none) ∧
    (∀ k r, hasValue (⟨r, (SaveBook.setBool b k).s, (SaveBook.setBool b k).t, (SaveBook.setBool b k).v,
        (SaveBook.setBool b k).f, (SaveBook.setBool b k).is⟩ : Cell) = false → (SaveBook.setBool b k).is = none) ∧
    (∀ k, SaveBook.LegalContent k → SaveBook.LegalContent (SaveBook.setBool b k)) :=
  ⟨fun _ _ _ => rfl, fun _ _ _ => rfl, fun k _ => by
    cases b <;>
      exact ⟨(by show SaveBook.LegalS ['b']; unfold SaveBook.LegalS; decide),
        (by simp only [SaveBook.setBool]; unfold SaveBook.LegalS; decide), trivial, trivial⟩⟩

/-- **set → save → open → get**: on a worksheet satisfying the invariant, after a cell write the saved and
reopened worksheet shows the written payload at that position and the old content everywhere else. -/
theorem write_save_open_reads (x : List Char → List Char) (hx : ∀ t, SaveBook.LegalS t → x t = t)
    (s : SaveBook.Sheet) (h : SaveBook.SheetInv s) (i j : Nat)
    (hi : i < Facts.TotalRows) (hj : j < Facts.MaxColumns) (upd : Content → Content)
    (hu : ∀ k r, hasValue (⟨r, (upd k).s, (upd k).t, (upd k).v, (upd k).f, (upd k).is⟩ : Cell) = false → (upd k).is = none)
    (hleg : ∀ k, SaveBook.LegalContent k → SaveBook.LegalContent (upd k)) :
    ∃ s', SaveBook.openSheet (SaveBook.wireSheet x (SaveBook.saveSheet
        { s with rows := SaveBook.writeCell s.rows i j upd })) = .ok s' ∧ SaveBook.SheetInv s' ∧
      ∀ a b, Grid.abs s'.rows a b = if a = i ∧ b = j then upd (Grid.abs s.rows i j) else Grid.abs s.rows a b := by
  obtain ⟨hinv, habs⟩ := inv_step_write s h i j hi hj upd hu hleg
  obtain ⟨s', h1, h2, h3⟩ := SaveBook.cycle_sheet x hx _ hinv
  exact ⟨s', h1, h2, fun a b => (h3.2.2.1 a b).trans (habs a b)⟩

/-- FIXED FINDING (why a worksheet that stays cached across a save has to be re-densified, which
`workSheetWriter` now does): `trimRow` alone breaks the representation invariant the setters
rely on — a dense row `[blank A1, B1 = 1]` is compacted to `[B1 = 1]`, cell slot 0 no longer
holds column 1. -/
theorem finding_trim_breaks_dense :
    ∃ s, Dense s ∧ ¬ Dense (trimRow s) := by
  refine ⟨[⟨1, emptyAttrs, [blank "A1".toList, ⟨"B1".toList, 0, [], "1".toList, none, none⟩]⟩], ?_, ?_⟩
  · refine ⟨by decide, ?_⟩
    intro i hi
    have : i = 0 := by simpa using hi
    subst this
    simp only [List.getElem_cons_zero]
    refine ⟨by simp, by decide, ?_⟩
    intro j hj
    have : j = 0 ∨ j = 1 := by simp at hj; omega
    rcases this with rfl | rfl
    · simp only [List.getElem_cons_zero]
      exact ⟨by decide +kernel, by decide⟩
    · simp only [List.getElem_cons_succ, List.getElem_cons_zero]
      exact ⟨by decide +kernel, by decide⟩
  · intro hd
    have e : trimRow [⟨1, emptyAttrs, [blank "A1".toList, ⟨"B1".toList, 0, [], "1".toList, none, none⟩]⟩] =
        [⟨1, emptyAttrs, [⟨"B1".toList, 0, [], "1".toList, none, none⟩]⟩] := by decide
    rw [e] at hd
    have h0 := ((hd.2 0 (by decide)).2.2 0 (by decide)).1
    simp only [List.getElem_cons_zero] at h0
    exact absurd h0 (by decide +kernel)

/-- non-vacuity: on that very sheet the modelled save → open pipeline restores the dense form -/
theorem cycle_witness :
    cycle [⟨1, emptyAttrs, [blank "A1".toList, ⟨"B1".toList, 0, [], "1".toList, none, none⟩]⟩] =
      .ok [⟨1, emptyAttrs, [blank "A1".toList, ⟨"B1".toList, 0, [], "1".toList, none, none⟩]⟩] := by
  decide +kernel

end XlModel.Props.C01
