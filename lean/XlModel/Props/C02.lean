import XlModel.Lemmas.Save
namespace XlModel.Props.C02
open XlModel XlModel.Save

theorem placeholder : True := trivial

end XlModel.Props.C02
