import XlModel.Lemmas.Save3
import XlModel.Lemmas.SaveWriters
import XlModel.Lemmas.SaveCols
import XlModel.Lemmas.SaveCols3
import XlModel.Lemmas.SaveColsIdem
import XlModel.Lemmas.Grid4
import XlModel.Generated.FactsC01
/-!
# C02 — saving is observationally pure and repeatable

`Impl` = `XlModel.Save` (transcription of workSheetWriter / trimRow / trimCell /
workSheetReader / checkSheet / checkRow / prepareSheetXML / fillColumns /
getCellStringFunc), defined over the regenerated facts `XlModel.Facts.C02`.
`abs : Sheet → Spec.Grid` is the worksheet *as its getters report it*.
All theorems are unbounded (every well-formed worksheet, every size).
-/
namespace XlModel.Props.C02
open XlModel XlModel.Save

/-! ## obligations on the regenerated facts (the tie, part a) -/

/-- workSheetWriter still does, in this order: normalise merges / cols, trim the cached
worksheet in place, marshal, store the part, evict iff checked, else `checkRow()`. -/
theorem facts_workSheetWriter_skeleton :
    Facts.C02.workSheetWriterCalls =
      ["f.mergeOverlapCells", "f.mergeExpandedCols", "trimRow", "encoder.Encode", "f.saveFileList",
       "f.checked.Load", "f.Sheet.Delete", "f.checked.Delete", "sheet.checkRow"]
    ∧ Facts.C02.evictIffChecked = true ∧ Facts.C02.redensifyCached = true := by decide

/-- workSheetReader: cache hit, else decode, `checkSheet` + `checkRow` unless checked, mark, cache. -/
theorem facts_workSheetReader_skeleton :
    Facts.C02.workSheetReaderCalls =
      ["f.Sheet.Load", "f.checked.Load", "ws.checkSheet", "ws.checkRow", "f.checked.Store", "f.Sheet.Store"] := by
  decide

/-- copySheet loads the source, then the target (which marks an uncached target part as
checked), then stores the copy in the cache: the order transcribed in `Impl.copySheet`. It then
drops *both* copies of the overwritten sheet's relationships — the part in `File.Pkg` (written
there by an earlier save, if any) and the loaded entry — before it stores the source's current
relationships: dropping only the loaded entry (seeded change C02e/2) makes the saved package
depend on whether a save happened before. -/
theorem facts_copySheet_skeleton :
    Facts.C02.copySheetCalls = ["f.workSheetReader", "f.workSheetReader", "f.Sheet.Store",
      "f.Pkg.Delete", "f.Relationships.Delete", "f.relsReader", "f.Relationships.Store"] := by decide

/-- trimRow never drops or moves a row slot; a row is replaced by its trimmed form iff it
keeps a cell or has an attribute; trimCell copies exactly the cells with a value. -/
theorem facts_trim_discipline :
    Facts.C02.trimRowKeepsEverySlot = true
    ∧ Facts.C02.trimRowKeepCond = "len(row.C) != 0 || row.hasAttr()"
    ∧ Facts.C02.trimCellCopyCond = "c.hasValue()"
    ∧ "Hidden" ∈ Facts.C02.hasAttrFields := by decide

/-- the guards of the slot arithmetic are the ones transcribed in `Impl` -/
theorem facts_slot_guards :
    Facts.C02.fillColumnsGuard = "cellCount < col"
    ∧ Facts.C02.prepareSheetXMLGuard = "rowCount < row"
    ∧ Facts.C02.checkRowGuard = "colCount < lastCol"
    ∧ Facts.C02.checkRowWidenGuard = "colNum > lastCol"
    ∧ Facts.C02.getCellLastRowGuard = "row > lastRowNum"
    ∧ Facts.C02.getCellRowMatch = "rowData.R != row"
    ∧ Facts.C02.getCellRefMatch = "cell != colData.R"
    ∧ Facts.C02.getRowVisibleGuard = "row > len(ws.SheetData.Row)"
    ∧ Facts.C02.prepareCellSlot = "&ws.SheetData.Row[row-1].C[col-1]" := by decide

/-! ## what the save path does to one worksheet -/

/-- (clause "nothing observable is dropped") A cell that `trimCell` drops carries nothing a
getter could report: `hasValue` tests every observed field (over the regenerated field list). -/
theorem dropped_cells_are_blank (c : Content) (h : hasValue c = false) : c = Content.blank :=
  hasValue_complete c h

/-- (mechanism "trimCell compacts cells sharing the backing array") The in-place compaction,
transcribed with explicit reads and writes on one array, yields exactly the cells with a value,
in order: the aliasing inside `trimCell` itself is harmless. -/
theorem trimCell_inplace_is_filter (cells : List Cell) :
    trimCell cells = cells.filter (fun c => hasValue c.c) :=
  trimCell_eq_filter cells

/-- (heart of the property) For every well-formed worksheet — dense grid, any size inside the
sheet limits — trimming in place and then `checkRow()` neither fails nor panics, gives a
well-formed worksheet again, and changes nothing any getter reports (`abs`: every cell by
reference lookup, row visibility, number of row slots). -/
theorem trim_densify_obs (s : Sheet) (h : Wf s) :
    ∃ s', checkRow (trimRow s) = (s', Res.ok ()) ∧ Wf s' ∧ abs s' = abs s := by
  obtain ⟨s', e, hw, ho⟩ := trim_checkRow_sheet s h
  exact ⟨s', e, hw, abs_eq_of_sameObs s' s hw.1 h.1 ho⟩

/-- (evict-and-reload of checked sheets) The part written for a well-formed worksheet decodes
— `checkSheet` (the identity on it) then `checkRow` — to a well-formed worksheet with the same
observation. -/
theorem saved_part_decodes (s : Sheet) (h : Wf s) :
    ∃ s', decodePart false (some (trimRow s).rows) = Res.ok s' ∧ Wf s' ∧ abs s' = abs s := by
  obtain ⟨s', e, hw, ha⟩ := trim_densify_obs s h
  refine ⟨s', ?_, hw, ha⟩
  unfold decodePart
  simp only [Option.getD_some, Bool.false_eq_true, if_false]
  rw [checkSheet_trim s h.1 h.2.1]
  have : (⟨(trimRow s).rows⟩ : Sheet) = trimRow s := rfl
  simp only [this, e]

/-- invariant of a worksheet part: it loads to a well-formed worksheet -/
def PartOk (w : WS) : Prop := ∃ w1 s, loadWS w = Res.ok (w1, s) ∧ Wf s

/-- two parts report the same through every getter -/
def SameView (w w' : WS) : Prop :=
  ∃ w1 s w1' s', loadWS w = Res.ok (w1, s) ∧ loadWS w' = Res.ok (w1', s') ∧ Wf s' ∧ abs s' = abs s

/-- (clause "after any number of saves every getter returns what it returned before", one part)
`workSheetWriter` on any part that loads to a well-formed worksheet — cached or not, checked
(evicted, re-read later) or not (NewSheet / CopySheet: stays cached) — succeeds, and the part
afterwards reports exactly what it reported before, and is well-formed again, so that the slot
arithmetic of later setters is valid. Holds for the current tree because
`Facts.C02.redensifyCached = true`. -/
theorem save_part_pure (w : WS) (h : PartOk w) :
    ∃ w', saveWS w = Res.ok w' ∧ PartOk w' ∧ SameView w w' := by
  obtain ⟨w1, s, hl, hw⟩ := h
  unfold saveWS saveWSWith
  cases hc : w.cache with
  | none =>
    exact ⟨w, rfl, ⟨w1, s, hl, hw⟩, ⟨w1, s, w1, s, hl, hl, hw, rfl⟩⟩
  | some s0 =>
    have hs : s0 = s := by
      unfold loadWS at hl; rw [hc] at hl; simp only [] at hl
      injection hl with hl; injection hl
    subst hs
    simp only []
    cases hk : w.checked with
    | true =>
      simp only [if_true]
      obtain ⟨s', e, hw', ha⟩ := saved_part_decodes s0 hw
      have hload : loadWS ⟨none, false, some (trimRow s0).rows⟩
          = Res.ok (⟨some s', true, some (trimRow s0).rows⟩, s') := by
        unfold loadWS; simp only [e]
      exact ⟨_, rfl, ⟨_, s', hload, hw'⟩, ⟨w1, s0, _, s', hl, hload, hw', ha⟩⟩
    | false =>
      have hf : Facts.C02.redensifyCached = true := by decide
      simp only [Bool.false_eq_true, if_false, hf, if_true]
      obtain ⟨s', e, hw', ha⟩ := trim_densify_obs s0 hw
      rw [e]
      have hload : loadWS ⟨some s', false, some (trimRow s0).rows⟩
          = Res.ok (⟨some s', false, some (trimRow s0).rows⟩, s') := rfl
      exact ⟨_, rfl, ⟨_, s', hload, hw'⟩, ⟨w1, s0, _, s', hl, hload, hw', ha⟩⟩

/-- (the same for the whole workbook) saving succeeds and every worksheet part, position by
position, satisfies the invariant again and reports what it reported before. -/
theorem save_getters_pure : ∀ (ws : List WS), (∀ w ∈ ws, PartOk w) →
    ∃ ws', saveAll ws = Res.ok ws' ∧ ws'.length = ws.length ∧ (∀ w ∈ ws', PartOk w) ∧
      ∀ (i : Nat) (w w' : WS), ws[i]? = some w → ws'[i]? = some w' → SameView w w' := by
  intro ws
  induction ws with
  | nil => intro _; exact ⟨[], rfl, rfl, by simp, by simp⟩
  | cons w ws ih =>
    intro h
    obtain ⟨w', e1, p1, v1⟩ := save_part_pure w (h w List.mem_cons_self)
    obtain ⟨ws', e2, l2, p2, v2⟩ := ih (fun x hx => h x (List.mem_cons_of_mem _ hx))
    refine ⟨w' :: ws', by simp [saveAll, e1, e2], by simp [l2], ?_, ?_⟩
    · intro x hx
      rcases List.mem_cons.mp hx with rfl | hx
      · exact p1
      · exact p2 x hx
    · intro i a a' ha ha'
      cases i with
      | zero => simp at ha ha'; subst ha; subst ha'; exact v1
      | succ i => simp at ha ha'; exact v2 i a a' ha ha'

/-- (clause "saving an unmodified workbook twice … decode to identical content", one part)
two consecutive saves: both stored parts decode to worksheets with the observation the
worksheet had before the first save. -/
theorem save_twice_same (w : WS) (s : Sheet) (hc : w.cache = some s) (hw : Wf s) :
    ∃ w1 w2 p1 p2, saveWS w = Res.ok w1 ∧ saveWS w1 = Res.ok w2 ∧
      w1.pkg = some p1 ∧ w2.pkg = some p2 ∧
      ∃ d1 d2, decodePart false (some p1) = Res.ok d1 ∧ decodePart false (some p2) = Res.ok d2 ∧
        abs d1 = abs s ∧ abs d2 = abs s := by
  have hf : Facts.C02.redensifyCached = true := by decide
  obtain ⟨d1, e1, _, a1⟩ := saved_part_decodes s hw
  unfold saveWS saveWSWith
  rw [hc]
  simp only []
  cases hk : w.checked with
  | true =>
    simp only [if_true]
    exact ⟨_, _, _, _, rfl, rfl, rfl, rfl, d1, d1, e1, e1, a1, a1⟩
  | false =>
    simp only [Bool.false_eq_true, if_false, hf, if_true]
    obtain ⟨s', e, hw', ha⟩ := trim_densify_obs s hw
    rw [e]
    simp only []
    obtain ⟨s'', e', _, _⟩ := trim_densify_obs s' hw'
    obtain ⟨d2, e2, _, a2⟩ := saved_part_decodes s' hw'
    refine ⟨⟨some s', false, some (trimRow s).rows⟩, ⟨some s'', false, some (trimRow s').rows⟩,
      _, _, rfl, ?_, rfl, rfl, d1, d2, e1, e2, a1, by rw [a2, ha]⟩
    simp only [Bool.false_eq_true, if_false, e']

/-! ## whole histories: the main clause as one theorem -/

/-- every call of the history passes the one bound the library does not check itself
(`SetRowVisible` accepts rows beyond `TotalRows`, see `finding_hide_beyond_last_row`) -/
def HistOk (ops : List Op) : Prop := ∀ op ∈ ops, OpOk op

/-- (refinement over histories) From related states, any history — setters, getters,
NewSheet, CopySheet, saves and reopens at arbitrary positions — gives, call by call, the
answers of the specification (a list of total maps on which save and reopen do nothing),
and ends in related states. Induction over the history; the save step is `save_inv`
(trim in place / evict / re-densify, `trim_densify_obs`), the setter steps are
`setCell_wf` / `setRowHidden_wf` (slot arithmetic = function update on well-formed sheets). -/
theorem history_refines_spec : ∀ (ops : List Op) (wb : WB) (b : Spec.Book), Sim wb b → HistOk ops →
    (run wb ops).2 = (Spec.run b ops).2 ∧ Sim (run wb ops).1 (Spec.run b ops).1 := by
  intro ops
  induction ops with
  | nil => intro wb b h _; exact ⟨rfl, h⟩
  | cons o os ih =>
    intro wb b h hok
    obtain ⟨e1, h1⟩ := step_sim wb b o h (hok o List.mem_cons_self)
    obtain ⟨e2, h2⟩ := ih (step wb o).1 (Spec.step b o).1 h1 (fun x hx => hok x (List.mem_cons_of_mem _ hx))
    simp only [run, Spec.run]
    exact ⟨by rw [e1, e2], h2⟩

/-- a call that serialises: Write/WriteTo/WriteToBuffer/SaveAs (`save`) or save-and-open-again (`reopen`) -/
def isSave : Op → Bool
  | .save => true
  | .reopen => true
  | _ => false

/-- the answers at the positions that are not saves -/
def visible : List Op → List Out → List Out
  | o :: os, x :: xs => if isSave o then visible os xs else x :: visible os xs
  | _, _ => []

/-- the specification ignores saves: same final grids, same answers elsewhere -/
theorem spec_ignores_saves : ∀ (ops : List Op) (b : Spec.Book),
    (Spec.run b ops).1 = (Spec.run b (ops.filter (fun o => !isSave o))).1 ∧
    visible ops (Spec.run b ops).2 = (Spec.run b (ops.filter (fun o => !isSave o))).2 := by
  intro ops
  induction ops with
  | nil => intro b; exact ⟨rfl, rfl⟩
  | cons o os ih =>
    intro b
    cases o <;> simp [Spec.run, Spec.step, isSave, visible, List.filter, ih]

theorem histOk_filter (ops : List Op) (p : Op → Bool) (h : HistOk ops) : HistOk (ops.filter p) :=
  fun op hop => h op (List.mem_filter.mp hop).1

/-- **save_pure** (the property's main clause, full strength, over whole histories).
Take any reachable-style state (`Sim wb b`: every part loads to a well-formed worksheet) and
any two histories that differ only in where — and how often — save / reopen calls are
interleaved. Then every other call answers the same in both runs (every getter returns
what it returns without the saves; every mutation is accepted or rejected alike), and the
final states have the same observation: there is one list of grids `b'` that both final
workbooks stand for, part by part. -/
theorem save_pure (wb : WB) (b : Spec.Book) (ops ops' : List Op) (h : Sim wb b)
    (hok : HistOk ops) (hok' : HistOk ops')
    (hsame : ops.filter (fun o => !isSave o) = ops'.filter (fun o => !isSave o)) :
    visible ops (run wb ops).2 = visible ops' (run wb ops').2 ∧
    ∃ b', Sim (run wb ops).1 b' ∧ Sim (run wb ops').1 b' := by
  obtain ⟨e1, s1⟩ := history_refines_spec ops wb b h hok
  obtain ⟨e2, s2⟩ := history_refines_spec ops' wb b h hok'
  obtain ⟨f1, v1⟩ := spec_ignores_saves ops b
  obtain ⟨f2, v2⟩ := spec_ignores_saves ops' b
  refine ⟨by rw [e1, e2, v1, v2, hsame], (Spec.run b ops).1, s1, ?_⟩
  rw [f1, hsame, ← f2]; exact s2

/-- (… "and the same saved content") two workbooks that stand for the same grids are both
saved successfully, and every stored worksheet part of either decodes — checkSheet, checkRow —
to a well-formed worksheet with the observation of the corresponding grid: the packages
decode to identical content. With `save_pure`: the content saved after a history does not
depend on the saves interleaved before. -/
theorem saved_content_same (wb wb' : WB) (b : Spec.Book) (h : Sim wb b) (h' : Sim wb' b) :
    ∃ ws ws', save wb = Res.ok ⟨ws⟩ ∧ save wb' = Res.ok ⟨ws'⟩ ∧
      All2 SavedOk ws b ∧ All2 SavedOk ws' b ∧ Sim ⟨ws⟩ b ∧ Sim ⟨ws'⟩ b := by
  obtain ⟨ws, e, p, q⟩ := saveAll_sim h
  obtain ⟨ws', e', p', q'⟩ := saveAll_sim h'
  exact ⟨ws, ws', by simp [save, e], by simp [save, e'], q, q', p, p'⟩

/-- (… "saving an unmodified workbook twice", whole workbook) two consecutive saves both
succeed and the parts stored by the first and by the second decode to the same grids. -/
theorem save_twice_same_workbook (wb : WB) (b : Spec.Book) (h : Sim wb b) :
    ∃ ws1 ws2, save wb = Res.ok ⟨ws1⟩ ∧ save ⟨ws1⟩ = Res.ok ⟨ws2⟩ ∧
      All2 SavedOk ws1 b ∧ All2 SavedOk ws2 b := by
  obtain ⟨ws1, e1, p1, q1⟩ := saveAll_sim h
  obtain ⟨ws2, e2, _, q2⟩ := saveAll_sim (ws := ws1) p1
  exact ⟨ws1, ws2, by simp [save, e1], by simp [save, e2], q1, q2⟩

/-- the histories of the quantifier start here: NewFile is related to the one-sheet book -/
theorem sim_newFile : Sim newFile Spec.newFile :=
  All2.cons (Or.inl ⟨⟨[]⟩, rfl, wf_empty, abs_empty⟩) All2.nil

/-! ## the other in-place normalisations of `workSheetWriter`: `<cols>` and merged ranges

These two steps are modelled by C01 (`XlModel.SaveCols`) and C03 (`XlModel.Grid`), each tied to the
code by its own facts and transcript; here they are stated as clauses of *save purity*. -/

/-- `mergeExpandedCols` still compares all ten `xlsxCol` fields of a column definition with its
predecessor shifted by one column (regenerated by C01's extractor): dropping `Style` (or any other
field) from the comparison — the seeded change C02a/1 — breaks this obligation. -/
theorem facts_cols_compare_all_fields :
    Facts.C01.mergeColsFields = ["BestFit", "Collapsed", "CustomWidth", "Hidden", "Max", "Min",
      "OutlineLevel", "Phonetic", "Style", "Width"] ∧ Facts.C01.mergeColsMaxFromLastMin = true := by decide

/-- (save is pure on column definitions) what `workSheetWriter` → `mergeExpandedCols` leaves in the
cached worksheet resolves every column — any of the 16384 — to the same width, style, visibility,
outline level and remaining attributes as before the save, for every flat `<cols>` list (one entry per
column, the form every column setter leaves), of any length. -/
theorem save_cols_pure (lo : Nat) (l : List SaveCols.Col) (h : SaveCols.FlatFrom lo l) (c : Nat) :
    SaveCols.look (SaveCols.mergeCols l) c = SaveCols.look l c := by
  unfold SaveCols.mergeCols
  rw [SaveCols.sortCols_flat lo l h]
  exact SaveCols.look_mergeSorted lo l h c

/-- (save is pure on merged ranges that do not overlap) `workSheetWriter` → `mergeOverlapCells`
(since C03's repair 06830cb: each range is merged with the ranges it overlaps into the bounding range,
repeated to a fixpoint, comparing rectangles) is the
identity on every list of valid, pairwise disjoint merged ranges: same entries, same order, same `Ref`. -/
theorem save_merges_pure_on_disjoint (ms : List Grid.MObj) (h : Grid.PairwiseDisjoint ms) :
    Grid.mergeOverlapCells ms = ms := Grid.mergeOverlap_id ms h

/-- (finding, open: `twin:overlapping-merges-normalised-at-save`) on two intersecting ranges
(`D3:D4` then `C2:D3`, the witness of the oracle) the save is *not* the identity: it replaces them by
the one range `C2:D4`, so `mergeCellsParser` redirects a later write into the overlap to another cell.
(C03's rewrite of the normalisation changed *how* overlapping ranges are combined, not *when*:
`MergeCell` still only appends, the list is still normalised in place by the save.) -/
theorem finding_overlapping_merges_normalised :
    let ms : List Grid.MObj := [⟨⟨4, 3, 4, 4⟩, ⟨4, 3, 4, 4⟩⟩, ⟨⟨3, 2, 4, 3⟩, ⟨3, 2, 4, 3⟩⟩]
    Grid.mergeOverlapCells ms ≠ ms ∧ (Grid.mergeOverlapCells ms).map (·.ref) = [⟨3, 2, 4, 4⟩] := by
  decide

/-- (repeatable, merged ranges — for EVERY merge list, overlapping ranges included) the second save is
the identity on the merge list: what `mergeOverlapCells` leaves is pairwise disjoint under the very
interval test it uses, so running it again changes nothing — same entries, same order, same `Ref`.
The open finding above is therefore confined to the *first* save after an overlapping `MergeCell`. -/
theorem save_merges_idempotent (ms : List Grid.MObj) :
    Grid.mergeOverlapCells (Grid.mergeOverlapCells ms) = Grid.mergeOverlapCells ms := by
  have hd : Grid.DisjB ([] ++ Grid.mergeOverlapCells ms) := by
    simpa using Grid.mergeOverlap_disj ms
  simpa [Grid.mergeOverlapCells] using Grid.mergeOverlap_id_aux (Grid.mergeOverlapCells ms) [] hd

/-- (repeatable, merged ranges, any number of saves) `n + 1` consecutive saves leave the merge list one
save leaves, for every merge list -/
theorem save_merges_repeatable (n : Nat) (ms : List Grid.MObj) :
    Nat.repeat Grid.mergeOverlapCells (n + 1) ms = Grid.mergeOverlapCells ms := by
  induction n with
  | zero => rfl
  | succ n ih =>
    show Grid.mergeOverlapCells (Nat.repeat Grid.mergeOverlapCells (n + 1) ms) = _
    rw [ih, save_merges_idempotent]

/-- (repeatable, column definitions, any number of saves) for every `<cols>` list the column setters can
leave (`SaveCols.Wf`: well-formed, pairwise non-overlapping ranges in ANY order — `flatCols` appends, so
the list is not sorted; `save_cols_pure` covers the sorted flat case only) and every `n`: after `n`
consecutive saves every column still resolves to the attributes it had before the first one, and the
list is well-formed again (so the setters that follow start from the state the theorem assumes). -/
theorem save_cols_repeatable (n : Nat) (l : List SaveCols.Col) (h : SaveCols.Wf l) :
    (∀ c, SaveCols.look (Nat.repeat SaveCols.mergeCols n l) c = SaveCols.look l c)
    ∧ SaveCols.Wf (Nat.repeat SaveCols.mergeCols n l) := by
  induction n with
  | zero => exact ⟨fun _ => rfl, h⟩
  | succ n ih =>
    have h1 := SaveCols.mergeCols_wf (Nat.repeat SaveCols.mergeCols n l) ih.2
    exact ⟨fun c => (h1.1 c).trans (ih.1 c), h1.2⟩

/-- (repeatable, column definitions, as a LIST) for every `<cols>` list the column setters can leave
(`SaveCols.Wf`, any order): the second save rewrites `<cols>` to exactly the entries the first save left —
`mergeExpandedCols ∘ mergeExpandedCols = mergeExpandedCols`, not only the same per-column answers
(`save_cols_repeatable`).  After one save no entry is its predecessor shifted by one column any more
(`SaveCols.mergeGo_noAdj`), so the loop copies the list (`SaveCols.mergeGo_fixed`). -/
theorem save_cols_idempotent (l : List SaveCols.Col) (h : SaveCols.Wf l) :
    SaveCols.mergeCols (SaveCols.mergeCols l) = SaveCols.mergeCols l :=
  SaveCols.mergeCols_idem l h

/-- (any number of saves) `n + 1` consecutive saves leave the `<cols>` list one save leaves -/
theorem save_cols_repeatable_list (n : Nat) (l : List SaveCols.Col) (h : SaveCols.Wf l) :
    Nat.repeat SaveCols.mergeCols (n + 1) l = SaveCols.mergeCols l := by
  induction n with
  | zero => rfl
  | succ n ih =>
    show SaveCols.mergeCols (Nat.repeat SaveCols.mergeCols (n + 1) l) = _
    rw [ih, save_cols_idempotent l h]

/-- (non-vacuity: the first save does change the list) two single-column entries with equal attributes,
stored out of order by the setters, become one range `1..2`; the theorem above says that is where it stops -/
theorem sample_cols_first_save_changes_list :
    let a : SaveCols.Attrs := ⟨false, false, true, false, 0, false, 3, some ['9']⟩
    let l : List SaveCols.Col := [⟨2, 2, a⟩, ⟨1, 1, a⟩]
    SaveCols.mergeCols l = [⟨1, 2, a⟩] ∧ SaveCols.mergeCols l ≠ l
      ∧ SaveCols.mergeCols (SaveCols.mergeCols l) = SaveCols.mergeCols l := by
  decide

/-! ## the other part writers: a writer must not consume what it renders from -/

open SaveWriters in
/-- `writeToZip` runs these writers in this order, and each destroys exactly this File state
(regenerated from file.go / the writers' bodies): a writer that starts deleting or clearing a
field — e.g. `delete(f.VMLDrawing, path)` in `vmlDrawingWriter`, the seeded change C02d/1, or a
moved `f.SharedStrings = nil` in `sharedStringsLoader`, C02a/2 — breaks this obligation. -/
theorem facts_writers_and_what_they_clear :
    Facts.C02.saveWriters = ["calcChainWriter", "commentsWriter", "contentTypesWriter", "drawingsWriter",
      "volatileDepsWriter", "vmlDrawingWriter", "workBookWriter", "workSheetWriter", "relsWriter",
      "sharedStringsLoader", "sharedStringsWriter", "styleSheetWriter", "themeWriter"]
    ∧ Facts.C02.writerClears = [
      ("calcChainWriter", []), ("commentsWriter", []), ("contentTypesWriter", []), ("drawingsWriter", []),
      ("volatileDepsWriter", []), ("vmlDrawingWriter", []),
      ("workBookWriter", ["f.WorkBook.DecodeAlternateContent=nil"]),
      ("workSheetWriter", ["sheet.DecodeAlternateContent=nil", "f.Sheet.Delete", "f.checked.Delete"]),
      ("relsWriter", []),
      ("sharedStringsLoader", ["f.tempFiles.Delete", "f.SharedStrings=nil", "f.tempFiles.Delete",
        "f.sharedStringItem=nil", "f.sharedStringTemp=nil"]),
      ("sharedStringsWriter", []), ("styleSheetWriter", []), ("themeWriter", [])]
    ∧ Facts.C02.workbookAltPersisted = true ∧ Facts.C02.worksheetAltPersisted = true
    ∧ vmlWriterDrops = false := by decide

/-- (generic) a non-consuming writer renders the same part after any number of saves -/
theorem writer_idempotent {σ β : Type} (w : SaveWriters.Writer σ β) (h : SaveWriters.NonConsuming w)
    (n : Nat) (s : σ) : w.render (SaveWriters.iter w.post n s) = w.render s :=
  SaveWriters.iter_post w h n s

/-- (clause "saving twice … identical content", workbook and worksheet `mc:AlternateContent`)
the writers of the code as it is — the encode field is built only under
`if DecodeAlternateContent != nil` and therefore survives the clearing of the decode-only field
— are non-consuming: the element is written by every save, not only by the first. -/
theorem altContent_writers_nonConsuming :
    SaveWriters.NonConsuming SaveWriters.workbookAltWriter ∧
    SaveWriters.NonConsuming SaveWriters.worksheetAltWriter := by
  have h1 : Facts.C02.workbookAltPersisted = true := by decide
  have h2 : Facts.C02.worksheetAltPersisted = true := by decide
  unfold SaveWriters.workbookAltWriter SaveWriters.worksheetAltWriter
  rw [h1, h2]
  exact ⟨SaveWriters.altWriter_nonConsuming, SaveWriters.altWriter_nonConsuming⟩

/-- the seeded change C02d/2 in the model: a writer that rebuilds the element from the decode-only
field alone loses it on the second save. -/
theorem finding_altContent_writer_consuming :
    ¬ SaveWriters.NonConsuming (SaveWriters.altWriter false) := by
  intro h
  have := (h ⟨none, some "x15ac:absPath"⟩).1
  simp [SaveWriters.altWriter, SaveWriters.altNext] at this

/-- (VML drawings: form controls, comments) with the writer of the code as it is, every history
of AddFormControl/AddComment, reads and saves — saves at arbitrary positions — answers and ends
like the specification in which saving does nothing; in particular the stale-memo reader
`decodeVMLDrawingReader` is never consulted while a drawing is loaded. -/
theorem vml_save_pure : ∀ (ops : List SaveWriters.VOp) (s : SaveWriters.Vml) (v : SaveWriters.Shapes),
    s.Inv → s.cur = v →
    (SaveWriters.vrun SaveWriters.vmlWriterDrops s ops).2 = (SaveWriters.vspec v ops).2 ∧
    (SaveWriters.vrun SaveWriters.vmlWriterDrops s ops).1.cur = (SaveWriters.vspec v ops).1 := by
  have hd : SaveWriters.vmlWriterDrops = false := by decide
  rw [hd]
  intro ops
  induction ops with
  | nil => intro s v _ hc; exact ⟨rfl, hc⟩
  | cons o os ih =>
    intro s v hi hc
    obtain ⟨e1, i1, c1⟩ := SaveWriters.vstep_sim s v o hi hc
    obtain ⟨e2, c2⟩ := ih _ _ i1 c1
    simp only [SaveWriters.vrun, SaveWriters.vspec]
    exact ⟨by rw [e1, e2], c2⟩

/-- the seeded change C02d/1 in the model: if the writer drops the loaded drawing, then
add A1 · save · read · add B5 · save · read reports `[A1]` — the memo of the first read — and not
`[A1, B5]`. -/
theorem finding_vml_writer_dropping :
    (SaveWriters.vrun true ⟨none, none, none⟩
      [.add "A1", .save, .read, .add "B5", .save, .read]).2.getLast? = some (some ["A1"])
    ∧ (SaveWriters.vspec [] [.add "A1", .save, .read, .add "B5", .save, .read]).2.getLast?
        = some (some ["A1", "B5"]) := by decide

/-! ## the remaining part writers: the whole package state -/

/-- every writer of `writeToZip` renders from loaded state of one of three shapes (a singleton
under `!= nil` [and one more guard for the calc chain], every entry of a map, every entry of a
sync.Map), and every reader of a singleton decodes the part only when nothing is loaded
(regenerated): the shapes the `Slot` model transcribes. -/
theorem facts_writer_shapes_and_readers :
    Facts.C02.writerShapes = [
      ("calcChainWriter", "singleton", "f.CalcChain"),
      ("commentsWriter", "map", "f.Comments"),
      ("contentTypesWriter", "singleton", "f.ContentTypes"),
      ("drawingsWriter", "syncmap", "f.Drawings"),
      ("volatileDepsWriter", "singleton", "f.VolatileDeps"),
      ("vmlDrawingWriter", "map", "f.VMLDrawing"),
      ("workBookWriter", "singleton", "f.WorkBook"),
      ("workSheetWriter", "syncmap", "f.Sheet"),
      ("relsWriter", "syncmap", "f.Relationships"),
      ("sharedStringsLoader", "loader", ""),
      ("sharedStringsWriter", "singleton", "f.SharedStrings"),
      ("styleSheetWriter", "singleton", "f.Styles"),
      ("themeWriter", "singleton", "f.Theme")]
    ∧ Facts.C02.writerGuards = [
      ("calcChainWriter", "f.CalcChain != nil && f.CalcChain.C != nil"), ("contentTypesWriter", "f.ContentTypes != nil"),
      ("volatileDepsWriter", "f.VolatileDeps != nil"), ("workBookWriter", "f.WorkBook != nil"),
      ("sharedStringsWriter", "f.SharedStrings != nil"), ("styleSheetWriter", "f.Styles != nil"),
      ("themeWriter", "f.Theme != nil")]
    ∧ Facts.C02.readerCaches = [
      ("calcChainReader", "f.CalcChain == nil"), ("contentTypesReader", "f.ContentTypes == nil"),
      ("stylesReader", "f.Styles == nil"), ("sharedStringsReader", "f.SharedStrings == nil"),
      ("workbookReader", "f.WorkBook == nil"), ("relsReader", "rels == nil"),
      ("commentsReader", "f.Comments[path] == nil")] := by decide

/-- which writers consume the state they render from, computed from the regenerated shapes and
clears: only `workSheetWriter` (it evicts checked worksheets — the case `save_pure` treats); the
calc chain, comments, content types, drawings, volatile dependencies, VML, workbook,
relationships, shared strings, styles and theme writers keep what they have loaded. -/
theorem facts_which_writers_consume :
    Facts.C02.saveWriters.map SaveWriters.writerConsumes =
      [false, false, false, false, false, false, false, true, false, false, false, false, false] := by decide

/-- (one part) **the exact condition**: a writer of this shape leaves unchanged what every reader
of the part returns if it keeps the loaded value, *or* if it drops it and the part's XML binding
round-trips (`dec (enc a) = a`: the value is re-derived from the bytes just written). -/
theorem part_writer_pure {α β : Type} (c : SaveWriters.Codec α β) (zero : α) (g : α → Bool)
    (consumes : Bool) (hrt : consumes = true → c.RoundTrip) (s : SaveWriters.Slot α β) :
    (s.write c g consumes).view c zero = s.view c zero ∧
    (s.write c g consumes).write c g consumes = s.write c g consumes :=
  ⟨SaveWriters.slot_write_view c zero g consumes hrt s, SaveWriters.slot_write_idem c g consumes s⟩

/-- (one part, whole histories) any history of mutations through the reader, reads and saves —
saves at arbitrary positions — answers and ends like the specification in which the part is a
plain value and saving does nothing. -/
theorem part_history_pure {α β : Type} (c : SaveWriters.Codec α β) (zero : α) (g : α → Bool)
    (consumes : Bool) (hrt : consumes = true → c.RoundTrip) (ops : List (SaveWriters.SOp α))
    (s : SaveWriters.Slot α β) :
    (SaveWriters.srun c zero g consumes s ops).2 = (SaveWriters.sspec (s.view c zero) ops).2 ∧
    (SaveWriters.srun c zero g consumes s ops).1.view c zero = (SaveWriters.sspec (s.view c zero) ops).1 :=
  SaveWriters.srun_sim c zero g consumes hrt ops s _ rfl

/-- the bytes stored by a save are the rendering of what the readers saw (when the guard lets the
writer run): saved content = observed content. -/
theorem part_saved_is_view {α β : Type} (c : SaveWriters.Codec α β) (zero : α) (g : α → Bool)
    (consumes : Bool) (s : SaveWriters.Slot α β) (a : α) (hl : s.loaded = some a) (hg : g a = true) :
    (s.write c g consumes).part = some (c.enc (s.view c zero)) :=
  SaveWriters.slot_write_part c zero g consumes s a hl hg

/-- (**the whole package**, clauses "every getter returns what it returned before" and "saving twice")
one slot per writer of `writeToZip`, consumption flags as the code has them: a save leaves the
view of *every* part unchanged, and a second save leaves loaded values and bytes exactly as the
first left them. The only hypothesis is the XML round-trip of the one part whose writer consumes
(the worksheets, for which `save_pure` proves the corresponding statement on the real
representation: `saved_part_decodes`). -/
theorem package_save_pure {α β : Type} (c : SaveWriters.Codec α β) (zero : α) (g : α → Bool)
    (hrt : c.RoundTrip) (ss : List (SaveWriters.Slot α β)) :
    let flags := Facts.C02.saveWriters.map SaveWriters.writerConsumes
    (SaveWriters.savePkg c g flags ss).map (SaveWriters.Slot.view c zero) = ss.map (SaveWriters.Slot.view c zero) ∧
    SaveWriters.savePkg c g flags (SaveWriters.savePkg c g flags ss) = SaveWriters.savePkg c g flags ss :=
  ⟨SaveWriters.savePkg_view c zero g _ ss (fun _ _ _ => hrt), SaveWriters.savePkg_idem c g _ ss⟩

/-- without the worksheets nothing is assumed about the XML binding at all: the other twelve
writers are non-consuming. -/
theorem package_save_pure_other_parts {α β : Type} (c : SaveWriters.Codec α β) (zero : α) (g : α → Bool)
    (ss : List (SaveWriters.Slot α β)) :
    let flags := (Facts.C02.saveWriters.filter (· != "workSheetWriter")).map SaveWriters.writerConsumes
    (SaveWriters.savePkg c g flags ss).map (SaveWriters.Slot.view c zero) = ss.map (SaveWriters.Slot.view c zero) := by
  have hf : (Facts.C02.saveWriters.filter (· != "workSheetWriter")).map SaveWriters.writerConsumes
      = List.replicate 12 false := by decide
  simp only [hf]
  apply SaveWriters.savePkg_view
  intro f hf' ht
  have : f = false := List.eq_of_mem_replicate hf'
  rw [this] at ht; cases ht

/-- a writer that drops the loaded value while its reader keeps a memo that is not invalidated
(the VML case, `finding_vml_writer_dropping`) or whose binding does not round-trip is *not*
covered: here a consuming writer with a lossy binding changes the view. -/
theorem consuming_writer_needs_roundtrip :
    let c : SaveWriters.Codec Nat Nat := ⟨fun a => a / 2, fun b => b * 2⟩
    ((⟨some 3, none⟩ : SaveWriters.Slot Nat Nat).write c (fun _ => true) true).view c 0 ≠ 3 := by decide

/-! ## an open finding that the history theorem's hypothesis `HistOk` stands for -/

/-- (finding, open) `SetRowVisible` accepts a row beyond `TotalRows` (it only rejects
`row < 1`); the worksheet then has more row slots than `checkSheet` admits, so the part a
save writes for it can no longer be loaded: on a worksheet that the save evicts (e.g.
Sheet1 of NewFile) every later call on the sheet fails with ErrMaxRows, while without the
save it keeps working. This is why `save_pure` assumes `HistOk`. -/
theorem finding_hide_beyond_last_row (r : Nat) (hr : Facts.TotalRows < r) :
    ∃ s', setRowHidden ⟨[]⟩ r true = Res.ok s' ∧
      decodePart false (some (trimRow s').rows) = Res.err := by
  have hr0 : r ≠ 0 := by omega
  have hlt : ¬ (r < 1) := by omega
  have hres : setRowHidden ⟨[]⟩ r true = Res.ok
      ⟨((appendRows [] r).modify (r - 1) (fun x => { x with cells := fillColumns x.cells 0 r })).modify (r - 1)
        (fun x => { x with hidden := true })⟩ := by
    unfold setRowHidden prepareSheetXML
    simp [hlt, hr0]
  refine ⟨_, hres, ?_⟩
  have h0 : (appendRows [] r)[r - 1]? = some ⟨r, false, []⟩ := by
    unfold appendRows
    have hpos : ([] : List Row).length < r := by simp; omega
    rw [if_pos hpos]
    simp only [List.nil_append, List.length_nil, Nat.sub_zero]
    rw [List.getElem?_map, List.getElem?_range' (by omega)]
    simp; omega
  have hany : (trimRow ⟨((appendRows [] r).modify (r - 1) (fun x => { x with cells := fillColumns x.cells 0 r })).modify (r - 1)
        (fun x => { x with hidden := true })⟩).rows.any (fun x => decide (x.r > Facts.TotalRows)) = true := by
    rw [List.any_eq_true]
    refine ⟨trimRow1 ⟨r, true, fillColumns [] 0 r⟩, ?_, by rw [trimRow1_r]; simpa using hr⟩
    apply List.mem_of_getElem? (i := r - 1)
    simp only [trimRow, List.getElem?_map, List.getElem?_modify, h0, if_true]
    rfl
  unfold decodePart
  simp only [Option.getD_some, Bool.false_eq_true, if_false]
  rw [checkSheet_err _ hany]

/-! ## the defect that was repaired, as a theorem about the pre-fix save path -/

def witness0 : Sheet :=
  match setCell ⟨[]⟩ 3 1 (updVal "s" "old") with
  | .ok s => s
  | _ => ⟨[]⟩

def afterOps (s : Sheet) : Sheet :=
  match setCell s 3 1 (updVal "s" "new") with
  | .ok s1 => (match setCell s1 1 1 (updVal "s" "a") with | .ok s2 => s2 | _ => s1)
  | _ => s

def cachedOf (r : Res WS) : Sheet :=
  match r with
  | .ok w => w.cache.getD ⟨[]⟩
  | _ => ⟨[]⟩

/-- (finding, fixed by `fix: keep worksheets that stay cached after saving contiguous`)
Without `checkRow()` on worksheets that stay cached (`redensify = false`, the code before the
fix), `NewSheet; C1 = "old"; save; C1 = "new"; A1 = "a"` makes the getters report `C1 = "a"`
and `A1` blank: the save is not pure. The full-strength statement fails for that save path. -/
theorem finding_save_compacts_uncached_before_fix :
    let t := afterOps (cachedOf (saveWSWith false ⟨some witness0, false, none⟩))
    getCell t 3 1 = ⟨0, "s", "a", none⟩ ∧ getCell t 1 1 = Content.blank ∧ ¬ Dense t := by
  decide

/-- the same history on the repaired save path: `C1 = "new"`, `A1 = "a"`, dense. -/
theorem witness_pure_after_fix :
    let t := afterOps (cachedOf (saveWSWith true ⟨some witness0, false, none⟩))
    getCell t 3 1 = ⟨0, "s", "new", none⟩ ∧ getCell t 1 1 = ⟨0, "s", "a", none⟩ ∧ Dense t := by
  decide

/-! ## non-vacuity -/

/-- the hypotheses are satisfiable by a worksheet with blank, valued, styled-only cells,
a hidden all-blank row and an all-blank visible row -/
def sample : Sheet := ⟨[
  ⟨1, false, [⟨1, 1, Content.blank⟩, ⟨2, 1, ⟨0, "", "7", none⟩⟩, ⟨3, 1, Content.blank⟩, ⟨4, 1, ⟨2, "", "", none⟩⟩, ⟨5, 1, Content.blank⟩]⟩,
  ⟨2, true, [⟨1, 2, Content.blank⟩]⟩,
  ⟨3, false, [⟨1, 3, Content.blank⟩, ⟨2, 3, Content.blank⟩]⟩]⟩

theorem sample_wf : Wf sample := by
  refine ⟨by decide, by decide, ?_⟩
  intro r hr
  simp [sample] at hr
  rcases hr with rfl | rfl | rfl <;> decide

/-- on the sample the save path really changes the layout (cells are dropped and re-created) -/
theorem sample_layout_changes : (checkRow (trimRow sample)).1 ≠ sample := by decide

theorem newFile_parts_ok : ∀ w ∈ newFile.sheets, PartOk w := by
  intro w hw
  simp [newFile] at hw
  subst hw
  exact ⟨_, ⟨[]⟩, rfl, by decide, by decide, by simp⟩

theorem newSheet_part_ok : PartOk ⟨some ⟨[]⟩, false, none⟩ :=
  ⟨_, ⟨[]⟩, rfl, by decide, by decide, by simp⟩

end XlModel.Props.C02
