/-
Property C03 — cell storage is a faithful last-writer-wins map over the grid.

`Impl` = `XlModel.Grid` (dense rows × dense cells, merge list, shared string table; a
transcription of prepareSheetXML / fillColumns / prepareCell / mergeCellsParser /
getCellStringFunc / SetCellStyle / GetCellStyle / MergeCell / UnmergeCell /
mergeOverlapCells), `Spec` = `XlModel.Grid.Spec` (a total map position → content with
function update). All theorems quantify over all sheets / histories / positions; nothing
is bounded. Payload tokens are opaque (conversion is checked by the direct oracle).
-/
import XlModel.Lemmas.Grid4
import XlModel.Lemmas.GridPayload
import XlModel.Lemmas.GridLinks
import XlModel.Lemmas.Bstr
import XlModel.Props.C20

namespace XlModel.Props.C03
open XlModel XlModel.Grid

/-! ## facts the model is defined over -/

/-- clause "inside a merged range …": `cellInRange`, as extracted from the source, is
membership in the closed rectangle -/
theorem contains_spec (q : Rect) (c r : Nat) :
    q.contains c r = true ↔ q.c1 ≤ c ∧ c ≤ q.c2 ∧ q.r1 ≤ r ∧ r ≤ q.r2 := contains_iff q c r

/-- both densification loops are guarded by `<` (rows are appended while `len < row`,
cells while `len < col`) -/
theorem densify_guards : Facts.C03.rowsGuardOp = "<" ∧ Facts.C03.colsGuardOp = "<" := by decide

/-- clause "every SetCell* variant … redirected to the anchor": every value setter of
cell.go goes through `prepareCell`, and `prepareCell`/`getCellStringFunc` are callers of
the redirect `mergeCellsParser` -/
theorem setters_redirect :
    Facts.C03.setterSkel.all (fun e => e.2.1) = true ∧
    "prepareCell" ∈ Facts.C03.redirectCallers ∧ "getCellStringFunc" ∈ Facts.C03.redirectCallers := by decide

/-- clause "reads back exactly the last payload": every value setter drops a previous formula
(for `setCellTimeFunc` and `SetCellRichText` since the fix recorded in known_findings.d/C03.json) -/
theorem value_setters_remove_formula : ∀ k : Setter, k.removesFormula = true := by
  intro k; cases k <;> decide

/-- … so after any value write the addressed anchor cell holds no formula -/
theorem write_clears_formula (k : Setter) (p : Payload) (v : CellV) : (writeCell k p v).f = none := by
  simp [writeCell, value_setters_remove_formula k]

/-- the typed value setters drop a previous inline string -/
theorem typed_setters_clear_inline :
    ∀ k ∈ [Setter.int, .uint, .bool, .float, .str], k.clearsIS = true := by decide

/-- the type tags the setters write are the keys `GetCellType` maps to the matching type -/
theorem tags_typed :
    Facts.C03.cellTypes.lookup Facts.C03.boolTag = some "CellTypeBool" ∧
    Facts.C03.cellTypes.lookup Facts.C03.sstTag = some "CellTypeSharedString" ∧
    Facts.C03.cellTypes.lookup Facts.C03.richTag = some "CellTypeSharedString" ∧
    Facts.C03.cellTypes.lookup Facts.C03.inlineTag = some "CellTypeInlineString" ∧
    Facts.C03.cellTypes.lookup Facts.C03.formulaTag = some "CellTypeFormula" := by decide

/-! ## the representation invariant -/

/-- `prepareSheetXML` keeps the grid dense (row slot i holds r=i+1, cell slot j of it the
reference of (j+1,i+1)) -/
theorem prepare_dense (rows : List Row) (col row : Nat) (hr : 1 ≤ row) (h : Dense rows) :
    Dense (prepareSheetXML rows col row) := dense_prepare rows col row hr h

/-- `GetCellStyle` is a pure getter (since the fix "GetCellStyle and GetCellRichText no longer
create rows and cells"): it leaves the sheet — grid, merge list, string table — exactly as it was -/
theorem getStyle_pure (s : Sheet) (c r : Nat) : (step s (.getStyle c r)).1 = s := by
  simp only [step, getStyle]; split <;> rfl

/-- the index `Row[row-1].C[col-1]` used after `prepareSheetXML(col,row)` exists: the
unguarded indexing of the setters cannot go out of range for decoded coordinates -/
theorem prepare_index_valid (rows : List Row) (col row : Nat) (hc : 1 ≤ col) (hr : 1 ≤ row) :
    ∃ cell, slot (prepareSheetXML rows col row) col row = some cell := slot_prepare_self rows col row hc hr

/-- `Dense` is preserved by every modelled operation … -/
theorem dense_preserved (s : Sheet) (op : Op) (h : Dense s.rows) : Dense (step s op).1.rows :=
  dense_step s op h

/-- … hence holds after any history starting from a new sheet -/
theorem dense_run (ops : List Op) (n : Nat) : Dense (run { nStyles := n } ops).rows := by
  have : ∀ (ops : List Op) (s : Sheet), Dense s.rows → Dense (run s ops).rows := by
    intro ops
    induction ops with
    | nil => intro s h; exact h
    | cons o os ih => intro s h; exact ih _ (dense_step s o h)
  exact this ops _ dense_nil

/-! ## refinement: the dense grid implements the function-update map -/

/-- every operation acts on the abstraction like its `Spec` counterpart and answers the
same: `abs (set s p v) = update (abs s) (anchor p) v`, block style, merge clearing,
read-only style getter and rejected operations included -/
theorem step_refines (s : Sheet) (op : Op) :
    abs (step s op).1 = (Spec.step (abs s) op).1 ∧ (step s op).2 = (Spec.step (abs s) op).2 := by
  cases op with
  | set k c r p =>
    cases p with
    | sst e =>
      simp only [step, Spec.step, setCell]
      obtain ⟨h1, h2⟩ := abs_writeAt s c r (writeCell k (.tv Facts.C03.sstTag (idxTok (intern s.sst e).2)))
      have hs : (abs s).sst = s.sst := rfl
      rw [hs, ← h2]
      by_cases hok : (writeAt s c r (writeCell k (.tv Facts.C03.sstTag (idxTok (intern s.sst e).2)))).2 = .ok
      · simp only [hok, if_true, and_true]
        rw [← h1]; rfl
      · simp [hok]
    | tv t v => exact abs_writeAt s c r _
    | num v => exact abs_writeAt s c r _
    | inl x => exact abs_writeAt s c r _
    | clr => exact abs_writeAt s c r _
  | formula c r fm => exact abs_writeAt s c r _
  | style c1 r1 c2 r2 id =>
    simp only [step, Spec.step, setStyle]
    by_cases h0 : c1 = 0 ∨ r1 = 0 ∨ c2 = 0 ∨ r2 = 0
    · simp [h0]
    · simp only [h0, if_false]
      obtain ⟨p1, p2, p3, p4⟩ := sortRect_pos c1 r1 c2 r2 h0
      have hn : (abs s).nStyles = s.nStyles := rfl
      rw [hn]
      by_cases hid : s.nStyles ≤ id
      · simp only [hid, if_true, and_true]
        simp only [Grid.abs]
        rw [makeContiguous_eq, cellAt_fold_fillAt, cellAt_prepare]
      · simp only [hid, if_false, and_true]
        simp only [Grid.abs]
        rw [cellAt_styleLoop s.rows _ id p1 p2 p4]
  | getStyle c r =>
    simp only [step, Spec.step, getStyle]
    by_cases h0 : c = 0 ∨ r = 0
    · simp [h0]
    · simp only [h0, if_false, true_and]
      simp only [Grid.abs, cellAt, h0, if_false, getCellAt]
      by_cases hr : r > s.rows.length
      · have hn : s.rows[r - 1]? = none := List.getElem?_eq_none (by omega)
        simp [hr, hn]; rfl
      · simp only [hr, if_false]
        cases hrd : s.rows[r - 1]? with
        | none => rfl
        | some rd =>
          simp only
          by_cases hc : c > rd.cells.length
          · have hn : rd.cells[c - 1]? = none := List.getElem?_eq_none (by omega)
            simp [hc, hn]; rfl
          · simp only [hc, if_false]
            cases rd.cells[c - 1]? <;> rfl
  | merge c1 r1 c2 r2 =>
    simp only [step, Spec.step, mergeCell]
    by_cases h0 : c1 = 0 ∨ r1 = 0 ∨ c2 = 0 ∨ r2 = 0
    · simp [h0]
    · simp only [h0, if_false, and_true]
      obtain ⟨p1, p2, _, _⟩ := sortRect_pos c1 r1 c2 r2 h0
      simp only [Grid.abs]
      rw [cellAt_mergeLoop s.rows _ p1 p2]
  | unmerge c1 r1 c2 r2 =>
    simp only [step, Spec.step, unmergeCell]
    have hm : (abs s).merges = s.merges := rfl
    rw [hm]
    by_cases h0 : c1 = 0 ∨ r1 = 0 ∨ c2 = 0 ∨ r2 = 0
    · simp [h0]
    · simp only [h0, if_false]
      by_cases he : s.merges.isEmpty = true
      · simp [he]
      · simp only [he]; exact ⟨rfl, rfl⟩
  | getMerges => simp only [step, Spec.step, getMerges, reported]; split <;> exact ⟨rfl, rfl⟩

/-- clause "after any sequence of cell writes …": by induction over ANY operation list the
dense grid denotes the map computed by the function-update specification -/
theorem ops_refine_lww (ops : List Op) (s : Sheet) : abs (run s ops) = Spec.run (abs s) ops := by
  induction ops generalizing s with
  | nil => rfl
  | cons o os ih =>
    simp only [run, Spec.run, List.foldl_cons] at ih ⊢
    rw [ih, (step_refines s o).1]

/-- what the getter observes: the content of the cell it finds, blank otherwise -/
def observed : Res → CellV
  | .cell (some c) => c.val
  | _ => CellV.blank

/-- clause "each cell reads back …": on a dense grid the getter workflow (redirect, search
by stored row number and reference) returns exactly the specification's content at the anchor -/
theorem get_refines (s : Sheet) (h : Dense s.rows) (c r : Nat) (hc : 1 ≤ c) (hr : 1 ≤ r)
    (ha : 1 ≤ (anchor s.merges c r).1 ∧ 1 ≤ (anchor s.merges c r).2) :
    observed (getCell s c r) = Spec.get (abs s) c r := by
  rw [getCell_dense s h]
  have h0 : ¬ (c = 0 ∨ r = 0) := by omega
  have h1 : ¬ ((anchor s.merges c r).1 = 0 ∨ (anchor s.merges c r).2 = 0) := by omega
  simp only [h0, h1, if_false, Spec.get, Grid.abs]
  rw [cellAt_eq_slot]
  simp only [h1, if_false]
  cases slot s.rows (anchor s.merges c r).1 (anchor s.merges c r).2 <;> rfl

/-- the getter after any history from a new sheet reads the specification's map -/
theorem get_after_history (ops : List Op) (n c r : Nat) (hc : 1 ≤ c) (hr : 1 ≤ r)
    (ha : 1 ≤ (anchor (run { nStyles := n } ops).merges c r).1 ∧ 1 ≤ (anchor (run { nStyles := n } ops).merges c r).2) :
    observed (getCell (run { nStyles := n } ops) c r) = Spec.get (Spec.run (abs { nStyles := n }) ops) c r := by
  rw [get_refines _ (dense_run ops n) c r hc hr ha, ops_refine_lww]

/-- clause "last writer wins": after any history, a value write to (c,r) followed by a read of
(c,r) returns the written payload applied to the anchor cell (type, value, inline string as
the setter stores them; formula removed for the value setters) -/
theorem last_writer_wins (s : Sheet) (h : Dense s.rows) (k : Setter) (c r : Nat) (t v : Tok)
    (hc : 1 ≤ c) (hr : 1 ≤ r) (ha : 1 ≤ (anchor s.merges c r).1 ∧ 1 ≤ (anchor s.merges c r).2) :
    observed (getCell (step s (.set k c r (.tv t v))).1 c r) =
      writeCell k (.tv t v) (Spec.get (abs s) c r) ∧
    (observed (getCell (step s (.set k c r (.tv t v))).1 c r)).t = t ∧
    (observed (getCell (step s (.set k c r (.tv t v))).1 c r)).v = v := by
  have hm : (step s (.set k c r (.tv t v))).1.merges = s.merges := by
    simp only [step, setCell, writeAt]
    split
    · rfl
    · split <;> rfl
  have hd := dense_step s (.set k c r (.tv t v)) h
  have hg := get_refines _ hd c r hc hr (by rw [hm]; exact ha)
  have hr' := (step_refines s (.set k c r (.tv t v))).1
  have key : observed (getCell (step s (.set k c r (.tv t v))).1 c r) =
      writeCell k (.tv t v) (Spec.get (abs s) c r) := by
    rw [hg, hr']
    simp only [Spec.step, Spec.writeAt, Spec.get]
    have h0 : ¬ (c = 0 ∨ r = 0) := by omega
    have hmm : (abs s).merges = s.merges := rfl
    have h1 : ¬ ((anchor (abs s).merges c r).1 = 0 ∨ (anchor (abs s).merges c r).2 = 0) := by rw [hmm]; omega
    simp only [h0, h1, if_false, Spec.upd]
    simp
  refine ⟨key, ?_, ?_⟩
  · rw [key]; simp only [writeCell, Payload.store]; split <;> (try split) <;> rfl
  · rw [key]; simp only [writeCell, Payload.store]; split <;> (try split) <;> rfl

/-- clause "no write changes any other cell": a cell write (any setter, any payload, formula
included) leaves every position other than the anchor of the addressed cell unchanged -/
theorem frame (s : Sheet) (c r : Nat) (f : CellV → CellV) (c' r' : Nat)
    (hne : ¬ (c' = (anchor s.merges c r).1 ∧ r' = (anchor s.merges c r).2)) :
    (abs (writeAt s c r f).1).g c' r' = (abs s).g c' r' := by
  rw [(abs_writeAt s c r f).1]
  unfold Spec.writeAt
  have hmm : (abs s).merges = s.merges := rfl
  rw [hmm]
  split
  · rfl
  · simp only
    split
    · rfl
    · simp only [Spec.upd, hne, if_false]

/-- clause "merging clears the non-anchor cells": after `MergeCell` every covered cell except the
top-left one has no value, type, inline string or formula; all other cells (the anchor
included) are unchanged -/
theorem merge_clears (s : Sheet) (c1 r1 c2 r2 : Nat) (h0 : ¬ (c1 = 0 ∨ r1 = 0 ∨ c2 = 0 ∨ r2 = 0)) (c r : Nat) :
    (abs (step s (.merge c1 r1 c2 r2)).1).g c r =
      if ((sortRect c1 r1 c2 r2).contains c r = true) ∧ ¬ (c = (sortRect c1 r1 c2 r2).c1 ∧ r = (sortRect c1 r1 c2 r2).r1)
      then clearCell ((abs s).g c r) else (abs s).g c r := by
  rw [(step_refines s (.merge c1 r1 c2 r2)).1]
  simp only [Spec.step, h0, if_false, contains_iff]

/-! ## merged ranges -/

/-- pairwise disjoint: two entries sharing a position are the same entry -/
def Disjoint (ms : List MObj) : Prop :=
  ∀ m1 ∈ ms, ∀ m2 ∈ ms, ∀ c r, m1.rect.contains c r = true → m2.rect.contains c r = true → m1 = m2

/-- clause "reads and writes are redirected to the top-left anchor": when the merged ranges
are pairwise disjoint the redirect does not depend on the order of the list — every
position of a range goes to the first cell of that range -/
theorem merge_redirect (ms : List MObj) (hd : Disjoint ms) (m : MObj) (hm : m ∈ ms) (c r : Nat)
    (hin : m.rect.contains c r = true) : anchor ms c r = (m.ref.c1, m.ref.r1) := by
  unfold anchor
  cases hf : ms.find? (fun m => m.rect.contains c r) with
  | none =>
    have := List.find?_eq_none.mp hf m hm
    simp [hin] at this
  | some m' =>
    have h1 := List.mem_of_find?_eq_some hf
    have h2 := List.find?_some hf
    have : m' = m := hd m' h1 m hm c r (by simpa using h2) hin
    subst this; rfl

/-- a position outside every merged range is not redirected -/
theorem no_redirect_outside (ms : List MObj) (c r : Nat) (h : ∀ m ∈ ms, m.rect.contains c r = false) :
    anchor ms c r = (c, r) := by
  unfold anchor
  cases hf : ms.find? (fun m => m.rect.contains c r) with
  | none => rfl
  | some m' =>
    have h1 := List.mem_of_find?_eq_some hf
    have h2 := List.find?_some hf
    rw [h m' h1] at h2; cases h2

/-- clause "merged ranges … pairwise disjoint", provable part: `MergeCell` with a rectangle
that meets no existing range keeps the list pairwise disjoint. (`MergeCell` itself never
normalises: overlapping input is merged later by `mergeOverlapCells`, see `merges_disjoint`.) -/
theorem merges_disjoint_partial (s : Sheet) (hd : Disjoint s.merges) (c1 r1 c2 r2 : Nat)
    (hnew : ∀ m ∈ s.merges, ∀ c r, m.rect.contains c r = true → (sortRect c1 r1 c2 r2).contains c r = false) :
    Disjoint (step s (.merge c1 r1 c2 r2)).1.merges := by
  simp only [step, mergeCell]
  split
  · exact hd
  · intro m1 h1 m2 h2 c r hc1 hc2
    simp only [List.mem_append, List.mem_singleton] at h1 h2
    rcases h1 with h1 | h1 <;> rcases h2 with h2 | h2
    · exact hd m1 h1 m2 h2 c r hc1 hc2
    · subst h2; have := hnew m1 h1 c r hc1; simp at hc2; rw [hc2] at this; cases this
    · subst h1; have := hnew m2 h2 c r hc2; simp at hc1; rw [hc1] at this; cases this
    · subst h1; subst h2; rfl

/-- clause "merged ranges reported are always pairwise disjoint", first half: the normalisation run by
`GetMergeCells` / `UnmergeCell` (`mergeOverlapCells`: flatMergedCells with its pointer matrix and in-place
rect mutation, then the selection pass) is the identity on a list of valid pairwise disjoint ranges —
same entries, same order, same `Ref`, same cached rect. -/
theorem normalise_id_on_disjoint (ms : List MObj) (h : PairwiseDisjoint ms) : mergeOverlapCells ms = ms :=
  mergeOverlap_id ms h

/-- the side condition of a history under which merges stay disjoint: every `MergeCell` rectangle meets
no range merged at that moment -/
def Safe : Sheet → List Op → Prop
  | _, [] => True
  | s, op :: ops =>
    (match op with
      | .merge c1 r1 c2 r2 => ∀ m ∈ s.merges, NoCommon m.rect (sortRect c1 r1 c2 r2)
      | _ => True) ∧ Safe (step s op).1 ops

theorem writeAt_merges (s : Sheet) (c r : Nat) (f : CellV → CellV) : (writeAt s c r f).1.merges = s.merges := by
  unfold writeAt
  split
  · rfl
  · simp only
    split <;> rfl

theorem pd_step (s : Sheet) (op : Op) (h : PairwiseDisjoint s.merges)
    (hop : match op with
      | .merge c1 r1 c2 r2 => ∀ m ∈ s.merges, NoCommon m.rect (sortRect c1 r1 c2 r2)
      | _ => True) : PairwiseDisjoint (step s op).1.merges := by
  cases op with
  | set k c r p =>
    simp only [step, setCell]
    cases p with
    | sst e =>
      simp only
      split
      · simp only; rw [writeAt_merges]; exact h
      · exact h
    | tv t v => simp only; rw [writeAt_merges]; exact h
    | num v => simp only; rw [writeAt_merges]; exact h
    | inl x => simp only; rw [writeAt_merges]; exact h
    | clr => simp only; rw [writeAt_merges]; exact h
  | formula c r fm => simp only [step, setFormula]; rw [writeAt_merges]; exact h
  | style c1 r1 c2 r2 id =>
    simp only [step, setStyle]
    split
    · exact h
    · split <;> exact h
  | getStyle c r => simp only [step, getStyle]; split <;> exact h
  | merge c1 r1 c2 r2 =>
    simp only [step, mergeCell]
    by_cases h0 : c1 = 0 ∨ r1 = 0 ∨ c2 = 0 ∨ r2 = 0
    · simp [h0]; exact h
    · simp only [h0, if_false]
      obtain ⟨_, _, v1, v2⟩ := sortRect_pos c1 r1 c2 r2 h0
      obtain ⟨hpw, hv⟩ := h
      constructor
      · apply List.pairwise_append.mpr
        refine ⟨hpw, by simp, ?_⟩
        intro a ha b hb
        simp only [List.mem_singleton] at hb
        subst hb
        exact hop a ha
      · intro m hm
        rcases List.mem_append.mp hm with hm | hm
        · exact hv m hm
        · simp only [List.mem_singleton] at hm
          subst hm; exact ⟨v1, v2⟩
  | unmerge c1 r1 c2 r2 =>
    simp only [step, unmergeCell]
    split
    · exact h
    · split
      · exact h
      · rw [mergeOverlap_id _ h]
        exact ⟨h.1.filter _, fun m hm => h.2 m (List.mem_filter.mp hm).1⟩
  | getMerges =>
    simp only [step, getMerges, reported]
    split
    · rw [mergeOverlap_id _ h]; exact h
    · exact h

/-- clause "merged ranges reported are always pairwise disjoint", as strong as the code allows for
non-overlapping input: along ANY history (cell writes, styles, merges, unmerges, normalisations, in any
order) in which no `MergeCell` rectangle meets a range merged at that moment, the merge list stays a
list of valid pairwise disjoint ranges, and each normalisation returns it unchanged. -/
theorem merges_disjoint_of_safe (ops : List Op) (s : Sheet) (h : PairwiseDisjoint s.merges) (hs : Safe s ops) :
    PairwiseDisjoint (run s ops).merges := by
  induction ops generalizing s with
  | nil => exact h
  | cons o os ih =>
    obtain ⟨h1, h2⟩ := hs
    simp only [run, List.foldl_cons]
    exact ih (step s o).1 (pd_step s o h h1) h2

/-- what `GetMergeCells` reports after a safe history is the merge list itself -/
theorem reported_after_safe (ops : List Op) (s : Sheet) (h : PairwiseDisjoint s.merges) (hs : Safe s ops) :
    (step (run s ops) .getMerges).2 = .merges (run s ops).merges := by
  have hp := merges_disjoint_of_safe ops s h hs
  simp only [step, getMerges, reported, mergeOverlap_id _ hp]
  split <;> rfl

/-- `GetMergeCells` as an observation: when the source normalises a copy of the list (fact
`getMergeCellsInPlace = false`) the sheet — grid, stored merge list, string table — is exactly what it was,
so every later read is redirected as before; only the *reported* list is normalised. (On a tree where
`mergeOverlapCells(ws)` is still called on the worksheet itself the stored list is replaced by the reported one.) -/
theorem getMerges_observation (s : Sheet) :
    (step s .getMerges).2 = .merges (reported s) ∧
    (Facts.C03.getMergeCellsInPlace = false → (step s .getMerges).1 = s) ∧
    (Facts.C03.getMergeCellsInPlace = true → (step s .getMerges).1 = { s with merges := reported s }) := by
  simp only [step, getMerges]
  refine ⟨by split <;> rfl, ?_, ?_⟩
  · intro h; simp [h]
  · intro h; simp [h]

def rA (c1 r1 c2 r2 : Nat) : MObj := ⟨⟨c1, r1, c2, r2⟩, ⟨c1, r1, c2, r2⟩⟩

/-- clause "the merged ranges reported are always pairwise disjoint" — FULL STRENGTH (since the repair of
the normalisation): after ANY history of cell writes, styles, merges (overlapping, nested, crossing, in any
order), unmerges and earlier normalisations, what `GetMergeCells` reports has no two ranges sharing a cell. -/
theorem merges_disjoint (ops : List Op) (s : Sheet) :
    (step (run s ops) .getMerges).2 = .merges (reported (run s ops)) ∧
    (reported (run s ops)).Pairwise (fun a b => NoCommon a.rect b.rect) := by
  refine ⟨?_, (mergeOverlap_disj _).imp (fun {a b} h => noCommon_of_not_meets _ _ h)⟩
  simp only [step, getMerges]; split <;> rfl

/-- the same for the list `UnmergeCell` leaves behind -/
theorem unmerge_reports_disjoint (s : Sheet) (c1 r1 c2 r2 : Nat) :
    (step s (.unmerge c1 r1 c2 r2)).1.merges.Pairwise (fun a b => meetsB a.rect b.rect = false) ∨
    (step s (.unmerge c1 r1 c2 r2)).1.merges = s.merges := by
  simp only [step, unmergeCell]
  split
  · exact Or.inr rfl
  · split
    · exact Or.inr rfl
    · exact Or.inl ((mergeOverlap_disj _).filter _)

/-- the normalisation terminates: its `for` loop is run with `live.length` units of fuel and never needs
more — every round that does not exit removes at least one live range (`filter_not_length`), so any larger
amount of fuel gives the same result -/
theorem normalise_terminates (n : Nat) (live : List MObj) (q : MObj) (h : live.length ≤ n) :
    absorb n live q = absorb live.length live q := absorb_fuel n live.length live q h (Nat.le_refl _)

/-- the normalisation loses nothing: every cell of a merged range is in some reported range -/
theorem normalise_covers (ms : List MObj) (m : MObj) (hm : m ∈ ms) (x y : Nat)
    (h : m.rect.contains x y = true) : ∃ m' ∈ mergeOverlapCells ms, m'.rect.contains x y = true :=
  mergeOverlap_covers ms m hm x y h

/-- `UnmergeCell` removes every merged range that shares a cell with the given range (crossing ranges
included: `isOverlap` is the interval intersection test) -/
theorem unmerge_removes_all_overlapping (s : Sheet) (c1 r1 c2 r2 : Nat)
    (h0 : ¬ (c1 = 0 ∨ r1 = 0 ∨ c2 = 0 ∨ r2 = 0)) (hne : s.merges.isEmpty = false) :
    ∀ m ∈ (step s (.unmerge c1 r1 c2 r2)).1.merges, NoCommon (sortRect c1 r1 c2 r2) m.ref := by
  intro m hm
  simp only [step, unmergeCell, h0, if_false, hne] at hm
  have := (List.mem_filter.mp hm).2
  rw [isOverlap_eq_meets] at this
  exact noCommon_of_not_meets _ _ (by simpa using this)

/-- clause "UnmergeCell removes exactly the ranges it covers" (round 5) — FULL STRENGTH on a valid
pairwise-disjoint stored list (what every `Safe` history leaves: `merges_disjoint_of_safe`): the call
answers ok and the new sheet is the old one with the merge list filtered — same grid, same string table,
same style count; an entry survives iff it was there and its `Ref` shares no cell with the (sorted) argument
range, survivors keep their order, `Ref` and cached rect (no range is rebuilt by the normalisation);
an entry whose `Ref` is a proper rectangle survives whenever it has no cell in common with the argument. -/
theorem unmerge_exact_on_disjoint (s : Sheet) (c1 r1 c2 r2 : Nat)
    (h0 : ¬ (c1 = 0 ∨ r1 = 0 ∨ c2 = 0 ∨ r2 = 0)) (hd : PairwiseDisjoint s.merges) :
    step s (.unmerge c1 r1 c2 r2) =
      ({ s with merges := s.merges.filter fun m => !meetsB (sortRect c1 r1 c2 r2) m.ref }, .ok) ∧
    (∀ m, m ∈ (step s (.unmerge c1 r1 c2 r2)).1.merges ↔
      m ∈ s.merges ∧ meetsB (sortRect c1 r1 c2 r2) m.ref = false) ∧
    (∀ m ∈ s.merges, ValidR m.ref → NoCommon (sortRect c1 r1 c2 r2) m.ref →
      m ∈ (step s (.unmerge c1 r1 c2 r2)).1.merges) ∧
    (∀ m ∈ (step s (.unmerge c1 r1 c2 r2)).1.merges, NoCommon (sortRect c1 r1 c2 r2) m.ref) := by
  have hstep : step s (.unmerge c1 r1 c2 r2) =
      ({ s with merges := s.merges.filter fun m => !meetsB (sortRect c1 r1 c2 r2) m.ref }, .ok) := by
    simp only [step, unmergeCell, h0, if_false]
    cases hm : s.merges with
    | nil => cases s; simp_all
    | cons a l =>
      rw [← hm, mergeOverlap_id _ hd]
      simp [hm, isOverlap_eq_meets]
  have hq : ValidR (sortRect c1 r1 c2 r2) := by
    unfold ValidR sortRect; constructor <;> (simp only; split <;> omega)
  have hmem : ∀ m, m ∈ (step s (.unmerge c1 r1 c2 r2)).1.merges ↔
      m ∈ s.merges ∧ meetsB (sortRect c1 r1 c2 r2) m.ref = false := by
    intro m; rw [hstep]; simp [List.mem_filter]
  refine ⟨hstep, hmem, ?_, ?_⟩
  · intro m hm hv hn
    exact (hmem m).mpr ⟨hm, not_meets_of_noCommon _ _ hq hv hn⟩
  · intro m hm
    exact noCommon_of_not_meets _ _ ((hmem m).mp hm).2

/-- non-vacuity of `unmerge_exact_on_disjoint`: A1:B2, D1:E2, A4:E4 are valid and pairwise disjoint;
`UnmergeCell(B2:D3)` removes the first two and keeps the third untouched -/
example : PairwiseDisjoint [rA 1 1 2 2, rA 4 1 5 2, rA 1 4 5 4] ∧
    (step { merges := [rA 1 1 2 2, rA 4 1 5 2, rA 1 4 5 4] } (.unmerge 2 2 4 3)).1.merges = [rA 1 4 5 4] := by
  refine ⟨⟨?_, ?_⟩, by decide +kernel⟩
  · simp only [List.pairwise_cons, List.mem_cons, List.mem_nil_iff, or_false, forall_eq_or_imp, forall_eq]
    repeat' apply And.intro
    all_goals
      first
      | exact noCommon_of_not_meets _ _ (by decide)
      | simp
  · intro m hm
    simp only [List.mem_cons, List.mem_nil_iff, or_false] at hm
    rcases hm with rfl | rfl | rfl <;> (unfold ValidR rA; decide)

/-- `isOverlap` is the interval test (facts) and sees crossing rectangles; the normalisation compares
rectangles and allocates no cell matrix -/
theorem overlap_is_intersection (a b : Rect) :
    isOverlap a b = meetsB a b ∧ isOverlap ⟨2, 1, 2, 3⟩ ⟨1, 2, 3, 2⟩ = true ∧
    Facts.C03.normaliseAllocatesMatrix = false ∧ Facts.C03.flatCallsIsOverlap = true ∧
    Facts.C03.flatCallsMergeCell = true :=
  ⟨isOverlap_eq_meets a b, by decide +kernel, by decide, by decide, by decide⟩

/-- regression witnesses of the former one-pass defects: C1:C3, A3:A4, A4:D4 and A1:C3, D2:E4, B4:D5 now
normalise to one range each; `UnmergeCell(B1:B3)` removes the crossing range A2:C2 -/
theorem former_witnesses :
    reported (run {} [.merge 3 1 3 3, .merge 1 3 1 4, .merge 1 4 4 4]) = [rA 1 1 4 4] ∧
    reported (run {} [.merge 1 1 3 3, .merge 4 2 5 4, .merge 2 4 4 5]) = [rA 1 1 5 5] ∧
    (run {} [.merge 1 2 3 2, .unmerge 2 1 2 3]).merges = [] := by
  refine ⟨by decide +kernel, by decide +kernel, by decide +kernel⟩

/-! ## shared strings -/

/-- clause "strings verbatim": the shared string table only grows at the end, so an index
stored in a cell keeps denoting the string that was written … -/
theorem sst_stable (s : Sheet) (op : Op) (i : Nat) (e : Tok) (h : s.sst[i]? = some e) :
    (step s op).1.sst[i]? = some e := by
  have hint : ∀ e', (intern s.sst e').1[i]? = some e := by
    intro e'
    unfold intern
    split
    · exact h
    · simp only
      rw [List.getElem?_append]
      have : i < s.sst.length := by
        rcases Nat.lt_or_ge i s.sst.length with hl | hl
        · exact hl
        · rw [List.getElem?_eq_none hl] at h; cases h
      simp only [this, if_true]; exact h
  have hw : ∀ c r f, (writeAt s c r f).1.sst = s.sst := by
    intro c r f; unfold writeAt; split
    · rfl
    · simp only
      split <;> rfl
  cases op with
  | set k c r p =>
    cases p with
    | sst e' =>
      simp only [step, setCell]
      split
      · exact hint e'
      · exact h
    | tv t v => simp only [step, setCell]; rw [hw]; exact h
    | num v => simp only [step, setCell]; rw [hw]; exact h
    | inl x => simp only [step, setCell]; rw [hw]; exact h
    | clr => simp only [step, setCell]; rw [hw]; exact h
  | formula c r fm => simp only [step, setFormula]; rw [hw]; exact h
  | style c1 r1 c2 r2 id =>
    simp only [step, setStyle]
    split
    · exact h
    · split <;> exact h
  | getStyle c r => simp only [step, getStyle]; split <;> exact h
  | merge c1 r1 c2 r2 => simp only [step, mergeCell]; split <;> exact h
  | unmerge c1 r1 c2 r2 =>
    simp only [step, unmergeCell]
    split
    · exact h
    · split <;> exact h
  | getMerges => simp only [step, getMerges]; split <;> exact h

/-- … and the index a string write stores denotes that string -/
theorem intern_denotes (sst : List Tok) (e : Tok) : (intern sst e).1[(intern sst e).2]? = some e := by
  unfold intern
  cases h : sst.idxOf? e with
  | some i =>
    simp only
    have := List.idxOf?_eq_some_iff.mp h
    obtain ⟨hlt, heq, _⟩ := this
    rw [List.getElem?_eq_getElem hlt, heq]
  | none => simp only; rw [List.getElem?_append]; simp

/-! ## typed payloads (conversion of the value setters) -/

/-- read-back of any non-string payload: the getter returns the setter's effect on the anchor cell -/
theorem write_readback (s : Sheet) (h : Dense s.rows) (k : Setter) (c r : Nat) (p : Payload)
    (hp : ∀ e, p ≠ .sst e) (hc : 1 ≤ c) (hr : 1 ≤ r)
    (ha : 1 ≤ (anchor s.merges c r).1 ∧ 1 ≤ (anchor s.merges c r).2) :
    observed (getCell (step s (.set k c r p)).1 c r) = writeCell k p (Spec.get (abs s) c r) := by
  have hstep : step s (.set k c r p) = writeAt s c r (writeCell k p) := by
    cases p <;> first | rfl | exact absurd rfl (hp _)
  have hspec : Spec.step (abs s) (.set k c r p) = Spec.writeAt (abs s) c r (writeCell k p) := by
    cases p <;> first | rfl | exact absurd rfl (hp _)
  have hm : (step s (.set k c r p)).1.merges = s.merges := by rw [hstep, writeAt_merges]
  have hd := dense_step s (.set k c r p) h
  rw [get_refines _ hd c r hc hr (by rw [hm]; exact ha), (step_refines s (.set k c r p)).1, hspec]
  simp only [Spec.writeAt, Spec.get]
  have h0 : ¬ (c = 0 ∨ r = 0) := by omega
  have hmm : (abs s).merges = s.merges := rfl
  have h1 : ¬ ((anchor (abs s).merges c r).1 = 0 ∨ (anchor (abs s).merges c r).2 = 0) := by rw [hmm]; omega
  simp only [h0, h1, if_false, Spec.upd]
  simp

/-- clause "integers exactly": after `SetCellInt(cell, i)` (any int64, any history before, any merged
ranges) the cell reads back with empty type tag and the decimal text of `i`, and that text denotes `i` -/
theorem int_exact (s : Sheet) (h : Dense s.rows) (i : Int) (c r : Nat) (hc : 1 ≤ c) (hr : 1 ≤ r)
    (ha : 1 ≤ (anchor s.merges c r).1 ∧ 1 ≤ (anchor s.merges c r).2) :
    (observed (getCell (step s ((Value.int i).op c r)).1 c r)).t = "" ∧
    (observed (getCell (step s ((Value.int i).op c r)).1 c r)).v = hex (Ref.itoaInt i) ∧
    (observed (getCell (step s ((Value.int i).op c r)).1 c r)).f = none ∧
    decInt (Ref.itoaInt i) = some i := by
  have := last_writer_wins s h .int c r "" (hex (Ref.itoaInt i)) hc hr ha
  refine ⟨this.2.1, this.2.2, ?_, decInt_itoaInt i⟩
  show (observed (getCell (step s (.set .int c r (.tv "" (hex (Ref.itoaInt i))))).1 c r)).f = none
  rw [this.1]; exact write_clears_formula _ _ _

/-- the same for `SetCellUint` -/
theorem uint_exact (s : Sheet) (h : Dense s.rows) (n : Nat) (c r : Nat) (hc : 1 ≤ c) (hr : 1 ≤ r)
    (ha : 1 ≤ (anchor s.merges c r).1 ∧ 1 ≤ (anchor s.merges c r).2) :
    (observed (getCell (step s ((Value.uint n).op c r)).1 c r)).t = "" ∧
    (observed (getCell (step s ((Value.uint n).op c r)).1 c r)).v = hex (Ref.itoa n) ∧
    decInt (Ref.itoa n) = some (n : Int) := by
  have := last_writer_wins s h .uint c r "" (hex (Ref.itoa n)) hc hr ha
  exact ⟨this.2.1, this.2.2, decInt_itoa n⟩

/-- clause "booleans": `SetCellBool` stores type `b` (which `GetCellType` maps to CellTypeBool) and "1"/"0" -/
theorem bool_exact (s : Sheet) (h : Dense s.rows) (b : Bool) (c r : Nat) (hc : 1 ≤ c) (hr : 1 ≤ r)
    (ha : 1 ≤ (anchor s.merges c r).1 ∧ 1 ≤ (anchor s.merges c r).2) :
    (observed (getCell (step s ((Value.bool b).op c r)).1 c r)).t = Facts.C03.boolTag ∧
    (observed (getCell (step s ((Value.bool b).op c r)).1 c r)).v = hex [if b then '1' else '0'] := by
  have := last_writer_wins s h .bool c r Facts.C03.boolTag (hex [if b then '1' else '0']) hc hr ha
  exact ⟨this.2.1, this.2.2⟩

/-- clause "nil clearing the value": after `SetCellValue(cell, nil)` the cell reads back with no type,
no value, no inline string and no formula; its style is what it was -/
theorem nil_clears (s : Sheet) (h : Dense s.rows) (c r : Nat) (hc : 1 ≤ c) (hr : 1 ≤ r)
    (ha : 1 ≤ (anchor s.merges c r).1 ∧ 1 ≤ (anchor s.merges c r).2) :
    observed (getCell (step s (Value.nil.op c r)).1 c r) =
      { (Spec.get (abs s) c r) with t := "", v := "", is := none, f := none } := by
  have := write_readback s h .dflt c r .clr (fun e he => by cases he) hc hr ha
  show observed (getCell (step s (.set .dflt c r .clr)).1 c r) = _
  rw [this]
  have h1 : Setter.dflt.removesFormula = true := value_setters_remove_formula _
  simp only [writeCell, Payload.store, h1, if_true]
  split <;> rfl

/-- clause "strings verbatim up to 32767 characters": after `SetCellStr(cell, str)` the cell reads back
as a shared-string cell whose index denotes, in the (append-only, `sst_stable`) table, the item holding
C01's `storedText str` — the escaped text of `str` truncated to `TotalCellChars` runes — and reading
that item back (`xlsxSI.String`) yields exactly `str` truncated to the limit (C01 `setstr_getstr`,
via `bstr_roundtrip`). -/
theorem str_verbatim (s : Sheet) (h : Dense s.rows) (str : List Char) (c r : Nat) (hc : 1 ≤ c) (hr : 1 ≤ r)
    (ha : 1 ≤ (anchor s.merges c r).1 ∧ 1 ≤ (anchor s.merges c r).2) :
    let s' := (step s ((Value.str str).op c r)).1
    (observed (getCell s' c r)).t = Facts.C03.sstTag ∧
    (observed (getCell s' c r)).v = idxTok (intern s.sst (strTok str)).2 ∧
    s'.sst[(intern s.sst (strTok str)).2]? = some (strTok str) ∧
    Bstr.siString (Bstr.storedText str) = Bstr.truncate str := by
  have hlw := last_writer_wins s h .str c r Facts.C03.sstTag (idxTok (intern s.sst (strTok str)).2) hc hr ha
  have hok : (writeAt s c r (writeCell .str (.tv Facts.C03.sstTag (idxTok (intern s.sst (strTok str)).2)))).2 = .ok := by
    unfold writeAt
    have h0 : ¬ (c = 0 ∨ r = 0) := by omega
    have h1 : ¬ ((anchor s.merges c r).1 = 0 ∨ (anchor s.merges c r).2 = 0) := by omega
    simp [h0, h1]
  have hs' : (step s ((Value.str str).op c r)).1 =
      { (writeAt s c r (writeCell .str (.tv Facts.C03.sstTag (idxTok (intern s.sst (strTok str)).2)))).1 with
        sst := (intern s.sst (strTok str)).1 } := by
    simp only [Value.op, Value.write, step, setCell, hok, if_true]
  have hget : getCell (step s ((Value.str str).op c r)).1 c r =
      getCell (step s (.set .str c r (.tv Facts.C03.sstTag (idxTok (intern s.sst (strTok str)).2)))).1 c r := by
    rw [hs']; rfl
  simp only
  rw [hget]
  refine ⟨hlw.2.1, hlw.2.2, ?_, ?_⟩
  · rw [hs']; exact intern_denotes s.sst (strTok str)
  · -- C01's `setstr_getstr`, re-derived from `unmarshal_marshal` (= `bstr_roundtrip`): Props/C01 cannot be
    -- imported here because its SaveGrid model declares the same namespace names as XlModel.Grid
    have h1 : Facts.C01.sharedStringStoresEscaped = true := rfl
    have h2 : Facts.C01.trimCellValueMarshals = true := rfl
    simp only [Bstr.storedText, Bstr.trimCellValue, h1, h2, if_true, Bstr.siString, Bstr.truncate_idem,
      Bstr.marshal_isEmpty, Bstr.unmarshal_marshal]
    cases h : Bstr.truncate str with
    | nil => simp
    | cons _ _ => simp

/-- clause "SetSheetRow/SetSheetCol": the state after `setSheetCells` is the state after a prefix of the single
typed writes element 0, 1, … at (c+i, r) resp. (c, r+i) — all of them when the call succeeds — so everything
proved about single writes (`ops_refine_lww`, `frame`, `last_writer_wins`, `int_exact`, `str_verbatim`, …)
applies element by element; an element that is rejected ends the loop and leaves the earlier ones written. -/
theorem sheet_row_col_fold (byRow : Bool) (c r : Nat) : ∀ (vs : List Value) (i : Nat) (s : Sheet),
    ∃ k, k ≤ vs.length ∧
      (setSheetCells s byRow c r i vs).1 = run s ((seqOps byRow c r i vs).take k) ∧
      ((setSheetCells s byRow c r i vs).2 = .ok → k = vs.length) := by
  intro vs
  induction vs with
  | nil => intro i s; exact ⟨0, by simp, by simp [setSheetCells, seqOps, run], by simp⟩
  | cons v vs ih =>
    intro i s
    unfold setSheetCells
    by_cases hbad : (if byRow then c + i else c) > Facts.MaxColumns ∨ (if byRow then r else r + i) > Facts.TotalRows
    · simp only [hbad, if_true]
      exact ⟨0, by simp, by simp [run], by intro h; cases h⟩
    · simp only [hbad, if_false]
      by_cases hok : (step s (if byRow then v.op (c + i) r else v.op c (r + i))).2 = .ok
      · simp only [hok, if_true]
        obtain ⟨k, hk1, hk2, hk3⟩ := ih (i + 1) (step s (if byRow then v.op (c + i) r else v.op c (r + i))).1
        refine ⟨k + 1, by simp; omega, ?_, ?_⟩
        · rw [hk2]; simp [seqOps, run]
        · intro h; have := hk3 h; simp; omega
      · simp only [hok, if_false]
        refine ⟨1, by simp, by simp [seqOps, run], ?_⟩
        intro h; exact absurd h (by simpa using hok)

/-! ## spellings -/

/-- clause "cell names are case-insensitive": a spelling the decoder accepts, and the same spelling with
its letters upper-cased (what `mergeCellsParser` does first, for setters and getters alike), denote the
same coordinates (C20 `upper_same_cell`); so a write through one and a read through the other address the
same model cell — the read returns the payload written. -/
theorem case_insensitive (s : Sheet) (h : Dense s.rows) (name : List Char) (ci ri : Int)
    (hn : Ref.cellNameToCoordinates name = .ok (ci, ri)) (k : Setter) (t v : Tok)
    (hc : 1 ≤ ci.toNat) (hr : 1 ≤ ri.toNat)
    (ha : 1 ≤ (anchor s.merges ci.toNat ri.toNat).1 ∧ 1 ≤ (anchor s.merges ci.toNat ri.toNat).2) :
    Ref.cellNameToCoordinates (name.map Ref.toUpper) = .ok (ci, ri) ∧
    Ref.getterFinds name = some true ∧
    (observed (getCell (step s (.set k ci.toNat ri.toNat (.tv t v))).1 ci.toNat ri.toNat)).v = v :=
  ⟨XlModel.Props.C20.upper_same_cell name ci ri hn, XlModel.Props.C20.spellings_same_cell name ci ri hn,
   (last_writer_wins s h k ci.toNat ri.toNat t v hc hr ha).2.2⟩

/-! ## formulas -/

/-- `SetCellFormula` leaves the old value behind as the cached result: the types it treats specially are
exactly the shared-string and the boolean tag (extracted `switch c.T` labels); a shared-string cell gets the
text of its item (the item's token without the kind letter) with type "str", a boolean keeps type and value,
any other cell keeps its value text and is typed "str"; in all cases the formula is the one written. -/
theorem formula_cached_value (sst : List Tok) (fm : Tok) (v : CellV) (hfm : fm ≠ "") :
    Facts.C03.formulaSwitchCases = [Facts.C03.sstTag, Facts.C03.boolTag] ∧
    (formulaWrite sst fm v).f = some fm ∧ (formulaWrite sst fm v).s = v.s ∧
    (v.t = Facts.C03.boolTag → (formulaWrite sst fm v).t = Facts.C03.boolTag ∧ (formulaWrite sst fm v).v = v.v) ∧
    (v.t ≠ Facts.C03.sstTag → v.t ≠ Facts.C03.boolTag →
      (formulaWrite sst fm v).t = Facts.C03.formulaTag ∧ (formulaWrite sst fm v).v = v.v) ∧
    (∀ e, v.t = Facts.C03.sstTag → v.v ≠ "" → sstEntry? sst v.v = some e → String.ofList (e.toList.drop 1) ≠ "-" →
      (formulaWrite sst fm v).t = Facts.C03.formulaTag ∧ (formulaWrite sst fm v).v = String.ofList (e.toList.drop 1)) := by
  refine ⟨by decide, ?_, ?_, ?_, ?_, ?_⟩
  · simp only [formulaWrite, hfm, if_false, formulaRetype]; split <;> (try split) <;> rfl
  · simp only [formulaWrite, hfm, if_false, formulaRetype]; split <;> (try split) <;> rfl
  · intro hb
    have hns : ¬ Facts.C03.boolTag = Facts.C03.sstTag := by decide
    simp [formulaWrite, hfm, formulaRetype, hb, hns]
  · intro h1 h2
    simp [formulaWrite, hfm, formulaRetype, h1, h2]
  · intro e h1 h2 h3 h4
    have h5 : ¬ String.ofList (e.toList).tail = "-" := by simpa using h4
    simp [formulaWrite, hfm, formulaRetype, h1, h2, h3]
    intro hh; exact absurd hh h5

/-- the index `setSharedFormula` gives a new shared-formula group is fresh: `countSharedFormula` has the
extracted shape "highest index in use + 1", and that number exceeds every index in use — a new group can
never adopt (and later wipe, or read the formula of) an existing one. (Shared formulas are otherwise
exercised by the seeded `shh` histories only.) -/
theorem shared_index_fresh (used : List Nat) :
    Facts.C03.countSharedFormulaShape = "max+1" ∧ ∀ i ∈ used, i < nextSharedIndex used := by
  refine ⟨by decide, ?_⟩
  have key : ∀ (l : List Nat) (c : Nat),
      c ≤ l.foldl (fun count i => if i + 1 > count then i + 1 else count) c ∧
      ∀ i ∈ l, i < l.foldl (fun count i => if i + 1 > count then i + 1 else count) c := by
    intro l
    induction l with
    | nil => intro c; exact ⟨Nat.le_refl _, by simp⟩
    | cons a l ih =>
      intro c
      simp only [List.foldl_cons]
      by_cases hac : a + 1 > c
      · simp only [hac, if_true]
        obtain ⟨h1, h2⟩ := ih (a + 1)
        refine ⟨by omega, ?_⟩
        intro i hi
        rcases List.mem_cons.mp hi with rfl | hi
        · omega
        · exact h2 i hi
      · simp only [hac, if_false]
        obtain ⟨h1, h2⟩ := ih c
        refine ⟨h1, ?_⟩
        intro i hi
        rcases List.mem_cons.mp hi with rfl | hi
        · omega
        · exact h2 i hi
  exact (key used 0).2

/-! ## hyperlinks -/

/-- clause "SetCellHyperLink … reads back exactly the last payload", with the merge redirect: after
`SetCellHyperLink(cell, link)` every cell that is redirected to the same anchor — the cell itself, in any
accepted spelling, and every cell of the merged range containing it — reports `link` (whatever links were
set before, on this or other cells) -/
theorem link_last_writer_wins (ms : List MObj) (ls : Links) (c r : Nat) (loc : Tok) (c' r' : Nat)
    (hc : 1 ≤ c ∧ 1 ≤ r) (hc' : 1 ≤ c' ∧ 1 ≤ r') (ha : 1 ≤ (anchor ms c r).1 ∧ 1 ≤ (anchor ms c r).2)
    (hsame : anchor ms c' r' = anchor ms c r) :
    (setLink ms ls c r loc).2 = .ok ∧
    getLink ms (setLink ms ls c r loc).1 c' r' = some (some loc) := by
  have h0 : ¬ (c = 0 ∨ r = 0) := by omega
  have h1 : ¬ ((anchor ms c r).1 = 0 ∨ (anchor ms c r).2 = 0) := by omega
  have h0' : ¬ (c' = 0 ∨ r' = 0) := by omega
  simp only [setLink, getLink, h0, h1, h0', hsame, if_false, lookup_upsert_self, and_self]

/-- clause "no write changes any other cell", for links: cells redirected to a different anchor keep what
`GetCellHyperLink` reported for them -/
theorem link_frame (ms : List MObj) (ls : Links) (c r : Nat) (loc : Tok) (c' r' : Nat)
    (hne : anchor ms c' r' ≠ anchor ms c r) :
    getLink ms (setLink ms ls c r loc).1 c' r' = getLink ms ls c' r' := by
  unfold setLink
  split
  · rfl
  · simp only
    split
    · rfl
    · unfold getLink
      split
      · rfl
      · simp only
        split
        · rfl
        · rw [lookup_upsert_other _ _ _ _ hne]

/-- removing the link of a cell (`linkType "None"`) removes it for the whole merged range and for nothing else -/
theorem link_remove (ms : List MObj) (ls : Links) (c r c' r' : Nat)
    (hc : 1 ≤ c ∧ 1 ≤ r) (hc' : 1 ≤ c' ∧ 1 ≤ r') (ha : 1 ≤ (anchor ms c r).1 ∧ 1 ≤ (anchor ms c r).2)
    (ha' : 1 ≤ (anchor ms c' r').1 ∧ 1 ≤ (anchor ms c' r').2) :
    getLink ms (unsetLink ms ls c r).1 c' r' =
      if anchor ms c' r' = anchor ms c r then some none else getLink ms ls c' r' := by
  have h0 : ¬ (c = 0 ∨ r = 0) := by omega
  have h1 : ¬ ((anchor ms c r).1 = 0 ∨ (anchor ms c r).2 = 0) := by omega
  have h0' : ¬ (c' = 0 ∨ r' = 0) := by omega
  have h1' : ¬ ((anchor ms c' r').1 = 0 ∨ (anchor ms c' r').2 = 0) := by omega
  simp only [unsetLink, getLink, h0, h1, h0', h1', if_false]
  by_cases hs : anchor ms c' r' = anchor ms c r
  · simp only [hs, if_true, lookup_filter_self]
  · simp only [hs, if_false, lookup_filter_other _ _ _ hs]

/-! ## non-vacuity -/

/-- the hypotheses of `last_writer_wins` / `get_refines` are satisfiable: a write inside a merged
range of a dense sheet is read back through the anchor from every cell of the range -/
example :
    let s := run {} [.set .str 1 1 (.sst "S61"), .merge 1 1 2 2, .set .int 2 2 (.tv "" "37")]
    Dense s.rows ∧ observed (getCell s 2 2) = observed (getCell s 1 1) ∧ (observed (getCell s 1 2)).v = "37" := by
  refine ⟨dense_run _ _, by decide +kernel, by decide +kernel⟩

/-- `Disjoint` is satisfiable by a non-trivial list and `merge_redirect` applies to it -/
example : anchor [rA 1 1 2 2, rA 4 4 5 6] 5 5 = (4, 4) := by decide +kernel

end XlModel.Props.C03
