import XlModel.Grid
namespace XlModel.Props.C03
open XlModel XlModel.Grid

theorem placeholder : True := trivial

end XlModel.Props.C03
