/-
C04 — All read paths agree, and reading never changes the workbook.
Property theorems only; helper lemmas are in `Lemmas/Readers.lean`.

Every theorem is about `XlModel.Readers` (transcription of rows.go, col.go,
sheet.go, cell.go read paths) over the regenerated skeleton facts
`Facts.C04.*`; `facts_pinned` pins the values the proofs were written for, so
an edit of the anchored source that changes them breaks this file.

`WF s` is the representation invariant of a worksheet as the readers see it:
effective row numbers and, in each row, effective column numbers strictly
increase (effective = `r` attribute if present, else previous + 1).
`value s c r` is the grid it denotes.
-/
import XlModel.Lemmas.Readers
import XlModel.Lemmas.ReadersLoad
import XlModel.Lemmas.ReadersPlace
import XlModel.ReadersState
import XlModel.ReadersRender
import XlModel.Lemmas.Grid4

deriving instance DecidableEq for Except

namespace XlModel.Props.C04
open XlModel XlModel.Readers

/-- `p` holds of the cached form of `s` (and caching succeeds) -/
def afterLoad (s : Sheet) (p : Sheet → Bool) : Bool :=
  match load s with
  | .ok s' => p s'
  | _ => false

/-- the regenerated skeleton of the read paths is the one the model transcribes:
`appendSpace` starts at 1, the row reader keeps `val != "" || colCell.F != nil`,
`GetRows` keeps non-empty rows and cuts at the last one, `getValueFrom` does not
assign to `c.V`, no exported getter calls `prepareSheetXML`/`prepareCell`,
`searchSheet` does not `MustCompile` and tracks positions. -/
theorem facts_pinned :
    Facts.C04.appendSpaceStart = 1 ∧
    Facts.C04.rowsLiveCond = "val != \"\" || colCell.F != nil" ∧
    Facts.C04.rowsLiveUsesFormula = true ∧
    Facts.C04.getRowsKeepsNonEmpty = "len(row) > 0" ∧
    Facts.C04.getRowsReturn = "results[:maxVal]" ∧
    Facts.C04.getValueFromWritesCV = false ∧
    Facts.C04.materialisingGetters = [] ∧
    Facts.C04.getCellStyleMaterialises = false ∧
    Facts.C04.searchMustCompile = false ∧
    Facts.C04.searchTracksPositions = true ∧
    Facts.C04.rowsBoundByTotalRows = true ∧
    Facts.C04.checkSheetBoundsRows = true ∧
    Facts.C04.checkRowSizesByGreatest = true ∧
    Facts.C04.getMergeCellsInPlace = false ∧
    Facts.C04.getRowsReturnsMaxRows = true ∧
    Facts.C04.r0RunningCol = true ∧
    Facts.C04.r0KeepsRowAttrs = true := by decide

/-- clause "every Get*, Rows, Cols, SearchSheet": the exported read functions of
`*File` are exactly the ones the purity / no-panic oracle draws from; a new getter
breaks this until the oracle covers it. -/
theorem getters_covered : Facts.C04.getters =
    ["Cols", "GetActiveSheetIndex", "GetAppProps", "GetBaseColor", "GetCalcProps",
     "GetCellFormula", "GetCellHyperLink", "GetCellRichText", "GetCellStyle", "GetCellType",
     "GetCellValue", "GetColOutlineLevel", "GetColStyle", "GetColVisible", "GetColWidth",
     "GetCols", "GetComments", "GetConditionalFormats", "GetConditionalStyle",
     "GetDataValidations", "GetDefaultFont", "GetDefinedName", "GetDocProps", "GetFormControls",
     "GetHeaderFooter", "GetMergeCells", "GetPageLayout", "GetPageMargins", "GetPanes",
     "GetPictureCells", "GetPictures", "GetPivotTables", "GetRowHeight", "GetRowOutlineLevel",
     "GetRowVisible", "GetRows", "GetSheetDimension", "GetSheetIndex", "GetSheetList",
     "GetSheetMap", "GetSheetName", "GetSheetProps", "GetSheetView", "GetSheetVisible",
     "GetSlicers", "GetStyle", "GetTables", "GetWorkbookProps", "Rows", "SearchSheet"] := by
  decide

/-- clause "read-only calls are pure", syntactic side: in the bodies of all exported read
functions of `*File` no assignment targets a field or element of an object that is not a
fresh local (named result, `var`, composite literal, `x := *p`, `make`, `new`). The scan had
isolated `GetConditionalStyle` writing the default pattern type into the shared `dxf`
(repaired: it now writes to a copy). The helper `getCellFormula` behind `GetCellFormula` is
scanned too: its only write is the flag `f.formulaChecked`, set in the transformed mode that
`CalcCellValue` uses, never by `GetCellFormula`. Any other such write appearing breaks this
theorem. (Writes inside callees — `getValueFrom`, `prepareSheetXML`, `mergeOverlapCells` — are
covered by their own facts and by the twin-run oracle.) -/
theorem getter_shared_writes_pinned :
    Facts.C04.getterSharedWrites = ["getCellFormula:f.formulaChecked"] := by decide

/-! ## All read paths agree -/

/-- clause "the value of a cell is the same whichever read interface is used"
(GetRows / Rows iterator vs the grid), for every sheet satisfying the
representation invariant — sparse rows, gaps, styled-but-empty cells, formulas
without value, missing `r` attributes on rows and cells — and every position:
indexing the jagged result of `GetRows` gives the value of the cell, and the
empty string wherever the result was trimmed. -/
theorem readers_agree (s : Sheet) (h : WF s) (ha : RowAttrsOK s) (c r : Nat) (hc : 1 ≤ c)
    (hr : 1 ≤ r) : cellOf (getRows s) c r = value s c r := by
  have hc0 : ¬ (c = 0 ∨ r = 0) := by omega
  unfold cellOf value
  rw [if_neg hc0, getRows_get s h ha (r - 1)]
  have hr' : r - 1 + 1 = r := by omega
  rw [hr']
  have := rowCells_get (rowAt 0 s r) (colsAsc_rowAt s 0 r h) (c - 1)
  have hc' : c - 1 + 1 = c := by omega
  rw [hc'] at this
  exact this

/-- clause "return normally": on a sheet whose `r` attributes are within `TotalRows` (every
sheet inside the grid) `GetRows` returns no error … -/
theorem getRows_no_error (s : Sheet) (ha : RowAttrsOK s) : getRowsErr s = false := by
  have := foldl_rowStep_not_stopped s ⟨0, 0, ⟨0, []⟩, [], false⟩ rfl ha
  simp [getRowsErr, this]

/-- … and a row number beyond the limit is reported (`ErrMaxRows`) instead of silently ending
the result (repaired defect: `GetRows` used to drop the row it was building and return nil). -/
theorem getRows_reports_row_limit (s : Sheet) (h : ∃ r ∈ s, r.r > Facts.TotalRows) :
    getRowsErr s = true := by
  have := foldl_rowStep_stopped s ⟨0, 0, ⟨0, []⟩, [], false⟩ (Or.inr h)
  simp [getRowsErr, this, facts_pinned.2.2.2.2.2.2.2.2.2.2.2.2.2.2.1]

/-- clause "GetCellValue agrees": on a cached worksheet (every row and cell carries
its reference) the lookup of `getCellStringFunc`, including its `row > lastRowNum`
shortcut, returns the value of the grid. -/
theorem getCellValue_agrees (s : Sheet) (h : WF s) (he : Explicit s) (c r : Nat) :
    getCellValue s c r = value s c r :=
  getCellValue_eq_value s c r h he

/-- DESIGN `readers_agree`: for every cached sheet satisfying the invariant and every
(c,r): `cellOf (getRows s) c r = getCellValue s (c,r)`. -/
theorem getRows_agrees_getCellValue (s : Sheet) (h : WF s) (he : Explicit s) (c r : Nat)
    (hc : 1 ≤ c) (hr : 1 ≤ r) : cellOf (getRows s) c r = getCellValue s c r := by
  rw [readers_agree s h (rowAttrsOK_of_explicit s he) c r hc hr, getCellValue_agrees s h he c r]

/-- clause "differing from the full grid only by the documented trimming": exactly
what `GetRows` cuts. The result has as many rows as the number of the last row
that has a live cell (non-empty value or formula), and row `j+1` has as many cells
as the column of its last live cell — so only trailing cells that are empty and
not formulas, and trailing rows without live cells, are missing; together with
`readers_agree` nothing else differs from the grid. -/
theorem getRows_trim_spec (s : Sheet) (h : WF s) (ha : RowAttrsOK s) :
    (getRows s).length = lastLiveRow 0 s 0 ∧
    ∀ j, (((getRows s)[j]?).getD []).length = lastLive 0 (rowAt 0 s (j + 1)) 0 := by
  refine ⟨getRows_length s h ha, fun j => ?_⟩
  rw [getRows_get s h ha j]
  exact rowCells_length _ (colsAsc_rowAt s 0 (j + 1) h)

/-- clause "the value of a cell is the same whichever read interface is used", `GetCols`
and the `Cols` iterator: for every sheet satisfying the invariant whose present cell
references name the row they stand in, and every position, indexing the jagged result of
`GetCols` by (column, row) gives the value of the cell — inside the returned columns and
(empty) beyond them. -/
theorem getCols_agrees (s : Sheet) (h : WF s) (hc : Consistent 0 s) (c r : Nat) (h1 : 1 ≤ c)
    (h2 : 1 ≤ r) : cellOfCols (getCols s) c r = value s c r :=
  getCols_cell s h hc c r h1 h2

/-- the list `Cols.Rows` yields for column `c` (any `c`), indexed from 0 -/
theorem cols_iterator_column (s : Sheet) (h : WF s) (hc : Consistent 0 s) (c j : Nat) :
    ((colCells s c)[j]?).getD [] = value s c (j + 1) :=
  colCells_get s h hc c j

/-- shape of `GetCols`: one list per column up to the greatest effective column of any
cell element (styled-empty cells included: `GetCols` does not trim trailing empty
columns), and no cell has a value to the right of it. -/
theorem getCols_shape (s : Sheet) :
    (getCols s).length = totalCols s ∧ ∀ c r, totalCols s < c → value s c r = [] :=
  ⟨getCols_length s, fun c r h => value_nil_beyond_totalCols s c r h⟩

/-- `GetRows` and `GetCols` agree cell by cell -/
theorem getRows_agrees_getCols (s : Sheet) (h : WF s) (ha : RowAttrsOK s) (hc : Consistent 0 s)
    (c r : Nat) (h1 : 1 ≤ c) (h2 : 1 ≤ r) :
    cellOf (getRows s) c r = cellOfCols (getCols s) c r := by
  rw [readers_agree s h ha c r h1 h2, getCols_agrees s h hc c r h1 h2]

/-- clause "SearchSheet agrees" (literal search): on a sheet inside the grid the
result is, in document order, the list of cell elements whose value equals the
needle — never an error, whether or not `r` attributes are present. -/
theorem searchSheet_spec (s : Sheet) (h : WF s) (hg : InGrid 0 s) (needle : Val) :
    searchSheet s needle = .ok (hits needle 0 s) := by
  have := searchRows_ok needle s 0 [] h hg
  simpa [searchSheet] using this

/-- clause "SearchSheet agrees": for a non-empty needle it finds exactly the cells
whose value (as every other reader reports it) equals the needle. -/
theorem searchSheet_finds_exactly (s : Sheet) (h : WF s) (hg : InGrid 0 s) (needle : Val)
    (hne : needle ≠ []) (c r : Nat) :
    (∃ l, searchSheet s needle = .ok l ∧ ((c, r) ∈ l ↔ value s c r = needle)) :=
  ⟨hits needle 0 s, searchSheet_spec s h hg needle, mem_hits_iff needle hne s 0 c r h⟩

/-! ## Typed cells: what `val` is -/

/-- every reader renders a cell through the one function `getValueFrom`: its callers in the
source are exactly the four read paths (`GetCellValue`'s closure, `Rows.rowXMLHandler`,
`Cols.rowXMLHandler`, `searchSheet`) plus two writers that read a value back. -/
theorem render_call_sites : Facts.C04.getValueFromCallers =
    ["Cols.rowXMLHandler", "File.GetCellValue", "File.SetCellFormula", "File.searchSheet",
     "Rows.rowXMLHandler", "StreamWriter.getRowValues"] := by decide

/-- `getValueFrom` on an unstyled cell, by cell type: booleans, dates, errors and numbers show
their stored text in raw mode, a boolean shows TRUE/FALSE in formatted mode, a formula string is
`bstrUnmarshal` of its stored text, an inline string is `xlsxSI.String()` of its `<is>`, a shared
string is the item its index names and its own text when the index is outside the table. -/
theorem render_by_type (sst : List SI) (raw : Bool) (c : TCell) :
    (c.t = .d ∨ c.t = .e ∨ c.t = .n → render sst raw c = c.v) ∧
    (c.t = .b → render sst true c = c.v) ∧
    (c.t = .b → c.v = ['1'] → render sst false c = "TRUE".toList) ∧
    (c.t = .b → c.v = ['0'] → render sst false c = "FALSE".toList) ∧
    (c.t = .str → render sst raw c = Bstr.unmarshal c.v) ∧
    (c.t = .inlineStr → ∀ x, c.is = some x → render sst raw c = x.str) ∧
    (c.t = .s → ∀ (i : Nat) (x : SI), c.v ≠ [] → sIndex c.v = (i : Int) → sst[i]? = some x →
      render sst raw c = x.str) ∧
    (c.t = .s → ∀ (i : Nat), sIndex c.v = (i : Int) → sst.length ≤ i → render sst raw c = c.v) := by
  refine ⟨?_, ?_, ?_, ?_, ?_, ?_, ?_, ?_⟩
  · rintro (h | h | h) <;> simp [render, h]
  · intro h; simp [render, h]
  · intro h hv; simp [render, h, hv]
  · intro h hv; simp [render, h, hv]
  · intro h; simp [render, h]
  · intro h x hx; simp [render, h, hx]
  · intro h i x hv hi hx
    have hlt : i < sst.length := by
      rcases Nat.lt_or_ge i sst.length with h1 | h1
      · exact h1
      · rw [List.getElem?_eq_none h1] at hx; cases hx
    have h0 : (0 : Int) ≤ (i : Int) := Int.natCast_nonneg i
    have hget : sst[i] = x := by
      have := List.getElem?_eq_getElem hlt
      rw [this] at hx; exact Option.some.inj hx
    simp [render, h, hv, hi, hlt, h0, hget]
  · intro h i hi hle
    by_cases hv : c.v = []
    · simp [render, h, hv]
    · have : ¬ i < sst.length := by omega
      simp [render, h, hv, hi, this]

/-- clause "the value of a cell is the same whichever read interface is used", for typed cells:
with every cell rendered by `render` (shared, inline, formula strings, booleans, errors, dates,
numbers; raw or formatted), `GetRows`, `GetCols`, literal `SearchSheet` and — on the cached form —
`GetCellValue` all show the rendered text of the cell at that position. -/
theorem typed_readers_agree (sst : List SI) (raw : Bool) (ts : List TRow)
    (h : WF (toSheet sst raw ts)) (ha : RowAttrsOK (toSheet sst raw ts))
    (hc : Consistent 0 (toSheet sst raw ts)) (c r : Nat) (h1 : 1 ≤ c) (h2 : 1 ≤ r) :
    cellOf (getRows (toSheet sst raw ts)) c r = value (toSheet sst raw ts) c r ∧
    cellOfCols (getCols (toSheet sst raw ts)) c r = value (toSheet sst raw ts) c r ∧
    (Explicit (toSheet sst raw ts) →
      getCellValue (toSheet sst raw ts) c r = value (toSheet sst raw ts) c r) ∧
    (InGrid 0 (toSheet sst raw ts) → ∀ needle, needle ≠ [] →
      ∃ l, searchSheet (toSheet sst raw ts) needle = .ok l ∧
        ((c, r) ∈ l ↔ value (toSheet sst raw ts) c r = needle)) :=
  ⟨readers_agree _ h ha c r h1 h2, getCols_agrees _ h hc c r h1 h2,
    fun he => getCellValue_agrees _ h he c r,
    fun hg needle hne => searchSheet_finds_exactly _ h hg needle hne c r⟩

/-! ## Reading never changes the workbook (the modelled state-passing getters) -/

/-- clause "read-only calls are pure", `GetCellStyle`: the cached worksheet after the
call is the worksheet before the call (it used to be `prepareSheetXML col row`). -/
theorem getCellStyle_pure (s : Sheet) (c r : Nat) : getCellStyleState s c r = s := by
  simp [getCellStyleState, facts_pinned.2.2.2.2.2.2.2.1]

/-- hence every observation of the modelled state is unchanged, in particular the
one that exposed the defect (`GetRowVisible` of a row between the used range and the
cell whose style was read) and every reader. -/
theorem getCellStyle_obs (s : Sheet) (c r : Nat) :
    (∀ k, rowVisible (getCellStyleState s c r) k = rowVisible s k) ∧
    getRows (getCellStyleState s c r) = getRows s ∧
    getCols (getCellStyleState s c r) = getCols s ∧
    (∀ n, searchSheet (getCellStyleState s c r) n = searchSheet s n) ∧
    (∀ a b, getCellValue (getCellStyleState s c r) a b = getCellValue s a b) := by
  simp [getCellStyle_pure]

/-- clause "read-only calls are pure", `GetCellValue`/`GetRows`/`GetCols`/`SearchSheet` on a
numeric cell: the stored text after a formatted read is the stored text before it, whatever
rendering `getValueFrom` computed (it used to be that rendering: `1.0000000000000002` → `1`). -/
theorem getCellValue_keeps_stored (v norm : Val) : storedAfterFormattedRead v norm = v := by
  simp [storedAfterFormattedRead, facts_pinned.2.2.2.2.2.1]

/-- clause "read-only calls are pure", `GetMergeCells`: the stored merge list after the call is
the list before it — the overlapping ranges are merged on a copy — for every list, overlapping or
not; hence `GetCellValue` through `mergeCellsParser` answers as before for every cell. -/
theorem getMergeCells_pure (s : Sheet) (ms : List Grid.MObj) :
    getMergeCellsState ms = ms ∧
    ∀ c r, getCellValueM s (getMergeCellsState ms) c r = getCellValueM s ms c r := by
  have h : getMergeCellsState ms = ms := by
    simp [getMergeCellsState, facts_pinned.2.2.2.2.2.2.2.2.2.2.2.2.2.1]
  exact ⟨h, fun c r => by rw [h]⟩

/-- what `GetMergeCells` reports for a valid pairwise disjoint list is the list itself (C03's
`mergeOverlap_id`) -/
theorem getMergeCells_result_disjoint (ms : List Grid.MObj) (hd : Grid.PairwiseDisjoint ms) :
    getMergeCellsResult ms = ms := Grid.mergeOverlap_id ms hd

/-- regression witness of the repaired defect `purity:obs:GetMergeCells:overlapping-merges`, on
C03's merge list model: with the overlapping ranges D8:F10 and B7:D9 (both accepted by `MergeCell`)
`GetCellValue(E7)` returns E7's own value; `GetMergeCells` reports the single range B7:F10; had it
stored that normal form (as it did), the same `GetCellValue` would be redirected to B7. -/
theorem regression_getMergeCells_in_place :
    let s : Sheet := (List.range 7).map fun i =>
      ⟨i + 1, false, if i = 6 then [⟨5, 7, ['v'], false, false⟩] else []⟩
    let ms := [mrange 4 8 6 10, mrange 2 7 4 9]
    getCellValueM s ms 5 7 = ['v'] ∧
    getMergeCellsResult ms = [mrange 2 7 6 10] ∧
    getCellValueM s (getMergeCellsResult ms) 5 7 = [] ∧
    getCellValueM s (getMergeCellsState ms) 5 7 = ['v'] := by decide

/-- clause "read-only calls are pure", `GetCellFormula` on a dependent cell of a shared formula:
the stored formula text of the cell after the read is the text before it (the expanded formula
is returned, not stored). -/
theorem getCellFormula_keeps_cell (content expanded : Val) :
    formulaContentAfterRead content expanded = content := by
  have : getCellFormulaMemoises = false := by decide
  simp [formulaContentAfterRead, this]

/-- clause "the value of a cell is the same whichever read interface is used", shared strings
read from a temporary file (workbook opened with a small `UnzipXMLSizeLimit`): every item is
decoded into a fresh target (fact `sharedStringItemFresh`), so the text `getFromStringItem`
serves for item `i` is `SI[i].String()`, what the in-memory path serves — for every table,
rich-text items after plain ones included. -/
theorem spill_strings_agree (items : List SI) : spillStrings items = items.map SI.str := by
  have hf : Facts.C04.sharedStringItemFresh = true := by decide
  have : ∀ (xs : List SI) (tgt : SI), loadStringItems tgt xs = xs.map SI.str := by
    intro xs
    induction xs with
    | nil => intro _; rfl
    | cons x xs ih => intro tgt; simp [loadStringItems, decodeSI, hf, ih]
  exact this items _

/-- regression witness of the repaired defect: with the old body (`prepareSheetXML`)
row 5 of an empty sheet turns visible after reading the style of A10. -/
theorem regression_getCellStyle_materialised :
    rowVisible [] 5 = false ∧ rowVisible (prepareSheetXML [] 1 10) 5 = true := by decide

/-! ## Rows without `r` whose cells mix referenced and unreferenced cells (repaired) -/

/-- the sheet `<row><c r="C1">x</c><c>y</c></row>` -/
def rlessMixed : Sheet := [⟨0, false, [⟨3, 1, ['x'], false, false⟩, ⟨0, 0, ['y'], false, false⟩]⟩]

/-- repaired defect `purity:*-after-load:rless-mixed`: the witness satisfies the reader
invariant, `GetRows` shows `["","",x,y]` on the file, and caching the sheet (`checkSheetR0` now
places an unreferenced cell after the cell before it, as the streaming readers do) leaves
`GetRows` and `SearchSheet` as they were and `GetCols` the same cell by cell. -/
theorem rlessMixed_load_pure :
    WF rlessMixed ∧ getRows rlessMixed = [[[], [], ['x'], ['y']]] ∧
    afterLoad rlessMixed (fun s' => getRows s' == getRows rlessMixed &&
      (List.range 6).all (fun c => cellOfCols (getCols s') c 1 == cellOfCols (getCols rlessMixed) c 1) &&
      (match searchSheet s' ['y'], searchSheet rlessMixed ['y'] with
       | .ok a, .ok b => a == b
       | _, _ => false)) = true := by
  refine ⟨?_, by decide, by decide⟩
  simp [WF, rlessMixed, RowsAsc, ColsAsc, effRow, effCol]

/-- regression witness: with the old rule (an unreferenced cell of a row without `r` goes to
its index) `y` lands in B1, the column the streaming readers never showed it in. -/
theorem regression_rless_mixed_index_placement :
    (match r0CellsAux false 1 0 0 [⟨3, 1, ['x'], false, false⟩, ⟨0, 0, ['y'], false, false⟩]
        [⟨1, false, []⟩] with
     | .ok [row] => row.cells.map (·.val) == [[], ['y'], ['x']]
     | _ => false) = true ∧
    (match r0CellsAux true 1 0 0 [⟨3, 1, ['x'], false, false⟩, ⟨0, 0, ['y'], false, false⟩]
        [⟨1, false, []⟩] with
     | .ok [row] => row.cells.map (·.val) == [[], [], ['x'], ['y']]
     | _ => false) = true := by decide

/-- repaired defect `purity:saved:rless-row-attrs-lost`: a hidden row without `r` is still
hidden in the cached worksheet (`GetRowVisible` false, as `Rows().GetRowOpts()` said). -/
theorem rless_hidden_kept :
    afterLoad [⟨0, false, [⟨0, 0, ['a'], false, false⟩]⟩, ⟨0, true, [⟨0, 0, ['b'], false, false⟩]⟩]
      (fun s' => rowVisible s' 1 && !rowVisible s' 2) = true := by decide

/-- C04, placement of `<c>` elements without `r` (readers agree, row level, full strength over
the invariant): in every row whose effective columns ascend — cells with `r`, cells without `r`
and empty cells in any mixture — the reference `checkRow` writes into the cell at any index is
the running column `Rows.rowXMLHandler` has reached at that element. The running column has
advanced over every element before it, also over the empty ones the streaming reader does not
append (`cellStep` keeps `cellCol` in its non-live branch); value, formula and style of the
cell are kept. -/
theorem streaming_placement_eq_cached (n : Nat) (pre : List Cell) (c : Cell) (post : List Cell)
    (h : ColsAsc 0 (pre ++ c :: post)) :
    (crAssign n 0 (pre ++ c :: post))[pre.length]? =
      some { c with col := effCol (pre.foldl cellStep ⟨0, []⟩).cellCol c,
                    row := if c.col ≠ 0 then c.row else n } :=
  crAssign_at_stream n pre c post ⟨0, []⟩ h

/-- C04, the same at the level of what is read: for every such row (row slot `idx` as
`checkSheet` leaves it), `checkRow` succeeds, and what `Rows.Columns` returns at index `j` for
the row as written is what `GetCellValue` finds at column `j + 1` of the cached row, and what
`Rows.Columns` returns for the cached row. -/
theorem streaming_row_agrees_cached_row (idx : Nat) (r : Row) (hnum : r.r = idx + 1)
    (hin : idx + 1 ≤ Facts.TotalRows) (h : ColsAsc 0 r.cells)
    (hr : RefsOK (idx + 1) r.cells) (hg : InGridCells 0 r.cells) :
    ∃ r', checkRow1 idx r = .ok r' ∧ ∀ j,
      ((rowCells r.cells)[j]?).getD [] = getCellValue [r'] (j + 1) (idx + 1) ∧
      ((rowCells r'.cells)[j]?).getD [] = ((rowCells r.cells)[j]?).getD [] := by
  obtain ⟨cells', hok, hasc, hexp, hval, _⟩ := checkRow1_spec idx r h hr hg
  refine ⟨{ r with cells := cells' }, hok, fun j => ⟨?_, ?_⟩⟩
  · have hra : RowsAsc 0 [{ r with cells := cells' }] := by
      refine ⟨?_, hasc, trivial⟩
      simp [effRow, hnum]
    have hex : Explicit [{ r with cells := cells' }] := by
      refine ⟨?_, ?_, ?_, trivial⟩
      · simp [hnum]
      · simpa [hnum] using hin
      · simpa [hnum] using hexp
    have hg := gcvRows_eq_value [{ r with cells := cells' }] 0 (j + 1) (idx + 1) hra hex
    have hlast : lastNum [{ r with cells := cells' }] = idx + 1 := by simp [lastNum, hnum]
    have hrow : rowAt 0 [{ r with cells := cells' }] (idx + 1) = cells' := by
      simp [rowAt, effRow, hnum]
    unfold getCellValue
    rw [hlast, if_neg (Nat.lt_irrefl _), hg, hrow, hval, rowCells_get r.cells h j]
  · show ((rowCells cells')[j]?).getD [] = _
    rw [rowCells_get cells' hasc j, rowCells_get r.cells h j, hval]

/-- the hypothesis is needed: when a reference steps backwards (C1 then A1) the streaming
reader continues from the reference (the next cell without `r` is B), `checkRow` from the
column after the greatest position so far (E) — outside the representation invariant the two placements differ. -/
theorem placement_needs_ascending :
    let cs : List Cell := [⟨3, 1, ['x'], false, false⟩, ⟨1, 1, ['y'], false, false⟩,
      ⟨0, 0, ['z'], false, false⟩]
    ¬ ColsAsc 0 cs ∧
    effCol ((cs.take 2).foldl cellStep ⟨0, []⟩).cellCol ⟨0, 0, ['z'], false, false⟩ = 2 ∧
    ((crAssign 1 0 cs)[2]?).map Cell.col = some 5 := by
  refine ⟨?_, by decide, by decide⟩
  simp [ColsAsc, effCol]

/-- non-vacuity of the placement theorems: r-less valued cell, r-less empty cell, empty cell
with `r`, r-less valued cell — the last one is placed at F by both -/
theorem nonvacuous_placement :
    let pre : List Cell := [⟨2, 4, ['a'], false, false⟩, ⟨0, 0, [], false, false⟩,
      ⟨5, 4, [], false, false⟩]
    let c : Cell := ⟨0, 0, ['b'], false, false⟩
    ColsAsc 0 (pre ++ [c]) ∧ RefsOK 4 (pre ++ [c]) ∧ InGridCells 0 (pre ++ [c]) ∧
    effCol (pre.foldl cellStep ⟨0, []⟩).cellCol c = 6 ∧
    (crAssign 4 0 (pre ++ [c]))[3]? = some ⟨6, 4, ['b'], false, false⟩ ∧
    rowCells (pre ++ [c]) = [[], ['a'], [], [], [], ['b']] := by
  refine ⟨?_, ?_, ?_, by decide, by decide, by decide⟩
  · simp [ColsAsc, effCol]
  · intro x hx; simp at hx; rcases hx with rfl | rfl | rfl | rfl <;> simp
  · simp [InGridCells, effCol, Facts.MaxColumns]

/-- from "caching succeeds, keeps the invariant, makes references explicit and preserves the
grid" to what the readers show before and after caching -/
theorem load_obs (s : Sheet) (h : WF s) (hb : RowAttrsOK s) (hc : Consistent 0 s) (hg : InGrid 0 s)
    (hl : ∃ s', load s = .ok s' ∧ WF s' ∧ Explicit s' ∧ ∀ c k, value s' c k = value s c k) :
    ∃ s', load s = .ok s' ∧ WF s' ∧ Explicit s' ∧
      (∀ c r, getCellValue s' c r = value s c r) ∧
      (∀ c r, 1 ≤ c → 1 ≤ r → cellOf (getRows s') c r = cellOf (getRows s) c r) ∧
      (∀ c r, 1 ≤ c → 1 ≤ r → cellOfCols (getCols s') c r = cellOfCols (getCols s) c r) ∧
      (∀ needle, needle ≠ [] → ∃ l l', searchSheet s needle = .ok l ∧
        searchSheet s' needle = .ok l' ∧ ∀ c r, (c, r) ∈ l' ↔ (c, r) ∈ l) := by
  obtain ⟨s', hl, hwf, hex, hv⟩ := hl
  have hb' := rowAttrsOK_of_explicit s' hex
  have hc' := consistent_of_explicit s' 0 hex
  have hg' := inGrid_of_explicit s' 0 hex
  refine ⟨s', hl, hwf, hex, fun c r => ?_, fun c r h1 h2 => ?_, fun c r h1 h2 => ?_,
    fun needle hne => ?_⟩
  · rw [getCellValue_agrees s' hwf hex c r, hv]
  · rw [readers_agree s' hwf hb' c r h1 h2, readers_agree s h hb c r h1 h2, hv]
  · rw [getCols_agrees s' hwf hc' c r h1 h2, getCols_agrees s h hc c r h1 h2, hv]
  · refine ⟨hits needle 0 s, hits needle 0 s', searchSheet_spec s h hg needle,
      searchSheet_spec s' hwf hg' needle, fun c r => ?_⟩
    rw [mem_hits_iff needle hne s' 0 c r hwf, mem_hits_iff needle hne s 0 c r h]
    have := hv c r
    unfold value at this
    rw [this]

/-- clause "read-only calls … leave the result of every later read unchanged", for the state
change every first getter performs: caching a worksheet opened from a file (`checkSheet`,
`checkSheetR0`, `checkRow` as the code does them now, with the greatest-column sizing and
the `TotalRows` bound). For **every** worksheet that satisfies the reader invariant, lies in
the grid, whose present cell references name their row, and whose rows carry `r` (cells may
or may not) — `load` succeeds (no error, no panic), the cached form satisfies the invariant
and carries every reference, and every reader answers as before: `GetCellValue` returns the
value the streaming readers showed, `GetRows` and `GetCols` agree cell by cell with their
results before caching, and literal `SearchSheet` finds the same cells.
Partial: the hypothesis `AllR s` (rows carry `r`) is explicit; for rows without `r` the
general statement is not proved (the `checkSheetR0` path; since its repair the correspondence
and the `purity:*-after-load` oracle show no failure for any `WF` sheet, `rlessMixed_load_pure`). -/
theorem load_pure_partial (s : Sheet) (h : WF s) (ha : AllR s) (hb : RowAttrsOK s)
    (hc : Consistent 0 s) (hg : InGrid 0 s) :
    ∃ s', load s = .ok s' ∧ WF s' ∧ Explicit s' ∧
      (∀ c r, getCellValue s' c r = value s c r) ∧
      (∀ c r, 1 ≤ c → 1 ≤ r → cellOf (getRows s') c r = cellOf (getRows s) c r) ∧
      (∀ c r, 1 ≤ c → 1 ≤ r → cellOfCols (getCols s') c r = cellOfCols (getCols s) c r) ∧
      (∀ needle, needle ≠ [] → ∃ l l', searchSheet s needle = .ok l ∧
        searchSheet s' needle = .ok l' ∧ ∀ c r, (c, r) ∈ l' ↔ (c, r) ∈ l) :=
  load_obs s h hb hc hg (load_allR s h ha hb hc hg)

/-- the same clause for the other common shape of "files with missing `r` attributes": a
worksheet written without **any** `r` attribute, on rows and on cells (rows and cells are
numbered by their position). The invariant, the row-attribute guard and the consistency of
references hold automatically; only "inside the grid" is assumed. `load` goes through the
`checkSheetR0` path (`r0Rows`, `r0Cells`): it only numbers the rows, then `checkRow` gives every
cell its reference; every reader answers as before. Sheets mixing rows with and without `r`
remain unproved (transcript and `purity:*-after-load` oracle only). -/
theorem load_pure_noRefs (s : Sheet) (hn : NoRefs s) (hg : InGrid 0 s) :
    ∃ s', load s = .ok s' ∧ WF s' ∧ Explicit s' ∧
      (∀ c r, getCellValue s' c r = value s c r) ∧
      (∀ c r, 1 ≤ c → 1 ≤ r → cellOf (getRows s') c r = cellOf (getRows s) c r) ∧
      (∀ c r, 1 ≤ c → 1 ≤ r → cellOfCols (getCols s') c r = cellOfCols (getCols s) c r) ∧
      (∀ needle, needle ≠ [] → ∃ l l', searchSheet s needle = .ok l ∧
        searchSheet s' needle = .ok l' ∧ ∀ c r, (c, r) ∈ l' ↔ (c, r) ∈ l) :=
  load_obs s (wf_noRefs s 0 hn) (rowAttrsOK_noRefs s hn) (consistent_noRefs s 0 hn) hg
    (load_noRefs s hn hg)

/-- `load_pure_examples`: on the witness shapes of the other classes (all references
present with gaps; no references at all) caching leaves `GetRows` unchanged. The
general statement (for every `WF` sheet whose rows without `r` keep unreferenced cells
at their index) is not proved here; it is carried by the correspondence
(`dump`/`rows` after `get`) and the `purity:*-after-load` oracle. -/
theorem load_pure_examples :
    (let s : Sheet := [⟨2, false, [⟨2, 2, ['a'], false, false⟩, ⟨5, 2, [], false, true⟩]⟩,
                       ⟨4, true, [⟨1, 4, [], true, false⟩]⟩]
     afterLoad s (fun s' => getRows s' == getRows s && getCols s' == getCols s) = true) ∧
    (let s : Sheet := [⟨0, false, [⟨0, 0, ['a'], false, false⟩, ⟨0, 0, ['b'], false, false⟩]⟩,
                       ⟨0, false, []⟩, ⟨0, false, [⟨0, 0, ['c'], false, false⟩]⟩]
     afterLoad s (fun s' => getRows s' == getRows s && getCols s' == getCols s) = true) := by
  decide

/-! ## Non-vacuity -/

/-- a sparse sheet with a gap row, a styled-empty cell, a formula without value and
missing `r` attributes satisfies the invariant, lies in the grid, and the theorems
speak about a non-trivial result. -/
theorem nonvacuous :
    let s : Sheet := [⟨2, false, [⟨0, 0, ['a'], false, false⟩, ⟨4, 2, [], false, true⟩,
                                  ⟨0, 0, [], true, false⟩, ⟨7, 2, [], false, false⟩]⟩,
                      ⟨0, false, []⟩,
                      ⟨5, true, [⟨2, 5, ['a'], false, false⟩]⟩, ⟨0, false, [⟨0, 0, [], false, true⟩]⟩]
    WF s ∧ InGrid 0 s ∧ RowAttrsOK s ∧ Consistent 0 s ∧
    getRows s = [[], [['a'], [], [], [], []], [], [], [[], ['a']]] ∧
    getCols s = [[[], ['a'], [], [], [], []], [[], [], [], [], ['a']], [[], [], [], [], []],
                 [[], [], [], [], []], [[], [], [], [], []], [[], [], [], [], []],
                 [[], [], [], [], []]] ∧
    searchSheet s ['a'] = .ok [(1, 2), (2, 5)] ∧
    value s 5 2 = [] ∧ value s 2 5 = ['a'] := by
  refine ⟨?_, ?_, ?_, ?_, by decide, by decide, by decide, by decide, by decide⟩
  · simp [WF, RowsAsc, ColsAsc, effRow, effCol]
  · simp [InGrid, InGridCells, effRow, effCol, Facts.MaxColumns, Facts.TotalRows]
  · simp [RowAttrsOK, Facts.TotalRows]
  · simp [Consistent, RefsOK, effRow]

/-- the hypotheses of `load_pure_partial` are satisfiable by a sheet that caching really
changes (gap row, cells without references, a column gap that is re-densified) -/
theorem nonvacuous_load :
    let s : Sheet := [⟨2, false, [⟨0, 0, ['a'], false, false⟩, ⟨4, 2, ['b'], false, true⟩]⟩,
                      ⟨5, true, [⟨2, 5, ['c'], false, false⟩, ⟨0, 0, [], true, false⟩]⟩]
    WF s ∧ AllR s ∧ RowAttrsOK s ∧ Consistent 0 s ∧ InGrid 0 s ∧
    afterLoad s (fun s' => s'.length == 5 && (s'.map (·.cells.length)) == [0, 4, 0, 0, 3]) = true := by
  refine ⟨?_, ?_, ?_, ?_, ?_, by decide⟩
  · simp [WF, RowsAsc, ColsAsc, effRow, effCol]
  · simp [AllR]
  · simp [RowAttrsOK, Facts.TotalRows]
  · simp [Consistent, RefsOK, effRow]
  · simp [InGrid, InGridCells, effRow, effCol, Facts.MaxColumns, Facts.TotalRows]

/-- the hypotheses of `load_pure_noRefs` are satisfiable (a hidden row and an empty row included) -/
theorem nonvacuous_noRefs :
    let s : Sheet := [⟨0, false, [⟨0, 0, ['a'], false, false⟩, ⟨0, 0, [], false, true⟩]⟩,
                      ⟨0, true, []⟩, ⟨0, false, [⟨0, 0, ['c'], true, false⟩]⟩]
    NoRefs s ∧ InGrid 0 s ∧
    afterLoad s (fun s' => s'.map (·.r) == [1, 2, 3] && !rowVisible s' 2 &&
      getCellValue s' 1 3 == ['c']) = true := by
  refine ⟨?_, ?_, by decide⟩
  · simp [NoRefs, CellsNoRef]
  · simp [InGrid, InGridCells, effRow, effCol, Facts.MaxColumns, Facts.TotalRows]

/-- an `Explicit` (cached-form) sheet satisfying the invariant exists -/
theorem nonvacuous_explicit :
    let s : Sheet := [⟨1, false, [⟨1, 1, ['a'], false, false⟩, ⟨3, 1, ['b'], false, false⟩]⟩,
                      ⟨4, false, [⟨2, 4, ['c'], false, false⟩]⟩]
    WF s ∧ Explicit s ∧ getCellValue s 3 1 = ['b'] ∧ getCellValue s 2 4 = ['c'] ∧
      getCellValue s 1 9 = [] := by
  refine ⟨?_, ?_, by decide, by decide, by decide⟩
  · simp [WF, RowsAsc, ColsAsc, effRow, effCol]
  · simp [Explicit, ExplicitCells, Facts.MaxColumns, Facts.TotalRows]

end XlModel.Props.C04
