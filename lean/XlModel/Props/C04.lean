import XlModel.Lemmas.Readers
namespace XlModel.Props.C04
open XlModel XlModel.Readers

theorem placeholder : True := trivial

end XlModel.Props.C04
