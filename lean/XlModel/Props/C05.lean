/-
C05 — Every written file is a structurally valid OPC/SpreadsheetML package.

The property is claimed PARTIAL.  What is proved here is the bookkeeping core
over `XlModel.Pkg.Impl` (transcription of addRels, deleteSheetRelationships,
removeContentTypesPart, addContentTypePart, setContentTypes, NewSheet,
trimRow/trimCell over the regenerated facts `Facts.C05`): the invariants
"relationship ids are unique inside a relationships part" and "one Override per
part name" hold for the NewFile template and are preserved by every modelled
operation class, hence along every history of them; max+1 id allocation never
collides; rows and cells are strictly ascending after the save-time trim of a
dense sheet.  Everything else in the property statement is decided on the
written bytes by the independent validator `Pkg.WF` (run by the driver).
-/
import XlModel.Lemmas.PkgBook
import XlModel.Props.C16

namespace XlModel.Props.C05
open XlModel XlModel.Ref XlModel.Pkg XlModel.Pkg.Impl XlModel.Pkg.Spec XlModel.Lemmas.Pkg

/-- the regenerated facts the hand-written parts of the model rely on: the id
prefix of addRels, which kinds of addContentTypePart add default extensions,
the relationship target NewSheet formats, the part name it registers, the
default extensions, and that the worksheet relationship type is not a
`uniqPart` type. An edit of these in the Go source breaks this theorem. -/
theorem facts_ok :
    Facts.C05.ridPrefix = "rId" ∧
    Facts.C05.ctKindSetters = [("comments", "setContentTypePartVMLExtensions"), ("drawings", "setContentTypePartImageExtensions")] ∧
    Facts.C05.newSheetRelFormat = "/xl/worksheets/sheet%d.xml" ∧
    Facts.C05.newSheetPartPrefix = "/xl/worksheets/sheet" ∧ Facts.C05.newSheetPartSuffix = ".xml" ∧
    Facts.C05.relsDefault.1 = "rels" ∧ Facts.C05.vmlDefault.1 = "vml" ∧
    uniqPart relWorksheet = none ∧
    Facts.C05.uniqParts.map (·.1) = [Facts.C05.relSharedStrings] := by decide +kernel

/-! ## the NewFile template -/

/-- `wf_init`: in the NewFile template (regenerated from templates.go / NewFile)
relationship ids are unique, there is one Override per part, the only sheet
resolves through its r:id to a worksheet relationship whose part is stored and
has a worksheet Override. -/
theorem wf_init :
    Spec.relsOk initBook.wbRels ∧ Spec.ctOk initBook.ct ∧
    (∀ s ∈ initBook.sheets, ∃ r ∈ initBook.wbRels, r.id = s.rid ∧ r.type = relWorksheet ∧
        worksheetPath r.target ∈ initBook.wsParts ∧
        ('/' :: worksheetPath r.target, ctWorksheet) ∈ initBook.ct.overrides) ∧
    (initBook.sheets.map (·.sheetId)).Nodup ∧ (initBook.sheets.map (·.rid)).Nodup := by
  unfold Spec.relsOk Spec.ctOk
  decide +kernel

/-! ## relationship ids: max+1 allocation -/

/-- `rid_fresh`: for ANY existing id list (numeric, non-numeric, duplicated,
signed, with leading zeros …) and a relationship type that is not a
`uniqPart` type, addRels appends exactly one relationship `rId(max+1)` whose
id differs from every existing id. Side condition: the largest numeric id is
below 2^63-1 (no overflow of Go's int). -/
theorem rid_fresh (rels : List Rel) (ty tg md : Str) (hu : uniqPart ty = none)
    (hno : maxRelNum rels 0 + 1 < 9223372036854775808) :
    addRels rels ty tg md = (rels ++ [⟨mkRid (maxRelNum rels 0 + 1), ty, tg, md⟩], maxRelNum rels 0 + 1) ∧
    ∀ r ∈ rels, r.id ≠ mkRid (maxRelNum rels 0 + 1) := by
  have h0 := le_maxRelNum rels 0
  refine ⟨?_, mkRid_fresh rels hno⟩
  unfold addRels
  rw [addRelsGo_nouniq [] 0 ty tg md rels hu, wrap64_small (by omega) hno]
  simp

/-- `wf_step_addRel`: addRels preserves uniqueness of the ids, keeps every
existing relationship, and the returned number names the new relationship. -/
theorem wf_step_addRel (rels : List Rel) (ty tg md : Str) (hu : uniqPart ty = none)
    (hno : maxRelNum rels 0 + 1 < 9223372036854775808) (hok : Spec.relsOk rels) :
    Spec.relsOk (addRels rels ty tg md).1 ∧ (∀ r ∈ rels, r ∈ (addRels rels ty tg md).1) ∧
    (⟨mkRid (addRels rels ty tg md).2, ty, tg, md⟩ : Rel) ∈ (addRels rels ty tg md).1 := by
  obtain ⟨heq, hfresh⟩ := rid_fresh rels ty tg md hu hno
  rw [heq]
  refine ⟨?_, ?_, ?_⟩
  · unfold Spec.relsOk at *
    rw [List.map_append, List.nodup_append]
    refine ⟨hok, by simp, ?_⟩
    intro a ha b hb
    simp only [List.map_cons, List.map_nil, List.mem_singleton] at hb
    obtain ⟨r, hr, rfl⟩ := List.mem_map.mp ha
    rw [hb]; exact hfresh r hr
  · intro r hr; simp [hr]
  · simp

/-- the sharedStrings relationship is unique: adding it twice only redirects
the existing one, no id is allocated (the `uniqPart` branch of addRels) -/
theorem addRel_uniq_example :
    (addRels [⟨sl "rId1", sl Facts.C05.relSharedStrings, sl "a.xml", []⟩] (sl Facts.C05.relSharedStrings) (sl "b.xml") []).1
      = [⟨sl "rId1", sl Facts.C05.relSharedStrings, sl "/xl/sharedStrings.xml", []⟩] := by decide +kernel

/-! ## deletions: the delete-while-ranging loop -/

/-- `wf_step_deleteRel`: when the ids are unique, deleteSheetRelationships
does not panic, removes exactly the relationships with that id and keeps the
ids unique. -/
theorem wf_step_deleteRel (rels : List Rel) (rid : Str) (hok : Spec.relsOk rels) :
    ∃ rels', deleteRel rels rid = .ok rels' ∧ Spec.relsOk rels' ∧ rels'.Sublist rels ∧
      (∀ r ∈ rels', r.id ≠ rid) ∧ (∀ r ∈ rels, r.id ≠ rid → r ∈ rels') := by
  unfold deleteRel
  rcases unique_split (fun r : Rel => r.id) rid (fun r => r.id == rid) (fun x hx => eq_of_beq hx) rels hok with
    h | ⟨pre, x, post, hl, hx, hpre, hpost⟩
  · refine ⟨rels, rangeDelete_nomatch _ rels h, hok, List.Sublist.refl _, ?_, fun r hr _ => hr⟩
    intro r hr heq; have := h r hr; simp [heq] at this
  · subst hl
    have hsub : (pre ++ post).Sublist (pre ++ x :: post) :=
      List.Sublist.append (List.Sublist.refl _) (List.sublist_cons_self x post)
    refine ⟨pre ++ post, rangeDelete_single _ pre x post hpre hx hpost, nodup_map_sublist _ hsub hok, hsub, ?_, ?_⟩
    · intro r hr heq
      rcases List.mem_append.mp hr with h | h
      · have := hpre r h; simp [heq] at this
      · have := hpost r h; simp [heq] at this
    · intro r hr hne
      rcases List.mem_append.mp hr with h | h
      · exact List.mem_append_left _ h
      · rcases List.mem_cons.mp h with h' | h'
        · subst h'; exact absurd (eq_of_beq hx) hne
        · exact List.mem_append_right _ h'

/-- the loop is NOT a filter when two elements match: with duplicated keys it
panics (`s[k+1:]` beyond `len(s)`) or silently keeps the second match. This is
why uniqueness of ids / part names is the invariant that matters. -/
theorem finding_rangeDelete_duplicates :
    rangeDelete (fun n : Nat => n == 7) [7, 7] = .panic ∧
    rangeDelete (fun n : Nat => n == 7) [7, 7, 1] = .ok [7, 1] ∧
    rangeDelete (fun n : Nat => n == 7) [7, 1, 7] = .panic := by decide +kernel

/-! ## content types -/

/-- `wf_step_addContentTypePart`: addContentTypePart keeps "one Override per
part name" (it looks the part name up first). -/
theorem wf_step_addContentTypePart (ct : CT) (index : Int) (kind : Str) (hok : Spec.ctOk ct) :
    Spec.ctOk (addContentTypePart ct index kind) := by
  unfold addContentTypePart Spec.ctOk at *
  dsimp only
  split
  · exact hok
  · rename_i hany
    rw [List.map_append, List.nodup_append]
    refine ⟨hok, by simp, ?_⟩
    intro a ha b hb
    simp only [List.map_cons, List.map_nil, List.mem_singleton] at hb
    obtain ⟨o, ho, rfl⟩ := List.mem_map.mp ha
    intro heq
    apply hany
    rw [List.any_eq_true]
    exact ⟨o, ho, by rw [heq, hb]; simp⟩

theorem addDefault_has (ds : List (Str × Str)) (e c : Str) : (addDefault ds e c).any (·.1 == e) = true := by
  unfold addDefault
  split
  · assumption
  · simp [List.any_append]

theorem addDefault_mono (ds : List (Str × Str)) (e c x : Str) (h : ds.any (·.1 == x) = true) :
    (addDefault ds e c).any (·.1 == x) = true := by
  unfold addDefault
  split
  · exact h
  · simp only [List.any_append, h, Bool.true_or]

theorem foldl_addDefault_mono (l : List (String × String)) (ds : List (Str × Str)) (x : Str)
    (h : ds.any (·.1 == x) = true) :
    (l.foldl (fun acc p => addDefault acc (sl p.1) (sl p.2 ++ sl p.1)) ds).any (·.1 == x) = true := by
  induction l generalizing ds with
  | nil => exact h
  | cons p ps ih => exact ih _ (addDefault_mono ds _ _ x h)

theorem foldl_addDefault_has (l : List (String × String)) (ds : List (Str × Str)) :
    ∀ p ∈ l, (l.foldl (fun acc q => addDefault acc (sl q.1) (sl q.2 ++ sl q.1)) ds).any (·.1 == sl p.1) = true := by
  induction l generalizing ds with
  | nil => intro p hp; cases hp
  | cons q qs ih =>
    intro p hp
    rcases List.mem_cons.mp hp with h | h
    · subst h
      exact foldl_addDefault_mono qs _ _ (addDefault_has ds _ _)
    · exact ih _ p h

theorem addImageDefaults_has (ds : List (Str × Str)) :
    ∀ p ∈ Facts.C05.imageDefaults, (addImageDefaults ds).any (·.1 == sl p.1) = true := by
  unfold addImageDefaults
  exact foldl_addDefault_has Facts.C05.imageDefaults ds

/-- the Default list after addContentTypePart: the kind's registrations, plus possibly `rels` -/
theorem addContentTypePart_defaults (ct : CT) (index : Int) (kind : Str) :
    (addContentTypePart ct index kind).defaults =
        (if kind == sl "comments" then addDefault ct.defaults (sl Facts.C05.vmlDefault.1) (sl Facts.C05.vmlDefault.2)
         else if kind == sl "drawings" then addImageDefaults ct.defaults else ct.defaults) ∨
    (addContentTypePart ct index kind).defaults =
        addDefault (if kind == sl "comments" then addDefault ct.defaults (sl Facts.C05.vmlDefault.1) (sl Facts.C05.vmlDefault.2)
         else if kind == sl "drawings" then addImageDefaults ct.defaults else ct.defaults)
          (sl Facts.C05.relsDefault.1) (sl Facts.C05.relsDefault.2) := by
  unfold addContentTypePart
  dsimp only
  split
  · left; rfl
  · right; rfl

/-- `addContentTypePart_registers_defaults`: whatever the state — in particular when
the Override of the part already exists (package written by another producer) —
after addContentTypePart("drawings") every image extension the drawing code may
store has a Default, and after addContentTypePart("comments") the vml extension has
one: the parts these kinds produce always have a content type. -/
theorem addContentTypePart_registers_defaults (ct : CT) (index : Int) :
    (∀ p ∈ Facts.C05.imageDefaults,
        (addContentTypePart ct index (sl "drawings")).defaults.any (·.1 == sl p.1) = true) ∧
    (addContentTypePart ct index (sl "comments")).defaults.any (·.1 == sl Facts.C05.vmlDefault.1) = true := by
  have hd : (sl "drawings" == sl "comments") = false := by decide +kernel
  have hc : (sl "comments" == sl "comments") = true := by decide +kernel
  have hdd : (sl "drawings" == sl "drawings") = true := by decide +kernel
  constructor
  · intro p hp
    have h := addImageDefaults_has ct.defaults p hp
    rcases addContentTypePart_defaults ct index (sl "drawings") with e | e <;>
      rw [e] <;> simp only [hd, hdd, Bool.false_eq_true, if_false, if_true]
    · exact h
    · exact addDefault_mono _ _ _ _ h
  · have h := addDefault_has ct.defaults (sl Facts.C05.vmlDefault.1) (sl Facts.C05.vmlDefault.2)
    rcases addContentTypePart_defaults ct index (sl "comments") with e | e <;>
      rw [e] <;> simp only [hc, if_true]
    · exact h
    · exact addDefault_mono _ _ _ _ h

/-- `wf_step_removeContentTypesPart`: with one Override per part name the
removal does not panic and keeps the invariant. -/
theorem wf_step_removeContentTypesPart (ct : CT) (ctype part : Str) (hok : Spec.ctOk ct) :
    ∃ ct', removeContentTypesPart ct ctype part = .ok ct' ∧ Spec.ctOk ct' ∧
      ct'.overrides.Sublist ct.overrides := by
  unfold removeContentTypesPart
  dsimp only
  generalize (if (sl "/").isPrefixOf part then part else sl "/xl/" ++ part) = k
  rcases unique_split (fun o : Str × Str => o.1) k (fun o => o.1 == k && o.2 == ctype)
      (fun x hx => by simp only [Bool.and_eq_true] at hx; exact eq_of_beq hx.1) ct.overrides hok with
    h | ⟨pre, x, post, hl, hx, hpre, hpost⟩
  · rw [rangeDelete_nomatch _ _ h]
    exact ⟨_, rfl, hok, List.Sublist.refl _⟩
  · rw [hl, rangeDelete_single _ pre x post hpre hx hpost]
    have hsub : (pre ++ post).Sublist ct.overrides := by
      rw [hl]; exact List.Sublist.append (List.Sublist.refl _) (List.sublist_cons_self x post)
    exact ⟨_, rfl, nodup_map_sublist _ hsub hok, by rw [← hl]; exact hsub⟩

/-- setContentTypes appends unconditionally: it keeps the invariant exactly
when the part name is new. -/
theorem wf_step_setContentTypes_partial (ct : CT) (part ctype : Str) (hok : Spec.ctOk ct)
    (hfresh : part ∉ ct.overrides.map (·.1)) : Spec.ctOk (setContentTypes ct part ctype) := by
  unfold setContentTypes Spec.ctOk at *
  rw [List.map_append, List.nodup_append]
  refine ⟨hok, by simp, ?_⟩
  intro a ha b hb
  simp only [List.map_cons, List.map_nil, List.mem_singleton] at hb
  intro heq; rw [hb] at heq; rw [heq] at ha; exact hfresh ha

/-! ## NewSheet -/

/-- every Override under the worksheet part prefix belongs to a stored worksheet part -/
def ovrBacked (b : Book) : Prop :=
  ∀ o ∈ b.ct.overrides, wsPartPrefix.isPrefixOf o.1 = true → ∃ p ∈ b.wsParts, o.1 = '/' :: p

/-- `wf_step_newSheet_general`: NewSheet on ANY numbering (sheet ids and part numbers may
disagree, as in workbooks whose sheets were re-ordered by another producer). If relationship ids
are unique, there is one Override per part and every worksheet Override has its part, then
NewSheet picks a part that did not exist (no worksheet is overwritten), and all three
properties still hold afterwards. Replaces the "no Override lingers for the picked part"
hypothesis of `wf_step_newSheet_partial` by a state invariant that `WF` checks on packages. -/
theorem wf_step_newSheet_general (b : Book) (name : Str)
    (hrel : Spec.relsOk b.wbRels) (hct : Spec.ctOk b.ct) (hback : ovrBacked b)
    (hno : maxRelNum b.wbRels 0 + 1 < 9223372036854775808)
    (hid : maxSheetId b.sheets 0 + 1 + (b.wsParts.length + 1) < 9223372036854775808)
    (hnew : (b.sheets.any fun s => eqFold s.name name) = false) :
    Spec.relsOk (newSheet b name).wbRels ∧ Spec.ctOk (newSheet b name).ct ∧ ovrBacked (newSheet b name) ∧
    (∃ p, p ∉ b.wsParts ∧ (newSheet b name).wsParts = b.wsParts ++ [p]) := by
  have hN0 := le_maxSheetId b.sheets 0
  have hw : wrap64 (maxSheetId b.sheets 0 + 1) = maxSheetId b.sheets 0 + 1 := wrap64_small (by omega) (by omega)
  have habs := freshSheetId_absent b.wsParts (b.wsParts.length + 1) (maxSheetId b.sheets 0 + 1) (by omega) (by omega) (by omega)
  have hu : uniqPart relWorksheet = none := by decide +kernel
  generalize hK : freshSheetId b.wsParts (b.wsParts.length + 1) (maxSheetId b.sheets 0 + 1) = K at habs
  have hfreshO : sheetPartAbs K ∉ b.ct.overrides.map (·.1) := by
    intro hm
    obtain ⟨o, ho, hoe⟩ := List.mem_map.mp hm
    obtain ⟨p, hp, hpe⟩ := hback o ho (by rw [hoe]; exact sheetPartAbs_prefix K)
    rw [hoe, sheetPartAbs_slash] at hpe
    exact habs (by rw [List.cons.inj hpe |>.2]; exact hp)
  have heq := addRels_eq b.wbRels relWorksheet (sheetPartAbs K) [] hu hno
  unfold newSheet
  simp only [hnew, Bool.false_eq_true, if_false, hw, hK, heq]
  refine ⟨?_, ?_, ?_, ?_⟩
  · have := (wf_step_addRel b.wbRels relWorksheet (sheetPartAbs K) [] hu hno hrel).1
    rw [heq] at this; exact this
  · exact wf_step_setContentTypes_partial b.ct _ _ hct hfreshO
  · intro o ho hpre
    show ∃ p ∈ insertSet b.wsParts (worksheetPath (sheetPartAbs K)), _
    have ho' : o ∈ b.ct.overrides ++ [(sheetPartAbs K, ctWorksheet)] := ho
    rcases List.mem_append.mp ho' with h1 | h1
    · obtain ⟨p, hp, hpe⟩ := hback o h1 hpre
      exact ⟨p, (mem_insertSet _ _ _).mpr (Or.inl hp), hpe⟩
    · simp only [List.mem_singleton] at h1
      refine ⟨sheetPath K, (mem_insertSet _ _ _).mpr (Or.inr rfl), ?_⟩
      rw [h1]; exact sheetPartAbs_slash K
  · refine ⟨sheetPath K, habs, ?_⟩
    show insertSet b.wsParts (worksheetPath (sheetPartAbs K)) = _
    unfold insertSet
    have : b.wsParts.contains (worksheetPath (sheetPartAbs K)) = false := by
      cases hc : b.wsParts.contains (worksheetPath (sheetPartAbs K)) with
      | false => rfl
      | true => exact absurd (List.contains_iff_mem.mp hc) habs
    rw [if_neg (by rw [this]; simp)]
    rfl

/-- a workbook whose sheetIds and part numbers disagree (sheets re-ordered in Excel: sheetId 1
is stored in sheet2.xml) -/
def reorderedBook : Book :=
  { ct := { defaults := [], overrides := [(sl "/xl/worksheets/sheet2.xml", ctWorksheet)] },
    wbRels := [⟨sl "rId2", relWorksheet, sl "worksheets/sheet2.xml", []⟩],
    sheets := [⟨sl "Sheet2", 1, sl "rId2"⟩],
    wsParts := [sl "xl/worksheets/sheet2.xml"], sheetCount := 1 }

/-- regression of the former finding (witness `reordered-delete-new`): NewSheet on such a
workbook no longer registers a second Override for /xl/worksheets/sheet2.xml nor makes two
sheets share one part — it skips id 2, whose part exists, and takes id 3. -/
theorem newsheet_reordered_no_collision :
    ((newSheet reorderedBook (sl "New")).ct.overrides.map (·.1)).Nodup ∧
    ((newSheet reorderedBook (sl "New")).wbRels.map fun r => worksheetPath r.target)
      = [sl "xl/worksheets/sheet2.xml", sl "xl/worksheets/sheet3.xml"] ∧
    (newSheet reorderedBook (sl "New")).sheets.map (·.sheetId) = [1, 3] := by decide +kernel

/-! ## histories -/

/-- the modelled operation classes on one relationships part and the content types -/
inductive Op where
  | addRel (ty tg md : Str)
  | deleteRel (rid : Str)
  | addContentTypePart (index : Int) (kind : Str)
  | removeContentTypesPart (ctype part : Str)

def stepOp (s : List Rel × CT) : Op → Out (List Rel × CT)
  | .addRel ty tg md => .ok ((addRels s.1 ty tg md).1, s.2)
  | .deleteRel rid => (deleteRel s.1 rid).bind fun r => .ok (r, s.2)
  | .addContentTypePart i k => .ok (s.1, addContentTypePart s.2 i k)
  | .removeContentTypesPart c p => (removeContentTypesPart s.2 c p).bind fun ct => .ok (s.1, ct)

def runOps (s : List Rel × CT) : List Op → Out (List Rel × CT)
  | [] => .ok s
  | o :: os => (stepOp s o).bind fun s' => runOps s' os

def opOk : Op → Prop
  | .addRel ty _ _ => uniqPart ty = none
  | _ => True

theorem maxRelNum_sublist {l l' : List Rel} (h : l'.Sublist l) (m : Int) : maxRelNum l' m ≤ maxRelNum l m := by
  induction h generalizing m with
  | slnil => simp [maxRelNum]
  | cons a _ ih =>
    simp only [maxRelNum]
    refine Int.le_trans (ih m) ?_
    exact maxRelNum_mono _ (by split <;> omega)
  | cons_cons a _ ih => simp only [maxRelNum]; exact ih _

/-- `wf_reachable`: along every history of modelled operations (any length, any
arguments; relationship types not in `uniqPart`; no int overflow of the ids)
no operation panics and both invariants hold at the end. -/
theorem wf_reachable (ops : List Op) (s : List Rel × CT)
    (hrel : Spec.relsOk s.1) (hct : Spec.ctOk s.2) (hops : ∀ o ∈ ops, opOk o)
    (hno : maxRelNum s.1 0 + ops.length < 9223372036854775808) :
    ∃ s', runOps s ops = .ok s' ∧ Spec.relsOk s'.1 ∧ Spec.ctOk s'.2 := by
  induction ops generalizing s with
  | nil => exact ⟨s, rfl, hrel, hct⟩
  | cons o os ih =>
    have hlen : (o :: os).length = os.length + 1 := rfl
    rw [hlen] at hno
    cases o with
    | addRel ty tg md =>
      have hu : uniqPart ty = none := hops (Op.addRel ty tg md) (by simp)
      have hno1 : maxRelNum s.1 0 + 1 < 9223372036854775808 := by omega
      obtain ⟨heq, _⟩ := rid_fresh s.1 ty tg md hu hno1
      have hstep := (wf_step_addRel s.1 ty tg md hu hno1 hrel).1
      have hmax : maxRelNum (addRels s.1 ty tg md).1 0 ≤ maxRelNum s.1 0 + 1 := by
        rw [heq]; exact maxRelNum_append_new s.1 ty tg md hno1
      simp only [runOps, stepOp, Out.bind]
      exact ih ((addRels s.1 ty tg md).1, s.2) hstep hct (fun o ho => hops o (by simp [ho])) (by simp only; omega)
    | deleteRel rid =>
      obtain ⟨r', hd, hok', hsub, _, _⟩ := wf_step_deleteRel s.1 rid hrel
      simp only [runOps, stepOp, hd, Out.bind]
      have := maxRelNum_sublist hsub 0
      exact ih (r', s.2) hok' hct (fun o ho => hops o (by simp [ho])) (by simp only; omega)
    | addContentTypePart i k =>
      simp only [runOps, stepOp, Out.bind]
      exact ih (s.1, addContentTypePart s.2 i k) hrel (wf_step_addContentTypePart s.2 i k hct)
        (fun o ho => hops o (by simp [ho])) (by simp only; omega)
    | removeContentTypesPart c p =>
      obtain ⟨ct', hd, hok', _⟩ := wf_step_removeContentTypesPart s.2 c p hct
      simp only [runOps, stepOp, hd, Out.bind]
      exact ih (s.1, ct') hrel hok' (fun o ho => hops o (by simp [ho])) (by simp only; omega)

/-! ## rows and cells -/

/-- `rows_cells_ascending_after_trim`: for every dense sheet (slot i holds row
i+1, the cells of a row carry its number in strictly ascending columns) the
rows written by trimRow are strictly ascending and so are the cells of each
row, whichever way the slot counter of trimRow is written. -/
theorem rows_cells_ascending_after_trim (rows : List Row) (h : Spec.denseFrom 1 rows) :
    Spec.rowsOk (trimRow rows) :=
  (trim_dense Facts.C05.trimRowKeepsEmptyRows rows 1 h).1

/-- non-vacuity: a dense sheet with a valued, an empty and an attribute-only row -/
example : Spec.denseFrom 1 [⟨1, false, [⟨1, 1, false⟩, ⟨2, 1, true⟩]⟩, ⟨2, false, [⟨1, 2, false⟩]⟩, ⟨3, true, []⟩] := by
  simp [Spec.denseFrom]

/-- non-vacuity of `wf_reachable`: the template state satisfies its hypotheses -/
example : Spec.relsOk initBook.wbRels ∧ Spec.ctOk initBook.ct ∧ maxRelNum initBook.wbRels 0 = 3 := by
  unfold Spec.relsOk Spec.ctOk
  decide +kernel

/-! ## sheets ↔ relationships ↔ parts ↔ Overrides -/

/-- the regenerated facts of the deepening round: the filter of deleteCalcChain is the one the
model transcribes -/
theorem facts_ok2 :
    Facts.C05.deleteCalcChainFilter =
      "!((c.I == index && c.R == cell) || (c.I == index && cell == \"\") || (c.I == 0 && c.R == cell))" := by
  decide +kernel

/-- `wf_init_book`: the NewFile template satisfies the whole correspondence `BookOk` -/
theorem wf_init_book : BookOk initBook := by
  have hs : initBook.sheets = [⟨sl "Sheet1", 1, sl "rId1"⟩] := by decide +kernel
  have hp : initBook.wsParts = [sheetPath 1] := by decide +kernel
  refine
    { rels := wf_init.1, ct := wf_init.2.1, names := ?_, ids := wf_init.2.2.2.1, idrange := ?_,
      rids := wf_init.2.2.2.2, sheetRel := ?_, relSheet := ?_, parts := ?_, ovrSheet := ?_, sheetOvr := ?_ }
  · rw [hs]; simp
  · rw [hs]; intro s hs'; simp only [List.mem_singleton] at hs'; subst hs'; decide
  · decide +kernel
  · decide +kernel
  · intro p; rw [hp, hs]; simp
  · decide +kernel
  · decide +kernel

/-- `sheet_parts_bijective`: under `BookOk` every workbook sheet resolves through its r:id to a
worksheet relationship whose part is stored and has a worksheet Override; different sheets have
different parts; every stored worksheet part and every worksheet relationship belongs to
exactly one sheet. -/
theorem sheet_parts_bijective (b : Book) (h : BookOk b) :
    (∀ s ∈ b.sheets, ∃ r ∈ b.wbRels, r.id = s.rid ∧ r.type = relWorksheet ∧
        worksheetPath r.target ∈ b.wsParts ∧ ('/' :: worksheetPath r.target, ctWorksheet) ∈ b.ct.overrides) ∧
    (∀ s1 ∈ b.sheets, ∀ s2 ∈ b.sheets, sheetPath s1.sheetId = sheetPath s2.sheetId → s1 = s2) ∧
    (∀ p ∈ b.wsParts, ∃ s ∈ b.sheets, p = sheetPath s.sheetId) ∧
    (∀ r ∈ b.wbRels, r.type = relWorksheet → ∃ s ∈ b.sheets, s.rid = r.id) := by
  refine ⟨?_, ?_, fun p hp => (h.parts p).mp hp, h.relSheet⟩
  · intro s hs
    obtain ⟨r, hr, h1, h2, h3⟩ := h.sheetRel s hs
    refine ⟨r, hr, h1, h2, ?_, ?_⟩
    · rw [h3]; exact (h.parts _).mpr ⟨s, hs, rfl⟩
    · rw [h3, ← sheetPartAbs_slash]; exact h.sheetOvr s hs
  · intro s1 h1 s2 h2 he
    have r1 := h.idrange s1 h1
    have r2 := h.idrange s2 h2
    have := sheetPath_inj r1.1 (by omega) r2.1 (by omega) he
    exact nodup_key_eq (fun s : SheetEnt => s.sheetId) b.sheets h.ids s1 s2 h1 h2 this

/-- `wf_step_newSheet`: for a workbook numbered like the library numbers it (`BookOk`) NewSheet
needs no freshness hypothesis: the part name derived from max(sheetId)+1 is new. (For workbooks
whose part numbers differ from the sheet ids see `finding_newsheet_part_collision`.) -/
theorem wf_step_newSheet (b : Book) (name : Str) (h : BookOk b)
    (hno : maxRelNum b.wbRels 0 + 1 < 9223372036854775808)
    (hid : maxSheetId b.sheets 0 + 1 < 9223372036854775807) : BookOk (newSheet b name) :=
  newSheet_ok b name h hno hid

/-- `wf_step_deleteSheet`: DeleteSheet (as it is after the fix rounds) does not panic and keeps
the correspondence: the sheet, its workbook relationship, its part and its Override go together. -/
theorem wf_step_deleteSheet (b : Book) (name : Str) (h : BookOk b) :
    ∃ b', deleteSheet b name = .ok b' ∧ BookOk b' := by
  obtain ⟨b', h1, h2, _⟩ := deleteSheet_ok b name h
  exact ⟨b', h1, h2⟩

/-- `wf_step_copySheet`: the relationships CopySheet gives the copy are unique by id, each is a
relationship of the source (so every r:id of the copied worksheet resolves exactly as in the
source), and none is a drawing or table relationship. -/
theorem wf_step_copySheet (src : List Rel) (h : relsOk src) :
    relsOk (copyRels src) ∧ (∀ r ∈ copyRels src, r ∈ src) ∧
    (∀ r ∈ copyRels src, r.type ≠ sl Facts.C05.relDrawing ∧ r.type ≠ sl Facts.C05.relTable) ∧
    (∀ r ∈ src, r.type ≠ sl Facts.C05.relDrawing → r.type ≠ sl Facts.C05.relTable → r ∈ copyRels src) := by
  unfold copyRels
  refine ⟨nodup_map_sublist _ List.filter_sublist h, fun r hr => (List.mem_filter.mp hr).1, ?_, ?_⟩
  · intro r hr
    have := (List.mem_filter.mp hr).2
    simp only [Bool.and_eq_true, bne_iff_ne, ne_eq] at this
    exact this
  · intro r hr h1 h2
    exact List.mem_filter.mpr ⟨hr, by simp [h1, h2]⟩

inductive BookOp where
  | newSheet (name : Str)
  | deleteSheet (name : Str)

def runBook (b : Book) : List BookOp → Out Book
  | [] => .ok b
  | .newSheet n :: os => runBook (newSheet b n) os
  | .deleteSheet n :: os => (deleteSheet b n).bind fun b' => runBook b' os

/-- `wf_reachable_book`: along every history of NewSheet / DeleteSheet calls (any names, any
length, no int overflow of ids) from a `BookOk` workbook — in particular from NewFile — nothing
panics and the sheet ↔ relationship ↔ part ↔ Override correspondence holds at the end. -/
theorem wf_reachable_book (ops : List BookOp) (b : Book) (h : BookOk b)
    (hno : maxRelNum b.wbRels 0 + ops.length < 9223372036854775808)
    (hid : maxSheetId b.sheets 0 + ops.length < 9223372036854775807) :
    ∃ b', runBook b ops = .ok b' ∧ BookOk b' := by
  induction ops generalizing b with
  | nil => exact ⟨b, rfl, h⟩
  | cons o os ih =>
    have hlen : (o :: os).length = os.length + 1 := rfl
    rw [hlen] at hno hid
    cases o with
    | newSheet n =>
      have hb := newSheet_bounds b n h (by omega) (by omega)
      simp only [runBook]
      exact ih (newSheet b n) (newSheet_ok b n h (by omega) (by omega)) (by omega) (by omega)
    | deleteSheet n =>
      obtain ⟨b', hd, hok, hs1, hs2⟩ := deleteSheet_ok b n h
      simp only [runBook, hd, Out.bind]
      have := maxSheetId_sublist hs1 0
      have := maxRelNum_sublist' hs2 0
      exact ih b' hok (by omega) (by omega)

/-- the whole modelled class list: sheet operations on the workbook, part bookkeeping
(addPart(kind) = relationship on the owning sheet + content-type registration; deletion of a
table / picture / comment part = relationship removal + Override removal) and CopySheet's
relationship copy. `srels` is the relationship list of one worksheet. -/
inductive AllOp where
  | newSheet (name : Str)
  | deleteSheet (name : Str)
  | addRel (ty tg md : Str)
  | deleteRel (rid : Str)
  | addContentTypePart (index : Int) (kind : Str)
  | removeContentTypesPart (ctype part : Str)
  | copyRels

def stepAll (s : Book × List Rel) : AllOp → Out (Book × List Rel)
  | .newSheet n => .ok (newSheet s.1 n, s.2)
  | .deleteSheet n => (deleteSheet s.1 n).bind fun b' => .ok (b', s.2)
  | .addRel ty tg md => .ok (s.1, (addRels s.2 ty tg md).1)
  | .deleteRel rid => (deleteRel s.2 rid).bind fun r => .ok (s.1, r)
  | .addContentTypePart i k => .ok ({ s.1 with ct := addContentTypePart s.1.ct i k }, s.2)
  | .removeContentTypesPart c p => (removeContentTypesPart s.1.ct c p).bind fun ct => .ok ({ s.1 with ct := ct }, s.2)
  | .copyRels => .ok (s.1, copyRels s.2)

def runAll (s : Book × List Rel) : List AllOp → Out (Book × List Rel)
  | [] => .ok s
  | o :: os => (stepAll s o).bind fun s' => runAll s' os

def allOpOk : AllOp → Prop
  | .addRel ty _ _ => uniqPart ty = none
  | .removeContentTypesPart c _ => c ≠ ctWorksheet
  | _ => True

theorem maxRelNum_filter_le (l : List Rel) (p : Rel → Bool) (m : Int) : maxRelNum (l.filter p) m ≤ maxRelNum l m :=
  maxRelNum_sublist' List.filter_sublist m

/-- `wf_reachable_all`: ONE induction over histories of the whole modelled class list — NewSheet,
DeleteSheet, addRels / deleteSheetRelationships on a worksheet's relationships,
addContentTypePart for every kind (tables, drawings, media defaults, comments, vml, charts,
pivots, slicers …), removeContentTypesPart for every non-worksheet content type, CopySheet's
relationship copy — from a `BookOk` workbook and a unique-id relationship list: nothing panics,
and at the end the workbook is `BookOk` (hence `sheet_parts_bijective`, unique relationship ids,
one Override per part) and the worksheet's relationship ids are unique. -/
theorem wf_reachable_all (ops : List AllOp) (s : Book × List Rel)
    (h : BookOk s.1) (hr : relsOk s.2) (hops : ∀ o ∈ ops, allOpOk o)
    (hno : maxRelNum s.1.wbRels 0 + ops.length < 9223372036854775808)
    (hid : maxSheetId s.1.sheets 0 + ops.length < 9223372036854775807)
    (hsr : maxRelNum s.2 0 + ops.length < 9223372036854775808) :
    ∃ s', runAll s ops = .ok s' ∧ BookOk s'.1 ∧ relsOk s'.2 := by
  induction ops generalizing s with
  | nil => exact ⟨s, rfl, h, hr⟩
  | cons o os ih =>
    have hlen : (o :: os).length = os.length + 1 := rfl
    rw [hlen] at hno hid hsr
    have hrest : ∀ o' ∈ os, allOpOk o' := fun o' ho' => hops o' (by simp [ho'])
    cases o with
    | newSheet n =>
      have hb := newSheet_bounds s.1 n h (by omega) (by omega)
      simp only [runAll, stepAll, Out.bind]
      exact ih (newSheet s.1 n, s.2) (newSheet_ok s.1 n h (by omega) (by omega)) hr hrest (by simp only; omega) (by simp only; omega) (by simp only; omega)
    | deleteSheet n =>
      obtain ⟨b', hd, hok, hs1, hs2⟩ := deleteSheet_ok s.1 n h
      simp only [runAll, stepAll, hd, Out.bind]
      have := maxSheetId_sublist hs1 0
      have := maxRelNum_sublist' hs2 0
      exact ih (b', s.2) hok hr hrest (by simp only; omega) (by simp only; omega) (by simp only; omega)
    | addRel ty tg md =>
      have hu : uniqPart ty = none := hops (AllOp.addRel ty tg md) (by simp)
      have hno1 : maxRelNum s.2 0 + 1 < 9223372036854775808 := by omega
      obtain ⟨heq, _⟩ := rid_fresh s.2 ty tg md hu hno1
      have hstep := (wf_step_addRel s.2 ty tg md hu hno1 hr).1
      have hmax : maxRelNum (addRels s.2 ty tg md).1 0 ≤ maxRelNum s.2 0 + 1 := by
        rw [heq]; exact maxRelNum_append_new s.2 ty tg md hno1
      simp only [runAll, stepAll, Out.bind]
      exact ih (s.1, (addRels s.2 ty tg md).1) h hstep hrest (by simp only; omega) (by simp only; omega) (by simp only; omega)
    | deleteRel rid =>
      obtain ⟨r', hd, hok', hsub, _, _⟩ := wf_step_deleteRel s.2 rid hr
      simp only [runAll, stepAll, hd, Out.bind]
      have := maxRelNum_sublist' hsub 0
      exact ih (s.1, r') h hok' hrest (by simp only; omega) (by simp only; omega) (by simp only; omega)
    | addContentTypePart i k =>
      simp only [runAll, stepAll, Out.bind]
      exact ih (_, s.2) (addCT_ok s.1 i k h (wf_step_addContentTypePart s.1.ct i k h.ct)) hr hrest
        (by simp only; omega) (by simp only; omega) (by simp only; omega)
    | removeContentTypesPart c p =>
      have hne : c ≠ ctWorksheet := hops (AllOp.removeContentTypesPart c p) (by simp)
      obtain ⟨ct', hd, hok'⟩ := removeCT_ok s.1 c p h hne
      simp only [runAll, stepAll, hd, Out.bind]
      exact ih (_, s.2) hok' hr hrest (by simp only; omega) (by simp only; omega) (by simp only; omega)
    | copyRels =>
      simp only [runAll, stepAll, Out.bind]
      have := maxRelNum_filter_le s.2 (fun r => r.type != sl Facts.C05.relDrawing && r.type != sl Facts.C05.relTable) 0
      exact ih (s.1, copyRels s.2) h (wf_step_copySheet s.2 hr).1 hrest (by simp only; omega) (by simp only; omega)
        (by simp only [copyRels]; omega)

/-- non-vacuity: the template satisfies the hypotheses of `wf_reachable_book` -/
example : BookOk initBook ∧ maxRelNum initBook.wbRels 0 = 3 ∧ maxSheetId initBook.sheets 0 = 1 :=
  ⟨wf_init_book, by decide +kernel, by decide +kernel⟩

/-- `dname_localsheet_in_range`: along every history of the sheet-collection model of C16
(`XlModel.Sheets`: NewSheet, DeleteSheet with deleteAndAdjustDefinedNames, CopySheet, MoveSheet,
SetDefinedName …, tied to the code by C16's own correspondence) every localSheetId of a defined
name is an index into the sheet list. Re-exported: it is the `dname-localsheet` conjunct of `WF`. -/
theorem dname_localsheet_in_range (ops : List XlModel.Sheets.Op) :
    ∀ d ∈ (XlModel.Sheets.run XlModel.Sheets.init ops).defs, ∀ l, d.loc = some l →
      l < (XlModel.Sheets.run XlModel.Sheets.init ops).sheets.length :=
  XlModel.Props.C16.scoped_names_in_range ops

/-! ## calcChain -/

/-- `calcchain_subset_formulas`: deleteCalcChain only removes entries, so a calcChain that is a
subset of the formula cells stays one; after the deletion for sheet id `sid` with an empty cell
(what DeleteSheet does with the id of the deleted sheet) no entry of that sheet is left, and after
the deletion for one cell (what overwriting a formula does) no entry of that sheet and cell is left. -/
theorem calcchain_subset_formulas (cc : List CalcEnt) (sid : Int) (cell : Str) :
    (∀ c ∈ deleteCalcChain cc sid cell, c ∈ cc) ∧
    (∀ c ∈ deleteCalcChain cc sid [], c.i ≠ sid) ∧
    (∀ c ∈ deleteCalcChain cc sid cell, ¬ (c.i = sid ∧ c.r = cell)) ∧
    (∀ (formulas : CalcEnt → Prop), (∀ c ∈ cc, formulas c) → ∀ c ∈ deleteCalcChain cc sid cell, formulas c) := by
  unfold deleteCalcChain
  refine ⟨fun c hc => (List.mem_filter.mp hc).1, ?_, ?_, fun F hF c hc => hF c (List.mem_filter.mp hc).1⟩
  · intro c hc he
    have := (List.mem_filter.mp hc).2
    simp [he] at this
  · intro c hc he
    have := (List.mem_filter.mp hc).2
    simp [he.1, he.2] at this

/-- `calcchain_follows_adjust`: InsertRows / InsertCols / RemoveRow / RemoveCol keep the calcChain
inside the formula cells: if every chain entry of the edited sheet names a formula cell, then
after adjustCalcChain every remaining entry of that sheet names the position that formula cell
has moved to (`shiftCellPos`, the grid shift), and entries of other sheets are unchanged. Holds
because the comparison of adjustCalcChain is inclusive (regenerated fact) — the seeded change
C05d/1 (`<` for `<=`) flips the fact and breaks this theorem. -/
theorem calcchain_follows_adjust (dir : Dir) (num : Nat) (offset : Int) (sid : Int)
    (cc : List CalcPos) (formulas : List (Nat × Nat))
    (h : ∀ e ∈ cc, e.i = sid → (e.col, e.row) ∈ formulas) :
    ∀ e' ∈ adjustCalcChain dir num offset sid cc,
      (e'.i = sid → (e'.col, e'.row) ∈ formulas.filterMap (shiftCellPos dir num offset)) ∧
      (e'.i ≠ sid → e' ∈ cc) := by
  have hf : Facts.C05.calcChainShiftInclusive = true := by decide
  intro e' he'
  unfold adjustCalcChain at he'
  obtain ⟨e, he, hm⟩ := List.mem_filterMap.mp he'
  unfold adjustCalcEntry at hm
  by_cases hi : e.i = sid
  · have hmem := h e he hi
    simp only [hi, bne_self_eq_false, Bool.false_eq_true, if_false, hf, if_true] at hm
    constructor
    · intro _
      rw [List.mem_filterMap]
      refine ⟨(e.col, e.row), hmem, ?_⟩
      unfold shiftCellPos
      cases dir <;> simp only at hm ⊢ <;> split at hm <;> rename_i hhit <;> simp only [hhit, if_true, if_false] <;>
        (first
          | (split at hm <;> rename_i hdel <;> simp only [hdel, if_true, if_false] <;>
              (cases hm <;> simp))
          | (cases hm <;> simp))
    · intro hne
      exfalso
      apply hne
      cases dir <;> simp only at hm <;> (repeat' split at hm) <;> (cases hm <;> first | exact hi | rfl)
  · have hb : (e.i != sid) = true := by simp [hi]
    simp only [hb, if_true] at hm
    cases hm
    exact ⟨fun h' => absurd h' hi, fun _ => he⟩

/-- every chain entry carries an explicit sheet id and names a formula cell of that sheet -/
def chainOkC (s : ChainState) : Prop := ∀ e ∈ s.chain, e.i ≠ 0 ∧ (e.i, e.col, e.row) ∈ s.formulas

inductive CellOp where
  | setValue (sid : Int) (c r : Nat)
  | setFormula (sid : Int) (c r : Nat) (empty : Bool)

def stepCell (s : ChainState) : CellOp → ChainState
  | .setValue sid c r => setCellValueC s sid c r
  | .setFormula sid c r e => setCellFormulaC s sid c r e

theorem dropChainAt_spec (cc : List CalcPos) (sid : Int) (c r : Nat) :
    ∀ e ∈ dropChainAt cc sid c r, e ∈ cc ∧ ¬ (e.i = sid ∧ e.col = c ∧ e.row = r) := by
  intro e he
  unfold dropChainAt at he
  obtain ⟨h1, h2⟩ := List.mem_filter.mp he
  refine ⟨h1, ?_⟩
  intro ⟨a, b, d⟩
  simp [a, b, d] at h2

/-- `calcchain_across_setters`: on a workbook whose calcChain names only formula cells, every
history of SetCellValue-like setters and SetCellFormula (empty or not, on chained cells or
elsewhere, on any sheet) keeps it so: overwriting a chained formula removes its entry together
with the formula, nothing else touches the chain. -/
theorem calcchain_across_setters (ops : List CellOp) (s : ChainState) (h : chainOkC s) :
    chainOkC (ops.foldl stepCell s) := by
  induction ops generalizing s with
  | nil => exact h
  | cons o os ih =>
    apply ih
    have drop : ∀ sid c r, chainOkC { formulas := s.formulas.filter (· != (sid, c, r)), chain := dropChainAt s.chain sid c r } := by
      intro sid c r e he
      obtain ⟨hm, hne⟩ := dropChainAt_spec s.chain sid c r e he
      obtain ⟨h0, hf⟩ := h e hm
      refine ⟨h0, List.mem_filter.mpr ⟨hf, ?_⟩⟩
      simp only [bne_iff_ne, ne_eq, Prod.mk.injEq, not_and]
      intro a b d; exact hne ⟨a, b, d⟩
    cases o with
    | setValue sid c r =>
      simp only [stepCell, setCellValueC]
      split
      · exact drop sid c r
      · exact h
    | setFormula sid c r e =>
      simp only [stepCell, setCellFormulaC]
      split
      · exact drop sid c r
      · intro x hx
        obtain ⟨h0, hf⟩ := h x hx
        refine ⟨h0, ?_⟩
        show _ ∈ (if s.formulas.contains (sid, c, r) then s.formulas else s.formulas ++ [(sid, c, r)])
        split
        · exact hf
        · exact List.mem_append_left _ hf

/-! ## pictures sharing a media part -/

/-- inside one drawing no two image relationships have the same target -/
def picTargetsOk (own : List Rel) (imgType : Str) : Prop :=
  ∀ a ∈ own, ∀ b ∈ own, a.type = imgType → b.type = imgType → a.target = b.target → a.id = b.id

/-- `addpic_reuses_relationship`: adding a picture keeps "one image relationship per target"
inside the drawing (an existing one is reused — regenerated fact; the seeded change C05d/2,
always addRels, flips the fact and breaks this theorem). -/
theorem addpic_reuses_relationship (own : List Rel) (imgType target : Str)
    (hu : uniqPart imgType = none) (hno : maxRelNum own 0 + 1 < 9223372036854775808)
    (h : picTargetsOk own imgType) : picTargetsOk (addPicRel own imgType target).1 imgType := by
  have hf : Facts.C05.pictureRelReused = true := by decide
  unfold addPicRel
  simp only [hf, if_true]
  cases hfind : own.find? (fun r => r.type == imgType && r.target == target) with
  | some r => exact h
  | none =>
    simp only
    rw [addRels_eq own imgType target [] hu hno]
    have hnone : ∀ x ∈ own, ¬ (x.type = imgType ∧ x.target = target) := by
      intro x hx hc
      have := List.find?_eq_none.mp hfind x hx
      simp [hc.1, hc.2] at this
    intro a ha b hb hta htb hab
    simp only [List.mem_append, List.mem_singleton] at ha hb
    rcases ha with ha | ha <;> rcases hb with hb | hb
    · exact h a ha b hb hta htb hab
    · subst hb; exact absurd ⟨hta, hab⟩ (hnone a ha)
    · subst ha; exact absurd ⟨htb, hab.symm⟩ (hnone b hb)
    · rw [ha, hb]

/-- `delpic_keeps_referenced_media`: with one image relationship per target inside the drawing
(the removed id being a picture's image relationship), DeletePicture never removes a media part that a remaining image relationship —
of this drawing or of any other relationships part — still targets. -/
theorem delpic_keeps_referenced_media (own others : List Rel) (media : List Str) (imgType rid : Str)
    (h : picTargetsOk own imgType) (himg : ∀ r ∈ own, r.id = rid → r.type = imgType) :
    ∀ x ∈ (deletePicRel own others media imgType rid).1 ++ others, x.type = imgType →
      x.target ∈ media → x.target ∈ (deletePicRel own others media imgType rid).2 := by
  intro x hx hty hmem
  unfold deletePicRel at hx ⊢
  cases hfind : own.find? (fun r => r.id == rid) with
  | none => simpa [hfind] using hmem
  | some r =>
    simp only [hfind] at hx ⊢
    have hr : r ∈ own := List.mem_of_find?_eq_some hfind
    have hrid : r.id = rid := eq_of_beq (List.find?_some (p := fun r : Rel => r.id == rid) hfind)
    by_cases hused : (others.any fun o => o.type == imgType && o.target == r.target) = true
    · simp only [hused, if_true]; exact hmem
    · simp only [hused, Bool.false_eq_true, if_false]
      rw [List.mem_filter]
      refine ⟨hmem, ?_⟩
      simp only [bne_iff_ne, ne_eq]
      intro heq
      rcases List.mem_append.mp hx with hx | hx
      · -- a remaining relationship of the drawing with the same target: impossible
        obtain ⟨hxo, hne⟩ := List.mem_filter.mp hx
        simp only [bne_iff_ne, ne_eq] at hne
        exact hne (by rw [h x hxo r hr hty (himg r hr hrid) heq, hrid])
      · apply hused
        rw [List.any_eq_true]
        exact ⟨x, hx, by simp [hty, heq]⟩

/-! ## reference closure: drawing ↔ chart ↔ media ↔ VML ↔ tables … -/

/-- every relationship joins two existing parts, every used id has a relationship in its part
(the `rel-target` and `rid-resolves` conjuncts of `WF`, as a state invariant) -/
def closedG (g : RefG) : Prop :=
  (∀ r ∈ g.rels, r.1 ∈ g.parts ∧ r.2.2 ∈ g.parts) ∧
  (∀ u ∈ g.uses, u.1 ∈ g.parts ∧ ∃ t, (u.1, u.2, t) ∈ g.rels)

theorem closed_addPart (g : RefG) (p : Str) (h : closedG g) : closedG (g.addPart p) := by
  refine ⟨fun r hr => ?_, fun u hu => ?_⟩
  · obtain ⟨a, b⟩ := h.1 r hr
    exact ⟨List.mem_append_left _ a, List.mem_append_left _ b⟩
  · obtain ⟨a, b⟩ := h.2 u hu
    exact ⟨List.mem_append_left _ a, b⟩

theorem closed_addRel (g : RefG) (s i t : Str) (h : closedG g) (hs : s ∈ g.parts) (ht : t ∈ g.parts) :
    closedG (g.addRel s i t) := by
  refine ⟨fun r hr => ?_, fun u hu => ?_⟩
  · rcases List.mem_append.mp hr with hr | hr
    · exact h.1 r hr
    · simp only [List.mem_singleton] at hr; subst hr; exact ⟨hs, ht⟩
  · obtain ⟨a, t', b⟩ := h.2 u hu
    exact ⟨a, t', List.mem_append_left _ b⟩

theorem closed_addUse (g : RefG) (p i t : Str) (h : closedG g) (hp : p ∈ g.parts) (hr : (p, i, t) ∈ g.rels) :
    closedG (g.addUse p i) := by
  refine ⟨h.1, fun u hu => ?_⟩
  rcases List.mem_append.mp hu with hu | hu
  · exact h.2 u hu
  · simp only [List.mem_singleton] at hu; subst hu; exact ⟨hp, t, hr⟩

theorem closed_dropUse (g : RefG) (p i : Str) (h : closedG g) : closedG (g.dropUse p i) :=
  ⟨h.1, fun u hu => h.2 u (List.mem_of_mem_erase hu)⟩

/-- a relationship may go once nothing in its source part uses its id any more -/
theorem closed_dropRel (g : RefG) (s i : Str) (h : closedG g) (hun : (s, i) ∉ g.uses) :
    closedG (g.dropRel s i) := by
  refine ⟨fun r hr => h.1 r (List.mem_filter.mp hr).1, fun u hu => ?_⟩
  obtain ⟨a, t, b⟩ := h.2 u hu
  refine ⟨a, t, List.mem_filter.mpr ⟨b, ?_⟩⟩
  cases hc : ((u.1 == s) && (u.2 == i)) with
  | false => simpa using hc
  | true =>
    exfalso
    simp only [Bool.and_eq_true] at hc
    apply hun
    have : u = (s, i) := by
      cases u; simp only at hc; rw [eq_of_beq hc.1, eq_of_beq hc.2]
    rw [← this]; exact hu

/-- a part may go once no relationship starts or ends at it and nothing in it uses an id -/
theorem closed_dropPart (g : RefG) (p : Str) (h : closedG g)
    (hr : ∀ r ∈ g.rels, r.1 ≠ p ∧ r.2.2 ≠ p) (hu : ∀ u ∈ g.uses, u.1 ≠ p) : closedG (g.dropPart p) := by
  refine ⟨fun r hr' => ?_, fun u hu' => ?_⟩
  · obtain ⟨a, b⟩ := h.1 r hr'
    exact ⟨List.mem_filter.mpr ⟨a, by simpa using (hr r hr').1⟩, List.mem_filter.mpr ⟨b, by simpa using (hr r hr').2⟩⟩
  · obtain ⟨a, t, b⟩ := h.2 u hu'
    exact ⟨List.mem_filter.mpr ⟨a, by simpa using hu u hu'⟩, t, b⟩

/-- `closure_add_object`: adding an object of any kind (chart, shape, picture, comment, form
control, slicer: container linked from the worksheet on first use, leaf part linked from the
container) keeps the reference closure. -/
theorem closure_add_object (g : RefG) (sheet container leaf ridS ridC : Str) (first newLeaf : Bool)
    (h : closedG g) (hsheet : sheet ∈ g.parts)
    (hcont : first = false → container ∈ g.parts) (hleaf : newLeaf = false → leaf ∈ g.parts) :
    closedG (g.addObject sheet container leaf ridS ridC first newLeaf) := by
  unfold RefG.addObject
  dsimp only
  -- step 1: the container
  have h1 : closedG (if first then ((g.addPart container).addRel sheet ridS container).addUse sheet ridS else g) ∧
      container ∈ (if first then ((g.addPart container).addRel sheet ridS container).addUse sheet ridS else g).parts ∧
      (∀ x ∈ g.parts, x ∈ (if first then ((g.addPart container).addRel sheet ridS container).addUse sheet ridS else g).parts) := by
    cases first with
    | false => exact ⟨h, hcont rfl, fun x hx => hx⟩
    | true =>
      have a := closed_addPart g container h
      have hs' : sheet ∈ (g.addPart container).parts := List.mem_append_left _ hsheet
      have hc' : container ∈ (g.addPart container).parts := List.mem_append_right _ (List.mem_singleton.mpr rfl)
      have b := closed_addRel (g.addPart container) sheet ridS container a hs' hc'
      have c := closed_addUse ((g.addPart container).addRel sheet ridS container) sheet ridS container b hs'
        (List.mem_append_right _ (List.mem_singleton.mpr rfl))
      exact ⟨c, hc', fun x hx => List.mem_append_left _ hx⟩
  generalize (if first then ((g.addPart container).addRel sheet ridS container).addUse sheet ridS else g) = g1 at h1
  obtain ⟨c1, hc1, hsub⟩ := h1
  -- step 2: the leaf
  have h2 : closedG (if newLeaf then g1.addPart leaf else g1) ∧ leaf ∈ (if newLeaf then g1.addPart leaf else g1).parts ∧
      container ∈ (if newLeaf then g1.addPart leaf else g1).parts := by
    cases newLeaf with
    | false => exact ⟨c1, hsub leaf (hleaf rfl), hc1⟩
    | true => exact ⟨closed_addPart g1 leaf c1, List.mem_append_right _ (List.mem_singleton.mpr rfl), List.mem_append_left _ hc1⟩
  generalize (if newLeaf then g1.addPart leaf else g1) = g2 at h2
  obtain ⟨c2, hl2, hk2⟩ := h2
  exact closed_addUse (g2.addRel container ridC leaf) container ridC leaf (closed_addRel g2 container ridC leaf c2 hk2 hl2) hk2
    (List.mem_append_right _ (List.mem_singleton.mpr rfl))

/-- `closure_delete_chart`: DeleteChart only takes the anchor out of the drawing (regenerated
fact: it deletes no part, no relationship, no Override), so the closure cannot break. -/
theorem closure_delete_chart (g : RefG) (container ridC : Str) (h : closedG g) :
    Facts.C05.deleteChartKeepsParts = true ∧ closedG (g.deleteChart container ridC) :=
  ⟨by decide, closed_dropUse g container ridC h⟩

/-- `closure_delete_table`: DeleteTable removes the tablePart entry, the worksheet relationship
and the table part together; if that relationship was the only one to the table part and the id
is used once, the closure holds afterwards. -/
theorem closure_delete_table (g : RefG) (sheet rid table : Str) (h : closedG g)
    (honce : (sheet, rid) ∉ g.uses.erase (sheet, rid))
    (honly : ∀ r ∈ g.rels, (r.1 ≠ table) ∧ (r.2.2 = table → r.1 = sheet ∧ r.2.1 = rid))
    (hnouse : ∀ u ∈ g.uses, u.1 ≠ table) :
    closedG (g.deleteTable sheet rid table) := by
  unfold RefG.deleteTable
  have a := closed_dropUse g sheet rid h
  have b := closed_dropRel (g.dropUse sheet rid) sheet rid a honce
  apply closed_dropPart _ table b
  · intro r hr
    obtain ⟨hm, hk⟩ := List.mem_filter.mp hr
    obtain ⟨h1, h2⟩ := honly r hm
    refine ⟨h1, fun ht => ?_⟩
    obtain ⟨e1, e2⟩ := h2 ht
    simp [e1, e2] at hk
  · intro u hu
    exact hnouse u (List.mem_of_mem_erase hu)

/-- `closure_delete_pivot`: DeletePivotTable deletes no part (regenerated fact); it removes the
worksheet relationship to the pivot table part — an implicit relationship, no `r:id` in the
worksheet names it — and, when the pivot table was the last user of its cache, the workbook
relationship to the cache together with the `<pivotCache r:id>` entry (id used once). The
closure holds afterwards, whether or not the cache is shared. -/
theorem closure_delete_pivot (g : RefG) (sheet ridS wb ridW : Str) (lastUser : Bool) (h : closedG g)
    (himplicit : (sheet, ridS) ∉ g.uses)
    (honce : lastUser = true → (wb, ridW) ∉ g.uses.erase (wb, ridW)) :
    Facts.C05.deletePivotKeepsParts = true ∧ closedG (g.deletePivotTable sheet ridS wb ridW lastUser) := by
  refine ⟨by decide, ?_⟩
  unfold RefG.deletePivotTable
  dsimp only
  cases lastUser with
  | false => exact closed_dropRel g sheet ridS h himplicit
  | true =>
    -- relationship first, entry second in the code; the two steps touch different fields
    have e : (g.dropRel wb ridW).dropUse wb ridW = (g.dropUse wb ridW).dropRel wb ridW := rfl
    have a := closed_dropUse g wb ridW h
    have b := closed_dropRel (g.dropUse wb ridW) wb ridW a (honce rfl)
    simp only [if_true]
    rw [e]
    exact closed_dropRel _ sheet ridS b (fun hm => himplicit (List.mem_of_mem_erase hm))

/-- non-vacuity of `closure_delete_pivot`: a workbook with one pivot table whose cache has no other
user satisfies every hypothesis, and afterwards the workbook no longer points to the cache. -/
theorem closure_delete_pivot_example :
    let g : RefG := ⟨[sl "wb", sl "sheet1", sl "pivotTable1", sl "cache1"],
      [(sl "wb", sl "rId5", sl "cache1"), (sl "sheet1", sl "rId1", sl "pivotTable1"),
       (sl "pivotTable1", sl "rId1", sl "cache1")], [(sl "wb", sl "rId5")]⟩
    closedG g ∧ (sl "sheet1", sl "rId1") ∉ g.uses ∧ (sl "wb", sl "rId5") ∉ g.uses.erase (sl "wb", sl "rId5") ∧
      (g.deletePivotTable (sl "sheet1") (sl "rId1") (sl "wb") (sl "rId5") true).rels =
        [(sl "pivotTable1", sl "rId1", sl "cache1")] := by
  refine ⟨⟨by decide, ?_⟩, by decide, by decide, by decide⟩
  intro u hu
  simp only [List.mem_singleton] at hu
  subst hu
  exact ⟨by decide, sl "cache1", by decide⟩

theorem closed_dropUses (g : RefG) (p i : Str) (h : closedG g) : closedG (g.dropUses p i) :=
  ⟨h.1, fun u hu => h.2 u (List.mem_filter.mp hu).1⟩

/-- `closure_delete_slicer_part`: the first half of DeleteSlicer. When the slicer part is emptied,
the worksheet entry, the slicer part and the worksheet relationship go together (the same three
as DeleteTable, in another order); if that relationship was the only one at the slicer part and its
id is used once, the closure holds afterwards. When slicers remain, nothing changes. -/
theorem closure_delete_slicer_part (g : RefG) (sheet ridS slicerPart : Str) (emptied : Bool) (h : closedG g)
    (honce : emptied = true → (sheet, ridS) ∉ g.uses.erase (sheet, ridS))
    (honly : emptied = true → ∀ r ∈ g.rels, (r.1 ≠ slicerPart) ∧ (r.2.2 = slicerPart → r.1 = sheet ∧ r.2.1 = ridS))
    (hnouse : emptied = true → ∀ u ∈ g.uses, u.1 ≠ slicerPart) :
    closedG (g.deleteSlicer sheet ridS slicerPart emptied) := by
  cases emptied with
  | false => exact h
  | true =>
    -- part before relationship in the code; the two steps touch different fields
    have e : g.deleteSlicer sheet ridS slicerPart true = g.deleteTable sheet ridS slicerPart := rfl
    rw [e]
    exact closure_delete_table g sheet ridS slicerPart h (honce rfl) (honly rfl) (hnouse rfl)

/-- `closure_delete_slicer_cache`: the second half of DeleteSlicer. When no other slicer uses the
cache, the cache part, the workbook relationship to it and EVERY workbook entry naming that id go
together; if that relationship was the only one at the cache part, the closure holds afterwards —
no "used once" hypothesis is needed, every use is removed. Otherwise nothing changes. -/
theorem closure_delete_slicer_cache (g : RefG) (wb ridW cachePart : Str) (lastUser : Bool) (h : closedG g)
    (honly : lastUser = true → ∀ r ∈ g.rels, (r.1 ≠ cachePart) ∧ (r.2.2 = cachePart → r.1 = wb ∧ r.2.1 = ridW))
    (hnouse : lastUser = true → ∀ u ∈ g.uses, u.1 ≠ cachePart) :
    closedG (g.deleteSlicerCache wb ridW cachePart lastUser) := by
  cases lastUser with
  | false => exact h
  | true =>
    have e : g.deleteSlicerCache wb ridW cachePart true = ((g.dropUses wb ridW).dropRel wb ridW).dropPart cachePart := rfl
    rw [e]
    have a := closed_dropUses g wb ridW h
    have hnot : (wb, ridW) ∉ (g.dropUses wb ridW).uses := by
      intro hm
      have := (List.mem_filter.mp hm).2
      simp at this
    have b := closed_dropRel (g.dropUses wb ridW) wb ridW a hnot
    apply closed_dropPart _ cachePart b
    · intro r hr
      obtain ⟨hm, hk⟩ := List.mem_filter.mp hr
      obtain ⟨h1, h2⟩ := honly rfl r hm
      refine ⟨h1, fun ht => ?_⟩
      obtain ⟨e1, e2⟩ := h2 ht
      simp [e1, e2] at hk
    · intro u hu
      exact hnouse rfl u (List.mem_filter.mp hu).1

/-- `closure_delete_slicer`: DeleteSlicer as a whole (deleteSlicer, then deleteSlicerCache — order
and skeletons are a regenerated fact), for every combination of "slicer part emptied" and "last
user of the cache", with the hypotheses stated on the graph BEFORE the call. -/
theorem closure_delete_slicer (g : RefG) (sheet ridS slicerPart wb ridW cachePart : Str) (emptied lastUser : Bool)
    (h : closedG g)
    (honce : emptied = true → (sheet, ridS) ∉ g.uses.erase (sheet, ridS))
    (honlyS : emptied = true → ∀ r ∈ g.rels, (r.1 ≠ slicerPart) ∧ (r.2.2 = slicerPart → r.1 = sheet ∧ r.2.1 = ridS))
    (hnouseS : emptied = true → ∀ u ∈ g.uses, u.1 ≠ slicerPart)
    (honlyC : lastUser = true → ∀ r ∈ g.rels, (r.1 ≠ cachePart) ∧ (r.2.2 = cachePart → r.1 = wb ∧ r.2.1 = ridW))
    (hnouseC : lastUser = true → ∀ u ∈ g.uses, u.1 ≠ cachePart) :
    Facts.C05.deleteSlicerOrder = true ∧
      closedG (g.deleteSlicerAll sheet ridS slicerPart wb ridW cachePart emptied lastUser) := by
  refine ⟨by decide, ?_⟩
  unfold RefG.deleteSlicerAll
  have hr : ∀ r ∈ (g.deleteSlicer sheet ridS slicerPart emptied).rels, r ∈ g.rels := by
    cases emptied with
    | false => exact fun r hr => hr
    | true => exact fun r hr => (List.mem_filter.mp hr).1
  have hu : ∀ u ∈ (g.deleteSlicer sheet ridS slicerPart emptied).uses, u ∈ g.uses := by
    cases emptied with
    | false => exact fun u hu => hu
    | true => exact fun u hu => List.mem_of_mem_erase hu
  exact closure_delete_slicer_cache _ wb ridW cachePart lastUser
    (closure_delete_slicer_part g sheet ridS slicerPart emptied h honce honlyS hnouseS)
    (fun hl r hm => honlyC hl r (hr r hm)) (fun hl u hm => hnouseC hl u (hu u hm))

theorem closed_dropShape (vml : Str) (ids : List Str) : ∀ (g : RefG), closedG g →
    closedG (g.dropShape vml ids) ∧ (g.dropShape vml ids).parts = g.parts ∧ (g.dropShape vml ids).rels = g.rels := by
  induction ids with
  | nil => exact fun g h => ⟨h, rfl, rfl⟩
  | cons i rest ih =>
    intro g h
    obtain ⟨a, b, c⟩ := ih (g.dropUse vml i) (closed_dropUse g vml i h)
    exact ⟨a, b, c⟩

/-- `closure_delete_vml_object`: DeleteComment and DeleteFormControl remove no part, no
relationship and no `legacyDrawing` reference (regenerated fact); they cut at most one shape out of
the VML part, whatever relationship ids that shape names. Parts and relationships are unchanged and
the closure holds afterwards, without any hypothesis on the shape. -/
theorem closure_delete_vml_object (g : RefG) (vml : Str) (ids : List Str) (found : Bool) (h : closedG g) :
    Facts.C05.deleteVmlKeepsParts = true ∧ closedG (g.deleteVmlObject vml ids found) ∧
      (g.deleteVmlObject vml ids found).parts = g.parts ∧ (g.deleteVmlObject vml ids found).rels = g.rels := by
  refine ⟨by decide, ?_⟩
  cases found with
  | false => exact ⟨h, rfl, rfl⟩
  | true => exact closed_dropShape vml ids g h

/-! ## element order inside worksheets and chart sheets -/

theorem stepOk_of_ltB {schema : List String} {a b : String} (h : ltB schema a b = true) : stepOk schema a b = true := by
  unfold ltB at h
  unfold stepOk
  cases ha : rankIn schema a <;> cases hb : rankIn schema b <;> simp_all

theorem okAfter_replicate_self (schema : List String) (f : String) (n : Nat) (tail : List String)
    (hk : (rankIn schema f).isSome = true) (hr : n = 0 ∨ repeatable f = true) :
    okAfter schema (some f) (List.replicate n f ++ tail) = okAfter schema (some f) tail := by
  induction n with
  | zero => rfl
  | succ n ih =>
    have hrep : repeatable f = true := by rcases hr with h | h; exact absurd h (by omega); exact h
    have hs : stepOk schema f f = true := by
      unfold stepOk
      cases hf : rankIn schema f with
      | none => rw [hf] at hk; cases hk
      | some i => simp [hrep]
    simp only [List.replicate_succ, List.cons_append, okAfter, hs, Bool.true_and]
    exact ih (Or.inr hrep)

/-- one field, emitted `n` times (at most once unless repeatable), after a smaller (or no) element -/
theorem okAfter_field (schema : List String) (prev : Option String) (f : String) (n : Nat) (tail : List String)
    (hk : (rankIn schema f).isSome = true) (hp : ∀ a, prev = some a → ltB schema a f = true)
    (hn : n ≤ 1 ∨ repeatable f = true) :
    okAfter schema prev (List.replicate n f ++ tail) = okAfter schema (if n = 0 then prev else some f) tail := by
  cases n with
  | zero => rfl
  | succ n =>
    have hr : n = 0 ∨ repeatable f = true := by rcases hn with h | h; exact Or.inl (by omega); exact Or.inr h
    simp only [List.replicate_succ, List.cons_append, Nat.succ_ne_zero, if_false]
    cases prev with
    | none => simp only [okAfter, hk, Bool.true_and]; exact okAfter_replicate_self schema f n tail hk hr
    | some a =>
      simp only [okAfter, stepOk_of_ltB (hp a rfl), Bool.true_and]
      exact okAfter_replicate_self schema f n tail hk hr

theorem ltB_trans {schema : List String} {a b c : String} (h1 : ltB schema a b = true) (h2 : ltB schema b c = true) :
    ltB schema a c = true := by
  unfold ltB at *
  cases ha : rankIn schema a <;> cases hb : rankIn schema b <;> cases hc : rankIn schema c <;> simp_all <;> omega

theorem emitSeq_ok (schema : List String) (fields : List String) (count : String → Nat) (prev : Option String)
    (hf : fieldsFollow schema fields = true) (hp : ∀ a, prev = some a → ∀ f ∈ fields, ltB schema a f = true)
    (hn : ∀ f ∈ fields, count f ≤ 1 ∨ repeatable f = true) :
    okAfter schema prev (emitSeq fields count) = true := by
  induction fields generalizing prev with
  | nil => rfl
  | cons f fs ih =>
    simp only [fieldsFollow, Bool.and_eq_true] at hf
    obtain ⟨⟨hk, hall⟩, hrest⟩ := hf
    have hall' : ∀ g ∈ fs, ltB schema f g = true := fun g hg => List.all_eq_true.mp hall g hg
    unfold emitSeq
    rw [List.flatMap_cons]
    rw [okAfter_field schema prev f (count f) _ hk (fun a ha => hp a ha f (by simp)) (hn f (by simp))]
    apply ih
    · exact hrest
    · intro a ha g hg
      split at ha
      · exact hp a ha g (by simp [hg])
      · cases ha; exact hall' g hg
    · intro g hg; exact hn g (by simp [hg])

/-- `worksheet_writer_emits_schema_order`: whatever subset of its fields a worksheet carries
(each pointer field present or absent, the slice field `conditionalFormatting` any number of
times), the element sequence that encoding/xml — and the stream writer, which copies the same
fields by index — produces from the regenerated field order of `xlsxWorksheet` passes the
`element-order` conjunct of `WF` (the xsd:sequence of CT_Worksheet); likewise `xlsxChartsheet`
and CT_Chartsheet. Moving a field in the struct breaks this theorem. -/
theorem worksheet_writer_emits_schema_order (count : String → Nat)
    (hws : ∀ f ∈ Facts.C05.wsFieldOrder, f ∉ Facts.C05.wsFieldOrderSlices → count f ≤ 1)
    (hcs : ∀ f ∈ Facts.C05.csFieldOrder, f ∉ Facts.C05.csFieldOrderSlices → count f ≤ 1) :
    chainOk wsSchemaOrder (emitSeq Facts.C05.wsFieldOrder count) = true ∧
    chainOk csSchemaOrder (emitSeq Facts.C05.csFieldOrder count) = true := by
  have h1 : fieldsFollow wsSchemaOrder Facts.C05.wsFieldOrder = true := by decide +kernel
  have h2 : fieldsFollow csSchemaOrder Facts.C05.csFieldOrder = true := by decide +kernel
  have h3 : ∀ f ∈ Facts.C05.wsFieldOrderSlices, repeatable f = true := by decide +kernel
  have h4 : ∀ f ∈ Facts.C05.csFieldOrderSlices, repeatable f = true := by decide +kernel
  constructor
  · apply emitSeq_ok _ _ _ none h1 (fun a ha => by cases ha)
    intro f hf
    by_cases hs : f ∈ Facts.C05.wsFieldOrderSlices
    · exact Or.inr (h3 f hs)
    · exact Or.inl (hws f hf hs)
  · apply emitSeq_ok _ _ _ none h2 (fun a ha => by cases ha)
    intro f hf
    by_cases hs : f ∈ Facts.C05.csFieldOrderSlices
    · exact Or.inr (h4 f hs)
    · exact Or.inl (hcs f hf hs)

/-! ## shared strings -/

/-- every entry of the text ↦ index map points into the item list -/
def sstMapOk (t : Sst) : Prop := ∀ e ∈ t.map, e.2 < t.items.length

theorem idxOfSI_lt (x : SI) (l : List SI) (k i : Nat) (h : idxOfSI x l k = some i) : i < k + l.length := by
  induction l generalizing k with
  | nil => simp [idxOfSI] at h
  | cons y ys ih =>
    simp only [idxOfSI] at h
    split at h
    · cases h; simp
    · have := ih (k + 1) h; simp only [List.length_cons]; omega

/-- `sst_index_in_range`: whatever `count` / `uniqueCount` the opened file declared (larger than
the number of items, smaller, absent), the index SetCellStr / SetCellValue(string) and
SetCellRichText store in the cell is an index into the `<si>` list that is written, and the map
stays sound. (The seeded change C05a/2 — `Count-1` for `len(SI)-1` — breaks exactly this.) -/
theorem sst_index_in_range (t : Sst) (h : sstMapOk t) (s : Str) :
    (setSharedString t s).2 < (setSharedString t s).1.items.length ∧ sstMapOk (setSharedString t s).1 ∧
    (setRichText t s).2 < (setRichText t s).1.items.length ∧ sstMapOk (setRichText t s).1 := by
  refine ⟨?_, ?_, ?_, ?_⟩
  · unfold setSharedString
    split
    · rename_i e he; exact h e (List.mem_of_find?_eq_some he)
    · simp
  · unfold setSharedString
    split
    · exact h
    · intro e he
      simp only [List.mem_append, List.mem_singleton] at he
      rcases he with he | he
      · have := h e he; simp only [List.length_append, List.length_cons, List.length_nil]; omega
      · subst he; simp
  · unfold setRichText
    split
    · rename_i i hi; have := idxOfSI_lt _ _ _ _ hi; simpa using this
    · simp
  · unfold setRichText
    split
    · exact h
    · intro e he
      have := h e he
      simp only [List.length_append, List.length_cons, List.length_nil]; omega

/-- the written index denotes the string that was set -/
theorem sst_index_denotes (t : Sst) (s : Str) (hmap : ∀ e ∈ t.map, t.items[e.2]? = some (SI.plain e.1)) :
    (setSharedString t s).1.items[(setSharedString t s).2]? = some (SI.plain s) := by
  unfold setSharedString
  split
  · rename_i e he
    have hm := hmap e (List.mem_of_find?_eq_some he)
    have : e.1 = s := by
      have := List.find?_some he
      exact eq_of_beq this
    rw [← this]; exact hm
  · simp

end XlModel.Props.C05
