import XlModel.Pkg
namespace XlModel.Props.C05
open XlModel XlModel.Pkg

theorem stub : True := trivial

end XlModel.Props.C05
