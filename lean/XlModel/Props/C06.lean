/-
C06 — Row/column insertion, removal and duplication relocate content exactly.
Property theorems only; helper lemmas are in `Lemmas/Adjust.lean`.

Everything is about `XlModel.Adjust` (the transcription of adjust.go / rows.go /
col.go) over the regenerated facts `Facts.C06.*`, `Facts.TotalRows`,
`Facts.MaxColumns`: the adjuster order, the position of the limit checks, the
`RemoveCol` selection test and the guard skeletons are pinned here, so an edit
of those places in the Go source breaks this file.
-/
import XlModel.Lemmas.AdjustGrid
import XlModel.Lemmas.AdjustCols
import XlModel.Lemmas.AdjustObjs
import XlModel.Lemmas.AdjustObjsDel
import XlModel.Lemmas.AdjustDup

namespace XlModel.Props.C06
open XlModel XlModel.Adjust

/-! ## The regenerated facts are the ones the model was written for -/

/-- clause "shift, grow, shrink or delete range-anchored objects by the same rule":
all nine adjusters run, in this order (an adjuster dropped from
`adjustHelperFunc` breaks this theorem) -/
theorem adjuster_order_ok :
    Facts.C06.adjusters = ["adjustConditionalFormats", "adjustDataValidations", "adjustDefinedNames",
      "adjustDrawings", "adjustMergeCells", "adjustAutoFilter", "adjustCalcChain", "adjustTable",
      "adjustVolatileDeps"] := by decide

/-- clause "an edit that is rejected … changes nothing on any sheet": both limit
checks are made before the first loop over all sheets (the first mutation) -/
theorem limit_checks_first :
    Facts.C06.rowLimitCheckFirst = true ∧ Facts.C06.colLimitCheckFirst = true := by decide

/-- `RemoveCol` selects the cells to drop by column *number* (a lower-case or
mixed-case column name denotes the same column) -/
theorem removeCol_selects_by_number (nm : List Char) (c : Int) (col : List Char) (num : Int) :
    Facts.C06.removeColMatch nm c col num = (c == num) := rfl

/-- a table is removed when its header row `y1` (coordinate index 1) is removed -/
theorem table_header_coord_ok : Facts.C06.tableHeaderCoord = 1 := by decide

theorem limits_ok : Facts.TotalRows = 1048576 ∧ Facts.MaxColumns = 16384 := by decide

/-- guard skeletons of the transcribed functions (source text of the `if` conditions) -/
theorem guards_ok :
    Facts.C06.guards_InsertRows = ["row < 1", "row >= TotalRows || n >= TotalRows", "n < 1"] ∧
    Facts.C06.guards_InsertCols = ["err != nil", "n < 1 || n > MaxColumns"] ∧
    Facts.C06.guards_adjustMergeCellsHelper =
      ["p2 < p1", "offset >= 0", "num <= p1", "num <= p2", "num < p1 || (num == p1 && num == p2)", "num <= p2"] ∧
    Facts.C06.guards_adjustAutoFilterHelper =
      ["dir == rows", "moves(coordinates[1])", "coordinates[3] >= num", "moves(coordinates[0])",
       "coordinates[2] >= num"] ∧
    Facts.C06.guards_adjustCellRef =
      ["coordinates[idx1] > num || (offset > 0 && coordinates[idx1] == num)", "coordinates[idx2] >= num",
       "coordinates[idx2] > maxVal", "!strings.Contains(ref, \":\")", "err != nil", "dir == columns",
       "offset < 0 && coordinates[0] == coordinates[2] && num == coordinates[0]",
       "offset < 0 && coordinates[1] == coordinates[3] && num == coordinates[1]", "err != nil"] ∧
    Facts.C06.guards_adjustRowDimensions =
      ["totalRows > 0", "lastRow.R >= row && newRow > 0 && newRow > TotalRows", "sheetN == sheet", "err != nil",
       "err.Error() == newNotWorksheetError(sheetN).Error()", "err != nil", "totalRows == 0",
       "r.R >= row && newRow > 0", "err != nil"] ∧
    Facts.C06.guards_adjustColDimensions =
      ["col <= cellCol", "newCol > 0 && newCol > MaxColumns", "err != nil",
       "err.Error() == newNotWorksheetError(sheetN).Error()", "sheetN == sheet && col <= cellCol", "newCol > 0",
       "err != nil"] ∧
    Facts.C06.guards_adjustAutoFilter =
      ["ws.AutoFilter == nil", "err != nil",
       "offset < 0 && ((dir == rows && y1 == num) || (dir == columns && x1 == num && x2 == num))",
       "rowData.R > y1 && rowData.R <= y2"] := by decide

/-! ## The rectangle rule: every range adjuster computes the shift of the interval

For all intervals `a ≤ b`, all edit points and all counts (integer arithmetic). -/

/-- merged ranges, insertion: before → unchanged, spanning → grows, after → moves -/
theorem merge_insert_rule (a b num k : Int) (hab : a ≤ b) (hk : 0 ≤ k) :
    mergeHelper a b num k = Spec.ivIns num k a b := by
  unfold mergeHelper Spec.ivIns Spec.posIns
  have h1 : ¬ b < a := by omega
  simp only [h1, if_false]
  by_cases h2 : num ≤ a
  · have : ¬ a < num := by omega
    have : ¬ b < num := by omega
    simp [*]
  · by_cases h3 : num ≤ b
    · have : a < num := by omega
      have : ¬ b < num := by omega
      simp [*]
    · have : a < num := by omega
      have : b < num := by omega
      simp [*]

/-- merged ranges, removal of row/column `num` (the exact hit `[num,num]` is
deleted by `adjustMergeCells` before the helper runs) -/
theorem merge_remove_rule (a b num : Int) (hab : a ≤ b) (hne : ¬ (a = num ∧ b = num)) :
    Spec.ivDel num a b = some (mergeHelper a b num (-1)) := by
  unfold mergeHelper Spec.ivDel
  have h1 : ¬ b < a := by omega
  simp only [h1, if_false, hne]
  have h0 : ¬ ((-1 : Int) ≥ 0) := by omega
  simp only [h0, if_false]
  by_cases h2 : num < a
  · have : ¬ a ≤ num := by omega
    have : ¬ b < num := by omega
    simp [*]; omega
  · have hx : ¬ (num < a ∨ (num = a ∧ num = b)) := by omega
    simp only [hx, if_false]
    by_cases h3 : num ≤ b
    · have : a ≤ num := by omega
      have : ¬ b < num := by omega
      simp [*]; omega
    · have : a ≤ num := by omega
      have : b < num := by omega
      simp [*]

/-- sqref ranges (conditional formats, data validations), insertion, as long as
the moved end stays inside the sheet (beyond it the end is clamped to the limit) -/
theorem sqref_insert_rule (a b num k lim : Int) (hab : a ≤ b) (hk : 0 < k) (hlim : b + k ≤ lim) :
    sqAxis a b num k lim = Spec.ivIns num k a b := by
  unfold sqAxis startMoves Spec.ivIns Spec.posIns
  by_cases h1 : a < num <;> by_cases h2 : b < num <;> simp [*] <;> omega

/-- sqref ranges, removal (single-row/column hits are skipped by `adjustCellRef`) -/
theorem sqref_remove_rule (a b num lim : Int) (hab : a ≤ b) (hne : ¬ (a = num ∧ b = num)) (hlim : b ≤ lim) :
    Spec.ivDel num a b = some (sqAxis a b num (-1) lim) := by
  unfold sqAxis startMoves Spec.ivDel
  simp only [hne, if_false]
  by_cases h1 : a ≤ num <;> by_cases h2 : b < num <;> simp [*] <;> omega

/-- the clamp of `adjustCellRef`: an end pushed past the limit is cut at the limit -/
theorem sqref_insert_clamped (a b num k lim : Int) (_hk : 0 < k) (hb : b ≥ num) (hlim : b + k > lim) :
    (sqAxis a b num k lim).2 = lim := by
  unfold sqAxis; simp [*]

/-- auto filter and table ranges: same rule on the edited axis -/
theorem filter_insert_rule (q : Rect) (num k : Int) (hk : 0 < k) (hy : q.y1 ≤ q.y2) (hx : q.x1 ≤ q.x2) :
    ((filterHelper .rows q num k).y1, (filterHelper .rows q num k).y2) = Spec.ivIns num k q.y1 q.y2 ∧
    ((filterHelper .cols q num k).x1, (filterHelper .cols q num k).x2) = Spec.ivIns num k q.x1 q.x2 := by
  unfold filterHelper startMoves Spec.ivIns Spec.posIns
  constructor
  · by_cases h1 : q.y1 < num <;> by_cases h2 : q.y2 < num <;> simp [*] <;> omega
  · by_cases h1 : q.x1 < num <;> by_cases h2 : q.x2 < num <;> simp [*] <;> omega

theorem filter_remove_rule (q : Rect) (num : Int) (hy : q.y1 ≤ q.y2) (hx : q.x1 ≤ q.x2) :
    (¬ (q.y1 = num ∧ q.y2 = num) →
      Spec.ivDel num q.y1 q.y2 = some ((filterHelper .rows q num (-1)).y1, (filterHelper .rows q num (-1)).y2)) ∧
    (¬ (q.x1 = num ∧ q.x2 = num) →
      Spec.ivDel num q.x1 q.x2 = some ((filterHelper .cols q num (-1)).x1, (filterHelper .cols q num (-1)).x2)) := by
  unfold filterHelper startMoves Spec.ivDel
  constructor
  · intro hne
    simp only [hne, if_false]
    by_cases h1 : q.y1 ≤ num <;> by_cases h2 : q.y2 < num <;> simp [*] <;> omega
  · intro hne
    simp only [hne, if_false]
    by_cases h1 : q.x1 ≤ num <;> by_cases h2 : q.x2 < num <;> simp [*] <;> omega

/-- hyperlinks move like the cell they sit on -/
theorem link_moves_like_cell (num k : Int) (hk : 0 < k) (c r : Int) (hr : 1 ≤ r) (hin : Spec.posIns num k r ≤ maxRows) :
    adjustLinkPos .rows num k (c, r) = some (c, Spec.posIns num k r) := by
  unfold adjustLinkPos Spec.posIns at *
  by_cases h : r < num
  · have : ¬ r ≥ num := by omega
    simp [*]
  · have h1 : r ≥ num := by omega
    have h2 : ¬ (r + k < 1) := by omega
    simp only [h, if_false] at hin
    have h3 : ¬ (r + k > maxRows) := by omega
    simp [h1, h2, h3, h]

/-! ## The interval rule is the shift of its points, and insertion is undone by removal -/

/-- clause "leave everything before the edit point untouched" -/
theorem before_edit_untouched (num k p : Int) (hp : p < num) :
    Spec.posIns num k p = p ∧ Spec.posDel num p = p := by
  unfold Spec.posIns Spec.posDel; simp [hp]

/-- clause "to exactly the position dictated by the shift": positions at or after
the edit point move by exactly `k`; the map is injective and monotone -/
theorem shift_exact (num k p q : Int) (hk : 0 ≤ k) :
    (num ≤ p → Spec.posIns num k p = p + k) ∧
    (p < q → Spec.posIns num k p < Spec.posIns num k q) := by
  unfold Spec.posIns
  constructor
  · intro h; have : ¬ p < num := by omega
    simp [this]
  · intro h; by_cases h1 : p < num <;> by_cases h2 : q < num <;> simp [*] <;> omega

/-- the grown/moved interval is exactly the hull of the moved points of the old interval -/
theorem interval_is_hull (num k a b p : Int) (hk : 0 ≤ k) (hp : a ≤ p ∧ p ≤ b) :
    (Spec.ivIns num k a b).1 ≤ Spec.posIns num k p ∧ Spec.posIns num k p ≤ (Spec.ivIns num k a b).2 := by
  unfold Spec.ivIns Spec.posIns
  by_cases h1 : a < num <;> by_cases h2 : b < num <;> by_cases h3 : p < num <;> simp [*] <;> omega

/-- clause "inserting n rows or columns and then removing them restores the
original sheet", on positions: one removal at the insertion point undoes one
inserted row/column (induction gives `n` removals after an `n`-insert) -/
theorem insert_remove_pos (num k p : Int) (hk : 0 ≤ k) :
    Spec.posIns num (k + 1) p ≠ num ∧ Spec.posDel num (Spec.posIns num (k + 1) p) = Spec.posIns num k p := by
  unfold Spec.posIns Spec.posDel
  by_cases h : p < num
  · simp [h]; omega
  · have h2 : ¬ (p + (k + 1) < num) := by omega
    simp [h, h2]; omega

/-- … and on intervals (merges, sqrefs, filter, tables) -/
theorem insert_remove_interval (num k a b : Int) (hk : 0 ≤ k) (hab : a ≤ b) :
    Spec.ivDel num (Spec.ivIns num (k + 1) a b).1 (Spec.ivIns num (k + 1) a b).2 = some (Spec.ivIns num k a b) := by
  unfold Spec.ivDel Spec.ivIns Spec.posIns
  by_cases h1 : a < num <;> by_cases h2 : b < num <;> simp [*]
  all_goals (try omega)
  all_goals (constructor <;> (try intro _) <;> (try split) <;> omega)

/-- `n` removals at `num` after inserting `n` there: identity on intervals -/
def delN (num : Int) : Nat → Int × Int → Option (Int × Int)
  | 0, p => some p
  | n + 1, p => (Spec.ivDel num p.1 p.2).bind (delN num n)

theorem insert_remove_id_interval (num a b : Int) (hab : a ≤ b) (n : Nat) :
    delN num n (Spec.ivIns num n a b) = some (a, b) := by
  induction n with
  | zero =>
    unfold delN Spec.ivIns Spec.posIns
    by_cases h1 : a < num <;> by_cases h2 : b < num <;> simp [*]
  | succ n ih =>
    unfold delN
    have e : ((n + 1 : Nat) : Int) = (n : Int) + 1 := by omega
    rw [e, insert_remove_interval num (n : Int) a b (by omega) hab]
    simpa using ih

/-! ## The grid: the dimension step renumbers by the shift, re-densification positions by number

`adjustRowDimensions`/`adjustColDimensions` map `shiftRow`/`shiftCell` over the row slots / cells;
`checkSheet` then stores every row at the slot of its number. (The composition into one
`insert_rows_refines` statement over the density invariant is not proved; it is carried by the
correspondence, see design.d/C06.md.) -/

/-- `checkSheet` positions rows by their number: slot `j` holds the (last) row numbered `j+1`,
or an empty row, and is renumbered `j+1`; the result has exactly `last.r` slots. -/
theorem checkSheet_slot (rows : List Row) (h : incFrom 0 rows = true) :
    ∃ out, checkSheet rows = some out ∧
      out.length = ((rows.getLast?.map (fun r : Row => r.r)).getD 0).toNat ∧
      ∀ j, j < out.length →
        out[j]? = some { (match rows.reverse.find? (fun r => (r.r - 1).toNat == j) with
                          | some r => r
                          | none => zeroRow) with r := (j : Int) + 1 } :=
  Adjust.checkSheet_slot rows h

/-- the dimension step renumbers a row (with its attributes and all its cells) to exactly the
position the shift dictates, and renames every cell to the row's new number -/
theorem shiftRow_spec (row n : Int) (hn : 0 ≤ n) (r : Row) (hr : 1 ≤ r.r) :
    (shiftRow row n r).r = Spec.posIns row n r.r ∧
    (shiftRow row n r).hidden = r.hidden ∧ (shiftRow row n r).attr = r.attr ∧
    (shiftRow row n r).cells.map (fun x => (x.c, x.s, x.v)) = r.cells.map (fun x => (x.c, x.s, x.v)) ∧
    ((∀ x ∈ r.cells, x.r = r.r) → ∀ x ∈ (shiftRow row n r).cells, x.r = (shiftRow row n r).r) := by
  unfold shiftRow Spec.posIns bumpRow
  by_cases h : r.r ≥ row ∧ r.r + n > 0
  · have h' : ¬ r.r < row := by omega
    simp only [h, and_self, if_true, h', if_false, true_and]
    refine ⟨?_, ?_⟩
    · simp [List.map_map, Function.comp_def]
    · intro _ x hx
      obtain ⟨y, _, rfl⟩ := List.mem_map.mp hx
      rfl
  · have h' : r.r < row := by omega
    simp only [h, if_false, h', if_true, true_and]
    exact fun hc => hc

/-- removal: after the slot of `row` is dropped, every later row moves up by exactly one -/
theorem shiftRow_del_spec (row : Int) (r : Row) (hr : 1 ≤ r.r) (hne : r.r ≠ row) (h1 : 1 ≤ row) :
    (shiftRow row (-1) r).r = Spec.posDel row r.r := by
  unfold shiftRow Spec.posDel bumpRow
  by_cases h : r.r ≥ row ∧ r.r + -1 > 0
  · have h' : ¬ r.r < row := by omega
    simp [h, h']; omega
  · have h' : r.r < row := by omega
    simp [h, h']

/-- columns: a cell keeps row, style and payload and moves to exactly the shifted column -/
theorem shiftCell_spec (col n : Int) (hn : 0 ≤ n) (x : Cell) (hc : 1 ≤ x.c) :
    (shiftCell col n x).c = Spec.posIns col n x.c ∧ (shiftCell col n x).r = x.r ∧
    (shiftCell col n x).s = x.s ∧ (shiftCell col n x).v = x.v := by
  unfold shiftCell Spec.posIns
  by_cases h : col ≤ x.c ∧ x.c + n > 0
  · have h' : ¬ x.c < col := by omega
    simp [h, h']
  · have h' : x.c < col := by omega
    simp [h, h']

theorem shiftCell_del_spec (col : Int) (x : Cell) (hc : 1 ≤ x.c) (hne : x.c ≠ col) (h1 : 1 ≤ col) :
    (shiftCell col (-1) x).c = Spec.posDel col x.c := by
  unfold shiftCell Spec.posDel
  by_cases h : col ≤ x.c ∧ x.c + -1 > 0
  · have h' : ¬ x.c < col := by omega
    simp [h, h']; omega
  · have h' : x.c < col := by omega
    simp [h, h']


/-! ## The composed grid refinement (density invariant `WF`) -/

/-- clause "move every cell (value, type, formula, style) together with its row attributes to exactly the
position dictated by the shift, leave everything before the edit point untouched" for `InsertRows`:
on a dense worksheet an accepted `InsertRows(row, n)` keeps the worksheet dense and every reader-visible
row (hidden flag, attributes, cell payloads) is the `n`-shift of the old one; columns are untouched -/
theorem insert_rows_refines (s s' : Sheet) (hw : WF s.rows) (row n : Int)
    (h : insertRows s row n = (.ok, s')) :
    WF s'.rows ∧
    (∀ r, viewAt s'.rows r = Spec.insAt row n emptyView (viewAt s.rows) r) ∧
    (∀ c r, gridAt s'.rows c r = Spec.insAt row n (0, blankTok) (fun i => gridAt s.rows c i) r) ∧
    (∀ r, attrAt s'.rows r = Spec.insAt row n (false, "-") (attrAt s.rows) r) ∧
    s'.cols = s.cols := by
  unfold insertRows insertRowsG at h
  by_cases g1 : row < 1
  · simp [g1] at h
  by_cases g2 : row ≥ maxRows ∨ n ≥ maxRows
  · simp [g1, g2] at h
  by_cases g3 : n < 1
  · simp [g1, g2, g3] at h
  simp only [g1, g2, g3, if_false] at h
  have hrow : 1 ≤ row := by omega
  by_cases hhit' : (Facts.C06.rangeCheckFirst && rangeLimitHit s .rows row n) = true
  · rw [adjustHelperG_hit s .rows row n hhit'] at h; cases h
  have hhit : (Facts.C06.rangeCheckFirst && rangeLimitHit s .rows row n) = false := by simpa using hhit'
  have hn : 1 ≤ n := by omega
  cases hd : adjustRowDimensions s.rows row n with
  | none =>
    have : adjustHelperG false s .rows row n = (.err, s) :=
      adjustHelperG_dims_none s .rows row n (by unfold adjustDims; simp [hd])
    rw [this] at h; cases h
  | some rows1 =>
    obtain ⟨e1, hlim⟩ := adjustRowDimensions_some s.rows hw.rowsDense row n hrow rows1 hd
    obtain ⟨out, ho, hslots⟩ := rows_ins_slots s.rows hw.rowsDense row n hrow hn
    obtain ⟨hwf, hview⟩ := rows_ins_view s.rows hw row n hrow hn (fun hc => hlim hc (by omega)) out hslots
    have hdims : adjustDims s .rows row n = some { s with rows := rows1 } := by
      unfold adjustDims; simp [hd]
    have hfw := adjustHelper_forward s { s with rows := rows1 } .rows row n out out hhit hdims
      (by simpa [e1] using ho) (checkRow_id hwf)
    unfold adjustHelper at hfw
    rw [hfw] at h
    have hk := runAdjusters_kept Facts.C06.adjusters .rows row n
      { ({ s with rows := rows1 } : Sheet) with
        links := adjustHyperlinks ({ s with rows := rows1 } : Sheet).links .rows row n, rows := out }
    rw [h] at hk
    have hrows : s'.rows = out := hk.2.2.1 (by omega)
    rw [hrows]
    refine ⟨hwf, hview, fun c r => (grid_of_view_ins out s.rows row n hview c r).1,
      fun r => (grid_of_view_ins out s.rows row n hview 0 r).2, hk.2.1⟩


/-- the same clause for `RemoveRow`: the slot of `row` is dropped and every later row (attributes and cells)
moves up by exactly one. The `hidden` flags are exact whenever the sheet has no auto filter (an auto filter
whose header row is removed takes the `hidden` flags of its rows with it — `adjustAutoFilter`). -/
theorem remove_row_refines (s s' : Sheet) (hw : WF s.rows) (row : Int)
    (h : removeRow s row = (.ok, s')) :
    WF s'.rows ∧
    (∀ r, (viewAt s'.rows r).2 = Spec.delAt row (fun i => (viewAt s.rows i).2) r) ∧
    (s.filter = none → ∀ r, viewAt s'.rows r = Spec.delAt row (viewAt s.rows) r) ∧
    (∀ c r, gridAt s'.rows c r = Spec.delAt row (fun i => gridAt s.rows c i) r) ∧
    s'.cols = s.cols := by
  unfold removeRow removeRowG at h
  by_cases g1 : row < 1
  · simp [g1] at h
  simp only [g1, if_false] at h
  have hrow : 1 ≤ row := by omega
  -- both branches run adjustHelper on the rows without the slot of `row`
  have hfilt : ∃ s0 : Sheet, s0.rows = s.rows.filter (fun r => r.r != row) ∧ s0.cols = s.cols ∧
      s0.filter = s.filter ∧ adjustHelperG false s0 .rows row (-1) = (.ok, s') := by
    by_cases g2 : row > (s.rows.length : Int)
    · simp only [g2, if_true] at h
      exact ⟨s, (filter_beyond s.rows hw.rowsDense row g2).symm, rfl, rfl, h⟩
    · simp only [g2, if_false] at h
      exact ⟨{ s with rows := s.rows.filter fun r => r.r != row }, rfl, rfl, rfl, h⟩
  obtain ⟨s0, hs0, hc0, hf0, h0⟩ := hfilt
  obtain ⟨out, ho, hslots⟩ := rows_del_slots s.rows hw.rowsDense row hrow
  obtain ⟨hwf, hview⟩ := rows_del_view s.rows hw row hrow out hslots
  have hfd : DenseK Row.r s.rows := hw.rowsDense
  cases hd : adjustRowDimensions s0.rows row (-1) with
  | none =>
    have : adjustHelperG false s0 .rows row (-1) = (.err, s0) :=
      adjustHelperG_dims_none s0 .rows row (-1) (by unfold adjustDims; simp [hd])
    rw [this] at h0; cases h0
  | some rows1 =>
    have e1 : rows1 = s0.rows.map (shiftRow row (-1)) := by
      unfold adjustRowDimensions at hd
      cases hl : s0.rows.getLast? with
      | none =>
        have : s0.rows = [] := by simpa using hl
        simp [hl] at hd; simp [this, ← hd]
      | some last =>
        simp only [hl] at hd
        split at hd
        · cases hd
        · exact (Option.some.inj hd).symm
    have hdims : adjustDims s0 .rows row (-1) = some { s0 with rows := rows1 } := by
      unfold adjustDims; simp [hd]
    have hfw := adjustHelper_forward s0 { s0 with rows := rows1 } .rows row (-1) out out
      (by simp [rangeLimitHit_neg s0 .rows row (-1) (by omega)]) hdims
      (by simpa [e1, hs0] using ho) (checkRow_id hwf)
    unfold adjustHelper at hfw
    rw [hfw] at h0
    have hk := runAdjusters_kept Facts.C06.adjusters .rows row (-1)
      { ({ s0 with rows := rows1 } : Sheet) with
        links := adjustHyperlinks ({ s0 with rows := rows1 } : Sheet).links .rows row (-1), rows := out }
    rw [h0] at hk
    have hcore : s'.rows.map core = out.map core := hk.1
    have hv2 : ∀ r, (viewAt s'.rows r).2 = Spec.delAt row (fun i => (viewAt s.rows i).2) r := by
      intro r
      rw [view_of_core out s'.rows hcore.symm r |>.symm, hview r]
      unfold Spec.delAt; split <;> rfl
    refine ⟨WF_of_core out s'.rows hcore.symm hwf, hv2, ?_, ?_, hk.2.1.trans hc0⟩
    · intro hnone r
      have : s'.rows = out := (hk.2.2.2 (by simpa [hf0] using hnone)).1
      rw [this]; exact hview r
    · intro c r
      unfold gridAt
      rw [hv2 r]
      unfold Spec.delAt; split <;> rfl


/-! ## Rejected edits -/

/-- clause "an edit that is rejected because it would push content past row
1048576 or column XFD changes nothing": the content limit checks of
`adjustRowDimensions` / `adjustColDimensions` reject before anything moved
(every sheet: the model of the other sheets is not touched at all, and
`limit_checks_first` pins that the Go code has not yet started its pass over
the other sheets) -/
theorem rejected_by_content_limit_noop (s : Sheet) (dir : Dir) (num off : Int)
    (h : adjustDims s dir num off = none) : adjustHelper s dir num off = (.err, s) :=
  adjustHelperG_dims_none s dir num off h

/-- the argument checks reject without touching the sheet -/
theorem rejected_by_arguments_noop (s : Sheet) (row n : Int) (h : row < 1 ∨ n < 1 ∨ row ≥ maxRows ∨ n ≥ maxRows) :
    insertRows s row n = (.err, s) := by
  unfold insertRows insertRowsG
  by_cases h1 : row < 1
  · simp [h1]
  · by_cases h2 : row ≥ maxRows ∨ n ≥ maxRows
    · simp [h1, h2]
    · have h3 : n < 1 := by omega
      simp [h1, h2, h3]

/-- when exactly does the row limit reject: iff the last row slot is at or below
the edit point and would pass `TotalRows` -/
theorem row_limit_iff (rows : List Row) (last : Row) (hl : rows.getLast? = some last) (row n : Int) (hn : 0 < n)
    (hpos : 0 < last.r) :
    adjustRowDimensions rows row n = none ↔ (last.r ≥ row ∧ last.r + n > maxRows) := by
  unfold adjustRowDimensions
  simp only [hl]
  constructor
  · intro h
    split at h
    · rename_i hc; exact ⟨hc.1, hc.2.2⟩
    · cases h
  · intro h
    have : last.r ≥ row ∧ last.r + n > 0 ∧ last.r + n > maxRows := ⟨h.1, by omega, h.2⟩
    simp [this]

/-- the witness sheet of the (repaired) finding: one cell in row 7, a data validation on `A1048576` -/
def witnessSheet : Sheet :=
  { Sheet.empty with
    rows := (List.range 7).map fun (i : Nat) =>
      ⟨(i : Int) + 1, false, "-", if i = 6 then [⟨1, 7, 0, "_.31.N"⟩] else []⟩,
    dvs := [⟨[⟨1, 1048576, 1, 1048576⟩], "dv"⟩] }

/-- the former witness of "rejected after mutation" (fixed by `checkAdjustRangeLimit`): the data validation on
`A1048576` would be pushed off the sheet, so `InsertRows(sheet, 5, 1)` is rejected before anything moved -/
theorem witness_rejected_unchanged : insertRows witnessSheet 5 1 = (.err, witnessSheet) := by
  decide +kernel

/-- non-vacuity: the same edit without the data validation is accepted and moves row 7 to row 8 -/
theorem witness_accepted_without_dv :
    (insertRows { witnessSheet with dvs := [] } 5 1).1 = .ok ∧
    ((insertRows { witnessSheet with dvs := [] } 5 1).2.rows.map (·.cells.length)) = [0, 0, 0, 0, 0, 0, 0, 1] := by
  decide +kernel


/-! ## Insert then remove, whole grid -/

/-- `k` successful `RemoveRow(row)` calls in sequence -/
def removeN (row : Int) : Nat → Sheet → Option Sheet
  | 0, s => some s
  | k + 1, s =>
    match removeRow s row with
    | (.ok, s') => removeN row k s'
    | _ => none

theorem removeN_undoes (s : Sheet) (row : Int) (k : Nat) (t t2 : Sheet) (hw : WF t.rows)
    (hv : ∀ r, (viewAt t.rows r).2 = Spec.insAt row (k : Int) emptyView.2 (fun i => (viewAt s.rows i).2) r)
    (h : removeN row k t = some t2) :
    WF t2.rows ∧ ∀ r, (viewAt t2.rows r).2 = (viewAt s.rows r).2 := by
  induction k generalizing t with
  | zero =>
    simp only [removeN, Option.some.injEq] at h
    subst h
    refine ⟨hw, fun r => ?_⟩
    rw [hv r]; unfold Spec.insAt
    by_cases c : r < row
    · simp [c]
    · have : ¬ r < row + ((0 : Nat) : Int) := by omega
      simp [c, this]
  | succ k ih =>
    unfold removeN at h
    rcases hr : removeRow t row with ⟨st, t'⟩
    rw [hr] at h
    cases st <;> simp only at h
    all_goals (try (exact absurd h (by simp)))
    · obtain ⟨hw', hv', _, _, _⟩ := remove_row_refines t t' hw row hr
      apply ih t' hw' _ h
      intro r
      have hk1 : ((k + 1 : Nat) : Int) = (k : Int) + 1 := by omega
      rw [hv' r]
      by_cases c : r < row
      · simp only [Spec.delAt, c, if_true]
        rw [hv r]
        simp only [Spec.insAt, c, if_true]
      · simp only [Spec.delAt, c, if_false]
        rw [hv (r + 1)]
        simp only [Spec.insAt, hk1]
        have c1 : ¬ r + 1 < row := by omega
        rw [if_neg c1, if_neg c]
        by_cases c2 : r < row + (k : Int)
        · rw [if_pos (by omega : r + 1 < row + ((k : Int) + 1)), if_pos c2]
        · rw [if_neg (by omega : ¬ r + 1 < row + ((k : Int) + 1)), if_neg c2]
          have e : r + 1 - ((k : Int) + 1) = r - (k : Int) := by omega
          rw [e]

/-- clause "inserting n rows and then removing them restores the original sheet", for the whole grid:
after an accepted `InsertRows(row, n)` and `n` accepted `RemoveRow(row)`, every row shows the attributes
and cell payloads it showed before (the `hidden` flags too when no auto filter header is removed on the way;
range objects: `insert_remove_id_interval`) -/
theorem insert_remove_rows_id (s s1 s2 : Sheet) (hw : WF s.rows) (row : Int) (n : Nat)
    (h1 : insertRows s row n = (.ok, s1)) (h2 : removeN row n s1 = some s2) :
    WF s2.rows ∧ (∀ r, (viewAt s2.rows r).2 = (viewAt s.rows r).2) ∧
    (∀ c r, gridAt s2.rows c r = gridAt s.rows c r) := by
  obtain ⟨hw1, hv1, _, _, _⟩ := insert_rows_refines s s1 hw row n h1
  have := removeN_undoes s row n s1 s2 hw1 (fun r => by
    rw [hv1 r]; unfold Spec.insAt; split
    · rfl
    · split <;> rfl) h2
  exact ⟨this.1, this.2, fun c r => by unfold gridAt; rw [this.2 r]⟩


/-- no range-anchored object that an adjuster could fail on -/
def NoRangeObjects (s : Sheet) : Prop :=
  s.dvs = [] ∧ s.cfs = [] ∧ s.merges = [] ∧ s.filter = none ∧ s.tables = []

theorem runAdjusters_no_objects (t : Sheet) (dir : Dir) (num off : Int) (h : NoRangeObjects t) :
    (runAdjusters Facts.C06.adjusters dir num off t).1 = .ok := by
  obtain ⟨h1, h2, h3, h4, h5⟩ := h
  rw [adjuster_order_ok]
  simp [runAdjusters, runAdjuster, adjustSqItems, adjustMerges, adjustFilter, adjustTables, h1, h2, h3, h4, h5]

/-- the range objects of the sheet are data validations and conditional formats with references inside the sheet -/
def SqObjectsOnly (s : Sheet) : Prop :=
  s.merges = [] ∧ s.filter = none ∧ s.tables = [] ∧
  ∀ it ∈ s.cfs ++ s.dvs, ∀ q ∈ it.rects, rectOk q = true

/-- what the range limit check guarantees for the sqref ranges -/
theorem no_hit_sq (t : Sheet) (dir : Dir) (num off : Int) (hoff : 0 < off)
    (hno : rangeLimitHit t dir num off = false) :
    ∀ it ∈ t.cfs ++ t.dvs, ∀ q ∈ it.rects, exceeds dir num off (axisStart dir q) = false := by
    intro it hit q hqm
    unfold rangeLimitHit at hno
    have ho : decide (off > 0) = true := by simp [hoff]
    simp only [ho, Bool.true_and, Bool.or_eq_false_iff] at hno
    have h1 := hno.1.1
    rw [List.any_eq_false] at h1
    have h2 := h1 it hit
    simp only [Bool.not_eq_true] at h2
    rw [List.any_eq_false] at h2
    simpa using h2 q hqm

theorem runAdjusters_sq_ok (t : Sheet) (dir : Dir) (num off : Int) (hoff : 0 < off) (h : SqObjectsOnly t)
    (hex : ∀ it ∈ t.cfs ++ t.dvs, ∀ q ∈ it.rects, exceeds dir num off (axisStart dir q) = false) :
    (runAdjusters Facts.C06.adjusters dir num off t).1 = .ok := by
  obtain ⟨h3, h4, h5, hq⟩ := h
  have hcf := adjustSqItems_ok dir num off hoff t.cfs
    (fun it hit q hqm => ⟨hq it (List.mem_append_left _ hit) q hqm, hex it (List.mem_append_left _ hit) q hqm⟩)
  have hdv := adjustSqItems_ok dir num off hoff t.dvs
    (fun it hit q hqm => ⟨hq it (List.mem_append_right _ hit) q hqm, hex it (List.mem_append_right _ hit) q hqm⟩)
  rcases hc : adjustSqItems dir num off t.cfs with ⟨st1, x1⟩
  rcases hd : adjustSqItems dir num off t.dvs with ⟨st2, x2⟩
  rw [hc] at hcf; rw [hd] at hdv
  simp only at hcf hdv
  subst hcf; subst hdv
  rw [adjuster_order_ok]
  simp [runAdjusters, runAdjuster, adjustMerges, adjustFilter, adjustTables, hc, hd, h3, h4, h5]


/-- the read-only range limit check runs before the dimension step -/
theorem range_check_first : Facts.C06.rangeCheckFirst = true := by decide

/-- clause "an edit that is rejected … changes nothing", full strength for `InsertRows` on dense worksheets
whose range objects are data validations and conditional formats with references inside the sheet (hyperlinks
arbitrary): whatever the arguments and wherever the ranges reach, a status other than `ok` leaves the sheet as
it was — the former finding `rejected-after-mutation` (a data validation on the last row) is repaired by the
range limit check. Merged cells, auto filter and tables are covered by the same check in the code and by the
transcript; their adjuster-success lemmas are not proved. -/
theorem rejected_noop_insert_rows (s s' : Sheet) (hw : WF s.rows) (hno : SqObjectsOnly s) (row n : Int)
    (st : Status) (h : insertRows s row n = (st, s')) (hst : st ≠ .ok) : s' = s := by
  unfold insertRows insertRowsG at h
  by_cases g1 : row < 1
  · simp [g1] at h; exact h.2.symm
  by_cases g2 : row ≥ maxRows ∨ n ≥ maxRows
  · simp [g1, g2] at h; exact h.2.symm
  by_cases g3 : n < 1
  · simp [g1, g2, g3] at h; exact h.2.symm
  simp only [g1, g2, g3, if_false] at h
  have hrow : 1 ≤ row := by omega
  by_cases hhit' : (Facts.C06.rangeCheckFirst && rangeLimitHit s .rows row n) = true
  · rw [adjustHelperG_hit s .rows row n hhit'] at h; exact (Prod.mk.inj h).2.symm
  have hhit : (Facts.C06.rangeCheckFirst && rangeLimitHit s .rows row n) = false := by simpa using hhit'
  have hn : 1 ≤ n := by omega
  cases hd : adjustRowDimensions s.rows row n with
  | none =>
    have : adjustHelperG false s .rows row n = (.err, s) :=
      adjustHelperG_dims_none s .rows row n (by unfold adjustDims; simp [hd])
    rw [this] at h; exact (Prod.mk.inj h).2.symm
  | some rows1 =>
    exfalso
    obtain ⟨e1, hlim⟩ := adjustRowDimensions_some s.rows hw.rowsDense row n hrow rows1 hd
    obtain ⟨out, ho, hslots⟩ := rows_ins_slots s.rows hw.rowsDense row n hrow hn
    obtain ⟨hwf, _⟩ := rows_ins_view s.rows hw row n hrow hn (fun hc => hlim hc (by omega)) out hslots
    have hdims : adjustDims s .rows row n = some { s with rows := rows1 } := by
      unfold adjustDims; simp [hd]
    have hfw := adjustHelper_forward s { s with rows := rows1 } .rows row n out out hhit hdims
      (by simpa [e1] using ho) (checkRow_id hwf)
    unfold adjustHelper at hfw
    rw [hfw] at h
    have hnohit : rangeLimitHit s .rows row n = false := by
      simpa [range_check_first] using hhit
    have hok := runAdjusters_sq_ok
      { ({ s with rows := rows1 } : Sheet) with
        links := adjustHyperlinks ({ s with rows := rows1 } : Sheet).links .rows row n, rows := out }
      .rows row n (by omega) hno (no_hit_sq s .rows row n (by omega) hnohit)
    rw [h] at hok
    exact hst hok

/-! ## The composed grid refinement, columns -/

/-- clause "move every cell … to exactly the position dictated by the shift, leave everything before the edit
point untouched" for `InsertCols`: on a dense worksheet an accepted `InsertCols(col, n)` keeps the worksheet
dense, every cell (style, payload) sits exactly `n` columns further right when it was at or right of `col`,
the `n` new columns are empty, and every row keeps its attributes -/
theorem insert_cols_refines (s s' : Sheet) (hw : WF s.rows) (col : List Char) (num n : Int)
    (hnum : Ref.columnNameToNumber col = .ok num) (h1 : 1 ≤ num)
    (h : insertCols s col n = (.ok, s')) :
    WF s'.rows ∧
    (∀ c r, gridAt s'.rows c r = Spec.insAt num n (0, blankTok) (fun i => gridAt s.rows i r) c) ∧
    (∀ r, attrAt s'.rows r = attrAt s.rows r) ∧
    s'.cols = adjustCols s.cols num n := by
  unfold insertCols insertColsG at h
  simp only [hnum] at h
  by_cases g1 : n < 1 ∨ n > maxCols
  · simp [g1] at h
  simp only [g1, if_false] at h
  have hn : 1 ≤ n := by omega
  by_cases hhit' : (Facts.C06.rangeCheckFirst && rangeLimitHit s .cols num n) = true
  · rw [adjustHelperG_hit s .cols num n hhit'] at h; cases h
  have hhit : (Facts.C06.rangeCheckFirst && rangeLimitHit s .cols num n) = false := by simpa using hhit'
  by_cases hl : colLimitHit s.rows num n = true
  · have : adjustHelperG false s .cols num n = (.err, s) :=
      adjustHelperG_dims_none s .cols num n (by unfold adjustDims; simp [hl])
    rw [this] at h; cases h
  have hl' : colLimitHit s.rows num n = false := by simpa using hl
  let g : Row → Row := fun r => { r with cells := r.cells.map (shiftCell num n) }
  have hdims : adjustDims s .cols num n =
      some { s with rows := s.rows.map g, cols := adjustCols s.cols num n } := by
    unfold adjustDims; simp [hl', g]
  have hdense : DenseK Row.r (s.rows.map g) := by
    intro i y hy
    rw [List.getElem?_map] at hy
    obtain ⟨x, hx, rfl⟩ := Option.map_eq_some_iff.mp hy
    exact hw.rowsDense i x hx
  -- the limit for each row
  have hlim : ∀ (k : Nat) (r : Row), s.rows[k]? = some r →
      num ≤ (r.cells.length : Int) → (r.cells.length : Int) + n ≤ maxCols := by
    intro k r hr hc
    unfold colLimitHit at hl'
    rw [List.any_eq_false] at hl'
    have h2 := hl' r (List.mem_of_getElem? hr)
    simp only [Bool.not_eq_true] at h2
    rw [List.any_eq_false] at h2
    have hlen : 0 < r.cells.length := by omega
    have hx := List.getElem_mem (l := r.cells) (n := r.cells.length - 1) (by omega)
    have h3 := h2 _ hx
    have hk := (hw.cellsDense r (List.mem_of_getElem? hr)) (r.cells.length - 1) _ (List.getElem?_eq_getElem (by omega))
    simp only [decide_eq_true_eq] at h3
    omega
  obtain ⟨outs, hcr, houts⟩ := checkRowAux_lift g s.rows 0 (fun k r hr => by
    obtain ⟨out, ho, _⟩ := cells_ins_slots (0 + k) r.cells (by simpa using hw.cellsOk k r hr) num n h1 hn
      (hlim k r hr)
    exact ⟨out, ho⟩)
  have hfw := adjustHelper_forward s _ .cols num n (s.rows.map g) outs hhit hdims
    (checkSheet_id _ hdense) hcr
  unfold adjustHelper at hfw
  rw [hfw] at h
  have hk := runAdjusters_kept Facts.C06.adjusters .cols num n
    { ({ s with rows := s.rows.map g, cols := adjustCols s.cols num n } : Sheet) with
      links := adjustHyperlinks s.links .cols num n, rows := outs }
  rw [h] at hk
  have hrows : s'.rows = outs := hk.2.2.1 (by omega)
  rw [hrows]
  suffices hv : WF outs ∧ (∀ c r, gridAt outs c r = Spec.insAt num n (0, blankTok) (fun i => gridAt s.rows i r) c) ∧
      ∀ r, attrAt outs r = attrAt s.rows r from ⟨hv.1, hv.2.1, hv.2.2, hk.2.1⟩
  apply cols_view s.rows outs (Spec.insAt num n (0, blankTok))
    (fun c => by unfold Spec.insAt; split <;> (try split) <;> rfl) hw
  intro k
  refine ⟨(houts k).1, fun r hr => ?_⟩
  obtain ⟨out, ho, hs⟩ := (houts k).2 r hr
  obtain ⟨out', ho', hform⟩ := cells_ins_slots (0 + k) r.cells (by simpa using hw.cellsOk k r hr) num n h1 hn
    (hlim k r hr)
  have e : out = out' := by rw [ho] at ho'; exact Except.ok.inj ho'
  subst e
  obtain ⟨hc, hp⟩ := cells_ins_view (0 + k) r.cells (by simpa using hw.cellsOk k r hr) num n h1 hn
    (hlim k r hr) out hform
  exact ⟨out, hs, by simpa using hc, hp⟩


/-- the same clause for `RemoveCol` (the column may be named in any letter case — `removeCol_selects_by_number`):
the cells of column `col` are dropped and every cell to the right moves left by exactly one; row attributes are
kept (the `hidden` flags exactly when the sheet has no auto filter) -/
theorem remove_col_refines (s s' : Sheet) (hw : WF s.rows) (col : List Char) (num : Int)
    (hnum : Ref.columnNameToNumber col = .ok num) (h1 : 1 ≤ num)
    (h : removeCol s col = (.ok, s')) :
    WF s'.rows ∧
    (∀ c r, gridAt s'.rows c r = Spec.delAt num (fun i => gridAt s.rows i r) c) ∧
    (∀ r, (attrAt s'.rows r).2 = (attrAt s.rows r).2) ∧
    (s.filter = none → ∀ r, attrAt s'.rows r = attrAt s.rows r) ∧
    s'.cols = adjustCols s.cols num (-1) := by
  unfold removeCol removeColG at h
  simp only [hnum] at h
  let e : Row → Row := fun r => { r with cells := eraseFirst (fun x : Cell => x.c == num) r.cells }
  have he : (s.rows.map fun r : Row => { r with
      cells := (eraseFirst (fun x => Facts.C06.removeColMatch (Ref.numToName x.c.toNat) x.c col num) r.cells) }) =
      s.rows.map e := rfl
  rw [he] at h
  let s0 : Sheet := { s with rows := s.rows.map e }
  have hhit : (Facts.C06.rangeCheckFirst && rangeLimitHit s0 .cols num (-1)) = false := by
    simp [rangeLimitHit_neg s0 .cols num (-1) (by omega)]
  have hl' : colLimitHit s0.rows num (-1) = false := by
    unfold colLimitHit
    rw [List.any_eq_false]
    intro r hr
    simp only [Bool.not_eq_true]
    rw [List.any_eq_false]
    intro x hx
    obtain ⟨r0, hr0, rfl⟩ := List.mem_map.mp hr
    have hx0 := eraseFirst_subset _ _ x hx
    have a := (hw.cellsDense r0 hr0).le_length Cell.c x hx0
    have b := hw.colsLe r0 hr0
    simp only [decide_eq_true_eq]
    omega
  let g : Row → Row := fun r =>
    { r with cells := (eraseFirst (fun x : Cell => x.c == num) r.cells).map (shiftCell num (-1)) }
  have hmm : (s0.rows.map fun r => { r with cells := r.cells.map (shiftCell num (-1)) }) = s.rows.map g := by
    simp [s0, e, g, List.map_map, Function.comp_def]
  have hdims : adjustDims s0 .cols num (-1) =
      some { s0 with rows := s.rows.map g, cols := adjustCols s0.cols num (-1) } := by
    unfold adjustDims; simp only [hl', Bool.false_eq_true, if_false, hmm]
  have hdense : DenseK Row.r (s.rows.map g) := by
    intro i y hy
    rw [List.getElem?_map] at hy
    obtain ⟨x, hx, rfl⟩ := Option.map_eq_some_iff.mp hy
    exact hw.rowsDense i x hx
  obtain ⟨outs, hcr, houts⟩ := checkRowAux_lift g s.rows 0 (fun k r hr =>
    ⟨_, (cells_del_slots (0 + k) r.cells (by simpa using hw.cellsOk k r hr) num h1).1⟩)
  have hfw := adjustHelper_forward s0 _ .cols num (-1) (s.rows.map g) outs hhit hdims
    (checkSheet_id _ hdense) hcr
  unfold adjustHelper at hfw
  rw [hfw] at h
  have hk := runAdjusters_kept Facts.C06.adjusters .cols num (-1)
    { ({ s0 with rows := s.rows.map g, cols := adjustCols s0.cols num (-1) } : Sheet) with
      links := adjustHyperlinks s0.links .cols num (-1), rows := outs }
  rw [h] at hk
  have hcore : s'.rows.map core = outs.map core := hk.1
  have hv := cols_view s.rows outs (Spec.delAt num)
    (fun c => by unfold Spec.delAt; split <;> rfl) hw (fun k => by
      refine ⟨(houts k).1, fun r hr => ?_⟩
      obtain ⟨out, ho, hs⟩ := (houts k).2 r hr
      obtain ⟨ho', hc, hform⟩ := cells_del_slots (0 + k) r.cells (by simpa using hw.cellsOk k r hr) num h1
      have eo : out = (eraseFirst (fun x : Cell => x.c == num) r.cells).map (shiftCell num (-1)) := by
        rw [ho] at ho'; exact Except.ok.inj ho'
      subst eo
      exact ⟨_, hs, by simpa using hc, cells_del_view r.cells num h1 _ hform⟩)
  have hview2 : ∀ r, (viewAt s'.rows r).2 = (viewAt outs r).2 := fun r => (view_of_core outs s'.rows hcore.symm r).symm
  refine ⟨WF_of_core outs s'.rows hcore.symm hv.1, ?_, ?_, ?_, hk.2.1⟩
  · intro c r
    have := hv.2.1 c r
    unfold gridAt at this ⊢
    rw [hview2 r]; exact this
  · intro r
    have := congrArg Prod.snd (hv.2.2 r)
    simp only [attrAt] at this ⊢
    rw [hview2 r]
    exact this
  · intro hnone r
    have : s'.rows = outs := (hk.2.2.2 (by simpa [s0] using hnone)).1
    rw [this]; exact hv.2.2 r

/-! ## Column definitions (`ws.Cols`) -/

/-- the attribute token that applies to column `c`: the first `<col>` element whose range covers it -/
def colTokAt : List Col → Int → String
  | [], _ => "-"
  | x :: t, c => if x.min ≤ c ∧ c ≤ x.max then x.tok else colTokAt t c

/-- `adjustCols` on insertion: left of the edit point every column keeps its definition, from `col + n` on
every column has the definition of the column `n` to its left (the strip in between follows the code's
"inherit from the left neighbour" rule and is not constrained by the property) -/
theorem cols_insert_refines (cols : List Col) (col n : Int) (hn : 0 < n) (c : Int) (hc : c ≤ maxCols) :
    (c < col → colTokAt (adjustCols cols col n) c = colTokAt cols c) ∧
    (col + n ≤ c → colTokAt (adjustCols cols col n) c = colTokAt cols (c - n)) := by
  unfold adjustCols
  simp only [hn, if_true]
  induction cols with
  | nil => exact ⟨fun _ => rfl, fun _ => rfl⟩
  | cons x t ih =>
    by_cases hdel : x.min ≥ col ∧ (if x.min ≥ col then x.min + n else x.min) > maxCols
    · have hmin : x.min ≥ col ∧ x.min + n > maxCols := by
        obtain ⟨a, b⟩ := hdel; simp only [a, if_true] at b; exact ⟨a, b⟩
      simp only [adjustColsIns, hmin.1, hmin.2, and_self, if_true]
      constructor
      · intro h1
        have : ¬ (x.min ≤ c ∧ c ≤ x.max) := by omega
        simp only [colTokAt, this, if_false]; exact ih.1 h1
      · intro h2
        have : ¬ (x.min ≤ c - n ∧ c - n ≤ x.max) := by omega
        simp only [colTokAt, this, if_false]; exact ih.2 h2
    · simp only [adjustColsIns, hdel, if_false]
      have hk : ¬ (x.min ≥ col ∧ x.min + n > maxCols) := by
        intro ⟨a, b⟩; exact hdel ⟨a, by simp only [a, if_true]; exact b⟩
      constructor
      · intro h1
        have e : ((if x.min ≥ col then x.min + n else x.min) ≤ c ∧
            c ≤ (if x.max ≥ col ∨ x.max + 1 = col then (if x.max + n > maxCols then maxCols else x.max + n) else x.max)) ↔
            (x.min ≤ c ∧ c ≤ x.max) := by
          split <;> split <;> (try split) <;> constructor <;> intro h <;> omega
        simp only [colTokAt, e]
        split
        · rfl
        · exact ih.1 h1
      · intro h2
        have e : ((if x.min ≥ col then x.min + n else x.min) ≤ c ∧
            c ≤ (if x.max ≥ col ∨ x.max + 1 = col then (if x.max + n > maxCols then maxCols else x.max + n) else x.max)) ↔
            (x.min ≤ c - n ∧ c - n ≤ x.max) := by
          split <;> split <;> (try split) <;> constructor <;> intro h <;> omega
        simp only [colTokAt, e]
        split
        · rfl
        · exact ih.2 h2

/-- `adjustCols` on removal of column `col`: the definitions are those of the remaining columns -/
theorem cols_remove_refines (cols : List Col) (col : Int) (c : Int) :
    colTokAt (adjustCols cols col (-1)) c = Spec.delAt col (colTokAt cols) c := by
  unfold adjustCols
  have h0 : ¬ ((-1 : Int) > 0) := by omega
  simp only [h0, if_false]
  induction cols with
  | nil => unfold Spec.delAt; split <;> rfl
  | cons x t ih =>
    unfold Spec.delAt at ih ⊢
    by_cases hdel : x.min = col ∧ x.max = col
    · simp only [adjustColsDel, hdel, and_self, if_true]
      by_cases c1 : c < col
      · simp only [c1, if_true] at ih ⊢
        have : ¬ (x.min ≤ c ∧ c ≤ x.max) := by omega
        simp only [colTokAt, this, if_false]; exact ih
      · simp only [c1, if_false] at ih ⊢
        have : ¬ (x.min ≤ c + 1 ∧ c + 1 ≤ x.max) := by omega
        simp only [colTokAt, this, if_false]; exact ih
    · simp only [adjustColsDel, hdel, if_false]
      by_cases c1 : c < col
      · simp only [c1, if_true] at ih ⊢
        have e : ((if x.min > col then x.min + -1 else x.min) ≤ c ∧
            c ≤ (if x.max ≥ col then x.max + -1 else x.max)) ↔ (x.min ≤ c ∧ c ≤ x.max) := by
          split <;> split <;> constructor <;> intro h <;> omega
        simp only [colTokAt, e]
        split
        · rfl
        · exact ih
      · simp only [c1, if_false] at ih ⊢
        have e : ((if x.min > col then x.min + -1 else x.min) ≤ c ∧
            c ≤ (if x.max ≥ col then x.max + -1 else x.max)) ↔ (x.min ≤ c + 1 ∧ c + 1 ≤ x.max) := by
          split <;> split <;> constructor <;> intro h <;> omega
        simp only [colTokAt, e]
        split
        · rfl
        · exact ih

/-! ## DuplicateRowTo -/

/-- the three duplicate helpers run in this order (conditional formats, data validations, merged cells) -/
theorem dup_helpers_ok :
    Facts.C06.dupHelpers = ["duplicateConditionalFormat", "duplicateDataValidations", "duplicateMergeCells"] := by
  decide

/-- `DuplicateRowTo`, the grid step: after the one-row insertion at `row2` (state `rows1`, refined by
`insert_rows_refines`' statement) the copy of the source row is placed in the slot of `row2` — padding with
empty row slots when `row2` lies beyond the last row. The result is dense, row `row2` shows exactly what row
`row` showed (hidden flag, attributes, cell styles and payloads), every other row shows the one-row shift of
the old sheet. (`duplicateConditionalFormat` / `duplicateDataValidations` do not touch the rows; the cell
clearing of `duplicateMergeCells` on the copy is modelled (`mergeRowCells`) and compared in the transcript,
not covered by this theorem.) -/
theorem duplicate_refines (rows rows1 : List Row) (hw : WF rows) (hw1 : WF rows1) (row row2 : Int)
    (h1 : 1 ≤ row) (h2 : 1 ≤ row2) (hle : row2 ≤ maxRows)
    (hv1 : ∀ r, viewAt rows1 r = Spec.insAt row2 1 emptyView (viewAt rows) r)
    (rc : Row) (hsrc : rows.find? (fun r => r.r == row) = some rc) :
    WF (placeCopy rows1 row2 (bumpRow (row2 - row) rc)) ∧
    ∀ r, viewAt (placeCopy rows1 row2 (bumpRow (row2 - row) rc)) r =
      if r = row2 then viewAt rows row else Spec.insAt row2 1 emptyView (viewAt rows) r := by
  have hform := placeCopy_getElem rows1 hw1.rowsDense row2 h2 (bumpRow (row2 - row) rc)
  have hrc : rc ∈ rows ∧ rc.r = row := by
    have := List.find?_some hsrc
    exact ⟨List.mem_of_find?_eq_some hsrc, by simpa using this⟩
  obtain ⟨i, hi⟩ := List.mem_iff_getElem?.mp hrc.1
  have hki := hw.rowsDense i rc hi
  have hslot : slotRow rows row = some rc := by
    unfold slotRow
    have : (row - 1).toNat = i := by omega
    simp [h1, this, hi]
  have hcls : ∀ (j : Nat) (y : Row), (placeCopy rows1 row2 (bumpRow (row2 - row) rc))[j]? = some y →
      (y = bumpRow (row2 - row) rc ∧ (j : Int) + 1 = row2) ∨ (rows1[j]? = some y ∧ j < rows1.length) ∨
      (y = ⟨(j : Int) + 1, false, "-", []⟩ ∧ (j : Int) + 1 < row2) := by
    intro j y hy
    rw [hform j] at hy
    by_cases c : (j : Int) + 1 = row2
    · simp only [c, if_true] at hy; exact Or.inl ⟨(Option.some.inj hy).symm, c⟩
    · by_cases cj : j < rows1.length
      · simp only [c, if_false, cj, if_true] at hy; exact Or.inr (Or.inl ⟨hy, cj⟩)
      · by_cases c3 : (j : Int) + 1 < row2
        · simp only [c, if_false, cj, c3, if_true] at hy
          exact Or.inr (Or.inr ⟨(Option.some.inj hy).symm, c3⟩)
        · simp [c, cj, c3] at hy
  constructor
  · refine ⟨?_, ?_, ?_, ?_, ?_⟩
    · intro j y hy
      rcases hcls j y hy with ⟨rfl, h⟩ | ⟨h, _⟩ | ⟨rfl, _⟩
      · simp only [bumpRow]; omega
      · exact hw1.rowsDense j y h
      · rfl
    · intro y hy
      obtain ⟨j, hj⟩ := List.mem_iff_getElem?.mp hy
      rcases hcls j y hj with ⟨rfl, _⟩ | ⟨h, _⟩ | ⟨rfl, _⟩
      · exact bump_cells_dense _ rc (hw.cellsDense rc hrc.1)
      · exact hw1.cellsDense y (List.mem_of_getElem? h)
      · intro k z hz; simp at hz
    · intro y hy z hz
      obtain ⟨j, hj⟩ := List.mem_iff_getElem?.mp hy
      rcases hcls j y hj with ⟨rfl, _⟩ | ⟨h, _⟩ | ⟨rfl, _⟩
      · simp only [bumpRow, List.mem_map] at hz
        obtain ⟨w, _, rfl⟩ := hz
        rfl
      · exact hw1.cellRows y (List.mem_of_getElem? h) z hz
      · simp at hz
    · by_cases c : ((placeCopy rows1 row2 (bumpRow (row2 - row) rc)).length : Int) ≤ maxRows
      · exact c
      · exfalso
        have h7 := hw1.rowsLe
        have hmr : maxRows = 1048576 := by decide
        have hj : maxRows.toNat < (placeCopy rows1 row2 (bumpRow (row2 - row) rc)).length := by omega
        rcases hcls _ _ (List.getElem?_eq_getElem hj) with ⟨_, h⟩ | ⟨_, h⟩ | ⟨_, h⟩ <;> omega
    · intro y hy
      obtain ⟨j, hj⟩ := List.mem_iff_getElem?.mp hy
      rcases hcls j y hj with ⟨rfl, _⟩ | ⟨h, _⟩ | ⟨rfl, _⟩
      · have := hw.colsLe rc hrc.1
        simpa [bumpRow] using this
      · exact hw1.colsLe y (List.mem_of_getElem? h)
      · simp [maxCols]
  · intro r
    by_cases hr : 1 ≤ r
    · have hj : (((r - 1).toNat : Nat) : Int) + 1 = r := by omega
      have e : viewAt (placeCopy rows1 row2 (bumpRow (row2 - row) rc)) r =
          match (placeCopy rows1 row2 (bumpRow (row2 - row) rc))[(r - 1).toNat]? with
          | some x => rowView x
          | none => emptyView := by
        unfold viewAt slotRow; simp only [hr, if_true]; rfl
      rw [e, hform (r - 1).toNat, hj]
      by_cases c : r = row2
      · simp only [c, if_true, rowView_bump]
        unfold viewAt; rw [hslot]
      · simp only [c, if_false]
        rw [← hv1 r]
        have e1 : viewAt rows1 r = match rows1[(r - 1).toNat]? with
            | some x => rowView x
            | none => emptyView := by
          unfold viewAt slotRow; simp only [hr, if_true]; rfl
        rw [e1]
        by_cases cj : (r - 1).toNat < rows1.length
        · simp only [cj, if_true]
        · have hn : rows1[(r - 1).toNat]? = none := List.getElem?_eq_none (by omega)
          simp only [cj, if_false, hn]
          by_cases c3 : r < row2 <;> simp [c3, rowView, emptyView]
    · have c : ¬ r = row2 := by omega
      simp only [c, if_false]
      rw [← hv1 r]
      unfold viewAt slotRow
      simp [hr]

/-! ## Range objects, list level, and rejected edits at full strength -/

/-- an `InsertRows` that passes the argument checks, on a dense sheet with well-formed objects: either one of
the two read-only limit checks rejects it and nothing changes, or it is accepted and the result is explicit -/
theorem insert_rows_total (s : Sheet) (hw : WF s.rows) (ho : ObjWF s) (row n : Int) (hrow : 1 ≤ row) (hn : 1 ≤ n) :
    adjustHelperG false s .rows row n = (.err, s) ∨
    ∃ out, adjustHelperG false s .rows row n = (.ok, { s with
        rows := out,
        links := s.links.map fun l => { l with pos := l.pos.map (insPos .rows row n) },
        cfs := s.cfs.filterMap fun it =>
          if it.rects = [] then none else some { it with rects := it.rects.map (insSqRect .rows row n) },
        dvs := s.dvs.filterMap fun it =>
          if it.rects = [] then none else some { it with rects := it.rects.map (insSqRect .rows row n) },
        merges := s.merges.filterMap fun m => m.bind fun q =>
          if q.x1 = q.x2 ∧ q.y1 = q.y2 then none else some (some (insRect .rows row n q)),
        filter := s.filter.map (fun o => o.map (insRect .rows row n)),
        tables := s.tables.map fun tb => { tb with rect := tb.rect.map (insRect .rows row n) } }) := by
  by_cases hhit' : (Facts.C06.rangeCheckFirst && rangeLimitHit s .rows row n) = true
  · exact Or.inl (adjustHelperG_hit s .rows row n hhit')
  have hhit : (Facts.C06.rangeCheckFirst && rangeLimitHit s .rows row n) = false := by simpa using hhit'
  have hnohit : rangeLimitHit s .rows row n = false := by simpa [range_check_first] using hhit
  cases hd : adjustRowDimensions s.rows row n with
  | none => exact Or.inl (adjustHelperG_dims_none s .rows row n (by unfold adjustDims; simp [hd]))
  | some rows1 =>
    right
    obtain ⟨e1, hlim⟩ := adjustRowDimensions_some s.rows hw.rowsDense row n hrow rows1 hd
    obtain ⟨out, hout, hslots⟩ := rows_ins_slots s.rows hw.rowsDense row n hrow hn
    obtain ⟨hwf, _⟩ := rows_ins_view s.rows hw row n hrow hn (fun hc => hlim hc (by omega)) out hslots
    have hdims : adjustDims s .rows row n = some { s with rows := rows1 } := by
      unfold adjustDims; simp [hd]
    have hfw := adjustHelper_forward s { s with rows := rows1 } .rows row n out out hhit hdims
      (by simpa [e1] using hout) (checkRow_id hwf)
    unfold adjustHelper at hfw
    obtain ⟨hfit, hlk⟩ := no_hit_all s .rows row n (by omega) hnohit
    have hra := runAdjusters_ins
      { ({ s with rows := rows1 } : Sheet) with
        links := adjustHyperlinks ({ s with rows := rows1 } : Sheet).links .rows row n, rows := out }
      .rows row n (by omega) ⟨ho.range.sq, ho.range.merges, ho.range.filter, ho.range.tables⟩ hfit
    have hl := adjustHyperlinks_ins .rows row n (by omega) s.links
      (fun l hl p hp => ⟨(ho.links l hl p hp).1, (ho.links l hl p hp).2, hlk l hl p hp⟩)
    refine ⟨out, ?_⟩
    rw [hfw, hra]
    simp only [hl]

/-- clause "an edit that is rejected … changes nothing on any sheet", `InsertRows`, at full strength: dense
worksheet, well-formed range objects of every kind (conditional formats, data validations, merged cells, auto
filter, tables, hyperlinks) wherever they reach — any status other than `ok` leaves the sheet as it was -/
theorem rejected_noop_insert_rows_all (s s' : Sheet) (hw : WF s.rows) (ho : ObjWF s) (row n : Int)
    (st : Status) (h : insertRows s row n = (st, s')) (hst : st ≠ .ok) : s' = s := by
  unfold insertRows insertRowsG at h
  by_cases g1 : row < 1
  · simp [g1] at h; exact h.2.symm
  by_cases g2 : row ≥ maxRows ∨ n ≥ maxRows
  · simp [g1, g2] at h; exact h.2.symm
  by_cases g3 : n < 1
  · simp [g1, g2, g3] at h; exact h.2.symm
  simp only [g1, g2, g3, if_false] at h
  rcases insert_rows_total s hw ho row n (by omega) (by omega) with he | ⟨out, hk⟩
  · rw [he] at h; exact (Prod.mk.inj h).2.symm
  · rw [hk] at h; exact absurd (Prod.mk.inj h).1.symm hst

/-- clause "shift, grow, shrink or delete range-anchored objects by the same rule", `InsertRows`, list level:
an accepted insertion maps every conditional format, data validation, merged cell, the auto filter, every table
and every hyperlink element by element by the shift rule (order kept; single-cell merges and empty sqrefs dropped) -/
theorem insert_rows_objects_refine (s s' : Sheet) (hw : WF s.rows) (ho : ObjWF s) (row n : Int)
    (h : insertRows s row n = (.ok, s')) :
    s'.links = (s.links.map fun l => { l with pos := l.pos.map (insPos .rows row n) }) ∧
    s'.cfs = (s.cfs.filterMap fun it =>
      if it.rects = [] then none else some { it with rects := it.rects.map (insSqRect .rows row n) }) ∧
    s'.dvs = (s.dvs.filterMap fun it =>
      if it.rects = [] then none else some { it with rects := it.rects.map (insSqRect .rows row n) }) ∧
    s'.merges = (s.merges.filterMap fun m => m.bind fun q =>
      if q.x1 = q.x2 ∧ q.y1 = q.y2 then none else some (some (insRect .rows row n q))) ∧
    s'.filter = s.filter.map (fun o => o.map (insRect .rows row n)) ∧
    s'.tables = (s.tables.map fun tb => { tb with rect := tb.rect.map (insRect .rows row n) }) := by
  unfold insertRows insertRowsG at h
  by_cases g1 : row < 1
  · simp [g1] at h
  by_cases g2 : row ≥ maxRows ∨ n ≥ maxRows
  · simp [g1, g2] at h
  by_cases g3 : n < 1
  · simp [g1, g2, g3] at h
  simp only [g1, g2, g3, if_false] at h
  rcases insert_rows_total s hw ho row n (by omega) (by omega) with he | ⟨out, hk⟩
  · rw [he] at h; cases h
  · rw [hk] at h
    have := (Prod.mk.inj h).2
    subst this
    exact ⟨rfl, rfl, rfl, rfl, rfl, rfl⟩


/-- the same dichotomy for `InsertCols` (column number `num ≥ 1`, count `n ≥ 1`) -/
theorem insert_cols_total (s : Sheet) (hw : WF s.rows) (ho : ObjWF s) (num n : Int) (h1 : 1 ≤ num) (hn : 1 ≤ n) :
    adjustHelperG false s .cols num n = (.err, s) ∨
    ∃ out, adjustHelperG false s .cols num n = (.ok, { s with
        rows := out,
        cols := adjustCols s.cols num n,
        links := s.links.map fun l => { l with pos := l.pos.map (insPos .cols num n) },
        cfs := s.cfs.filterMap fun it =>
          if it.rects = [] then none else some { it with rects := it.rects.map (insSqRect .cols num n) },
        dvs := s.dvs.filterMap fun it =>
          if it.rects = [] then none else some { it with rects := it.rects.map (insSqRect .cols num n) },
        merges := s.merges.filterMap fun m => m.bind fun q =>
          if q.x1 = q.x2 ∧ q.y1 = q.y2 then none else some (some (insRect .cols num n q)),
        filter := s.filter.map (fun o => o.map (insRect .cols num n)),
        tables := s.tables.map fun tb => { tb with rect := tb.rect.map (insRect .cols num n) } }) := by
  by_cases hhit' : (Facts.C06.rangeCheckFirst && rangeLimitHit s .cols num n) = true
  · exact Or.inl (adjustHelperG_hit s .cols num n hhit')
  have hhit : (Facts.C06.rangeCheckFirst && rangeLimitHit s .cols num n) = false := by simpa using hhit'
  have hnohit : rangeLimitHit s .cols num n = false := by simpa [range_check_first] using hhit
  by_cases hl : colLimitHit s.rows num n = true
  · exact Or.inl (adjustHelperG_dims_none s .cols num n (by unfold adjustDims; simp [hl]))
  right
  have hl' : colLimitHit s.rows num n = false := by simpa using hl
  let g : Row → Row := fun r => { r with cells := r.cells.map (shiftCell num n) }
  have hdims : adjustDims s .cols num n =
      some { s with rows := s.rows.map g, cols := adjustCols s.cols num n } := by
    unfold adjustDims; simp [hl', g]
  have hdense : DenseK Row.r (s.rows.map g) := by
    intro i y hy
    rw [List.getElem?_map] at hy
    obtain ⟨x, hx, rfl⟩ := Option.map_eq_some_iff.mp hy
    exact hw.rowsDense i x hx
  have hlim : ∀ (k : Nat) (r : Row), s.rows[k]? = some r →
      num ≤ (r.cells.length : Int) → (r.cells.length : Int) + n ≤ maxCols := by
    intro k r hr hc
    unfold colLimitHit at hl'
    rw [List.any_eq_false] at hl'
    have h2 := hl' r (List.mem_of_getElem? hr)
    simp only [Bool.not_eq_true] at h2
    rw [List.any_eq_false] at h2
    have hlen : 0 < r.cells.length := by omega
    have hx := List.getElem_mem (l := r.cells) (n := r.cells.length - 1) (by omega)
    have h3 := h2 _ hx
    have hk := (hw.cellsDense r (List.mem_of_getElem? hr)) (r.cells.length - 1) _ (List.getElem?_eq_getElem (by omega))
    simp only [decide_eq_true_eq] at h3
    omega
  obtain ⟨outs, hcr, _⟩ := checkRowAux_lift g s.rows 0 (fun k r hr => by
    obtain ⟨out, hout, _⟩ := cells_ins_slots (0 + k) r.cells (by simpa using hw.cellsOk k r hr) num n h1 hn
      (hlim k r hr)
    exact ⟨out, hout⟩)
  have hfw := adjustHelper_forward s _ .cols num n (s.rows.map g) outs hhit hdims
    (checkSheet_id _ hdense) hcr
  unfold adjustHelper at hfw
  obtain ⟨hfit, hlk⟩ := no_hit_all s .cols num n (by omega) hnohit
  have hra := runAdjusters_ins
    { ({ s with rows := s.rows.map g, cols := adjustCols s.cols num n } : Sheet) with
      links := adjustHyperlinks s.links .cols num n, rows := outs }
    .cols num n (by omega) ⟨ho.range.sq, ho.range.merges, ho.range.filter, ho.range.tables⟩ hfit
  have hlinks := adjustHyperlinks_ins .cols num n (by omega) s.links
    (fun l hl p hp => ⟨(ho.links l hl p hp).1, (ho.links l hl p hp).2, hlk l hl p hp⟩)
  refine ⟨outs, ?_⟩
  rw [hfw, hra]
  simp only [hlinks]

/-- … `InsertCols`, rejected edits at full strength -/
theorem rejected_noop_insert_cols_all (s s' : Sheet) (hw : WF s.rows) (ho : ObjWF s) (col : List Char) (num n : Int)
    (hnum : Ref.columnNameToNumber col = .ok num) (h1 : 1 ≤ num)
    (st : Status) (h : insertCols s col n = (st, s')) (hst : st ≠ .ok) : s' = s := by
  unfold insertCols insertColsG at h
  simp only [hnum] at h
  by_cases g1 : n < 1 ∨ n > maxCols
  · simp [g1] at h; exact h.2.symm
  simp only [g1, if_false] at h
  rcases insert_cols_total s hw ho num n h1 (by omega) with he | ⟨out, hk⟩
  · rw [he] at h; exact (Prod.mk.inj h).2.symm
  · rw [hk] at h; exact absurd (Prod.mk.inj h).1.symm hst

/-- … `InsertCols`, range objects at list level -/
theorem insert_cols_objects_refine (s s' : Sheet) (hw : WF s.rows) (ho : ObjWF s) (col : List Char) (num n : Int)
    (hnum : Ref.columnNameToNumber col = .ok num) (h1 : 1 ≤ num)
    (h : insertCols s col n = (.ok, s')) :
    s'.links = (s.links.map fun l => { l with pos := l.pos.map (insPos .cols num n) }) ∧
    s'.cfs = (s.cfs.filterMap fun it =>
      if it.rects = [] then none else some { it with rects := it.rects.map (insSqRect .cols num n) }) ∧
    s'.dvs = (s.dvs.filterMap fun it =>
      if it.rects = [] then none else some { it with rects := it.rects.map (insSqRect .cols num n) }) ∧
    s'.merges = (s.merges.filterMap fun m => m.bind fun q =>
      if q.x1 = q.x2 ∧ q.y1 = q.y2 then none else some (some (insRect .cols num n q))) ∧
    s'.filter = s.filter.map (fun o => o.map (insRect .cols num n)) ∧
    s'.tables = (s.tables.map fun tb => { tb with rect := tb.rect.map (insRect .cols num n) }) := by
  unfold insertCols insertColsG at h
  simp only [hnum] at h
  by_cases g1 : n < 1 ∨ n > maxCols
  · simp [g1] at h
  simp only [g1, if_false] at h
  rcases insert_cols_total s hw ho num n h1 (by omega) with he | ⟨out, hk⟩
  · rw [he] at h; cases h
  · rw [hk] at h
    have := (Prod.mk.inj h).2
    subst this
    exact ⟨rfl, rfl, rfl, rfl, rfl, rfl⟩

/-! ## Removals are never rejected half-way -/

/-- well-formed range objects whose sqref ranges have their corners in order -/
def ObjWFSorted (s : Sheet) : Prop :=
  RangeWF s ∧ ∀ it ∈ s.cfs ++ s.dvs, ∀ q ∈ it.rects, RectValid q

/-- on a dense worksheet with well-formed range objects `RemoveRow(row)` with `row ≥ 1` is always accepted -/
theorem remove_row_accepted (s : Sheet) (hw : WF s.rows) (ho : ObjWFSorted s) (row : Int) (hrow : 1 ≤ row) :
    (removeRow s row).1 = .ok := by
  unfold removeRow removeRowG
  have g1 : ¬ row < 1 := by omega
  simp only [g1, if_false]
  have key : ∀ s0 : Sheet, s0.rows = s.rows.filter (fun r => r.r != row) → s0.cfs = s.cfs → s0.dvs = s.dvs →
      s0.merges = s.merges → s0.filter = s.filter → s0.tables = s.tables →
      (adjustHelperG false s0 .rows row (-1)).1 = .ok := by
    intro s0 hs0 e1 e2 e3 e4 e5
    obtain ⟨out, hout, hslots⟩ := rows_del_slots s.rows hw.rowsDense row hrow
    obtain ⟨hwf, _⟩ := rows_del_view s.rows hw row hrow out hslots
    have hd : adjustRowDimensions s0.rows row (-1) = some (s0.rows.map (shiftRow row (-1))) := by
      unfold adjustRowDimensions
      cases hl : s0.rows.getLast? with
      | none =>
        have : s0.rows = [] := by simpa using hl
        simp [this]
      | some last =>
        have hm := hw.rowsLe
        have hlast : last ∈ s.rows := by
          have : last ∈ s0.rows := List.mem_of_getLast? hl
          rw [hs0] at this
          exact (List.mem_filter.mp this).1
        have := hw.rowsDense.le_length Row.r last hlast
        have hc : ¬ (last.r ≥ row ∧ last.r + -1 > 0 ∧ last.r + -1 > maxRows) := by omega
        simp only [hc, if_false]
    have hdims : adjustDims s0 .rows row (-1) = some { s0 with rows := s0.rows.map (shiftRow row (-1)) } := by
      unfold adjustDims; simp [hd]
    have hfw := adjustHelper_forward s0 _ .rows row (-1) out out
      (by simp [rangeLimitHit_neg s0 .rows row (-1) (by omega)]) hdims
      (by simpa [hs0] using hout) (checkRow_id hwf)
    unfold adjustHelper at hfw
    rw [hfw]
    apply runAdjusters_del_ok _ .rows row hrow
    · exact ⟨by simpa [e1, e2] using ho.1.sq, by simpa [e3] using ho.1.merges, by simpa [e4] using ho.1.filter,
        by simpa [e5] using ho.1.tables⟩
    · simpa [e1, e2] using ho.2
  by_cases g2 : row > (s.rows.length : Int)
  · simp only [g2, if_true]
    exact key s (filter_beyond s.rows hw.rowsDense row g2).symm rfl rfl rfl rfl rfl
  · simp only [g2, if_false]
    exact key _ rfl rfl rfl rfl rfl rfl

/-- clause "a rejected edit changes nothing", `RemoveRow`: the only rejection is the argument check -/
theorem rejected_noop_remove_row (s s' : Sheet) (hw : WF s.rows) (ho : ObjWFSorted s) (row : Int) (st : Status)
    (h : removeRow s row = (st, s')) (hst : st ≠ .ok) : s' = s := by
  by_cases g1 : row < 1
  · unfold removeRow removeRowG at h
    simp [g1] at h; exact h.2.symm
  · have := remove_row_accepted s hw ho row (by omega)
    rw [h] at this
    exact absurd this hst


/-- … and `RemoveCol` with a valid column name (`num ≥ 1`) is always accepted -/
theorem remove_col_accepted (s : Sheet) (hw : WF s.rows) (ho : ObjWFSorted s) (col : List Char) (num : Int)
    (hnum : Ref.columnNameToNumber col = .ok num) (h1 : 1 ≤ num) : (removeCol s col).1 = .ok := by
  unfold removeCol removeColG
  simp only [hnum]
  let e : Row → Row := fun r => { r with cells := eraseFirst (fun x : Cell => x.c == num) r.cells }
  have he : (s.rows.map fun r : Row => { r with
      cells := (eraseFirst (fun x => Facts.C06.removeColMatch (Ref.numToName x.c.toNat) x.c col num) r.cells) }) =
      s.rows.map e := rfl
  rw [he]
  let s0 : Sheet := { s with rows := s.rows.map e }
  have hhit : (Facts.C06.rangeCheckFirst && rangeLimitHit s0 .cols num (-1)) = false := by
    simp [rangeLimitHit_neg s0 .cols num (-1) (by omega)]
  have hl' : colLimitHit s0.rows num (-1) = false := by
    unfold colLimitHit
    rw [List.any_eq_false]
    intro r hr
    simp only [Bool.not_eq_true]
    rw [List.any_eq_false]
    intro x hx
    obtain ⟨r0, hr0, rfl⟩ := List.mem_map.mp hr
    have hx0 := eraseFirst_subset _ _ x hx
    have a := (hw.cellsDense r0 hr0).le_length Cell.c x hx0
    have b := hw.colsLe r0 hr0
    simp only [decide_eq_true_eq]
    omega
  let g : Row → Row := fun r =>
    { r with cells := (eraseFirst (fun x : Cell => x.c == num) r.cells).map (shiftCell num (-1)) }
  have hmm : (s0.rows.map fun r => { r with cells := r.cells.map (shiftCell num (-1)) }) = s.rows.map g := by
    simp [s0, e, g, List.map_map, Function.comp_def]
  have hdims : adjustDims s0 .cols num (-1) =
      some { s0 with rows := s.rows.map g, cols := adjustCols s0.cols num (-1) } := by
    unfold adjustDims; simp only [hl', Bool.false_eq_true, if_false, hmm]
  have hdense : DenseK Row.r (s.rows.map g) := by
    intro i y hy
    rw [List.getElem?_map] at hy
    obtain ⟨x, hx, rfl⟩ := Option.map_eq_some_iff.mp hy
    exact hw.rowsDense i x hx
  obtain ⟨outs, hcr, _⟩ := checkRowAux_lift g s.rows 0 (fun k r hr =>
    ⟨_, (cells_del_slots (0 + k) r.cells (by simpa using hw.cellsOk k r hr) num h1).1⟩)
  have hfw := adjustHelper_forward s0 _ .cols num (-1) (s.rows.map g) outs hhit hdims
    (checkSheet_id _ hdense) hcr
  unfold adjustHelper at hfw
  show (adjustHelperG false s0 .cols num (-1)).1 = .ok
  rw [hfw]
  exact runAdjusters_del_ok _ .cols num h1 ⟨ho.1.sq, ho.1.merges, ho.1.filter, ho.1.tables⟩ ho.2

/-- clause "a rejected edit changes nothing", `RemoveCol`: the only rejection is an invalid column name -/
theorem rejected_noop_remove_col (s s' : Sheet) (hw : WF s.rows) (ho : ObjWFSorted s) (col : List Char) (st : Status)
    (hpos : ∀ num, Ref.columnNameToNumber col = .ok num → 1 ≤ num)
    (h : removeCol s col = (st, s')) (hst : st ≠ .ok) : s' = s := by
  cases hn : Ref.columnNameToNumber col with
  | error e =>
    unfold removeCol removeColG at h
    simp only [hn] at h
    exact (Prod.mk.inj h).2.symm
  | ok num =>
    have := remove_col_accepted s hw ho col num hn (hpos num hn)
    rw [h] at this
    exact absurd this hst

/-- Round 5, clause "duplication relocates range-anchored objects with the row", both directions: the row the
duplicate helpers search (`srcAfter`) is where the one-row insertion at `row2` has put the source row —
unchanged when the target is below the source, one further down when the target is above it. -/
theorem duplicate_source_row_tracked (row row2 : Int) (hne : row ≠ row2) :
    srcAfter row row2 = Spec.posIns row2 1 row ∧
    (row2 < row → srcAfter row row2 = row + 1) ∧ (row < row2 → srcAfter row row2 = row) := by
  refine ⟨srcAfter_eq_posIns row row2 hne, ?_, ?_⟩ <;> intro h <;> unfold srcAfter <;> split <;> omega

/-- Round 5, `DuplicateRowTo` on conditional formats / data validations (`duplicateConditionalFormat`,
`duplicateDataValidations`, `duplicateSQRefHelper`), target above or below the source alike: for items whose
references lie inside the sheet with ordered corners and are not cut at the last row by the insertion, the
insertion step of `DuplicateRowTo` (`adjustSqItems .rows row2 1`) succeeds, and the duplicate step appends —
after the shifted items, in order — exactly one copy per item that had a single-row reference on the
*source row before the call*, carrying exactly those references moved to `row2` (same columns, same
payload); items of the neighbouring rows and multi-row ranges contribute nothing. -/
theorem duplicate_sq_copies_exact (row row2 : Int) (hne : row ≠ row2) (h2 : 1 ≤ row2 ∧ row2 ≤ maxRows)
    (its : List SqItem)
    (h : ∀ it ∈ its, ∀ q ∈ it.rects, rectOk q = true ∧ q.y1 ≤ q.y2 ∧ Spec.posIns row2 1 q.y2 ≤ maxRows) :
    adjustSqItems .rows row2 1 its = (.ok, insItems row2 its) ∧
    dupSqStep row row2 (insItems row2 its) = (.ok, insItems row2 its ++ its.filterMap (dupItem row row2)) := by
  constructor
  · exact adjustSqItems_ins .rows row2 1 (by omega) its
      (fun it hit q hq => ⟨(h it hit q hq).1, (uncut_ok row2 h2.1 q (h it hit q hq)).1⟩)
  · unfold dupSqStep
    rw [dupSqItems_eq (srcAfter row row2) row2 h2 _ (insItems_ok row2 h2.1 its h),
      dupItems_after_insert row row2 hne h2 its h]

/-- non-vacuity and the upward witness of finding 8: CF `A3`, `A4:C4`, `A5` on rows 3, 4, 5 and a two-row range;
`DuplicateRowTo(4, 2)` appends the copy of the row-4 format alone, on row 2 -/
theorem witness_duplicate_upward :
    dupSqStep 4 2 (insItems 2 [⟨[⟨1,3,1,3⟩], "a"⟩, ⟨[⟨1,4,3,4⟩], "b"⟩, ⟨[⟨1,5,1,5⟩], "c"⟩, ⟨[⟨1,3,2,4⟩], "d"⟩])
      = (.ok, [⟨[⟨1,4,1,4⟩], "a"⟩, ⟨[⟨1,5,3,5⟩], "b"⟩, ⟨[⟨1,6,1,6⟩], "c"⟩, ⟨[⟨1,4,2,5⟩], "d"⟩, ⟨[⟨1,2,3,2⟩], "b"⟩]) := by
  decide +kernel

/-- Round 5 (third wave), `DuplicateRowTo` composed into one statement for the range-anchored objects of the
source row: on a dense sheet with well-formed objects whose conditional formats / data validations are ordered
and not cut at the last row by the insertion, an accepted `DuplicateRowTo(row, row2)` of a stored source row
(target above or below) leaves as conditional formats (data validations) exactly the old ones shifted by the
one-row insertion at `row2`, followed — in order — by one copy per item that had a single-row reference on
`row` before the call, on `row2` (insertion step + `duplicateConditionalFormat` + `duplicateDataValidations` +
`duplicateMergeCells` through `runDupHelpers` over the regenerated helper list). -/
theorem duplicate_row_to_objects (s s' : Sheet) (hw : WF s.rows) (ho : ObjWF s) (row row2 : Int)
    (h1 : 1 ≤ row) (h2 : 1 ≤ row2) (hlt : row2 < maxRows) (hne : row ≠ row2)
    (hsrc : (s.rows.find? (fun r => r.r == row)).isSome = true)
    (hcf : ∀ it ∈ s.cfs, ∀ q ∈ it.rects, rectOk q = true ∧ q.y1 ≤ q.y2 ∧ Spec.posIns row2 1 q.y2 ≤ maxRows)
    (hdv : ∀ it ∈ s.dvs, ∀ q ∈ it.rects, rectOk q = true ∧ q.y1 ≤ q.y2 ∧ Spec.posIns row2 1 q.y2 ≤ maxRows)
    (h : duplicateRowTo s row row2 = (.ok, s')) :
    s'.cfs = insItems row2 s.cfs ++ s.cfs.filterMap (dupItem row row2) ∧
    s'.dvs = insItems row2 s.dvs ++ s.dvs.filterMap (dupItem row row2) := by
  unfold duplicateRowTo duplicateRowToG at h
  have g1 : ¬ row < 1 := by omega
  have g2 : ¬ (row2 < 1 ∨ row = row2) := by omega
  simp only [g1, g2, if_false] at h
  cases hadj : adjustHelperG false s .rows row2 1 with
  | mk st s1 =>
    rw [hadj] at h
    cases st with
    | ok =>
      have hins : insertRows s row2 1 = (.ok, s1) := by
        unfold insertRows insertRowsG
        have a1 : ¬ row2 < 1 := by omega
        have a2 : ¬ (row2 ≥ maxRows ∨ (1 : Int) ≥ maxRows) := by omega
        have a3 : ¬ ((1 : Int) < 1) := by omega
        simp only [a1, a2, a3, if_false, hadj]
      obtain ⟨_, hc, hd, _⟩ := insert_rows_objects_refine s s1 hw ho row2 1 hins
      cases hf : s.rows.find? (fun r => r.r == row) with
      | none => rw [hf] at hsrc; cases hsrc
      | some rc =>
        rw [hf] at h
        simp only at h
        rw [dup_helpers_ok] at h
        have e1 := (duplicate_sq_copies_exact row row2 hne ⟨h2, by omega⟩ s.cfs hcf).2
        have e2 := (duplicate_sq_copies_exact row row2 hne ⟨h2, by omega⟩ s.dvs hdv).2
        have hc' : s1.cfs = insItems row2 s.cfs := hc
        have hd' : s1.dvs = insItems row2 s.dvs := hd
        simp only [runDupHelpers, runDupHelper, if_true, hc', hd', e1, e2,
          show ("duplicateDataValidations" = "duplicateConditionalFormat") = False from by decide,
          show ("duplicateMergeCells" = "duplicateConditionalFormat") = False from by decide,
          show ("duplicateMergeCells" = "duplicateDataValidations") = False from by decide, if_false] at h
        split at h
        · rename_i s2 hm
          have hk := dupMerges_keeps _ _ _ _ _ hm
          cases h
          exact hk
        · rename_i st2 s2 _ hm
          have hk := dupMerges_keeps _ _ _ _ _ hm
          cases h
          exact hk
    | _ => cases h

end XlModel.Props.C06
