/-
C07 — formula references keep denoting the same cells across structural edits.

Property theorems about `XlModel.FormulaRef` (transcription of adjust.go's
`adjustFormulaRef` / `adjustFormulaOperand` / `adjustFormulaColumnName` /
`adjustFormulaRowNumber` / `escapeSheetName`). Every theorem quantifies over all
references (all 16384 columns, all rows, every `$` combination), all edits and
all token lists.
-/
import XlModel.Lemmas.FormulaRef10

namespace XlModel.Props.C07
open XlModel XlModel.Ref XlModel.FormulaRef

/-! ## Facts: the guards of the Go functions the model transcribes -/

/-- Tie: the guard skeleton regenerated from adjust.go is the one `Impl` transcribes
(comparison operators, character classes, branch order, floor/limit constants). -/
theorem facts_guards :
    Facts.C07.guardsColumnName =
      ["name==\"\"||(!abs&&keepRelative)", "_!=nil", "dir==columns&&_>=num", "_+=offset;_<1"] ∧
    Facts.C07.guardsRowNumber =
      ["name==\"\"||(!abs&&keepRelative)", "dir==rows&&_>=num", "_+=offset;_<1", "_>TotalRows"] ∧
    Facts.C07.guardsOperandRef = ["_!=nil"] ∧
    Facts.C07.guardsOperand =
      ["_:=strings.LastIndex(_.TValue,\"!\");_!=-1", "sheetName==\"\"", "sheet!=sheetName", "_==36",
       "_,_,_,_=adjustFormulaColumnName(_,_,abs,keepRelative,dir,num,offset);_!=nil",
       "(65<=_&&_<=90)||(97<=_&&_<=122)", "48<=_&&_<=57", "_!=nil",
       "_,_,_,abs,_=adjustFormulaOperandRef(_,_,_,abs,keepRelative,dir,num,offset);_!=nil"] ∧
    Facts.C07.guardsRef =
      ["_.Scope==\"Workbook\"||_.Scope==sheet", "_.TType==efp.TokenTypeUnknown", "_,_:=_[_];_",
       "_.TType==efp.TokenTypeOperand&&_.TSubType==efp.TokenSubTypeRange",
       "inStrSlice(_,_.TValue,true)!=-1", "strings.ContainsAny(_.TValue,\"[]\")", "_!=nil",
       "_:=transformParenthesesToken(_);_!=\"\"",
       "_.TType==efp.TokenTypeOperand&&_.TSubType==efp.TokenSubTypeText",
       "_.TType==efp.TokenTypeOperatorInfix&&_.TSubType==efp.TokenSubTypeIntersection"] ∧
    Facts.C07.guardsParen =
      ["isFunctionStartToken(_)||isBeginParenthesesToken(_)", "isFunctionStopToken(_)||isEndParenthesesToken(_)"] ∧
    Facts.C07.guardsEscape =
      ["strings.IndexFunc(name,func{!unicode.IsLetter(_)&&!unicode.IsNumber(_)})!=-1||needQuoteSheetName(name)"] ∧
    Facts.C07.guardsArray =
      ["isFunctionStartToken(_)||isBeginParenthesesToken(_)",
       "isFunctionStartToken(_)&&_.TValue==\"ARRAY\"&&isRowStart(_+1)",
       "isRowStart(_)&&len(_)>0&&_[len(_)-1]==\"{\"",
       "(isFunctionStopToken(_)||isEndParenthesesToken(_))&&len(_)>0", "_==\"{\"", "_==\";\"",
       "_[_]=\"\";_+1<len(_)&&_[_+1].TType==efp.TokenTypeArgument&&isRowStart(_+2)"] ∧
    Facts.C07.guardsNeedQuote =
      ["name==\"\"", "_,_:=_.DecodeRuneInString(name);unicode.IsNumber(_)",
       "_,_,_:=CellNameToCoordinates(name);_==nil"] := by
  decide

/-- Tie: literal constants of the rewriter (character classes, separator, floors, quotes). -/
theorem facts_constants :
    Facts.C07.dollar = 36 ∧ Facts.C07.upperLo = 65 ∧ Facts.C07.upperHi = 90 ∧ Facts.C07.lowerLo = 97 ∧
    Facts.C07.lowerHi = 122 ∧ Facts.C07.digitLo = 48 ∧ Facts.C07.digitHi = 57 ∧ Facts.C07.sheetSep = 33 ∧
    Facts.C07.colFloor = 1 ∧ Facts.C07.colFloorSet = 1 ∧ Facts.C07.rowFloor = 1 ∧
    Facts.C07.rowFloorSet = 1 ∧ Facts.C07.textQuote = 34 ∧ Facts.C07.sheetQuote = 39 ∧
    Facts.MaxColumns = 16384 ∧ Facts.TotalRows = 1048576 := by
  decide

/-! ## The operand automaton rewrites every reference of the grammar to its relocation -/

/-- **operand_rewrite_correct** — clause "every formula is rewritten so that each reference still
denotes the same cells at their new position", at the level of one reference: for EVERY reference
of the grammar (cell, range, whole columns, whole rows; all columns `A..XFD`, all rows, every `$`
combination), every edit (rows or columns, insert or delete, any position and count) and both
`keepRelative` modes, if no (moving) endpoint lies in a deleted row/column and the relocated
reference stays in the grid, `adjustFormulaOperand`'s character automaton turns the rendered
reference into exactly the rendering of `Spec.shiftRef` (appended to the sheet prefix `op0`). -/
theorem operand_rewrite_correct (kr : Bool) (e : Edit) (r r' : Spec.Ref) (op0 : Str)
    (hg : Spec.inGrid r) (hs : Spec.shiftRef kr e r = some r') (hg' : Spec.inGrid r') :
    Impl.adjustCell kr e op0 (Spec.render r) = .ok (op0 ++ Spec.render r') := by
  cases r with
  | cell c ro =>
    simp only [Spec.shiftRef] at hs
    cases hc : Spec.shiftCol kr e c with
    | none => simp [hc] at hs
    | some c' =>
      cases hr : Spec.shiftRow kr e ro with
      | none => simp [hc, hr] at hs
      | some ro' =>
        simp only [hc, hr, Option.some.injEq] at hs
        subst hs
        obtain ⟨g1, g2⟩ := hg
        obtain ⟨g1', g2'⟩ := hg'
        exact adjustCell_single kr e op0 _ _ (runEnd_cell kr e c c' ro ro' op0 (fun op => adjCol_render kr e c c' op g1 hc g1') (shiftCol_abs kr e hc)
          (fun op => adjRow_render kr e ro ro' op g2 hr g2') (shiftRow_abs kr e hr))
  | range c1 r1 c2 r2 =>
    simp only [Spec.shiftRef] at hs
    cases h1 : Spec.shiftCol kr e c1 with
    | none => simp [h1] at hs
    | some c1' =>
      cases h2 : Spec.shiftRow kr e r1 with
      | none => simp [h1, h2] at hs
      | some r1' =>
        cases h3 : Spec.shiftCol kr e c2 with
        | none => simp [h1, h2, h3] at hs
        | some c2' =>
          cases h4 : Spec.shiftRow kr e r2 with
          | none => simp [h1, h2, h3, h4] at hs
          | some r2' =>
            simp only [h1, h2, h3, h4, Option.some.injEq] at hs
            subst hs
            obtain ⟨g1, g2, g3, g4⟩ := hg
            obtain ⟨g1', g2', g3', g4'⟩ := hg'
            have hX := runEnd_cell kr e c1 c1' r1 r1' op0 (fun op => adjCol_render kr e c1 c1' op g1 h1 g1') (shiftCol_abs kr e h1)
              (fun op => adjRow_render kr e r1 r1' op g2 h2 g2') (shiftRow_abs kr e h2)
            have hY := runEnd_cell kr e c2 c2' r2 r2' (op0 ++ (Spec.renderCol c1' ++ Spec.renderRow r1') ++ [':'])
              (fun op => adjCol_render kr e c2 c2' op g3 h3 g3') (shiftCol_abs kr e h3)
              (fun op => adjRow_render kr e r2 r2' op g4 h4 g4') (shiftRow_abs kr e h4)
            have := adjustCell_range kr e op0 _ _ _ _ hX hY
            simpa [Spec.render, List.append_assoc] using this
  | cols c1 c2 =>
    simp only [Spec.shiftRef] at hs
    cases h1 : Spec.shiftCol kr e c1 with
    | none => simp [h1] at hs
    | some c1' =>
      cases h3 : Spec.shiftCol kr e c2 with
      | none => simp [h1, h3] at hs
      | some c2' =>
        simp only [h1, h3, Option.some.injEq] at hs
        subst hs
        obtain ⟨g1, g3⟩ := hg
        obtain ⟨g1', g3'⟩ := hg'
        have hX := runEnd_col kr e c1 c1' op0 (fun op => adjCol_render kr e c1 c1' op g1 h1 g1') (shiftCol_abs kr e h1)
        have hY := runEnd_col kr e c2 c2' (op0 ++ Spec.renderCol c1' ++ [':']) (fun op => adjCol_render kr e c2 c2' op g3 h3 g3') (shiftCol_abs kr e h3)
        have := adjustCell_range kr e op0 _ _ _ _ hX hY
        simpa [Spec.render, List.append_assoc] using this
  | rows r1 r2 =>
    simp only [Spec.shiftRef] at hs
    cases h2 : Spec.shiftRow kr e r1 with
    | none => simp [h2] at hs
    | some r1' =>
      cases h4 : Spec.shiftRow kr e r2 with
      | none => simp [h2, h4] at hs
      | some r2' =>
        simp only [h2, h4, Option.some.injEq] at hs
        subst hs
        obtain ⟨g2, g4⟩ := hg
        obtain ⟨g2', g4'⟩ := hg'
        have hX := runEnd_row kr e r1 r1' op0 (fun op => adjRow_render kr e r1 r1' op g2 h2 g2') (shiftRow_abs kr e h2)
        have hY := runEnd_row kr e r2 r2' (op0 ++ Spec.renderRow r1' ++ [':']) (fun op => adjRow_render kr e r2 r2' op g4 h4 g4') (shiftRow_abs kr e h4)
        have := adjustCell_range kr e op0 _ _ _ _ hX hY
        simpa [Spec.render, List.append_assoc] using this

/-! ## Markers are preserved -/

/-- **markers_preserved** — clause "absolute/relative markers are preserved": relocation never
changes a `$` flag nor the shape of the reference. -/
theorem markers_preserved (kr : Bool) (e : Edit) (r r' : Spec.Ref) (hs : Spec.shiftRef kr e r = some r') :
    match r, r' with
    | .cell c ro, .cell c' ro' => c'.abs = c.abs ∧ ro'.abs = ro.abs
    | .range c1 r1 c2 r2, .range c1' r1' c2' r2' =>
        c1'.abs = c1.abs ∧ r1'.abs = r1.abs ∧ c2'.abs = c2.abs ∧ r2'.abs = r2.abs
    | .cols c1 c2, .cols c1' c2' => c1'.abs = c1.abs ∧ c2'.abs = c2.abs
    | .rows r1 r2, .rows r1' r2' => r1'.abs = r1.abs ∧ r2'.abs = r2.abs
    | _, _ => False := by
  cases r with
  | cell c ro =>
    simp only [Spec.shiftRef] at hs
    cases hc : Spec.shiftCol kr e c with
    | none => simp [hc] at hs
    | some c' =>
      cases hr : Spec.shiftRow kr e ro with
      | none => simp [hc, hr] at hs
      | some ro' =>
        simp only [hc, hr, Option.some.injEq] at hs
        subst hs
        exact ⟨shiftCol_abs kr e hc, shiftRow_abs kr e hr⟩
  | range c1 r1 c2 r2 =>
    simp only [Spec.shiftRef] at hs
    cases h1 : Spec.shiftCol kr e c1 with
    | none => simp [h1] at hs
    | some c1' =>
      cases h2 : Spec.shiftRow kr e r1 with
      | none => simp [h1, h2] at hs
      | some r1' =>
        cases h3 : Spec.shiftCol kr e c2 with
        | none => simp [h1, h2, h3] at hs
        | some c2' =>
          cases h4 : Spec.shiftRow kr e r2 with
          | none => simp [h1, h2, h3, h4] at hs
          | some r2' =>
            simp only [h1, h2, h3, h4, Option.some.injEq] at hs
            subst hs
            exact ⟨shiftCol_abs kr e h1, shiftRow_abs kr e h2, shiftCol_abs kr e h3, shiftRow_abs kr e h4⟩
  | cols c1 c2 =>
    simp only [Spec.shiftRef] at hs
    cases h1 : Spec.shiftCol kr e c1 with
    | none => simp [h1] at hs
    | some c1' =>
      cases h3 : Spec.shiftCol kr e c2 with
      | none => simp [h1, h3] at hs
      | some c2' =>
        simp only [h1, h3, Option.some.injEq] at hs
        subst hs
        exact ⟨shiftCol_abs kr e h1, shiftCol_abs kr e h3⟩
  | rows r1 r2 =>
    simp only [Spec.shiftRef] at hs
    cases h2 : Spec.shiftRow kr e r1 with
    | none => simp [h2] at hs
    | some r1' =>
      cases h4 : Spec.shiftRow kr e r2 with
      | none => simp [h2, h4] at hs
      | some r2' =>
        simp only [h2, h4, Option.some.injEq] at hs
        subst hs
        exact ⟨shiftRow_abs kr e h2, shiftRow_abs kr e h4⟩

/-- the rendered text carries exactly one `$` per absolute coordinate, in front of it: the
rewritten operand of a cell reference is `$?COL'$?ROW'` with the original flags (corollary of
`operand_rewrite_correct` and `markers_preserved`, spelled out for the cell shape). -/
theorem cell_markers_in_text (kr : Bool) (e : Edit) (c c' : Spec.ColEnd) (ro ro' : Spec.RowEnd)
    (hg : Spec.inGrid (.cell c ro)) (hs : Spec.shiftRef kr e (.cell c ro) = some (.cell c' ro'))
    (hg' : Spec.inGrid (.cell c' ro')) :
    Impl.adjustCell kr e [] (Spec.render (.cell c ro)) =
      .ok (Spec.dollarIf c.abs ++ numToName c'.n ++ (Spec.dollarIf ro.abs ++ itoa ro'.n)) := by
  have h := operand_rewrite_correct kr e _ _ [] hg hs hg'
  have m := markers_preserved kr e _ _ hs
  simp only at m
  rw [h]
  simp [Spec.render, Spec.renderCol, Spec.renderRow, m.1, m.2]

/-! ## Same cells: the denotation of the relocated reference -/

/-- **denote_shift** — the semantic clause "each reference still denotes the same cells at their
new position": for every reference none of whose endpoints is deleted, and every surviving grid
cell `p` that the edit moves to `p'`, the relocated reference denotes `p'` iff the original
denoted `p`. (Cells of inserted rows/columns have no pre-image; they are blank.) -/
theorem denote_shift (e : Edit) (hn : 0 ≤ e.num) (r r' : Spec.Ref) (p p' : Nat × Nat)
    (hs : Spec.shiftRef false e r = some r') (hp : Spec.shiftPos e p = some p')
    (hok : posOk p) (hok' : posOk p') :
    Spec.denote r' p' ↔ Spec.denote r p := by
  obtain ⟨px, py⟩ := p
  obtain ⟨px', py'⟩ := p'
  obtain ⟨o1, o2, o3, o4⟩ := hok
  obtain ⟨o1', o2', o3', o4'⟩ := hok'
  simp only at o1 o2 o3 o4 o1' o2' o3' o4'
  cases hd : e.dir with
  | cols =>
    have hpx : Spec.shiftIdx e.num e.off px = some px' ∧ py' = py := by
      unfold Spec.shiftPos at hp
      simp only [hd] at hp
      cases hx : Spec.shiftIdx e.num e.off px with
      | none => simp [hx] at hp
      | some j => simp [hx] at hp; exact ⟨by rw [hp.1], hp.2.symm⟩
    obtain ⟨hpx, rfl⟩ := hpx
    cases r with
    | cell c ro =>
      simp only [Spec.shiftRef] at hs
      cases hc : Spec.shiftCol false e c with
      | none => simp [hc] at hs
      | some c' =>
        cases hr : Spec.shiftRow false e ro with
        | none => simp [hc, hr] at hs
        | some ro' =>
          simp only [hc, hr, Option.some.injEq] at hs
          subst hs
          have := eq_of_shift hn (shiftCol_cols hd hc) hpx
          simp only [Spec.denote, shiftRow_cols hd hr, this]
    | range c1 r1 c2 r2 =>
      simp only [Spec.shiftRef] at hs
      cases h1 : Spec.shiftCol false e c1 with
      | none => simp [h1] at hs
      | some c1' =>
        cases h2 : Spec.shiftRow false e r1 with
        | none => simp [h1, h2] at hs
        | some r1' =>
          cases h3 : Spec.shiftCol false e c2 with
          | none => simp [h1, h2, h3] at hs
          | some c2' =>
            cases h4 : Spec.shiftRow false e r2 with
            | none => simp [h1, h2, h3, h4] at hs
            | some r2' =>
              simp only [h1, h2, h3, h4, Option.some.injEq] at hs
              subst hs
              have := between_of_shift hn (shiftCol_cols hd h1) (shiftCol_cols hd h3) hpx
              simp only [Spec.denote, shiftRow_cols hd h2, shiftRow_cols hd h4]
              constructor
              · intro ⟨a, b, c, d⟩; have := this.mp ⟨a, b⟩; exact ⟨this.1, this.2, c, d⟩
              · intro ⟨a, b, c, d⟩; have := this.mpr ⟨a, b⟩; exact ⟨this.1, this.2, c, d⟩
    | cols c1 c2 =>
      simp only [Spec.shiftRef] at hs
      cases h1 : Spec.shiftCol false e c1 with
      | none => simp [h1] at hs
      | some c1' =>
        cases h3 : Spec.shiftCol false e c2 with
        | none => simp [h1, h3] at hs
        | some c2' =>
          simp only [h1, h3, Option.some.injEq] at hs
          subst hs
          have := between_of_shift hn (shiftCol_cols hd h1) (shiftCol_cols hd h3) hpx
          simp only [Spec.denote]
          constructor
          · intro ⟨a, b, c, d⟩; have := this.mp ⟨a, b⟩; exact ⟨this.1, this.2, c, d⟩
          · intro ⟨a, b, c, d⟩; have := this.mpr ⟨a, b⟩; exact ⟨this.1, this.2, c, d⟩
    | rows r1 r2 =>
      simp only [Spec.shiftRef] at hs
      cases h2 : Spec.shiftRow false e r1 with
      | none => simp [h2] at hs
      | some r1' =>
        cases h4 : Spec.shiftRow false e r2 with
        | none => simp [h2, h4] at hs
        | some r2' =>
          simp only [h2, h4, Option.some.injEq] at hs
          subst hs
          simp only [Spec.denote, shiftRow_cols hd h2, shiftRow_cols hd h4]
          constructor
          · intro ⟨a, b, _, _⟩; exact ⟨a, b, o1, o2⟩
          · intro ⟨a, b, _, _⟩; exact ⟨a, b, o1', o2'⟩
  | rows =>
    have hpy : Spec.shiftIdx e.num e.off py = some py' ∧ px' = px := by
      unfold Spec.shiftPos at hp
      simp only [hd] at hp
      cases hx : Spec.shiftIdx e.num e.off py with
      | none => simp [hx] at hp
      | some j => simp [hx] at hp; exact ⟨by rw [hp.2], hp.1.symm⟩
    obtain ⟨hpy, rfl⟩ := hpy
    cases r with
    | cell c ro =>
      simp only [Spec.shiftRef] at hs
      cases hc : Spec.shiftCol false e c with
      | none => simp [hc] at hs
      | some c' =>
        cases hr : Spec.shiftRow false e ro with
        | none => simp [hc, hr] at hs
        | some ro' =>
          simp only [hc, hr, Option.some.injEq] at hs
          subst hs
          have := eq_of_shift hn (shiftRow_rows hd hr) hpy
          simp only [Spec.denote, shiftCol_rows hd hc, this]
    | range c1 r1 c2 r2 =>
      simp only [Spec.shiftRef] at hs
      cases h1 : Spec.shiftCol false e c1 with
      | none => simp [h1] at hs
      | some c1' =>
        cases h2 : Spec.shiftRow false e r1 with
        | none => simp [h1, h2] at hs
        | some r1' =>
          cases h3 : Spec.shiftCol false e c2 with
          | none => simp [h1, h2, h3] at hs
          | some c2' =>
            cases h4 : Spec.shiftRow false e r2 with
            | none => simp [h1, h2, h3, h4] at hs
            | some r2' =>
              simp only [h1, h2, h3, h4, Option.some.injEq] at hs
              subst hs
              have := between_of_shift hn (shiftRow_rows hd h2) (shiftRow_rows hd h4) hpy
              simp only [Spec.denote, shiftCol_rows hd h1, shiftCol_rows hd h3]
              constructor
              · intro ⟨a, b, c, d⟩; have := this.mp ⟨c, d⟩; exact ⟨a, b, this.1, this.2⟩
              · intro ⟨a, b, c, d⟩; have := this.mpr ⟨c, d⟩; exact ⟨a, b, this.1, this.2⟩
    | cols c1 c2 =>
      simp only [Spec.shiftRef] at hs
      cases h1 : Spec.shiftCol false e c1 with
      | none => simp [h1] at hs
      | some c1' =>
        cases h3 : Spec.shiftCol false e c2 with
        | none => simp [h1, h3] at hs
        | some c2' =>
          simp only [h1, h3, Option.some.injEq] at hs
          subst hs
          simp only [Spec.denote, shiftCol_rows hd h1, shiftCol_rows hd h3]
          constructor
          · intro ⟨a, b, _, _⟩; exact ⟨a, b, o3, o4⟩
          · intro ⟨a, b, _, _⟩; exact ⟨a, b, o3', o4'⟩
    | rows r1 r2 =>
      simp only [Spec.shiftRef] at hs
      cases h2 : Spec.shiftRow false e r1 with
      | none => simp [h2] at hs
      | some r1' =>
        cases h4 : Spec.shiftRow false e r2 with
        | none => simp [h2, h4] at hs
        | some r2' =>
          simp only [h2, h4, Option.some.injEq] at hs
          subst hs
          have := between_of_shift hn (shiftRow_rows hd h2) (shiftRow_rows hd h4) hpy
          simp only [Spec.denote]
          constructor
          · intro ⟨a, b, c, d⟩; have := this.mp ⟨a, b⟩; exact ⟨this.1, this.2, c, d⟩
          · intro ⟨a, b, c, d⟩; have := this.mpr ⟨a, b⟩; exact ⟨this.1, this.2, c, d⟩

/-! ## Which sheet is compared with which; sheet prefixes -/

/-- **formula_on_edited_sheet** — an unprefixed reference in a formula that lives on the edited
sheet is relocated (`adjustFormulaOperand` level). -/
theorem operand_unprefixed_same_sheet (sheet : Str) (kr : Bool) (e : Edit) (r r' : Spec.Ref)
    (hg : Spec.inGrid r) (hs : Spec.shiftRef kr e r = some r') (hg' : Spec.inGrid r') :
    Impl.adjustOperand sheet sheet kr e (Spec.render r) = .ok (Spec.render r') := by
  unfold Impl.adjustOperand
  rw [lastIdx_noSep _ (render_noBang r)]
  simp only [List.isEmpty_nil, if_true, ne_eq, not_true_eq_false, if_false]
  simpa using operand_rewrite_correct kr e r r' [] hg hs hg'

/-- **formula_on_other_sheet** — clause "on that sheet or any other": an unprefixed reference in a
formula that lives on a sheet other than the edited one is left alone … -/
theorem operand_unprefixed_other_sheet (sheet sheetN : Str) (kr : Bool) (e : Edit) (tv : Str)
    (hne : sheet ≠ sheetN) (hb : noBang tv) :
    Impl.adjustOperand sheet sheetN kr e tv = .ok tv := by
  unfold Impl.adjustOperand
  rw [lastIdx_noSep _ hb]
  simp only [List.isEmpty_nil, if_true, ne_eq, hne, not_false_eq_true, List.nil_append]

/-- … while a reference prefixed with the edited sheet's name is relocated wherever the formula
lives (cells of other sheets, defined names with `sheetN = ""`), for EVERY sheet name — also one that
contains `!` (repaired: the name is what precedes the last `!`) — the prefix being re-emitted through
`escapeSheetName`. -/
theorem operand_prefixed_edited_sheet (sheet sheetN : Str) (kr : Bool) (e : Edit) (r r' : Spec.Ref)
    (hne : sheet ≠ [])
    (hg : Spec.inGrid r) (hs : Spec.shiftRef kr e r = some r') (hg' : Spec.inGrid r') :
    Impl.adjustOperand sheet sheetN kr e (sheet ++ '!' :: Spec.render r) =
      .ok (Impl.escapeSheetName sheet ++ '!' :: Spec.render r') := by
  unfold Impl.adjustOperand
  rw [lastIdx_sep _ _ (render_noBang r)]
  have he : sheet.isEmpty = false := by
    cases sheet with
    | nil => exact absurd rfl hne
    | cons _ _ => rfl
  simp only [take_sep, drop_sep, he, Bool.false_eq_true, if_false, ne_eq, not_true_eq_false]
  have := operand_rewrite_correct kr e r r' (Impl.escapeSheetName sheet ++ [Char.ofNat Facts.C07.sheetSep]) hg hs hg'
  rw [this]
  simp
  rfl

/-- **other_sheet_refs_preserved** — clause "references to other sheets are preserved": an operand
prefixed with another sheet's name (any name) keeps its cell part byte for byte, whatever it is. -/
theorem operand_prefixed_other_sheet (sheet sheetN name cell : Str) (kr : Bool) (e : Edit)
    (hne : name ≠ []) (hdiff : sheet ≠ name) (hc : noBang cell) :
    Impl.adjustOperand sheet sheetN kr e (name ++ '!' :: cell) =
      .ok (Impl.escapeSheetName name ++ '!' :: cell) := by
  unfold Impl.adjustOperand
  rw [lastIdx_sep _ _ hc]
  have he : name.isEmpty = false := by
    cases name with
    | nil => exact absurd rfl hne
    | cons _ _ => rfl
  simp only [take_sep, drop_sep, he, Bool.false_eq_true, if_false, ne_eq, hdiff, not_false_eq_true]
  simp
  rfl

/-! ## Quoting round trips (sheet prefixes, string literals) -/

/-- **string_literals_preserved** — clause "string literals are preserved verbatim": the text
operand re-emitted by `adjustFormulaRef` is `"` + content with doubled quotes + `"`, which efp (and
Excel) read back as exactly the original content, whatever follows that is not another quote. -/
theorem text_literal_roundtrip (s rest : Str) (hr : ∀ d ds, rest = d :: ds → (d.toNat == 34) = false) :
    ∃ body, Impl.quoteText s = '"' :: body ∧ efpQuoted 34 (body ++ rest) = some (s, rest) := by
  refine ⟨Impl.doubleQ 34 s ++ ['"'], rfl, ?_⟩
  have := efpQuoted_double 34 '"' (by decide) s rest hr
  simpa using this

/-- **sheet_prefix_preserved** — clause "references to other sheets / quoted sheet names are
preserved", semantically: whatever the sheet name, the prefix re-emitted by `escapeSheetName` is
either the bare name or a quoted form that efp reads back as exactly that name. (The *spelling* of
the prefix is not always preserved: see `finding_sheet_prefix_requoted`.) -/
theorem sheet_prefix_roundtrip (name cell : Str) :
    Impl.escapeSheetName name = name ∨
    ∃ body, Impl.escapeSheetName name = '\'' :: body ∧
      efpQuoted 39 (body ++ '!' :: cell) = some (name, '!' :: cell) := by
  unfold Impl.escapeSheetName
  split
  · exact Or.inl rfl
  · refine Or.inr ⟨Impl.doubleQ 39 name ++ ['\''], rfl, ?_⟩
    have := efpQuoted_double 39 '\'' (by decide) name ('!' :: cell)
      (by intro d ds h; simp only [List.cons.injEq] at h; rw [← h.1]; decide)
    simpa using this

/-! ## Everything that is not an adjusted range operand is rendered back verbatim -/

/-- the token loop is the concatenation of the per-token pieces (tokens that are not punctuation of
an array constant: all marks `none`) -/
theorem loop_pieces (env : Impl.Env) (toks : List Token) (f : Token → Str) (val : Str) (ms : List (Option Str))
    (hm : ∀ m ∈ ms, m = none)
    (hu : ∀ t ∈ toks, t.ty ≠ .unknown)
    (hp : ∀ t ∈ toks, pieceOf env t = .ok (f t)) :
    Impl.adjustRefLoop env val ms toks = (val ++ (toks.map f).flatten, none) := by
  induction toks generalizing val ms with
  | nil => simp [Impl.adjustRefLoop]
  | cons t ts ih =>
    have hu' : ∀ t ∈ ts, t.ty ≠ .unknown := fun x hx => hu x (by simp [hx])
    have hp' : ∀ t ∈ ts, pieceOf env t = .ok (f t) := fun x hx => hp x (by simp [hx])
    have hnu : t.ty ≠ .unknown := hu t (by simp)
    have h := hp t (by simp)
    have hh : ms.headD none = none := by
      cases ms with
      | nil => rfl
      | cons m _ => simpa using hm m (by simp)
    have hm' : ∀ m ∈ ms.tail, m = none := fun m hx => hm m (List.mem_of_mem_tail hx)
    unfold Impl.adjustRefLoop
    simp only [hnu, if_false, hh]
    unfold pieceOf at h
    by_cases hr : t.ty = .operand ∧ t.sub = .range
    · simp only [hr, and_self, if_true] at h ⊢
      by_cases hn : env.names.contains t.tv = true
      · simp only [hn, if_true, Except.ok.injEq] at h ⊢
        rw [ih _ _ hm' hu' hp', h]; simp
      · simp only [hn, Bool.false_eq_true, if_false] at h ⊢
        by_cases hb : Impl.containsBracket t.tv = true
        · simp only [hb, if_true, Except.ok.injEq] at h ⊢
          rw [ih _ _ hm' hu' hp', h]; simp
        · simp only [hb, Bool.false_eq_true, if_false] at h ⊢
          rw [h]
          simp only []
          rw [ih _ _ hm' hu' hp']; simp
    · simp only [hr, if_false, Except.ok.injEq] at h ⊢
      rw [ih _ _ hm' hu' hp', h]; simp

/-- **nonref_tokens_verbatim** — clause "string literals and function names are preserved
verbatim" and the coordinator's "everything else is rendered back verbatim": a token that is not a
range operand contributes `Impl.verbatim t`, a function of the token alone — independent of the
edit, of the sheets and of `keepRelative`. -/
theorem nonref_tokens_verbatim (env : Impl.Env) (t : Token) (h : ¬ (t.ty = .operand ∧ t.sub = .range)) :
    pieceOf env t = .ok (Impl.verbatim t) := by
  simp [pieceOf, h]

/-- function names: `NAME(` -/
theorem function_name_verbatim (name : Str) : Impl.verbatim ⟨name, .function, .start⟩ = name ++ ['('] := by
  simp [Impl.verbatim, Impl.paren]

/-- operators, numbers, logical values, error values, argument separators: their own text -/
theorem plain_token_verbatim (t : Token) (h1 : t.ty ≠ .function) (h2 : t.ty ≠ .subexpr)
    (h3 : ¬ (t.ty = .operand ∧ t.sub = .text)) (h4 : ¬ (t.ty = .infix ∧ t.sub = .intersect)) :
    Impl.verbatim t = t.tv := by
  simp [Impl.verbatim, Impl.paren, h1, h2, h3, h4]

/-- the intersection operator is a space (fixed in the repository: commit "fix: keep the
intersection operator"; before, the token's empty value was emitted and `A1:A5 A4:B4` became
`A1:A5A4:B4`). -/
theorem intersection_verbatim : Impl.verbatim ⟨[], .infix, .intersect⟩ = [' '] := by
  simp [Impl.verbatim, Impl.paren]

/-- defined names in scope and structured references are copied -/
theorem defined_name_verbatim (env : Impl.Env) (tv : Str) (h : env.names.contains tv = true) :
    pieceOf env ⟨tv, .operand, .range⟩ = .ok tv := by
  simp only [pieceOf, h, and_self, if_true]

/-- a formula with a token efp cannot classify is returned unchanged -/
theorem unknown_token_keeps_formula (env : Impl.Env) (val : Str) (ms : List (Option Str)) (t : Token) (ts : List Token)
    (h : t.ty = .unknown) : Impl.adjustRefLoop env val ms (t :: ts) = (env.formula, none) := by
  simp [Impl.adjustRefLoop, h]

/-- **formula_rewrite_correct** — the whole token loop on a formula all of whose range operands are
unprefixed references of the grammar on the edited sheet: the output is the concatenation of the
relocated references and the verbatim renderings of all other tokens. -/
theorem formula_rewrite_correct (sheet : Str) (e : Edit) (formula : Str)
    (toks : List Token) (refs : Token → Option (Spec.Ref × Spec.Ref))
    (hu : ∀ t ∈ toks, t.ty ≠ .unknown) (hna : ∀ t ∈ toks, Impl.isArrayStart t = false)
    (hrefs : ∀ t ∈ toks, t.ty = .operand ∧ t.sub = .range →
      ∃ r r', refs t = some (r, r') ∧ t.tv = Spec.render r ∧ Spec.inGrid r ∧
        Spec.shiftRef false e r = some r' ∧ Spec.inGrid r') :
    Impl.adjustRef ⟨sheet, sheet, false, e, [], formula⟩ toks =
      ((toks.map (fun t => match refs t with
          | some (_, r') => if t.ty = .operand ∧ t.sub = .range then Spec.render r' else Impl.verbatim t
          | none => Impl.verbatim t)).flatten, none) := by
  unfold Impl.adjustRef
  have := loop_pieces ⟨sheet, sheet, false, e, [], formula⟩ toks
    (fun t => match refs t with
          | some (_, r') => if t.ty = .operand ∧ t.sub = .range then Spec.render r' else Impl.verbatim t
          | none => Impl.verbatim t) [] (Impl.arrayMarks [] none toks)
    (arrayMarks_none toks [] hna (by simp)) hu ?_
  · simpa using this
  · intro t ht
    by_cases hr : t.ty = .operand ∧ t.sub = .range
    · obtain ⟨r, r', h1, h2, h3, h4, h5⟩ := hrefs t ht hr
      have hbr := render_noBracket r
      simp only [pieceOf, hr, and_self, if_true, h1, List.contains_nil, Bool.false_eq_true, if_false, hbr, h2]
      exact operand_unprefixed_same_sheet sheet false e r r' h3 h4 h5
    · simp only [pieceOf, hr, if_false]
      cases refs t with
      | none => rfl
      | some p => simp

/-! ## `render` is faithful: the reference grammar parser inverts it -/

/-- **parse_render** — `Spec.render` loses nothing: for EVERY reference (all shapes, all columns and
rows ≥ 1, every `$` combination) the grammar parser reads the rendered text back as exactly that
reference. Together with `operand_rewrite_correct`:
`parseRef (adjustOperand (render r)) = some (shiftRef r)` (`operand_rewrite_parse`). -/
theorem parse_render (r : Spec.Ref) (h : Spec.Ref.pos r) : Spec.parseRef (Spec.render r) = some r :=
  parseRef_render r h

/-- `render` is injective on references with positive indices -/
theorem render_injective (r s : Spec.Ref) (hr : Spec.Ref.pos r) (hs : Spec.Ref.pos s)
    (h : Spec.render r = Spec.render s) : r = s := by
  have a := parse_render r hr
  rw [h, parse_render s hs] at a
  exact (Option.some.inj a).symm

/-- **operand_rewrite_parse** — the coordinator's formulation: parsing the rewritten operand gives
the relocated reference, for every reference of the grammar. -/
theorem operand_rewrite_parse (kr : Bool) (e : Edit) (r r' : Spec.Ref)
    (hg : Spec.inGrid r) (hs : Spec.shiftRef kr e r = some r') (hg' : Spec.inGrid r') :
    (Impl.adjustCell kr e [] (Spec.render r)).toOption.bind Spec.parseRef = some r' := by
  rw [operand_rewrite_correct kr e r r' [] hg hs hg']
  simp [Except.toOption, parse_render r' (inGrid_pos hg')]

/-! ## Inside the excluded region: what the code does with a deleted endpoint -/

/-- **operand_rewrite_total** — the rewriter is characterised on EVERY in-grid reference, deleted
endpoints included: the output is the rendering of `Spec.slideRef`, where every moving coordinate
`i ≥ num` becomes `max 1 (i + offset)` (`Spec.slideIdx`). `operand_rewrite_correct` is the special
case in which no endpoint is deleted (`shiftRef_slide`). Hypotheses: Go's `int` does not overflow on
`index + offset` (`offOk`) and the result stays in the grid (otherwise: `leaves_grid_is_error`). -/
theorem operand_rewrite_total (kr : Bool) (e : Edit) (r : Spec.Ref) (op0 : Str) (ho : offOk e)
    (hg : Spec.inGrid r) (hg' : Spec.inGrid (Spec.slideRef kr e r)) :
    Impl.adjustCell kr e op0 (Spec.render r) = .ok (op0 ++ Spec.render (Spec.slideRef kr e r)) := by
  cases r with
  | cell c ro =>
    obtain ⟨g1, g2⟩ := hg
    obtain ⟨g1', g2'⟩ := hg'
    exact adjustCell_single kr e op0 _ _
      (runEnd_cell kr e c _ ro _ op0 (fun op => adjCol_slide kr e c op ho g1 g1') (slideCol_abs kr e c)
        (fun op => adjRow_slide kr e ro op ho g2 g2') (slideRow_abs kr e ro))
  | range c1 r1 c2 r2 =>
    obtain ⟨g1, g2, g3, g4⟩ := hg
    obtain ⟨g1', g2', g3', g4'⟩ := hg'
    have hX := runEnd_cell kr e c1 _ r1 _ op0 (fun op => adjCol_slide kr e c1 op ho g1 g1') (slideCol_abs kr e c1)
      (fun op => adjRow_slide kr e r1 op ho g2 g2') (slideRow_abs kr e r1)
    have hY := runEnd_cell kr e c2 _ r2 _
      (op0 ++ (Spec.renderCol (Spec.slideCol kr e c1) ++ Spec.renderRow (Spec.slideRow kr e r1)) ++ [':'])
      (fun op => adjCol_slide kr e c2 op ho g3 g3') (slideCol_abs kr e c2)
      (fun op => adjRow_slide kr e r2 op ho g4 g4') (slideRow_abs kr e r2)
    have := adjustCell_range kr e op0 _ _ _ _ hX hY
    simpa [Spec.render, Spec.slideRef, List.append_assoc] using this
  | cols c1 c2 =>
    obtain ⟨g1, g3⟩ := hg
    obtain ⟨g1', g3'⟩ := hg'
    have hX := runEnd_col kr e c1 _ op0 (fun op => adjCol_slide kr e c1 op ho g1 g1') (slideCol_abs kr e c1)
    have hY := runEnd_col kr e c2 _ (op0 ++ Spec.renderCol (Spec.slideCol kr e c1) ++ [':'])
      (fun op => adjCol_slide kr e c2 op ho g3 g3') (slideCol_abs kr e c2)
    have := adjustCell_range kr e op0 _ _ _ _ hX hY
    simpa [Spec.render, Spec.slideRef, List.append_assoc] using this
  | rows r1 r2 =>
    obtain ⟨g2, g4⟩ := hg
    obtain ⟨g2', g4'⟩ := hg'
    have hX := runEnd_row kr e r1 _ op0 (fun op => adjRow_slide kr e r1 op ho g2 g2') (slideRow_abs kr e r1)
    have hY := runEnd_row kr e r2 _ (op0 ++ Spec.renderRow (Spec.slideRow kr e r1) ++ [':'])
      (fun op => adjRow_slide kr e r2 op ho g4 g4') (slideRow_abs kr e r2)
    have := adjustCell_range kr e op0 _ _ _ _ hX hY
    simpa [Spec.render, Spec.slideRef, List.append_assoc] using this

/-- outside the excluded region the two descriptions coincide -/
theorem shiftRef_slide (kr : Bool) (e : Edit) (r r' : Spec.Ref) (hs : Spec.shiftRef kr e r = some r')
    (hp : Spec.Ref.pos r') : Spec.slideRef kr e r = r' := by
  cases r with
  | cell c ro =>
    simp only [Spec.shiftRef] at hs
    cases hc : Spec.shiftCol kr e c with
    | none => simp [hc] at hs
    | some c' =>
      cases hr : Spec.shiftRow kr e ro with
      | none => simp [hc, hr] at hs
      | some ro' =>
        simp only [hc, hr, Option.some.injEq] at hs
        subst hs
        simp only [Spec.Ref.pos] at hp
        simp [Spec.slideRef, shiftCol_slide hc hp.1, shiftRow_slide hr hp.2]
  | range c1 r1 c2 r2 =>
    simp only [Spec.shiftRef] at hs
    cases h1 : Spec.shiftCol kr e c1 with
    | none => simp [h1] at hs
    | some c1' =>
      cases h2 : Spec.shiftRow kr e r1 with
      | none => simp [h1, h2] at hs
      | some r1' =>
        cases h3 : Spec.shiftCol kr e c2 with
        | none => simp [h1, h2, h3] at hs
        | some c2' =>
          cases h4 : Spec.shiftRow kr e r2 with
          | none => simp [h1, h2, h3, h4] at hs
          | some r2' =>
            simp only [h1, h2, h3, h4, Option.some.injEq] at hs
            subst hs
            simp only [Spec.Ref.pos] at hp
            simp [Spec.slideRef, shiftCol_slide h1 hp.1, shiftRow_slide h2 hp.2.1, shiftCol_slide h3 hp.2.2.1,
              shiftRow_slide h4 hp.2.2.2]
  | cols c1 c2 =>
    simp only [Spec.shiftRef] at hs
    cases h1 : Spec.shiftCol kr e c1 with
    | none => simp [h1] at hs
    | some c1' =>
      cases h3 : Spec.shiftCol kr e c2 with
      | none => simp [h1, h3] at hs
      | some c2' =>
        simp only [h1, h3, Option.some.injEq] at hs
        subst hs
        simp only [Spec.Ref.pos] at hp
        simp [Spec.slideRef, shiftCol_slide h1 hp.1, shiftCol_slide h3 hp.2]
  | rows r1 r2 =>
    simp only [Spec.shiftRef] at hs
    cases h2 : Spec.shiftRow kr e r1 with
    | none => simp [h2] at hs
    | some r1' =>
      cases h4 : Spec.shiftRow kr e r2 with
      | none => simp [h2, h4] at hs
      | some r2' =>
        simp only [h2, h4, Option.some.injEq] at hs
        subst hs
        simp only [Spec.Ref.pos] at hp
        simp [Spec.slideRef, shiftRow_slide h2 hp.1, shiftRow_slide h4 hp.2]

/-- **deleted_endpoint_lands_before_block** — the excluded region made explicit. An index inside
the deleted block (`num ≤ i < num - off`, `off < 0`) has no relocation (`shiftIdx = none`), and the
code moves it to `max 1 (i + off)`, which lies strictly before the block start `num` (or is 1):
a position whose cell was not moved by the edit, i.e. a *different* cell than the one referenced. -/
theorem deleted_endpoint_lands_before_block (num off : Int) (i : Nat) (hoff : off < 0)
    (h1 : num ≤ (i : Int)) (h2 : (i : Int) < num - off) :
    Spec.shiftIdx num off i = none ∧
    Spec.slideIdx num off i = (max 1 ((i : Int) + off)).toNat ∧
    (((Spec.slideIdx num off i : Nat) : Int) < num ∨ Spec.slideIdx num off i = 1) := by
  have hlt : ¬ ((i : Int) < num) := by omega
  refine ⟨?_, slideIdx_ge h1, ?_⟩
  · unfold Spec.shiftIdx
    have a : ¬ (0 ≤ off) := by omega
    have b : ¬ (num - off ≤ (i : Int)) := by omega
    simp [hlt, a, b]
  · rw [slideIdx_ge h1]
    omega

/-- consequence for a reference to a single cell in a deleted row (`num ≥ 2`, one row deleted, the API's
only deletion): the rewritten reference denotes the cell that was directly above the deleted one —
which the original reference did not denote. (Excel: `#REF!`.) -/
theorem deleted_cell_ref_denotes_neighbour (c : Spec.ColEnd) (num : Nat) (hn : 2 ≤ num) (abs : Bool) :
    Spec.shiftRef false ⟨.rows, num, -1⟩ (.cell c ⟨abs, num⟩) = none ∧
    Spec.slideRef false ⟨.rows, num, -1⟩ (.cell c ⟨abs, num⟩) = .cell c ⟨abs, num - 1⟩ ∧
    Spec.shiftPos ⟨.rows, num, -1⟩ (c.n, num - 1) = some (c.n, num - 1) ∧
    ¬ Spec.denote (.cell c ⟨abs, num⟩) (c.n, num - 1) := by
  have d := deleted_endpoint_lands_before_block (num : Int) (-1) num (by omega) (by omega) (by omega)
  refine ⟨?_, ?_, ?_, ?_⟩
  · simp [Spec.shiftRef, Spec.shiftCol, Spec.shiftRow, Spec.moves, d.1]
  · have : Spec.slideIdx (num : Int) (-1) num = num - 1 := by rw [d.2.1]; omega
    simp [Spec.slideRef, Spec.slideCol, Spec.slideRow, Spec.moves, this]
  · have : ((num - 1 : Nat) : Int) < (num : Int) := by omega
    simp [Spec.shiftPos, shiftIdx_lt this]
  · simp [Spec.denote]; omega

/-- consequence for a range whose FIRST row is the deleted one: the rewritten range starts one row
too early — it additionally denotes the cell above the old range (`A3:A5`, delete row 3 → `A2:A4`,
which contains the old `A2`; Excel gives `A3:A4`). When the LAST row is the deleted one the code's
answer is the right one (`A1:A3`, delete row 3 → `A1:A2`). -/
theorem deleted_range_start_denotes_extra (c : Spec.ColEnd) (a b : Nat) (ha : 2 ≤ a) (hab : a < b) :
    Spec.slideRef false ⟨.rows, a, -1⟩ (.range c ⟨false, a⟩ c ⟨false, b⟩) = .range c ⟨false, a - 1⟩ c ⟨false, b - 1⟩ ∧
    Spec.denote (.range c ⟨false, a - 1⟩ c ⟨false, b - 1⟩) (c.n, a - 1) ∧
    Spec.shiftPos ⟨.rows, a, -1⟩ (c.n, a - 1) = some (c.n, a - 1) ∧
    ¬ Spec.denote (.range c ⟨false, a⟩ c ⟨false, b⟩) (c.n, a - 1) := by
  have s1 : Spec.slideIdx (a : Int) (-1) a = a - 1 := by rw [slideIdx_ge (by omega)]; omega
  have s2 : Spec.slideIdx (a : Int) (-1) b = b - 1 := by rw [slideIdx_ge (by omega)]; omega
  refine ⟨?_, ?_, ?_, ?_⟩
  · simp [Spec.slideRef, Spec.slideCol, Spec.slideRow, Spec.moves, s1, s2]
  · simp [Spec.denote]
  · have : ((a - 1 : Nat) : Int) < (a : Int) := by omega
    simp [Spec.shiftPos, shiftIdx_lt this]
  · simp [Spec.denote]; omega

/-! ## Defined names (`keepRelative = true`) -/

/-- every endpoint carries `$` on every coordinate / on no coordinate -/
def allAbs : Spec.Ref → Prop
  | .cell c r => c.abs = true ∧ r.abs = true
  | .range c1 r1 c2 r2 => c1.abs = true ∧ r1.abs = true ∧ c2.abs = true ∧ r2.abs = true
  | .cols c1 c2 => c1.abs = true ∧ c2.abs = true
  | .rows r1 r2 => r1.abs = true ∧ r2.abs = true

def noAbs : Spec.Ref → Prop
  | .cell c r => c.abs = false ∧ r.abs = false
  | .range c1 r1 c2 r2 => c1.abs = false ∧ r1.abs = false ∧ c2.abs = false ∧ r2.abs = false
  | .cols c1 c2 => c1.abs = false ∧ c2.abs = false
  | .rows r1 r2 => r1.abs = false ∧ r2.abs = false

/-- a fully absolute reference in a defined name is relocated exactly like a cell formula's -/
theorem keepRelative_abs_eq (e : Edit) (r : Spec.Ref) (h : allAbs r) :
    Spec.shiftRef true e r = Spec.shiftRef false e r := by
  cases r <;> simp only [allAbs] at h <;>
    simp [Spec.shiftRef, Spec.shiftCol, Spec.shiftRow, Spec.moves, h]

/-- **denote_shift_defined_name** — `denote_shift` for `keepRelative = true`: a defined name whose
reference is fully absolute (what Excel writes for names) still denotes the same cells. -/
theorem denote_shift_defined_name (e : Edit) (hn : 0 ≤ e.num) (r r' : Spec.Ref) (p p' : Nat × Nat)
    (ha : allAbs r) (hs : Spec.shiftRef true e r = some r') (hp : Spec.shiftPos e p = some p')
    (hok : posOk p) (hok' : posOk p') : Spec.denote r' p' ↔ Spec.denote r p := by
  rw [keepRelative_abs_eq e r ha] at hs
  exact denote_shift e hn r r' p p' hs hp hok hok'

/-- **keepRelative_relative_untouched** — the other half of `keepRelative`: a reference without any
`$` in a defined name is left exactly as it is (it is relative to the cell that uses the name, so it
denotes the same *positions*, deliberately not the same cells), whatever the edit — also when the
position lies in a deleted row/column. Mixed references move coordinate by coordinate
(`Spec.shiftCol`/`shiftRow`); no denotation statement is made for them. -/
theorem keepRelative_relative_untouched (e : Edit) (r : Spec.Ref) (h : noAbs r) :
    Spec.shiftRef true e r = some r ∧ Spec.slideRef true e r = r := by
  cases r <;> simp only [noAbs] at h <;>
    simp [Spec.shiftRef, Spec.shiftCol, Spec.shiftRow, Spec.slideRef, Spec.slideCol, Spec.slideRow, Spec.moves, h]

/-! ### `keepRelative` with mixed `$`: only the edited axis matters -/

/-- every endpoint carries `$` on the coordinate of the edited axis (`$` on the other axis is
irrelevant: `A$1` under a row edit, `$A1` under a column edit) -/
def absOnAxis (d : Dir) : Spec.Ref → Prop
  | .cell c r => match d with | .cols => c.abs = true | .rows => r.abs = true
  | .range c1 r1 c2 r2 => match d with
    | .cols => c1.abs = true ∧ c2.abs = true
    | .rows => r1.abs = true ∧ r2.abs = true
  | .cols c1 c2 => match d with | .cols => c1.abs = true ∧ c2.abs = true | .rows => True
  | .rows r1 r2 => match d with | .cols => True | .rows => r1.abs = true ∧ r2.abs = true

/-- no endpoint carries `$` on the coordinate of the edited axis -/
def relOnAxis (d : Dir) : Spec.Ref → Prop
  | .cell c r => match d with | .cols => c.abs = false | .rows => r.abs = false
  | .range c1 r1 c2 r2 => match d with
    | .cols => c1.abs = false ∧ c2.abs = false
    | .rows => r1.abs = false ∧ r2.abs = false
  | .cols c1 c2 => match d with | .cols => c1.abs = false ∧ c2.abs = false | .rows => True
  | .rows r1 r2 => match d with | .cols => True | .rows => r1.abs = false ∧ r2.abs = false

/-- **keepRelative_axis_abs_eq** — mixed `$` references under `keepRelative`: an edit only touches one
axis, so a reference whose coordinates ON THAT AXIS are all absolute (whatever the `$` of the other
axis: `A$1`, `$A1:$B7`, `A$1:B$9` …) is relocated exactly as in a cell formula … -/
theorem keepRelative_axis_abs_eq (e : Edit) (r : Spec.Ref) (h : absOnAxis e.dir r) :
    Spec.shiftRef true e r = Spec.shiftRef false e r := by
  cases hd : e.dir <;> cases r <;> simp only [absOnAxis, hd] at h <;>
    simp [Spec.shiftRef, Spec.shiftCol, Spec.shiftRow, Spec.moves, hd, h]

/-- **denote_shift_defined_name_mixed** — … and therefore still denotes the same cells -/
theorem denote_shift_defined_name_mixed (e : Edit) (hn : 0 ≤ e.num) (r r' : Spec.Ref) (p p' : Nat × Nat)
    (ha : absOnAxis e.dir r) (hs : Spec.shiftRef true e r = some r') (hp : Spec.shiftPos e p = some p')
    (hok : posOk p) (hok' : posOk p') : Spec.denote r' p' ↔ Spec.denote r p := by
  rw [keepRelative_axis_abs_eq e r ha] at hs
  exact denote_shift e hn r r' p p' hs hp hok hok'

/-- **keepRelative_axis_rel_untouched** — dually, a reference whose coordinates on the edited axis are
all relative is left untouched (same positions), whatever the `$` on the other axis. What is left is a
range with one absolute and one relative corner on the edited axis (`A$1:A5` under a row edit): the
absolute corner moves, the relative one stays (`Spec.shiftRow`), and no "same cells" statement exists
for it — Excel's defined names behave the same way. -/
theorem keepRelative_axis_rel_untouched (e : Edit) (r : Spec.Ref) (h : relOnAxis e.dir r) :
    Spec.shiftRef true e r = some r ∧ Spec.slideRef true e r = r := by
  cases hd : e.dir <;> cases r <;> simp only [relOnAxis, hd] at h <;>
    simp [Spec.shiftRef, Spec.shiftCol, Spec.shiftRow, Spec.slideRef, Spec.slideCol, Spec.slideRow, Spec.moves, hd, h]

/-! ### `keepRelative`, the remaining case: one absolute and one relative corner on the edited axis -/

/-- **keepRelative_mixed_corner_range** — a range with one `$` corner and one relative corner on the
edited axis (`A$1:A5` / `A1:A$5` under a row edit, `$A1:C1` / `A1:$C1` under a column edit), every
edit: exactly the `$` coordinate is relocated (deleted ⇒ no relocation), the relative corner and both
coordinates of the other axis stay as they are. -/
theorem keepRelative_mixed_corner_range (e : Edit) (c1 c2 : Spec.ColEnd) (r1 r2 : Spec.RowEnd) :
    (e.dir = .rows → r1.abs = true → r2.abs = false →
      Spec.shiftRef true e (.range c1 r1 c2 r2) =
        (Spec.shiftIdx e.num e.off r1.n).map (fun n => .range c1 ⟨true, n⟩ c2 r2)) ∧
    (e.dir = .rows → r1.abs = false → r2.abs = true →
      Spec.shiftRef true e (.range c1 r1 c2 r2) =
        (Spec.shiftIdx e.num e.off r2.n).map (fun n => .range c1 r1 c2 ⟨true, n⟩)) ∧
    (e.dir = .cols → c1.abs = true → c2.abs = false →
      Spec.shiftRef true e (.range c1 r1 c2 r2) =
        (Spec.shiftIdx e.num e.off c1.n).map (fun n => .range ⟨true, n⟩ r1 c2 r2)) ∧
    (e.dir = .cols → c1.abs = false → c2.abs = true →
      Spec.shiftRef true e (.range c1 r1 c2 r2) =
        (Spec.shiftIdx e.num e.off c2.n).map (fun n => .range c1 r1 ⟨true, n⟩ r2)) := by
  obtain ⟨a1, m1⟩ := c1
  obtain ⟨a2, m2⟩ := c2
  obtain ⟨b1, n1⟩ := r1
  obtain ⟨b2, n2⟩ := r2
  refine ⟨?_, ?_, ?_, ?_⟩ <;> intro hd h1 h2 <;> simp only at h1 h2 <;> subst h1 <;> subst h2
  · cases hs : Spec.shiftIdx e.num e.off n1 <;>
      simp [Spec.shiftRef, Spec.shiftCol, Spec.shiftRow, Spec.moves, hd, hs]
  · cases hs : Spec.shiftIdx e.num e.off n2 <;>
      simp [Spec.shiftRef, Spec.shiftCol, Spec.shiftRow, Spec.moves, hd, hs]
  · cases hs : Spec.shiftIdx e.num e.off m1 <;>
      simp [Spec.shiftRef, Spec.shiftCol, Spec.shiftRow, Spec.moves, hd, hs]
  · cases hs : Spec.shiftIdx e.num e.off m2 <;>
      simp [Spec.shiftRef, Spec.shiftCol, Spec.shiftRow, Spec.moves, hd, hs]

/-- **mixed_corner_range_rewrite** — … and that is the text the code writes (`Impl.adjustCell` with
`keepRelative = true`, the defined-name path): for `A$a:Bb` under a row edit that relocates row `a`
to `a'`, the operand becomes `A$a':Bb`. Instance of `operand_rewrite_correct`. -/
theorem mixed_corner_range_rewrite (e : Edit) (c1 c2 : Spec.ColEnd) (r2 : Spec.RowEnd) (a a' : Nat) (op0 : Str)
    (hd : e.dir = .rows) (h2 : r2.abs = false)
    (hg : Spec.inGrid (.range c1 ⟨true, a⟩ c2 r2))
    (hs : Spec.shiftIdx e.num e.off a = some a') (ha' : Spec.rowOk ⟨true, a'⟩) :
    Impl.adjustCell true e op0 (Spec.render (.range c1 ⟨true, a⟩ c2 r2)) =
      .ok (op0 ++ Spec.render (.range c1 ⟨true, a'⟩ c2 r2)) := by
  apply operand_rewrite_correct true e _ _ op0 hg
  · rw [(keepRelative_mixed_corner_range e c1 c2 ⟨true, a⟩ r2).1 hd rfl h2, hs]; rfl
  · exact ⟨hg.1, ha', hg.2.2.1, hg.2.2.2⟩

/-- **keepRelative_mixed_corner_not_same_cells** — why `denote_shift_defined_name_mixed` needs
`absOnAxis`: without it the statement is false. `A$1:A5` in a defined name, one row inserted at 3: the
text stays `A$1:A5` (row 1 is before the insertion, row 5 is relative), the cell `A5` it denoted is now
`A6`, which it does not denote. Excel's defined names behave the same way (the relative corner is
relative to the cell using the name). -/
theorem keepRelative_mixed_corner_not_same_cells :
    ¬ ∀ (e : Edit) (r r' : Spec.Ref) (p p' : Nat × Nat), 0 ≤ e.num →
        Spec.shiftRef true e r = some r' → Spec.shiftPos e p = some p' → posOk p → posOk p' →
        (Spec.denote r' p' ↔ Spec.denote r p) := by
  intro h
  have h' := h ⟨.rows, 3, 1⟩ (.range ⟨false, 1⟩ ⟨true, 1⟩ ⟨false, 1⟩ ⟨false, 5⟩)
    (.range ⟨false, 1⟩ ⟨true, 1⟩ ⟨false, 1⟩ ⟨false, 5⟩) (1, 5) (1, 6) (by decide)
    (by decide +kernel) (by decide +kernel) (by unfold posOk; decide +kernel) (by unfold posOk; decide +kernel)
  simp [Spec.denote] at h'

/-! ## "Evaluates to the same result": the rewrite joined with C08's evaluator -/

/-- **eval_invariant_under_shift** (DESIGN §4/C07) — for C08's reference evaluator `Calc.Spec.eval`
(imported from `XlModel.Calc`, any numeric carrier): take an expression tree whose reference leaves are
in-grid cell references none of which is deleted by the edit; evaluate it over a grid `g`. After the
edit the grid is `g'`, where every surviving cell kept its value at its new position (`hg`). Then
the tree with every reference relocated (`shiftKey`: parse, `shiftRef`, render — what
`operand_rewrite_correct` shows the code produces) evaluates over `g'` to the same value. Uses
`parse_render` (keys are rendered text) and the cell case of `denote_shift` (`shiftRef_cell_pos`). -/
theorem eval_invariant_under_shift {N : Type} [Calc.NumOps N] (e : Edit)
    (g g' : Nat × Nat → Calc.Spec.Val N)
    (hg : ∀ p p', posOk p → posOk p' → Spec.shiftPos e p = some p' → g' p' = g p)
    (t : Calc.Expr) (ht : refsAll (goodKey e) t) :
    Calc.Spec.eval (envOf g') (mapRef (shiftKey e) t) = Calc.Spec.eval (envOf g) t :=
  specEval_mapRef (envOf g) (envOf g') (shiftKey e) t
    (refsAll_mono (fun k hk => envOf_shiftKey e g g' hg k hk) t ht)

/-- the same for the transcription of calc.go's own operand semantics (`Calc.Impl.evalTree`), which
C08's `shunting_yard_correct` relates to the token machine -/
theorem eval_invariant_under_shift_impl {N : Type} [Calc.NumOps N] (e : Edit)
    (g g' : Nat × Nat → Calc.Impl.CellArg N)
    (hg : ∀ p p', posOk p → posOk p' → Spec.shiftPos e p = some p' → g' p' = g p)
    (t : Calc.Expr) (ht : refsAll (goodKey e) t) :
    Calc.Impl.evalTree (envOf g') (mapRef (shiftKey e) t) = Calc.Impl.evalTree (envOf g) t :=
  implEval_mapRef (envOf g) (envOf g') (shiftKey e) t
    (refsAll_mono (fun k hk => envOf_shiftKey e g g' hg k hk) t ht)

/-- **denoted_content_shift** — the range/aggregate counterpart, over an abstract cell content type:
if surviving cells keep their content and every cell without a pre-image (an inserted row/column) is
blank, then the NON-BLANK cells a relocated reference denotes are exactly the images of the non-blank
cells the original denoted, with the same contents. Any evaluator that looks at a reference only
through the contents of its non-blank cells (SUM, COUNT, MAX, MIN, AVERAGE … over `denote`) therefore
sees the same multiset of values; `ROWS`/`COUNTBLANK`-like functions do not, by design. -/
theorem denoted_content_shift {V : Type} (blank : V) (e : Edit) (hn : 0 ≤ e.num) (r r' : Spec.Ref)
    (hs : Spec.shiftRef false e r = some r') (g g' : Nat × Nat → V)
    (hg : ∀ p p', posOk p → posOk p' → Spec.shiftPos e p = some p' → g' p' = g p)
    (hb : ∀ p', posOk p' → (¬ ∃ p, posOk p ∧ Spec.shiftPos e p = some p') → g' p' = blank)
    (p' : Nat × Nat) (hok' : posOk p') :
    (Spec.denote r' p' ∧ g' p' ≠ blank) ↔
      ∃ p, posOk p ∧ Spec.shiftPos e p = some p' ∧ Spec.denote r p ∧ g p ≠ blank ∧ g' p' = g p := by
  constructor
  · intro ⟨hd, hne⟩
    have hex : ∃ p, posOk p ∧ Spec.shiftPos e p = some p' := by
      apply Classical.byContradiction
      intro hno
      exact hne (hb p' hok' hno)
    obtain ⟨p, hok, hp⟩ := hex
    have hv := hg p p' hok hok' hp
    exact ⟨p, hok, hp, (denote_shift e hn r r' p p' hs hp hok hok').mp hd, by rw [← hv]; exact hne, hv⟩
  · intro ⟨p, hok, hp, hd, hne, hv⟩
    exact ⟨(denote_shift e hn r r' p p' hs hp hok hok').mpr hd, by rw [hv]; exact hne⟩

/-- non-vacuity of `eval_invariant_under_shift`: `$B$3 + C4` under "insert 2 rows at row 4" -/
example : refsAll (goodKey ⟨.rows, 4, 2⟩)
    (.bin .add (.ref (keyOf (.cell ⟨true, 2⟩ ⟨true, 3⟩))) (.ref (keyOf (.cell ⟨false, 3⟩ ⟨false, 4⟩)))) := by
  refine ⟨⟨⟨true, 2⟩, ⟨true, 3⟩, ⟨true, 2⟩, ⟨true, 3⟩, rfl, by decide, by decide +kernel, by decide⟩,
    ⟨⟨false, 3⟩, ⟨false, 4⟩, ⟨false, 3⟩, ⟨false, 6⟩, rfl, by decide, by decide +kernel, by decide⟩⟩

/-! ## Defined names: every name of the workbook is visited -/

/-- **defined_names_each_adjusted** — clause "in cells, defined names and data-validation rules":
`adjustDefinedNames` treats every defined name on its own — the text at position `i` of the result is
the rewrite of the name at position `i`, whatever stands before or after it (in particular a name
whose rewrite FAILS, e.g. `Sheet1!$A$1:$XFD$1` on a column insert, does not stop the names after it
from being rewritten), and no name is added or lost. Tied by the transcript op `dn`. -/
theorem defined_names_each_adjusted (sheet : Str) (e : Edit) (names : List Str)
    (pre post : List (Str × List Token)) (d : Str × List Token) :
    (Impl.adjustDefinedNames sheet e names (pre ++ d :: post))[pre.length]? =
        some (Impl.adjustDefinedName sheet e names d) ∧
    (Impl.adjustDefinedNames sheet e names (pre ++ d :: post)).length = (pre ++ d :: post).length := by
  simp [Impl.adjustDefinedNames]

/-- an adjustable name gets the rewritten text … -/
theorem defined_name_adjustable (sheet : Str) (e : Edit) (names : List Str) (d : Str × List Token) (v : Str)
    (h : Impl.adjustRef ⟨sheet, [], true, e, names, d.1⟩ d.2 = (v, none)) :
    Impl.adjustDefinedName sheet e names d = v := by
  simp [Impl.adjustDefinedName, h]

/-- … and one whose rewrite fails (a reference pushed out of the grid) keeps its text -/
theorem defined_name_unadjustable_kept (sheet : Str) (e : Edit) (names : List Str) (d : Str × List Token)
    (v : Str) (er : Err) (h : Impl.adjustRef ⟨sheet, [], true, e, names, d.1⟩ d.2 = (v, some er)) :
    Impl.adjustDefinedName sheet e names d = d.1 := by
  simp [Impl.adjustDefinedName, h]

/-- a defined name that is one reference into the edited sheet is relocated (absolute coordinates
move, relative ones stay: `Spec.shiftRef true`), the prefix re-emitted through `escapeSheetName` -/
theorem defined_name_reference_relocated (sheet : Str) (e : Edit) (names : List Str) (text : Str)
    (r r' : Spec.Ref) (hne : sheet ≠ [])
    (hn : names.contains (sheet ++ '!' :: Spec.render r) = false)
    (hb : Impl.containsBracket (sheet ++ '!' :: Spec.render r) = false)
    (hg : Spec.inGrid r) (hs : Spec.shiftRef true e r = some r') (hg' : Spec.inGrid r') :
    Impl.adjustDefinedName sheet e names (text, [⟨sheet ++ '!' :: Spec.render r, .operand, .range⟩]) =
      Impl.escapeSheetName sheet ++ '!' :: Spec.render r' := by
  have h := operand_prefixed_edited_sheet sheet [] true e r r' hne hg hs hg'
  have hn' : ¬ (sheet ++ '!' :: Spec.render r ∈ names) := by
    intro hm; simp at hn; exact hn hm
  simp [Impl.adjustDefinedName, Impl.adjustRef, Impl.arrayMarks, Impl.isStartTok, Impl.isStopTok,
    Impl.adjustRefLoop, hn', hb, h]

/-! ## Ranges: the values a relocated range delivers to an aggregate -/

/-- **range_values_insert** — rows or columns inserted (any position, any count): for a normalised
range the rewritten range exists, and the values of its cells in row-major order, restricted to the
kept ones (`P`, e.g. "not blank"), are exactly those of the original range — provided surviving cells
keep their value at their new position (`hg`) and the cells of the inserted rows/columns are not kept
(`hb`: they are blank). -/
theorem range_values_insert {V : Type} (P : V → Bool) (dir : Dir) (num n : Nat)
    (c1 c2 : Spec.ColEnd) (r1 r2 : Spec.RowEnd) (hc : c1.n ≤ c2.n) (hr : r1.n ≤ r2.n)
    (g g' : Nat × Nat → V)
    (hg : ∀ p p', Spec.shiftPos ⟨dir, num, n⟩ p = some p' → g' p' = g p)
    (hb : ∀ p', (∀ p, Spec.shiftPos ⟨dir, num, n⟩ p ≠ some p') → P (g' p') = false) :
    ∃ c1' r1' c2' r2', Spec.shiftRef false ⟨dir, num, n⟩ (.range c1 r1 c2 r2) = some (.range c1' r1' c2' r2') ∧
      ((cellsOf c1'.n r1'.n c2'.n r2'.n).map g').filter P = ((cellsOf c1.n r1.n c2.n r2.n).map g).filter P := by
  cases dir with
  | rows =>
    refine ⟨c1, ⟨r1.abs, insIdx num n r1.n⟩, c2, ⟨r2.abs, insIdx num n r2.n⟩, ?_, ?_⟩
    · simp [Spec.shiftRef, Spec.shiftCol, Spec.shiftRow, Spec.moves, shiftIdx_ins]
    · apply rect_rows_insert P g g' num n c1.n r1.n c2.n r2.n hr
      · intro c row
        exact hg (c, row) (c, insIdx num n row) (by simp [Spec.shiftPos, shiftIdx_ins])
      · intro c j h1 h2
        apply hb
        intro p hp
        simp only [Spec.shiftPos, shiftIdx_ins, Option.map_some, Option.some.injEq, Prod.mk.injEq] at hp
        have := hp.2
        unfold insIdx at this
        split at this <;> omega
  | cols =>
    refine ⟨⟨c1.abs, insIdx num n c1.n⟩, r1, ⟨c2.abs, insIdx num n c2.n⟩, r2, ?_, ?_⟩
    · simp [Spec.shiftRef, Spec.shiftCol, Spec.shiftRow, Spec.moves, shiftIdx_ins]
    · apply rect_cols_insert P g g' num n c1.n r1.n c2.n r2.n hc
      · intro c row
        exact hg (c, row) (insIdx num n c, row) (by simp [Spec.shiftPos, shiftIdx_ins])
      · intro j row h1 h2
        apply hb
        intro p hp
        simp only [Spec.shiftPos, shiftIdx_ins, Option.map_some, Option.some.injEq, Prod.mk.injEq] at hp
        have := hp.1
        unfold insIdx at this
        split at this <;> omega

/-- **range_values_delete** — rows or columns deleted, neither corner of the range among them: the
same statement, provided the deleted cells held nothing that is kept (`hd`: they were blank — what
the CalcCellValue oracle arranges before it compares). -/
theorem range_values_delete {V : Type} (P : V → Bool) (dir : Dir) (num n : Nat)
    (c1 c2 : Spec.ColEnd) (r1 r2 : Spec.RowEnd) (hc : c1.n ≤ c2.n) (hr : r1.n ≤ r2.n)
    (g g' : Nat × Nat → V) (r' : Spec.Ref)
    (hs : Spec.shiftRef false ⟨dir, num, -(n : Int)⟩ (.range c1 r1 c2 r2) = some r')
    (hg : ∀ p p', Spec.shiftPos ⟨dir, num, -(n : Int)⟩ p = some p' → g' p' = g p)
    (hd : ∀ p, Spec.shiftPos ⟨dir, num, -(n : Int)⟩ p = none → P (g p) = false) :
    ∃ c1' r1' c2' r2', r' = .range c1' r1' c2' r2' ∧
      ((cellsOf c1'.n r1'.n c2'.n r2'.n).map g').filter P = ((cellsOf c1.n r1.n c2.n r2.n).map g).filter P := by
  have surv : ∀ i j, Spec.shiftIdx (num : Int) (-(n : Int)) i = some j → (i < num ∨ num + n ≤ i) := by
    intro i j h
    apply Classical.byContradiction
    intro hno
    rw [shiftIdx_del_none num n i (by omega) (by omega)] at h
    cases h
  cases dir with
  | rows =>
    simp only [Spec.shiftRef, Spec.shiftCol, Spec.shiftRow, Spec.moves, Bool.not_false, Bool.or_true, and_true,
      reduceCtorEq, false_and, if_false, if_true] at hs
    cases h1 : Spec.shiftIdx (num : Int) (-(n : Int)) r1.n with
    | none => simp [h1] at hs
    | some j1 =>
      cases h2 : Spec.shiftIdx (num : Int) (-(n : Int)) r2.n with
      | none => simp [h1, h2] at hs
      | some j2 =>
        have s1 := surv _ _ h1
        have s2 := surv _ _ h2
        rw [shiftIdx_del num n _ s1] at h1
        rw [shiftIdx_del num n _ s2] at h2
        simp only [Option.some.injEq] at h1 h2
        refine ⟨c1, ⟨r1.abs, delIdx num n r1.n⟩, c2, ⟨r2.abs, delIdx num n r2.n⟩, ?_, ?_⟩
        · simp [shiftIdx_del num n _ s1, shiftIdx_del num n _ s2] at hs
          exact hs.symm
        · apply rect_rows_delete P g g' num n c1.n r1.n c2.n r2.n hr s1 s2
          · intro c row hrow
            exact hg (c, row) (c, delIdx num n row) (by simp [Spec.shiftPos, shiftIdx_del num n row hrow])
          · intro c i a b
            exact hd (c, i) (by simp [Spec.shiftPos, shiftIdx_del_none num n i a b])
  | cols =>
    simp only [Spec.shiftRef, Spec.shiftCol, Spec.shiftRow, Spec.moves, Bool.not_false, Bool.or_true, and_true,
      reduceCtorEq, false_and, if_false, if_true] at hs
    cases h1 : Spec.shiftIdx (num : Int) (-(n : Int)) c1.n with
    | none => simp [h1] at hs
    | some j1 =>
      cases h2 : Spec.shiftIdx (num : Int) (-(n : Int)) c2.n with
      | none => simp [h1, h2] at hs
      | some j2 =>
        have s1 := surv _ _ h1
        have s2 := surv _ _ h2
        refine ⟨⟨c1.abs, delIdx num n c1.n⟩, r1, ⟨c2.abs, delIdx num n c2.n⟩, r2, ?_, ?_⟩
        · simp [shiftIdx_del num n _ s1, shiftIdx_del num n _ s2] at hs
          exact hs.symm
        · apply rect_cols_delete P g g' num n c1.n r1.n c2.n r2.n hc s1 s2
          · intro c row hcol
            exact hg (c, row) (delIdx num n c, row) (by simp [Spec.shiftPos, shiftIdx_del num n c hcol])
          · intro i row a b
            exact hd (i, row) (by simp [Spec.shiftPos, shiftIdx_del_none num n i a b])

/-- **aggregate_invariant_under_insert** — "evaluates to the same result" for an aggregate over a
range, with C08's specification of Excel's aggregates (`Calc.Spec.aggregate`: SUM, AVERAGE, COUNT,
COUNTA, MAX, MIN, PRODUCT): after rows/columns are inserted, aggregating the rewritten range over the
new grid gives the value the original range gave over the old grid. (Not true for functions that
see blank cells, e.g. COUNTBLANK/ROWS — in Excel as well.) -/
theorem aggregate_invariant_under_insert {N : Type} [Calc.NumOps N] (fn : Calc.Impl.AggFn)
    (dir : Dir) (num n : Nat) (c1 c2 : Spec.ColEnd) (r1 r2 : Spec.RowEnd)
    (hc : c1.n ≤ c2.n) (hr : r1.n ≤ r2.n) (g g' : Nat × Nat → Calc.Spec.Val N)
    (hg : ∀ p p', Spec.shiftPos ⟨dir, num, n⟩ p = some p' → g' p' = g p)
    (hb : ∀ p', (∀ p, Spec.shiftPos ⟨dir, num, n⟩ p ≠ some p') → g' p' = .blank) :
    ∃ c1' r1' c2' r2', Spec.shiftRef false ⟨dir, num, n⟩ (.range c1 r1 c2 r2) = some (.range c1' r1' c2' r2') ∧
      Calc.Spec.aggregate fn ((cellsOf c1'.n r1'.n c2'.n r2'.n).map g') =
        Calc.Spec.aggregate fn ((cellsOf c1.n r1.n c2.n r2.n).map g) := by
  obtain ⟨c1', r1', c2', r2', hs, hv⟩ := range_values_insert nonBlankB dir num n c1 c2 r1 r2 hc hr g g' hg
    (fun p' hp => by rw [hb p' hp]; rfl)
  refine ⟨c1', r1', c2', r2', hs, ?_⟩
  rw [← aggregate_filter fn (List.map g' _), ← aggregate_filter fn (List.map g _), hv]

/-- **aggregate_invariant_under_delete** — the same for deletion of rows/columns that hold no value
and none of the range's corners. -/
theorem aggregate_invariant_under_delete {N : Type} [Calc.NumOps N] (fn : Calc.Impl.AggFn)
    (dir : Dir) (num n : Nat) (c1 c2 : Spec.ColEnd) (r1 r2 : Spec.RowEnd)
    (hc : c1.n ≤ c2.n) (hr : r1.n ≤ r2.n) (g g' : Nat × Nat → Calc.Spec.Val N) (r' : Spec.Ref)
    (hs : Spec.shiftRef false ⟨dir, num, -(n : Int)⟩ (.range c1 r1 c2 r2) = some r')
    (hg : ∀ p p', Spec.shiftPos ⟨dir, num, -(n : Int)⟩ p = some p' → g' p' = g p)
    (hd : ∀ p, Spec.shiftPos ⟨dir, num, -(n : Int)⟩ p = none → g p = .blank) :
    ∃ c1' r1' c2' r2', r' = .range c1' r1' c2' r2' ∧
      Calc.Spec.aggregate fn ((cellsOf c1'.n r1'.n c2'.n r2'.n).map g') =
        Calc.Spec.aggregate fn ((cellsOf c1.n r1.n c2.n r2.n).map g) := by
  obtain ⟨c1', r1', c2', r2', he, hv⟩ := range_values_delete nonBlankB dir num n c1 c2 r1 r2 hc hr g g' r' hs hg
    (fun p hp => by rw [hd p hp]; rfl)
  refine ⟨c1', r1', c2', r2', he, ?_⟩
  rw [← aggregate_filter fn (List.map g' _), ← aggregate_filter fn (List.map g _), hv]

/-- the enumeration the range theorems speak about is the one calc.go's `rangeResolver` uses (tied by
the transcript op `cells`: `TEXTJOIN` over the real evaluator): for a normalised range `Spec.refCells`
is `cellsOf` of its corners, and a reversed range enumerates the same cells -/
theorem refCells_range (c1 c2 : Spec.ColEnd) (r1 r2 : Spec.RowEnd) (hc : c1.n ≤ c2.n) (hr : r1.n ≤ r2.n) :
    Spec.refCells (.range c1 r1 c2 r2) = cellsOf c1.n r1.n c2.n r2.n ∧
    Spec.refCells (.range c2 r2 c1 r1) = cellsOf c1.n r1.n c2.n r2.n := by
  simp [Spec.refCells, Nat.min_eq_left hc, Nat.min_eq_left hr, Nat.max_eq_right hc, Nat.max_eq_right hr,
    Nat.min_eq_right hc, Nat.min_eq_right hr, Nat.max_eq_left hc, Nat.max_eq_left hr]

/-- **impl_aggregate_invariant_under_insert** — `aggregate_invariant_under_insert` for the
transcription of calc.go's own aggregates (`Calc.Impl.aggregate`, the code C08 ties to the real
SUM/AVERAGE/COUNT/COUNTA/MAX/MIN/PRODUCT): they skip empty cells, SUM under `x + 0 = x`. -/
theorem impl_aggregate_invariant_under_insert {N : Type} [Calc.NumOps N] (fn : Calc.Impl.AggFn)
    (hz : fn = .sum → ∀ s : N, Calc.NumOps.add s Calc.NumOps.zero = s)
    (dir : Dir) (num n : Nat) (c1 c2 : Spec.ColEnd) (r1 r2 : Spec.RowEnd)
    (hc : c1.n ≤ c2.n) (hr : r1.n ≤ r2.n) (g g' : Nat × Nat → Calc.Impl.CellArg N)
    (hg : ∀ p p', Spec.shiftPos ⟨dir, num, n⟩ p = some p' → g' p' = g p)
    (hb : ∀ p', (∀ p, Spec.shiftPos ⟨dir, num, n⟩ p ≠ some p') → g' p' = .empty) :
    ∃ c1' r1' c2' r2', Spec.shiftRef false ⟨dir, num, n⟩ (.range c1 r1 c2 r2) = some (.range c1' r1' c2' r2') ∧
      Calc.Impl.aggregate fn ((cellsOf c1'.n r1'.n c2'.n r2'.n).map g') =
        Calc.Impl.aggregate fn ((cellsOf c1.n r1.n c2.n r2.n).map g) := by
  obtain ⟨c1', r1', c2', r2', hs, hv⟩ := range_values_insert nonEmptyB dir num n c1 c2 r1 r2 hc hr g g' hg
    (fun p' hp => by rw [hb p' hp]; rfl)
  refine ⟨c1', r1', c2', r2', hs, ?_⟩
  rw [← impl_aggregate_filter fn (List.map g' _) hz, ← impl_aggregate_filter fn (List.map g _) hz, hv]

/-- **impl_aggregate_invariant_under_delete** -/
theorem impl_aggregate_invariant_under_delete {N : Type} [Calc.NumOps N] (fn : Calc.Impl.AggFn)
    (hz : fn = .sum → ∀ s : N, Calc.NumOps.add s Calc.NumOps.zero = s)
    (dir : Dir) (num n : Nat) (c1 c2 : Spec.ColEnd) (r1 r2 : Spec.RowEnd)
    (hc : c1.n ≤ c2.n) (hr : r1.n ≤ r2.n) (g g' : Nat × Nat → Calc.Impl.CellArg N) (r' : Spec.Ref)
    (hs : Spec.shiftRef false ⟨dir, num, -(n : Int)⟩ (.range c1 r1 c2 r2) = some r')
    (hg : ∀ p p', Spec.shiftPos ⟨dir, num, -(n : Int)⟩ p = some p' → g' p' = g p)
    (hd : ∀ p, Spec.shiftPos ⟨dir, num, -(n : Int)⟩ p = none → g p = .empty) :
    ∃ c1' r1' c2' r2', r' = .range c1' r1' c2' r2' ∧
      Calc.Impl.aggregate fn ((cellsOf c1'.n r1'.n c2'.n r2'.n).map g') =
        Calc.Impl.aggregate fn ((cellsOf c1.n r1.n c2.n r2.n).map g) := by
  obtain ⟨c1', r1', c2', r2', he, hv⟩ := range_values_delete nonEmptyB dir num n c1 c2 r1 r2 hc hr g g' r' hs hg
    (fun p hp => by rw [hd p hp]; rfl)
  refine ⟨c1', r1', c2', r2', he, ?_⟩
  rw [← impl_aggregate_filter fn (List.map g' _) hz, ← impl_aggregate_filter fn (List.map g _) hz, hv]

/-! ## Shared formulas: the text a cell of a shared range stands for -/

/-- a relative coordinate translated by the cell's offset from the master cell -/
def tr (n : Nat) (d : Int) : Nat := ((n : Int) + d).toNat

/-- **shared_cell_translated** — `shiftCell` (used by `getSharedFormula` and, since the repair, by
`expandSharedFormulas` before every structural edit; tied by the transcript op `shf`): in the text
derived for the cell at offset `(dCol,dRow)` from the master cell, a relative cell reference of the
master is translated by that offset … -/
theorem shared_cell_translated (c r : Nat) (dCol dRow : Int)
    (hc1 : 1 ≤ c) (hc2 : c ≤ Facts.MaxColumns) (hr1 : 1 ≤ r) (hr2 : r ≤ Facts.TotalRows)
    (hc1' : 1 ≤ (c : Int) + dCol) (hc2' : (c : Int) + dCol ≤ Facts.MaxColumns)
    (hr1' : 1 ≤ (r : Int) + dRow) (hr2' : (r : Int) + dRow ≤ Facts.TotalRows) :
    Impl.shiftCell dCol dRow (Spec.render (.cell ⟨false, c⟩ ⟨false, r⟩)) =
      Spec.render (.cell ⟨false, tr c dCol⟩ ⟨false, tr r dRow⟩) := by
  unfold Impl.shiftCell
  have hnc := cellText_noColon ⟨false, c⟩ ⟨false, r⟩
  have e : Spec.render (.cell ⟨false, c⟩ ⟨false, r⟩) = Spec.renderCol ⟨false, c⟩ ++ Spec.renderRow ⟨false, r⟩ := rfl
  rw [e, splitColon_none _ hnc]
  simp only [List.map_cons, List.map_nil, Impl.joinColon]
  exact shiftPart_relative c r dCol dRow hc1 hc2 hr1 hr2 hc1' hc2' hr1' hr2'

/-- … an absolute one is kept … -/
theorem shared_cell_absolute_kept (c r : Nat) (dCol dRow : Int)
    (hc1 : 1 ≤ c) (hc2 : c ≤ Facts.MaxColumns) (hr1 : 1 ≤ r) (hr2 : r ≤ Facts.TotalRows) :
    Impl.shiftCell dCol dRow (Spec.render (.cell ⟨true, c⟩ ⟨true, r⟩)) = Spec.render (.cell ⟨true, c⟩ ⟨true, r⟩) := by
  unfold Impl.shiftCell
  have hnc := cellText_noColon ⟨true, c⟩ ⟨true, r⟩
  have e : Spec.render (.cell ⟨true, c⟩ ⟨true, r⟩) = Spec.renderCol ⟨true, c⟩ ++ Spec.renderRow ⟨true, r⟩ := rfl
  rw [e, splitColon_none _ hnc]
  simp only [List.map_cons, List.map_nil, Impl.joinColon]
  exact shiftPart_absolute c r dCol dRow hc1 hc2 hr1 hr2

/-- … and a relative range is translated corner by corner, so the cell at offset `(dCol,dRow)` refers
to the master's range moved by exactly that offset: it denotes `p + (dCol,dRow)` iff the master's
range denotes `p`. -/
theorem shared_range_translated (c1 r1 c2 r2 : Nat) (dCol dRow : Int)
    (h1 : 1 ≤ c1 ∧ c1 ≤ Facts.MaxColumns ∧ 1 ≤ r1 ∧ r1 ≤ Facts.TotalRows)
    (h2 : 1 ≤ c2 ∧ c2 ≤ Facts.MaxColumns ∧ 1 ≤ r2 ∧ r2 ≤ Facts.TotalRows)
    (h1' : 1 ≤ (c1 : Int) + dCol ∧ (c1 : Int) + dCol ≤ Facts.MaxColumns ∧ 1 ≤ (r1 : Int) + dRow ∧ (r1 : Int) + dRow ≤ Facts.TotalRows)
    (h2' : 1 ≤ (c2 : Int) + dCol ∧ (c2 : Int) + dCol ≤ Facts.MaxColumns ∧ 1 ≤ (r2 : Int) + dRow ∧ (r2 : Int) + dRow ≤ Facts.TotalRows) :
    Impl.shiftCell dCol dRow (Spec.render (.range ⟨false, c1⟩ ⟨false, r1⟩ ⟨false, c2⟩ ⟨false, r2⟩)) =
      Spec.render (.range ⟨false, tr c1 dCol⟩ ⟨false, tr r1 dRow⟩ ⟨false, tr c2 dCol⟩ ⟨false, tr r2 dRow⟩) ∧
    ∀ p : Nat × Nat, 0 ≤ (p.1 : Int) + dCol → 0 ≤ (p.2 : Int) + dRow →
      (Spec.denote (.range ⟨false, tr c1 dCol⟩ ⟨false, tr r1 dRow⟩ ⟨false, tr c2 dCol⟩ ⟨false, tr r2 dRow⟩)
          (tr p.1 dCol, tr p.2 dRow) ↔
        Spec.denote (.range ⟨false, c1⟩ ⟨false, r1⟩ ⟨false, c2⟩ ⟨false, r2⟩) p) := by
  constructor
  · unfold Impl.shiftCell
    have e : Spec.render (.range ⟨false, c1⟩ ⟨false, r1⟩ ⟨false, c2⟩ ⟨false, r2⟩) =
        (Spec.renderCol ⟨false, c1⟩ ++ Spec.renderRow ⟨false, r1⟩) ++ ':' :: (Spec.renderCol ⟨false, c2⟩ ++ Spec.renderRow ⟨false, r2⟩) := by
      simp [Spec.render]
    rw [e, splitColon_one _ _ (cellText_noColon _ _) (cellText_noColon _ _)]
    simp only [List.map_cons, List.map_nil, Impl.joinColon]
    have a := shiftPart_relative c1 r1 dCol dRow h1.1 h1.2.1 h1.2.2.1 h1.2.2.2 h1'.1 h1'.2.1 h1'.2.2.1 h1'.2.2.2
    have b := shiftPart_relative c2 r2 dCol dRow h2.1 h2.2.1 h2.2.2.1 h2.2.2.2 h2'.1 h2'.2.1 h2'.2.2.1 h2'.2.2.2
    simp only [Spec.render] at a b
    rw [a, b]
    simp [Spec.render, tr]
  · intro p hp1 hp2
    simp only [Spec.denote, tr, Nat.min_def, Nat.max_def]
    split <;> split <;> split <;> split <;> omega

/-- **shared_cell_any_markers** — `shiftCell` on a cell reference with ANY `$` combination: exactly the
coordinates without `$` are translated by the offset, the others are kept (`A$1`, `$A1` included). -/
theorem shared_cell_any_markers (c : Spec.ColEnd) (r : Spec.RowEnd) (dCol dRow : Int)
    (hc : Spec.colOk c) (hr : Spec.rowOk r)
    (hc' : c.abs = false → 1 ≤ (c.n : Int) + dCol ∧ (c.n : Int) + dCol ≤ Facts.MaxColumns)
    (hr' : r.abs = false → 1 ≤ (r.n : Int) + dRow ∧ (r.n : Int) + dRow ≤ Facts.TotalRows) :
    Impl.shiftCell dCol dRow (Spec.render (.cell c r)) =
      Spec.render (.cell ⟨c.abs, if c.abs then c.n else tr c.n dCol⟩ ⟨r.abs, if r.abs then r.n else tr r.n dRow⟩) := by
  obtain ⟨ca, cn⟩ := c
  obtain ⟨ra, rn⟩ := r
  obtain ⟨hc1, hc2⟩ := hc
  obtain ⟨hr1, hr2⟩ := hr
  simp only at hc1 hc2 hr1 hr2 hc' hr'
  unfold Impl.shiftCell
  have e : Spec.render (.cell ⟨ca, cn⟩ ⟨ra, rn⟩) = Spec.renderCol ⟨ca, cn⟩ ++ Spec.renderRow ⟨ra, rn⟩ := rfl
  rw [e, splitColon_none _ (cellText_noColon _ _)]
  simp only [List.map_cons, List.map_nil, Impl.joinColon]
  cases ca <;> cases ra
  · have a := hc' rfl; have b := hr' rfl
    simp only [tr, Bool.false_eq_true, if_false]
    exact shiftPart_relative cn rn dCol dRow hc1 hc2 hr1 hr2 a.1 a.2 b.1 b.2
  · have a := hc' rfl
    simp only [tr, Bool.false_eq_true, if_false, if_true]
    exact shiftPart_rowAbs cn rn dCol dRow hc1 hc2 hr1 hr2 a.1 a.2
  · have b := hr' rfl
    simp only [tr, Bool.false_eq_true, if_false, if_true]
    exact shiftPart_colAbs cn rn dCol dRow hc1 hc2 hr1 hr2 b.1
  · simp only [if_true]
    exact shiftPart_absolute cn rn dCol dRow hc1 hc2 hr1 hr2

/-- whole columns and whole rows in a shared formula: relative ones are translated, `$` ones kept
(`B:D` at offset (2,5) → `D:F`, `$B:D` → `$B:F`, `3:$4` → `8:$4`) -/
theorem shared_whole_rows_cols :
    Impl.shiftCell 2 5 ['B', ':', 'D'] = ['D', ':', 'F'] ∧
    Impl.shiftCell 2 5 ['$', 'B', ':', 'D'] = ['$', 'B', ':', 'F'] ∧
    Impl.shiftCell 2 5 ['3', ':', '$', '4'] = ['8', ':', '$', '4'] := by
  decide +kernel

/-- **shared_prefixed_operand_not_translated** (observation, not a C07 violation: the text is what
`GetCellFormula`/`CalcCellValue` already showed before any edit, and `expandSharedFormulas` freezes
exactly that text) — cell.go's `shiftCell` does not recognise a part that carries a sheet prefix: in a
cell two rows below the master `Sheet1!A1` stays `Sheet1!A1` (Excel: `Sheet1!A3`), and of
`Sheet1!A1:B2` only the second corner moves. Reproduced by the transcript op `shf`. -/
theorem shared_prefixed_operand_not_translated :
    Impl.shiftCell 0 2 ['S', '!', 'A', '1'] = ['S', '!', 'A', '1'] ∧
    Impl.shiftCell 0 2 ['S', '!', 'A', '1', ':', 'B', '2'] = ['S', '!', 'A', '1', ':', 'B', '4'] := by
  decide +kernel

/-! ## Data-validation formulas: rewritten through the XML escaping -/

/-- the escaping used for data-validation formulas loses nothing -/
theorem dv_unescape_escape (s : Str) : Impl.unescapeXML (Impl.escapeXML s) = s := unescape_escape s

/-- **dv_wrapper_transparent** — clause "data-validation rules": `adjustDataValidations` rewrites the
UNESCAPED formula with the same `adjustFormulaRef` as a cell formula and stores it escaped again, so
what `GetDataValidations` (and Excel) read after the edit is exactly the rewrite of what they read
before; a quoted literal list (`&quot;…&quot;`) is not touched. Tied by the transcript op `dvw` (the
stored text is taken from the saved package). -/
theorem dv_wrapper_transparent (env : Impl.Env) (content v : Str) (toks : List Token)
    (h : Impl.adjustDV env content toks = some v) :
    (Impl.isFormulaDV content = true ∧
      Impl.unescapeXML v = (Impl.adjustRef { env with formula := Impl.unescapeXML content } toks).1) ∨
    (Impl.isFormulaDV content = false ∧ v = content) := by
  unfold Impl.adjustDV at h
  by_cases hf : Impl.isFormulaDV content = true
  · left
    simp only [hf, if_true] at h
    refine ⟨hf, ?_⟩
    cases hr : Impl.adjustRef { env with formula := Impl.unescapeXML content } toks with
    | mk val er =>
      cases er with
      | none => simp [hr] at h; rw [← h, unescape_escape]
      | some x => simp [hr] at h
  · right
    have hf' : Impl.isFormulaDV content = false := by simpa using hf
    simp only [hf', Bool.false_eq_true, if_false, Option.some.injEq] at h
    exact ⟨hf', h.symm⟩

/-! ## Where the current code does not satisfy the full statement -/

/-- **array_constant_verbatim** (repaired in the repository; was `finding_array_constant_rewritten`) —
"every token shape the tokenizer can produce": efp tokenises an array constant as pseudo-functions
`ARRAY(ARRAYROW(…),ARRAYROW(…))`; the token loop renders them back as braces and row separators:
the tokens of `SUM({1,2;3})+A3` come back as `SUM({1,2;3})+A4` (before the repair:
`SUM(ARRAY(ARRAYROW(1,2),ARRAYROW(3)))+A4`), while an ordinary function call keeps its parentheses. -/
theorem array_constant_verbatim :
    Impl.adjustRef ⟨['S'], ['S'], false, ⟨.rows, 3, 1⟩, [], []⟩
      [⟨['S','U','M'], .function, .start⟩,
       ⟨['A','R','R','A','Y'], .function, .start⟩, ⟨['A','R','R','A','Y','R','O','W'], .function, .start⟩,
       ⟨['1'], .operand, .number⟩, ⟨[','], .argument, .none⟩, ⟨['2'], .operand, .number⟩, ⟨[], .function, .stop⟩,
       ⟨[','], .argument, .none⟩, ⟨['A','R','R','A','Y','R','O','W'], .function, .start⟩,
       ⟨['3'], .operand, .number⟩, ⟨[], .function, .stop⟩, ⟨[], .function, .stop⟩, ⟨[], .function, .stop⟩,
       ⟨['+'], .infix, .math⟩, ⟨['A','3'], .operand, .range⟩]
      = (['S','U','M','(','{','1',',','2',';','3','}',')','+','A','4'], none) := by
  decide +kernel

/-- **finding_sheet_prefix_requoted** (open, narrowed by a repair) — "quoted sheet names are preserved
verbatim" holds only up to re-quoting: efp drops the quotes and `escapeSheetName` decides anew from
the name. What remains after the repair is cosmetic and is what Excel itself does when it stores a
formula: unnecessary quotes are dropped (`'Sheet1'!A1` comes back as `Sheet1!A1`), and a name with
`_` or `.` gets quotes (`Sheet_3!A1` → `'Sheet_3'!A1`). -/
theorem finding_sheet_prefix_requoted :
    Impl.escapeSheetName ['S','h','e','e','t','1'] = ['S','h','e','e','t','1'] ∧
    Impl.escapeSheetName ['S','h','e','e','t','_','3'] = ['\'','S','h','e','e','t','_','3','\''] := by
  decide +kernel

/-- **required_quotes_kept** (repaired in the repository) — names that Excel only accepts quoted
although they consist of letters and numbers keep their quotes: a leading digit (`2024`), a name that
reads as a cell reference (`FY24`, `A1`), a boolean. -/
theorem required_quotes_kept :
    Impl.escapeSheetName ['2','0','2','4'] = ['\'','2','0','2','4','\''] ∧
    Impl.escapeSheetName ['F','Y','2','4'] = ['\'','F','Y','2','4','\''] ∧
    Impl.escapeSheetName ['A','1'] = ['\'','A','1','\''] ∧
    Impl.escapeSheetName ['t','r','u','e'] = ['\'','t','r','u','e','\''] ∧
    Impl.escapeSheetName ['F','Y'] = ['F','Y'] := by
  decide +kernel

/-- **sheet_name_with_bang** (repaired in the repository; was `finding_sheet_name_with_bang`) —
`'a!b'!A3` (token value `a!b!A3`): on a sheet other than `a!b` the operand is left alone, and when
`a!b` is the edited sheet it is relocated; the prefix is re-quoted. General statement:
`operand_prefixed_edited_sheet` / `operand_prefixed_other_sheet`, now without any condition on the name. -/
theorem sheet_name_with_bang :
    Impl.adjustOperand ['S'] ['S'] false ⟨.cols, 1, 2⟩ ['a','!','b','!','A','3'] =
      .ok ['\'','a','!','b','\'','!','A','3'] ∧
    Impl.adjustOperand ['a','!','b'] ['S'] false ⟨.cols, 1, 2⟩ ['a','!','b','!','A','3'] =
      .ok ['\'','a','!','b','\'','!','C','3'] := by
  decide +kernel

/-- outside the property's hypothesis ("no endpoint in a deleted row/column"), recorded for the
reader: the code never produces `#REF!`; an endpoint inside the deleted row slides up, so `A3`
after deleting row 3 reads `A2` and `A3:A5` reads `A2:A4` (Excel: `#REF!` and `A3:A4`). -/
theorem deleted_endpoint_slides :
    Spec.shiftRef false ⟨.rows, 3, -1⟩ (.cell ⟨false, 1⟩ ⟨false, 3⟩) = none ∧
    Impl.adjustCell false ⟨.rows, 3, -1⟩ [] ['A','3'] = .ok ['A','2'] ∧
    Impl.adjustCell false ⟨.rows, 3, -1⟩ [] ['A','3',':','A','5'] = .ok ['A','2',':','A','4'] := by
  decide +kernel

/-- when a relocated reference would leave the grid the rewriter returns an error (and the caller
aborts the whole insert): `XFD1` cannot move right, `A1048576` cannot move down. -/
theorem leaves_grid_is_error :
    Impl.adjustCell false ⟨.cols, 1, 1⟩ [] ['X','F','D','1'] = .error .colNumber ∧
    Impl.adjustCell false ⟨.rows, 1, 1⟩ [] ['A','1','0','4','8','5','7','6'] = .error .maxRows := by
  decide +kernel

/-! ## Non-vacuity -/

/-- the hypotheses of `operand_rewrite_correct` / `denote_shift` are satisfiable at the grid edge,
for insertion and deletion, with mixed `$` flags -/
example :
    Spec.inGrid (.range ⟨true, 16382⟩ ⟨false, 5⟩ ⟨false, 16383⟩ ⟨true, 1048575⟩) ∧
    Spec.shiftRef false ⟨.cols, 3, 1⟩ (.range ⟨true, 16382⟩ ⟨false, 5⟩ ⟨false, 16383⟩ ⟨true, 1048575⟩) =
      some (.range ⟨true, 16383⟩ ⟨false, 5⟩ ⟨false, 16384⟩ ⟨true, 1048575⟩) ∧
    Spec.inGrid (.range ⟨true, 16383⟩ ⟨false, 5⟩ ⟨false, 16384⟩ ⟨true, 1048575⟩) ∧
    Spec.shiftRef false ⟨.rows, 4, -1⟩ (.range ⟨true, 1⟩ ⟨false, 3⟩ ⟨false, 2⟩ ⟨true, 9⟩) =
      some (.range ⟨true, 1⟩ ⟨false, 3⟩ ⟨false, 2⟩ ⟨true, 8⟩) ∧
    Spec.shiftRef true ⟨.rows, 1, 2⟩ (.cell ⟨true, 1⟩ ⟨false, 3⟩) = some (.cell ⟨true, 1⟩ ⟨false, 3⟩) ∧
    Spec.shiftRef true ⟨.rows, 1, 2⟩ (.cell ⟨false, 1⟩ ⟨true, 3⟩) = some (.cell ⟨false, 1⟩ ⟨true, 5⟩) := by
  decide +kernel

end XlModel.Props.C07
