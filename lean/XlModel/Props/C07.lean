/-
C07 — formula references keep denoting the same cells across structural edits.

Property theorems about `XlModel.FormulaRef` (transcription of adjust.go's
`adjustFormulaRef` / `adjustFormulaOperand` / `adjustFormulaColumnName` /
`adjustFormulaRowNumber` / `escapeSheetName`). Every theorem quantifies over all
references (all 16384 columns, all rows, every `$` combination), all edits and
all token lists.
-/
import XlModel.Lemmas.FormulaRef2

namespace XlModel.Props.C07
open XlModel XlModel.Ref XlModel.FormulaRef

/-! ## Facts: the guards of the Go functions the model transcribes -/

/-- Tie: the guard skeleton regenerated from adjust.go is the one `Impl` transcribes
(comparison operators, character classes, branch order, floor/limit constants). -/
theorem facts_guards :
    Facts.C07.guardsColumnName =
      ["name==\"\"||(!abs&&keepRelative)", "_!=nil", "dir==columns&&_>=num", "_+=offset;_<1"] ∧
    Facts.C07.guardsRowNumber =
      ["name==\"\"||(!abs&&keepRelative)", "dir==rows&&_>=num", "_+=offset;_<1", "_>TotalRows"] ∧
    Facts.C07.guardsOperandRef = ["_!=nil"] ∧
    Facts.C07.guardsOperand =
      ["len(_)==2", "sheetName==\"\"", "sheet!=sheetName", "_==36",
       "_,_,_,_=adjustFormulaColumnName(_,_,abs,keepRelative,dir,num,offset);_!=nil",
       "(65<=_&&_<=90)||(97<=_&&_<=122)", "48<=_&&_<=57", "_!=nil",
       "_,_,_,abs,_=adjustFormulaOperandRef(_,_,_,abs,keepRelative,dir,num,offset);_!=nil"] ∧
    Facts.C07.guardsRef =
      ["_.Scope==\"Workbook\"||_.Scope==sheet", "_.TType==efp.TokenTypeUnknown",
       "_.TType==efp.TokenTypeOperand&&_.TSubType==efp.TokenSubTypeRange",
       "inStrSlice(_,_.TValue,true)!=-1", "strings.ContainsAny(_.TValue,\"[]\")", "_!=nil",
       "_:=transformParenthesesToken(_);_!=\"\"",
       "_.TType==efp.TokenTypeOperand&&_.TSubType==efp.TokenSubTypeText",
       "_.TType==efp.TokenTypeOperatorInfix&&_.TSubType==efp.TokenSubTypeIntersection"] ∧
    Facts.C07.guardsParen =
      ["isFunctionStartToken(_)||isBeginParenthesesToken(_)", "isFunctionStopToken(_)||isEndParenthesesToken(_)"] ∧
    Facts.C07.guardsEscape =
      ["strings.IndexFunc(name,func{!unicode.IsLetter(_)&&!unicode.IsNumber(_)})!=-1"] := by
  decide

/-- Tie: literal constants of the rewriter (character classes, separator, floors, quotes). -/
theorem facts_constants :
    Facts.C07.dollar = 36 ∧ Facts.C07.upperLo = 65 ∧ Facts.C07.upperHi = 90 ∧ Facts.C07.lowerLo = 97 ∧
    Facts.C07.lowerHi = 122 ∧ Facts.C07.digitLo = 48 ∧ Facts.C07.digitHi = 57 ∧ Facts.C07.sheetSep = 33 ∧
    Facts.C07.sheetParts = 2 ∧ Facts.C07.colFloor = 1 ∧ Facts.C07.colFloorSet = 1 ∧ Facts.C07.rowFloor = 1 ∧
    Facts.C07.rowFloorSet = 1 ∧ Facts.C07.textQuote = 34 ∧ Facts.C07.sheetQuote = 39 ∧
    Facts.MaxColumns = 16384 ∧ Facts.TotalRows = 1048576 := by
  decide

/-! ## The operand automaton rewrites every reference of the grammar to its relocation -/

/-- **operand_rewrite_correct** — clause "every formula is rewritten so that each reference still
denotes the same cells at their new position", at the level of one reference: for EVERY reference
of the grammar (cell, range, whole columns, whole rows; all columns `A..XFD`, all rows, every `$`
combination), every edit (rows or columns, insert or delete, any position and count) and both
`keepRelative` modes, if no (moving) endpoint lies in a deleted row/column and the relocated
reference stays in the grid, `adjustFormulaOperand`'s character automaton turns the rendered
reference into exactly the rendering of `Spec.shiftRef` (appended to the sheet prefix `op0`). -/
theorem operand_rewrite_correct (kr : Bool) (e : Edit) (r r' : Spec.Ref) (op0 : Str)
    (hg : Spec.inGrid r) (hs : Spec.shiftRef kr e r = some r') (hg' : Spec.inGrid r') :
    Impl.adjustCell kr e op0 (Spec.render r) = .ok (op0 ++ Spec.render r') := by
  cases r with
  | cell c ro =>
    simp only [Spec.shiftRef] at hs
    cases hc : Spec.shiftCol kr e c with
    | none => simp [hc] at hs
    | some c' =>
      cases hr : Spec.shiftRow kr e ro with
      | none => simp [hc, hr] at hs
      | some ro' =>
        simp only [hc, hr, Option.some.injEq] at hs
        subst hs
        obtain ⟨g1, g2⟩ := hg
        obtain ⟨g1', g2'⟩ := hg'
        exact adjustCell_single kr e op0 _ _ (runEnd_cell kr e c c' ro ro' op0 g1 hc g1' g2 hr g2')
  | range c1 r1 c2 r2 =>
    simp only [Spec.shiftRef] at hs
    cases h1 : Spec.shiftCol kr e c1 with
    | none => simp [h1] at hs
    | some c1' =>
      cases h2 : Spec.shiftRow kr e r1 with
      | none => simp [h1, h2] at hs
      | some r1' =>
        cases h3 : Spec.shiftCol kr e c2 with
        | none => simp [h1, h2, h3] at hs
        | some c2' =>
          cases h4 : Spec.shiftRow kr e r2 with
          | none => simp [h1, h2, h3, h4] at hs
          | some r2' =>
            simp only [h1, h2, h3, h4, Option.some.injEq] at hs
            subst hs
            obtain ⟨g1, g2, g3, g4⟩ := hg
            obtain ⟨g1', g2', g3', g4'⟩ := hg'
            have hX := runEnd_cell kr e c1 c1' r1 r1' op0 g1 h1 g1' g2 h2 g2'
            have hY := runEnd_cell kr e c2 c2' r2 r2' (op0 ++ (Spec.renderCol c1' ++ Spec.renderRow r1') ++ [':'])
              g3 h3 g3' g4 h4 g4'
            have := adjustCell_range kr e op0 _ _ _ _ hX hY
            simpa [Spec.render, List.append_assoc] using this
  | cols c1 c2 =>
    simp only [Spec.shiftRef] at hs
    cases h1 : Spec.shiftCol kr e c1 with
    | none => simp [h1] at hs
    | some c1' =>
      cases h3 : Spec.shiftCol kr e c2 with
      | none => simp [h1, h3] at hs
      | some c2' =>
        simp only [h1, h3, Option.some.injEq] at hs
        subst hs
        obtain ⟨g1, g3⟩ := hg
        obtain ⟨g1', g3'⟩ := hg'
        have hX := runEnd_col kr e c1 c1' op0 g1 h1 g1'
        have hY := runEnd_col kr e c2 c2' (op0 ++ Spec.renderCol c1' ++ [':']) g3 h3 g3'
        have := adjustCell_range kr e op0 _ _ _ _ hX hY
        simpa [Spec.render, List.append_assoc] using this
  | rows r1 r2 =>
    simp only [Spec.shiftRef] at hs
    cases h2 : Spec.shiftRow kr e r1 with
    | none => simp [h2] at hs
    | some r1' =>
      cases h4 : Spec.shiftRow kr e r2 with
      | none => simp [h2, h4] at hs
      | some r2' =>
        simp only [h2, h4, Option.some.injEq] at hs
        subst hs
        obtain ⟨g2, g4⟩ := hg
        obtain ⟨g2', g4'⟩ := hg'
        have hX := runEnd_row kr e r1 r1' op0 g2 h2 g2'
        have hY := runEnd_row kr e r2 r2' (op0 ++ Spec.renderRow r1' ++ [':']) g4 h4 g4'
        have := adjustCell_range kr e op0 _ _ _ _ hX hY
        simpa [Spec.render, List.append_assoc] using this

/-! ## Markers are preserved -/

/-- **markers_preserved** — clause "absolute/relative markers are preserved": relocation never
changes a `$` flag nor the shape of the reference. -/
theorem markers_preserved (kr : Bool) (e : Edit) (r r' : Spec.Ref) (hs : Spec.shiftRef kr e r = some r') :
    match r, r' with
    | .cell c ro, .cell c' ro' => c'.abs = c.abs ∧ ro'.abs = ro.abs
    | .range c1 r1 c2 r2, .range c1' r1' c2' r2' =>
        c1'.abs = c1.abs ∧ r1'.abs = r1.abs ∧ c2'.abs = c2.abs ∧ r2'.abs = r2.abs
    | .cols c1 c2, .cols c1' c2' => c1'.abs = c1.abs ∧ c2'.abs = c2.abs
    | .rows r1 r2, .rows r1' r2' => r1'.abs = r1.abs ∧ r2'.abs = r2.abs
    | _, _ => False := by
  cases r with
  | cell c ro =>
    simp only [Spec.shiftRef] at hs
    cases hc : Spec.shiftCol kr e c with
    | none => simp [hc] at hs
    | some c' =>
      cases hr : Spec.shiftRow kr e ro with
      | none => simp [hc, hr] at hs
      | some ro' =>
        simp only [hc, hr, Option.some.injEq] at hs
        subst hs
        exact ⟨shiftCol_abs kr e hc, shiftRow_abs kr e hr⟩
  | range c1 r1 c2 r2 =>
    simp only [Spec.shiftRef] at hs
    cases h1 : Spec.shiftCol kr e c1 with
    | none => simp [h1] at hs
    | some c1' =>
      cases h2 : Spec.shiftRow kr e r1 with
      | none => simp [h1, h2] at hs
      | some r1' =>
        cases h3 : Spec.shiftCol kr e c2 with
        | none => simp [h1, h2, h3] at hs
        | some c2' =>
          cases h4 : Spec.shiftRow kr e r2 with
          | none => simp [h1, h2, h3, h4] at hs
          | some r2' =>
            simp only [h1, h2, h3, h4, Option.some.injEq] at hs
            subst hs
            exact ⟨shiftCol_abs kr e h1, shiftRow_abs kr e h2, shiftCol_abs kr e h3, shiftRow_abs kr e h4⟩
  | cols c1 c2 =>
    simp only [Spec.shiftRef] at hs
    cases h1 : Spec.shiftCol kr e c1 with
    | none => simp [h1] at hs
    | some c1' =>
      cases h3 : Spec.shiftCol kr e c2 with
      | none => simp [h1, h3] at hs
      | some c2' =>
        simp only [h1, h3, Option.some.injEq] at hs
        subst hs
        exact ⟨shiftCol_abs kr e h1, shiftCol_abs kr e h3⟩
  | rows r1 r2 =>
    simp only [Spec.shiftRef] at hs
    cases h2 : Spec.shiftRow kr e r1 with
    | none => simp [h2] at hs
    | some r1' =>
      cases h4 : Spec.shiftRow kr e r2 with
      | none => simp [h2, h4] at hs
      | some r2' =>
        simp only [h2, h4, Option.some.injEq] at hs
        subst hs
        exact ⟨shiftRow_abs kr e h2, shiftRow_abs kr e h4⟩

/-- the rendered text carries exactly one `$` per absolute coordinate, in front of it: the
rewritten operand of a cell reference is `$?COL'$?ROW'` with the original flags (corollary of
`operand_rewrite_correct` and `markers_preserved`, spelled out for the cell shape). -/
theorem cell_markers_in_text (kr : Bool) (e : Edit) (c c' : Spec.ColEnd) (ro ro' : Spec.RowEnd)
    (hg : Spec.inGrid (.cell c ro)) (hs : Spec.shiftRef kr e (.cell c ro) = some (.cell c' ro'))
    (hg' : Spec.inGrid (.cell c' ro')) :
    Impl.adjustCell kr e [] (Spec.render (.cell c ro)) =
      .ok (Spec.dollarIf c.abs ++ numToName c'.n ++ (Spec.dollarIf ro.abs ++ itoa ro'.n)) := by
  have h := operand_rewrite_correct kr e _ _ [] hg hs hg'
  have m := markers_preserved kr e _ _ hs
  simp only at m
  rw [h]
  simp [Spec.render, Spec.renderCol, Spec.renderRow, m.1, m.2]

/-! ## Same cells: the denotation of the relocated reference -/

def posOk (p : Nat × Nat) : Prop :=
  1 ≤ p.1 ∧ p.1 ≤ Facts.MaxColumns ∧ 1 ≤ p.2 ∧ p.2 ≤ Facts.TotalRows

/-- relocation of indices is strictly monotone on the surviving indices -/
theorem shiftIdx_mono {num off : Int} (hn : 0 ≤ num) {a b a' b' : Nat}
    (ha : Spec.shiftIdx num off a = some a') (hb : Spec.shiftIdx num off b = some b') :
    (a ≤ b ↔ a' ≤ b') := by
  unfold Spec.shiftIdx at ha hb
  split at ha <;> split at hb
  all_goals (try split at ha) <;> (try split at hb) <;> (try split at ha) <;> (try split at hb)
  all_goals simp only [Option.some.injEq, reduceCtorEq] at ha hb
  all_goals omega

theorem between_shift {a b x a' b' x' : Nat}
    (h1 : a ≤ b ↔ a' ≤ b') (h2 : b ≤ a ↔ b' ≤ a') (h3 : a ≤ x ↔ a' ≤ x') (h4 : x ≤ a ↔ x' ≤ a')
    (h5 : b ≤ x ↔ b' ≤ x') (h6 : x ≤ b ↔ x' ≤ b') :
    (min a' b' ≤ x' ∧ x' ≤ max a' b') ↔ (min a b ≤ x ∧ x ≤ max a b) := by
  simp only [Nat.min_def, Nat.max_def]
  split <;> split <;> omega

theorem between_of_shift {num off : Int} (hn : 0 ≤ num) {a b x a' b' x' : Nat}
    (ha : Spec.shiftIdx num off a = some a') (hb : Spec.shiftIdx num off b = some b')
    (hx : Spec.shiftIdx num off x = some x') :
    (min a' b' ≤ x' ∧ x' ≤ max a' b') ↔ (min a b ≤ x ∧ x ≤ max a b) :=
  between_shift (shiftIdx_mono hn ha hb) (shiftIdx_mono hn hb ha) (shiftIdx_mono hn ha hx)
    (shiftIdx_mono hn hx ha) (shiftIdx_mono hn hb hx) (shiftIdx_mono hn hx hb)

theorem eq_of_shift {num off : Int} (hn : 0 ≤ num) {a x a' x' : Nat}
    (ha : Spec.shiftIdx num off a = some a') (hx : Spec.shiftIdx num off x = some x') :
    (x' = a' ↔ x = a) := by
  have h1 := shiftIdx_mono hn ha hx
  have h2 := shiftIdx_mono hn hx ha
  omega

theorem shiftCol_cols {e : Edit} (hd : e.dir = .cols) {c c' : Spec.ColEnd}
    (h : Spec.shiftCol false e c = some c') : Spec.shiftIdx e.num e.off c.n = some c'.n := by
  unfold Spec.shiftCol Spec.moves at h
  simp only [hd, Bool.not_false, Bool.or_true, and_self, if_true] at h
  cases hx : Spec.shiftIdx e.num e.off c.n with
  | none => simp [hx] at h
  | some j => simp [hx] at h; rw [← h]

theorem shiftCol_rows {e : Edit} (hd : e.dir = .rows) {c c' : Spec.ColEnd}
    (h : Spec.shiftCol false e c = some c') : c' = c := by
  unfold Spec.shiftCol at h
  simp [hd] at h
  exact h.symm

theorem shiftRow_rows {e : Edit} (hd : e.dir = .rows) {r r' : Spec.RowEnd}
    (h : Spec.shiftRow false e r = some r') : Spec.shiftIdx e.num e.off r.n = some r'.n := by
  unfold Spec.shiftRow Spec.moves at h
  simp only [hd, Bool.not_false, Bool.or_true, and_self, if_true] at h
  cases hx : Spec.shiftIdx e.num e.off r.n with
  | none => simp [hx] at h
  | some j => simp [hx] at h; rw [← h]

theorem shiftRow_cols {e : Edit} (hd : e.dir = .cols) {r r' : Spec.RowEnd}
    (h : Spec.shiftRow false e r = some r') : r' = r := by
  unfold Spec.shiftRow at h
  simp [hd] at h
  exact h.symm

/-- **denote_shift** — the semantic clause "each reference still denotes the same cells at their
new position": for every reference none of whose endpoints is deleted, and every surviving grid
cell `p` that the edit moves to `p'`, the relocated reference denotes `p'` iff the original
denoted `p`. (Cells of inserted rows/columns have no pre-image; they are blank.) -/
theorem denote_shift (e : Edit) (hn : 0 ≤ e.num) (r r' : Spec.Ref) (p p' : Nat × Nat)
    (hs : Spec.shiftRef false e r = some r') (hp : Spec.shiftPos e p = some p')
    (hok : posOk p) (hok' : posOk p') :
    Spec.denote r' p' ↔ Spec.denote r p := by
  obtain ⟨px, py⟩ := p
  obtain ⟨px', py'⟩ := p'
  obtain ⟨o1, o2, o3, o4⟩ := hok
  obtain ⟨o1', o2', o3', o4'⟩ := hok'
  simp only at o1 o2 o3 o4 o1' o2' o3' o4'
  cases hd : e.dir with
  | cols =>
    have hpx : Spec.shiftIdx e.num e.off px = some px' ∧ py' = py := by
      unfold Spec.shiftPos at hp
      simp only [hd] at hp
      cases hx : Spec.shiftIdx e.num e.off px with
      | none => simp [hx] at hp
      | some j => simp [hx] at hp; exact ⟨by rw [hp.1], hp.2.symm⟩
    obtain ⟨hpx, rfl⟩ := hpx
    cases r with
    | cell c ro =>
      simp only [Spec.shiftRef] at hs
      cases hc : Spec.shiftCol false e c with
      | none => simp [hc] at hs
      | some c' =>
        cases hr : Spec.shiftRow false e ro with
        | none => simp [hc, hr] at hs
        | some ro' =>
          simp only [hc, hr, Option.some.injEq] at hs
          subst hs
          have := eq_of_shift hn (shiftCol_cols hd hc) hpx
          simp only [Spec.denote, shiftRow_cols hd hr, this]
    | range c1 r1 c2 r2 =>
      simp only [Spec.shiftRef] at hs
      cases h1 : Spec.shiftCol false e c1 with
      | none => simp [h1] at hs
      | some c1' =>
        cases h2 : Spec.shiftRow false e r1 with
        | none => simp [h1, h2] at hs
        | some r1' =>
          cases h3 : Spec.shiftCol false e c2 with
          | none => simp [h1, h2, h3] at hs
          | some c2' =>
            cases h4 : Spec.shiftRow false e r2 with
            | none => simp [h1, h2, h3, h4] at hs
            | some r2' =>
              simp only [h1, h2, h3, h4, Option.some.injEq] at hs
              subst hs
              have := between_of_shift hn (shiftCol_cols hd h1) (shiftCol_cols hd h3) hpx
              simp only [Spec.denote, shiftRow_cols hd h2, shiftRow_cols hd h4]
              constructor
              · intro ⟨a, b, c, d⟩; have := this.mp ⟨a, b⟩; exact ⟨this.1, this.2, c, d⟩
              · intro ⟨a, b, c, d⟩; have := this.mpr ⟨a, b⟩; exact ⟨this.1, this.2, c, d⟩
    | cols c1 c2 =>
      simp only [Spec.shiftRef] at hs
      cases h1 : Spec.shiftCol false e c1 with
      | none => simp [h1] at hs
      | some c1' =>
        cases h3 : Spec.shiftCol false e c2 with
        | none => simp [h1, h3] at hs
        | some c2' =>
          simp only [h1, h3, Option.some.injEq] at hs
          subst hs
          have := between_of_shift hn (shiftCol_cols hd h1) (shiftCol_cols hd h3) hpx
          simp only [Spec.denote]
          constructor
          · intro ⟨a, b, c, d⟩; have := this.mp ⟨a, b⟩; exact ⟨this.1, this.2, c, d⟩
          · intro ⟨a, b, c, d⟩; have := this.mpr ⟨a, b⟩; exact ⟨this.1, this.2, c, d⟩
    | rows r1 r2 =>
      simp only [Spec.shiftRef] at hs
      cases h2 : Spec.shiftRow false e r1 with
      | none => simp [h2] at hs
      | some r1' =>
        cases h4 : Spec.shiftRow false e r2 with
        | none => simp [h2, h4] at hs
        | some r2' =>
          simp only [h2, h4, Option.some.injEq] at hs
          subst hs
          simp only [Spec.denote, shiftRow_cols hd h2, shiftRow_cols hd h4]
          constructor
          · intro ⟨a, b, _, _⟩; exact ⟨a, b, o1, o2⟩
          · intro ⟨a, b, _, _⟩; exact ⟨a, b, o1', o2'⟩
  | rows =>
    have hpy : Spec.shiftIdx e.num e.off py = some py' ∧ px' = px := by
      unfold Spec.shiftPos at hp
      simp only [hd] at hp
      cases hx : Spec.shiftIdx e.num e.off py with
      | none => simp [hx] at hp
      | some j => simp [hx] at hp; exact ⟨by rw [hp.2], hp.1.symm⟩
    obtain ⟨hpy, rfl⟩ := hpy
    cases r with
    | cell c ro =>
      simp only [Spec.shiftRef] at hs
      cases hc : Spec.shiftCol false e c with
      | none => simp [hc] at hs
      | some c' =>
        cases hr : Spec.shiftRow false e ro with
        | none => simp [hc, hr] at hs
        | some ro' =>
          simp only [hc, hr, Option.some.injEq] at hs
          subst hs
          have := eq_of_shift hn (shiftRow_rows hd hr) hpy
          simp only [Spec.denote, shiftCol_rows hd hc, this]
    | range c1 r1 c2 r2 =>
      simp only [Spec.shiftRef] at hs
      cases h1 : Spec.shiftCol false e c1 with
      | none => simp [h1] at hs
      | some c1' =>
        cases h2 : Spec.shiftRow false e r1 with
        | none => simp [h1, h2] at hs
        | some r1' =>
          cases h3 : Spec.shiftCol false e c2 with
          | none => simp [h1, h2, h3] at hs
          | some c2' =>
            cases h4 : Spec.shiftRow false e r2 with
            | none => simp [h1, h2, h3, h4] at hs
            | some r2' =>
              simp only [h1, h2, h3, h4, Option.some.injEq] at hs
              subst hs
              have := between_of_shift hn (shiftRow_rows hd h2) (shiftRow_rows hd h4) hpy
              simp only [Spec.denote, shiftCol_rows hd h1, shiftCol_rows hd h3]
              constructor
              · intro ⟨a, b, c, d⟩; have := this.mp ⟨c, d⟩; exact ⟨a, b, this.1, this.2⟩
              · intro ⟨a, b, c, d⟩; have := this.mpr ⟨c, d⟩; exact ⟨a, b, this.1, this.2⟩
    | cols c1 c2 =>
      simp only [Spec.shiftRef] at hs
      cases h1 : Spec.shiftCol false e c1 with
      | none => simp [h1] at hs
      | some c1' =>
        cases h3 : Spec.shiftCol false e c2 with
        | none => simp [h1, h3] at hs
        | some c2' =>
          simp only [h1, h3, Option.some.injEq] at hs
          subst hs
          simp only [Spec.denote, shiftCol_rows hd h1, shiftCol_rows hd h3]
          constructor
          · intro ⟨a, b, _, _⟩; exact ⟨a, b, o3, o4⟩
          · intro ⟨a, b, _, _⟩; exact ⟨a, b, o3', o4'⟩
    | rows r1 r2 =>
      simp only [Spec.shiftRef] at hs
      cases h2 : Spec.shiftRow false e r1 with
      | none => simp [h2] at hs
      | some r1' =>
        cases h4 : Spec.shiftRow false e r2 with
        | none => simp [h2, h4] at hs
        | some r2' =>
          simp only [h2, h4, Option.some.injEq] at hs
          subst hs
          have := between_of_shift hn (shiftRow_rows hd h2) (shiftRow_rows hd h4) hpy
          simp only [Spec.denote]
          constructor
          · intro ⟨a, b, c, d⟩; have := this.mp ⟨a, b⟩; exact ⟨this.1, this.2, c, d⟩
          · intro ⟨a, b, c, d⟩; have := this.mpr ⟨a, b⟩; exact ⟨this.1, this.2, c, d⟩

end XlModel.Props.C07
