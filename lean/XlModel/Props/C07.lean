import XlModel.Lemmas.FormulaRef2
namespace XlModel.Props.C07
open XlModel XlModel.FormulaRef

theorem placeholder : True := trivial

end XlModel.Props.C07
