/-
C08 — Formula evaluator implements Excel operator, reference and aggregate
semantics.  Property theorems only; helper lemmas are in `Lemmas/Calc.lean`,
the exact integer instance used for witnesses in `Lemmas/CalcInt.lean`.

All theorems are about `XlModel.Calc` (transcription of calc.go's shunting-yard
evaluator) *over the facts regenerated from calc.go* (`Facts.C08.tokenPriority`,
`prefixMinusPriority`, `pushCmp`, `loopCmp`, `tokenCalcFunc`, error codes,
`percentDivisor`) and over an arbitrary numeric carrier (`NumOps N`; no theorem
mentions `Float`).
-/
import XlModel.Lemmas.Calc
import XlModel.Lemmas.CalcInt

namespace XlModel.Props.C08
open XlModel XlModel.Calc XlModel.Facts.C08 NumOps

deriving instance DecidableEq for Except

/-! ## precedence and associativity, decided on the extracted tables -/

/-- clause "with Excel's precedence": the regenerated `tokenPriority` table gives every
binary operator exactly Excel's precedence level -/
theorem priority_table_ok : ∀ op : Op, Impl.getPriority (.infixOp op.sym) = op.level := by
  intro op; cases op <;> decide

/-- clause "precedence": `^` > `* /` > `+ -` > `&` > the six comparisons, prefix minus above `^`,
parentheses below everything — on the table extracted from calc.go -/
theorem priority_order :
    Impl.getPriority (.prefixOp sMinus) > Impl.getPriority (.infixOp Op.pow.sym) ∧
    Impl.getPriority (.infixOp Op.pow.sym) > Impl.getPriority (.infixOp Op.mul.sym) ∧
    Impl.getPriority (.infixOp Op.mul.sym) = Impl.getPriority (.infixOp Op.div.sym) ∧
    Impl.getPriority (.infixOp Op.div.sym) > Impl.getPriority (.infixOp Op.add.sym) ∧
    Impl.getPriority (.infixOp Op.add.sym) = Impl.getPriority (.infixOp Op.sub.sym) ∧
    Impl.getPriority (.infixOp Op.sub.sym) > Impl.getPriority (.infixOp Op.concat.sym) ∧
    Impl.getPriority (.infixOp Op.concat.sym) > Impl.getPriority (.infixOp Op.eq.sym) ∧
    (∀ op : Op, op.level = 1 → Impl.getPriority (.infixOp op.sym) = Impl.getPriority (.infixOp Op.eq.sym)) ∧
    (∀ op : Op, Impl.getPriority (.infixOp op.sym) > Impl.getPriority .lpar) := by
  refine ⟨by decide, by decide, by decide, by decide, by decide, by decide, by decide, ?_, ?_⟩
  · intro op h; cases op <;> first | decide | (simp [Op.level] at h)
  · intro op; cases op <;> decide

/-- clause "associativity": an arriving operator pops a stacked operator of the *same* priority
(left associativity) and is pushed over one of lower priority — the two comparisons of
`parseOperatorPrefixToken` as extracted from the source -/
theorem left_associative (p q : Nat) :
    (loopCmp p q = true ↔ p ≤ q) ∧ (pushCmp p q = true ↔ p > q) := by
  simp [loopCmp, pushCmp]

/-- `calculate`'s dispatch (the extracted `tokenCalcFunc` map and the two special cases for
`-`) maps every operator symbol to its own function: for every operator and all operands the
result is `applyBin op left right` -/
theorem dispatch_table_ok {N : Type} [NumOps N] (op : Op) (a b : Impl.Arg N) (st : List (Impl.Arg N)) :
    Impl.calculate (b :: a :: st) (.infixOp op.sym) = (· :: st) <$> Impl.applyBin op a b :=
  Impl.calculate_infix op a b st

/-! ## the shunting-yard machine computes the tree -/

/-- clause "evaluates expressions built from … with Excel's precedence, associativity":
for EVERY expression tree (any depth, any operands, any cell environment, any numeric carrier)
the token machine of `evalInfixExp` run on the rendering of the tree — parentheses exactly where
Excel's precedence needs them — computes the structural evaluator, including which error is
reported first. -/
theorem shunting_yard_correct {N : Type} [NumOps N] (env : Str → Option (Impl.CellArg N)) (e : Expr) :
    Impl.evalTokens env (render 1 e) = Impl.evalTree env e :=
  Impl.evalTokens_render env e

/-- the same inside any context: the value of a subexpression never depends on what surrounds it
(explicit parentheses are transparent) -/
theorem paren_transparent {N : Type} [NumOps N] (env : Str → Option (Impl.CellArg N)) (e : Expr) :
    Impl.evalTokens env (render 1 (.paren e)) = Impl.evalTokens env (render 1 e) := by
  rw [shunting_yard_correct, shunting_yard_correct]; rfl

/-- non-vacuity / worked instances of precedence on the integer instance:
`1+2*3 = 7`, `2^3^2 = 64` (left associative), `-2^2 = 4` (prefix minus binds tighter),
`1-2-3 = -4`, `2*3% = 0.06` is not expressible on integers so `200%*3 = 6`. -/
theorem precedence_examples :
    let n (k : Nat) : Expr := .num (IntInst.fmtInt k)
    let env : Str → Option (Impl.CellArg Int) := fun _ => none
    Impl.evalTokens env (render 1 (.bin .add (n 1) (.bin .mul (n 2) (n 3)))) = .ok (.num 7 false) ∧
    Impl.evalTokens env (render 1 (.bin .pow (.bin .pow (n 2) (n 3)) (n 2))) = .ok (.num 64 false) ∧
    Impl.evalTokens env (render 1 (.bin .pow (.neg (n 2)) (n 2))) = .ok (.num 4 false) ∧
    Impl.evalTokens env (render 1 (.bin .sub (.bin .sub (n 1) (n 2)) (n 3))) = .ok (.num (-4) false) ∧
    Impl.evalTokens env (render 1 (.bin .mul (.pct (n 200)) (n 3))) = .ok (.num 6 false) ∧
    render 1 (.bin .mul (.bin .add (n 1) (n 2)) (n 3)) =
      [.lpar, .num [49], .infixOp [43], .num [50], .rpar, .infixOp [42], .num [51]] := by
  decide +kernel

/-! ## agreement with the Excel reference on operands -/

/-- image of a non-error Spec value as an excelize operand (how `tokenToFormulaArg` /
`formulaArgToToken` present it to `calculate`) -/
def toImpl {N : Type} [NumOps N] : Spec.Val N → Impl.Arg N
  | .num x => .num x false
  | .bool b => Impl.mkBool b
  | .text s => .str s
  | .blank => .str []
  | .err _ => .err []

/-- agreement of an excelize outcome with a Spec value: exact on numbers, text and booleans;
an error on one side must be an error on the other -/
def Agree {N : Type} [NumOps N] : Except Impl.MErr (Impl.Arg N) → Spec.Val N → Prop
  | .ok (.num x false), .num y => x = y
  | .ok (.num x true), .bool b => x = (if b then one else zero)
  | .ok (.str s), .text t => s = t
  | .ok (.err _), .err _ => True
  | .error _, .err _ => True
  | _, _ => False

/-- the laws of the numeric carrier the agreement theorems need (satisfied by IEEE doubles with
Go's `%g`, and by the integer instance: `lawful_int`) -/
structure Lawful (N : Type) [NumOps N] : Prop where
  nan_zero : isNaN (zero : N) = false
  nan_one : isNaN (one : N) = false
  fmt_ne : ∀ x : N, fmtG x ≠ []

theorem digitsAux_ne (fuel n : Nat) (acc : List Nat) (h : acc ≠ []) : IntInst.digitsAux fuel n acc ≠ [] := by
  induction fuel generalizing n acc with
  | zero => simpa [IntInst.digitsAux] using h
  | succ f ih =>
    unfold IntInst.digitsAux
    split
    · simp
    · exact ih _ _ (by simp)

theorem lawful_int : Lawful Int := by
  refine ⟨rfl, rfl, ?_⟩
  intro x
  show IntInst.fmtInt x ≠ []
  unfold IntInst.fmtInt
  by_cases h : x < 0
  · simp [h]
  · simp only [h, if_false, List.nil_append]
    show IntInst.digitsAux (39 + 1) x.natAbs [] ≠ []
    unfold IntInst.digitsAux
    split
    · simp
    · exact digitsAux_ne _ _ _ (by simp)

/-- no operand is an error value -/
def NotErr {N : Type} : Spec.Val N → Prop
  | .err _ => False
  | _ => True

/-- operands that do not hide a NaN -/
def Clean {N : Type} [NumOps N] : Spec.Val N → Prop
  | .num x => isNaN x = false
  | .text s => ∀ x : N, parse s = some x → isNaN x = false
  | _ => True

/-- clause "coercion rules" (arithmetic context): excelize's `ToNumber` after the blank→0
replacement coerces numbers, booleans, blanks and text exactly like Excel (text that is not
numeric is an error on both sides) — except for the empty text literal (`finding_empty_text`). -/
theorem coerce_agree {N : Type} [NumOps N] (L : Lawful N) (v : Spec.Val N)
    (hv : NotErr v) (hne : v ≠ .text []) (hc : Clean v) :
    match Spec.toNum v with
    | .ok x => Impl.toNumber (Impl.blank0 (toImpl v)) = .ok x
    | .error _ => ∃ m, Impl.toNumber (Impl.blank0 (toImpl v)) = .error m := by
  cases v with
  | err c => exact absurd hv (by simp [NotErr])
  | num x =>
    have : isNaN x = false := by simpa [Clean] using hc
    simp [Spec.toNum, toImpl, Impl.blank0, Impl.value, L.fmt_ne, Impl.toNumber, this]
  | bool b =>
    have hvb : ∀ x : N, Impl.value (Impl.Arg.num x true) ≠ [] := by
      intro x; simp only [Impl.value]; split <;> simp [sTRUE, sFALSE]
    cases b <;> simp [Spec.toNum, toImpl, Impl.mkBool, Impl.blank0, hvb, Impl.toNumber, L.nan_zero, L.nan_one]
  | blank =>
    simp [Spec.toNum, toImpl, Impl.blank0, Impl.value, Impl.mkNum, L.nan_zero, Impl.toNumber]
  | text s =>
    have hs : s ≠ [] := by intro h; exact hne (by rw [h])
    simp only [Spec.toNum, toImpl, Impl.blank0, Impl.value, hs, if_false, Impl.toNumber]
    cases hp : (parse s : Option N) with
    | none => simp
    | some x =>
      have hc' : ∀ x : N, parse s = some x → isNaN x = false := by simpa [Clean] using hc
      have := hc' x hp
      simp [this]

theorem blank0_toImpl_ne_err {N : Type} [NumOps N] (L : Lawful N) (v : Spec.Val N) (hv : NotErr v) (m : Str) :
    Impl.blank0 (toImpl v) ≠ .err m := by
  have hvb : ∀ x : N, Impl.value (Impl.Arg.num x true) ≠ [] := by
    intro x; simp only [Impl.value]; split <;> simp [sTRUE, sFALSE]
  cases v with
  | err c => exact absurd hv (by simp [NotErr])
  | num x => simp [toImpl, Impl.blank0, Impl.value, L.fmt_ne]
  | bool b => simp [toImpl, Impl.mkBool, Impl.blank0, hvb]
  | blank => simp [toImpl, Impl.blank0, Impl.value, Impl.mkNum, L.nan_zero]
  | text s =>
    by_cases hs : s = []
    · simp [toImpl, Impl.blank0, Impl.value, hs, Impl.mkNum, L.nan_zero]
    · simp [toImpl, Impl.blank0, Impl.value, hs]

/-- the three total arithmetic operators -/
def arithFn {N : Type} [NumOps N] : Op → Option (N → N → N)
  | .add => some add
  | .sub => some sub
  | .mul => some mul
  | _ => none

theorem applyBin_arith_shape {N : Type} [NumOps N] (op : Op) (f : N → N → N) (hop : arithFn op = some f)
    (l r : Impl.Arg N) (hl : ∀ m, Impl.blank0 l ≠ .err m) (hr : ∀ m, Impl.blank0 r ≠ .err m) :
    Impl.applyBin op l r =
      (do let x ← Impl.liftE (Impl.toNumber (Impl.blank0 l))
          let y ← Impl.liftE (Impl.toNumber (Impl.blank0 r))
          pure (Impl.mkNum (f x y))) := by
  cases op <;> simp [arithFn] at hop <;> subst hop <;> simp only [Impl.applyBin]
  all_goals
    generalize Impl.blank0 l = l' at hl ⊢
    generalize Impl.blank0 r = r' at hr ⊢
    cases l' <;> cases r' <;> simp_all

/-- clause "coercion rules" for `+ - *`: for every pair of operands among numbers, booleans,
blanks and (numeric or non-numeric) non-empty text, excelize's result agrees with Excel's
(same number, or an error on both sides), provided the result does not overflow
(`finding`: overflow yields +Inf instead of #NUM!). -/
theorem arith_agree {N : Type} [NumOps N] (L : Lawful N) (op : Op) (f : N → N → N)
    (hop : arithFn op = some f) (a b : Spec.Val N)
    (ha : NotErr a) (hb : NotErr b) (ha' : a ≠ .text []) (hb' : b ≠ .text [])
    (hca : Clean a) (hcb : Clean b)
    (hfin : ∀ x y, Spec.toNum a = .ok x → Spec.toNum b = .ok y → isInf (f x y) = false) :
    Agree (Impl.applyBin op (toImpl a) (toImpl b)) (Spec.binop op a b) := by
  have ca := coerce_agree L a ha ha' hca
  have cb := coerce_agree L b hb hb' hcb
  have na := blank0_toImpl_ne_err L a ha
  have nb := blank0_toImpl_ne_err L b hb
  have hoe : Spec.operandErr a b = none := by
    cases a <;> cases b <;> simp_all [Spec.operandErr, NotErr]
  have hI := applyBin_arith_shape op f hop (toImpl a) (toImpl b) na nb
  have hS : Spec.binop op a b =
      Spec.ofExcept (do let x ← Spec.toNum a; let y ← Spec.toNum b; pure (Spec.mkNum (f x y))) := by
    cases op <;> simp [arithFn] at hop <;> subst hop <;> simp [Spec.binop, Spec.arith, hoe]
  rw [hI, hS]
  cases hx : Spec.toNum a with
  | error c =>
    rw [hx] at ca
    obtain ⟨m, hm⟩ := ca
    simp [hm, Impl.liftE, Spec.ofExcept, Agree]
  | ok x =>
    rw [hx] at ca
    cases hy : Spec.toNum b with
    | error c =>
      rw [hy] at cb
      obtain ⟨m, hm⟩ := cb
      simp [ca, hm, Impl.liftE, Spec.ofExcept, Agree]
    | ok y =>
      rw [hy] at cb
      have hi := hfin x y hx hy
      simp only [ca, cb, Impl.liftE, Impl.bind_ok, Impl.pure_eq_ok, Spec.ofExcept, Impl.mkNum, Spec.mkNum, hi, Bool.or_false]
      cases hn : isNaN (f x y) <;> simp [Agree]

/-- non-vacuity: the hypotheses of `arith_agree` are satisfiable (integer instance, `TRUE+"7"`)
and the conclusion is the expected value 8 on both sides -/
theorem arith_agree_nonvacuous :
    Agree (Impl.applyBin .add (toImpl (.bool true : Spec.Val Int)) (toImpl (.text [55])))
      (Spec.binop .add (.bool true) (.text [55])) ∧
    Spec.binop .add (.bool true : Spec.Val Int) (.text [55]) = .num 8 := by
  refine ⟨arith_agree lawful_int .add _ rfl _ _ trivial trivial (by simp) (by simp) trivial
    (fun _ _ => rfl) (fun _ _ _ _ => rfl), by decide +kernel⟩

/-! ## where the current code deviates from Excel: witnesses on the integer instance -/

section findings
open IntInst

private def noEnv : Str → Option (Impl.CellArg Int) := fun _ => none
private def noEnvS : Str → Option (Spec.Val Int) := fun _ => none

/-- `=1="1"`: excelize compares `Value()` strings → TRUE; Excel: a number never equals text → FALSE -/
theorem finding_eq_number_text :
    Impl.evalTokens noEnv (render 1 (.bin .eq (.num [49]) (.text [49]))) = .ok (.num 1 true) ∧
    Spec.eval noEnvS (.bin .eq (.num [49]) (.text [49])) = .bool false := by decide +kernel

/-- `="a"="A"` → FALSE and `="a"<"B"` → FALSE; Excel compares text case-insensitively: TRUE, TRUE -/
theorem finding_text_case :
    Impl.evalTokens noEnv (render 1 (.bin .eq (.text [97]) (.text [65]))) = .ok (.num 0 true) ∧
    Spec.eval noEnvS (.bin .eq (.text [97]) (.text [65])) = .bool true ∧
    Impl.evalTokens noEnv (render 1 (.bin .lt (.text [97]) (.text [66]))) = .ok (.num 0 true) ∧
    Spec.eval noEnvS (.bin .lt (.text [97]) (.text [66])) = .bool true := by decide +kernel

/-- `=TRUE>5` → FALSE (TRUE compared as the number 1); Excel: booleans rank above numbers → TRUE -/
theorem finding_bool_gt_number :
    Impl.evalTokens noEnv (render 1 (.bin .gt (.logical sTRUE) (.num [53]))) = .ok (.num 0 true) ∧
    Spec.eval noEnvS (.bin .gt (.logical sTRUE) (.num [53])) = .bool true := by decide +kernel

/-- `=-"a"` → 0 (the failed `ToNumber` is ignored); Excel: #VALUE! -/
theorem finding_neg_text :
    Impl.evalTokens noEnv (render 1 (.neg (.text [97]))) = .ok (.num 0 false) ∧
    Spec.eval noEnvS (.neg (.text [97])) = .err .value := by decide +kernel

/-- `=--TRUE` → TRUE (two prefix minus tokens cancel without coercion); Excel: 1 -/
theorem finding_double_neg :
    Impl.evalTokens noEnv (render 1 (.neg (.neg (.logical sTRUE)))) = .ok (.num 1 true) ∧
    Spec.eval noEnvS (.neg (.neg (.logical sTRUE))) = .num 1 := by decide +kernel

/-- `="500"%` → 0 (postfix % reads the `.Number` field of a string argument); Excel: 5 -/
theorem finding_pct_text :
    Impl.evalTokens noEnv (render 1 (.pct (.text [53, 48, 48]))) = .ok (.num 0 false) ∧
    Spec.eval noEnvS (.pct (.text [53, 48, 48])) = .num 5 := by decide +kernel

/-- `=""+1` → 1 and `=""=0` → TRUE (the empty text literal is treated like a blank cell);
Excel: #VALUE!, FALSE -/
theorem finding_empty_text :
    Impl.evalTokens noEnv (render 1 (.bin .add (.text []) (.num [49]))) = .ok (.num 1 false) ∧
    Spec.eval noEnvS (.bin .add (.text []) (.num [49])) = .err .value ∧
    Impl.evalTokens noEnv (render 1 (.bin .eq (.text []) (.num [48]))) = .ok (.num 1 true) ∧
    Spec.eval noEnvS (.bin .eq (.text []) (.num [48])) = .bool false := by decide +kernel

/-- an error *value* on the operand stack (excelize creates one for a NaN: `#NUM!`) is swallowed by
prefix minus, by postfix % and by infix minus, for every numeric carrier -/
theorem finding_numerr_swallowed {N : Type} [NumOps N] (m : Str) (st : List (Impl.Arg N))
    (h0 : isNaN (sub (zero : N) zero) = false) :
    Impl.calculate (.err m :: st) (.prefixOp sMinus) = .ok (.num (sub zero zero) false :: st) := by
  rw [Impl.calculate_neg]
  simp [Impl.negate, Impl.toNumberField, Impl.toNumber, Impl.mkNum, h0]

end findings

end XlModel.Props.C08
