import XlModel.Calc
namespace XlModel.Props.C08
open XlModel XlModel.Calc XlModel.Facts.C08

/-- the regenerated priority table gives every binary operator Excel's precedence level -/
theorem priority_table_ok : ∀ op : Op, Impl.getPriority (.infixOp op.sym) = op.level := by
  intro op; cases op <;> decide

end XlModel.Props.C08
