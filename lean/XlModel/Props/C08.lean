/-
C08 — Formula evaluator implements Excel operator, reference and aggregate
semantics.  Property theorems only; helper lemmas are in `Lemmas/Calc.lean`,
the exact integer instance used for witnesses in `Lemmas/CalcInt.lean`.

All theorems are about `XlModel.Calc` (transcription of calc.go's shunting-yard
evaluator) *over the facts regenerated from calc.go* (`Facts.C08.tokenPriority`,
`prefixMinusPriority`, `pushCmp`, `loopCmp`, `tokenCalcFunc`, error codes,
`percentDivisor`) and over an arbitrary numeric carrier (`NumOps N`; no theorem
mentions `Float`).
-/
import XlModel.Lemmas.Calc
import XlModel.Lemmas.CalcInt

namespace XlModel.Props.C08
open XlModel XlModel.Calc XlModel.Facts.C08 NumOps

deriving instance DecidableEq for Except

/-! ## precedence and associativity, decided on the extracted tables -/

/-- clause "with Excel's precedence": the regenerated `tokenPriority` table gives every
binary operator exactly Excel's precedence level -/
theorem priority_table_ok : ∀ op : Op, Impl.getPriority (.infixOp op.sym) = op.level := by
  intro op; cases op <;> decide

/-- clause "precedence": `^` > `* /` > `+ -` > `&` > the six comparisons, prefix minus above `^`,
parentheses below everything — on the table extracted from calc.go -/
theorem priority_order :
    Impl.getPriority (.prefixOp sMinus) > Impl.getPriority (.infixOp Op.pow.sym) ∧
    Impl.getPriority (.infixOp Op.pow.sym) > Impl.getPriority (.infixOp Op.mul.sym) ∧
    Impl.getPriority (.infixOp Op.mul.sym) = Impl.getPriority (.infixOp Op.div.sym) ∧
    Impl.getPriority (.infixOp Op.div.sym) > Impl.getPriority (.infixOp Op.add.sym) ∧
    Impl.getPriority (.infixOp Op.add.sym) = Impl.getPriority (.infixOp Op.sub.sym) ∧
    Impl.getPriority (.infixOp Op.sub.sym) > Impl.getPriority (.infixOp Op.concat.sym) ∧
    Impl.getPriority (.infixOp Op.concat.sym) > Impl.getPriority (.infixOp Op.eq.sym) ∧
    (∀ op : Op, op.level = 1 → Impl.getPriority (.infixOp op.sym) = Impl.getPriority (.infixOp Op.eq.sym)) ∧
    (∀ op : Op, Impl.getPriority (.infixOp op.sym) > Impl.getPriority .lpar) := by
  refine ⟨by decide, by decide, by decide, by decide, by decide, by decide, by decide, ?_, ?_⟩
  · intro op h; cases op <;> first | decide | (simp [Op.level] at h)
  · intro op; cases op <;> decide

/-- clause "associativity": an arriving operator pops a stacked operator of the *same* priority
(left associativity) and is pushed over one of lower priority — the two comparisons of
`parseOperatorPrefixToken` as extracted from the source -/
theorem left_associative (p q : Nat) :
    (loopCmp p q = true ↔ p ≤ q) ∧ (pushCmp p q = true ↔ p > q) := by
  simp [loopCmp, pushCmp]

/-- `calculate`'s dispatch (the extracted `tokenCalcFunc` map and the two special cases for
`-`) maps every operator symbol to its own function: for every operator and all operands the
result is `applyBin op left right` -/
theorem dispatch_table_ok {N : Type} [NumOps N] (op : Op) (a b : Impl.Arg N) (st : List (Impl.Arg N)) :
    Impl.calculate (b :: a :: st) (.infixOp op.sym) = (· :: st) <$> Impl.applyBin op a b :=
  Impl.calculate_infix op a b st

/-! ## the shunting-yard machine computes the tree -/

/-- clause "evaluates expressions built from … with Excel's precedence, associativity":
for EVERY expression tree (any depth, any operands, any cell environment, any numeric carrier)
the token machine of `evalInfixExp` run on the rendering of the tree — parentheses exactly where
Excel's precedence needs them — computes the structural evaluator, including which error is
reported first. -/
theorem shunting_yard_correct {N : Type} [NumOps N] (env : Str → Option (Impl.CellArg N)) (e : Expr) :
    Impl.evalTokens env (render 1 e) = Impl.evalTree env e :=
  Impl.evalTokens_render env e

/-- the same inside any context: the value of a subexpression never depends on what surrounds it
(explicit parentheses are transparent) -/
theorem paren_transparent {N : Type} [NumOps N] (env : Str → Option (Impl.CellArg N)) (e : Expr) :
    Impl.evalTokens env (render 1 (.paren e)) = Impl.evalTokens env (render 1 e) := by
  rw [shunting_yard_correct, shunting_yard_correct]; rfl

/-- non-vacuity / worked instances of precedence on the integer instance:
`1+2*3 = 7`, `2^3^2 = 64` (left associative), `-2^2 = 4` (prefix minus binds tighter),
`1-2-3 = -4`, `2*3% = 0.06` is not expressible on integers so `200%*3 = 6`. -/
theorem precedence_examples :
    let n (k : Nat) : Expr := .num (IntInst.fmtInt k)
    let env : Str → Option (Impl.CellArg Int) := fun _ => none
    Impl.evalTokens env (render 1 (.bin .add (n 1) (.bin .mul (n 2) (n 3)))) = .ok (.num 7 false) ∧
    Impl.evalTokens env (render 1 (.bin .pow (.bin .pow (n 2) (n 3)) (n 2))) = .ok (.num 64 false) ∧
    Impl.evalTokens env (render 1 (.bin .pow (.neg (n 2)) (n 2))) = .ok (.num 4 false) ∧
    Impl.evalTokens env (render 1 (.bin .sub (.bin .sub (n 1) (n 2)) (n 3))) = .ok (.num (-4) false) ∧
    Impl.evalTokens env (render 1 (.bin .mul (.pct (n 200)) (n 3))) = .ok (.num 6 false) ∧
    render 1 (.bin .mul (.bin .add (n 1) (n 2)) (n 3)) =
      [.lpar, .num [49], .infixOp [43], .num [50], .rpar, .infixOp [42], .num [51]] := by
  decide +kernel

/-! ## agreement with the Excel reference on operands -/

/-- image of a non-error Spec value as an excelize operand (how `tokenToFormulaArg` /
`formulaArgToToken` present it to `calculate`) -/
def toImpl {N : Type} [NumOps N] : Spec.Val N → Impl.Arg N
  | .num x => .num x false
  | .bool b => Impl.mkBool b
  | .text s => .str s
  | .blank => .str []
  | .err _ => .err []

/-- agreement of an excelize outcome with a Spec value: exact on numbers, text and booleans;
an error on one side must be an error on the other -/
def Agree {N : Type} [NumOps N] : Except Impl.MErr (Impl.Arg N) → Spec.Val N → Prop
  | .ok (.num x false), .num y => x = y
  | .ok (.num x true), .bool b => x = (if b then one else zero)
  | .ok (.str s), .text t => s = t
  | .ok (.err _), .err _ => True
  | .error _, .err _ => True
  | _, _ => False

/-- the laws of the numeric carrier the agreement theorems need (satisfied by IEEE doubles with
Go's `%g`, and by the integer instance: `lawful_int`) -/
structure Lawful (N : Type) [NumOps N] : Prop where
  nan_zero : isNaN (zero : N) = false
  nan_one : isNaN (one : N) = false
  fmt_ne : ∀ x : N, fmtG x ≠ []

theorem digitsAux_ne (fuel n : Nat) (acc : List Nat) (h : acc ≠ []) : IntInst.digitsAux fuel n acc ≠ [] := by
  induction fuel generalizing n acc with
  | zero => simpa [IntInst.digitsAux] using h
  | succ f ih =>
    unfold IntInst.digitsAux
    split
    · simp
    · exact ih _ _ (by simp)

theorem lawful_int : Lawful Int := by
  refine ⟨rfl, rfl, ?_⟩
  intro x
  show IntInst.fmtInt x ≠ []
  unfold IntInst.fmtInt
  by_cases h : x < 0
  · simp [h]
  · simp only [h, if_false, List.nil_append]
    show IntInst.digitsAux (39 + 1) x.natAbs [] ≠ []
    unfold IntInst.digitsAux
    split
    · simp
    · exact digitsAux_ne _ _ _ (by simp)

/-- no operand is an error value -/
def NotErr {N : Type} : Spec.Val N → Prop
  | .err _ => False
  | _ => True

/-- operands that do not hide a NaN -/
def Clean {N : Type} [NumOps N] : Spec.Val N → Prop
  | .num x => isNaN x = false
  | .text s => ∀ x : N, parse s = some x → isNaN x = false
  | _ => True

/-- clause "coercion rules" (arithmetic context): excelize's `ToNumber` after the blank→0
replacement coerces numbers, booleans, blanks and text exactly like Excel (text that is not
numeric is an error on both sides) — except for the empty text literal (`finding_empty_text`). -/
theorem coerce_agree {N : Type} [NumOps N] (L : Lawful N) (v : Spec.Val N)
    (hv : NotErr v) (hne : v ≠ .text []) (hc : Clean v) :
    match Spec.toNum v with
    | .ok x => Impl.toNumber (Impl.blank0 (toImpl v)) = .ok x
    | .error _ => ∃ m, Impl.toNumber (Impl.blank0 (toImpl v)) = .error m := by
  cases v with
  | err c => exact absurd hv (by simp [NotErr])
  | num x =>
    have : isNaN x = false := by simpa [Clean] using hc
    simp [Spec.toNum, toImpl, Impl.blank0, Impl.value, L.fmt_ne, Impl.toNumber, this]
  | bool b =>
    have hvb : ∀ x : N, Impl.value (Impl.Arg.num x true) ≠ [] := by
      intro x; simp only [Impl.value]; split <;> simp [sTRUE, sFALSE]
    cases b <;> simp [Spec.toNum, toImpl, Impl.mkBool, Impl.blank0, hvb, Impl.toNumber, L.nan_zero, L.nan_one]
  | blank =>
    simp [Spec.toNum, toImpl, Impl.blank0, Impl.value, Impl.mkNum, L.nan_zero, Impl.toNumber]
  | text s =>
    have hs : s ≠ [] := by intro h; exact hne (by rw [h])
    simp only [Spec.toNum, toImpl, Impl.blank0, Impl.value, hs, if_false, Impl.toNumber]
    cases hp : (parse s : Option N) with
    | none => simp
    | some x =>
      have hc' : ∀ x : N, parse s = some x → isNaN x = false := by simpa [Clean] using hc
      have := hc' x hp
      simp [this]

theorem blank0_toImpl_ne_err {N : Type} [NumOps N] (L : Lawful N) (v : Spec.Val N) (hv : NotErr v) (m : Str) :
    Impl.blank0 (toImpl v) ≠ .err m := by
  have hvb : ∀ x : N, Impl.value (Impl.Arg.num x true) ≠ [] := by
    intro x; simp only [Impl.value]; split <;> simp [sTRUE, sFALSE]
  cases v with
  | err c => exact absurd hv (by simp [NotErr])
  | num x => simp [toImpl, Impl.blank0, Impl.value, L.fmt_ne]
  | bool b => simp [toImpl, Impl.mkBool, Impl.blank0, hvb]
  | blank => simp [toImpl, Impl.blank0, Impl.value, Impl.mkNum, L.nan_zero]
  | text s =>
    by_cases hs : s = []
    · simp [toImpl, Impl.blank0, Impl.value, hs, Impl.mkNum, L.nan_zero]
    · simp [toImpl, Impl.blank0, Impl.value, hs]

/-- the three total arithmetic operators -/
def arithFn {N : Type} [NumOps N] : Op → Option (N → N → N)
  | .add => some add
  | .sub => some sub
  | .mul => some mul
  | _ => none

theorem applyBin_arith_shape {N : Type} [NumOps N] (op : Op) (f : N → N → N) (hop : arithFn op = some f)
    (l r : Impl.Arg N) (hl : ∀ m, Impl.blank0 l ≠ .err m) (hr : ∀ m, Impl.blank0 r ≠ .err m) :
    Impl.applyBin op l r =
      (do let x ← Impl.liftE (Impl.toNumber (Impl.blank0 l))
          let y ← Impl.liftE (Impl.toNumber (Impl.blank0 r))
          pure (Impl.mkNum (f x y))) := by
  cases op <;> simp [arithFn] at hop <;> subst hop <;> simp only [Impl.applyBin]
  all_goals
    generalize Impl.blank0 l = l' at hl ⊢
    generalize Impl.blank0 r = r' at hr ⊢
    cases l' <;> cases r' <;> simp_all

/-- clause "coercion rules" for `+ - *`: for every pair of operands among numbers, booleans,
blanks and (numeric or non-numeric) non-empty text, excelize's result agrees with Excel's
(same number, or an error on both sides), provided the result does not overflow
(`finding`: overflow yields +Inf instead of #NUM!). -/
theorem arith_agree {N : Type} [NumOps N] (L : Lawful N) (op : Op) (f : N → N → N)
    (hop : arithFn op = some f) (a b : Spec.Val N)
    (ha : NotErr a) (hb : NotErr b) (ha' : a ≠ .text []) (hb' : b ≠ .text [])
    (hca : Clean a) (hcb : Clean b)
    (hfin : ∀ x y, Spec.toNum a = .ok x → Spec.toNum b = .ok y → isInf (f x y) = false) :
    Agree (Impl.applyBin op (toImpl a) (toImpl b)) (Spec.binop op a b) := by
  have ca := coerce_agree L a ha ha' hca
  have cb := coerce_agree L b hb hb' hcb
  have na := blank0_toImpl_ne_err L a ha
  have nb := blank0_toImpl_ne_err L b hb
  have hoe : Spec.operandErr a b = none := by
    cases a <;> cases b <;> simp_all [Spec.operandErr, NotErr]
  have hI := applyBin_arith_shape op f hop (toImpl a) (toImpl b) na nb
  have hS : Spec.binop op a b =
      Spec.ofExcept (do let x ← Spec.toNum a; let y ← Spec.toNum b; pure (Spec.mkNum (f x y))) := by
    cases op <;> simp [arithFn] at hop <;> subst hop <;> simp [Spec.binop, Spec.arith, hoe]
  rw [hI, hS]
  cases hx : Spec.toNum a with
  | error c =>
    rw [hx] at ca
    obtain ⟨m, hm⟩ := ca
    simp [hm, Impl.liftE, Spec.ofExcept, Agree]
  | ok x =>
    rw [hx] at ca
    cases hy : Spec.toNum b with
    | error c =>
      rw [hy] at cb
      obtain ⟨m, hm⟩ := cb
      simp [ca, hm, Impl.liftE, Spec.ofExcept, Agree]
    | ok y =>
      rw [hy] at cb
      have hi := hfin x y hx hy
      simp only [ca, cb, Impl.liftE, Impl.bind_ok, Impl.pure_eq_ok, Spec.ofExcept, Impl.mkNum, Spec.mkNum, hi, Bool.or_false]
      cases hn : isNaN (f x y) <;> simp [Agree]

/-- non-vacuity: the hypotheses of `arith_agree` are satisfiable (integer instance, `TRUE+"7"`)
and the conclusion is the expected value 8 on both sides -/
theorem arith_agree_nonvacuous :
    Agree (Impl.applyBin .add (toImpl (.bool true : Spec.Val Int)) (toImpl (.text [55])))
      (Spec.binop .add (.bool true) (.text [55])) ∧
    Spec.binop .add (.bool true : Spec.Val Int) (.text [55]) = .num 8 := by
  refine ⟨arith_agree lawful_int .add _ rfl _ _ trivial trivial (by simp) (by simp) trivial
    (fun _ _ => rfl) (fun _ _ _ _ => rfl), by decide +kernel⟩

/-! ## aggregates over ranges -/

/-- how a referenced cell reaches the aggregate functions (`cellResolver`; a formula cell whose
evaluation fails arrives as an empty argument) -/
def toCell {N : Type} [NumOps N] : Spec.Val N → Impl.CellArg N
  | .num x => .num x false
  | .bool b => .num (if b then one else zero) true
  | .text s => .str s
  | .blank => .empty
  | .err _ => .empty

theorem firstErr_none {N : Type} (cells : List (Spec.Val N)) (h : ∀ v ∈ cells, NotErr v) :
    Spec.firstErr cells = none := by
  induction cells with
  | nil => rfl
  | cons v rest ih =>
    have hv := h v (by simp)
    have hr := ih (fun u hu => h u (by simp [hu]))
    cases v <;> simp_all [Spec.firstErr, NotErr]

theorem maxStep_fold {N : Type} [NumOps N] (cells : List (Spec.Val N)) (m : N) :
    (cells.map toCell).foldl Impl.maxStep m =
      (Spec.numbers cells).foldl (fun m y => if lt m y then y else m) m := by
  induction cells generalizing m with
  | nil => rfl
  | cons v rest ih =>
    cases v <;> simp [toCell, Impl.maxStep, Spec.numbers, ih]

theorem minStep_fold {N : Type} [NumOps N] (cells : List (Spec.Val N)) (m : N) :
    (cells.map toCell).foldl Impl.minStep m =
      (Spec.numbers cells).foldl (fun m y => if lt y m then y else m) m := by
  induction cells generalizing m with
  | nil => rfl
  | cons v rest ih =>
    cases v <;> simp [toCell, Impl.minStep, Spec.numbers, ih]

theorem sel_mem {N : Type} (f : N → N → Bool) (x : N) (xs : List N) :
    xs.foldl (fun m y => if f m y then y else m) x ∈ x :: xs := by
  induction xs generalizing x with
  | nil => simp
  | cons y ys ih =>
    simp only [List.foldl]
    by_cases h : f x y
    · simp only [h, if_true]
      have := ih y
      simp only [List.mem_cons] at this ⊢
      rcases this with h1 | h1
      · exact Or.inr (Or.inl h1)
      · exact Or.inr (Or.inr h1)
    · simp only [h]
      have := ih x
      simp only [List.mem_cons] at this ⊢
      rcases this with h1 | h1
      · exact Or.inl h1
      · exact Or.inr (Or.inr h1)

/-- clause "MAX over arbitrary ranges equals the fold over the referenced cells; text, booleans
and blanks inside the range are ignored": for every list of referenced cells without error
values, whatever text / numeric text / booleans / blanks it contains, `MAX` is 0 when there is
no number and otherwise the maximum of the numbers alone — on both sides.  The hypotheses say
that every number is above the sentinel −MaxFloat64 and is not a NaN, plus two order laws. -/
theorem aggregate_fold_max {N : Type} [NumOps N] (L : Lawful N) (cells : List (Spec.Val N))
    (hne : ∀ v ∈ cells, NotErr v)
    (hs : ∀ x ∈ Spec.numbers cells, lt (sub zero maxFloat) x = true ∧ isNaN x = false)
    (hlt : ∀ a b : N, lt a b = true → eq b a = false)
    (heq : eq (sub zero (maxFloat : N)) (sub zero maxFloat) = true) :
    let v : N := match Spec.numbers cells with
      | [] => zero
      | x :: xs => Spec.maxOf x xs
    Impl.aggregate .max (cells.map toCell) = .ok (.num v false) ∧
    Spec.aggregate .max cells = .num v := by
  simp only [Impl.aggregate, Spec.aggregate, firstErr_none cells hne, maxStep_fold]
  cases hn : Spec.numbers cells with
  | nil => simp [heq, Impl.mkNum, L.nan_zero]
  | cons x xs =>
    rw [hn] at hs
    have hx := hs x (by simp)
    simp only [List.foldl, hx.1, if_true]
    have hm : Spec.maxOf x xs ∈ x :: xs := sel_mem _ x xs
    have h1 := hs _ hm
    have h2 := hlt _ _ h1.1
    simp [Spec.maxOf] at h1 h2 ⊢
    simp [h2, Impl.mkNum, h1.2]

/-- the same for MIN (sentinel +MaxFloat64) -/
theorem aggregate_fold_min {N : Type} [NumOps N] (L : Lawful N) (cells : List (Spec.Val N))
    (hne : ∀ v ∈ cells, NotErr v)
    (hs : ∀ x ∈ Spec.numbers cells, lt x maxFloat = true ∧ isNaN x = false)
    (hlt : ∀ a b : N, lt a b = true → eq a b = false)
    (heq : eq (maxFloat : N) maxFloat = true) :
    let v : N := match Spec.numbers cells with
      | [] => zero
      | x :: xs => Spec.minOf x xs
    Impl.aggregate .min (cells.map toCell) = .ok (.num v false) ∧
    Spec.aggregate .min cells = .num v := by
  simp only [Impl.aggregate, Spec.aggregate, firstErr_none cells hne, minStep_fold]
  cases hn : Spec.numbers cells with
  | nil => simp [heq, Impl.mkNum, L.nan_zero]
  | cons x xs =>
    rw [hn] at hs
    have hx := hs x (by simp)
    simp only [List.foldl, hx.1, if_true]
    have hm : Spec.minOf x xs ∈ x :: xs := sel_mem (fun m y => lt y m) x xs
    have h1 := hs _ hm
    have h2 := hlt _ _ h1.1
    simp [Spec.minOf] at h1 h2 ⊢
    simp [h2, Impl.mkNum, h1.2]

theorem countStep_fold {N : Type} [NumOps N] (cells : List (Spec.Val N)) (n : Nat)
    (hb : ∀ b, Spec.Val.bool b ∉ cells) :
    (cells.map toCell).foldl Impl.countStep n = n + (Spec.numbers cells).length := by
  induction cells generalizing n with
  | nil => rfl
  | cons v rest ih =>
    have hr : ∀ b, Spec.Val.bool b ∉ rest := fun b h => hb b (by simp [h])
    cases v with
    | bool b => exact absurd (by simp) (hb b)
    | num x => simp [toCell, Impl.countStep, Spec.numbers, ih _ hr]; omega
    | _ => simp [toCell, Impl.countStep, Spec.numbers, ih _ hr]

/-- COUNT over a range without boolean cells counts exactly the numbers (text, numeric text,
blanks and errors are ignored on both sides); with a boolean cell: `finding_aggregates` -/
theorem aggregate_fold_count {N : Type} [NumOps N] (cells : List (Spec.Val N))
    (hb : ∀ b, Spec.Val.bool b ∉ cells) :
    Impl.aggregate .count (cells.map toCell) = .ok (Impl.mkNum (ofNat (Spec.numbers cells).length)) ∧
    Spec.aggregate .count cells = .num (ofNat (Spec.numbers cells).length) := by
  simp [Impl.aggregate, Spec.aggregate, countStep_fold cells 0 hb]

theorem productStep_fold {N : Type} [NumOps N] (cells : List (Spec.Val N)) (p : N)
    (hb : ∀ b, Spec.Val.bool b ∉ cells) :
    (cells.map toCell).foldl Impl.productStep p = (Spec.numbers cells).foldl mul p := by
  induction cells generalizing p with
  | nil => rfl
  | cons v rest ih =>
    have hr : ∀ b, Spec.Val.bool b ∉ rest := fun b h => hb b (by simp [h])
    cases v with
    | bool b => exact absurd (by simp) (hb b)
    | _ => simp [toCell, Impl.productStep, Spec.numbers, ih _ hr]

/-- PRODUCT over a range that holds at least one number, no boolean and no error cell is the
product of the numbers alone on both sides (partial: without numbers excelize gives 1, Excel 0;
booleans are multiplied in: `finding_aggregates`) -/
theorem aggregate_fold_product_partial {N : Type} [NumOps N] (cells : List (Spec.Val N))
    (hne : ∀ v ∈ cells, NotErr v) (hb : ∀ b, Spec.Val.bool b ∉ cells)
    (hn : Spec.numbers cells ≠ []) :
    Impl.aggregate .product (cells.map toCell) = .ok (Impl.mkNum ((Spec.numbers cells).foldl mul one)) ∧
    Spec.aggregate .product cells = Spec.mkNum ((Spec.numbers cells).foldl mul one) := by
  simp only [Impl.aggregate, Spec.aggregate, firstErr_none cells hne, productStep_fold cells one hb]
  cases h : Spec.numbers cells with
  | nil => exact absurd h hn
  | cons x xs => simp

theorem sumStep_fold {N : Type} [NumOps N] (cells : List (Spec.Val N)) (s : N)
    (hz : ∀ x : N, add x zero = x)
    (hb : ∀ b, Spec.Val.bool b ∉ cells)
    (ht : ∀ t, Spec.Val.text t ∈ cells → (parse t : Option N) = none)
    (hnan : ∀ x, Spec.Val.num x ∈ cells → isNaN x = false) :
    (cells.map toCell).foldl Impl.sumStep s = (Spec.numbers cells).foldl add s := by
  induction cells generalizing s with
  | nil => rfl
  | cons v rest ih =>
    have hr := fun s' => ih s' (fun b h => hb b (by simp [h])) (fun t h => ht t (by simp [h]))
      (fun x h => hnan x (by simp [h]))
    cases v with
    | bool b => exact absurd (by simp) (hb b)
    | num x => simp [toCell, Impl.sumStep, Spec.numbers, hnan x (by simp), hr]
    | text t => simp [toCell, Impl.sumStep, Spec.numbers, ht t (by simp), hr]
    | blank => simp [toCell, Impl.sumStep, Spec.numbers, hz, hr]
    | err c => simp [toCell, Impl.sumStep, Spec.numbers, hz, hr]

/-- SUM over a range without boolean, numeric-text and error cells is the sum of the numbers
alone on both sides (partial: excelize adds numeric text and booleans: `finding_aggregates`);
`x + 0 = x` is the one law of the carrier used (blank cells are added as 0) -/
theorem aggregate_fold_sum_partial {N : Type} [NumOps N] (cells : List (Spec.Val N))
    (hz : ∀ x : N, add x zero = x)
    (hne : ∀ v ∈ cells, NotErr v) (hb : ∀ b, Spec.Val.bool b ∉ cells)
    (ht : ∀ t, Spec.Val.text t ∈ cells → (parse t : Option N) = none)
    (hnan : ∀ x, Spec.Val.num x ∈ cells → isNaN x = false) :
    Impl.aggregate .sum (cells.map toCell) = .ok (Impl.mkNum ((Spec.numbers cells).foldl add zero)) ∧
    Spec.aggregate .sum cells = Spec.mkNum ((Spec.numbers cells).foldl add zero) := by
  simp [Impl.aggregate, Spec.aggregate, firstErr_none cells hne, sumStep_fold cells zero hz hb ht hnan]

/-- clause "MIN, MAX … over arbitrary ranges equal the corresponding fold over the referenced
cells under Excel's rule that text, booleans and blanks inside a referenced range are ignored":
both at once (see `aggregate_fold_max`, `aggregate_fold_min`; COUNT, SUM, PRODUCT:
`aggregate_fold_count`, `aggregate_fold_sum_partial`, `aggregate_fold_product_partial`) -/
theorem aggregate_fold {N : Type} [NumOps N] (L : Lawful N) (cells : List (Spec.Val N))
    (hne : ∀ v ∈ cells, NotErr v)
    (hs : ∀ x ∈ Spec.numbers cells,
      lt (sub zero maxFloat) x = true ∧ lt x maxFloat = true ∧ isNaN x = false)
    (hlt : ∀ a b : N, lt a b = true → eq b a = false ∧ eq a b = false)
    (heq : eq (sub zero (maxFloat : N)) (sub zero maxFloat) = true ∧ eq (maxFloat : N) maxFloat = true) :
    (Impl.aggregate .max (cells.map toCell) = .ok (.num (match Spec.numbers cells with
        | [] => zero
        | x :: xs => Spec.maxOf x xs) false) ∧
     Spec.aggregate .max cells = .num (match Spec.numbers cells with
        | [] => zero
        | x :: xs => Spec.maxOf x xs)) ∧
    (Impl.aggregate .min (cells.map toCell) = .ok (.num (match Spec.numbers cells with
        | [] => zero
        | x :: xs => Spec.minOf x xs) false) ∧
     Spec.aggregate .min cells = .num (match Spec.numbers cells with
        | [] => zero
        | x :: xs => Spec.minOf x xs)) :=
  ⟨aggregate_fold_max L cells hne (fun x hx => ⟨(hs x hx).1, (hs x hx).2.2⟩) (fun a b h => (hlt a b h).1) heq.1,
   aggregate_fold_min L cells hne (fun x hx => ⟨(hs x hx).2.1, (hs x hx).2.2⟩) (fun a b h => (hlt a b h).2) heq.2⟩

/-- non-vacuity: the hypotheses of `aggregate_fold` hold on the integer instance for the range
`["7" "abc" -3]` (the shape of the seeded MAX change), where both sides give −3 -/
theorem aggregate_fold_nonvacuous :
    Impl.aggregate .max ([(.text [55] : Spec.Val Int), .text [97], .num (-3)].map toCell) = .ok (.num (-3) false) ∧
    Spec.aggregate .max [(.text [55] : Spec.Val Int), .text [97], .num (-3)] = .num (-3) := by
  have h := (aggregate_fold lawful_int [(.text [55] : Spec.Val Int), .text [97], .num (-3)]
    (by intro v hv; simp at hv; rcases hv with h | h | h <;> subst h <;> trivial)
    (by intro x hx; simp [Spec.numbers] at hx; subst hx; decide)
    (by
      intro a b h
      have h' : a < b := by simpa [NumOps.lt] using h
      constructor
      · show (b == a) = false
        simp; omega
      · show (a == b) = false
        simp; omega)
    (by decide)).1
  simpa [Spec.numbers, Spec.maxOf] using h

/-- the aggregate deviations of the current code, on the integer instance:
SUM adds numeric text and TRUE (`[5 "7"]` → 12, Excel 5; `[TRUE 0]` → 1, Excel 0), AVERAGE counts
numeric text (`[5 "7"]` → 6, Excel 5), COUNT counts booleans (`[TRUE 0]` → 2, Excel 1), PRODUCT
without numbers is 1 (Excel 0) and multiplies by FALSE (`[FALSE -3]` → 0, Excel −3), an error
cell is dropped instead of propagated (`[#DIV/0! 10]` → 10), while MAX ignores text next to
negative numbers (`["7" "abc" -3]` → −3 on both sides). -/
theorem finding_aggregates :
    let c : List (Spec.Val Int) → List (Impl.CellArg Int) := fun l => l.map toCell
    Impl.aggregate .sum (c [.num 5, .text [55]]) = .ok (.num 12 false) ∧
    Spec.aggregate .sum [(.num 5 : Spec.Val Int), .text [55]] = .num 5 ∧
    Impl.aggregate .sum (c [.bool true, .num 0]) = .ok (.num 1 false) ∧
    Spec.aggregate .sum [(.bool true : Spec.Val Int), .num 0] = .num 0 ∧
    Impl.aggregate .average (c [.num 5, .text [55]]) = .ok (.num 6 false) ∧
    Spec.aggregate .average [(.num 5 : Spec.Val Int), .text [55]] = .num 5 ∧
    Impl.aggregate .count (c [.bool true, .num 0]) = .ok (.num 2 false) ∧
    Spec.aggregate .count [(.bool true : Spec.Val Int), .num 0] = .num 1 ∧
    Impl.aggregate .product (c [.text [97]]) = .ok (.num 1 false) ∧
    Spec.aggregate .product [(.text [97] : Spec.Val Int)] = .num 0 ∧
    Impl.aggregate .product (c [.bool false, .num (-3)]) = .ok (.num 0 false) ∧
    Spec.aggregate .product [(.bool false : Spec.Val Int), .num (-3)] = .num (-3) ∧
    Impl.aggregate .sum (c [.err .div0, .num 10]) = .ok (.num 10 false) ∧
    Spec.aggregate .sum [(.err .div0 : Spec.Val Int), .num 10] = .err .div0 ∧
    Impl.aggregate .max (c [.text [55], .text [97], .num (-3)]) = .ok (.num (-3) false) ∧
    Spec.aggregate .max [(.text [55] : Spec.Val Int), .text [97], .num (-3)] = .num (-3) := by
  decide +kernel

/-! ## where the current code deviates from Excel: witnesses on the integer instance -/

section findings
open IntInst

private def noEnv : Str → Option (Impl.CellArg Int) := fun _ => none
private def noEnvS : Str → Option (Spec.Val Int) := fun _ => none

/-- `=1="1"`: excelize compares `Value()` strings → TRUE; Excel: a number never equals text → FALSE -/
theorem finding_eq_number_text :
    Impl.evalTokens noEnv (render 1 (.bin .eq (.num [49]) (.text [49]))) = .ok (.num 1 true) ∧
    Spec.eval noEnvS (.bin .eq (.num [49]) (.text [49])) = .bool false := by decide +kernel

/-- `="a"="A"` → FALSE and `="a"<"B"` → FALSE; Excel compares text case-insensitively: TRUE, TRUE -/
theorem finding_text_case :
    Impl.evalTokens noEnv (render 1 (.bin .eq (.text [97]) (.text [65]))) = .ok (.num 0 true) ∧
    Spec.eval noEnvS (.bin .eq (.text [97]) (.text [65])) = .bool true ∧
    Impl.evalTokens noEnv (render 1 (.bin .lt (.text [97]) (.text [66]))) = .ok (.num 0 true) ∧
    Spec.eval noEnvS (.bin .lt (.text [97]) (.text [66])) = .bool true := by decide +kernel

/-- `=TRUE>5` → FALSE (TRUE compared as the number 1); Excel: booleans rank above numbers → TRUE -/
theorem finding_bool_gt_number :
    Impl.evalTokens noEnv (render 1 (.bin .gt (.logical sTRUE) (.num [53]))) = .ok (.num 0 true) ∧
    Spec.eval noEnvS (.bin .gt (.logical sTRUE) (.num [53])) = .bool true := by decide +kernel

/-- `=-"a"` → 0 (the failed `ToNumber` is ignored); Excel: #VALUE! -/
theorem finding_neg_text :
    Impl.evalTokens noEnv (render 1 (.neg (.text [97]))) = .ok (.num 0 false) ∧
    Spec.eval noEnvS (.neg (.text [97])) = .err .value := by decide +kernel

/-- `=--TRUE` → TRUE (two prefix minus tokens cancel without coercion); Excel: 1 -/
theorem finding_double_neg :
    Impl.evalTokens noEnv (render 1 (.neg (.neg (.logical sTRUE)))) = .ok (.num 1 true) ∧
    Spec.eval noEnvS (.neg (.neg (.logical sTRUE))) = .num 1 := by decide +kernel

/-- `="500"%` → 0 (postfix % reads the `.Number` field of a string argument); Excel: 5 -/
theorem finding_pct_text :
    Impl.evalTokens noEnv (render 1 (.pct (.text [53, 48, 48]))) = .ok (.num 0 false) ∧
    Spec.eval noEnvS (.pct (.text [53, 48, 48])) = .num 5 := by decide +kernel

/-- `=""+1` → 1 and `=""=0` → TRUE (the empty text literal is treated like a blank cell);
Excel: #VALUE!, FALSE -/
theorem finding_empty_text :
    Impl.evalTokens noEnv (render 1 (.bin .add (.text []) (.num [49]))) = .ok (.num 1 false) ∧
    Spec.eval noEnvS (.bin .add (.text []) (.num [49])) = .err .value ∧
    Impl.evalTokens noEnv (render 1 (.bin .eq (.text []) (.num [48]))) = .ok (.num 1 true) ∧
    Spec.eval noEnvS (.bin .eq (.text []) (.num [48])) = .bool false := by decide +kernel

/-- an error *value* on the operand stack (excelize creates one for a NaN: `#NUM!`) is swallowed by
prefix minus, by postfix % and by infix minus, for every numeric carrier -/
theorem finding_numerr_swallowed {N : Type} [NumOps N] (m : Str) (st : List (Impl.Arg N))
    (h0 : isNaN (sub (zero : N) zero) = false) :
    Impl.calculate (.err m :: st) (.prefixOp sMinus) = .ok (.num (sub zero zero) false :: st) := by
  rw [Impl.calculate_neg]
  simp [Impl.negate, Impl.toNumberField, Impl.toNumber, Impl.mkNum, h0]

end findings

end XlModel.Props.C08
