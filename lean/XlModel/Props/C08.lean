/-
C08 — Formula evaluator implements Excel operator, reference and aggregate
semantics.  Property theorems only; helper lemmas are in `Lemmas/Calc.lean`,
the exact integer instance used for witnesses in `Lemmas/CalcInt.lean`.

All theorems are about `XlModel.Calc` (transcription of calc.go's shunting-yard
evaluator) *over the facts regenerated from calc.go* (`Facts.C08.tokenPriority`,
`prefixMinusPriority`, `pushCmp`, `loopCmp`, `tokenCalcFunc`, error codes,
`percentDivisor`) and over an arbitrary numeric carrier (`NumOps N`; no theorem
mentions `Float`).
-/
import XlModel.Lemmas.Calc
import XlModel.Lemmas.CalcAgree
import XlModel.Lemmas.CalcInt
import XlModel.CalcCheck
import XlModel.CalcRef
import XlModel.CalcFloat
import XlModel.Lemmas.CalcRender
import XlModel.Lemmas.CalcPair
import XlModel.Lemmas.CalcKey

namespace XlModel.Props.C08
open XlModel XlModel.Calc XlModel.Facts.C08 NumOps

deriving instance DecidableEq for Except

/-! ## precedence and associativity, decided on the extracted tables -/

/-- clause "with Excel's precedence": the regenerated `tokenPriority` table gives every
binary operator exactly Excel's precedence level -/
theorem priority_table_ok : ∀ op : Op, Impl.getPriority (.infixOp op.sym) = op.level := by
  intro op; cases op <;> decide

/-- clause "precedence": `^` > `* /` > `+ -` > `&` > the six comparisons, prefix minus above `^`,
parentheses below everything — on the table extracted from calc.go -/
theorem priority_order :
    Impl.getPriority (.prefixOp sMinus) > Impl.getPriority (.infixOp Op.pow.sym) ∧
    Impl.getPriority (.infixOp Op.pow.sym) > Impl.getPriority (.infixOp Op.mul.sym) ∧
    Impl.getPriority (.infixOp Op.mul.sym) = Impl.getPriority (.infixOp Op.div.sym) ∧
    Impl.getPriority (.infixOp Op.div.sym) > Impl.getPriority (.infixOp Op.add.sym) ∧
    Impl.getPriority (.infixOp Op.add.sym) = Impl.getPriority (.infixOp Op.sub.sym) ∧
    Impl.getPriority (.infixOp Op.sub.sym) > Impl.getPriority (.infixOp Op.concat.sym) ∧
    Impl.getPriority (.infixOp Op.concat.sym) > Impl.getPriority (.infixOp Op.eq.sym) ∧
    (∀ op : Op, op.level = 1 → Impl.getPriority (.infixOp op.sym) = Impl.getPriority (.infixOp Op.eq.sym)) ∧
    (∀ op : Op, Impl.getPriority (.infixOp op.sym) > Impl.getPriority .lpar) := by
  refine ⟨by decide, by decide, by decide, by decide, by decide, by decide, by decide, ?_, ?_⟩
  · intro op h; cases op <;> first | decide | (simp [Op.level] at h)
  · intro op; cases op <;> decide

/-- clause "associativity": an arriving operator pops a stacked operator of the *same* priority
(left associativity) and is pushed over one of lower priority — the two comparisons of
`parseOperatorPrefixToken` as extracted from the source -/
theorem left_associative (p q : Nat) :
    (loopCmp p q = true ↔ p ≤ q) ∧ (pushCmp p q = true ↔ p > q) := by
  simp [loopCmp, pushCmp]

/-- `calculate`'s dispatch (the extracted `tokenCalcFunc` map and the two special cases for
`-`) maps every operator symbol to its own function: for every operator and all operands the
result is `applyBin op left right` -/
theorem dispatch_table_ok {N : Type} [NumOps N] (op : Op) (a b : Impl.Arg N) (st : List (Impl.Arg N)) :
    Impl.calculate (b :: a :: st) (.infixOp op.sym) = (· :: st) <$> Impl.applyBin op a b :=
  Impl.calculate_infix op a b st

/-! ## the shunting-yard machine computes the tree -/

/-- clause "evaluates expressions built from … with Excel's precedence, associativity":
for EVERY expression tree (any depth, any operands, any cell environment, any numeric carrier)
the token machine of `evalInfixExp` run on the rendering of the tree — parentheses exactly where
Excel's precedence needs them — computes the structural evaluator, including which error is
reported first. -/
theorem shunting_yard_correct {N : Type} [NumOps N] (env : Str → Option (Impl.CellArg N)) (e : Expr) :
    Impl.evalTokens env (render 1 e) = Impl.evalTree env e :=
  Impl.evalTokens_render env e

/-- the same on the real, flat token stream with function calls: for every expression tree of any
depth whose leaves may be calls `NAME(range, …, range)` (the seven aggregates over one or more
range arguments, anywhere in the operator tree), the loop of `evalInfixExp` — including its
in-function branch: function start (opf/opft/args stacks), range arguments with the lookahead
on the next token, argument separators, and `evalInfixExpFunc` at the function stop moving the
result to the operand stack or aborting with its error — run on the tokens efp produces
(`flatten (render 1 e)`) computes the structural evaluator. -/
theorem shunting_yard_correct_calls {N : Type} [NumOps N] (env : Str → Option (Impl.CellArg N)) (e : Expr) :
    Impl.evalTokensF env (Impl.flatten (render 1 e)) = Impl.evalTree env e :=
  Impl.evalTokensF_render env e

/-- a call is the composition of its micro steps: running `fstart`, the range arguments with their
separators and `fstop` from an idle state pushes the aggregate over all argument cells (or aborts
with "invalid reference" at the first argument that does not resolve, or with the function's
error, e.g. AVERAGE without numbers) and returns to the idle state -/
theorem call_micro_steps {N : Type} [NumOps N] (env : Str → Option (Impl.CellArg N)) (name : Str)
    (args : List (List Str)) (opd : List (Impl.Arg N)) (opt rest : List Tok) :
    Impl.runF env (Impl.expandCall name args ++ rest) ((opd, opt), none) =
      match Impl.callValue env name args with
      | .error e => .error e
      | .ok v => Impl.runF env rest ((v :: opd, opt), none) :=
  Impl.runF_expandCall env name args opd opt rest

/-- non-vacuity: `-MAX(r)*2+1` and `SUM(r1,r2)<0` on the integer instance (cells a=5, b=-3, c="7") -/
theorem calls_examples :
    let env : Str → Option (Impl.CellArg Int) := fun k =>
      if k = [97] then some (.num 5 false) else if k = [98] then some (.num (-3) false)
      else if k = [99] then some (.str [55]) else none
    let mx : Expr := .call [77, 65, 88] [[98, 99].map (fun c => [c])]
    Impl.evalTokensF env (Impl.flatten (render 1
      (.bin .add (.bin .mul (.neg mx) (.num [50])) (.num [49])))) = .ok (.num 7 false) ∧
    Impl.evalTokensF env (Impl.flatten (render 1
      (.bin .lt (.call [83, 85, 77] [[[97]], [[98], [99]]]) (.num [48])))) = .ok (.num 0 true) ∧
    Impl.flatten (render 1 (.call [83, 85, 77] [[[97]], [[98]]])) =
      [.fstart [83, 85, 77], .rangeArg [[97]] true, .argsep, .rangeArg [[98]] true, .fstop] := by
  decide +kernel

/-- the same inside any context: the value of a subexpression never depends on what surrounds it
(explicit parentheses are transparent) -/
theorem paren_transparent {N : Type} [NumOps N] (env : Str → Option (Impl.CellArg N)) (e : Expr) :
    Impl.evalTokens env (render 1 (.paren e)) = Impl.evalTokens env (render 1 e) := by
  rw [shunting_yard_correct, shunting_yard_correct]; rfl

/-- non-vacuity / worked instances of precedence on the integer instance:
`1+2*3 = 7`, `2^3^2 = 64` (left associative), `-2^2 = 4` (prefix minus binds tighter),
`1-2-3 = -4`, `2*3% = 0.06` is not expressible on integers so `200%*3 = 6`. -/
theorem precedence_examples :
    let n (k : Nat) : Expr := .num (IntInst.fmtInt k)
    let env : Str → Option (Impl.CellArg Int) := fun _ => none
    Impl.evalTokens env (render 1 (.bin .add (n 1) (.bin .mul (n 2) (n 3)))) = .ok (.num 7 false) ∧
    Impl.evalTokens env (render 1 (.bin .pow (.bin .pow (n 2) (n 3)) (n 2))) = .ok (.num 64 false) ∧
    Impl.evalTokens env (render 1 (.bin .pow (.neg (n 2)) (n 2))) = .ok (.num 4 false) ∧
    Impl.evalTokens env (render 1 (.bin .sub (.bin .sub (n 1) (n 2)) (n 3))) = .ok (.num (-4) false) ∧
    Impl.evalTokens env (render 1 (.bin .mul (.pct (n 200)) (n 3))) = .ok (.num 6 false) ∧
    render 1 (.bin .mul (.bin .add (n 1) (n 2)) (n 3)) =
      [.lpar, .num [49], .infixOp [43], .num [50], .rpar, .infixOp [42], .num [51]] := by
  decide +kernel

/-- clause "Excel's precedence, associativity" for EVERY pair of binary operators on the raw,
unparenthesised token stream `a op1 b op2 c` (144 pairs; `a`, `b`, `c` atoms: numbers, text,
logicals, references, calls, or arbitrary explicitly parenthesised expressions): the machine of
`evalInfixExp` groups to the left, `(a op1 b) op2 c`, exactly when `op2` does not bind tighter
than `op1` (equal level ⇒ left associative), and to the right, `a op1 (b op2 c)`, otherwise —
for every carrier, environment and operand, including which error is reported. -/
theorem operator_pair_grouping {N : Type} [NumOps N] (env : Str → Option (Impl.CellArg N))
    (op1 op2 : Op) (a b c : Expr) (ha : a.level = 8) (hb : b.level = 8) (hc : c.level = 8) :
    Impl.evalTokens env
        (render 8 a ++ .infixOp op1.sym :: (render 8 b ++ .infixOp op2.sym :: render 8 c)) =
      if op2.level ≤ op1.level then Impl.evalTree env (.bin op2 (.bin op1 a b) c)
      else Impl.evalTree env (.bin op1 a (.bin op2 b c)) := by
  have l1 := Op.level_pos op1
  have l2 := Op.level_pos op2
  split
  · rename_i h
    rw [← shunting_yard_correct]
    congr 1
    have n1 : ¬ (op2.level < 1) := by omega
    have n2 : ¬ (op1.level < op2.level) := by omega
    simp only [render, wrap, n1, n2, decide_false, Bool.false_eq_true, if_false]
    rw [render_atom a ha op1.level, render_atom b hb (op1.level + 1), render_atom c hc (op2.level + 1)]
    simp [List.append_assoc]
  · rename_i h
    rw [← shunting_yard_correct]
    congr 1
    have n1 : ¬ (op1.level < 1) := by omega
    have n2 : ¬ (op2.level < op1.level + 1) := by omega
    simp only [render, wrap, n1, n2, decide_false, Bool.false_eq_true, if_false]
    rw [render_atom a ha op1.level, render_atom b hb op2.level, render_atom c hc (op2.level + 1)]

/-- instances of `operator_pair_grouping`: `a-b-c = (a-b)-c`, `a/b/c = (a/b)/c`, `a^b^c = (a^b)^c`
(left associative), `a&b+c = a&(b+c)`, `a<b&c = a<(b&c)`, `a+b*c = a+(b*c)`, `a*b+c = (a*b)+c` -/
theorem operator_pair_instances {N : Type} [NumOps N] (env : Str → Option (Impl.CellArg N))
    (a b c : Expr) (ha : a.level = 8) (hb : b.level = 8) (hc : c.level = 8) :
    let ts (o1 o2 : Op) := render 8 a ++ .infixOp o1.sym :: (render 8 b ++ .infixOp o2.sym :: render 8 c)
    Impl.evalTokens env (ts .sub .sub) = Impl.evalTree env (.bin .sub (.bin .sub a b) c) ∧
    Impl.evalTokens env (ts .div .div) = Impl.evalTree env (.bin .div (.bin .div a b) c) ∧
    Impl.evalTokens env (ts .pow .pow) = Impl.evalTree env (.bin .pow (.bin .pow a b) c) ∧
    Impl.evalTokens env (ts .concat .add) = Impl.evalTree env (.bin .concat a (.bin .add b c)) ∧
    Impl.evalTokens env (ts .lt .concat) = Impl.evalTree env (.bin .lt a (.bin .concat b c)) ∧
    Impl.evalTokens env (ts .add .mul) = Impl.evalTree env (.bin .add a (.bin .mul b c)) ∧
    Impl.evalTokens env (ts .mul .add) = Impl.evalTree env (.bin .add (.bin .mul a b) c) := by
  refine ⟨?_, ?_, ?_, ?_, ?_, ?_, ?_⟩ <;>
    (rw [operator_pair_grouping env _ _ a b c ha hb hc]; rfl)

/-- non-vacuity on the integer instance, raw token lists: `8/4/2 = 1`, `1&2+3 = "15"`,
`(1+1)^3^2 = 64` with a parenthesised atom -/
theorem operator_pair_examples :
    let env : Str → Option (Impl.CellArg Int) := fun _ => none
    Impl.evalTokens env [.num [56], .infixOp [47], .num [52], .infixOp [47], .num [50]] = .ok (.num 1 false) ∧
    Impl.evalTokens env [.num [49], .infixOp [38], .num [50], .infixOp [43], .num [51]] = .ok (.str [49, 53]) ∧
    Impl.evalTokens env (render 8 (.paren (.bin .add (.num [49]) (.num [49]))) ++ .infixOp Op.pow.sym ::
      (render 8 (.num [51]) ++ .infixOp Op.pow.sym :: render 8 (.num [50]))) = .ok (.num 64 false) ∧
    (Expr.paren (.bin .add (.num [49]) (.num [49]))).level = 8 := by
  decide +kernel

/-! ## agreement with the Excel reference on operands -/

/-- image of a non-error Spec value as an excelize operand (how `tokenToFormulaArg` /
`formulaArgToToken` present it to `calculate`) -/
def toImpl {N : Type} [NumOps N] : Spec.Val N → Impl.Arg N
  | .num x => .num x false
  | .bool b => Impl.mkBool b
  | .text s => .str s
  | .blank => .str []
  | .err _ => .err []

/-- agreement of an excelize outcome with a Spec value: exact on numbers, text and booleans;
an error on one side must be an error on the other -/
def Agree {N : Type} [NumOps N] : Except Impl.MErr (Impl.Arg N) → Spec.Val N → Prop
  | .ok (.num x false), .num y => x = y
  | .ok (.num x true), .bool b => x = (if b then one else zero)
  | .ok (.str s), .text t => s = t
  | .ok (.err _), .err _ => True
  | .error _, .err _ => True
  | _, _ => False

/-- the laws of the numeric carrier the agreement theorems need (satisfied by IEEE doubles with
Go's `%g`, and by the integer instance: `lawful_int`) -/
structure Lawful (N : Type) [NumOps N] : Prop where
  nan_zero : isNaN (zero : N) = false
  nan_one : isNaN (one : N) = false
  inf_zero : isInf (zero : N) = false
  inf_one : isInf (one : N) = false
  fmt_ne : ∀ x : N, fmtG x ≠ []

theorem digitsAux_ne (fuel n : Nat) (acc : List Nat) (h : acc ≠ []) : IntInst.digitsAux fuel n acc ≠ [] := by
  induction fuel generalizing n acc with
  | zero => simpa [IntInst.digitsAux] using h
  | succ f ih =>
    unfold IntInst.digitsAux
    split
    · simp
    · exact ih _ _ (by simp)

theorem lawful_int : Lawful Int := by
  refine ⟨rfl, rfl, rfl, rfl, ?_⟩
  intro x
  show IntInst.fmtInt x ≠ []
  unfold IntInst.fmtInt
  by_cases h : x < 0
  · simp [h]
  · simp only [h, if_false, List.nil_append]
    show IntInst.digitsAux (39 + 1) x.natAbs [] ≠ []
    unfold IntInst.digitsAux
    split
    · simp
    · exact digitsAux_ne _ _ _ (by simp)

/-- no operand is an error value -/
def NotErr {N : Type} : Spec.Val N → Prop
  | .err _ => False
  | _ => True

/-- operands that do not hide a NaN -/
def Clean {N : Type} [NumOps N] : Spec.Val N → Prop
  | .num x => isNaN x = false ∧ isInf x = false
  | .text s => ∀ x : N, parse s = some x → isNaN x = false ∧ isInf x = false
  | _ => True

/-- clause "coercion rules" (arithmetic context): excelize's `ToNumber` after the blank→0
replacement coerces numbers, booleans, blanks and text exactly like Excel (text that is not
numeric is an error on both sides) — except for the empty text literal (`finding_empty_text`). -/
theorem coerce_agree {N : Type} [NumOps N] (L : Lawful N) (v : Spec.Val N)
    (hv : NotErr v) (hne : v ≠ .text []) (hc : Clean v) :
    match Spec.toNum v with
    | .ok x => Impl.toNumber (Impl.blank0 (toImpl v)) = .ok x
    | .error _ => ∃ m, Impl.toNumber (Impl.blank0 (toImpl v)) = .error m := by
  cases v with
  | err c => exact absurd hv (by simp [NotErr])
  | num x =>
    have : isNaN x = false ∧ isInf x = false := by simpa [Clean] using hc
    simp [Spec.toNum, toImpl, Impl.blank0, Impl.value, L.fmt_ne, Impl.toNumber, this.1, this.2]
  | bool b =>
    have hvb : ∀ x : N, Impl.value (Impl.Arg.num x true) ≠ [] := by
      intro x; simp only [Impl.value]; split <;> simp [sTRUE, sFALSE]
    cases b <;> simp [Spec.toNum, toImpl, Impl.mkBool, Impl.blank0, hvb, Impl.toNumber, L.nan_zero, L.inf_zero, L.nan_one, L.inf_one]
  | blank =>
    simp [Spec.toNum, toImpl, Impl.blank0, Impl.value, Impl.mkNum, L.nan_zero, L.inf_zero, Impl.toNumber]
  | text s =>
    have hs : s ≠ [] := by intro h; exact hne (by rw [h])
    simp only [Spec.toNum, toImpl, Impl.blank0, Impl.value, hs, if_false, Impl.toNumber]
    cases hp : (parse s : Option N) with
    | none => simp
    | some x =>
      have hc' : ∀ x : N, parse s = some x → isNaN x = false ∧ isInf x = false := by simpa [Clean] using hc
      have := hc' x hp
      simp [this.1, this.2]

theorem blank0_toImpl_ne_err {N : Type} [NumOps N] (L : Lawful N) (v : Spec.Val N) (hv : NotErr v) (m : Str) :
    Impl.blank0 (toImpl v) ≠ .err m := by
  have hvb : ∀ x : N, Impl.value (Impl.Arg.num x true) ≠ [] := by
    intro x; simp only [Impl.value]; split <;> simp [sTRUE, sFALSE]
  cases v with
  | err c => exact absurd hv (by simp [NotErr])
  | num x => simp [toImpl, Impl.blank0, Impl.value, L.fmt_ne]
  | bool b => simp [toImpl, Impl.mkBool, Impl.blank0, hvb]
  | blank => simp [toImpl, Impl.blank0, Impl.value, Impl.mkNum, L.nan_zero, L.inf_zero]
  | text s =>
    by_cases hs : s = []
    · simp [toImpl, Impl.blank0, Impl.value, hs, Impl.mkNum, L.nan_zero, L.inf_zero]
    · simp [toImpl, Impl.blank0, Impl.value, hs]

/-- the three total arithmetic operators -/
def arithFn {N : Type} [NumOps N] : Op → Option (N → N → N)
  | .add => some add
  | .sub => some sub
  | .mul => some mul
  | _ => none

theorem applyBin_arith_shape {N : Type} [NumOps N] (op : Op) (f : N → N → N) (hop : arithFn op = some f)
    (l r : Impl.Arg N) (hl : ∀ m, Impl.blank0 l ≠ .err m) (hr : ∀ m, Impl.blank0 r ≠ .err m) :
    Impl.applyBin op l r =
      (do let x ← Impl.liftE (Impl.toNumber (Impl.blank0 l))
          let y ← Impl.liftE (Impl.toNumber (Impl.blank0 r))
          pure (Impl.mkNum (f x y))) := by
  cases op <;> simp [arithFn] at hop <;> subst hop <;> simp only [Impl.applyBin]
  all_goals
    generalize Impl.blank0 l = l' at hl ⊢
    generalize Impl.blank0 r = r' at hr ⊢
    cases l' <;> cases r' <;> simp_all

/-- clause "coercion rules" for `+ - *`: for every pair of operands among numbers, booleans,
blanks and (numeric or non-numeric) non-empty text, excelize's result agrees with Excel's
(same number, or an error on both sides), provided the result does not overflow
(`finding`: overflow yields +Inf instead of #NUM!). -/
theorem arith_agree {N : Type} [NumOps N] (L : Lawful N) (op : Op) (f : N → N → N)
    (hop : arithFn op = some f) (a b : Spec.Val N)
    (ha : NotErr a) (hb : NotErr b) (ha' : a ≠ .text []) (hb' : b ≠ .text [])
    (hca : Clean a) (hcb : Clean b)
    (hfin : ∀ x y, Spec.toNum a = .ok x → Spec.toNum b = .ok y → isInf (f x y) = false) :
    Agree (Impl.applyBin op (toImpl a) (toImpl b)) (Spec.binop op a b) := by
  have ca := coerce_agree L a ha ha' hca
  have cb := coerce_agree L b hb hb' hcb
  have na := blank0_toImpl_ne_err L a ha
  have nb := blank0_toImpl_ne_err L b hb
  have hoe : Spec.operandErr a b = none := by
    cases a <;> cases b <;> simp_all [Spec.operandErr, NotErr]
  have hI := applyBin_arith_shape op f hop (toImpl a) (toImpl b) na nb
  have hS : Spec.binop op a b =
      Spec.ofExcept (do let x ← Spec.toNum a; let y ← Spec.toNum b; pure (Spec.mkNum (f x y))) := by
    cases op <;> simp [arithFn] at hop <;> subst hop <;> simp [Spec.binop, Spec.arith, hoe]
  rw [hI, hS]
  cases hx : Spec.toNum a with
  | error c =>
    rw [hx] at ca
    obtain ⟨m, hm⟩ := ca
    simp [hm, Impl.liftE, Spec.ofExcept, Agree]
  | ok x =>
    rw [hx] at ca
    cases hy : Spec.toNum b with
    | error c =>
      rw [hy] at cb
      obtain ⟨m, hm⟩ := cb
      simp [ca, hm, Impl.liftE, Spec.ofExcept, Agree]
    | ok y =>
      rw [hy] at cb
      have hi := hfin x y hx hy
      simp only [ca, cb, Impl.liftE, Impl.bind_ok, Impl.pure_eq_ok, Spec.ofExcept, Impl.mkNum, Spec.mkNum, hi, Bool.or_false]
      cases hn : isNaN (f x y) <;> simp [Agree]

/-- non-vacuity: the hypotheses of `arith_agree` are satisfiable (integer instance, `TRUE+"7"`)
and the conclusion is the expected value 8 on both sides -/
theorem arith_agree_nonvacuous :
    Agree (Impl.applyBin .add (toImpl (.bool true : Spec.Val Int)) (toImpl (.text [55])))
      (Spec.binop .add (.bool true) (.text [55])) ∧
    Spec.binop .add (.bool true : Spec.Val Int) (.text [55]) = .num 8 := by
  refine ⟨arith_agree lawful_int .add _ rfl _ _ trivial trivial (by simp) (by simp) trivial
    (fun _ _ => ⟨rfl, rfl⟩) (fun _ _ _ _ => rfl), by decide +kernel⟩

/-! ## per-operator agreement: `/`, `^`, `&` and the six comparisons -/

/-- order / zero-one laws of the carrier used by the comparison theorems (IEEE doubles without
NaN operands satisfy them; so does the integer instance: `lawfulCmp_int`) -/
structure LawfulCmp (N : Type) [NumOps N] : Prop where
  isZero_zero : isZero (zero : N) = true
  isZero_one : isZero (one : N) = false
  lt01 : lt (zero : N) one = true ∧ lt (one : N) zero = false ∧ lt (zero : N) zero = false ∧ lt (one : N) one = false
  eq01 : eq (zero : N) zero = true ∧ eq (one : N) one = true ∧ eq (zero : N) one = false ∧ eq (one : N) zero = false
  le_iff : ∀ x y : N, isNaN x = false → isNaN y = false → le x y = (lt x y || eq x y)
  gt_iff : ∀ x y : N, isNaN x = false → isNaN y = false → lt y x = (!lt x y && !eq x y)
  ge_iff : ∀ x y : N, isNaN x = false → isNaN y = false → le y x = !lt x y
  eq_not_lt : ∀ x y : N, eq x y = true → lt x y = false

theorem lawfulCmp_int : LawfulCmp Int := by
  refine ⟨rfl, rfl, by decide, by decide, ?_, ?_, ?_, ?_⟩
  rotate_left 3
  · intro x y h
    have h' : x = y := by simpa [NumOps.eq] using h
    subst h'
    show decide (x < x) = false
    simp
  · intro x y _ _
    show decide (x ≤ y) = (decide (x < y) || (x == y))
    rcases Int.lt_trichotomy x y with h | h | h
    · have h1 : x ≤ y := by omega
      simp [h, h1]
    · subst h; simp
    · have h1 : ¬ x ≤ y := by omega
      have h2 : ¬ x < y := by omega
      have h3 : ¬ x = y := by omega
      simp [h1, h2, h3]
  · intro x y _ _
    show decide (y < x) = (!decide (x < y) && !(x == y))
    rcases Int.lt_trichotomy x y with h | h | h
    · have h1 : ¬ y < x := by omega
      simp [h, h1]
    · subst h; simp
    · have h2 : ¬ x < y := by omega
      have h3 : ¬ x = y := by omega
      simp [h, h2, h3]
  · intro x y _ _
    show decide (y ≤ x) = !decide (x < y)
    by_cases h1 : x < y
    · have : ¬ y ≤ x := by omega
      simp [h1, this]
    · have : y ≤ x := by omega
      simp [h1, this]

section norm
variable {N : Type} [NumOps N]

theorem norm_num (L : Lawful N) (x : N) : Impl.blank0 (toImpl (.num x)) = .num x false := by
  simp [toImpl, Impl.blank0, Impl.value, L.fmt_ne]

theorem value_b2n (C : LawfulCmp N) (b : Bool) :
    Impl.value (.num (if b then one else zero : N) true) = if b then sTRUE else sFALSE := by
  cases b <;> simp [Impl.value, C.isZero_zero, C.isZero_one]

theorem norm_bool (C : LawfulCmp N) (b : Bool) :
    Impl.blank0 (toImpl (.bool b : Spec.Val N)) = .num (if b then one else zero) true := by
  have := value_b2n C b
  cases b <;> simp_all [toImpl, Impl.mkBool, Impl.blank0, sTRUE, sFALSE]

theorem norm_text (s : Str) (hs : s ≠ []) : Impl.blank0 (toImpl (.text s : Spec.Val N)) = .str s := by
  simp [toImpl, Impl.blank0, Impl.value, hs]

theorem norm_blank (L : Lawful N) : Impl.blank0 (toImpl (.blank : Spec.Val N)) = .num zero false := by
  simp [toImpl, Impl.blank0, Impl.value, Impl.mkNum, L.nan_zero, L.inf_zero]

end norm

/-- Excel's three-way comparison of two numbers -/
def ordNum {N : Type} [NumOps N] (x y : N) : Ordering :=
  if lt x y then .lt else if eq x y then .eq else .gt

/-- operand pairs on which `< <= > >=` (`calcCompare`) follow Excel's order numbers < text <
booleans: every pair of numbers (no NaN), blanks, non-empty text and booleans, except a blank
against FALSE (the blank is turned into the number 0 first: the rest of `cmp:bool-as-number`)
and the empty text literal (`finding_empty_text`). -/
def CompatOrd {N : Type} [NumOps N] : Spec.Val N → Spec.Val N → Prop
  | .num x, .num y => isNaN x = false ∧ isNaN y = false
  | .num x, .blank => isNaN x = false
  | .blank, .num y => isNaN y = false
  | .blank, .blank => True
  | .text s, .text t => s ≠ [] ∧ t ≠ []
  | .num _, .text t => t ≠ []
  | .text s, .num _ => s ≠ []
  | .blank, .text t => t ≠ []
  | .text s, .blank => s ≠ []
  | .bool _, .bool _ => True
  | .bool _, .num _ => True
  | .num _, .bool _ => True
  | .bool _, .text t => t ≠ []
  | .text s, .bool _ => s ≠ []
  | .bool p, .blank => p = true
  | .blank, .bool q => q = true
  | _, _ => False

theorem ordNum_b2n {N : Type} [NumOps N] (C : LawfulCmp N) (p q : Bool) :
    ordNum (if p then one else zero : N) (if q then one else zero) =
      (if p = q then .eq else if q then .lt else .gt) := by
  obtain ⟨a1, a2, a3, a4⟩ := C.lt01
  obtain ⟨b1, b2, b3, b4⟩ := C.eq01
  cases p <;> cases q <;> simp [ordNum, *]

theorem agree_bool {N : Type} [NumOps N] (v w : Bool) (h : v = w) :
    Agree (.ok (Impl.mkBool v : Impl.Arg N)) (.bool w) := by
  subst h; simp [Agree, Impl.mkBool]

theorem numord_core {N : Type} [NumOps N] (L : Lawful N) (C : LawfulCmp N) (x y : N)
    (hx : isNaN x = false) (hy : isNaN y = false) :
    (if lt x y then Ordering.lt else if lt y x then .gt else .eq) = ordNum x y := by
  unfold ordNum
  by_cases h1 : lt x y = true
  · simp [h1]
  · have := C.gt_iff x y hx hy
    cases h2 : eq x y <;> simp_all

/-- `calcCompare` on compatible operands is Excel's three-way comparison -/
theorem ord_core {N : Type} [NumOps N] (L : Lawful N) (C : LawfulCmp N)
    (a b : Spec.Val N) (h : CompatOrd a b) :
    Impl.calcCompare (Impl.blank0 (toImpl a)) (Impl.blank0 (toImpl b)) = some (Spec.cmp a b) := by
  have hz := L.nan_zero
  cases a <;> cases b <;> simp only [CompatOrd] at h
  case num.num x y =>
    rw [norm_num L, norm_num L]
    simp only [Impl.calcCompare, if_true]
    exact congrArg some (numord_core L C x y h.1 h.2)
  case num.blank x =>
    rw [norm_num L, norm_blank L]
    simp only [Impl.calcCompare, if_true]
    exact congrArg some (numord_core L C x zero h hz)
  case blank.num y =>
    rw [norm_blank L, norm_num L]
    simp only [Impl.calcCompare, if_true]
    exact congrArg some (numord_core L C zero y hz h)
  case blank.blank =>
    rw [norm_blank L]
    obtain ⟨_, _, a3, _⟩ := C.lt01
    simp [Impl.calcCompare, Spec.cmp, a3]
  case text.text s t =>
    rw [norm_text s h.1, norm_text t h.2]
    rfl
  case num.text x t =>
    rw [norm_num L, norm_text t h]
    rfl
  case text.num s y =>
    rw [norm_text s h, norm_num L]
    rfl
  case blank.text t =>
    rw [norm_blank L, norm_text t h]
    have : cmpStr (upper []) (upper t) = .lt := Impl.cmpStr_nil_left _ (Impl.upper_ne_nil t h)
    simp [Impl.calcCompare, Spec.cmp, this]
  case text.blank s =>
    rw [norm_text s h, norm_blank L]
    have : cmpStr (upper s) (upper []) = .gt := Impl.cmpStr_nil_right _ (Impl.upper_ne_nil s h)
    simp [Impl.calcCompare, Spec.cmp, this]
  case bool.bool p q =>
    rw [norm_bool C, norm_bool C]
    obtain ⟨a1, a2, a3, a4⟩ := C.lt01
    cases p <;> cases q <;> simp [Impl.calcCompare, Spec.cmp, a1, a2, a3, a4]
  case bool.num p y =>
    rw [norm_bool C, norm_num L]
    simp [Impl.calcCompare, Spec.cmp]
  case num.bool x q =>
    rw [norm_num L, norm_bool C]
    simp [Impl.calcCompare, Spec.cmp]
  case bool.text p t =>
    rw [norm_bool C, norm_text t h]
    simp [Impl.calcCompare, Spec.cmp]
  case text.bool s q =>
    rw [norm_text s h, norm_bool C]
    simp [Impl.calcCompare, Spec.cmp]
  case bool.blank p =>
    subst h
    rw [norm_bool C, norm_blank L]
    simp [Impl.calcCompare, Spec.cmp]
  case blank.bool q =>
    subst h
    rw [norm_blank L, norm_bool C]
    simp [Impl.calcCompare, Spec.cmp]

theorem compatOrd_notErr {N : Type} [NumOps N] (a b : Spec.Val N) (h : CompatOrd a b) :
    NotErr a ∧ NotErr b := by
  cases a <;> cases b <;> simp_all [CompatOrd, NotErr]

/-- clause "the six comparisons with Excel's … coercion rules", `< <= > >=`: on every compatible
operand pair (`CompatOrd`) excelize's result is Excel's — numbers (and blanks as 0) numerically,
text by (case-insensitive = ordinal) order, numbers below text, FALSE below TRUE. -/
theorem ord_agree {N : Type} [NumOps N] (L : Lawful N) (C : LawfulCmp N) (op : Op)
    (hop : op = .lt ∨ op = .le ∨ op = .gt ∨ op = .ge) (a b : Spec.Val N) (h : CompatOrd a b) :
    Agree (Impl.applyBin op (toImpl a) (toImpl b)) (Spec.binop op a b) := by
  have hne := compatOrd_notErr a b h
  have na := blank0_toImpl_ne_err L a hne.1
  have nb := blank0_toImpl_ne_err L b hne.2
  have hc : ∀ f, Spec.compare f a b = .bool (f (Spec.cmp a b)) := by
    intro f
    cases a <;> cases b <;> simp_all [Spec.compare, NotErr]
  have core := ord_core L C a b h
  rcases hop with rfl | rfl | rfl | rfl
  · rw [Impl.applyBin_lt_shape _ _ na nb]
    show Agree _ (Spec.compare (· == .lt) a b)
    rw [hc, Impl.ordRes, core]
    exact agree_bool _ _ rfl
  · rw [Impl.applyBin_le_shape _ _ na nb]
    show Agree _ (Spec.compare (· != .gt) a b)
    rw [hc, Impl.ordRes, core]
    exact agree_bool _ _ rfl
  · rw [Impl.applyBin_gt_shape _ _ na nb]
    show Agree _ (Spec.compare (· == .gt) a b)
    rw [hc, Impl.ordRes, core]
    exact agree_bool _ _ rfl
  · rw [Impl.applyBin_ge_shape _ _ na nb]
    show Agree _ (Spec.compare (· != .lt) a b)
    rw [hc, Impl.ordRes, core]
    exact agree_bool _ _ rfl

/-- operand pairs on which `=` / `<>` (typed comparison, `calcEqual`) is Excel's equality: every
pair of numbers, blanks, non-empty text and booleans, except blank against FALSE (a blank is
turned into the number 0 before the comparison: part of `cmp:bool-as-number`) and the empty
text literal (`finding_empty_text`). -/
def CompatEq {N : Type} [NumOps N] : Spec.Val N → Spec.Val N → Prop
  | .num _, .num _ => True
  | .num _, .blank => True
  | .blank, .num _ => True
  | .blank, .blank => True
  | .text s, .text t => s ≠ [] ∧ t ≠ []
  | .num _, .text t => t ≠ []
  | .text s, .num _ => s ≠ []
  | .blank, .text t => t ≠ []
  | .text s, .blank => s ≠ []
  | .bool _, .bool _ => True
  | .bool _, .num _ => True
  | .num _, .bool _ => True
  | .bool _, .text t => t ≠ []
  | .text s, .bool _ => s ≠ []
  | .bool p, .blank => p = true
  | .blank, .bool q => q = true
  | _, _ => False

theorem compatEq_notErr {N : Type} [NumOps N] (a b : Spec.Val N) (h : CompatEq a b) :
    NotErr a ∧ NotErr b := by
  cases a <;> cases b <;> simp_all [CompatEq, NotErr]

theorem numeq_core {N : Type} [NumOps N] (C : LawfulCmp N) (x y : N) :
    eq x y = ((if lt x y then Ordering.lt else if eq x y then .eq else .gt) == .eq) := by
  cases h2 : eq x y
  · by_cases h1 : lt x y = true <;> simp [h1]
  · simp [C.eq_not_lt x y h2]

theorem eq_core {N : Type} [NumOps N] (L : Lawful N) (C : LawfulCmp N) (a b : Spec.Val N)
    (h : CompatEq a b) :
    Impl.calcEqual (Impl.blank0 (toImpl b)) (Impl.blank0 (toImpl a)) = (Spec.cmp a b == .eq) := by
  obtain ⟨a1, a2, a3, a4⟩ := C.lt01
  obtain ⟨b1, b2, b3, b4⟩ := C.eq01
  cases a <;> cases b <;> simp only [CompatEq] at h
  case num.num x y =>
    rw [norm_num L, norm_num L]
    exact numeq_core C x y
  case num.blank x =>
    rw [norm_num L, norm_blank L]
    exact numeq_core C x zero
  case blank.num y =>
    rw [norm_num L, norm_blank L]
    exact numeq_core C zero y
  case blank.blank =>
    rw [norm_blank L]
    simp [Impl.calcEqual, Spec.cmp, b1]
  case text.text s t =>
    rw [norm_text s h.1, norm_text t h.2]
    show decide (upper s = upper t) = (cmpStr (upper s) (upper t) == .eq)
    by_cases hst : upper s = upper t
    · simp [hst, (Impl.cmpStr_eq_iff (upper t) (upper t)).mpr rfl]
    · have h2 : cmpStr (upper s) (upper t) ≠ .eq := fun e => hst ((Impl.cmpStr_eq_iff _ _).mp e)
      simp [hst, h2]
  case num.text x t =>
    rw [norm_num L, norm_text t h]
    simp [Impl.calcEqual, Spec.cmp]
  case text.num s y =>
    rw [norm_num L, norm_text s h]
    simp [Impl.calcEqual, Spec.cmp]
  case blank.text t =>
    rw [norm_blank L, norm_text t h]
    have h2 : cmpStr (upper []) (upper t) = .lt := Impl.cmpStr_nil_left _ (Impl.upper_ne_nil t h)
    simp [Impl.calcEqual, Spec.cmp, h2]
  case text.blank s =>
    rw [norm_blank L, norm_text s h]
    have h2 : cmpStr (upper s) (upper []) = .gt := Impl.cmpStr_nil_right _ (Impl.upper_ne_nil s h)
    simp [Impl.calcEqual, Spec.cmp, h2]
  case bool.bool p q =>
    rw [norm_bool C, norm_bool C]
    cases p <;> cases q <;> simp [Impl.calcEqual, Spec.cmp, b1, b2, b3, b4]
  case bool.num p y =>
    rw [norm_bool C, norm_num L]
    simp [Impl.calcEqual, Spec.cmp]
  case num.bool x q =>
    rw [norm_bool C, norm_num L]
    simp [Impl.calcEqual, Spec.cmp]
  case bool.text p t =>
    rw [norm_bool C, norm_text t h]
    simp [Impl.calcEqual, Spec.cmp]
  case text.bool s q =>
    rw [norm_bool C, norm_text s h]
    simp [Impl.calcEqual, Spec.cmp]
  case bool.blank p =>
    subst h
    rw [norm_bool C, norm_blank L]
    simp [Impl.calcEqual, Spec.cmp]
  case blank.bool q =>
    subst h
    rw [norm_bool C, norm_blank L]
    simp [Impl.calcEqual, Spec.cmp]

/-- clause "the six comparisons", `=` and `<>` -/
theorem eq_agree {N : Type} [NumOps N] (L : Lawful N) (C : LawfulCmp N) (op : Op)
    (hop : op = .eq ∨ op = .ne) (a b : Spec.Val N) (h : CompatEq a b) :
    Agree (Impl.applyBin op (toImpl a) (toImpl b)) (Spec.binop op a b) := by
  have hne := compatEq_notErr a b h
  have na := blank0_toImpl_ne_err L a hne.1
  have nb := blank0_toImpl_ne_err L b hne.2
  have hc : ∀ f, Spec.compare f a b = .bool (f (Spec.cmp a b)) := by
    intro f
    cases a <;> cases b <;> simp_all [Spec.compare, NotErr]
  rcases hop with rfl | rfl
  · rw [Impl.applyBin_eq_shape _ _ na nb]
    show Agree _ (Spec.compare (· == .eq) a b)
    rw [hc]
    exact agree_bool _ _ (eq_core L C a b h)
  · rw [Impl.applyBin_ne_shape _ _ na nb]
    show Agree _ (Spec.compare (· != .eq) a b)
    rw [hc]
    refine agree_bool _ _ ?_
    rw [eq_core L C a b h]
    rfl

/-! ### the whole-tree relation and the per-node theorem -/

/-- relation between an excelize outcome and an Excel value: an error on the Excel side is an
aborted evaluation on excelize's side; any other value is presented to `calculate` exactly as
`toImpl` says (numbers, booleans with the Boolean flag, text, a blank reference as "") -/
def R {N : Type} [NumOps N] (r : Except Impl.MErr (Impl.Arg N)) : Spec.Val N → Prop
  | .err _ => ∃ m, r = .error m
  | a => r = .ok (toImpl a)

theorem R_of_agree {N : Type} [NumOps N] (r : Except Impl.MErr (Impl.Arg N)) (s : Spec.Val N)
    (h : Agree r s) (hb : s ≠ .blank) (he : ∀ m, r ≠ .ok (.err m)) : R r s := by
  cases s with
  | blank => exact absurd rfl hb
  | err c =>
    cases r with
    | error m => exact ⟨m, rfl⟩
    | ok v => cases v <;> simp_all [Agree]
  | num y =>
    cases r with
    | error m => simp [Agree] at h
    | ok v =>
      cases v with
      | num x b => cases b <;> simp_all [Agree, R, toImpl]
      | _ => simp [Agree] at h
  | bool q =>
    cases r with
    | error m => simp [Agree] at h
    | ok v =>
      cases v with
      | num x b => cases b <;> simp_all [Agree, R, toImpl, Impl.mkBool]
      | _ => simp [Agree] at h
  | text t =>
    cases r with
    | error m => simp [Agree] at h
    | ok v => cases v <;> simp_all [Agree, R, toImpl]

/-- the number an arithmetic node produces is an ordinary number -/
def Finite {N : Type} [NumOps N] (x : N) : Prop := isNaN x = false ∧ isInf x = false

/-- operands of an arithmetic operator on which the coercion agrees -/
def ArithOperands {N : Type} [NumOps N] (a b : Spec.Val N) : Prop :=
  NotErr a ∧ NotErr b ∧ a ≠ .text [] ∧ b ≠ .text [] ∧ Clean a ∧ Clean b

/-- all five arithmetic operators at once: both sides coerce the operands in the same way
(`coerce_agree`) and then apply `g` / `gs`, which agree pointwise -/
theorem arith_R_generic {N : Type} [NumOps N] (L : Lawful N) (op : Op) (a b : Spec.Val N)
    (g : N → N → Except Impl.MErr (Impl.Arg N)) (gs : N → N → Spec.Val N)
    (hI : Impl.applyBin op (toImpl a) (toImpl b) =
      (do let x ← Impl.liftE (Impl.toNumber (Impl.blank0 (toImpl a)))
          let y ← Impl.liftE (Impl.toNumber (Impl.blank0 (toImpl b)))
          g x y))
    (hS : Spec.binop op a b = Spec.arith gs a b)
    (ho : ArithOperands a b)
    (hp : ∀ x y, Spec.toNum a = .ok x → Spec.toNum b = .ok y → R (g x y) (gs x y)) :
    R (Impl.applyBin op (toImpl a) (toImpl b)) (Spec.binop op a b) := by
  obtain ⟨ha, hb, ha', hb', hca, hcb⟩ := ho
  have ca := coerce_agree L a ha ha' hca
  have cb := coerce_agree L b hb hb' hcb
  have hoe : Spec.operandErr a b = none := by
    cases a <;> cases b <;> simp_all [Spec.operandErr, NotErr]
  rw [hI, hS]
  simp only [Spec.arith, hoe]
  cases hx : Spec.toNum a with
  | error c =>
    rw [hx] at ca
    obtain ⟨m, hm⟩ := ca
    simp [hm, Impl.liftE, Spec.ofExcept, R]
  | ok x =>
    rw [hx] at ca
    cases hy : Spec.toNum b with
    | error c =>
      rw [hy] at cb
      obtain ⟨m, hm⟩ := cb
      simp [ca, hm, Impl.liftE, Spec.ofExcept, R]
    | ok y =>
      rw [hy] at cb
      simpa [ca, cb, Impl.liftE, Spec.ofExcept] using hp x y hx hy

theorem R_num {N : Type} [NumOps N] (x : N) (h : Finite x) :
    R (.ok (Impl.mkNum x)) (Spec.mkNum x) := by
  simp [Impl.mkNum, Spec.mkNum, h.1, h.2, R, toImpl]

/-- a number operand of `&` whose `%g` spelling is Excel's General spelling (otherwise:
known finding `concat:number-format`, e.g. 1000000 → "1e+06") -/
def PlainNum {N : Type} [NumOps N] : Spec.Val N → Prop
  | .num x => fmtG x = fmtGeneral x
  | _ => True

theorem text_agree {N : Type} [NumOps N] (C : LawfulCmp N) (v : Spec.Val N) (hv : NotErr v)
    (hp : PlainNum v) : Spec.toText v = .ok (Impl.value (toImpl v)) := by
  cases v with
  | err c => exact absurd hv (by simp [NotErr])
  | num x => simp [Spec.toText, toImpl, Impl.value, show fmtG x = fmtGeneral x from hp]
  | bool b => simp [Spec.toText, toImpl, Impl.mkBool, value_b2n C]
  | text s => simp [Spec.toText, toImpl, Impl.value]
  | blank => simp [Spec.toText, toImpl, Impl.value]

/-- the operator × operand combinations on which the current code implements Excel's semantics.
Everything outside is one of the listed findings:
arithmetic — an error operand is handled by propagation (not here), the empty text literal
(`finding_empty_text`), a NaN or ±Inf result (`numerr-swallowed`, `overflow-inf`), `0^0` and
`0^negative` (`pow:zero-base`); `&` — a number whose `%g` spelling is not Excel's
(`concat:number-format`); comparisons — see `CompatOrd`, `CompatEq`. -/
def Compatible {N : Type} [NumOps N] (op : Op) (a b : Spec.Val N) : Prop :=
  match op with
  | .add => ArithOperands a b ∧ ∀ x y, Spec.toNum a = .ok x → Spec.toNum b = .ok y → Finite (add x y)
  | .sub => ArithOperands a b ∧ ∀ x y, Spec.toNum a = .ok x → Spec.toNum b = .ok y → Finite (sub x y)
  | .mul => ArithOperands a b ∧ ∀ x y, Spec.toNum a = .ok x → Spec.toNum b = .ok y → Finite (mul x y)
  | .div => ArithOperands a b ∧
      ∀ x y, Spec.toNum a = .ok x → Spec.toNum b = .ok y → isZero y = false → Finite (div x y)
  | .pow => ArithOperands a b ∧
      ∀ x y, Spec.toNum a = .ok x → Spec.toNum b = .ok y →
        (isZero x = true → isZero y = false ∧ lt y zero = false) → Finite (pow x y)
  | .concat => NotErr a ∧ NotErr b ∧ PlainNum a ∧ PlainNum b
  | .lt => CompatOrd a b
  | .le => CompatOrd a b
  | .gt => CompatOrd a b
  | .ge => CompatOrd a b
  | .eq => CompatEq a b
  | .ne => CompatEq a b

/-- clause "with Excel's … coercion rules", per operator × operand-kind pair, all twelve
operators: on every compatible combination excelize's `calculate` produces exactly Excel's
value (same number, same text, same boolean) and an error exactly where Excel has one
(`#VALUE!` for non-numeric text in arithmetic, `#DIV/0!`). -/
theorem binop_agree {N : Type} [NumOps N] (L : Lawful N) (C : LawfulCmp N) (op : Op)
    (a b : Spec.Val N) (h : Compatible op a b) :
    R (Impl.applyBin op (toImpl a) (toImpl b)) (Spec.binop op a b) := by
  have cmpR : ∀ (hA : Agree (Impl.applyBin op (toImpl a) (toImpl b)) (Spec.binop op a b))
      (q : Bool) (hq : Spec.binop op a b = .bool q),
      R (Impl.applyBin op (toImpl a) (toImpl b)) (Spec.binop op a b) := by
    intro hA q hq
    refine R_of_agree _ _ hA (by rw [hq]; simp) ?_
    intro m hm
    rw [hm, hq] at hA
    simp [Agree] at hA
  have cmpBool : ∀ f, NotErr a → NotErr b → Spec.compare f a b = .bool (f (Spec.cmp a b)) := by
    intro f ha hb
    cases a <;> cases b <;> simp_all [Spec.compare, NotErr]
  cases op
  case add =>
    obtain ⟨ho, hf⟩ := h
    exact arith_R_generic L .add a b (fun x y => pure (Impl.mkNum (add x y))) (fun x y => Spec.mkNum (add x y))
      (applyBin_arith_shape .add add rfl _ _ (blank0_toImpl_ne_err L a ho.1) (blank0_toImpl_ne_err L b ho.2.1))
      rfl ho (fun x y hx hy => R_num _ (hf x y hx hy))
  case sub =>
    obtain ⟨ho, hf⟩ := h
    exact arith_R_generic L .sub a b (fun x y => pure (Impl.mkNum (sub x y))) (fun x y => Spec.mkNum (sub x y))
      (applyBin_arith_shape .sub sub rfl _ _ (blank0_toImpl_ne_err L a ho.1) (blank0_toImpl_ne_err L b ho.2.1))
      rfl ho (fun x y hx hy => R_num _ (hf x y hx hy))
  case mul =>
    obtain ⟨ho, hf⟩ := h
    exact arith_R_generic L .mul a b (fun x y => pure (Impl.mkNum (mul x y))) (fun x y => Spec.mkNum (mul x y))
      (applyBin_arith_shape .mul mul rfl _ _ (blank0_toImpl_ne_err L a ho.1) (blank0_toImpl_ne_err L b ho.2.1))
      rfl ho (fun x y hx hy => R_num _ (hf x y hx hy))
  case div =>
    obtain ⟨ho, hf⟩ := h
    refine arith_R_generic L .div a b
      (fun x y => if isZero y then .error (.msg (.lit formulaErrorDIV)) else pure (Impl.mkNum (div x y)))
      (fun x y => if isZero y then .err .div0 else Spec.mkNum (div x y))
      (Impl.applyBin_div_shape _ _ (blank0_toImpl_ne_err L a ho.1) (blank0_toImpl_ne_err L b ho.2.1))
      rfl ho ?_
    intro x y hx hy
    cases hz : isZero y
    · simpa [hz] using R_num _ (hf x y hx hy hz)
    · simp [hz, R]
  case pow =>
    obtain ⟨ho, hf⟩ := h
    refine arith_R_generic L .pow a b Impl.powRes Spec.powSpec
      (Impl.applyBin_pow_shape _ _ (blank0_toImpl_ne_err L a ho.1) (blank0_toImpl_ne_err L b ho.2.1))
      rfl ho ?_
    intro x y hx hy
    have hfin := hf x y hx hy
    unfold Impl.powRes Spec.powSpec
    cases hzx : isZero x
    · simpa [hzx] using R_num _ (hfin (by simp [hzx]))
    · cases hzy : isZero y
      · cases hl : lt y zero
        · simpa [hzx, hzy, hl] using R_num _ (hfin (fun _ => ⟨hzy, hl⟩))
        · simp [hzx, hzy, hl, R]
      · simp [hzx, hzy, R]
  case concat =>
    obtain ⟨ha, hb, pa, pb⟩ := h
    have na : ∀ m, toImpl a ≠ .err m := by cases a <;> simp_all [toImpl, NotErr, Impl.mkBool]
    have nb : ∀ m, toImpl b ≠ .err m := by cases b <;> simp_all [toImpl, NotErr, Impl.mkBool]
    rw [Impl.applyBin_concat_shape _ _ na nb]
    simp [Spec.binop, text_agree C a ha pa, text_agree C b hb pb, Spec.ofExcept, R, toImpl]
  case lt =>
    have hn := compatOrd_notErr a b h
    exact cmpR (ord_agree L C .lt (Or.inl rfl) a b h) _ (show Spec.binop .lt a b = _ from cmpBool (· == .lt) hn.1 hn.2)
  case le =>
    have hn := compatOrd_notErr a b h
    exact cmpR (ord_agree L C .le (Or.inr (Or.inl rfl)) a b h) _ (show Spec.binop .le a b = _ from cmpBool (· != .gt) hn.1 hn.2)
  case gt =>
    have hn := compatOrd_notErr a b h
    exact cmpR (ord_agree L C .gt (Or.inr (Or.inr (Or.inl rfl))) a b h) _ (show Spec.binop .gt a b = _ from cmpBool (· == .gt) hn.1 hn.2)
  case ge =>
    have hn := compatOrd_notErr a b h
    exact cmpR (ord_agree L C .ge (Or.inr (Or.inr (Or.inr rfl))) a b h) _ (show Spec.binop .ge a b = _ from cmpBool (· != .lt) hn.1 hn.2)
  case eq =>
    have hn := compatEq_notErr a b h
    exact cmpR (eq_agree L C .eq (Or.inl rfl) a b h) _ (show Spec.binop .eq a b = _ from cmpBool (· == .eq) hn.1 hn.2)
  case ne =>
    have hn := compatEq_notErr a b h
    exact cmpR (eq_agree L C .ne (Or.inr rfl) a b h) _ (show Spec.binop .ne a b = _ from cmpBool (· != .eq) hn.1 hn.2)

/-! ### the whole tree -/

def IsErr {N : Type} : Spec.Val N → Prop
  | .err _ => True
  | _ => False

def b2n {N : Type} [NumOps N] (b : Bool) : N := if b then one else zero

/-- operands on which a unary arithmetic operator (prefix minus, postfix %) is Excel's: every
number, boolean, blank and non-empty text (non-numeric text is `#VALUE!` on both sides since the
second fix window), with a finite result; an error propagates -/
def UnaryOK {N : Type} [NumOps N] (f : N → N) : Spec.Val N → Prop
  | .err _ => True
  | a => a ≠ .text [] ∧ Clean a ∧ ∀ x, Spec.toNum a = .ok x → Finite (f x)

def NegOK {N : Type} [NumOps N] (a : Spec.Val N) : Prop := UnaryOK (fun x : N => sub zero x) a
def PctOK {N : Type} [NumOps N] (a : Spec.Val N) : Prop := UnaryOK (fun x : N => div x (ofNat 100)) a

/-- the two cell environments describe the same workbook: every referenced cell is known to both
or to neither, holds no error value (`ref:error-not-propagated`), and reaches `calculate` as
`toImpl` of its Excel value -/
def EnvRel {N : Type} [NumOps N] (envI : Str → Option (Impl.CellArg N)) (envS : Str → Option (Spec.Val N)) : Prop :=
  ∀ k, match envS k, envI k with
    | none, none => True
    | some a, some c => NotErr a ∧ Impl.tokenToArg (Impl.argToTok c) = toImpl a
    | _, _ => False

/-- no node of the tree is one of the listed deviant (operator, operand-kind) combinations -/
def NoDeviant {N : Type} [NumOps N] (envS : Str → Option (Spec.Val N)) : Expr → Prop
  | .num raw => ∃ x : N, parse raw = some x ∧ isNaN x = false ∧ isInf x = false
  | .text _ => True
  | .logical _ => True
  | .ref _ => True
  | .paren e => NoDeviant envS e
  | .call _ _ => False   -- aggregate calls: see `aggregate_fold*` and the `agg:*` findings
  | .neg e => NoDeviant envS e ∧ (∀ e', e ≠ .neg e') ∧ NegOK (Spec.eval envS e)
  | .pct e => NoDeviant envS e ∧ PctOK (Spec.eval envS e)
  | .bin op l r => NoDeviant envS l ∧ NoDeviant envS r ∧
      (IsErr (Spec.eval envS l) ∨ IsErr (Spec.eval envS r) ∨
        Compatible op (Spec.eval envS l) (Spec.eval envS r))

theorem R_ok {N : Type} [NumOps N] (r : Except Impl.MErr (Impl.Arg N)) (a : Spec.Val N) (h : ¬ IsErr a) :
    R r a ↔ r = .ok (toImpl a) := by
  cases a <;> simp_all [R, IsErr]

theorem R_err {N : Type} [NumOps N] (r : Except Impl.MErr (Impl.Arg N)) (a : Spec.Val N) (h : IsErr a) :
    R r a ↔ ∃ m, r = .error m := by
  cases a <;> simp_all [R, IsErr]

theorem spec_binop_err {N : Type} [NumOps N] (op : Op) (a b : Spec.Val N) (h : IsErr a ∨ IsErr b) :
    IsErr (Spec.binop op a b) := by
  cases op <;> cases a <;> cases b <;>
    simp_all [IsErr, Spec.binop, Spec.arith, Spec.operandErr, Spec.compare, Spec.ofExcept, Spec.toText]

theorem spec_neg_err {N : Type} [NumOps N] (a : Spec.Val N) (h : IsErr a) : IsErr (Spec.neg a) := by
  cases a <;> simp_all [IsErr, Spec.neg, Spec.toNum, Spec.ofExcept]

theorem spec_pct_err {N : Type} [NumOps N] (a : Spec.Val N) (h : IsErr a) : IsErr (Spec.pct a) := by
  cases a <;> simp_all [IsErr, Spec.pct, Spec.toNum, Spec.ofExcept]

theorem unary_R {N : Type} [NumOps N] (L : Lawful N) (f : N → N) (a : Spec.Val N)
    (hn : ¬ IsErr a) (h : UnaryOK f a) :
    R (Impl.unaryNum f (toImpl a)) (Spec.ofExcept (do let x ← Spec.toNum a; pure (Spec.mkNum (f x)))) := by
  have hne : NotErr a := by cases a <;> simp_all [IsErr, NotErr]
  have h' : a ≠ .text [] ∧ Clean a ∧ ∀ x, Spec.toNum a = .ok x → Finite (f x) := by
    cases a <;> simp_all [UnaryOK, IsErr]
  have ca := coerce_agree L a hne h'.1 h'.2.1
  have na := blank0_toImpl_ne_err L a hne
  have shape : Impl.unaryNum f (toImpl a) =
      (do let x ← Impl.liftE (Impl.toNumber (Impl.blank0 (toImpl a))); pure (Impl.mkNum (f x))) := by
    unfold Impl.unaryNum
    generalize Impl.blank0 (toImpl a) = a' at na ⊢
    cases a' <;> simp_all
  rw [shape]
  cases hx : Spec.toNum a with
  | error c =>
    rw [hx] at ca
    obtain ⟨m, hm⟩ := ca
    simp [hm, Impl.liftE, Spec.ofExcept, R]
  | ok x =>
    rw [hx] at ca
    simpa [ca, Impl.liftE, Spec.ofExcept] using R_num _ (h'.2.2 x hx)

theorem neg_R {N : Type} [NumOps N] (L : Lawful N) (a : Spec.Val N) (hn : ¬ IsErr a) (h : NegOK a) :
    R (Impl.negate (toImpl a)) (Spec.neg a) := unary_R L _ a hn h

theorem pct_R {N : Type} [NumOps N] (L : Lawful N) (a : Spec.Val N) (hn : ¬ IsErr a) (h : PctOK a) :
    R (Impl.percent (toImpl a)) (Spec.pct a) := by
  have hd : percentDivisor = 100 := by decide
  have := unary_R L (fun x : N => div x (ofNat 100)) a hn h
  simpa [Impl.percent, hd, Spec.pct] using this

/-- the structural evaluator agrees with Excel on every tree without deviant nodes -/
theorem tree_agree {N : Type} [NumOps N] (L : Lawful N) (C : LawfulCmp N)
    (hpn : (parse ([] : Str) : Option N) = none)
    (envI : Str → Option (Impl.CellArg N)) (envS : Str → Option (Spec.Val N)) (hE : EnvRel envI envS)
    (e : Expr) (hN : NoDeviant envS e) :
    R (Impl.evalTree envI e) (Spec.eval envS e) := by
  induction e with
  | num raw =>
    obtain ⟨x, hp, hn, hi⟩ := hN
    simp [Impl.evalTree, Impl.tokenToArg, Spec.eval, hp, Impl.mkNum, hn, hi, R, toImpl]
  | text s => simp [Impl.evalTree, Impl.tokenToArg, Spec.eval, R, toImpl, Tok.tvalue]
  | logical raw => simp [Impl.evalTree, Impl.tokenToArg, Spec.eval, R, toImpl]
  | ref k =>
    have hk := hE k
    simp only [Impl.evalTree, Spec.eval]
    cases hs : envS k with
    | none =>
      cases hi : envI k with
      | none => simp [R]
      | some c => simp [hs, hi] at hk
    | some a =>
      cases hi : envI k with
      | none => simp [hs, hi] at hk
      | some c =>
        simp only [hs, hi] at hk
        have hne : ¬ IsErr a := by
          have := hk.1
          cases a <;> simp_all [IsErr, NotErr]
        exact (R_ok _ a hne).mpr (by rw [← hk.2]; rfl)
  | paren e ih => exact ih hN
  | call n a => exact absurd hN (by simp [NoDeviant])
  | neg e ih =>
    obtain ⟨h1, hnn, h3⟩ := hN
    have ihe := ih h1
    rw [Impl.evalTree_neg envI e hnn]
    show R _ (Spec.neg (Spec.eval envS e))
    by_cases he : IsErr (Spec.eval envS e)
    · obtain ⟨m, hm⟩ := (R_err _ _ he).mp ihe
      rw [hm]
      exact (R_err _ _ (spec_neg_err _ he)).mpr ⟨m, rfl⟩
    · rw [(R_ok _ _ he).mp ihe]
      exact neg_R L _ he h3
  | pct e ih =>
    obtain ⟨h1, h3⟩ := hN
    have ihe := ih h1
    rw [Impl.evalTree_pct]
    show R _ (Spec.pct (Spec.eval envS e))
    by_cases he : IsErr (Spec.eval envS e)
    · obtain ⟨m, hm⟩ := (R_err _ _ he).mp ihe
      rw [hm]
      exact (R_err _ _ (spec_pct_err _ he)).mpr ⟨m, rfl⟩
    · rw [(R_ok _ _ he).mp ihe]
      exact pct_R L _ he h3
  | bin op l r ihl ihr =>
    obtain ⟨hl, hr, hc⟩ := hN
    have il := ihl hl
    have ir := ihr hr
    rw [Impl.evalTree_bin]
    show R _ (Spec.binop op (Spec.eval envS l) (Spec.eval envS r))
    by_cases hel : IsErr (Spec.eval envS l)
    · obtain ⟨m, hm⟩ := (R_err _ _ hel).mp il
      rw [hm]
      exact (R_err _ _ (spec_binop_err op _ _ (Or.inl hel))).mpr ⟨m, rfl⟩
    · rw [(R_ok _ _ hel).mp il]
      by_cases her : IsErr (Spec.eval envS r)
      · obtain ⟨m, hm⟩ := (R_err _ _ her).mp ir
        rw [hm]
        exact (R_err _ _ (spec_binop_err op _ _ (Or.inr her))).mpr ⟨m, rfl⟩
      · rw [(R_ok _ _ her).mp ir]
        rcases hc with h | h | h
        · exact absurd h hel
        · exact absurd h her
        · exact binop_agree L C op _ _ h

/-- clause "CalcCellValue evaluates expressions … with Excel's precedence, associativity and
coercion rules, so its result equals that of an independent reference evaluator": ONE statement
for whole formulas.  For every expression tree of any depth none of whose nodes is one of the
listed deviant (operator, operand-kind) combinations (`NoDeviant`: `Compatible` at every binary
node, `NegOK` / `PctOK` at unary nodes, no directly nested `--`), over two descriptions of the
same workbook (`EnvRel`), the token machine of `evalInfixExp` run on the formula's tokens yields
exactly Excel's value — the same number, text or boolean — and aborts with an error exactly
when Excel's value is an error, which then propagates through every enclosing operator.
It composes `shunting_yard_correct` with `binop_agree` by induction on the tree.
Partial: the excluded combinations are the open findings. -/
theorem calc_correct_partial {N : Type} [NumOps N] (L : Lawful N) (C : LawfulCmp N)
    (hpn : (parse ([] : Str) : Option N) = none)
    (envI : Str → Option (Impl.CellArg N)) (envS : Str → Option (Spec.Val N)) (hE : EnvRel envI envS)
    (e : Expr) (hN : NoDeviant envS e) :
    R (Impl.evalTokens envI (render 1 e)) (Spec.eval envS e) := by
  rw [shunting_yard_correct]
  exact tree_agree L C hpn envI envS hE e hN

/-- non-vacuity of `calc_correct_partial`: all hypotheses hold on the integer instance for the
formula `1+2*3<10` (empty workbook), whose value is TRUE on both sides -/
theorem calc_correct_nonvacuous :
    let e : Expr := .bin .lt (.bin .add (.num [49]) (.bin .mul (.num [50]) (.num [51]))) (.num [49, 48])
    NoDeviant (N := Int) (fun _ => none) e ∧
    EnvRel (N := Int) (fun _ => none) (fun _ => none) ∧
    Impl.evalTokens (N := Int) (fun _ => none) (render 1 e) = .ok (.num 1 true) ∧
    Spec.eval (N := Int) (fun _ => none) e = .bool true := by
  have hfin : ∀ z : Int, Finite z := fun _ => ⟨rfl, rfl⟩
  refine ⟨?_, fun _ => trivial, by decide +kernel, by decide +kernel⟩
  have e1 : Spec.eval (N := Int) (fun _ => none) (.num [49]) = .num 1 := by decide +kernel
  have e2 : Spec.eval (N := Int) (fun _ => none) (.num [50]) = .num 2 := by decide +kernel
  have e3 : Spec.eval (N := Int) (fun _ => none) (.num [51]) = .num 3 := by decide +kernel
  have e10 : Spec.eval (N := Int) (fun _ => none) (.num [49, 48]) = .num 10 := by decide +kernel
  have em : Spec.eval (N := Int) (fun _ => none) (.bin .mul (.num [50]) (.num [51])) = .num 6 := by
    decide +kernel
  have ea : Spec.eval (N := Int) (fun _ => none)
      (.bin .add (.num [49]) (.bin .mul (.num [50]) (.num [51]))) = .num 7 := by decide +kernel
  have ao : ∀ x y : Int, ArithOperands (.num x : Spec.Val Int) (.num y) :=
    fun x y => ⟨trivial, trivial, by simp, by simp, ⟨rfl, rfl⟩, ⟨rfl, rfl⟩⟩
  refine ⟨⟨⟨1, by decide +kernel, rfl, rfl⟩, ⟨⟨2, by decide +kernel, rfl, rfl⟩, ⟨3, by decide +kernel, rfl, rfl⟩, ?_⟩, ?_⟩,
    ⟨10, by decide +kernel, rfl, rfl⟩, ?_⟩
  · rw [e2, e3]; exact Or.inr (Or.inr ⟨ao 2 3, fun _ _ _ _ => hfin _⟩)
  · rw [e1, em]; exact Or.inr (Or.inr ⟨ao 1 6, fun _ _ _ _ => hfin _⟩)
  · rw [ea, e10]; exact Or.inr (Or.inr ⟨rfl, rfl⟩)

/-! ### the executable mirror used by the driver is sound -/

theorem mirror_arithOperands {N : Type} [NumOps N] (a b : Spec.Val N)
    (h : Check.arithOperands a b = true) : ArithOperands a b := by
  simp only [Check.arithOperands, Bool.and_eq_true, Bool.not_eq_true'] at h
  obtain ⟨⟨⟨⟨⟨h1, h2⟩, h3⟩, h4⟩, h5⟩, h6⟩ := h
  have cl : ∀ v : Spec.Val N, Check.cleanB v = true → Clean v := by
    intro v hv
    cases v with
    | num x => simpa [Check.cleanB, Clean] using hv
    | text s =>
      simp only [Clean]
      intro x hx
      simpa [Check.cleanB, hx] using hv
    | _ => simp [Clean]
  refine ⟨?_, ?_, ?_, ?_, cl a h5, cl b h6⟩
  · cases a <;> simp_all [Check.isErr, NotErr]
  · cases b <;> simp_all [Check.isErr, NotErr]
  · intro e; subst e; simp [Check.emptyText] at h3
  · intro e; subst e; simp [Check.emptyText] at h4

theorem mirror_both {N : Type} [NumOps N] (a b : Spec.Val N) (f : N → N → Bool)
    (h : Check.both a b f = true) (x y : N) (hx : Spec.toNum a = .ok x) (hy : Spec.toNum b = .ok y) :
    f x y = true := by
  simpa [Check.both, hx, hy] using h

theorem mirror_finite {N : Type} [NumOps N] (x : N) (h : Check.finite x = true) : Finite x := by
  simpa [Check.finite, Finite] using h

theorem mirror_compatOrd {N : Type} [NumOps N] (a b : Spec.Val N) (h : Check.compatOrd a b = true) :
    CompatOrd a b := by
  cases a <;> cases b <;> simp_all [Check.compatOrd, CompatOrd]

theorem mirror_compatEq {N : Type} [NumOps N] (a b : Spec.Val N) (h : Check.compatEq a b = true) :
    CompatEq a b := by
  cases a <;> cases b <;> simp_all [Check.compatEq, CompatEq]

/-- the Boolean test the driver runs on every transcript line implies the hypothesis
`Compatible` of `binop_agree` -/
theorem mirror_compatible {N : Type} [NumOps N] (op : Op) (a b : Spec.Val N)
    (h : Check.compatible op a b = true) : Compatible op a b := by
  cases op <;> simp only [Check.compatible, Bool.and_eq_true] at h <;> simp only [Compatible]
  case add => exact ⟨mirror_arithOperands a b h.1, fun x y hx hy => mirror_finite _ (mirror_both a b _ h.2 x y hx hy)⟩
  case sub => exact ⟨mirror_arithOperands a b h.1, fun x y hx hy => mirror_finite _ (mirror_both a b _ h.2 x y hx hy)⟩
  case mul => exact ⟨mirror_arithOperands a b h.1, fun x y hx hy => mirror_finite _ (mirror_both a b _ h.2 x y hx hy)⟩
  case div =>
    refine ⟨mirror_arithOperands a b h.1, fun x y hx hy hz => mirror_finite _ ?_⟩
    have := mirror_both a b _ h.2 x y hx hy
    simpa [hz] using this
  case pow =>
    refine ⟨mirror_arithOperands a b h.1, fun x y hx hy hz => mirror_finite _ ?_⟩
    have := mirror_both a b _ h.2 x y hx hy
    simp only [Bool.or_eq_true, Bool.not_eq_true', Bool.and_eq_true, Bool.not_eq_false'] at this
    rcases this with h1 | h1
    · by_cases hzx : isZero x = true
      · have := hz hzx
        simp_all
      · simp_all
    · exact h1
  case concat =>
    obtain ⟨⟨⟨h1, h2⟩, h3⟩, h4⟩ := h
    have pl : ∀ v : Spec.Val N, Check.plainNum v = true → PlainNum v := by
      intro v hv; cases v <;> simp_all [Check.plainNum, PlainNum]
    refine ⟨?_, ?_, pl a h3, pl b h4⟩
    · cases a <;> simp_all [Check.isErr, NotErr]
    · cases b <;> simp_all [Check.isErr, NotErr]
  case lt => exact mirror_compatOrd a b h
  case le => exact mirror_compatOrd a b h
  case gt => exact mirror_compatOrd a b h
  case ge => exact mirror_compatOrd a b h
  case eq => exact mirror_compatEq a b h
  case ne => exact mirror_compatEq a b h

theorem mirror_unaryOK {N : Type} [NumOps N] (f : N → N) (a : Spec.Val N)
    (h : Check.unaryOK f a = true) : UnaryOK f a := by
  have cl : ∀ v : Spec.Val N, Check.cleanB v = true → Clean v := by
    intro v hv
    cases v with
    | num x => simpa [Check.cleanB, Clean] using hv
    | text s =>
      simp only [Clean]
      intro x hx
      simpa [Check.cleanB, hx] using hv
    | _ => simp [Clean]
  cases a with
  | err c => trivial
  | num x =>
    simp only [Check.unaryOK, Bool.and_eq_true, Bool.not_eq_true'] at h
    refine ⟨by simp, cl _ h.1.2, fun y hy => mirror_finite _ ?_⟩
    simpa [hy] using h.2
  | bool b =>
    simp only [Check.unaryOK, Bool.and_eq_true, Bool.not_eq_true'] at h
    refine ⟨by simp, cl _ h.1.2, fun y hy => mirror_finite _ ?_⟩
    simpa [hy] using h.2
  | blank =>
    simp only [Check.unaryOK, Bool.and_eq_true, Bool.not_eq_true'] at h
    refine ⟨by simp, cl _ h.1.2, fun y hy => mirror_finite _ ?_⟩
    simpa [hy] using h.2
  | text s =>
    simp only [Check.unaryOK, Bool.and_eq_true, Bool.not_eq_true'] at h
    refine ⟨?_, cl _ h.1.2, fun y hy => mirror_finite _ ?_⟩
    · intro e
      have : s = [] := by simpa using e
      subst this
      simp [Check.emptyText] at h
    · simpa [hy] using h.2

theorem mirror_negOK {N : Type} [NumOps N] (a : Spec.Val N) (h : Check.negOK a = true) : NegOK a :=
  mirror_unaryOK _ a h

theorem mirror_pctOK {N : Type} [NumOps N] (a : Spec.Val N) (h : Check.pctOK a = true) : PctOK a :=
  mirror_unaryOK _ a h

theorem mirror_isErr {N : Type} (a : Spec.Val N) (h : Check.isErr a = true) : IsErr a := by
  cases a <;> simp_all [Check.isErr, IsErr]

/-- the Boolean test the driver runs on every transcript line (`Check.noDeviant`) implies the
hypothesis `NoDeviant` of `calc_correct_partial`: the lines on which the driver checks the
theorem's conclusion against the real implementation are instances of the theorem -/
theorem mirror_noDeviant {N : Type} [NumOps N] (envS : Str → Option (Spec.Val N)) (rk : Str → Bool)
    (e : Expr) (h : Check.noDeviant envS rk e = true) : NoDeviant envS e := by
  induction e with
  | num raw =>
    simp only [Check.noDeviant] at h
    cases hp : (parse raw : Option N) with
    | none => simp [hp] at h
    | some x =>
      have : isNaN x = false ∧ isInf x = false := by simpa [hp] using h
      exact ⟨x, hp, this.1, this.2⟩
  | text s => trivial
  | logical raw => trivial
  | ref k => trivial
  | paren e ih => exact ih h
  | call n a => simp [Check.noDeviant] at h
  | neg e ih =>
    simp only [Check.noDeviant, Bool.and_eq_true, Bool.not_eq_true'] at h
    refine ⟨ih h.1.1, ?_, mirror_negOK _ h.2⟩
    intro e' he
    subst he
    simp [Check.isNeg] at h
  | pct e ih =>
    simp only [Check.noDeviant, Bool.and_eq_true] at h
    exact ⟨ih h.1, mirror_pctOK _ h.2⟩
  | bin op l r ihl ihr =>
    simp only [Check.noDeviant, Bool.and_eq_true, Bool.or_eq_true] at h
    refine ⟨ihl h.1.1, ihr h.1.2, ?_⟩
    rcases h.2 with (h1 | h1) | h1
    · exact Or.inl (mirror_isErr _ h1)
    · exact Or.inr (Or.inl (mirror_isErr _ h1))
    · exact Or.inr (Or.inr (mirror_compatible op _ _ h1))

/-! ## aggregates over ranges -/

/-- how a referenced cell reaches the aggregate functions (`cellResolver`; a formula cell whose
evaluation fails arrives as an empty argument) -/
def toCell {N : Type} [NumOps N] : Spec.Val N → Impl.CellArg N
  | .num x => .num x false
  | .bool b => .num (if b then one else zero) true
  | .text s => .str s
  | .blank => .empty
  | .err _ => .empty

theorem firstErr_none {N : Type} (cells : List (Spec.Val N)) (h : ∀ v ∈ cells, NotErr v) :
    Spec.firstErr cells = none := by
  induction cells with
  | nil => rfl
  | cons v rest ih =>
    have hv := h v (by simp)
    have hr := ih (fun u hu => h u (by simp [hu]))
    cases v <;> simp_all [Spec.firstErr, NotErr]

theorem maxStep_fold {N : Type} [NumOps N] (cells : List (Spec.Val N)) (m : N) :
    (cells.map toCell).foldl Impl.maxStep m =
      (Spec.numbers cells).foldl (fun m y => if lt m y then y else m) m := by
  induction cells generalizing m with
  | nil => rfl
  | cons v rest ih =>
    cases v <;> simp [toCell, Impl.maxStep, Spec.numbers, ih]

theorem minStep_fold {N : Type} [NumOps N] (cells : List (Spec.Val N)) (m : N) :
    (cells.map toCell).foldl Impl.minStep m =
      (Spec.numbers cells).foldl (fun m y => if lt y m then y else m) m := by
  induction cells generalizing m with
  | nil => rfl
  | cons v rest ih =>
    cases v <;> simp [toCell, Impl.minStep, Spec.numbers, ih]

theorem sel_mem {N : Type} (f : N → N → Bool) (x : N) (xs : List N) :
    xs.foldl (fun m y => if f m y then y else m) x ∈ x :: xs := by
  induction xs generalizing x with
  | nil => simp
  | cons y ys ih =>
    simp only [List.foldl]
    by_cases h : f x y
    · simp only [h, if_true]
      have := ih y
      simp only [List.mem_cons] at this ⊢
      rcases this with h1 | h1
      · exact Or.inr (Or.inl h1)
      · exact Or.inr (Or.inr h1)
    · simp only [h]
      have := ih x
      simp only [List.mem_cons] at this ⊢
      rcases this with h1 | h1
      · exact Or.inl h1
      · exact Or.inr (Or.inr h1)

/-- clause "MAX over arbitrary ranges equals the fold over the referenced cells; text, booleans
and blanks inside the range are ignored": for every list of referenced cells without error
values, whatever text / numeric text / booleans / blanks it contains, `MAX` is 0 when there is
no number and otherwise the maximum of the numbers alone — on both sides.  The hypotheses say
that every number is above the sentinel −MaxFloat64 and is not a NaN, plus two order laws. -/
theorem aggregate_fold_max {N : Type} [NumOps N] (L : Lawful N) (cells : List (Spec.Val N))
    (hne : ∀ v ∈ cells, NotErr v)
    (hs : ∀ x ∈ Spec.numbers cells, lt (sub zero maxFloat) x = true ∧ isNaN x = false ∧ isInf x = false)
    (hlt : ∀ a b : N, lt a b = true → eq b a = false)
    (heq : eq (sub zero (maxFloat : N)) (sub zero maxFloat) = true) :
    let v : N := match Spec.numbers cells with
      | [] => zero
      | x :: xs => Spec.maxOf x xs
    Impl.aggregate .max (cells.map toCell) = .ok (.num v false) ∧
    Spec.aggregate .max cells = .num v := by
  simp only [Impl.aggregate, Spec.aggregate, firstErr_none cells hne, maxStep_fold]
  cases hn : Spec.numbers cells with
  | nil => simp [heq, Impl.mkNum, L.nan_zero, L.inf_zero]
  | cons x xs =>
    rw [hn] at hs
    have hx := hs x (by simp)
    simp only [List.foldl, hx.1, if_true]
    have hm : Spec.maxOf x xs ∈ x :: xs := sel_mem _ x xs
    have h1 := hs _ hm
    have h2 := hlt _ _ h1.1
    simp [Spec.maxOf] at h1 h2 ⊢
    simp [h2, Impl.mkNum, h1.2.1, h1.2.2]

/-- the same for MIN (sentinel +MaxFloat64) -/
theorem aggregate_fold_min {N : Type} [NumOps N] (L : Lawful N) (cells : List (Spec.Val N))
    (hne : ∀ v ∈ cells, NotErr v)
    (hs : ∀ x ∈ Spec.numbers cells, lt x maxFloat = true ∧ isNaN x = false ∧ isInf x = false)
    (hlt : ∀ a b : N, lt a b = true → eq a b = false)
    (heq : eq (maxFloat : N) maxFloat = true) :
    let v : N := match Spec.numbers cells with
      | [] => zero
      | x :: xs => Spec.minOf x xs
    Impl.aggregate .min (cells.map toCell) = .ok (.num v false) ∧
    Spec.aggregate .min cells = .num v := by
  simp only [Impl.aggregate, Spec.aggregate, firstErr_none cells hne, minStep_fold]
  cases hn : Spec.numbers cells with
  | nil => simp [heq, Impl.mkNum, L.nan_zero, L.inf_zero]
  | cons x xs =>
    rw [hn] at hs
    have hx := hs x (by simp)
    simp only [List.foldl, hx.1, if_true]
    have hm : Spec.minOf x xs ∈ x :: xs := sel_mem (fun m y => lt y m) x xs
    have h1 := hs _ hm
    have h2 := hlt _ _ h1.1
    simp [Spec.minOf] at h1 h2 ⊢
    simp [h2, Impl.mkNum, h1.2.1, h1.2.2]

theorem countStep_fold {N : Type} [NumOps N] (cells : List (Spec.Val N)) (n : Nat)
    (hb : ∀ b, Spec.Val.bool b ∉ cells) :
    (cells.map toCell).foldl Impl.countStep n = n + (Spec.numbers cells).length := by
  induction cells generalizing n with
  | nil => rfl
  | cons v rest ih =>
    have hr : ∀ b, Spec.Val.bool b ∉ rest := fun b h => hb b (by simp [h])
    cases v with
    | bool b => exact absurd (by simp) (hb b)
    | num x => simp [toCell, Impl.countStep, Spec.numbers, ih _ hr]; omega
    | _ => simp [toCell, Impl.countStep, Spec.numbers, ih _ hr]

/-- COUNT over a range without boolean cells counts exactly the numbers (text, numeric text,
blanks and errors are ignored on both sides); with a boolean cell: `finding_aggregates` -/
theorem aggregate_fold_count {N : Type} [NumOps N] (cells : List (Spec.Val N))
    (hb : ∀ b, Spec.Val.bool b ∉ cells) :
    Impl.aggregate .count (cells.map toCell) = .ok (Impl.mkNum (ofNat (Spec.numbers cells).length)) ∧
    Spec.aggregate .count cells = .num (ofNat (Spec.numbers cells).length) := by
  simp [Impl.aggregate, Spec.aggregate, countStep_fold cells 0 hb]

theorem productStep_fold {N : Type} [NumOps N] (cells : List (Spec.Val N)) (p : N)
    (hb : ∀ b, Spec.Val.bool b ∉ cells) :
    (cells.map toCell).foldl Impl.productStep p = (Spec.numbers cells).foldl mul p := by
  induction cells generalizing p with
  | nil => rfl
  | cons v rest ih =>
    have hr : ∀ b, Spec.Val.bool b ∉ rest := fun b h => hb b (by simp [h])
    cases v with
    | bool b => exact absurd (by simp) (hb b)
    | _ => simp [toCell, Impl.productStep, Spec.numbers, ih _ hr]

/-- PRODUCT over a range that holds at least one number, no boolean and no error cell is the
product of the numbers alone on both sides (partial: without numbers excelize gives 1, Excel 0;
booleans are multiplied in: `finding_aggregates`) -/
theorem aggregate_fold_product_partial {N : Type} [NumOps N] (cells : List (Spec.Val N))
    (hne : ∀ v ∈ cells, NotErr v) (hb : ∀ b, Spec.Val.bool b ∉ cells)
    (hn : Spec.numbers cells ≠ []) :
    Impl.aggregate .product (cells.map toCell) = .ok (Impl.mkNum ((Spec.numbers cells).foldl mul one)) ∧
    Spec.aggregate .product cells = Spec.mkNum ((Spec.numbers cells).foldl mul one) := by
  simp only [Impl.aggregate, Spec.aggregate, firstErr_none cells hne, productStep_fold cells one hb]
  cases h : Spec.numbers cells with
  | nil => exact absurd h hn
  | cons x xs => simp

theorem sumStep_fold {N : Type} [NumOps N] (cells : List (Spec.Val N)) (s : N)
    (hz : ∀ x : N, add x zero = x)
    (hb : ∀ b, Spec.Val.bool b ∉ cells)
    (ht : ∀ t, Spec.Val.text t ∈ cells → (parse t : Option N) = none)
    (hnan : ∀ x, Spec.Val.num x ∈ cells → isNaN x = false ∧ isInf x = false) :
    (cells.map toCell).foldl Impl.sumStep s = (Spec.numbers cells).foldl add s := by
  induction cells generalizing s with
  | nil => rfl
  | cons v rest ih =>
    have hr := fun s' => ih s' (fun b h => hb b (by simp [h])) (fun t h => ht t (by simp [h]))
      (fun x h => hnan x (by simp [h]))
    cases v with
    | bool b => exact absurd (by simp) (hb b)
    | num x => simp [toCell, Impl.sumStep, Spec.numbers, (hnan x (by simp)).1, (hnan x (by simp)).2, hr]
    | text t => simp [toCell, Impl.sumStep, Spec.numbers, ht t (by simp), hr]
    | blank => simp [toCell, Impl.sumStep, Spec.numbers, hz, hr]
    | err c => simp [toCell, Impl.sumStep, Spec.numbers, hz, hr]

/-- SUM over a range without boolean, numeric-text and error cells is the sum of the numbers
alone on both sides (partial: excelize adds numeric text and booleans: `finding_aggregates`);
`x + 0 = x` is the one law of the carrier used (blank cells are added as 0) -/
theorem aggregate_fold_sum_partial {N : Type} [NumOps N] (cells : List (Spec.Val N))
    (hz : ∀ x : N, add x zero = x)
    (hne : ∀ v ∈ cells, NotErr v) (hb : ∀ b, Spec.Val.bool b ∉ cells)
    (ht : ∀ t, Spec.Val.text t ∈ cells → (parse t : Option N) = none)
    (hnan : ∀ x, Spec.Val.num x ∈ cells → isNaN x = false ∧ isInf x = false) :
    Impl.aggregate .sum (cells.map toCell) = .ok (Impl.mkNum ((Spec.numbers cells).foldl add zero)) ∧
    Spec.aggregate .sum cells = Spec.mkNum ((Spec.numbers cells).foldl add zero) := by
  simp [Impl.aggregate, Spec.aggregate, firstErr_none cells hne, sumStep_fold cells zero hz hb ht hnan]

theorem avgStep_fold {N : Type} [NumOps N] (cells : List (Spec.Val N)) (c s : N)
    (hne : ∀ v ∈ cells, NotErr v)
    (ht : ∀ t, Spec.Val.text t ∈ cells → (parse t : Option N) = none) :
    (cells.map toCell).foldl Impl.avgStep (c, s) =
      ((Spec.numbers cells).foldl (fun c _ => add c one) c, (Spec.numbers cells).foldl add s) := by
  induction cells generalizing c s with
  | nil => rfl
  | cons v rest ih =>
    have hr := fun c' s' => ih c' s' (fun u hu => hne u (by simp [hu])) (fun t h => ht t (by simp [h]))
    cases v with
    | err e => exact absurd (hne (.err e) (by simp)) (by simp [NotErr])
    | num x => simp [toCell, Impl.avgStep, Spec.numbers, hr]
    | bool b => simp [toCell, Impl.avgStep, Spec.numbers, hr]
    | blank => simp [toCell, Impl.avgStep, Spec.numbers, hr]
    | text t =>
      have := ht t (by simp)
      by_cases h1 : t = sTRUE ∨ t = sFALSE
      · simp [toCell, Impl.avgStep, Spec.numbers, h1, hr]
      · simp [toCell, Impl.avgStep, Spec.numbers, h1, this, hr]

/-- AVERAGE over a range without error cells and without numeric text is the mean of the numbers
alone on both sides — booleans, blanks and other text are ignored — and `#DIV/0!` on both sides
when the range holds no number (partial: numeric text is counted by excelize:
`finding_aggregates`).  `hcnt`: counting the numbers by repeated `+1` does not give 0 (true for
doubles below 2^53 cells). -/
theorem aggregate_fold_average_partial {N : Type} [NumOps N] (C : LawfulCmp N) (cells : List (Spec.Val N))
    (hne : ∀ v ∈ cells, NotErr v)
    (ht : ∀ t, Spec.Val.text t ∈ cells → (parse t : Option N) = none)
    (hcnt : Spec.numbers cells ≠ [] →
      isZero ((Spec.numbers cells).foldl (fun c _ => add c one) (zero : N)) = false) :
    (Spec.numbers cells = [] →
      Impl.aggregate .average (cells.map toCell) = .error (.msg (.lit formulaErrorDIV)) ∧
      Spec.aggregate .average cells = .err .div0) ∧
    (Spec.numbers cells ≠ [] →
      Impl.aggregate .average (cells.map toCell) =
        .ok (Impl.mkNum (div ((Spec.numbers cells).foldl add zero)
          ((Spec.numbers cells).foldl (fun c _ => add c one) zero))) ∧
      Spec.aggregate .average cells =
        Spec.mkNum (div ((Spec.numbers cells).foldl add zero)
          ((Spec.numbers cells).foldl (fun c _ => add c one) zero))) := by
  constructor
  · intro h0
    simp [Impl.aggregate, Spec.aggregate, firstErr_none cells hne, avgStep_fold cells zero zero hne ht, h0,
      C.isZero_zero]
  · intro h1
    have := hcnt h1
    simp only [Impl.aggregate, Spec.aggregate, firstErr_none cells hne, avgStep_fold cells zero zero hne ht,
      this, Bool.false_eq_true, if_false]
    cases hn : Spec.numbers cells with
    | nil => exact absurd hn h1
    | cons x xs => simp

theorem countaStep_fold {N : Type} [NumOps N] (cells : List (Spec.Val N)) (n : Nat)
    (hne : ∀ v ∈ cells, NotErr v) (ht : Spec.Val.text [] ∉ cells) :
    (cells.map toCell).foldl Impl.countaStep n = n + Spec.nonBlank cells := by
  induction cells generalizing n with
  | nil => rfl
  | cons v rest ih =>
    have hr := fun n' => ih n' (fun u hu => hne u (by simp [hu])) (fun h => ht (by simp [h]))
    cases v with
    | err e => exact absurd (hne (.err e) (by simp)) (by simp [NotErr])
    | num x => simp [toCell, Impl.countaStep, Spec.nonBlank, hr]; omega
    | bool b => simp [toCell, Impl.countaStep, Spec.nonBlank, hr]; omega
    | blank => simp [toCell, Impl.countaStep, Spec.nonBlank, hr]
    | text t =>
      have : t ≠ [] := fun e => ht (by simp [e])
      simp [toCell, Impl.countaStep, Spec.nonBlank, this, hr]; omega

/-- COUNTA over a range without error cells and without empty-string results counts every
non-blank cell — numbers, booleans and text alike — on both sides (partial: an error cell and a
formula cell evaluating to "" are not counted by excelize: findings `agg:COUNTA:*`) -/
theorem aggregate_fold_counta_partial {N : Type} [NumOps N] (cells : List (Spec.Val N))
    (hne : ∀ v ∈ cells, NotErr v) (ht : Spec.Val.text [] ∉ cells) :
    Impl.aggregate .counta (cells.map toCell) = .ok (Impl.mkNum (ofNat (Spec.nonBlank cells))) ∧
    Spec.aggregate .counta cells = .num (ofNat (Spec.nonBlank cells)) := by
  simp [Impl.aggregate, Spec.aggregate, countaStep_fold cells 0 hne ht]

/-- clause "MIN, MAX … over arbitrary ranges equal the corresponding fold over the referenced
cells under Excel's rule that text, booleans and blanks inside a referenced range are ignored":
both at once (see `aggregate_fold_max`, `aggregate_fold_min`; COUNT, SUM, PRODUCT:
`aggregate_fold_count`, `aggregate_fold_sum_partial`, `aggregate_fold_product_partial`) -/
theorem aggregate_fold {N : Type} [NumOps N] (L : Lawful N) (cells : List (Spec.Val N))
    (hne : ∀ v ∈ cells, NotErr v)
    (hs : ∀ x ∈ Spec.numbers cells,
      lt (sub zero maxFloat) x = true ∧ lt x maxFloat = true ∧ isNaN x = false ∧ isInf x = false)
    (hlt : ∀ a b : N, lt a b = true → eq b a = false ∧ eq a b = false)
    (heq : eq (sub zero (maxFloat : N)) (sub zero maxFloat) = true ∧ eq (maxFloat : N) maxFloat = true) :
    (Impl.aggregate .max (cells.map toCell) = .ok (.num (match Spec.numbers cells with
        | [] => zero
        | x :: xs => Spec.maxOf x xs) false) ∧
     Spec.aggregate .max cells = .num (match Spec.numbers cells with
        | [] => zero
        | x :: xs => Spec.maxOf x xs)) ∧
    (Impl.aggregate .min (cells.map toCell) = .ok (.num (match Spec.numbers cells with
        | [] => zero
        | x :: xs => Spec.minOf x xs) false) ∧
     Spec.aggregate .min cells = .num (match Spec.numbers cells with
        | [] => zero
        | x :: xs => Spec.minOf x xs)) :=
  ⟨aggregate_fold_max L cells hne (fun x hx => ⟨(hs x hx).1, (hs x hx).2.2.1, (hs x hx).2.2.2⟩) (fun a b h => (hlt a b h).1) heq.1,
   aggregate_fold_min L cells hne (fun x hx => ⟨(hs x hx).2.1, (hs x hx).2.2.1, (hs x hx).2.2.2⟩) (fun a b h => (hlt a b h).2) heq.2⟩

/-- non-vacuity: the hypotheses of `aggregate_fold` hold on the integer instance for the range
`["7" "abc" -3]` (the shape of the seeded MAX change), where both sides give −3 -/
theorem aggregate_fold_nonvacuous :
    Impl.aggregate .max ([(.text [55] : Spec.Val Int), .text [97], .num (-3)].map toCell) = .ok (.num (-3) false) ∧
    Spec.aggregate .max [(.text [55] : Spec.Val Int), .text [97], .num (-3)] = .num (-3) := by
  have h := (aggregate_fold lawful_int [(.text [55] : Spec.Val Int), .text [97], .num (-3)]
    (by intro v hv; simp at hv; rcases hv with h | h | h <;> subst h <;> trivial)
    (by intro x hx; simp [Spec.numbers] at hx; subst hx; decide)
    (by
      intro a b h
      have h' : a < b := by simpa [NumOps.lt] using h
      constructor
      · show (b == a) = false
        simp; omega
      · show (a == b) = false
        simp; omega)
    (by decide)).1
  simpa [Spec.numbers, Spec.maxOf] using h

/-- the aggregate deviations of the current code, on the integer instance:
SUM adds numeric text and TRUE (`[5 "7"]` → 12, Excel 5; `[TRUE 0]` → 1, Excel 0), AVERAGE counts
numeric text (`[5 "7"]` → 6, Excel 5), COUNT counts booleans (`[TRUE 0]` → 2, Excel 1), PRODUCT
without numbers is 1 (Excel 0) and multiplies by FALSE (`[FALSE -3]` → 0, Excel −3), an error
cell is dropped instead of propagated (`[#DIV/0! 10]` → 10), while MAX ignores text next to
negative numbers (`["7" "abc" -3]` → −3 on both sides). -/
theorem finding_aggregates :
    let c : List (Spec.Val Int) → List (Impl.CellArg Int) := fun l => l.map toCell
    Impl.aggregate .sum (c [.num 5, .text [55]]) = .ok (.num 12 false) ∧
    Spec.aggregate .sum [(.num 5 : Spec.Val Int), .text [55]] = .num 5 ∧
    Impl.aggregate .sum (c [.bool true, .num 0]) = .ok (.num 1 false) ∧
    Spec.aggregate .sum [(.bool true : Spec.Val Int), .num 0] = .num 0 ∧
    Impl.aggregate .average (c [.num 5, .text [55]]) = .ok (.num 6 false) ∧
    Spec.aggregate .average [(.num 5 : Spec.Val Int), .text [55]] = .num 5 ∧
    Impl.aggregate .count (c [.bool true, .num 0]) = .ok (.num 2 false) ∧
    Spec.aggregate .count [(.bool true : Spec.Val Int), .num 0] = .num 1 ∧
    Impl.aggregate .product (c [.text [97]]) = .ok (.num 1 false) ∧
    Spec.aggregate .product [(.text [97] : Spec.Val Int)] = .num 0 ∧
    Impl.aggregate .product (c [.bool false, .num (-3)]) = .ok (.num 0 false) ∧
    Spec.aggregate .product [(.bool false : Spec.Val Int), .num (-3)] = .num (-3) ∧
    Impl.aggregate .sum (c [.err .div0, .num 10]) = .ok (.num 10 false) ∧
    Spec.aggregate .sum [(.err .div0 : Spec.Val Int), .num 10] = .err .div0 ∧
    Impl.aggregate .max (c [.text [55], .text [97], .num (-3)]) = .ok (.num (-3) false) ∧
    Spec.aggregate .max [(.text [55] : Spec.Val Int), .text [97], .num (-3)] = .num (-3) := by
  decide +kernel

/-! ## defined names -/

/-- no two definitions share name and scope with different targets (SetDefinedName rejects a
second definition of the same name at the same scope) -/
def FunctionalDefs (defs : List DefName) : Prop :=
  ∀ d1 ∈ defs, ∀ d2 ∈ defs, d1.name = d2.name → d1.scope = d2.scope → d1.refersTo = d2.refersTo

def NonEmptyRefs (defs : List DefName) : Prop := ∀ d ∈ defs, d.refersTo ≠ []

theorem scan_wb (n cur : Str) (defs : List DefName) (wb ws r : Str)
    (hf : ∀ d ∈ defs, d.name = n → d.scope = sWorkbook → d.refersTo = r) :
    (Impl.scanNames n cur defs (wb, ws)).1 =
      if defs.any (fun d => decide (d.name = n ∧ d.scope = sWorkbook)) then r else wb := by
  induction defs generalizing wb ws with
  | nil => simp [Impl.scanNames]
  | cons d rest ih =>
    have hr : ∀ d ∈ rest, d.name = n → d.scope = sWorkbook → d.refersTo = r :=
      fun e he => hf e (by simp [he])
    by_cases hn : d.name = n
    · by_cases hs : d.scope = sWorkbook
      · have := hf d (by simp) hn hs
        simp [Impl.scanNames, hn, hs, ih _ _ hr, this]
      · simp [Impl.scanNames, hn, hs, ih _ _ hr]
    · simp [Impl.scanNames, hn, ih _ _ hr]

theorem scan_ws (n cur : Str) (defs : List DefName) (wb ws r : Str)
    (hf : ∀ d ∈ defs, d.name = n → d.scope = cur → d.refersTo = r) :
    (Impl.scanNames n cur defs (wb, ws)).2 =
      if defs.any (fun d => decide (d.name = n ∧ d.scope = cur)) then r else ws := by
  induction defs generalizing wb ws with
  | nil => simp [Impl.scanNames]
  | cons d rest ih =>
    have hr : ∀ d ∈ rest, d.name = n → d.scope = cur → d.refersTo = r :=
      fun e he => hf e (by simp [he])
    by_cases hn : d.name = n
    · by_cases hs : d.scope = cur
      · have := hf d (by simp) hn hs
        simp [Impl.scanNames, hn, hs, ih _ _ hr, this]
      · simp [Impl.scanNames, hn, hs, ih _ _ hr]
    · simp [Impl.scanNames, hn, ih _ _ hr]

/-- clause "references resolve … through defined names": on every list of definitions that
SetDefinedName can produce (no duplicate name+scope, non-empty targets), in whatever order they
were created, the two-slot scan of `getDefinedNameRefTo` returns exactly what Excel's rule
prescribes — the definition scoped to the formula's sheet if there is one, else the
workbook-scoped one, else nothing; definitions scoped to other sheets are invisible. -/
theorem defname_lookup_correct (defs : List DefName) (n cur : Str)
    (hF : FunctionalDefs defs) (hN : NonEmptyRefs defs) :
    Impl.definedNameRefTo defs n cur = (Spec.resolveName defs n cur).getD [] := by
  unfold Impl.definedNameRefTo Spec.resolveName
  -- the sheet-scoped slot
  cases hws : defs.find? (fun d => decide (d.name = n ∧ d.scope = cur)) with
  | some d =>
    have hd := List.mem_of_find?_eq_some hws
    have hp := List.find?_some hws
    simp only [decide_eq_true_eq] at hp
    have hf : ∀ e ∈ defs, e.name = n → e.scope = cur → e.refersTo = d.refersTo :=
      fun e he h1 h2 => hF e he d hd (h1.trans hp.1.symm) (h2.trans hp.2.symm)
    have hany : defs.any (fun d => decide (d.name = n ∧ d.scope = cur)) = true := by
      simp only [List.any_eq_true]
      exact ⟨d, hd, by simp [hp]⟩
    have := scan_ws n cur defs [] [] d.refersTo hf
    simp only [hany, if_true] at this
    simp [this, hN d hd]
  | none =>
    have hnone : defs.any (fun d => decide (d.name = n ∧ d.scope = cur)) = false := by
      rw [List.find?_eq_none] at hws
      simp only [List.any_eq_false]
      intro x hx
      simpa using hws x hx
    have h2 := scan_ws n cur defs [] [] [] (fun e he h1 h2 => by
      have := List.any_eq_false.mp hnone e he
      simp [h1, h2] at this)
    simp only [hnone, Bool.false_eq_true, if_false] at h2
    simp only [h2, ne_eq, not_true_eq_false, if_false]
    cases hwb : defs.find? (fun d => decide (d.name = n ∧ d.scope = sWorkbook)) with
    | some d =>
      have hd := List.mem_of_find?_eq_some hwb
      have hp := List.find?_some hwb
      simp only [decide_eq_true_eq] at hp
      have hf : ∀ e ∈ defs, e.name = n → e.scope = sWorkbook → e.refersTo = d.refersTo :=
        fun e he h1 h2 => hF e he d hd (h1.trans hp.1.symm) (h2.trans hp.2.symm)
      have hany : defs.any (fun d => decide (d.name = n ∧ d.scope = sWorkbook)) = true := by
        simp only [List.any_eq_true]
        exact ⟨d, hd, by simp [hp]⟩
      have := scan_wb n cur defs [] [] d.refersTo hf
      simp only [hany, if_true] at this
      simp [this]
    | none =>
      have hnone' : defs.any (fun d => decide (d.name = n ∧ d.scope = sWorkbook)) = false := by
        rw [List.find?_eq_none] at hwb
        simp only [List.any_eq_false]
        intro x hx
        simpa using hwb x hx
      have := scan_wb n cur defs [] [] [] (fun e he h1 h2 => by
        have := List.any_eq_false.mp hnone' e he
        simp [h1, h2] at this)
      simp only [hnone', Bool.false_eq_true, if_false] at this
      simp [this]

/-- Excel's rule itself does not depend on the order of the definitions … -/
theorem resolveName_order_independent (defs defs' : List DefName) (n cur : Str)
    (hmem : ∀ d, d ∈ defs ↔ d ∈ defs') (hF : FunctionalDefs defs) :
    Spec.resolveName defs n cur = Spec.resolveName defs' n cur := by
  have hF' : FunctionalDefs defs' :=
    fun d1 h1 d2 h2 => hF d1 ((hmem d1).mpr h1) d2 ((hmem d2).mpr h2)
  -- find? on either list yields a match with the same target, or none on both
  have key : ∀ sc, (defs.find? (fun d => decide (d.name = n ∧ d.scope = sc))).map (·.refersTo) =
      (defs'.find? (fun d => decide (d.name = n ∧ d.scope = sc))).map (·.refersTo) := by
    intro sc
    cases h1 : defs.find? (fun d => decide (d.name = n ∧ d.scope = sc)) with
    | none =>
      rw [List.find?_eq_none] at h1
      have : defs'.find? (fun d => decide (d.name = n ∧ d.scope = sc)) = none := by
        rw [List.find?_eq_none]
        intro x hx
        exact h1 x ((hmem x).mpr hx)
      rw [this]
    | some d =>
      have hd := List.mem_of_find?_eq_some h1
      have hp := List.find?_some h1
      cases h2 : defs'.find? (fun d => decide (d.name = n ∧ d.scope = sc)) with
      | none =>
        rw [List.find?_eq_none] at h2
        exact absurd hp (h2 d ((hmem d).mp hd))
      | some d' =>
        have hd' := List.mem_of_find?_eq_some h2
        have hp' := List.find?_some h2
        simp only [decide_eq_true_eq] at hp hp'
        have := hF d hd d' ((hmem d').mpr hd') (hp.1.trans hp'.1.symm) (hp.2.trans hp'.2.symm)
        simp [this]
  have shape : ∀ l : List DefName, Spec.resolveName l n cur =
      match (l.find? (fun d => decide (d.name = n ∧ d.scope = cur))).map (·.refersTo) with
      | some r => some r
      | none => (l.find? (fun d => decide (d.name = n ∧ d.scope = sWorkbook))).map (·.refersTo) := by
    intro l
    unfold Spec.resolveName
    cases l.find? (fun d => decide (d.name = n ∧ d.scope = cur)) <;> rfl
  rw [shape defs, shape defs', key cur, key sWorkbook]

/-- … and therefore neither does `getDefinedNameRefTo`: two definition lists with the same
entries (any creation order, as stored in workbook.xml) resolve every name identically from
every sheet. (The seeded change "last visible match wins" violates exactly this.) -/
theorem defname_order_independent (defs defs' : List DefName) (n cur : Str)
    (hmem : ∀ d, d ∈ defs ↔ d ∈ defs') (hF : FunctionalDefs defs) (hN : NonEmptyRefs defs) :
    Impl.definedNameRefTo defs n cur = Impl.definedNameRefTo defs' n cur := by
  have hF' : FunctionalDefs defs' :=
    fun d1 h1 d2 h2 => hF d1 ((hmem d1).mpr h1) d2 ((hmem d2).mpr h2)
  have hN' : NonEmptyRefs defs' := fun d h => hN d ((hmem d).mpr h)
  rw [defname_lookup_correct defs n cur hF hN, defname_lookup_correct defs' n cur hF' hN',
    resolveName_order_independent defs defs' n cur hmem hF]

/-- non-vacuity / the witness of the seeded change: sheet-scoped definition created first, then
the workbook-scoped one; from that sheet the sheet-scoped target wins, from another sheet the
workbook one, a name scoped to another sheet only is invisible -/
theorem defname_examples :
    let d (n sc r : Str) : DefName := { name := n, scope := sc, refersTo := r }
    let defs := [d [114] [83, 50] [66], d [114] sWorkbook [65], d [113] [83, 51] [67]]
    Impl.definedNameRefTo defs [114] [83, 50] = [66] ∧
    Impl.definedNameRefTo defs [114] [83, 49] = [65] ∧
    Impl.definedNameRefTo defs [113] [83, 49] = [] ∧
    Spec.resolveName defs [114] [83, 50] = some [66] ∧
    Spec.resolveName defs [113] [83, 49] = none := by
  decide +kernel

/-! ## reference resolution (`parseReference`) -/

/-- clause "references resolve to the current content of the referenced cells": absolute, mixed
and relative spellings denote the same cells — `parseReference` removes every `$` first -/
theorem resolve_dollar_invariant (sheets : List Str) (cur ref : Str) :
    Impl.resolveRef sheets cur (ref.filter (· ≠ 36)) = Impl.resolveRef sheets cur ref := by
  unfold Impl.resolveRef
  simp [List.filter_filter]

/-- clause "references resolve to the current content of the referenced cells": the resolution
is stated over (sheet, column, row) triples — the key under which the model looks a cell up
(`keyOf`, the result of `resolveRef` for a cell and every element of a range) determines the
column and the row, so two distinct cells of a sheet are never looked up under the same key
(the seeded change C08-g-1 keyed calc.go's per-evaluation memo by column NUMBER ‖ row, where
A11 and K1 coincide; tie: the `ev` / `agg` lines of the formula-precedent stream). -/
theorem resolve_key_injective (sheet : Str) (c r c' r' : Int) (k : Str) (hr : 1 ≤ r) (hr' : 1 ≤ r')
    (h : Impl.keyOf sheet c r = .ok k) (h' : Impl.keyOf sheet c' r' = .ok k) : c = c' ∧ r = r' :=
  Impl.keyOf_injective sheet c r c' r' k hr hr' h h'

/-- distinct cells are read independently: whatever the cell environment holds under the key of
(c, r), a lookup of a different cell (c', r') of the same sheet can be given any other content —
no two coordinates share an entry -/
theorem resolve_lookup_independent {V : Type} (sheet : Str) (c r c' r' : Int) (k k' : Str)
    (hr : 1 ≤ r) (hr' : 1 ≤ r') (hne : (c, r) ≠ (c', r'))
    (h : Impl.keyOf sheet c r = .ok k) (h' : Impl.keyOf sheet c' r' = .ok k')
    (env : Str → Option V) (v : Option V) :
    (fun x => if x = k' then v else env x) k = env k := by
  have hk : k ≠ k' := by
    intro e
    subst e
    obtain ⟨h1, h2⟩ := resolve_key_injective sheet c r c' r' k hr hr' h h'
    exact hne (by rw [h1, h2])
  simp [hk]

/-- worked instances: the colliding coordinates of the seeded change get pairwise distinct keys —
A11 / K1, B12 / U2, A111 / K11 / DG1 on a sheet "S" — and `resolveRef` reads exactly that cell
(`A11`, `$K$1`, `Sheet2!A11` from Sheet1) -/
theorem resolve_key_examples :
    Impl.keyOf [83] 1 11 = .ok [83, 33, 65, 49, 49] ∧ Impl.keyOf [83] 11 1 = .ok [83, 33, 75, 49] ∧
    Impl.keyOf [83] 2 12 = .ok [83, 33, 66, 49, 50] ∧ Impl.keyOf [83] 21 2 = .ok [83, 33, 85, 50] ∧
    Impl.keyOf [83] 1 111 = .ok [83, 33, 65, 49, 49, 49] ∧ Impl.keyOf [83] 11 11 = .ok [83, 33, 75, 49, 49] ∧
    Impl.keyOf [83] 111 1 = .ok [83, 33, 68, 71, 49] ∧
    Impl.resolveRef ([[83, 104, 101, 101, 116, 49], [83, 104, 101, 101, 116, 50]] : List Str) [83, 104, 101, 101, 116, 49]
      [65, 49, 49] = .ok (false, [[83, 104, 101, 101, 116, 49, 33, 65, 49, 49]]) ∧
    Impl.resolveRef ([[83, 104, 101, 101, 116, 49], [83, 104, 101, 101, 116, 50]] : List Str) [83, 104, 101, 101, 116, 49]
      [36, 75, 36, 49] = .ok (false, [[83, 104, 101, 101, 116, 49, 33, 75, 49]]) ∧
    Impl.resolveRef ([[83, 104, 101, 101, 116, 49], [83, 104, 101, 101, 116, 50]] : List Str) [83, 104, 101, 101, 116, 49]
      [83, 104, 101, 101, 116, 50, 33, 65, 49, 49] = .ok (false, [[83, 104, 101, 101, 116, 50, 33, 65, 49, 49]]) := by
  refine ⟨by decide +kernel, by decide +kernel, by decide +kernel, by decide +kernel, by decide +kernel,
    by decide +kernel, by decide +kernel, by decide +kernel, by decide +kernel, by decide +kernel⟩

theorem upByte_idem (b : Nat) : upByte (upByte b) = upByte b := by
  unfold upByte
  by_cases h : 97 ≤ b ∧ b ≤ 122
  · have h2 : ¬ (97 ≤ b - 32 ∧ b - 32 ≤ 122) := by omega
    rw [if_pos h, if_neg h2]
  · rw [if_neg h, if_neg h]

theorem upper_idem (s : Str) : upper (upper s) = upper s := by
  simp [upper, List.map_map, Function.comp, upByte_idem]

/-- the sheet part of a reference is matched without regard to (ASCII) case -/
theorem findSheet_case (sheets : List Str) (name : Str) :
    Impl.findSheet sheets (upper name) = Impl.findSheet sheets name := by
  unfold Impl.findSheet
  simp [upper_idem]

/-- worked instances on the workbook [Sheet1, Sheet2, My Data]: relative / absolute / lower-case /
sheet-qualified (any case; efp has removed the quotes) spellings of the same cell, a range given
by opposite corners, a range across two sheets (rejected), a sheet that does not exist -/
theorem resolve_examples :
    Impl.resolveRef ([[83, 104, 101, 101, 116, 49], [83, 104, 101, 101, 116, 50], [77, 121, 32, 68, 97, 116, 97]] : List Str) [83, 104, 101, 101, 116, 49] [65, 49] = .ok (false, [[83, 104, 101, 101, 116, 49, 33, 65, 49]]) ∧
    Impl.resolveRef ([[83, 104, 101, 101, 116, 49], [83, 104, 101, 101, 116, 50], [77, 121, 32, 68, 97, 116, 97]] : List Str) [83, 104, 101, 101, 116, 49] [36, 97, 36, 49] = .ok (false, [[83, 104, 101, 101, 116, 49, 33, 65, 49]]) ∧
    Impl.resolveRef ([[83, 104, 101, 101, 116, 49], [83, 104, 101, 101, 116, 50], [77, 121, 32, 68, 97, 116, 97]] : List Str) [83, 104, 101, 101, 116, 49] [83, 72, 69, 69, 84, 50, 33, 36, 65, 36, 49] = .ok (false, [[83, 104, 101, 101, 116, 50, 33, 65, 49]]) ∧
    Impl.resolveRef ([[83, 104, 101, 101, 116, 49], [83, 104, 101, 101, 116, 50], [77, 121, 32, 68, 97, 116, 97]] : List Str) [83, 104, 101, 101, 116, 50] [109, 121, 32, 100, 97, 116, 97, 33, 98, 50] = .ok (false, [[77, 121, 32, 68, 97, 116, 97, 33, 66, 50]]) ∧
    Impl.resolveRef ([[83, 104, 101, 101, 116, 49], [83, 104, 101, 101, 116, 50], [77, 121, 32, 68, 97, 116, 97]] : List Str) [83, 104, 101, 101, 116, 49] [83, 104, 101, 101, 116, 50, 33, 66, 50, 58, 65, 49] =
      .ok (true, [[83, 104, 101, 101, 116, 50, 33, 65, 49], [83, 104, 101, 101, 116, 50, 33, 66, 49], [83, 104, 101, 101, 116, 50, 33, 65, 50], [83, 104, 101, 101, 116, 50, 33, 66, 50]]) ∧
    Impl.resolveRef ([[83, 104, 101, 101, 116, 49], [83, 104, 101, 101, 116, 50], [77, 121, 32, 68, 97, 116, 97]] : List Str) [83, 104, 101, 101, 116, 49] [83, 104, 101, 101, 116, 50, 33, 65, 49, 58, 83, 104, 101, 101, 116, 49, 33, 66, 50] = .error (.msg (.lit Impl.sInvalidRef)) ∧
    Impl.resolveRef ([[83, 104, 101, 101, 116, 49], [83, 104, 101, 101, 116, 50], [77, 121, 32, 68, 97, 116, 97]] : List Str) [83, 104, 101, 101, 116, 49] [78, 111, 112, 101, 33, 65, 49] = .error (.msg (.lit formulaErrorNAME)) := by
  refine ⟨by decide +kernel, by decide +kernel, by decide +kernel, by decide +kernel,
    by decide +kernel, by decide +kernel, by decide +kernel⟩

/-! ## the final rendering to 15 significant digits -/

/-- clause "result rendering to 15 significant digits" (observe_at: numbers compared to 1e-12):
the rounding step of the rendering model — the integer nearest to n/d, which the driver uses with
n/d = |x|·10^(14−k), k = ⌊log10 |x|⌋, and compares with `FormatFloat(x,'G',15)` on every numeric
transcript line — is within half a unit of the 15th digit of the exact value:
|v·d − n| ≤ d/2, i.e. a relative error of at most 5·10⁻¹⁵. -/
theorem render_round_half_unit (n d : Nat) (hd : 0 < d) :
    let v := CalcFloat.roundAt n d
    2 * (v * d - n) ≤ d ∧ 2 * (n - v * d) ≤ d := by
  have hdiv : n = (n / d) * d + n % d := by
    have := Nat.div_add_mod n d
    rw [Nat.mul_comm] at this; omega
  have hlt : n % d < d := Nat.mod_lt n hd
  simp only [CalcFloat.roundAt]
  generalize n / d = q at hdiv ⊢
  generalize n % d = r at hdiv hlt ⊢
  split
  · rename_i h
    have e : (q + 1) * d = q * d + d := by rw [Nat.add_mul, Nat.one_mul]
    rw [e]
    constructor <;> omega
  · rename_i h
    constructor <;> omega

/-- an exact tie is rounded to the even neighbour (as strconv does) -/
theorem render_round_ties_even (n d : Nat) (hd : 0 < d) (htie : 2 * (n % d) = d) :
    CalcFloat.roundAt n d % 2 = 0 := by
  simp only [CalcFloat.roundAt]
  have : ¬ 2 * (n % d) > d := by omega
  by_cases hq : n / d % 2 = 1
  · simp [this, htie, hq]; omega
  · simp [this, htie, hq]; omega

/-- a value that is already an integer at the rounding scale is reproduced exactly -/
theorem render_round_exact (q d : Nat) (hd : 0 < d) : CalcFloat.roundAt (q * d) d = q := by
  simp only [CalcFloat.roundAt]
  have h1 : q * d / d = q := Nat.mul_div_cancel q hd
  have h2 : q * d % d = 0 := Nat.mul_mod_left q d
  simp [h1, h2]
  omega

/-- the positional layout of an integer-valued result (decimal point at or beyond the last
significant digit): exactly the digits followed by the missing zeros, no decimal point -/
theorem render_layout_integer (ds : List Nat) (dp : Nat) (h1 : 0 < dp) (h2 : ds.length ≤ dp) :
    CalcFloat.fmtF ds (dp : Int) = ds.map CalcFloat.dch ++ List.replicate (dp - ds.length) 48 := by
  unfold CalcFloat.fmtF
  have hpos : (dp : Int) > 0 := by omega
  have hn : ((ds.length : Int) - (dp : Int)) ≤ 0 := by omega
  simp only [hpos, if_true, hn, Int.toNat_natCast]
  rw [CalcFloat.range_getD, List.take_of_length_le h2]

/-- the layouts of the rendering model on digit strings (kernel-evaluated instances):
`0.3` (digits "3", point position 0), `1.23456789012346E+17`, `1E+21`, `1234567.5`,
`0.333333333333333`, `0.0001` stays positional, `1E-05` is exponential only after the 15-digit rule -/
theorem render_layout_examples :
    CalcFloat.fmtF [3] 0 = [48, 46, 51] ∧
    CalcFloat.fmtE [1, 2, 3, 4, 5, 6, 7, 8, 9, 0, 1, 2, 3, 4, 6] 18 69 2 =
      [49, 46, 50, 51, 52, 53, 54, 55, 56, 57, 48, 49, 50, 51, 52, 54, 69, 43, 49, 55] ∧
    CalcFloat.fmtE [1] 22 69 2 = [49, 69, 43, 50, 49] ∧
    CalcFloat.fmtF [1, 2, 3, 4, 5, 6, 7, 5] 7 = [49, 50, 51, 52, 53, 54, 55, 46, 53] ∧
    CalcFloat.fmtF [1] (-3) = [48, 46, 48, 48, 48, 49] ∧
    CalcFloat.fmtE [1] (-4) 69 2 = [49, 69, 45, 48, 53] := by
  decide +kernel

/-! ## where the current code deviates from Excel: witnesses on the integer instance -/

section findings
open IntInst

private def noEnv : Str → Option (Impl.CellArg Int) := fun _ => none
private def noEnvS : Str → Option (Spec.Val Int) := fun _ => none

/-- regression (fixed in the fix window): `=1="1"` is FALSE, `="a"="A"` is TRUE on both sides -/
theorem fixed_eq_typed :
    Impl.evalTokens noEnv (render 1 (.bin .eq (.num [49]) (.text [49]))) = .ok (.num 0 true) ∧
    Spec.eval noEnvS (.bin .eq (.num [49]) (.text [49])) = .bool false ∧
    Impl.evalTokens noEnv (render 1 (.bin .eq (.text [97]) (.text [65]))) = .ok (.num 1 true) ∧
    Spec.eval noEnvS (.bin .eq (.text [97]) (.text [65])) = .bool true := by decide +kernel

/-- regression (fixed in the fix window): `="a"<"B"` is TRUE and `=TRUE>5` is TRUE on both sides -/
theorem fixed_ordering_typed :
    Impl.evalTokens noEnv (render 1 (.bin .lt (.text [97]) (.text [66]))) = .ok (.num 1 true) ∧
    Spec.eval noEnvS (.bin .lt (.text [97]) (.text [66])) = .bool true ∧
    Impl.evalTokens noEnv (render 1 (.bin .gt (.logical sTRUE) (.num [53]))) = .ok (.num 1 true) ∧
    Spec.eval noEnvS (.bin .gt (.logical sTRUE) (.num [53])) = .bool true := by decide +kernel

/-- what is left of `cmp:bool-as-number`: a blank operand is turned into the number 0 before the
comparison, so `=A5=FALSE` with blank A5 is FALSE (Excel: a blank compares as FALSE → TRUE) -/
theorem finding_blank_false :
    Impl.evalTokens (N := Int) (fun _ => some .empty) (render 1 (.bin .eq (.ref [65]) (.logical sFALSE))) =
      .ok (.num 0 true) ∧
    Spec.eval (N := Int) (fun _ => some .blank) (.bin .eq (.ref [65]) (.logical sFALSE)) = .bool true := by
  decide +kernel

/-- regression (second fix window): `=-"a"` aborts (Excel: #VALUE!), `="500"%` is 5 on both sides -/
theorem fixed_unary_coercion :
    Impl.evalTokens noEnv (render 1 (.neg (.text [97]))) = .error (.msg (.parseFloat [97])) ∧
    Spec.eval noEnvS (.neg (.text [97])) = .err .value ∧
    Impl.evalTokens noEnv (render 1 (.pct (.text [53, 48, 48]))) = .ok (.num 5 false) ∧
    Spec.eval noEnvS (.pct (.text [53, 48, 48])) = .num 5 := by
  decide +kernel

/-- `=--TRUE` → TRUE (two prefix minus tokens cancel without coercion); Excel: 1 -/
theorem finding_double_neg :
    Impl.evalTokens noEnv (render 1 (.neg (.neg (.logical sTRUE)))) = .ok (.num 1 true) ∧
    Spec.eval noEnvS (.neg (.neg (.logical sTRUE))) = .num 1 := by decide +kernel

/-- `=""+1` → 1 and `=""=0` → TRUE (the empty text literal is treated like a blank cell);
Excel: #VALUE!, FALSE -/
theorem finding_empty_text :
    Impl.evalTokens noEnv (render 1 (.bin .add (.text []) (.num [49]))) = .ok (.num 1 false) ∧
    Spec.eval noEnvS (.bin .add (.text []) (.num [49])) = .err .value ∧
    Impl.evalTokens noEnv (render 1 (.bin .eq (.text []) (.num [48]))) = .ok (.num 1 true) ∧
    Spec.eval noEnvS (.bin .eq (.text []) (.num [48])) = .bool false := by decide +kernel

/-- regression (second fix window): an error *value* on the operand stack (a NaN or overflowing
result: `#NUM!`) is no longer swallowed by prefix minus — it aborts the evaluation with its code,
for every numeric carrier (likewise postfix % and infix minus) -/
theorem fixed_numerr_propagates {N : Type} [NumOps N] (m : Str) (st : List (Impl.Arg N))
    (hm : m ≠ []) :
    Impl.calculate (.err m :: st) (.prefixOp sMinus) = .error (.msg (.lit m)) := by
  rw [Impl.calculate_neg]
  simp [Impl.negate, Impl.unaryNum, Impl.blank0, Impl.value, hm]

/-- regression (second fix window): `0^0` is #NUM!, overflow is #NUM! (integer instance: 0^0) -/
theorem fixed_pow_zero :
    Impl.evalTokens noEnv (render 1 (.bin .pow (.num [48]) (.num [48]))) =
      .error (.msg (.lit formulaErrorNUM)) ∧
    Spec.eval noEnvS (.bin .pow (.num [48]) (.num [48])) = .err .num := by decide +kernel

end findings

end XlModel.Props.C08
