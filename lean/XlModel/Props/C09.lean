/-
C09 — Formula evaluation is total, terminating, deterministic and side-effect
free.  Property theorems only; helper lemmas are in `Lemmas/CalcTotal.lean`
(cut-off) and `Lemmas/CalcTotalStack.lean` (operator stack).

The theorems are about `XlModel.CalcTotal` (transcription of the evaluator
skeleton of calc.go) over the regenerated facts `Facts.C09.*`; `facts_pinned`
and `assert_sites_modelled` pin what the proofs rely on, so editing the
priority table, the dispatch set, the cut-off comparison or adding an unguarded
stack assertion in calc.go breaks this file.

PARTIAL by design: the ≈450 formula functions are a parameter (`Sem.callFn`);
they are enumerated on the real code by the harness, not modelled.
-/
import XlModel.Lemmas.CalcTotal
import XlModel.Lemmas.CalcTotalStack
import XlModel.Lemmas.CalcTotalFn
import XlModel.CalcFrame
import XlModel.Lemmas.CalcTotalSize
import XlModel.Lemmas.CalcTotalArr

namespace XlModel.Props.C09
open XlModel XlModel.CalcTotal XlModel.Lemmas.CalcTotal XlModel.Lemmas.CalcTotalStack XlModel.Lemmas.CalcTotalFn XlModel.Lemmas.CalcTotalSize XlModel.Lemmas.CalcTotalArr

/-! ## the facts the model is defined over -/

/-- every operator has a positive priority, the prefix minus binds tightest, the
dispatch set of `calculate` is the one transcribed, the cut-off compares with `<=`
and increments -/
theorem facts_pinned :
    (∀ e ∈ Facts.C09.tokenPriority, 1 ≤ e.2 ∧ e.2 < Facts.C09.prefixMinusPriority) ∧
    Facts.C09.calcOps = ["^", "*", "/", "+", "=", "<>", "<", "<=", ">", ">=", "&"] ∧
    Facts.C09.cutoffOp = "<=" ∧ Facts.C09.cutoffIncrements = true := by decide

/-- the number of `Peek().(T)` / `Pop().(T)` assertions in each modelled Go function does not
exceed the number transcribed (each one is a `panic` branch or sits behind the length guard
the model states): a new unguarded assertion in calc.go breaks this theorem. -/
theorem assert_sites_modelled :
    ∀ e ∈ Facts.C09.assertSites,
      e.2 ≤ (match e.1 with
        | "evalInfixExp" => 13 | "evalInfixExpFunc" => 3 | "prepareEvalInfixExp" => 7
        | "calculate" => 5 | "parseOperatorPrefixToken" => 2 | "parseToken" => 3 | _ => 0) := by decide

/-- the volatile functions (excepted from the twice-equality oracle) are formula functions,
and the function list has the advertised size -/
theorem volatile_are_functions :
    (∀ f ∈ Facts.C09.volatileFuncs, f ∈ Facts.C09.formulaFuncs) ∧
    Facts.C09.formulaFuncs.length = Facts.C09.formulaFuncCount := by decide +kernel

/-! ## totality of the stack machine ("returns a result or an error … without panicking") -/

/-- **No panic, function-free fragment, every value semantics.**  For every token list
without Function tokens whose parentheses are prefix-balanced (what efp emits: it pairs
every Subexpression Stop with a Start) and for EVERY operand semantics, reference
resolver and depth, `evalInfixExp` returns a value or an error: no `Peek().(efp.Token)`
or `Pop().(formulaArg)` ever meets an empty stack. -/
theorem eval_no_panic_nofunc {V : Type} (S : Sem V) (toks : List Tok)
    (hnf : ∀ t ∈ toks, t.ty ≠ .function) (hbal : balanced 0 toks = true) :
    evalTokens S toks ≠ .panic :=
  run_nofunc S toks {} 0 rfl hnf hbal rfl

/-- the hypothesis of `eval_no_panic_nofunc` is necessary in the model: a lone
Subexpression Stop panics for every semantics (`optStack.Peek().(efp.Token)` on the empty
stack in `parseToken`).  Not a defect of the library: efp emits an unmatched `)` as a
Function Stop (probe `1)` in the harness), never as a Subexpression Stop. -/
theorem finding_model_unbalanced_close_panics {V : Type} (S : Sem V) :
    evalTokens S [⟨"", .subexpr, .stop⟩] = .panic := by
  simp [evalTokens, run, step, parseToken, isOperatorPrefixToken, isPrefixMinus, isBeginParen,
    isEndParen, closeParen]

/-- a trivial semantics (every operation succeeds) used for the regression witnesses -/
def semU : Sem Unit where
  ofTok := fun _ => ()
  neg := fun _ => some ()
  pct := fun _ => some ()
  sub2 := fun _ _ => .push ()
  bin := fun _ _ _ => .push ()
  resolve := fun _ => some ()
  refKind := fun _ => .number
  refVal := fun _ => "0"
  callFn := fun _ _ => ()
  isErr := fun _ => false
  matHead := fun _ => none
  mkMatrix := fun _ => ()
  errArg := ()

private def num (s : String) : Tok := ⟨s, .operand, .number⟩
private def fstart (s : String) : Tok := ⟨s, .function, .start⟩
private def fstop : Tok := ⟨"", .function, .stop⟩

/-- tokens efp emits for `({1}+SUM(2))` -/
def witnessArray : List Tok :=
  [⟨"", .subexpr, .start⟩, fstart "ARRAY", fstart "ARRAYROW", num "1", fstop, fstop,
   ⟨"+", .opInfix, .math⟩, fstart "SUM", num "2", fstop, ⟨"", .subexpr, .stop⟩]

/-- tokens efp emits for `'*'(1 2+3)` -/
def witnessOpFn : List Tok :=
  [fstart "*", num "1", ⟨"", .opInfix, .inter⟩, num "2", ⟨"+", .opInfix, .math⟩, num "3", fstop]

/-- regression of the repaired defect "array constant outside a function leaves the array
flags set" (`({1}+SUM(2))` panicked in `parseToken`; repository fix 07e33d8): the model of
the fixed code evaluates the witness. -/
theorem fixed_array_flags_witness : evalTokens semU witnessArray = .ok () := by decide

/-- regression of the repaired defect "a function whose name is an operator pops its own
separator" (`'*'(1 2+3)` panicked in `prepareEvalInfixExp`; repository fix cc2477f). -/
theorem fixed_operator_named_function_witness : evalTokens semU witnessOpFn = .ok () := by decide

/-- tokens efp emits for `SUM(({1,2}))` -/
def witnessArraySep : List Tok :=
  [fstart "SUM", ⟨"", .subexpr, .start⟩, fstart "ARRAY", fstart "ARRAYROW", num "1", ⟨",", .argument, .nothing⟩,
   num "2", fstop, fstop, ⟨"", .subexpr, .stop⟩, fstop]

/-- regression of the repaired defect "array separators flush the operator stack past an open
parenthesis" (`SUM(({1,2}))` panicked in `parseToken`; repository fix 6963681). -/
theorem fixed_array_separator_witness : evalTokens semU witnessArraySep = .ok () := by decide

/-- **No panic with function calls, every value semantics, every depth and arity.**  For every
token list whose function calls and parentheses are properly nested (`nested [] 0`: what a
tokenizer with a bracket stack emits — a Function Stop with nothing open is tolerated, an
Argument separator never sits directly inside a parenthesis) and that contains no array
constant, and for EVERY operand semantics, reference resolver and function library,
`evalInfixExp` returns a value or an error: every `Peek().(efp.Token)` on `opftStack` /
`opfStack` / `optStack`, every `Peek().(*list.List)` on `argsStack` and every
`Pop().(formulaArg)` finds its element.  Invariant (`Lemmas/CalcTotalFn.Inv`): the Function
tokens on `opft` are, in order, the tokens of `opf`; `len(args) = len(opf)`; the "(" on
`opft` / `opt` are the open parentheses of the nesting.  It needs `getPriority(function) = 0`
(fix cc2477f) — before that fix the statement was false. -/
theorem eval_no_panic_functions {V : Type} (S : Sem V) (toks : List Tok)
    (hnest : nested [] 0 toks = true)
    (harr : ∀ t ∈ toks, isFuncStart t = true → (t.val == "ARRAY") = false ∧ (t.val == "ARRAYROW") = false) :
    evalTokens S toks ≠ .panic :=
  run_inv S toks {} [] 0 inv_init hnest harr

/-- the nesting hypothesis is necessary: a Function Stop inside an open parenthesis (a list no
bracket-stack tokenizer emits) panics in the model — and in the code (transcript `ev`). -/
theorem finding_model_stop_inside_paren_panics :
    nested [] 0 [fstart "SUM", ⟨"", .subexpr, .start⟩, num "1", fstop, ⟨"", .subexpr, .stop⟩] = false ∧
    evalTokens semU [fstart "SUM", ⟨"", .subexpr, .start⟩, num "1", fstop, ⟨"", .subexpr, .stop⟩] = .panic := by
  decide

/-- tokens efp emits for `{(SUM(1))}` -/
def witnessArrayParenFn : List Tok :=
  [fstart "ARRAY", fstart "ARRAYROW", ⟨"", .subexpr, .start⟩, fstart "SUM", num "1", fstop,
   ⟨"", .subexpr, .stop⟩, fstop, fstop]

/-- regression of the repaired defect "a function call inside an array constant closes the
array row instead of itself" (`{(SUM(1))}`, `{1,(SUM(1))}`, `MAX({(SUM(1))})` panicked in
`parseToken` / `prepareEvalInfixExp`; found by enumerating this model over all nested
5-token lists; repository fix fecba5e: the evaluator remembers `opfStack.Len()` where the
array constant started). -/
theorem fixed_array_paren_function_witness :
    nested [] 0 witnessArrayParenFn = true ∧ evalTokens semU witnessArrayParenFn = .ok () := by decide

/-- tokens efp emits for `SUM(({{1}}))` -/
def witnessNestedArray : List Tok :=
  [fstart "SUM", ⟨"", .subexpr, .start⟩, fstart "ARRAY", fstart "ARRAYROW", fstart "ARRAY", fstart "ARRAYROW",
   num "1", fstop, fstop, fstop, fstop, ⟨"", .subexpr, .stop⟩, fstop]

/-- regression of the repaired defect "nested array constants overwrite the evaluator's array
flags" (`SUM(({{1}}))`, `SUM((MAX({SUM({1})})))` panicked in `parseToken`; repository fix
9c11688: the open array constants are a stack, `St.arrs`). -/
theorem fixed_nested_array_constant_witness :
    nested [] 0 witnessNestedArray = true ∧ evalTokens semU witnessNestedArray = .ok () := by decide

/-- tokens efp emits for `SUM((ARRAYROW(1)))` -/
def witnessRowOutside : List Tok :=
  [fstart "SUM", ⟨"", .subexpr, .start⟩, fstart "ARRAYROW", num "1", fstop, ⟨"", .subexpr, .stop⟩, fstop]

/-- tokens efp emits for `SUM((SUM(;1)))` (a `;` outside an array constant: Function Stop, Argument, ARRAYROW start) -/
def witnessSemicolon : List Tok :=
  [fstart "SUM", ⟨"", .subexpr, .start⟩, fstart "SUM", fstop, ⟨",", .argument, .nothing⟩, fstart "ARRAYROW",
   num "1", fstop, ⟨"", .subexpr, .stop⟩, fstop]

/-- regression of the repaired defect "an ARRAYROW token outside an array constant is ignored but its
stop closes the enclosing function" (`SUM((ARRAYROW(1)))` panicked in `parseToken`; predicted by this
model, reached through formula text once the harness checked the nesting discipline on every efp token
list; repository fix d5de215: outside an array constant without an open row the token is an ordinary
function start). -/
theorem fixed_arrayrow_outside_array_witness :
    nestedA [] [] witnessRowOutside = true ∧ evalTokens semU witnessRowOutside = .ok () := by decide

/-- regression of the repaired defect "an argument separator directly inside a parenthesis flushes the
operator stack past the `(`" (`SUM((SUM(;1)))` panicked in `parseToken`; repository fix cdb1ef6: such a
separator is skipped). -/
theorem fixed_argument_in_parenthesis_witness :
    nestedA [] [] witnessSemicolon = true ∧ evalTokens semU witnessSemicolon = .ok () := by decide

/-- **No panic — function calls, parentheses AND array constants; every value semantics, depth,
arity.**  For every token list that satisfies the array-aware nesting discipline `nestedA`
(what a tokenizer with a bracket stack guarantees: calls, parentheses and array constants
properly nested; an ARRAYROW start opens a row when it sits directly inside an array constant
without an open row and is an ordinary function start anywhere else; an Argument may sit
anywhere) and for EVERY operand semantics,
reference resolver and function library, `evalInfixExp` returns a value or an error.  No
"array constant" hypothesis is left.  Invariant (`Lemmas/CalcTotalArr.InvA`): as for
`eval_no_panic_functions`, plus: the stack of open array constants (`St.arrs`, fix 9c11688)
mirrors the array frames — depth = number of function frames below, open row as the frame
says — so `array()` is determined by the innermost frame and every Function Stop is consumed
by exactly the bracket the nesting says.  False before the repairs cc2477f, 07e33d8, 6963681,
fecba5e, 9c11688, d5de215, cdb1ef6 (each has a `fixed_*` witness that satisfies `nestedA`). -/
theorem eval_no_panic {V : Type} (S : Sem V) (toks : List Tok) (hnest : nestedA [] [] toks = true) :
    evalTokens S toks ≠ .panic :=
  run_invA S toks {} [] [] invA_init hnest

/-- the hypothesis is satisfied by the token lists of the five repaired defects and by ordinary
array formulas (non-vacuity of `eval_no_panic` on array constants) -/
theorem nestedA_witnesses :
    nestedA [] [] witnessArray = true ∧ nestedA [] [] witnessOpFn = true ∧
    nestedA [] [] witnessArraySep = true ∧ nestedA [] [] witnessArrayParenFn = true ∧
    nestedA [] [] witnessNestedArray = true := by decide

/-- the shape `nestedA` used to exclude — a row opened and closed UNDERNEATH a parenthesis inside an array
constant whose first row a stray `)` closed; efp does emit it, for `{1)(ARRAYROW(2))}` — is inside the
discipline now (rows and array constants are found through parentheses, as `array()` of calc.go finds
them), so `eval_no_panic` covers it; likewise a row or a constant closed across an open parenthesis. -/
theorem nestedA_rows_through_parentheses :
    nestedA [] [] [fstart "ARRAY", fstart "ARRAYROW", num "1", fstop, ⟨"", .subexpr, .start⟩, fstart "ARRAYROW",
      num "2", fstop, ⟨"", .subexpr, .stop⟩, fstop, fstop] = true ∧
    nestedA [] [] [fstart "SUM", fstart "ARRAY", ⟨"", .subexpr, .start⟩, fstart "ARRAYROW", num "2", fstop, fstop,
      ⟨"", .subexpr, .stop⟩, fstop] = true := by decide

/-! ## deep nesting ("deep nesting … in bounded time without panicking": no stack overflow) -/

/-- **Stack heights are linear in the formula length, whatever the nesting depth.**
`evalInfixExp` does not recurse on the structure of the formula: the model's `run` is the
token loop (`run_eq_runSt`), and every inner loop (`popLoop`, `closeParen`, `flushToSep`,
`drain`) recurses structurally on one of the six explicit stacks.  After any prefix of `k`
tokens — for every value semantics, nesting depth and arity, well-formed or not — the six
stacks together hold at most `5·k` elements, so each inner loop runs at most `5·k` times and
the Go call stack stays at a constant number of frames.  (Recursion through cell references
is bounded by `cycle_cutoff_terminates`; recursion inside formula functions is not modelled.)
Tied by the worker oracle on 10 000 / 100 000 nested parentheses, unary minus, `%`, nested
SUM/IF and 10 000-term operator chains (`txt/deep`). -/
theorem stack_heights_linear {V : Type} (S : Sem V) (toks : List Tok) (st : St V)
    (h : runSt S {} toks = .ok st) : size st ≤ 5 * toks.length := by
  have := runSt_size S toks {} st h
  simpa [size] using this

/-- the evaluation is the token loop followed by the final drain -/
theorem eval_is_token_loop {V : Type} (S : Sem V) (toks : List Tok) :
    evalTokens S toks = (match runSt S {} toks with
      | .ok st => finish S st
      | .err => .err
      | .panic => .panic) := run_eq_runSt S toks {}

/-- **The six-stack machine is deterministic: two runs agree.**  The result of `evalInfixExp`
(value, returned error or panic) and every intermediate stack state are a function of the
token list and of the *pointwise behaviour* of the value semantics alone: two runs over the
same tokens whose thirteen semantic operations (`tokenToFormulaArg`, the operator functions,
reference resolution, `callFuncByName`, …) answer equally on every argument — not necessarily
the same closures — end in the same outcome and pass through the same states.  The machine
has no input besides `(tokens, Sem)`: no clock, no map iteration order, no state surviving
from an earlier evaluation (each run starts from the empty stacks `{}`).  Over the model tied
by the `ev` transcript; on the real code two evaluations are compared by the twice-equality
oracles. -/
theorem eval_tokens_deterministic {V : Type} (S T : Sem V) (toks₁ toks₂ : List Tok)
    (htoks : toks₁ = toks₂)
    (hofTok : ∀ t, S.ofTok t = T.ofTok t) (hneg : ∀ v, S.neg v = T.neg v)
    (hpct : ∀ v, S.pct v = T.pct v) (hsub : ∀ a b, S.sub2 a b = T.sub2 a b)
    (hbin : ∀ op a b, S.bin op a b = T.bin op a b) (hres : ∀ r, S.resolve r = T.resolve r)
    (hkind : ∀ v, S.refKind v = T.refKind v) (hval : ∀ v, S.refVal v = T.refVal v)
    (hcall : ∀ f args, S.callFn f args = T.callFn f args) (hisErr : ∀ v, S.isErr v = T.isErr v)
    (hhead : ∀ v, S.matHead v = T.matHead v) (hmk : ∀ m, S.mkMatrix m = T.mkMatrix m)
    (herr : S.errArg = T.errArg) :
    evalTokens S toks₁ = evalTokens T toks₂ ∧ runSt S {} toks₁ = runSt T {} toks₂ := by
  have hST : S = T := by
    cases S; cases T
    simp only [Sem.mk.injEq]
    exact ⟨funext hofTok, funext hneg, funext hpct, funext fun a => funext (hsub a),
      funext fun op => funext fun a => funext (hbin op a), funext hres, funext hkind,
      funext hval, funext fun f => funext (hcall f), funext hisErr, funext hhead, funext hmk, herr⟩
  subst hST; subst htoks; exact ⟨rfl, rfl⟩

/-! ## termination on circular references ("in bounded time … circular reference chains of any shape") -/

/-- **Cycle cut-off terminates.**  For EVERY reference graph (any shape, any size, any
per-formula reference lists, early exits included), every `MaxCalcIterations = M` and every
entry cell: with fuel `(M+1)·F + 1` (F = number of formula cells) `calcCellValue` returns;
it is entered at most `(M+1)·F + 1` times and no reference is evaluated more than `M+1`
times.  Measure: `Σ_ref (M + 1 − iterations ref)`. -/
theorem cycle_cutoff_terminates {V : Type} (G : Graph V) (M entry : Nat) (fc : List Nat)
    (hn : fc.Nodup) (hfc : ∀ r, G.isFormula r = true → r ∈ fc) :
    ∃ v c, calcEntry G M ((M + 1) * fc.length + 1) entry = some (v, c) ∧
      c.calls ≤ (M + 1) * fc.length + 1 ∧ ∀ r, c.iterations r ≤ M + 1 := by
  have hmu : mu M fc (Ctx.init : Ctx V) = (M + 1) * fc.length := mu_init M fc
  obtain ⟨v, c, h, g⟩ := calcCell_good G M entry fc hn hfc ((M + 1) * fc.length + 1) Ctx.init entry (by omega)
  refine ⟨v, c, h, ?_, ?_⟩
  · have := g.calls
    have h0 : (Ctx.init : Ctx V).calls = 0 := rfl
    omega
  · exact g.iters (fun r => by show 0 ≤ M + 1; omega)

/-- **Determinism of the cut-off evaluation.**  The context is created per call, so the
result is a function of (workbook, entry cell); in particular it does not depend on how
much fuel (stack) is available beyond the bound. -/
theorem eval_deterministic {V : Type} (G : Graph V) (M entry : Nat) (fc : List Nat)
    (hn : fc.Nodup) (hfc : ∀ r, G.isFormula r = true → r ∈ fc) (f1 f2 : Nat)
    (h1 : (M + 1) * fc.length + 1 ≤ f1) (h2 : (M + 1) * fc.length + 1 ≤ f2) :
    calcEntry G M f1 entry = calcEntry G M f2 entry ∧ (calcEntry G M f1 entry).isSome = true := by
  obtain ⟨v, c, h, _⟩ := cycle_cutoff_terminates G M entry fc hn hfc
  have e1 := calcCell_mono_le G M entry _ f1 h1 Ctx.init entry _ h
  have e2 := calcCell_mono_le G M entry _ f2 h2 Ctx.init entry _ h
  unfold calcEntry at *
  rw [e1, e2]
  exact ⟨rfl, rfl⟩

/-- **The cut-off's state, as the source has it** (regenerated facts).  In the whole package the two maps
of `calcContext` are created once per `CalcCellValue` and written by exactly one `++` and one cache
assignment, both in `cellResolver`; no other statement mentions them (4 selector expressions: guard,
`++`, cache write, cache read — an alias would add one); the cut-off branch is, in order,
`iterations[ref]++; unlock; arg = calcCellValue(…); iterationsCache[ref] = arg; return arg`
and the refusal path returns the cache entry.  This is what `resolveAll` transcribes
(`bump`, `rec`, `setCache`); a decrement or a reset of a counter (the seeded change C09d/1) breaks it. -/
theorem cutoff_state_machine_facts :
    Facts.C09.ctxCounterWrites =
      ["CalcCellValue: iterations: make(map[string]uint)",
       "CalcCellValue: iterationsCache: make(map[string]formulaArg)",
       "cellResolver: ctx.iterationsCache[ref] = arg",
       "cellResolver: ctx.iterations[ref]++"] ∧
    Facts.C09.ctxCounterMentions = 4 ∧
    Facts.C09.cutoffBranch =
      ["ctx.iterations[ref]++", "ctx.mu.Unlock()", "arg, _ = f.calcCellValue(ctx, sheet, cell)",
       "ctx.iterationsCache[ref] = arg", "return arg, nil"] ∧
    Facts.C09.cutoffRefused = ["ctx.mu.Unlock()", "return ctx.iterationsCache[ref], nil"] := by decide

/-- **Distinct references never share a counter or a cached answer.**  The visit counters and
the result cache of one `CalcCellValue` are keyed by the reference: bumping the counter of `r`
leaves the counter of every other reference and the whole cache unchanged; storing the answer of
`r` leaves every other cache entry and every counter unchanged, and the entry read back for `r`
is the one stored for `r`.  In the Go code the key is a string; the regenerated fact
`ctxKeyExprs` pins that `cellResolver` (`ref :=`) and `CalcCellValue` (`entry:`) build it by the
SAME expression `fmt.Sprintf("%s!%s", sheet, cell)`, and `keyOf_injective` shows that this
expression is injective on (sheet, cell) whenever the cell name contains no `!` (cell names are
letters, digits and `$`; the sheet name may contain anything, `!` included): the key splits at
its last `!`.  So the model's "reference = `Nat`" loses nothing. -/
theorem cutoff_keys_independent {V : Type} (c : Ctx V) (r r' : Nat) (v : V) (h : r' ≠ r) :
    (bump c r).iterations r' = c.iterations r' ∧ (bump c r).cache = c.cache ∧
    (setCache c r v).cache r' = c.cache r' ∧ (setCache c r v).cache r = some v ∧
    (setCache c r v).iterations = c.iterations := by
  refine ⟨?_, ?_, ?_, ?_, rfl⟩
  · unfold bump; split <;> simp [h]
  · unfold bump; split <;> rfl
  · simp [setCache, h]
  · simp [setCache]

/-- `fmt.Sprintf("%s!%s", sheet, cell)` on character lists -/
def keyOf (sheet cell : List Char) : List Char := sheet ++ '!' :: cell

/-- the key expression is injective when the cell names contain no `!` -/
theorem keyOf_injective : ∀ (s₁ s₂ c₁ c₂ : List Char), '!' ∉ c₁ → '!' ∉ c₂ →
    keyOf s₁ c₁ = keyOf s₂ c₂ → s₁ = s₂ ∧ c₁ = c₂ := by
  intro s₁
  induction s₁ with
  | nil =>
    intro s₂ c₁ c₂ h1 h2 h
    cases s₂ with
    | nil => simpa [keyOf] using h
    | cons x s₂ =>
      simp only [keyOf, List.nil_append, List.cons_append, List.cons.injEq] at h
      exact absurd (h.2 ▸ (by simp : '!' ∈ s₂ ++ '!' :: c₂)) h1
  | cons a s₁ ih =>
    intro s₂ c₁ c₂ h1 h2 h
    cases s₂ with
    | nil =>
      simp only [keyOf, List.nil_append, List.cons_append, List.cons.injEq] at h
      exact absurd (h.2 ▸ (by simp : '!' ∈ s₁ ++ '!' :: c₁)) h2
    | cons x s₂ =>
      simp only [keyOf, List.cons_append, List.cons.injEq] at h
      obtain ⟨hs, hc⟩ := ih s₂ c₁ c₂ h1 h2 h.2
      exact ⟨by rw [h.1, hs], hc⟩

/-- the key of the counters and of the cache is built by one and the same expression at both
sites, with the separator `!` between sheet and cell (regenerated from calc.go) -/
theorem cutoff_key_fact :
    Facts.C09.ctxKeyExprs =
      ["cellResolver: ref := fmt.Sprintf(\"%s!%s\", sheet, cell)",
       "CalcCellValue: entry: fmt.Sprintf(\"%s!%s\", sheet, cell)"] := by decide

/-- **The visit counters only grow** during one `CalcCellValue` (every reference graph, every fuel):
the cut-off is a monotone state machine, which is what makes `mu` a measure. -/
theorem cutoff_counters_monotone {V : Type} (G : Graph V) (M entry fuel : Nat) (v : V) (c : Ctx V)
    (h : calcEntry G M fuel entry = some (v, c)) : ∀ r, (Ctx.init : Ctx V).iterations r ≤ c.iterations r :=
  calcCell_iter_mono G M entry fuel Ctx.init entry v c h

/-- **Bounded work.**  If no formula has more than `R` operands (range operands expanded), one
`CalcCellValue` enters `cellResolver` at most `R · ((M+1)·F + 1)` times: the work is bounded by a
function of the number of formula cells `F`, the iteration limit `M` and the widest formula — on every
reference graph, cyclic or not, however many paths lead to a shared precedent. -/
theorem cycle_work_bounded {V : Type} (G : Graph V) (M entry R : Nat) (fc : List Nat)
    (hn : fc.Nodup) (hfc : ∀ r, G.isFormula r = true → r ∈ fc)
    (hR : ∀ cell, (G.refs cell).length ≤ R) :
    ∃ v c, calcEntry G M ((M + 1) * fc.length + 1) entry = some (v, c) ∧
      c.calls ≤ (M + 1) * fc.length + 1 ∧ c.resolves ≤ R * ((M + 1) * fc.length + 1) := by
  obtain ⟨v, c, h, hc, _⟩ := cycle_cutoff_terminates G M entry fc hn hfc
  refine ⟨v, c, h, hc, ?_⟩
  have w := calcCell_work G M entry R hR _ Ctx.init entry v c h
  unfold Work at w
  have h0 : (Ctx.init : Ctx V).calls = 0 := rfl
  have h1 : (Ctx.init : Ctx V).resolves = 0 := rfl
  rw [h0, h1] at w
  have := Nat.mul_le_mul_left R hc
  omega

/-! ## state outside the context: lazy array-formula expansion ("returns the same answer every time it is asked") -/

/-- the flag is set only after a successful expansion (regenerated from cell.go) -/
theorem lazy_flag_fact : Facts.C09.flagSetBeforeExpansion = false := by decide

/-- **The answer does not depend on how often the workbook was evaluated before.**  For every
workbook content (expansion fails or not), every cell and every number `k` of earlier
evaluations on the same `*File`, the next answer equals the answer of a freshly opened
`*File`. -/
theorem lazy_answer_history_independent (expandFails : Bool) (cellAns : Ans) (k : Nat) :
    (evalLazy expandFails cellAns (stateAfter expandFails cellAns k)).1 =
      (evalLazy expandFails cellAns ⟨false⟩).1 := by
  have hf := lazy_flag_fact
  -- every reachable state is the initial one, or `checked` after a successful expansion
  have key : ∀ st : LazySt, (st = ⟨false⟩ ∨ (st = ⟨true⟩ ∧ expandFails = false)) →
      ((evalLazy expandFails cellAns st).1 = (evalLazy expandFails cellAns ⟨false⟩).1 ∧
       ((evalLazy expandFails cellAns st).2 = ⟨false⟩ ∨
        ((evalLazy expandFails cellAns st).2 = ⟨true⟩ ∧ expandFails = false))) := by
    intro st h
    rcases h with h | ⟨h, he⟩
    · subst h
      cases expandFails <;> simp [evalLazy, hf]
    · subst h; subst he
      simp [evalLazy, hf]
  have inv : ∀ k, (stateAfter expandFails cellAns k = ⟨false⟩ ∨
      (stateAfter expandFails cellAns k = ⟨true⟩ ∧ expandFails = false)) := by
    intro k
    induction k with
    | zero => exact Or.inl rfl
    | succ k ih => exact (key _ ih).2
  exact (key _ (inv k)).1

/-- the same in transcript form: `n` consecutive evaluations give `n` equal answers -/
theorem lazy_answers_constant (expandFails : Bool) (cellAns : Ans) (n : Nat) :
    (runLazy expandFails cellAns n ⟨false⟩).map (·.1) =
      List.replicate n (evalLazy expandFails cellAns ⟨false⟩).1 := by
  have hf := lazy_flag_fact
  cases expandFails
  · -- expansion succeeds: after the first evaluation the flag is set and the cell answer is repeated
    have h2 : ∀ n, (runLazy false cellAns n ⟨true⟩).map (·.1) = List.replicate n cellAns := by
      intro n
      induction n with
      | zero => rfl
      | succ n ih => simp [runLazy, evalLazy, List.replicate_succ, ih]
    cases n with
    | zero => rfl
    | succ n => simp [runLazy, evalLazy, hf, List.replicate_succ, h2]
  · -- expansion fails: the flag stays clear and every evaluation reports the error
    induction n with
    | zero => rfl
    | succ n ih =>
      simp only [runLazy, List.map_cons, List.replicate_succ]
      have : (evalLazy true cellAns ⟨false⟩) = (.error, ⟨false⟩) := by simp [evalLazy, hf]
      rw [this] at ih ⊢
      simp only [List.cons.injEq, true_and]
      exact ih

/-! ## purity ("evaluation never modifies the workbook") for the modelled state -/

/-- **Every write of the evaluator is in the frame.**  Each assignment to a field or element in
the evaluator's own functions (regenerated: `Facts.C09.evalWrites`) is a write to the per-call
context, to a local value, to `File.formulaChecked` or to the lazily written `xlsxC.f`; each
method they call on the workbook objects (`Facts.C09.evalCalls`) is one of the evaluator's
own functions, a lock, a reader (C04) or `prepareSheetXML` (empty slots).  A new assignment
or callee in calc.go / cell.go breaks this theorem. -/
theorem eval_frame_modelled :
    (∀ w ∈ Facts.C09.evalWrites, (classifyWrite w).isSome = true) ∧
    (∀ c ∈ Facts.C09.evalCalls, (classifyCall c).isSome = true) := by decide

/-- **The function library stays inside the frame** (regenerated): inside the 455+ methods of
`formulaFuncs` the workbook `fn.f` is only used through readers, the evaluator itself
(`cellResolver` in the running context — ANCHORARRAY, since repository fix 43a1923 —, `parseReference`) and the options; it is never handed to
anything else, and no method assigns through its receiver or through a worksheet.  So the traces
`eval_pure` quantifies over cover the library as well. -/
theorem library_frame_modelled :
    (∀ u ∈ Facts.C09.libWorkbookUses, (classifyLibUse u).isSome = true) ∧
    Facts.C09.libWorkbookBare = 0 ∧ Facts.C09.libReceiverWrites = [] := by decide

/-- **`eval_pure`: `Obs (evalState wb c).2 = Obs wb` for the modelled state.**  Whatever sequence
of framed writes an evaluation performs (flag, lazy `c.f`, materialised empty slots, lazily
decoded parts, context, locals), what the public getters read is unchanged. -/
theorem eval_pure {O : Type} (trace : List Write) (wb : WbState O) :
    (evalState trace wb).obs = wb.obs := by
  unfold evalState
  induction trace generalizing wb with
  | nil => rfl
  | cons w ws ih =>
    simp only [List.foldl_cons]
    rw [ih]
    cases w <;> rfl

/-- and the internal components only grow (nothing decoded or materialised is dropped) -/
theorem eval_internal_monotone {O : Type} (trace : List Write) (wb : WbState O) :
    (wb.checked = true → (evalState trace wb).checked = true) ∧
    (∀ c ∈ wb.lazyF, c ∈ (evalState trace wb).lazyF) ∧ (∀ c ∈ wb.slots, c ∈ (evalState trace wb).slots) := by
  unfold evalState
  induction trace generalizing wb with
  | nil => exact ⟨id, fun _ h => h, fun _ h => h⟩
  | cons w ws ih =>
    simp only [List.foldl_cons]
    have := ih (applyWrite wb w)
    refine ⟨fun h => this.1 ?_, fun c h => this.2.1 c ?_, fun c h => this.2.2 c ?_⟩
    · cases w <;> simp [applyWrite, h]
    · cases w <;> simp [applyWrite, h]
    · cases w <;> simp [applyWrite, h]

/-! ## non-vacuity -/

/-- a two-cell cycle A = B + 1, B = A + 1 evaluated at A with M = 0: B is evaluated once,
reads the entry as blank (0), so A = 2 — the value the real code returns (transcript `cyc`). -/
def twoCycle : Graph Int where
  isFormula := fun _ => true
  refs := fun i => if i = 0 then [1] else [0]
  cont := fun _ _ => true
  combine := fun _ vs => vs.foldl (· + ·) 1
  leaf := fun _ => 0
  blank := 0

theorem two_cycle_value : (calcEntry twoCycle 0 3 0).map (·.1) = some 2 := by decide

/-- the nesting hypothesis is satisfiable by a non-trivial list: `SUM(1,(2+3))*MAX(4)` followed by a stray `)` -/
theorem nested_example :
    nested [] 0 [fstart "SUM", num "1", ⟨",", .argument, .nothing⟩, ⟨"", .subexpr, .start⟩, num "2",
      ⟨"+", .opInfix, .math⟩, num "3", ⟨"", .subexpr, .stop⟩, fstop, ⟨"*", .opInfix, .math⟩, fstart "MAX",
      num "4", fstop, fstop] = true := by decide

/-- the balanced hypothesis is satisfiable by a non-trivial list: `(1+2)*3` -/
theorem balanced_example :
    balanced 0 [⟨"", .subexpr, .start⟩, num "1", ⟨"+", .opInfix, .math⟩, num "2", ⟨"", .subexpr, .stop⟩,
      ⟨"*", .opInfix, .math⟩, num "3"] = true := by decide

end XlModel.Props.C09
